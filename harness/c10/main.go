// c10: completed connections are mutual, correctly attributed and cannot be re-pointed.
// Three real aries.Framework instances (alice, bob, mallory) on an in-process network whose scheduler delivers
// one packed message at a time in a seeded order; every honest agent's inputs and reactions are also printed
// as a Gallina case for the model of coq/C10.
package main

import (
	"crypto/ed25519"
	"encoding/base64"
	"encoding/json"
	"fmt"
	"os"
	"path/filepath"
	"sort"
	"strings"
	"sync"
	"time"

	"github.com/btcsuite/btcutil/base58"
	"github.com/google/uuid"

	dxclient "github.com/hyperledger/aries-framework-go/pkg/client/didexchange"
	lcclient "github.com/hyperledger/aries-framework-go/pkg/client/legacyconnection"
	medclient "github.com/hyperledger/aries-framework-go/pkg/client/mediator"
	oobclient "github.com/hyperledger/aries-framework-go/pkg/client/outofband"
	oob2client "github.com/hyperledger/aries-framework-go/pkg/client/outofbandv2"
	arieslog "github.com/hyperledger/aries-framework-go/pkg/common/log"
	"github.com/hyperledger/aries-framework-go/pkg/common/model"
	"github.com/hyperledger/aries-framework-go/pkg/didcomm/common/service"
	"github.com/hyperledger/aries-framework-go/pkg/didcomm/protocol/decorator"
	mediatorsvc "github.com/hyperledger/aries-framework-go/pkg/didcomm/protocol/mediator"
	"github.com/hyperledger/aries-framework-go/pkg/doc/did"
	"github.com/hyperledger/aries-framework-go/pkg/kms"
	"github.com/hyperledger/aries-framework-go/pkg/vdr/fingerprint"
	spilog "github.com/hyperledger/aries-framework-go/spi/log"

	"verifharness/hx"
)

var verbose = os.Getenv("VERIF_LOG") != ""

const settle = 40 * time.Second

// Exch is one exchange of a case.
type Exch struct {
	Inviter string `json:"inviter"`
	Invitee string `json:"invitee"`
	Style   string `json:"style"` // dx | oob | implicit | legacy
	// Forge: while the inviter's genuine response is in flight, mallory, who knows the thread id (the invitation's @id),
	// delivers a response of her own making on that thread first.  Legacy: "key" = connection~sig made with her own key
	// and saying so, "liar" = naming the invitation key as signer.  DID Exchange: "impostor" = a new DID with a document
	// pointing to her endpoint, "inviter-did" = the inviter's own DID with such a document, "signed" = as impostor with
	// did_doc~attach signed by her key.
	Forge string `json:"forge,omitempty"`
}

// Attack is one adversarial act of mallory.
type Attack struct {
	Kind   string `json:"kind"`
	Target string `json:"target"`
	// Spell: the victim's DID is written in another spelling wherever the attack names it (request did, attached
	// document id, from, initialState, from_prior iss): "case" (letter case of the method-specific id swapped), "scheme"
	// (DID:PEER:), "space" (trailing blank), "pct" (one character percent-encoded).
	Spell string `json:"spell,omitempty"`
	// Fresh: the documents mallory presents in this attack carry a key pair she has just made (never seen by anybody, linked
	// to nothing) instead of the key of her own connection; afterwards she sends an application message packed with that key.
	Fresh bool `json:"fresh,omitempty"`
}

func spellDID(d, how string) string {
	i := strings.LastIndex(d, ":")
	if i < 0 || i+2 >= len(d) {
		return d
	}

	switch how {
	case "case":
		b := []byte(d)
		for j := i + 1; j < len(b); j++ {
			switch {
			case b[j] >= 'a' && b[j] <= 'z':
				b[j] -= 32
			case b[j] >= 'A' && b[j] <= 'Z':
				b[j] += 32
			}
		}

		return string(b)
	case "scheme":
		return strings.ToUpper(d[:i+1]) + d[i+1:]
	case "space":
		return d + " "
	case "pct":
		return d[:i+2] + fmt.Sprintf("%%%02X", d[i+2]) + d[i+3:]
	}

	return d
}

// Spec is a replayable case.
type Spec struct {
	Cfg     Config   `json:"cfg"`
	Exch    []Exch   `json:"exch"`
	Attacks []Attack `json:"attacks"`
	// Late: exchanges started after the first ones have completed; when present, the attacks are not sent one after
	// the other at the end but interleaved (seeded) with the messages of these exchanges.
	Late []Exch `json:"late,omitempty"`
	// Mode "sync": every packed message is delivered inside the sender's Send call and the call returns only when
	// the receiver has finished reacting (its own replies delivered the same way): replies race the sender's persistence.
	Mode string `json:"mode,omitempty"`
	// Restart: "target" = the attacked agents (both honest agents when there is no attack) are stopped and started
	// again over their persisted stores between the honest part and the attacks; "random" = additionally an honest
	// agent is restarted between two steps of the schedule with probability 1/6.
	Restart string `json:"restart,omitempty"`
	// Mediated: alice and bob sit behind a mediator (a fourth real framework running the route coordination service):
	// their invitations and DID documents carry the mediator's endpoint and routing keys, every message between them is
	// wrapped in a forward message and passed on by the mediator.
	Mediated bool   `json:"mediated,omitempty"`
	Seed     uint64 `json:"seed"`
	Note     string `json:"note,omitempty"`
}

type exchRun struct {
	Exch
	inviteeConn string
	invID       string
	invKey      string
	invEP       string
	accept      func() (string, error)
	proto       string
	done        bool
	forged      bool
	forgedDID   string
	v2          bool
	acceptV2    func() (string, error)
	x, y        *Rec // inviter / invitee record once completed
	resX, resY  string
}

type result struct {
	fail   string // sig of the first oracle failure
	detail string
	obs    map[string]interface{}
}

func (r *result) failf(sig, f string, args ...interface{}) {
	if r.fail == "" {
		r.fail, r.detail = sig, fmt.Sprintf(f, args...)
	}
}

type runner struct {
	w    *World
	rng  *hx.Rng
	res  *result
	exs  []*exchRun
	spec *Spec
	// pending: steps that became possible while the schedule was running (the first message over a DIDComm v2 connection,
	// the other side's answer to it): drain picks them up and interleaves them like the others
	pending []func()
	pubV2   map[string]string // inviter -> the public DID its DIDComm v2 invitations come from
	waiting int               // local steps still waiting while one of them runs
}

// ---------- one step on an agent, with trace ----------

type preState struct {
	recs    map[string]bool
	logLen  int
	handled int
	dids    map[string]bool
}

func (r *runner) pre(a *Agent) *preState {
	p := &preState{recs: map[string]bool{}, dids: map[string]bool{}}
	for _, rec := range a.AllRecords() {
		p.recs[rec.ConnID] = true
	}

	r.w.net.mu.Lock()
	p.logLen = len(r.w.net.Log)
	r.w.net.mu.Unlock()

	a.mu.Lock()
	p.handled = len(a.handled)
	for d := range a.putDIDs {
		p.dids[d] = true
	}
	a.mu.Unlock()

	return p
}

// post records the input and what followed it in the agent's trace.
func (r *runner) post(a *Agent, p *preState, input func(cid int, my string) string, rejected bool, inboundDocID string) {
	t := r.w.tr[a.Name]
	if t == nil {
		return
	}

	newC := ""
	for _, rec := range a.AllRecords() {
		if !p.recs[rec.ConnID] {
			newC = rec.ConnID
		}
	}

	var my *DocAbs

	a.mu.Lock()
	var newDIDs []string
	for d := range a.putDIDs {
		if !p.dids[d] && d != inboundDocID {
			newDIDs = append(newDIDs, d)
		}
	}
	a.mu.Unlock()
	sort.Strings(newDIDs)

	// the document the agent drew for itself in this step: it names the agent's own endpoint (also when no destination
	// can be made of it: the legacy service lists a raw key in a did-communication block)
	for _, d := range newDIDs {
		if dr, err := a.ctx.VDRegistry().Resolve(d); err == nil && dr.DIDDocument != nil {
			abs := absDoc(dr.DIDDocument)
			own := abs.EP == a.Endpoint

			for _, sv := range abs.Svcs {
				if sv.EP == a.Endpoint {
					own = true
				}
			}

			if own {
				my = abs
			}
		}
	}

	var outs []string

	r.w.net.mu.Lock()
	sent := append([]*Packet{}, r.w.net.Log[p.logLen:]...)
	r.w.net.mu.Unlock()

	for _, pk := range sent {
		if pk.From != a.Name {
			continue
		}

		r.w.net.Peek(pk)

		m := r.w.cMsg(pk)
		if m == "" {
			r.w.noCoq("a message the agent sent could not be opened by the scheduler (packed for key ids nobody holds): " + pk.Type)
		}

		ks := make([]int, len(pk.DestKeys))
		for i, k := range pk.DestKeys {
			ks[i] = r.w.key(k)
		}

		outs = append(outs, fmt.Sprintf("OSend %d %s %s", r.w.ep(pk.To), nList(ks), m))
	}

	a.mu.Lock()
	for _, h := range a.handled[p.handled:] {
		outs = append(outs, fmt.Sprintf("OHandled %d %d", r.w.did(h.MyDID), r.w.did(h.TheirDID)))
	}
	a.mu.Unlock()

	if rejected {
		outs = append(outs, "OReject")
	}

	// the model has no failing send: a request whose reply could not be packed/posted (the record is abandoned although
	// the agent had already drawn its own DID for it) is left to the direct oracle
	if newC != "" && len(outs) == 0 {
		if rec := a.Record(newC); rec != nil && rec.State == "abandoned" && rec.MyDID != "" && rec.NS == "their" {
			r.w.noCoq("the agent's reply to a request could not be packed or posted")
		}
	}

	t.inputs = append(t.inputs, input(r.w.cid(newC), r.w.cDoc(my)))
	t.obs = append(t.obs, r.w.snapshot(t, outs))
}

func plainStr(p *Packet, k string) string {
	if p.Plain == nil {
		return ""
	}

	s, _ := p.Plain[k].(string)

	return s
}

// settleLCRequest waits until the legacy service has finished reacting to a request: either it announced responded, or
// its action event was continued and its listener has finished the callback (an error there leaves no trace but the
// record staying in state requested).
func (r *runner) settleLCRequest(dst *Agent, thid string, ev0, c0 int) bool {
	ok := dst.waitFor(settle, func() bool { return dst.countEventsLocked(thid) > ev0 || dst.continued[thid] > c0 })
	if ok && dst.countEvents(thid) <= ev0 {
		dst.lcSettled()
	}

	return ok
}

// deliverCore hands one packet to its destination and waits until the agent has finished reacting to it.
func (r *runner) deliverCore(p *Packet) {
	w := r.w
	w.net.Peek(p)

	dst := w.agentAt(p.To)
	if dst == nil {
		return
	}

	id := plainStr(p, "@id")
	sig0 := signals.count("m:" + id)
	ev0 := dst.countEvents(p.Thread)
	c0 := dst.contCount(p.Thread)

	w.net.Deliver(p)

	if p.UnpackErr != nil || p.HandlerErr != nil {
		return
	}

	ok := true

	switch p.Type {
	case dxRequest:
		ok = dst.waitFor(settle, func() bool { return dst.countEventsLocked(p.Thread) > ev0 })
	case lcRequest:
		ok = r.settleLCRequest(dst, p.Thread, ev0, c0)
	case dxResponse, dxComplete, lcResponse, lcAck:
		ok = signals.waitAbove("m:"+id, sig0, settle)
	}

	if !ok {
		w.setInconclusive("no reaction to " + p.Type + " within the deadline")
	}
}

// deliver hands one packet to its destination and waits until the agent has finished reacting to it.
func (r *runner) deliver(p *Packet) {
	w := r.w
	w.net.Peek(p)

	dst := w.agentAt(p.To)
	if dst == nil {
		return
	}

	pre := r.pre(dst)
	id := plainStr(p, "@id")
	sig0 := signals.count("m:" + id)
	ev0 := dst.countEvents(p.Thread)
	c0 := dst.contCount(p.Thread)

	w.net.Deliver(p)

	if p.UnpackErr != nil {
		return // nothing reached the agent
	}

	if p.HandlerErr == nil {
		ok := true

		switch p.Type {
		case dxRequest:
			ok = dst.waitFor(settle, func() bool { return dst.countEventsLocked(p.Thread) > ev0 })
		case lcRequest:
			ok = r.settleLCRequest(dst, p.Thread, ev0, c0)
		case dxResponse, dxComplete, lcResponse, lcAck:
			ok = signals.waitAbove("m:"+id, sig0, settle)
		}

		if !ok {
			w.setInconclusive("no reaction to " + p.Type + " within the deadline")
		}
	}

	m := w.cMsg(p)
	if m == "" {
		if w.tr[dst.Name] != nil {
			w.noCoq("inbound message outside the model's vocabulary: " + p.Type)
		}

		return
	}

	docID := ""
	if d := attachedDoc(p.Plain); d != nil {
		docID = d.ID
	}

	if from := plainStr(p, "from"); strings.Contains(from, "initialState=") {
		if d := initialStateDoc(from); d != nil {
			docID = d.ID
		}
	}

	if p.Type == lcRequest {
		if _, d := legacyConn(p.Plain["connection"]); d != nil {
			docID = d.ID
		}
	}

	if p.Type == lcResponse {
		if _, d, _ := legacySigned(p.Plain["connection~sig"]); d != nil {
			docID = d.ID
		}
	}

	r.post(dst, pre, func(c int, my string) string { return fmt.Sprintf("IRecv %s %d %s", m, c, my) }, p.HandlerErr != nil, docID)
}

// setupMediation starts the mediator and registers alice and bob with it (over connections of their own with it).
func (r *runner) setupMediation() error {
	w := r.w

	R, err := NewAgent(w.net, "router", r.spec.Cfg)
	if err != nil {
		return err
	}

	w.R = R

	medR, err := medclient.New(R.ctx)
	if err != nil {
		return err
	}

	ch := make(chan service.DIDCommAction, 16)
	if err := medR.RegisterActionEvent(ch); err != nil {
		return err
	}

	go service.AutoExecuteActionEvent(ch)

	w.net.SetHold(false)

	for _, x := range []*Agent{w.A, w.B} {
		inv, err := R.dx.CreateInvitation("router")
		if err != nil {
			return err
		}

		c, err := x.dx.HandleInvitation(inv)
		if err != nil {
			return err
		}

		if !x.WaitState(c, "completed", settle) {
			w.setInconclusive("no connection with the mediator within the deadline")

			return nil
		}

		th := x.Record(c).ThreadID

		if !R.waitFor(settle, func() bool {
			for _, e := range R.states {
				if e.Post && e.Thid == th && e.State == "completed" {
					return true
				}
			}

			return false
		}) {
			w.setInconclusive("the mediator did not complete its connection within the deadline")

			return nil
		}

		mc, err := medclient.New(x.ctx)
		if err != nil {
			return err
		}

		if err := mc.Register(c); err != nil {
			return fmt.Errorf("register with the mediator: %w", err)
		}

		x.mu.Lock()
		x.routerConns = []string{c}
		x.mu.Unlock()
	}

	w.net.pending.Wait()

	svc, err := R.ctx.Service(mediatorsvc.Coordination)
	if err != nil {
		return err
	}

	fwd, ok := svc.(interface {
		VerifHandleForward(msg service.DIDCommMsg) error
	})
	if !ok {
		return fmt.Errorf("mediator service without the synchronous forward entry")
	}

	w.net.mu.Lock()
	w.net.hold = true
	w.net.router = R.Endpoint
	w.net.routerFwd = func(p *Packet) bool {
		env, err := R.inbound.prov.Packager().UnpackMessage(p.Data)
		if err != nil {
			return false
		}

		m, err := service.ParseDIDCommMsgMap(env.Message)
		if err != nil || (m.Type() != service.ForwardMsgType && m.Type() != service.ForwardMsgTypeV2) {
			return false
		}

		p.HandlerErr = fwd.VerifHandleForward(m)

		return true
	}
	w.net.mu.Unlock()

	return nil
}

func (a *Agent) routerConn() string {
	a.mu.Lock()
	defer a.mu.Unlock()

	if len(a.routerConns) == 0 {
		return ""
	}

	return a.routerConns[0]
}

// restart stops an honest agent and starts it again over its persisted stores (an input of the agent's history).
func (r *runner) restart(a *Agent) {
	pre := r.pre(a)

	if err := a.Restart(); err != nil {
		r.w.setInconclusive("restart failed: " + err.Error())

		return
	}

	r.res.obs["restarts"] = fmt.Sprint(r.res.obs["restarts"], a.Name[:1])
	r.post(a, pre, func(int, string) string { return "IRestart" }, false, "")
}

// drain delivers queued packets in a seeded order until the network is quiet.
func (r *runner) drain(local []func()) {
	for {
		if r.spec.Mediated && !r.w.net.WaitRouter(settle) {
			r.w.setInconclusive("the mediator did not come to rest within the deadline")

			return
		}

		local = append(local, r.pending...)
		r.pending = nil

		n := r.w.net.QueueLen()
		if n == 0 && len(local) == 0 {
			return
		}

		if r.spec.Restart == "random" && r.spec.Mode != "sync" && r.rng.Intn(6) == 0 {
			// one of the two honest agents, or (one time in five) both of them at the same point of the schedule
			switch r.rng.Intn(5) {
			case 0:
				r.restart(r.w.A)
				r.restart(r.w.B)
			case 1, 2:
				r.restart(r.w.A)
			default:
				r.restart(r.w.B)
			}
		}

		k := r.rng.Intn(n + len(local))
		if k < len(local) {
			f := local[k]
			local = append(local[:k:k], local[k+1:]...)
			r.waiting = len(local)
			f()
		} else {
			idx := k - len(local)
			i := 0
			p := r.w.net.Take(func(*Packet) bool { i++; return i-1 == idx }, time.Second)

			if p != nil {
				r.w.net.Peek(p)

				if p.Type == dxResponse {
					for _, e := range r.exs {
						if e.Forge != "" && !e.forged && e.Invitee != "mallory" && r.w.agentAt(p.To) == r.w.agent(e.Invitee) &&
							r.w.agent(e.Invitee).Record(e.inviteeConn) != nil && r.w.agent(e.Invitee).Record(e.inviteeConn).ThreadID == p.Thread {
							e.forged = true

							if err := r.forgeDXResponse(e, p); err != nil {
								r.res.obs["forge-skipped"] = err.Error()
							}
						}
					}
				}

				if p.Type == lcResponse {
					for _, e := range r.exs {
						if e.Forge != "" && !e.forged && e.Invitee != "mallory" && r.w.agentAt(p.To) == r.w.agent(e.Invitee) &&
							r.w.agent(e.Invitee).Record(e.inviteeConn) != nil && r.w.agent(e.Invitee).Record(e.inviteeConn).ThreadID == p.Thread {
							e.forged = true

							if err := r.forgeLegacyResponse(e, p); err != nil {
								r.res.obs["forge-skipped"] = err.Error()
							}
						}
					}
				}

				r.deliver(p)
			}
		}

		if r.w.inconclusive != "" {
			return
		}
	}
}

// ---------- the honest part ----------

func (r *runner) setup(e *exchRun) error {
	x, y := r.w.agent(e.Inviter), r.w.agent(e.Invitee)
	pre := r.pre(x)

	switch e.Style {
	case "dx":
		var iopts []dxclient.InvOpt
		if rc := x.routerConn(); rc != "" {
			iopts = append(iopts, dxclient.WithRouterConnectionID(rc))
		}

		inv, err := x.dx.CreateInvitation(e.Inviter, iopts...)
		if err != nil {
			return err
		}

		e.invID, e.proto = inv.ID, "DX"
		e.accept = func() (string, error) { return y.dx.HandleInvitation(inv) }
		r.post(x, pre, func(int, string) string {
			return fmt.Sprintf("ICreateInv %d %d", r.w.inv(inv.ID), r.w.key(inv.RecipientKeys[0]))
		}, false, "")
		e.invKey, e.invEP = inv.RecipientKeys[0], inv.ServiceEndpoint
	case "oob":
		oopts := []oobclient.MessageOption{oobclient.WithLabel(e.Inviter)}
		if rc := x.routerConn(); rc != "" {
			oopts = append(oopts, oobclient.WithRouterConnections(rc))
		}

		inv, err := x.oob.CreateInvitation(nil, oopts...)
		if err != nil {
			return err
		}

		e.invID, e.proto = inv.ID, "DX"
		e.accept = func() (string, error) {
			if rc := y.routerConn(); rc != "" {
				return y.oob.AcceptInvitation(inv, e.Invitee, oobclient.WithRouterConnections(rc))
			}

			return y.oob.AcceptInvitation(inv, e.Invitee)
		}

		if svc, ok := inv.Services[0].(*did.Service); ok && len(svc.RecipientKeys) > 0 {
			e.invKey = svc.RecipientKeys[0]
			e.invEP, _ = svc.ServiceEndpoint.URI()
		} else {
			r.w.noCoq("main.go#3")
		}

		r.post(x, pre, func(int, string) string {
			return fmt.Sprintf("ICreateInv %d %d", r.w.inv(inv.ID), r.w.key(e.invKey))
		}, false, "")
	case "implicit": // no invitation message: the invitee starts from the inviter's public DID
		id := "did:c10pub:" + e.Inviter + base58ish(r.rng, 8)

		doc, err := x.PublishDID(id)
		if err != nil {
			return err
		}

		e.invID, e.proto = id, "DX"
		e.invKey, e.invEP = doc.Service[0].RecipientKeys[0], x.Endpoint
		e.accept = func() (string, error) { return y.dx.CreateImplicitInvitation(e.Inviter, id) }
		r.post(x, pre, func(int, string) string {
			return fmt.Sprintf("ICreateInv %d %d", r.w.inv(id), r.w.key(e.invKey))
		}, false, "")
	case "oobv2": // out-of-band v2: no handshake, a DIDComm v2 connection by DID (the inviter is a public DID)
		// a public DID serves any number of invitations: four times in five the inviter invites from the one it has
		id := r.pubV2[e.Inviter]

		if id == "" || r.rng.Intn(5) == 0 {
			id = "did:c10pub:" + e.Inviter + base58ish(r.rng, 8)

			if _, err := x.PublishDIDv2(id); err != nil {
				return err
			}

			if r.pubV2 == nil {
				r.pubV2 = map[string]string{}
			}

			r.pubV2[e.Inviter] = id
		}

		inv, err := x.oob2.CreateInvitation(oob2client.WithFrom(id), oob2client.WithLabel(e.Inviter))
		if err != nil {
			return err
		}

		e.invID, e.proto, e.v2 = inv.ID, "V2", true
		e.acceptV2 = func() (string, error) { return y.oob2.AcceptInvitation(inv) }
		r.w.noCoq("DIDComm v2 connection: attribution by DID, outside the model")
	case "legacy-pubdid", "legacy-implicit": // legacy connection by public DID: the invitation key is the did:key of the DID document
		id := "did:c10pub:" + e.Inviter + base58ish(r.rng, 8)

		doc, err := x.PublishDID(id)
		if err != nil {
			return err
		}

		e.proto = "LC"
		e.invKey, e.invEP = doc.Service[0].RecipientKeys[0], x.Endpoint

		if e.Style == "legacy-implicit" {
			e.invID = id
			e.accept = func() (string, error) { return y.lc.CreateImplicitInvitation(e.Inviter, id) }
		} else {
			inv, err := x.lc.CreateInvitationWithDID(e.Inviter, id)
			if err != nil {
				return err
			}

			e.invID = inv.ID
			e.accept = func() (string, error) { return y.lc.HandleInvitation(inv) }
		}

		r.post(x, pre, func(int, string) string {
			return fmt.Sprintf("ICreateInv %d %d", r.w.inv(e.invID), r.w.key(e.invKey))
		}, false, "")
	case "legacy", "legacy-didkey":
		var lopts []lcclient.InvOpt
		if rc := x.routerConn(); rc != "" {
			lopts = append(lopts, lcclient.WithRouterConnectionID(rc))
		}

		inv, err := x.lc.CreateInvitation(e.Inviter, lopts...)
		if err != nil {
			return err
		}

		if e.Style == "legacy-didkey" { // an inviter that writes its recipient key as did:key (RFC 0360)
			if raw := base58.Decode(inv.RecipientKeys[0]); len(raw) == ed25519.PublicKeySize && !strings.HasPrefix(inv.RecipientKeys[0], "did:") {
				cp := *inv.Invitation
				dk, _ := fingerprint.CreateDIDKey(raw)
				cp.RecipientKeys = []string{dk}
				inv = &lcclient.Invitation{Invitation: &cp}
			}
		}

		e.invID, e.proto = inv.ID, "LC"
		e.accept = func() (string, error) { return y.lc.HandleInvitation(inv) }
		e.invKey, e.invEP = inv.RecipientKeys[0], inv.ServiceEndpoint
		r.post(x, pre, func(int, string) string {
			return fmt.Sprintf("ICreateInv %d %d", r.w.inv(inv.ID), r.w.key(inv.RecipientKeys[0]))
		}, false, "")
	default:
		return fmt.Errorf("unknown style %q", e.Style)
	}

	return nil
}

func (r *runner) acceptStep(e *exchRun) {
	y := r.w.agent(e.Invitee)

	if e.v2 {
		c, err := e.acceptV2()
		if err != nil {
			r.res.obs["accept-error:"+e.Invitee] = err.Error()

			return
		}

		e.inviteeConn = c

		// the inviter learns of the connection with the first message, which carries the invitee's new peer DID document;
		// it is a step of its own (connections accepted at the same time send theirs in any order), and so is the
		// inviter's answer, after which the invitee stops attaching the document
		x := r.w.agent(e.Inviter)

		var answer func(tries int) func()

		answer = func(tries int) func() {
			return func() {
				yr := y.Record(c)
				if yr == nil {
					return
				}

				rec, err := x.lookup.GetConnectionRecordByDIDs(yr.TheirDID, yr.MyDID)
				if err != nil {
					if tries > 0 && (r.w.net.QueueLen() > 0 || r.waiting > 0 || len(r.pending) > 0) {
						r.pending = append(r.pending, answer(tries-1))
					}

					return
				}

				msg := service.DIDCommMsgMap{"id": uuid.New().String(), "type": pingV2Type, "body": map[string]interface{}{}}
				if err := x.ctx.Messenger().Send(msg, rec.MyDID, rec.TheirDID); err != nil {
					r.res.obs["answer-error:"+e.Inviter] = err.Error()
				}
			}
		}

		var first func(tries int) func()

		first = func(tries int) func() {
			return func() {
				// an accepted connection may lie unused for a while: other connections get going in the meantime
				if tries > 0 && r.rng.Intn(5) != 0 && (r.w.net.QueueLen() > 0 || len(r.pending) > 0 || r.waiting > 0) {
					r.pending = append(r.pending, first(tries-1))

					return
				}

				if yr := y.Record(c); yr != nil {
					msg := service.DIDCommMsgMap{"id": uuid.New().String(), "type": pingV2Type, "body": map[string]interface{}{}}
					if err := y.ctx.Messenger().Send(msg, yr.MyDID, yr.TheirDID); err != nil {
						r.res.obs["first-message-error:"+e.Invitee] = err.Error()
					}

					r.pending = append(r.pending, answer(30))
				}
			}
		}

		r.pending = append(r.pending, first(40))

		return
	}

	pre := r.pre(y)

	c, err := e.accept()
	if err != nil {
		r.res.obs["accept-error:"+e.Invitee] = err.Error()
		r.w.noCoq("main.go#4")

		return
	}

	e.inviteeConn = c

	ok := y.waitFor(settle, func() bool {
		for _, ev := range y.states {
			if ev.Post && ev.ConnID == c && (ev.State == "requested" || ev.State == "abandoned") {
				return true
			}
		}

		return false
	})
	if !ok {
		r.w.setInconclusive("invitation not processed within the deadline")

		return
	}

	rec := y.Record(c)
	r.post(y, pre, func(_ int, my string) string {
		th := ""
		if rec != nil {
			th = rec.ThreadID
		}

		return fmt.Sprintf("IAcceptInv %s %d %d %d %d %d %s", e.proto, r.w.inv(e.invID), r.w.key(e.invKey), r.w.ep(e.invEP),
			r.w.cid(c), r.w.th(th), my)
	}, false, "")
}

// evaluate pairs the records of an exchange and applies the `mutual` oracle.
func (r *runner) evaluate(e *exchRun, when string) {
	x, y := r.w.agent(e.Inviter), r.w.agent(e.Invitee)

	if e.v2 {
		r.evaluateV2(e, when)

		return
	}

	yr := y.Record(e.inviteeConn)
	if yr == nil || yr.State != "completed" {
		return
	}

	var xr *Rec

	n := 0

	for _, rec := range x.AllRecords() {
		if rec.ThreadID == yr.ThreadID && rec.NS == "their" {
			xr = rec
			n++
		}
	}

	if n > 1 {
		r.res.failf("crosstalk", "%s: %d records of %s share thread %s", when, n, x.Name, yr.ThreadID)
	}

	// a failure explained by a DID Exchange response mallory was let to forge (the requester does not authenticate the
	// response by the invitation key) is the known finding; anything else in such a case is not
	forgedAccepted := e.forged && e.proto == "DX" && (yr.TheirDID == e.forgedDID) && y.Resolve(yr.TheirDID).Endpoint == r.w.M.Endpoint
	sigOf := func(s string) string {
		if forgedAccepted {
			return "forged-dx-response"
		}

		return s
	}

	if xr != nil && xr.MyDID != "" && xr.MyDID != yr.TheirDID {
		r.res.failf(sigOf("mutual-mismatch"), "%s: %s completed thread %s with peer %s, but %s runs that thread as %s", when, y.Name, yr.ThreadID,
			yr.TheirDID, x.Name, xr.MyDID)
	}

	// the invitee's completed record must lead to the party that holds the invitation: what it resolves the peer
	// identifier to is the destination of the inviter's own document for this thread
	if xr != nil && xr.MyDID != "" {
		if ry, ox := y.Resolve(yr.TheirDID), x.Resolve(xr.MyDID); !sameDest(ry, ox) {
			r.res.failf(sigOf("mutual-resolution"), "%s: %s completed thread %s and resolves its peer to %s; %s's own document on that thread: %s",
				when, y.Name, yr.ThreadID, ry, x.Name, ox)
		}
	}

	if xr == nil || xr.State != "completed" {
		return
	}

	if xr.MyDID != yr.TheirDID || xr.TheirDID != yr.MyDID || xr.MyDID == "" || xr.TheirDID == "" {
		r.res.failf("mutual-mismatch", "%s: %s has (my %s, their %s), %s has (my %s, their %s)", when, x.Name, xr.MyDID, xr.TheirDID,
			y.Name, yr.MyDID, yr.TheirDID)
	}

	// what each side resolves the other's identifier to must be what the other side holds as its own document
	rx, ry := x.Resolve(xr.TheirDID), y.Resolve(yr.TheirDID)
	ox, oy := x.Resolve(xr.MyDID), y.Resolve(yr.MyDID)

	if e.x == nil { // first evaluation: right after completion
		if !sameDest(rx, oy) || !sameDest(ry, ox) {
			r.res.failf("mutual-resolution", "%s: %s resolves the peer to %s (peer's own: %s); %s resolves the peer to %s (peer's own: %s)",
				when, x.Name, rx, oy, y.Name, ry, ox)
		}

		e.x, e.y, e.resX, e.resY, e.done = xr, yr, rx.String(), ry.String(), true

		return
	}

	// later evaluations: nothing may have moved
	if *xr != *e.x || *yr != *e.y {
		r.res.failf("record-changed:"+when, "%s: completed records changed: %+v -> %+v / %+v -> %+v", when, *e.x, *xr, *e.y, *yr)
	}

	if rx.String() != e.resX {
		r.res.failf("repoint:"+when, "%s: %s resolved the peer %s to %s, now to %s", when, x.Name, xr.TheirDID, e.resX, rx)
	}

	if ry.String() != e.resY {
		r.res.failf("repoint:"+when, "%s: %s resolved the peer %s to %s, now to %s", when, y.Name, yr.TheirDID, e.resY, ry)
	}
}

// evaluateV2 pairs the records of a DIDComm v2 connection (found by the two DIDs) and applies the same oracles.
func (r *runner) evaluateV2(e *exchRun, when string) {
	x, y := r.w.agent(e.Inviter), r.w.agent(e.Invitee)

	yr := y.Record(e.inviteeConn)
	if yr == nil || yr.State != "completed" {
		return
	}

	var xr *Rec

	if e.x != nil {
		xr = x.Record(e.x.ConnID)
	} else if rec, err := x.lookup.GetConnectionRecordByDIDs(yr.TheirDID, yr.MyDID); err == nil {
		xr = &Rec{ConnID: rec.ConnectionID, State: rec.State, MyDID: rec.MyDID, TheirDID: rec.TheirDID, ThreadID: rec.ThreadID, NS: rec.Namespace}
	}

	if xr == nil {
		return
	}

	rx, ry := x.Resolve(xr.TheirDID), y.Resolve(yr.TheirDID)
	ox, oy := x.Resolve(xr.MyDID), y.Resolve(yr.MyDID)

	if e.x == nil {
		if xr.MyDID != yr.TheirDID || xr.TheirDID != yr.MyDID || xr.State != "completed" {
			r.res.failf("mutual-mismatch", "%s: v2 connection: %s has (my %s, their %s, %s), %s has (my %s, their %s)", when, x.Name, xr.MyDID,
				xr.TheirDID, xr.State, y.Name, yr.MyDID, yr.TheirDID)
		}

		if !sameDest(rx, oy) || !sameDest(ry, ox) {
			r.res.failf("mutual-resolution", "%s: v2 connection: %s resolves the peer to %s (peer's own: %s); %s resolves the peer to %s (peer's own: %s)",
				when, x.Name, rx, oy, y.Name, ry, ox)
		}

		e.x, e.y, e.resX, e.resY, e.done = xr, yr, rx.String(), ry.String(), true

		return
	}

	if *xr != *e.x || *yr != *e.y {
		r.res.failf("record-changed:"+when, "%s: completed v2 records changed: %+v -> %+v / %+v -> %+v", when, *e.x, *xr, *e.y, *yr)
	}

	if rx.String() != e.resX {
		r.res.failf("repoint:"+when, "%s: %s resolved the peer %s to %s, now to %s", when, x.Name, xr.TheirDID, e.resX, rx)
	}

	if ry.String() != e.resY {
		r.res.failf("repoint:"+when, "%s: %s resolved the peer %s to %s, now to %s", when, y.Name, yr.TheirDID, e.resY, ry)
	}
}

func sameDest(a, b Res) bool {
	return a.OK && b.OK && a.Endpoint == b.Endpoint && strings.Join(a.RecKeys, ",") == strings.Join(b.RecKeys, ",")
}

// ping sends an application message over the completed connection from one side and checks where it lands.
func (r *runner) ping(from, to *Agent, fr, tr *Rec, when string, v2 bool) {
	id := uuid.New().String()
	msg := service.DIDCommMsgMap{"@id": id, "@type": basicType}

	if v2 {
		msg = service.DIDCommMsgMap{"id": id, "type": pingV2Type, "body": map[string]interface{}{}}
	}

	if err := from.ctx.Messenger().Send(msg, fr.MyDID, fr.TheirDID); err != nil {
		r.res.failf("ping-send:"+when, "%s: %s cannot send over its completed connection: %v", when, from.Name, err)

		return
	}

	r.drain(nil)

	var got []Handled

	for _, a := range []*Agent{r.w.A, r.w.B, r.w.M} {
		a.mu.Lock()
		for _, h := range a.handled {
			if h.MsgID == id {
				if a != to {
					r.res.failf("ping-misrouted:"+when, "%s: a message %s sent over its connection with %s was handled by %s", when, from.Name, to.Name, a.Name)
				}

				got = append(got, h)
			}
		}
		a.mu.Unlock()
	}

	if r.w.inconclusive != "" {
		return
	}

	if len(got) != 1 {
		// where did it go?
		dest := ""
		for _, p := range r.w.net.Log {
			if p.Plain != nil && (plainStr(p, "@id") == id || plainStr(p, "id") == id) {
				dest = p.To
			}
		}

		r.res.failf("ping-lost:"+when, "%s: a message %s sent over its connection with %s was handled %d times (posted to %s)", when, from.Name,
			to.Name, len(got), dest)

		return
	}

	if got[0].MyDID != tr.MyDID || got[0].TheirDID != tr.TheirDID {
		r.res.failf("attribution:"+when, "%s: %s's handler saw (my %s, their %s) for a message over the connection (my %s, their %s)", when,
			to.Name, got[0].MyDID, got[0].TheirDID, tr.MyDID, tr.TheirDID)
	}
}

// attributionSound: whatever reached a message handler attributed to a DID was sent with a key of the document that DID
// resolves to on that agent (judged for envelopes whose sender key is a raw 32-byte key).
func (r *runner) attributionSound(when string) {
	for _, a := range []*Agent{r.w.A, r.w.B} {
		a.mu.Lock()
		handled := append([]Handled{}, a.handled...)
		in := append([]*Packet{}, a.inLog...)
		a.mu.Unlock()

		for _, h := range handled {
			if h.TheirDID == "" {
				continue
			}

			for _, p := range in {
				if p.Plain == nil || len(p.FromKey) != 32 || (plainStr(p, "@id") != h.MsgID && plainStr(p, "id") != h.MsgID) {
					continue
				}

				res := a.Resolve(h.TheirDID)
				if !res.OK {
					continue
				}

				from := rawKey(p.FromKey)
				found := false

				for _, k := range res.RecKeys {
					if canonKey(k) == from {
						found = true
					}
				}

				for _, k := range res.Keys {
					if "raw:"+k == from {
						found = true
					}
				}

				if !found {
					r.res.failf("attribution-unsound:"+when, "%s: %s's handler saw (my %s, their %s) for a message sent with key %s, which is no key of the document %s resolves to",
						when, a.Name, h.MyDID, h.TheirDID, from, h.TheirDID)
				}
			}
		}
	}
}

func (r *runner) checkAll(when string) {
	r.attributionSound(when)

	for _, e := range r.exs {
		r.evaluate(e, when)
	}

	for _, e := range r.exs {
		if !e.done || r.w.inconclusive != "" || e.Invitee == "mallory" || e.Inviter == "mallory" {
			continue
		}

		x, y := r.w.agent(e.Inviter), r.w.agent(e.Invitee)
		r.ping(y, x, e.y, e.x, when, e.v2)
		r.ping(x, y, e.x, e.y, when, e.v2)
	}
}

// ---------- the case ----------

func runCase(spec *Spec, kind string, idx int) *hx.Record {
	rec := &hx.Record{ID: fmt.Sprintf("%s-%d", kind, idx), Kind: kind, Case: spec}
	res := &result{obs: map[string]interface{}{}}

	w, err := newWorld(spec.Cfg)
	if err != nil {
		rec.Trivial, rec.Class = true, "setup-error"
		rec.Observed = map[string]interface{}{"setup": err.Error()}

		return rec
	}
	defer w.close()

	r := &runner{w: w, rng: hx.NewRng(spec.Seed), res: res, spec: spec}

	if spec.Mediated {
		w.noCoq("mediated exchange: routing and forwarding are outside the model, the direct oracle decides")

		if err := r.setupMediation(); err != nil {
			res.obs["setup-error"] = err.Error()
			rec.Trivial, rec.Class, rec.Observed = true, "setup-error", res.obs

			return rec
		}
	}

	if spec.Mode == "sync" {
		w.noCoq("synchronous delivery: the agents' steps overlap, the direct oracle decides")
		w.net.mu.Lock()
		w.net.syncFn = r.deliverCore
		w.net.mu.Unlock()
	}

	var local []func()

	for i := range spec.Exch {
		e := &exchRun{Exch: spec.Exch[i]}
		r.exs = append(r.exs, e)

		if err := r.setup(e); err != nil {
			res.obs["setup-error"] = err.Error()
			rec.Trivial, rec.Class, rec.Observed = true, "setup-error", res.obs

			return rec
		}

		local = append(local, func() { r.acceptStep(e) })
	}

	r.drain(local)

	if w.inconclusive == "" {
		r.checkAll("honest")
	}

	if spec.Restart != "" && w.inconclusive == "" && res.fail == "" {
		targets := map[string]bool{}
		for _, at := range spec.Attacks {
			targets[at.Target] = true
		}

		for _, a := range []*Agent{w.A, w.B} {
			if targets[a.Name] || len(spec.Attacks) == 0 {
				r.restart(a)
			}
		}

		if w.inconclusive == "" {
			r.checkAll("restart")
		}
	}

	if len(spec.Late) > 0 && w.inconclusive == "" && res.fail == "" {
		var mixed []func()

		for i := range spec.Late {
			e := &exchRun{Exch: spec.Late[i]}
			r.exs = append(r.exs, e)

			if err := r.setup(e); err != nil {
				res.obs["setup-error"] = err.Error()
				rec.Trivial, rec.Class, rec.Observed = true, "setup-error", res.obs

				return rec
			}

			mixed = append(mixed, func() { r.acceptStep(e) })
		}

		for i, at := range spec.Attacks {
			i, at := i, at
			mixed = append(mixed, func() {
				if err := r.attack(at); err != nil {
					res.obs[fmt.Sprintf("attack-%d-skipped", i)] = err.Error()
				}
			})
		}

		r.drain(mixed)

		if w.inconclusive == "" {
			r.checkAll("mixed")
		}
	}

	for i, at := range spec.Attacks {
		if len(spec.Late) > 0 {
			break
		}

		if w.inconclusive != "" || res.fail != "" {
			break
		}

		if err := r.attack(at); err != nil {
			res.obs[fmt.Sprintf("attack-%d-skipped", i)] = err.Error()

			continue
		}

		r.drain(nil)

		if w.inconclusive == "" {
			r.checkAll(at.Kind)
		}
	}

	// an honest run that has come to rest leaves no connection completed on one side only
	honest := len(spec.Attacks) == 0
	for _, e := range r.exs {
		if e.Forge != "" {
			honest = false
		}
	}

	if honest && w.inconclusive == "" {
		for _, e := range r.exs {
			x, y := w.agent(e.Inviter), w.agent(e.Invitee)
			yr := y.Record(e.inviteeConn)

			if yr == nil {
				continue
			}

			if e.v2 {
				// a DIDComm v2 connection at rest: the inviter holds the mirrored record (its first message was understood)
				if _, err := x.lookup.GetConnectionRecordByDIDs(yr.TheirDID, yr.MyDID); err != nil && yr.State == "completed" {
					res.failf("honest-exchange-stalled", "honest %s connection at rest with every message delivered: %s has (my %s, their %s), %s has no record of it",
						e.Style, y.Name, yr.MyDID, yr.TheirDID, x.Name)
				}

				continue
			}

			xs := "none"

			for _, rec := range x.AllRecords() {
				if rec.ThreadID == yr.ThreadID && rec.NS == "their" {
					xs = rec.State
				}
			}

			if spec.Mediated && !(yr.State == "completed" && xs == "completed") {
				// the mediator's client gives up on a keylist update after 10 s of its own: not a verdict
				w.setInconclusive("mediated exchange at rest without completion (" + yr.State + "/" + xs + ")")

				continue
			}

			if (yr.State == "completed") != (xs == "completed") {
				res.failf("mutual-half-open", "honest %s exchange at rest: %s's record is %s, %s's record is %s", e.Style, y.Name, yr.State, x.Name, xs)
			} else if yr.State != "completed" {
				// every message was delivered, nobody interfered: the two agents could not run the protocol to completion
				res.failf("honest-exchange-stalled", "honest %s exchange at rest with every message delivered: %s's record is %s, %s's record is %s",
					e.Style, y.Name, yr.State, x.Name, xs)
			}
		}
	}

	// evidence
	completed := 0
	var states []string

	for _, e := range r.exs {
		if e.done {
			completed++
		}

		y := w.agent(e.Invitee)
		states = append(states, fmt.Sprintf("%s/%s:%s", e.Style, e.Invitee, strings.Join(y.StatesOf(e.inviteeConn), ">")))

		if e.x != nil {
			states = append(states, fmt.Sprintf("%s/%s:%s", e.Style, e.Inviter, strings.Join(w.agent(e.Inviter).StatesOf(e.x.ConnID), ">")))
		}
	}

	res.obs["completed"], res.obs["states"], res.obs["packets"] = completed, states, len(w.net.Log)

	if verbose {
		for _, p := range w.net.Log {
			from, to := plainStr(p, "from"), ""
			if l, ok := p.Plain["to"].([]interface{}); ok && len(l) > 0 {
				to = fmt.Sprint(l[0])
			}

			if i := strings.Index(from, "?"); i > 0 {
				from = from[:i] + "?initialState"
			}

			fmt.Printf("[packet %d %s -> %s] %s from=%.40s to=%.30s unpackErr=%v handlerErr=%v\n", p.Seq, p.From, p.To, p.Type, from, to, p.UnpackErr, p.HandlerErr)
		}
	}

	if spec.Mediated && len(r.exs) > 0 && r.exs[0].done {
		res.obs["alice-resolves-bob-to"] = r.exs[0].resX
	}
	if !w.coq {
		res.obs["direct-oracle-only"] = w.coqWhy
	}
	rec.Observed = res.obs
	rec.Class = fmt.Sprintf("%v|%v|%v|%v|%s%s|%d", spec.Cfg, spec.Exch, spec.Late, spec.Attacks, spec.Mode, spec.Restart, completed)
	rec.Dist = []string{"cfg:" + spec.Cfg.Profile + "/" + spec.Cfg.KeyType + "/" + spec.Cfg.KAType, fmt.Sprintf("exchanges:%d", len(spec.Exch)),
		fmt.Sprintf("completed:%d", completed)}

	for _, e := range append(append([]Exch{}, spec.Exch...), spec.Late...) {
		rec.Dist = append(rec.Dist, "style:"+e.Style)
	}

	if len(spec.Late) > 0 {
		rec.Dist = append(rec.Dist, "attacks-interleaved-with-exchanges")
	}

	if spec.Restart != "" {
		rec.Dist = append(rec.Dist, "restart:"+spec.Restart)
	}

	for _, a := range spec.Attacks {
		rec.Dist = append(rec.Dist, "attack:"+a.Kind)
	}

	// the announced state sequences must be paths of the published graph
	for _, s := range states {
		if !okPath(s[strings.Index(s, ":")+1:]) {
			res.failf("state-path", "announced states are not a path of the protocol graph: %s", s)
		}
	}

	if w.inconclusive != "" {
		rec.Trivial, rec.Class = true, "inconclusive"
		rec.Dist = append(rec.Dist, "inconclusive")
		res.obs["inconclusive"] = w.inconclusive

		return rec
	}

	if completed == 0 {
		rec.Trivial = true
	}

	if res.fail != "" {
		rec.Oracle, rec.Sig, rec.Detail = "fail", res.fail, res.detail
	}

	if w.coq {
		var ags []string

		for _, n := range []string{"alice", "bob"} {
			t := w.tr[n]
			ins := make([]string, len(t.inputs))
			for i, s := range t.inputs {
				ins[i] = "(" + s + ")"
			}

			ags = append(ags, fmt.Sprintf("(ACase %s %s)", hx.CoqList(ins), hx.CoqList(t.obs)))
		}

		// the announced post-states of every connection of the two agents, in protocol order
		var paths []string

		for _, n := range []string{"alice", "bob"} {
			paths = append(paths, w.agent(n).coqPaths()...)
		}

		dests := make([]string, 0, len(w.destOrder))
		for _, term := range w.destOrder {
			dests = append(dests, "("+term+", "+w.dests[term]+")")
		}

		rec.Coq = "(Case " + hx.CoqList(ags) + " " + hx.CoqList(paths) + " " + hx.CoqList(dests) + ")"
	}

	return rec
}

// okPath: the announced post-states of a connection, put in protocol order, are a prefix of
// invited>requested>responded>completed (invitee) or requested>responded>completed (inviter), each announced once,
// possibly with a final abandoned.  (The order in which the events of one step reach a listener is not fixed: the
// service posts `requested` after it has handed the action event to the application, which may already have continued.)
func okPath(s string) bool {
	if s == "" {
		return true
	}

	rank := map[string]int{"invited": 0, "requested": 1, "responded": 2, "completed": 3}
	seen := map[int]int{}
	abandoned := 0

	for _, p := range strings.Split(s, ">") {
		if p == "abandoned" {
			abandoned++

			continue
		}

		k, ok := rank[p]
		if !ok {
			return false
		}

		seen[k]++
	}

	if abandoned > 1 || (abandoned == 1 && seen[3] > 0) {
		return false
	}

	lo, hi := 4, -1

	for k, n := range seen {
		if n != 1 {
			return false
		}

		if k < lo {
			lo = k
		}

		if k > hi {
			hi = k
		}
	}

	return hi < 0 || (lo <= 1 && hi-lo+1 == len(seen))
}

// ---------- mallory ----------

func (r *runner) victim(target string) (*exchRun, *Rec, *exchRun, error) {
	var v, me *exchRun

	for _, e := range r.exs {
		if !e.done {
			continue
		}

		if (e.Inviter == target || e.Invitee == target) && e.Inviter != "mallory" && e.Invitee != "mallory" && v == nil {
			v = e
		}

		if e.Inviter == target && e.Invitee == "mallory" && me == nil {
			me = e
		}
	}

	if v == nil || me == nil {
		return nil, nil, nil, fmt.Errorf("no completed victim connection / own connection of mallory with %s", target)
	}

	rec := v.x
	if v.Invitee == target {
		rec = v.y
	}

	return v, rec, me, nil
}

func (r *runner) attack(at Attack) error {
	w := r.w
	x := w.agent(at.Target)

	v, vrec, me, err := r.victim(at.Target)
	if err != nil {
		return err
	}

	victimDID := vrec.TheirDID
	baseDID := me.y.MyDID

	dr, err := w.M.ctx.VDRegistry().Resolve(baseDID)
	if err != nil {
		return err
	}

	raw, err := dr.DIDDocument.SerializeInterop()
	if err != nil {
		return err
	}

	mdest, err := service.CreateDestination(dr.DIDDocument)
	if err != nil {
		return err
	}

	sender := mdest.RecipientKeys[0]
	named := spellDID(victimDID, at.Spell) // how the victim's DID is written in mallory's messages

	if _, e := did.Parse(named); e != nil || (at.Spell != "" && at.Spell != "case") {
		w.noCoq("a DID spelling that some of the code's parsers refuse (upper-case scheme, blank, percent-encoding): direct oracle only")
	}

	// a key pair made for this attack: every document mallory presents lists it instead of her connection's key
	freshKey := ""

	if at.Fresh && len(mdest.RecipientKeys) > 0 {
		old := canonKey(mdest.RecipientKeys[0])

		var oldRaw []byte

		if strings.HasPrefix(old, "raw:") {
			fmt.Sscanf(old[4:], "%x", &oldRaw)
		}

		if len(oldRaw) != 32 {
			return fmt.Errorf("fresh key: mallory's connection key is not a 32-byte key")
		}

		_, pub, e := w.M.ctx.KMS().CreateAndExportPubKeyBytes(kms.ED25519Type)
		if e != nil {
			return e
		}

		oldDK, _ := fingerprint.CreateDIDKey(oldRaw)
		freshKey, _ = fingerprint.CreateDIDKey(pub)
		doc := strings.ReplaceAll(string(raw), oldDK, freshKey)
		doc = strings.ReplaceAll(doc, strings.TrimPrefix(oldDK, "did:key:"), strings.TrimPrefix(freshKey, "did:key:"))
		doc = strings.ReplaceAll(doc, base58.Encode(oldRaw), base58.Encode(pub))
		raw = []byte(doc)
	}

	rename := func(to string) string {
		if to == victimDID {
			to = named
		}

		return strings.ReplaceAll(string(raw), baseDID, to)
	}
	fakeDID := "did:peer:1zQm" + base58ish(r.rng, 44)
	victimKeys := x.Resolve(victimDID).RecKeys

	// a fresh invitation of the target: anybody may hold one
	newInv := func() (*dxclient.Invitation, error) {
		pre := r.pre(x)

		inv, e := x.dx.CreateInvitation("open")
		if e != nil {
			return nil, e
		}

		r.post(x, pre, func(int, string) string {
			return fmt.Sprintf("ICreateInv %d %d", w.inv(inv.ID), w.key(inv.RecipientKeys[0]))
		}, false, "")

		return inv, nil
	}

	send := func(msg interface{}, inv *dxclient.Invitation) error {
		return w.M.ctx.OutboundDispatcher().Send(msg, sender, &service.Destination{
			RecipientKeys: inv.RecipientKeys, ServiceEndpoint: model.NewDIDCommV1Endpoint(x.Endpoint)})
	}

	request := func(thid, pthid, didv, doc string) map[string]interface{} {
		if didv == victimDID {
			didv = named
		}

		if named != victimDID {
			doc = strings.ReplaceAll(doc, victimDID, named)
		}

		m := map[string]interface{}{"@type": dxRequest, "@id": thid, "label": "mallory", "~thread": map[string]interface{}{"pthid": pthid},
			"did": didv}
		if doc != "" {
			m["did_doc~attach"] = map[string]interface{}{"mime-type": "application/json",
				"data": map[string]interface{}{"base64": base64.StdEncoding.EncodeToString([]byte(doc))}}
		}

		return m
	}

	inv, err := newInv()
	if err != nil {
		return err
	}

	if freshKey != "" {
		// afterwards: an application message packed with the new key (whoever it is attributed to, it is not the victim)
		defer func() {
			r.drain(nil)

			if e := w.M.ctx.OutboundDispatcher().Send(map[string]interface{}{"@type": basicType, "@id": uuid.New().String()}, freshKey,
				&service.Destination{RecipientKeys: inv.RecipientKeys, ServiceEndpoint: model.NewDIDCommV1Endpoint(x.Endpoint)}); e != nil {
				r.res.obs["fresh-key-probe-skipped"] = e.Error()
			}

			r.drain(nil)
		}()
	}

	switch at.Kind {
	case "req-repoint": // bob's DID, mallory's keys and endpoint
		return send(request(uuid.New().String(), inv.ID, victimDID, rename(victimDID)), inv)
	case "req-repoint-badpthid":
		return send(request(uuid.New().String(), uuid.New().String(), victimDID, rename(victimDID)), inv)
	case "req-docid-mismatch": // the request names a new DID, the attached document names bob's
		return send(request(uuid.New().String(), inv.ID, fakeDID, rename(victimDID)), inv)
	case "req-repoint-keys": // bob's DID and bob's endpoint, mallory's keys
		ep := x.Resolve(victimDID).Endpoint

		return send(request(uuid.New().String(), inv.ID, victimDID, strings.ReplaceAll(rename(victimDID), w.M.Endpoint, ep)), inv)
	case "req-repoint-endpoint": // bob's own document with mallory's endpoint
		peerDoc := r.capturedDoc(victimDID)
		if peerDoc == "" {
			return fmt.Errorf("no captured document of the peer")
		}

		ep := x.Resolve(victimDID).Endpoint

		return send(request(uuid.New().String(), inv.ID, victimDID, strings.ReplaceAll(peerDoc, ep, w.M.Endpoint)), inv)
	case "req-repoint-routing": // bob's own document with mallory's key added as routing key (his traffic is forwarded to her)
		peerDoc := r.capturedDoc(victimDID)
		if peerDoc == "" || !strings.Contains(peerDoc, `"recipientKeys":[`) {
			return fmt.Errorf("no captured document of the peer")
		}

		return send(request(uuid.New().String(), inv.ID, victimDID,
			strings.Replace(peerDoc, `"recipientKeys":[`, `"routingKeys":["`+sender+`"],"recipientKeys":[`, 1)), inv)
	case "req-repoint-accept", "req-repoint-priority", "req-repoint-svctype", "req-repoint-relationship", "req-repoint-svcid":
		// the peer's own document with one member changed that is neither a key nor the endpoint
		peerDoc := r.capturedDoc(victimDID)
		if peerDoc == "" {
			return fmt.Errorf("no captured document of the peer")
		}

		var dm map[string]interface{}
		if e := json.Unmarshal([]byte(peerDoc), &dm); e != nil {
			return e
		}

		svcs, _ := dm["service"].([]interface{})
		if len(svcs) == 0 {
			return fmt.Errorf("document without service")
		}

		first, _ := svcs[0].(map[string]interface{})

		switch at.Kind {
		case "req-repoint-accept":
			first["accept"] = []string{"didcomm/v2"}
		case "req-repoint-priority":
			first["priority"] = 7
		case "req-repoint-svctype":
			first["type"] = "IndyAgent"
		case "req-repoint-svcid":
			first["id"] = fmt.Sprint(first["id"], "-x")
		case "req-repoint-relationship":
			if auth, ok := dm["authentication"]; ok {
				dm["assertionMethod"] = auth
				dm["capabilityInvocation"] = auth
				delete(dm, "authentication")
			} else {
				return fmt.Errorf("document without authentication")
			}
		}

		docb, e := json.Marshal(dm)
		if e != nil {
			return e
		}

		return send(request(uuid.New().String(), inv.ID, victimDID, string(docb)), inv)
	case "req-docid-fresh": // request and attached document name two different new DIDs; then the exchange is completed
		th := uuid.New().String()
		fake2 := "did:peer:1zQm" + base58ish(r.rng, 44)

		if e := send(request(th, inv.ID, fakeDID, rename(fake2)), inv); e != nil {
			return e
		}

		r.drain(nil)

		return send(map[string]interface{}{"@type": dxComplete, "@id": uuid.New().String(),
			"~thread": map[string]interface{}{"thid": th, "pthid": inv.ID}}, inv)
	case "lc-req-repoint": // the same through the legacy connection protocol
		pre := r.pre(x)

		linv, e := x.lc.CreateInvitation("open-legacy")
		if e != nil {
			return e
		}

		r.post(x, pre, func(int, string) string {
			return fmt.Sprintf("ICreateInv %d %d", w.inv(linv.ID), w.key(linv.RecipientKeys[0]))
		}, false, "")

		// the document as ordinary JSON (the service reads both renderings; the legacy raw rendering of a document made
		// for DID Exchange is refused by its decoder before anything happens)
		var legacy interface{}
		if e := json.Unmarshal([]byte(rename(victimDID)), &legacy); e != nil {
			return e
		}

		m := map[string]interface{}{"@type": lcRequest, "@id": uuid.New().String(), "label": "mallory",
			"~thread": map[string]interface{}{"pthid": linv.ID}, "connection": map[string]interface{}{"DID": named, "DIDDoc": legacy}}

		return w.M.ctx.OutboundDispatcher().Send(m, sender, &service.Destination{
			RecipientKeys: asDIDKeys(linv.RecipientKeys), ServiceEndpoint: model.NewDIDCommV1Endpoint(x.Endpoint)})
	case "req-nodoc":
		return send(request(uuid.New().String(), inv.ID, victimDID, ""), inv)
	case "req-keysteal": // a new DID whose document lists bob's key next to mallory's; then the exchange is completed
		doc := rename(fakeDID)
		if len(victimKeys) == 0 {
			return fmt.Errorf("victim keys unknown")
		}

		doc = strings.Replace(doc, `"recipientKeys":["`, `"recipientKeys":["`+victimKeys[0]+`","`, 1)
		th := uuid.New().String()

		if e := send(request(th, inv.ID, fakeDID, doc), inv); e != nil {
			return e
		}

		r.drain(nil)

		return send(map[string]interface{}{"@type": dxComplete, "@id": uuid.New().String(),
			"~thread": map[string]interface{}{"thid": th, "pthid": inv.ID}}, inv)
	case "req-keysteal-notation", "req-keysteal-indy", "req-keysteal-indy-didkey", "req-keysteal-second-block", "req-keysteal-v2-block":
		// mallory's own exchange with a document that lists the victim's key in the OTHER notation (raw base58 <-> did:key)
		// among the recipient keys, or in an additional service block (IndyAgent / a second did-communication / DIDCommMessaging)
		if len(victimKeys) == 0 {
			return fmt.Errorf("victim keys unknown")
		}

		vk := victimKeys[0]
		other := vk

		if ck := canonKey(vk); strings.HasPrefix(ck, "raw:") {
			var rawk []byte

			fmt.Sscanf(ck[4:], "%x", &rawk)

			if strings.HasPrefix(vk, "did:key:") {
				other = base58.Encode(rawk)
			} else {
				other, _ = fingerprint.CreateDIDKey(rawk)
			}
		}

		var dm map[string]interface{}
		if e := json.Unmarshal([]byte(rename(fakeDID)), &dm); e != nil {
			return e
		}

		svcs, _ := dm["service"].([]interface{})
		if len(svcs) == 0 {
			return fmt.Errorf("document without service")
		}

		first, _ := svcs[0].(map[string]interface{})
		block := func(typ string, keys ...string) map[string]interface{} {
			return map[string]interface{}{"id": fakeDID + "#extra", "type": typ, "priority": 1, "recipientKeys": keys,
				"serviceEndpoint": w.M.Endpoint}
		}

		switch at.Kind {
		case "req-keysteal-notation":
			rk, _ := first["recipientKeys"].([]interface{})
			first["recipientKeys"] = append(rk, other)
		case "req-keysteal-indy":
			svcs = append(svcs, block("IndyAgent", other, vk))
		case "req-keysteal-indy-didkey":
			svcs = append(svcs, block("IndyAgent", vk))
		case "req-keysteal-second-block":
			svcs = append(svcs, block("did-communication", other, vk))
		case "req-keysteal-v2-block":
			svcs = append(svcs, block("DIDCommMessaging", vk, other))
		}

		dm["service"] = svcs

		docb, e := json.Marshal(dm)
		if e != nil {
			return e
		}

		th := uuid.New().String()

		if e := send(request(th, inv.ID, fakeDID, string(docb)), inv); e != nil {
			return e
		}

		r.drain(nil)

		return send(map[string]interface{}{"@type": dxComplete, "@id": uuid.New().String(),
			"~thread": map[string]interface{}{"thid": th, "pthid": inv.ID}}, inv)
	case "req-blocks-indy-first", "req-blocks-other-first", "req-blocks-v2-first", "req-blocks-v2-noka", "req-blocks-two-v1",
		"req-blocks-indy-only", "req-blocks-plain-v1", "lc-req-blocks-v1", "lc-req-blocks-v2-first", "lc-req-blocks-indy-v1":
		// mallory's own exchange (a new DID, her own keys) with a document of several service blocks: which block the
		// destination is made of, and what the type of the FIRST block makes the inviter do (it builds its own document
		// for that type: an unknown type is refused before anything is created, an IndyAgent document is created and
		// then left behind by DID Exchange, a did-communication document of the legacy service cannot be sent from);
		// then the exchange is completed
		var dm map[string]interface{}
		if e := json.Unmarshal([]byte(rename(fakeDID)), &dm); e != nil {
			return e
		}

		svcs, _ := dm["service"].([]interface{})
		if len(svcs) == 0 {
			return fmt.Errorf("document without service")
		}

		first, _ := svcs[0].(map[string]interface{})
		rk, _ := first["recipientKeys"].([]interface{})

		if len(rk) == 0 {
			return fmt.Errorf("document without recipient keys")
		}

		own, _ := rk[0].(string)
		ownRaw := own

		if ck := canonKey(own); strings.HasPrefix(ck, "raw:") && strings.HasPrefix(own, "did:key:") {
			var rawk []byte

			fmt.Sscanf(ck[4:], "%x", &rawk)
			ownRaw = base58.Encode(rawk)
		}

		block := func(typ string, ep interface{}, keys ...string) map[string]interface{} {
			return map[string]interface{}{"id": fakeDID + "#b-" + typ, "type": typ, "priority": 3, "recipientKeys": keys,
				"serviceEndpoint": ep}
		}
		v2ep := []interface{}{map[string]interface{}{"uri": w.M.Endpoint, "accept": []string{"didcomm/v2"}}}

		switch at.Kind {
		case "req-blocks-indy-first", "lc-req-blocks-indy-v1":
			svcs = append([]interface{}{block("IndyAgent", w.M.Endpoint, ownRaw)}, svcs...)
		case "req-blocks-other-first":
			svcs = append([]interface{}{block("LinkedDomains", "https://example.com")}, svcs...)
		case "req-blocks-v2-first", "lc-req-blocks-v2-first":
			svcs = append([]interface{}{block("DIDCommMessaging", v2ep)}, svcs...)
		case "req-blocks-v2-noka":
			svcs = append(svcs, block("DIDCommMessaging", v2ep))
			delete(dm, "keyAgreement")
		case "req-blocks-two-v1": // the second did-communication block has the higher priority and points elsewhere
			b := block("did-communication", "http://elsewhere.invalid", own)
			b["priority"] = 0
			svcs = append(svcs, b)
		case "req-blocks-indy-only":
			svcs = []interface{}{block("IndyAgent", w.M.Endpoint, ownRaw)}
		case "req-blocks-plain-v1": // a raw key in a did-communication block, an IndyAgent block behind it
			first["recipientKeys"] = []string{ownRaw}
			svcs = append(svcs, block("IndyAgent", w.M.Endpoint, ownRaw))
		case "lc-req-blocks-v1":
		}

		dm["service"] = svcs

		docb, e := json.Marshal(dm)
		if e != nil {
			return e
		}

		th := uuid.New().String()

		if strings.HasPrefix(at.Kind, "lc-") {
			pre := r.pre(x)

			linv, e := x.lc.CreateInvitation("open-legacy")
			if e != nil {
				return e
			}

			r.post(x, pre, func(int, string) string {
				return fmt.Sprintf("ICreateInv %d %d", w.inv(linv.ID), w.key(linv.RecipientKeys[0]))
			}, false, "")

			var legacy interface{}
			if e := json.Unmarshal(docb, &legacy); e != nil {
				return e
			}

			ldest := &service.Destination{RecipientKeys: asDIDKeys(linv.RecipientKeys), ServiceEndpoint: model.NewDIDCommV1Endpoint(x.Endpoint)}
			m := map[string]interface{}{"@type": lcRequest, "@id": th, "label": "mallory",
				"~thread": map[string]interface{}{"pthid": linv.ID}, "connection": map[string]interface{}{"DID": fakeDID, "DIDDoc": legacy}}

			if e := w.M.ctx.OutboundDispatcher().Send(m, sender, ldest); e != nil {
				return e
			}

			r.drain(nil)

			return w.M.ctx.OutboundDispatcher().Send(map[string]interface{}{"@type": lcAck, "@id": uuid.New().String(), "status": "OK",
				"~thread": map[string]interface{}{"thid": th}}, sender, ldest)
		}

		if e := send(request(th, inv.ID, fakeDID, string(docb)), inv); e != nil {
			return e
		}

		r.drain(nil)

		return send(map[string]interface{}{"@type": dxComplete, "@id": uuid.New().String(),
			"~thread": map[string]interface{}{"thid": th, "pthid": inv.ID}}, inv)
	case "init-repoint": // any message whose `from` is bob's peer DID with an initialState of mallory's making
		pd, e := did.ParseDocument([]byte(rename(victimDID)))
		if e != nil {
			return e
		}

		jb, e := pd.JSONBytes()
		if e != nil {
			return e
		}

		delta, _ := json.Marshal([]map[string]interface{}{{"change": base64.URLEncoding.EncodeToString(jb), "when": time.Now()}})

		return send(map[string]interface{}{"@type": basicType, "@id": uuid.New().String(),
			"from": named + "?initialState=" + base64.RawURLEncoding.EncodeToString(delta)}, inv)
	case "init-keysteal": // a message whose from/initialState names the victim DID with a document listing the VICTIM's key and mallory's endpoint
		if len(victimKeys) == 0 {
			return fmt.Errorf("victim keys unknown")
		}

		var dm map[string]interface{}
		if e := json.Unmarshal([]byte(rename(victimDID)), &dm); e != nil {
			return e
		}

		if svcs, _ := dm["service"].([]interface{}); len(svcs) > 0 {
			if first, ok := svcs[0].(map[string]interface{}); ok {
				first["recipientKeys"] = []string{victimKeys[0]}
			}
		}

		docb, e := json.Marshal(dm)
		if e != nil {
			return e
		}

		pd, e := did.ParseDocument(docb)
		if e != nil {
			return e
		}

		jb, e := pd.JSONBytes()
		if e != nil {
			return e
		}

		delta, _ := json.Marshal([]map[string]interface{}{{"change": base64.URLEncoding.EncodeToString(jb), "when": time.Now()}})

		return send(map[string]interface{}{"@type": basicType, "@id": uuid.New().String(),
			"from": named + "?initialState=" + base64.RawURLEncoding.EncodeToString(delta)}, inv)
	case "req-related-thread": // mallory's own exchange on a thread id RELATED to the victim's (common prefix, case variant, prefix/extension)
		target := vrec.ThreadID

		for _, e := range r.exs {
			if !e.done && e.Inviter == at.Target && e.Invitee != "mallory" && e.Style == "dx" && e.inviteeConn != "" {
				target = e.invID
			}
		}

		if len(target) < 34 {
			return fmt.Errorf("thread id too short")
		}

		flip := func(c byte) string {
			if c == 'f' {
				return "0"
			}

			return "f"
		}

		var th string

		switch r.rng.Intn(6) {
		case 0: // same first 32 characters, other tail
			th = target[:32] + flip(target[32]) + flip(target[33]) + target[34:]
		case 1: // same first 16
			th = target[:16] + base58ish(r.rng, len(target)-16)
		case 2: // differs in the last character only
			th = target[:len(target)-1] + flip(target[len(target)-1])
		case 3:
			th = strings.ToUpper(target)
		case 4: // the victim's id is a prefix of it
			th = target + "-0001"
		default: // it is a prefix of the victim's id
			th = target[:32]
		}

		if e := send(request(th, inv.ID, fakeDID, rename(fakeDID)), inv); e != nil {
			return e
		}

		r.drain(nil)

		return send(map[string]interface{}{"@type": dxComplete, "@id": uuid.New().String(),
			"~thread": map[string]interface{}{"thid": th, "pthid": inv.ID}}, inv)
	case "complete-replay": // a complete on the victim connection's own thread
		return send(map[string]interface{}{"@type": dxComplete, "@id": uuid.New().String(),
			"~thread": map[string]interface{}{"thid": vrec.ThreadID}}, inv)
	case "req-same-thread": // a request re-using the victim connection's thread id
		return send(request(vrec.ThreadID, inv.ID, fakeDID, rename(fakeDID)), inv)
	case "req-id-remap", "req-id-remap-known": // @id = the thread id of an existing exchange, ~thread.thid fresh / another known thread
		target := vrec.ThreadID

		for _, e := range r.exs { // prefer an exchange of the target that is still under way: its thread id is the invitation's id
			if !e.done && e.Inviter == at.Target && e.Invitee != "mallory" && e.Style == "dx" && e.inviteeConn != "" {
				target = e.invID
			}
		}

		thid := uuid.New().String()
		if at.Kind == "req-id-remap-known" {
			thid = me.x.ThreadID
		}

		m := request(target, inv.ID, fakeDID, rename(fakeDID))
		m["~thread"] = map[string]interface{}{"thid": thid, "pthid": inv.ID}

		return send(m, inv)
	case "ping-from-spoof": // an ordinary message over mallory's own connection, naming the victim as its `from`
		id := uuid.New().String()
		msg := service.DIDCommMsgMap{"@id": id, "@type": basicType, "from": named}

		if e := w.M.ctx.Messenger().Send(msg, me.y.MyDID, me.y.TheirDID); e != nil {
			return e
		}

		r.drain(nil)
		x.mu.Lock()
		defer x.mu.Unlock()

		for _, h := range x.handled {
			if h.MsgID == id && (h.MyDID != me.x.MyDID || h.TheirDID != me.x.TheirDID) {
				r.res.failf("attribution:ping-from-spoof", "%s's handler saw (my %s, their %s) for a message mallory sent over her connection (my %s, their %s)",
					x.Name, h.MyDID, h.TheirDID, me.x.MyDID, me.x.TheirDID)
			}
		}

		return nil
	case "rotate-takeover", "rotate-takeover-relkid": // a v2 message whose from_prior says the victim DID rotated to mallory's, signed by mallory
		mdoc := dr.DIDDocument
		forged := *mdoc
		forged.ID = named
		forged.VerificationMethod = append([]did.VerificationMethod{}, mdoc.VerificationMethod...)
		kid := mdoc.VerificationMethod[0].ID

		if strings.HasPrefix(kid, "#") {
			kid = baseDID + kid
		}

		if at.Kind == "rotate-takeover-relkid" {
			kid = kid[strings.Index(kid, "#"):]
		}

		forged.VerificationMethod[0].ID = kid

		jws, e := w.M.ctx.DIDRotator().Create(&forged, kid, baseDID)
		if e != nil {
			return e
		}

		// packed for the key the target uses on the victim connection (visible as recipient key id in the peer's envelopes)
		peer := w.agent(v.Invitee)
		prec := v.y

		if v.Invitee == at.Target {
			peer, prec = w.agent(v.Inviter), v.x
		}

		tk := peer.Resolve(prec.TheirDID).RecKeys
		if len(tk) == 0 {
			return fmt.Errorf("target keys unknown")
		}

		msg := map[string]interface{}{"id": uuid.New().String(), "type": basicType, "from": baseDID, "to": []string{vrec.MyDID},
			"body": map[string]interface{}{}, "from_prior": jws}

		return w.M.ctx.OutboundDispatcher().Send(msg, sender, &service.Destination{
			RecipientKeys: tk, ServiceEndpoint: model.NewDIDCommV1Endpoint(x.Endpoint)})
	case "resp-case-remap", "resp-case-remap-wrapper": // ~thread member names in another case: state check and record lookup part ways
		if vrec.NS != "my" {
			return fmt.Errorf("the target is not the invitee of the victim connection")
		}

		// the target accepts an invitation of mallory; mallory never answers the request
		e := &exchRun{Exch: Exch{Inviter: "mallory", Invitee: at.Target, Style: "dx"}}
		if err := r.setup(e); err != nil {
			return err
		}

		r.acceptStep(e)

		reqp := w.net.Take(func(p *Packet) bool { return p.From == x.Name && p.To == w.M.Endpoint && p.Type == dxRequest }, 5*time.Second)
		if reqp == nil {
			return fmt.Errorf("the target sent no request")
		}

		rd := attachedDoc(reqp.Plain)
		if rd == nil {
			return fmt.Errorf("request without document")
		}

		xd, err := service.CreateDestination(rd)
		if err != nil {
			return err
		}

		m := request(reqp.Thread, "", fakeDID, rename(fakeDID))
		m["@type"] = dxResponse
		m["~thread"] = map[string]interface{}{[]string{"THID", "Thid"}[r.rng.Intn(2)]: vrec.ThreadID}

		if at.Kind == "resp-case-remap-wrapper" {
			delete(m, "~thread")
			m["~Thread"] = map[string]interface{}{"thid": vrec.ThreadID}
		}

		return w.M.ctx.OutboundDispatcher().Send(m, sender, &service.Destination{
			RecipientKeys: xd.RecipientKeys, ServiceEndpoint: model.NewDIDCommV1Endpoint(x.Endpoint)})
	case "complete-case-remap": // a complete whose @id is a thread mallory runs with the target and whose ~thread.THID is the victim's
		return send(map[string]interface{}{"@type": dxComplete, "@id": me.x.ThreadID,
			"~thread": map[string]interface{}{"THID": vrec.ThreadID, "PTHID": inv.ID}}, inv)
	case "resp-forge": // a response nobody asked for, on a fresh and on the victim thread
		for _, th := range []string{uuid.New().String(), vrec.ThreadID} {
			m := request(uuid.New().String(), "", victimDID, rename(victimDID))
			m["@type"] = dxResponse
			m["~thread"] = map[string]interface{}{"thid": th}

			if e := send(m, inv); e != nil {
				return e
			}
		}

		return nil
	case "ping-unknown":
		return send(map[string]interface{}{"@type": basicType, "@id": uuid.New().String()}, inv)
	case "owner-reuse": // not an attack: the peer itself presents the same DID and document again on a new thread
		peer := w.agent(v.Invitee)
		if v.Invitee == at.Target {
			peer = w.agent(v.Inviter)
		}

		var att interface{}

		for _, p := range w.net.Log {
			if p.From == peer.Name && p.Plain != nil && plainStr(p, "did") == victimDID && p.Plain["did_doc~attach"] != nil {
				att = p.Plain["did_doc~attach"]
			}
		}

		if att == nil {
			return fmt.Errorf("no captured document of the peer")
		}

		pd, e := peer.ctx.VDRegistry().Resolve(victimDID)
		if e != nil {
			return e
		}

		pdest, e := service.CreateDestination(pd.DIDDocument)
		if e != nil {
			return e
		}

		m := request(uuid.New().String(), inv.ID, victimDID, "")
		m["did_doc~attach"] = att

		return peer.ctx.OutboundDispatcher().Send(m, pdest.RecipientKeys[0], &service.Destination{
			RecipientKeys: inv.RecipientKeys, ServiceEndpoint: model.NewDIDCommV1Endpoint(x.Endpoint)})
	}

	return fmt.Errorf("unknown attack %q", at.Kind)
}

// forgeDXResponse sends, and delivers before the genuine response p, a DID Exchange response made by mallory on the
// same thread (she knows the thread id from the invitation and the invitee's key from the recipient key id of the
// genuine response's envelope).
func (r *runner) forgeDXResponse(e *exchRun, genuine *Packet) error {
	w := r.w
	y := w.agent(e.Invitee)

	gdoc := attachedDoc(genuine.Plain)
	if gdoc == nil {
		return fmt.Errorf("genuine response unreadable")
	}

	yKeys := genuine.DestKeys
	if len(yKeys) == 0 {
		return fmt.Errorf("invitee keys unknown")
	}

	raw, err := gdoc.SerializeInterop()
	if err != nil {
		return err
	}

	didv := "did:peer:1zQm" + base58ish(r.rng, 44)
	if e.Forge == "inviter-did" {
		didv = gdoc.ID
	}

	doc := strings.ReplaceAll(strings.ReplaceAll(string(raw), gdoc.ID, didv), w.agent(e.Inviter).Endpoint, w.M.Endpoint)
	e.forgedDID = didv

	kid, pub, err := w.M.ctx.KMS().CreateAndExportPubKeyBytes(kms.ED25519Type)
	if err != nil {
		return err
	}

	att := &decorator.Attachment{MimeType: "application/json",
		Data: decorator.AttachmentData{Base64: base64.StdEncoding.EncodeToString([]byte(doc))}}

	if e.Forge == "signed" {
		kh, err := w.M.ctx.KMS().Get(kid)
		if err != nil {
			return err
		}

		if err := att.Data.Sign(w.M.ctx.Crypto(), kh, ed25519.PublicKey(pub), pub); err != nil {
			return err
		}
	}

	attJSON, err := json.Marshal(att)
	if err != nil {
		return err
	}

	var attMap map[string]interface{}
	if err := json.Unmarshal(attJSON, &attMap); err != nil {
		return err
	}

	msg := map[string]interface{}{"@type": dxResponse, "@id": uuid.New().String(), "~thread": map[string]interface{}{"thid": genuine.Thread},
		"did": didv, "did_doc~attach": attMap}
	sender, _ := fingerprint.CreateDIDKey(pub)

	if err := w.M.ctx.OutboundDispatcher().Send(msg, sender, &service.Destination{
		RecipientKeys: yKeys, ServiceEndpoint: model.NewDIDCommV1Endpoint(y.Endpoint)}); err != nil {
		return err
	}

	if fp := w.net.Take(func(p *Packet) bool { return p.From == "mallory" && p.To == y.Endpoint }, 5*time.Second); fp != nil {
		r.deliver(fp)
	}

	return nil
}

// forgeLegacyResponse sends, and delivers before the genuine response p, a connection response made by mallory on
// the same thread.
func (r *runner) forgeLegacyResponse(e *exchRun, genuine *Packet) error {
	w := r.w
	y := w.agent(e.Invitee)

	_, gdoc, _ := legacySigned(genuine.Plain["connection~sig"])
	if gdoc == nil {
		return fmt.Errorf("genuine response unreadable")
	}

	// the invitee's keys, from its request
	var yKeys []string

	for _, p := range w.net.Log {
		if p.Type == lcRequest && p.Thread == genuine.Thread && p.Plain != nil {
			if _, d := legacyConn(p.Plain["connection"]); d != nil {
				if dest, err := service.CreateDestination(d); err == nil {
					yKeys = dest.RecipientKeys
				}
			}
		}
	}

	if len(yKeys) == 0 {
		return fmt.Errorf("invitee keys unknown")
	}

	fake := "did:peer:1zQm" + base58ish(r.rng, 44)

	raw, err := gdoc.JSONBytes()
	if err != nil {
		return err
	}

	fd, err := did.ParseDocument([]byte(strings.ReplaceAll(strings.ReplaceAll(string(raw), gdoc.ID, fake), w.agent(e.Inviter).Endpoint, w.M.Endpoint)))
	if err != nil {
		return err
	}

	legacy, err := fd.ToLegacyRawDoc()
	if err != nil {
		return err
	}

	conn, err := json.Marshal(map[string]interface{}{"DID": fake, "DIDDoc": legacy})
	if err != nil {
		return err
	}

	seed := r.rng.Bytes(ed25519.SeedSize)
	priv := ed25519.NewKeyFromSeed(seed)
	data := append([]byte{0, 0, 0, 0, 0x65, 0, 0, 0}, conn...)
	signer := base58.Encode(priv.Public().(ed25519.PublicKey))

	if e.Forge == "liar" {
		signer = e.invKey
	}

	msg := map[string]interface{}{"@type": lcResponse, "@id": uuid.New().String(), "~thread": map[string]interface{}{"thid": genuine.Thread},
		"connection~sig": map[string]interface{}{"@type": "https://didcomm.org/signature/1.0/ed25519Sha512_single",
			"sig_data": base64.URLEncoding.EncodeToString(data), "signature": base64.URLEncoding.EncodeToString(ed25519.Sign(priv, data)),
			"signer": signer}}

	_, pub, err := w.M.ctx.KMS().CreateAndExportPubKeyBytes(kms.ED25519Type)
	if err != nil {
		return err
	}

	sender, _ := fingerprint.CreateDIDKey(pub)

	if err := w.M.ctx.OutboundDispatcher().Send(msg, sender, &service.Destination{
		RecipientKeys: yKeys, ServiceEndpoint: model.NewDIDCommV1Endpoint(y.Endpoint)}); err != nil {
		return err
	}

	if fp := w.net.Take(func(p *Packet) bool { return p.From == "mallory" && p.To == y.Endpoint }, 5*time.Second); fp != nil {
		r.deliver(fp)
	}

	return nil
}

// capturedDoc returns the DID document (as sent in the did_doc~attach of a request/response) of a DID, as a worst-case
// observer would have it.
func (r *runner) capturedDoc(didv string) string {
	for _, p := range r.w.net.Log {
		if p.Plain != nil && plainStr(p, "did") == didv {
			if att, ok := p.Plain["did_doc~attach"].(map[string]interface{}); ok {
				if data, ok := att["data"].(map[string]interface{}); ok {
					if b64, ok := data["base64"].(string); ok {
						if raw, err := base64.StdEncoding.DecodeString(b64); err == nil {
							return string(raw)
						}
					}
				}
			}
		}
	}

	return ""
}

// asDIDKeys writes raw base58 Ed25519 keys as did:key (what the outbound dispatcher's packers want).
func asDIDKeys(keys []string) []string {
	out := make([]string, len(keys))

	for i, k := range keys {
		out[i] = k

		if !strings.HasPrefix(k, "did:") {
			if raw := base58.Decode(k); len(raw) == 32 {
				out[i], _ = fingerprint.CreateDIDKey(raw)
			}
		}
	}

	return out
}

func base58ish(r *hx.Rng, n int) string {
	const al = "123456789ABCDEFGHJKLMNPQRSTUVWXYZabcdefghijkmnopqrstuvwxyz"
	b := make([]byte, n)
	for i := range b {
		b[i] = al[r.Intn(len(al))]
	}

	return string(b)
}

// ---------- generators ----------

var attackKinds = []string{"req-repoint", "req-repoint-badpthid", "req-repoint-keys", "req-repoint-endpoint", "req-repoint-routing", "req-repoint-accept", "req-repoint-priority", "req-repoint-svctype",
	"req-repoint-relationship", "req-repoint-svcid", "req-docid-mismatch",
	"req-docid-fresh", "lc-req-repoint", "req-id-remap", "req-id-remap-known", "resp-case-remap", "resp-case-remap-wrapper", "complete-case-remap", "ping-from-spoof", "rotate-takeover", "rotate-takeover-relkid", "req-nodoc", "init-keysteal", "req-related-thread", "req-keysteal", "req-keysteal-notation", "req-keysteal-indy", "req-keysteal-indy-didkey", "req-keysteal-second-block",
	"req-keysteal-v2-block", "init-repoint",
	"req-blocks-indy-first", "req-blocks-other-first", "req-blocks-v2-first", "req-blocks-v2-noka", "req-blocks-two-v1",
	"req-blocks-indy-only", "req-blocks-plain-v1", "lc-req-blocks-v1", "lc-req-blocks-v2-first", "lc-req-blocks-indy-v1",
	"complete-replay", "req-same-thread", "resp-forge", "ping-unknown", "owner-reuse"}

func main() {
	args := hx.ParseArgs()

	arieslog.Initialize(sigProvider{})
	arieslog.SetLevel("", spilog.CRITICAL)
	arieslog.SetLevel("aries-framework/did-exchange/service", spilog.DEBUG)
	arieslog.SetLevel("aries-framework/legacyconnection/service", spilog.DEBUG)

	tr := hx.NewTrace(args.Out)
	defer tr.Close()

	if args.Replay != "" {
		b, err := os.ReadFile(args.Replay)
		if err != nil {
			fmt.Fprintln(os.Stderr, err)
			os.Exit(2)
		}

		var f struct {
			Case *Spec `json:"case"`
		}

		if json.Unmarshal(b, &f) != nil || f.Case == nil {
			fmt.Fprintln(os.Stderr, "replay file without case")
			os.Exit(2)
		}

		tr.Put(runCase(f.Case, "replay", 0))

		return
	}

	var specs []*Spec

	var kinds []string

	add := func(kind string, s *Spec) { specs = append(specs, s); kinds = append(kinds, kind) }

	// corpus first
	if args.Extra != "" {
		files, _ := filepath.Glob(filepath.Join(args.Extra, "*.json"))
		sort.Strings(files)

		for _, f := range files {
			b, err := os.ReadFile(f)
			if err != nil {
				continue
			}

			s := &Spec{}
			if json.Unmarshal(b, s) == nil && len(s.Exch) > 0 {
				add("corpus", s)
			}
		}
	}

	rng := hx.NewRng(args.Seed)
	cfgs := configs()
	styles := []string{"dx", "oob", "implicit", "legacy", "legacy-didkey", "legacy-pubdid", "legacy-implicit"}
	withM := func(target string) Exch { return Exch{Inviter: target, Invitee: "mallory", Style: "dx"} }

	// the configuration matrix x invitation style x k = 1..3 concurrent exchanges
	// the stub public DID carries an Ed25519 key: the implicit style is exercised with the configurations whose
	// agents use Ed25519 keys (with P-256 keys the invitee's implicit flow ends in a logged error, no state at all)
	implicitOK := func(c Config) bool { return c.KeyType == "" || c.KeyType == "ED25519" }
	needsPub := func(st string) bool { return st == "implicit" || st == "legacy-pubdid" || st == "legacy-implicit" }

	for ci, cfg := range cfgs {
		for _, st := range styles {
			if needsPub(st) && !implicitOK(cfg) {
				continue
			}

			for k := 1; k <= 3; k++ {
				if args.Tier == "quick" && ci > 0 && k == 2 {
					continue
				}

				s := &Spec{Cfg: cfg, Seed: rng.U64()}
				for j := 0; j < k; j++ {
					e := Exch{Inviter: "alice", Invitee: "bob", Style: st}
					if j == 1 {
						e = Exch{Inviter: "bob", Invitee: "alice", Style: st}
					}

					s.Exch = append(s.Exch, e)
				}

				add("matrix", s)
			}
		}
	}

	// every attack against each side, after one honest exchange of each style
	for _, st := range styles {
		for _, ak := range attackKinds {
			for _, target := range []string{"alice", "bob"} {
				// the additional forms of the legacy invitation key differ on the invitee's side: quick runs attack that side
				if args.Tier == "quick" && strings.HasPrefix(st, "legacy-") && target == "alice" {
					continue
				}

				// the multi-block documents are mallory's own: what they do does not depend on how the victims connected
				if args.Tier == "quick" && strings.Contains(ak, "-blocks-") && st != "dx" && st != "legacy" {
					continue
				}

				s := &Spec{Cfg: cfgs[0], Seed: rng.U64(), Exch: []Exch{{Inviter: "alice", Invitee: "bob", Style: st}, withM(target)},
					Attacks: []Attack{{Kind: ak, Target: target}}}
				add("attack", s)
			}
		}
	}

	// the attacks that name the victim's DID, with the DID written in another spelling
	for _, ak := range []string{"req-repoint", "req-repoint-endpoint", "init-repoint", "init-keysteal", "rotate-takeover", "ping-from-spoof", "lc-req-repoint"} {
		for _, sp := range []string{"case", "scheme", "space", "pct"} {
			for _, target := range []string{"alice", "bob"} {
				add("spelling", &Spec{Cfg: cfgs[0], Seed: rng.U64(), Exch: []Exch{{Inviter: "alice", Invitee: "bob", Style: "dx"}, withM(target)},
					Attacks: []Attack{{Kind: ak, Target: target, Spell: sp}}})
			}
		}
	}

	// the attacks in which mallory presents a document of her making, with a key pair made for the occasion (linked to
	// nothing anywhere) and a message packed with that key afterwards
	for _, ak := range []string{"req-repoint", "req-repoint-keys", "req-docid-mismatch", "req-docid-fresh", "lc-req-repoint", "init-repoint", "req-keysteal",
		"req-blocks-two-v1", "req-same-thread"} {
		for _, target := range []string{"alice", "bob"} {
			add("freshkey", &Spec{Cfg: cfgs[0], Seed: rng.U64(), Exch: []Exch{{Inviter: "alice", Invitee: "bob", Style: []string{"dx", "legacy"}[rng.Intn(2)]}, withM(target)},
				Attacks: []Attack{{Kind: ak, Target: target, Fresh: true}}, Restart: []string{"", "", "target"}[rng.Intn(3)]})
		}
	}

	// related thread ids: several tries per side, also while a further exchange is under way
	for i := 0; i < 12; i++ {
		target := []string{"alice", "bob"}[i%2]
		s := &Spec{Cfg: cfgs[0], Seed: rng.U64(), Exch: []Exch{{Inviter: "alice", Invitee: "bob", Style: "dx"}, withM(target)},
			Attacks: []Attack{{Kind: "req-related-thread", Target: target}, {Kind: "req-related-thread", Target: target}}}
		if i%3 == 0 {
			s.Late = []Exch{{Inviter: target, Invitee: map[string]string{"alice": "bob", "bob": "alice"}[target], Style: "dx"}}
		}

		add("threads", s)
	}

	// every attack after a restart of the attacked agent (what was stored must be as binding as before)
	for _, ak := range attackKinds {
		for _, target := range []string{"alice", "bob"} {
			st := []string{"dx", "oob", "legacy"}[rng.Intn(3)]
			add("restart", &Spec{Cfg: cfgs[0], Seed: rng.U64(), Exch: []Exch{{Inviter: "alice", Invitee: "bob", Style: st}, withM(target)},
				Attacks: []Attack{{Kind: ak, Target: target}}, Restart: "target"})
		}
	}

	// honest exchanges with restarts between any two steps
	for _, st := range styles {
		for k := 1; k <= 2; k++ {
			s := &Spec{Cfg: cfgs[0], Seed: rng.U64(), Restart: "random"}
			for j := 0; j < k; j++ {
				e := Exch{Inviter: "alice", Invitee: "bob", Style: st}
				if j == 1 {
					e = Exch{Inviter: "bob", Invitee: "alice", Style: st}
				}

				s.Exch = append(s.Exch, e)
			}

			add("restart", s)
		}
	}

	// a forged legacy response overtaking the genuine one (the signature by the invitation key is what tells them apart)
	for _, lst := range []string{"legacy", "legacy-didkey", "legacy-pubdid", "legacy-implicit"} {
		for _, f := range []string{"key", "liar"} {
			for _, other := range []bool{false, true} {
				s := &Spec{Cfg: cfgs[0], Seed: rng.U64(), Exch: []Exch{{Inviter: "alice", Invitee: "bob", Style: lst, Forge: f}}}
				if other {
					s.Exch = append(s.Exch, Exch{Inviter: "bob", Invitee: "alice", Style: lst})
				}

				add("forge", s)
			}
		}
	}

	// a forged DID Exchange response overtaking the genuine one (known finding forged-dx-response)
	for _, dst := range []string{"dx", "oob", "implicit"} {
		for _, f := range []string{"impostor", "inviter-did", "signed"} {
			for _, other := range []bool{false, true} {
				s := &Spec{Cfg: cfgs[0], Seed: rng.U64(), Exch: []Exch{{Inviter: "alice", Invitee: "bob", Style: dst, Forge: f}}}
				if other {
					s.Exch = append(s.Exch, Exch{Inviter: "bob", Invitee: "alice", Style: dst})
				}

				add("forge", s)
			}
		}
	}

	// both parties behind a mediator: honest matrix, then the routing-key / endpoint / key edits and the other re-pointing attacks
	for _, st := range []string{"dx", "oob", "legacy"} {
		for k := 1; k <= 2; k++ {
			s := &Spec{Cfg: cfgs[0], Seed: rng.U64(), Mediated: true}
			for j := 0; j < k; j++ {
				e := Exch{Inviter: "alice", Invitee: "bob", Style: st}
				if j == 1 {
					e = Exch{Inviter: "bob", Invitee: "alice", Style: st}
				}

				s.Exch = append(s.Exch, e)
			}

			add("mediated", s)
		}

		for _, ak := range []string{"req-repoint", "req-repoint-keys", "req-repoint-endpoint", "req-repoint-routing", "req-keysteal", "init-repoint", "rotate-takeover"} {
			target := []string{"alice", "bob"}[rng.Intn(2)]
			add("mediated", &Spec{Cfg: cfgs[0], Seed: rng.U64(), Mediated: true,
				Exch:    []Exch{{Inviter: "alice", Invitee: "bob", Style: st}, withM(target)},
				Attacks: []Attack{{Kind: ak, Target: target}}})
		}
	}

	// out-of-band v2 / DIDComm v2 connections (profile didcomm/v2): honest, then re-pointing and rotation attacks
	for k := 1; k <= 3; k++ {
		s := &Spec{Cfg: cfgs[4], Seed: rng.U64()}
		for j := 0; j < k; j++ {
			e := Exch{Inviter: "alice", Invitee: "bob", Style: "oobv2"}
			if j == 1 {
				e = Exch{Inviter: "bob", Invitee: "alice", Style: "oobv2"}
			}

			s.Exch = append(s.Exch, e)
		}

		add("v2", s)
	}

	// several DIDComm v2 connections between the same two parties in the same direction (the invitee holds several records
	// with one peer DID and a peer DID of its own on each), accepted at the same time; first messages and answers interleaved
	for i := 0; i < 12; i++ {
		s := &Spec{Cfg: cfgs[4], Seed: rng.U64()}
		inviter, invitee := "alice", "bob"

		if i%2 == 1 {
			inviter, invitee = "bob", "alice"
		}

		for j, n := 0, 3+rng.Intn(2); j < n; j++ {
			s.Exch = append(s.Exch, Exch{Inviter: inviter, Invitee: invitee, Style: "oobv2"})
		}

		if i >= 10 {
			s.Restart = "random"
		}

		add("v2", s)
	}

	for _, ak := range []string{"req-repoint", "req-repoint-keys", "req-repoint-endpoint", "req-docid-mismatch", "init-repoint", "rotate-takeover",
		"rotate-takeover-relkid", "req-keysteal", "ping-from-spoof"} {
		for _, target := range []string{"alice", "bob"} {
			add("v2", &Spec{Cfg: cfgs[4], Seed: rng.U64(), Exch: []Exch{{Inviter: "alice", Invitee: "bob", Style: "oobv2"}, withM(target)},
				Attacks: []Attack{{Kind: ak, Target: target}}, Restart: []string{"", "target"}[rng.Intn(2)]})
		}
	}

	// synchronous delivery: every reply reaches the sender while it is still inside its Send call
	for _, cfg := range cfgs {
		for _, st := range styles {
			if needsPub(st) && !implicitOK(cfg) {
				continue
			}

			for k := 1; k <= 2; k++ {
				s := &Spec{Cfg: cfg, Seed: rng.U64(), Mode: "sync"}
				for j := 0; j < k; j++ {
					e := Exch{Inviter: "alice", Invitee: "bob", Style: st}
					if j == 1 {
						e = Exch{Inviter: "bob", Invitee: "alice", Style: st}
					}

					s.Exch = append(s.Exch, e)
				}

				add("sync", s)
			}
		}
	}

	// seeded mixtures: several concurrent exchanges (both directions, mallory's own among them), several attacks
	nRandom := 140
	if args.Tier == "thorough" {
		nRandom = 3000
	}

	for i := 0; i < nRandom; i++ {
		s := &Spec{Cfg: cfgs[rng.Intn(len(cfgs))], Seed: rng.U64()}
		k := 1 + rng.Intn(3)

		for j := 0; j < k; j++ {
			e := Exch{Inviter: "alice", Invitee: "bob", Style: styles[rng.Intn(len(styles))]}
			if needsPub(e.Style) && !implicitOK(s.Cfg) {
				e.Style = "dx"
			}

			if rng.Intn(3) == 0 {
				e.Inviter, e.Invitee = "bob", "alice"
			}

			s.Exch = append(s.Exch, e)
		}

		target := []string{"alice", "bob"}[rng.Intn(2)]
		s.Exch = append(s.Exch, withM(target))

		for j, n := 0, 1+rng.Intn(4); j < n; j++ {
			at := Attack{Kind: attackKinds[rng.Intn(len(attackKinds))], Target: target}
			if rng.Intn(4) == 0 {
				at.Spell = []string{"case", "scheme", "space", "pct"}[rng.Intn(4)]
			}

			at.Fresh = rng.Intn(4) == 0

			s.Attacks = append(s.Attacks, at)
		}

		if rng.Intn(3) == 0 {
			s.Restart = []string{"target", "random"}[rng.Intn(2)]
		}

		if rng.Intn(2) == 0 { // the attacks run while further exchanges are under way
			for j, n := 0, 1+rng.Intn(2); j < n; j++ {
				e := Exch{Inviter: "alice", Invitee: "bob", Style: styles[rng.Intn(len(styles))]}
				if needsPub(e.Style) && !implicitOK(s.Cfg) {
					e.Style = "oob"
				}

				if rng.Bool() {
					e.Inviter, e.Invitee = "bob", "alice"
				}

				s.Late = append(s.Late, e)
			}
		}

		add("random", s)
	}

	// run: worlds are independent, so several cases run side by side
	out := make([]*hx.Record, len(specs))
	sem := make(chan struct{}, 6)

	var wg sync.WaitGroup

	for i := range specs {
		wg.Add(1)

		go func(i int) {
			defer wg.Done()
			sem <- struct{}{}
			out[i] = runCase(specs[i], kinds[i], i)
			<-sem
		}(i)
	}

	wg.Wait()

	inconclusive := 0

	for _, rec := range out {
		if rec.Class == "inconclusive" {
			inconclusive++
		}

		tr.Put(rec)
	}

	fmt.Printf("c10: %d cases, %d inconclusive\n", len(out), inconclusive)
}

func configs() []Config {
	return []Config{
		{},
		{Profile: "didcomm/aip1"},
		{Profile: "didcomm/aip2;env=rfc19"},
		{Profile: "didcomm/aip2;env=rfc587"},
		{Profile: "didcomm/v2"},
		{KeyType: "ECDSAP256IEEEP1363", KAType: "NISTP256ECDHKW", Profile: "didcomm/aip2;env=rfc587"},
		{KeyType: "ED25519", KAType: "NISTP384ECDHKW", Profile: "didcomm/v2"},
	}
}

var _ = lcclient.New
