package main

import (
	"crypto/ed25519"
	"crypto/sha256"
	"encoding/base64"
	"encoding/json"
	"fmt"
	"sort"
	"strings"
	"sync"
	"time"

	"github.com/btcsuite/btcutil/base58"

	"github.com/hyperledger/aries-framework-go/pkg/didcomm/common/service"
	"github.com/hyperledger/aries-framework-go/pkg/doc/did"
	"github.com/hyperledger/aries-framework-go/pkg/vdr/fingerprint"
	spilog "github.com/hyperledger/aries-framework-go/spi/log"

	"verifharness/hx"
)

// ---------- completion signals taken from the services' own final log statement ----------

// The protocol services end the goroutine that processes an inbound message with
// logutil.LogDebug(logger, <svc>, "processMessage", "success", msgType=.., msgID=.., connectionID=..) whether or
// not processing succeeded; the harness waits for that line instead of sleeping.
type sigLog struct {
	mu   sync.Mutex
	cond *sync.Cond
	done map[string]int // msgID|connID -> count
	errs []string
}

var signals = func() *sigLog { s := &sigLog{done: map[string]int{}}; s.cond = sync.NewCond(&s.mu); return s }()

type sigLogger struct{ module string }

func (l *sigLogger) Panicf(msg string, args ...interface{}) { panic(fmt.Sprintf(msg, args...)) }
func (l *sigLogger) Fatalf(msg string, args ...interface{}) { panic(fmt.Sprintf(msg, args...)) }
func (l *sigLogger) Errorf(msg string, args ...interface{}) {
	if verbose {
		fmt.Printf("[E %s] "+msg+"\n", append([]interface{}{l.module}, args...)...)
	}
}
func (l *sigLogger) Warnf(msg string, args ...interface{}) {}
func (l *sigLogger) Infof(msg string, args ...interface{}) {}
func (l *sigLogger) Debugf(msg string, args ...interface{}) {
	if len(args) != 4 || !strings.HasPrefix(msg, "command=[%s] action=[%s]") {
		return
	}

	if a, _ := args[1].(string); a != "processMessage" {
		return
	}

	data, _ := args[2].([]string)

	var id, conn string

	for _, d := range data {
		if strings.HasPrefix(d, "msgID=[") {
			id = strings.TrimSuffix(strings.TrimPrefix(d, "msgID=["), "]")
		}

		if strings.HasPrefix(d, "connectionID=[") {
			conn = strings.TrimSuffix(strings.TrimPrefix(d, "connectionID=["), "]")
		}
	}

	signals.mu.Lock()
	signals.done["m:"+id]++
	signals.done["c:"+conn]++
	signals.cond.Broadcast()
	signals.mu.Unlock()
}

type sigProvider struct{}

func (sigProvider) GetLogger(module string) spilog.Logger { return &sigLogger{module: module} }

func (s *sigLog) count(k string) int {
	s.mu.Lock()
	defer s.mu.Unlock()

	return s.done[k]
}

func (s *sigLog) waitAbove(k string, n int, d time.Duration) bool {
	deadline := time.Now().Add(d)

	s.mu.Lock()
	defer s.mu.Unlock()

	for s.done[k] <= n {
		if time.Now().After(deadline) {
			return false
		}

		waitCond(s.cond, 20*time.Millisecond)
	}

	return true
}

// ---------- interning ----------

// Intern maps strings to 1,2,3...
type Intern struct {
	m    map[string]int
	list []string
}

func newIntern() *Intern { return &Intern{m: map[string]int{}} }

func (i *Intern) id(s string) int {
	if s == "" {
		return 0
	}

	if v, ok := i.m[s]; ok {
		return v
	}

	i.list = append(i.list, s)
	i.m[s] = len(i.list)

	return len(i.list)
}

// canonKey brings the spellings of an Ed25519/X25519 key (did:key, base58, raw) to one form.
func canonKey(k string) string {
	if strings.HasPrefix(k, "did:key:") {
		if raw, err := fingerprint.PubKeyFromDIDKey(k); err == nil {
			return fmt.Sprintf("raw:%x", raw)
		}

		return k
	}

	if !strings.Contains(k, ":") && !strings.Contains(k, "#") {
		// any key length: with P-256 agent keys the services write the marshalled key in base58 into IndyAgent blocks
		// and CreateDestination turns it into the did:key spelling of the same bytes
		if raw := base58.Decode(k); len(raw) >= 16 {
			return fmt.Sprintf("raw:%x", raw)
		}
	}

	return k
}

func rawKey(b []byte) string { return fmt.Sprintf("raw:%x", b) }

// DocAbs is the model's view of a DID document.
type DocAbs struct {
	ID   string
	Keys []string // canonical recipient keys of the destination service.CreateDestination computes (none if it fails)
	EP   string   // its endpoint
	H    string
	// what the model computes the destination from: the service blocks in document order, the key agreement ids
	Svcs []SvcAbs
	KA   []string
	Dest bool   // CreateDestination succeeded
	Odd  string // the document has a feature the model's document grammar cannot say
}

// SvcAbs is one service block: type class (TV2 / TV1 / TIndy / TOther), canonical recipient keys, whether one of them is
// not written as a DID, endpoint URI ("" if there is no usable one).
type SvcAbs struct {
	Type  string
	Keys  []string
	Plain bool
	EP    string
}

func absDoc(doc *did.Doc) *DocAbs {
	if doc == nil {
		return nil
	}

	d := &DocAbs{ID: doc.ID}

	if dest, err := service.CreateDestination(doc); err == nil {
		d.EP, _ = dest.ServiceEndpoint.URI()
		d.Dest = true

		for _, k := range dest.RecipientKeys {
			d.Keys = append(d.Keys, canonKey(k))
		}
	}

	for i := range doc.Service {
		sv := &doc.Service[i]
		sa := SvcAbs{Type: "TOther"}

		switch t := sv.Type.(type) {
		case string:
			switch t {
			case "DIDCommMessaging":
				sa.Type = "TV2"
			case "did-communication":
				sa.Type = "TV1"
			case "IndyAgent":
				sa.Type = "TIndy"
			}
		default:
			d.Odd = "service type that is not a string"
		}

		for _, k := range sv.RecipientKeys {
			sa.Keys = append(sa.Keys, canonKey(k))

			if !strings.HasPrefix(k, "did:") {
				sa.Plain = true
			}
		}

		uri, err := sv.ServiceEndpoint.URI()
		if err == nil {
			sa.EP = uri

			if uri == "" && sa.Type == "TV2" {
				d.Odd = "DIDComm v2 service block with an empty URI"
			}
		}

		d.Svcs = append(d.Svcs, sa)
	}

	for i := range doc.KeyAgreement {
		id := doc.KeyAgreement[i].VerificationMethod.ID
		if strings.HasPrefix(id, "#") {
			id = doc.ID + id
		}

		d.KA = append(d.KA, canonKey(id))
	}

	// digest of what the document says: identifier, public key material, endpoint and recipient keys (independent
	// of the serialisation: the legacy connection protocol re-encodes documents)
	var parts []string

	for i := range doc.VerificationMethod {
		parts = append(parts, fmt.Sprintf("vm|%x", doc.VerificationMethod[i].Value))
	}

	parts = append(parts, "ep|"+d.EP, "rk|"+strings.Join(d.Keys, ","), "route|"+strings.Join(docRes(doc).Routing, ","))

	// service type, priority, accept and the verification relationships (which key is listed under which)
	for i := range doc.Service {
		sv := &doc.Service[i]
		acc, _ := sv.ServiceEndpoint.Accept()
		id := sv.ID
		if k := strings.Index(id, "#"); k >= 0 {
			id = id[k:]
		}

		parts = append(parts, fmt.Sprintf("svc|%d|%s|%s|%d|%v|%v|%v", i, id, sv.Type, sv.Priority, sv.Accept, acc, sv.Properties))
	}

	rel := func(name string, vs []did.Verification) {
		for i := range vs {
			parts = append(parts, fmt.Sprintf("rel|%s|%x", name, vs[i].VerificationMethod.Value))
		}
	}

	rel("authentication", doc.Authentication)
	rel("assertionMethod", doc.AssertionMethod)
	rel("keyAgreement", doc.KeyAgreement)
	rel("capabilityDelegation", doc.CapabilityDelegation)
	rel("capabilityInvocation", doc.CapabilityInvocation)

	sort.Strings(parts)
	sum := sha256.Sum256([]byte(doc.ID + "\n" + strings.Join(parts, "\n")))
	d.H = fmt.Sprintf("%x", sum[:8])

	return d
}

// fullRes is docRes plus the digest of the remaining members.
func fullRes(doc *did.Doc) Res {
	r := docRes(doc)
	r.Digest = absDoc(doc).H

	return r
}

// ---------- per-agent trace for the Coq correspondence ----------

// ATrace is the sequence of inputs of one honest agent with what was observed after each.
type ATrace struct {
	a      *Agent
	inputs []string
	obs    []string
	cids   []string
	dids   []string
	keys   []string
	seenC  map[string]bool
	seenD  map[string]bool
	seenK  map[string]bool
}

// World is one case's universe: a network, three frameworks, interning tables, traces.
type World struct {
	net          *Net
	A, B, M, R   *Agent
	in           *Intern
	tr           map[string]*ATrace
	inconclusive string
	coq          bool // the case can be expressed for the model
	coqWhy       string
	imu          sync.Mutex
	dests        map[string]string // document term -> what service.CreateDestination answered for it
	destOrder    []string
}

func newWorld(cfg Config) (*World, error) {
	w := &World{net: NewNet(), in: newIntern(), tr: map[string]*ATrace{}, coq: true}
	w.net.SetHold(true)

	var err error

	if w.A, err = NewAgent(w.net, "alice", cfg); err != nil {
		return nil, err
	}

	if w.B, err = NewAgent(w.net, "bob", cfg); err != nil {
		return nil, err
	}

	if w.M, err = NewAgent(w.net, "mallory", cfg); err != nil {
		return nil, err
	}

	for _, a := range []*Agent{w.A, w.B} {
		w.tr[a.Name] = &ATrace{a: a, seenC: map[string]bool{}, seenD: map[string]bool{}, seenK: map[string]bool{}}
	}

	return w, nil
}

func (w *World) setInconclusive(why string) {
	w.imu.Lock()
	if w.inconclusive == "" {
		w.inconclusive = why
	}
	w.imu.Unlock()
}

func (w *World) noCoq(why string) {
	w.coq = false
	if w.coqWhy == "" {
		w.coqWhy = why
	}
}

func (w *World) close() {
	for _, a := range []*Agent{w.A, w.B, w.M, w.R} {
		if a != nil {
			a.Close()
		}
	}
}

func (w *World) agent(name string) *Agent {
	switch name {
	case "alice":
		return w.A
	case "bob":
		return w.B
	default:
		return w.M
	}
}

func (w *World) agentAt(ep string) *Agent {
	for _, a := range []*Agent{w.A, w.B, w.M, w.R} {
		if a != nil && a.Endpoint == ep {
			return a
		}
	}

	return nil
}

// ---- Coq printers ----

func (w *World) cKeys(keys []string) string {
	ks := make([]int, len(keys))
	for i, k := range keys {
		ks[i] = w.in.id("k:" + k)
	}

	return nList(ks)
}

// cDoc prints a document for the model and notes what the real CreateDestination made of it (the model's `dest` is
// compared with that inside Coq).
func (w *World) cDoc(d *DocAbs) string {
	if d == nil {
		return "doc0"
	}

	if d.Odd != "" {
		w.noCoq("document outside the model's grammar: " + d.Odd)
	}

	svcs := make([]string, len(d.Svcs))
	for i, sv := range d.Svcs {
		svcs[i] = fmt.Sprintf("Svc %s %s %v %d", sv.Type, w.cKeys(sv.Keys), sv.Plain, w.ep(sv.EP))
	}

	term := fmt.Sprintf("(Doc %d [%s] %s %d)", w.did(d.ID), strings.Join(svcs, "; "), w.cKeys(d.KA), w.in.id("h:"+d.H))

	w.imu.Lock()
	if w.dests == nil {
		w.dests = map[string]string{}
	}

	if _, ok := w.dests[term]; !ok {
		obs := "None"
		if d.Dest {
			obs = fmt.Sprintf("(Some (%d, %s))", w.ep(d.EP), w.cKeys(d.Keys))
		}

		w.dests[term] = obs
		w.destOrder = append(w.destOrder, term)
	}
	w.imu.Unlock()

	return term
}

func (w *World) cODoc(d *DocAbs) string {
	if d == nil {
		return "None"
	}

	return "(Some " + w.cDoc(d) + ")"
}

func nList(ns []int) string {
	s := make([]string, len(ns))
	for i, n := range ns {
		s[i] = fmt.Sprintf("%d", n)
	}

	return "[" + strings.Join(s, "; ") + "]"
}

func (w *World) did(s string) int { return w.pid("d:", s) }
func (w *World) key(s string) int { return w.pid("k:", canonKey(s)) }

func (w *World) pid(prefix, s string) int {
	if s == "" {
		return 0
	}

	return w.in.id(prefix + s)
}
func (w *World) th(s string) int  { return w.pid("t:", s) }
func (w *World) cid(s string) int { return w.pid("c:", s) }
func (w *World) inv(s string) int { return w.pid("i:", s) }
func (w *World) ep(s string) int  { return w.pid("e:", s) }

// attachedDoc extracts and parses did_doc~attach of a DID Exchange request/response.
func attachedDoc(plain map[string]interface{}) *did.Doc {
	att, ok := plain["did_doc~attach"].(map[string]interface{})
	if !ok {
		return nil
	}

	data, ok := att["data"].(map[string]interface{})
	if !ok {
		return nil
	}

	b64, _ := data["base64"].(string)

	raw, err := base64.StdEncoding.DecodeString(b64)
	if err != nil {
		return nil
	}

	doc, err := did.ParseDocument(raw)
	if err != nil {
		return nil
	}

	return doc
}

const (
	dxRequest  = "https://didcomm.org/didexchange/1.0/request"
	dxResponse = "https://didcomm.org/didexchange/1.0/response"
	dxComplete = "https://didcomm.org/didexchange/1.0/complete"
	lcRequest  = "https://didcomm.org/connections/1.0/request"
	lcResponse = "https://didcomm.org/connections/1.0/response"
	lcAck      = "https://didcomm.org/notification/1.0/ack"
)

// cMsg prints the model's view of a packet's plaintext ("" if the model has no such message).
func (w *World) cMsg(p *Packet) string {
	if p.Plain == nil {
		return ""
	}

	str := func(k string) string { s, _ := p.Plain[k].(string); return s }

	// HandleInboundPeerDID comes first for every message type
	if from := str("from"); strings.Contains(from, "initialState=") {
		// under a DIDComm v2 envelope the key ids name DIDs and the sender is attributed by that DID, not through the
		// key index the model's MInit dispatches on: such messages go to the direct oracle only
		_, fok := kidDID(p.FromKey)
		_, tok := kidDID(p.ToKey)

		if fok || tok {
			return ""
		}

		if doc := initialStateDoc(from); doc != nil {
			return fmt.Sprintf("(MInit %s %d %d)", w.cDoc(absDoc(doc)), w.in.id("k:"+rawKey(p.FromKey)), w.in.id("k:"+rawKey(p.ToKey)))
		}

		return ""
	}

	if fp := str("from_prior"); fp != "" {
		iss, sub, signer, ok := w.readFromPrior(p, fp)
		if !ok {
			return ""
		}

		return fmt.Sprintf("(MRotate %d %d %d %d %d)", w.did(iss), w.did(sub), w.did(signer), w.in.id("k:"+rawKey(p.FromKey)), w.in.id("k:"+rawKey(p.ToKey)))
	}

	switch p.Type {
	case dxRequest:
		return fmt.Sprintf("(MRequest DX %d %d %d %d %s)", w.th(p.Thread), w.th(str("@id")), w.inv(p.PThid), w.did(str("did")), w.cODoc(absDoc(attachedDoc(p.Plain))))
	case dxResponse:
		return fmt.Sprintf("(MResponse DX %d %d %d %s 0)", w.th(p.Thread), w.th(decodedThid(p.Plain)), w.did(str("did")), w.cODoc(absDoc(attachedDoc(p.Plain))))
	case dxComplete:
		return fmt.Sprintf("(MComplete DX %d %d)", w.th(p.Thread), w.th(decodedThid(p.Plain)))
	case lcRequest:
		cd, cdoc := legacyConn(p.Plain["connection"])
		if cdoc == nil {
			// a connection block the harness cannot read as a document (the service refuses the whole message when it
			// cannot decode it, and abandons when the document is merely absent: the model has one `None`)
			return ""
		}

		return fmt.Sprintf("(MRequest LC %d %d %d %d %s)", w.th(p.Thread), w.th(str("@id")), w.inv(p.PThid), w.did(cd), w.cODoc(absDoc(cdoc)))
	case lcResponse:
		cd, cdoc, signer := legacySigned(p.Plain["connection~sig"])
		if cdoc == nil && cd != "" {
			return "" // a signed document in a rendering the harness cannot read back
		}

		return fmt.Sprintf("(MResponse LC %d %d %d %s %d)", w.th(p.Thread), w.th(decodedThid(p.Plain)), w.did(cd), w.cODoc(absDoc(cdoc)), w.key(signer))
	case lcAck:
		return fmt.Sprintf("(MComplete LC %d %d)", w.th(p.Thread), w.th(decodedThid(p.Plain)))
	case basicType:
		fd, fok := kidDID(p.FromKey)
		td, tok := kidDID(p.ToKey)

		if fok && tok {
			return fmt.Sprintf("(MPingV2 %d %d)", w.did(fd), w.did(td))
		}

		if fok || tok {
			return ""
		}

		return fmt.Sprintf("(MPing %d %d)", w.in.id("k:"+rawKey(p.FromKey)), w.in.id("k:"+rawKey(p.ToKey)))
	}

	return ""
}

// readFromPrior reads a from_prior compact JWS: issuer, subject and the DID (as the receiving agent resolves it) in
// whose document the kid names a key under which the signature verifies ("" if none; ok=false if the harness cannot
// judge the signature, i.e. the key is not Ed25519).
func (w *World) readFromPrior(p *Packet, fp string) (iss, sub, signer string, ok bool) {
	parts := strings.Split(fp, ".")
	if len(parts) != 3 {
		return "", "", "", false
	}

	hdr, e1 := base64.RawURLEncoding.DecodeString(parts[0])
	pl, e2 := base64.RawURLEncoding.DecodeString(parts[1])
	sig, e3 := base64.RawURLEncoding.DecodeString(parts[2])

	if e1 != nil || e2 != nil || e3 != nil {
		return "", "", "", false
	}

	var h struct {
		KID string `json:"kid"`
		Alg string `json:"alg"`
	}

	var pay struct {
		ISS string `json:"iss"`
		Sub string `json:"sub"`
	}

	if json.Unmarshal(hdr, &h) != nil || json.Unmarshal(pl, &pay) != nil || h.Alg != "EdDSA" {
		return "", "", "", false
	}

	dst := w.agentAt(p.To)
	if dst == nil {
		return "", "", "", false
	}

	cands := []string{pay.ISS}
	if i := strings.Index(h.KID, "#"); i > 0 {
		cands = append(cands, h.KID[:i])
	}

	for _, d := range cands {
		dr, err := dst.ctx.VDRegistry().Resolve(d)
		if err != nil || dr.DIDDocument == nil {
			continue
		}

		for i := range dr.DIDDocument.VerificationMethod {
			vm := &dr.DIDDocument.VerificationMethod[i]
			if (vm.ID == h.KID || dr.DIDDocument.ID+vm.ID == h.KID) && len(vm.Value) == ed25519.PublicKeySize &&
				ed25519.Verify(ed25519.PublicKey(vm.Value), []byte(parts[0]+"."+parts[1]), sig) {
				return pay.ISS, pay.Sub, d, true
			}
		}
	}

	return pay.ISS, pay.Sub, "", true
}

// legacyConn reads the connection member of a legacy request ({DID, DIDDoc}).
func legacyConn(v interface{}) (string, *did.Doc) {
	m, ok := v.(map[string]interface{})
	if !ok {
		return "", nil
	}

	id, _ := m["DID"].(string)

	raw, err := json.Marshal(m["DIDDoc"])
	if err != nil {
		return id, nil
	}

	doc, err := did.ParseDocument(raw)
	if err != nil {
		return id, nil
	}

	return id, doc
}

// legacySigned reads connection~sig of a legacy response: the signed connection and the key the signature verifies
// under ("" if it does not verify under the key named as signer).
func legacySigned(v interface{}) (string, *did.Doc, string) {
	m, ok := v.(map[string]interface{})
	if !ok {
		return "", nil, ""
	}

	sd, _ := m["sig_data"].(string)
	sg, _ := m["signature"].(string)
	signer, _ := m["signer"].(string)

	data, err := base64.URLEncoding.DecodeString(sd)
	if err != nil || len(data) <= 8 {
		return "", nil, ""
	}

	var c map[string]interface{}
	if json.Unmarshal(data[8:], &c) != nil {
		return "", nil, ""
	}

	id, doc := legacyConn(c)

	sig, err := base64.URLEncoding.DecodeString(sg)
	if err != nil {
		return id, doc, ""
	}

	ck := canonKey(signer)
	if !strings.HasPrefix(ck, "raw:") {
		return id, doc, ""
	}

	var pub []byte

	fmt.Sscanf(ck[4:], "%x", &pub)

	if len(pub) != ed25519.PublicKeySize || !ed25519.Verify(ed25519.PublicKey(pub), data, sig) {
		return id, doc, ""
	}

	return id, doc, signer
}

// foldGet mirrors how Decode (mapstructure) finds a member: the exact name, else the first name equal up to case.
func foldGet(m map[string]interface{}, name string) interface{} {
	if v, ok := m[name]; ok {
		return v
	}

	var keys []string
	for k := range m {
		keys = append(keys, k)
	}

	sort.Strings(keys)

	for _, k := range keys {
		if strings.EqualFold(k, name) {
			return m[k]
		}
	}

	return nil
}

// decodedThid is the thread id the handlers decode from the ~thread decorator.
func decodedThid(plain map[string]interface{}) string {
	th, ok := foldGet(plain, "~thread").(map[string]interface{})
	if !ok {
		return ""
	}

	s, _ := foldGet(th, "thid").(string)

	return s
}

// kidDID mirrors getDIDGivenKey: an envelope key that is a JSON public key whose kid is a DID URL names the DID.
func kidDID(key []byte) (string, bool) {
	s := string(key)
	if strings.Index(s, "#") > 0 && strings.Index(s, "\"kid\":\"did:") > 0 {
		var k struct {
			KID string `json:"kid"`
		}

		if json.Unmarshal(key, &k) == nil && strings.Contains(k.KID, "#") {
			return k.KID[:strings.Index(k.KID, "#")], true
		}
	}

	return "", false
}

func initialStateDoc(from string) *did.Doc {
	i := strings.Index(from, "initialState=")
	if i < 0 {
		return nil
	}

	raw, err := base64.RawURLEncoding.DecodeString(from[i+len("initialState="):])
	if err != nil {
		return nil
	}

	var deltas []struct {
		Change string `json:"change"`
	}

	if json.Unmarshal(raw, &deltas) != nil || len(deltas) != 1 {
		return nil
	}

	docBytes, err := base64.URLEncoding.DecodeString(deltas[0].Change)
	if err != nil {
		return nil
	}

	doc, err := did.ParseDocument(docBytes)
	if err != nil {
		return nil
	}

	return doc
}

// ---- observation ----

func (t *ATrace) noteC(c string) {
	if c != "" && !t.seenC[c] {
		t.seenC[c] = true
		t.cids = append(t.cids, c)
	}
}

func (t *ATrace) noteD(d string) {
	if d != "" && !t.seenD[d] {
		t.seenD[d] = true
		t.dids = append(t.dids, d)
	}
}

func (t *ATrace) noteK(k string) {
	if k != "" && !t.seenK[k] {
		t.seenK[k] = true
		t.keys = append(t.keys, k)
	}
}

func nsOf(s string) string {
	if s == "my" {
		return "My"
	}

	return "Their"
}

func stOf(s string) string {
	switch s {
	case "null", "":
		return "SNull"
	case "invited":
		return "SInvited"
	case "requested":
		return "SRequested"
	case "responded":
		return "SResponded"
	case "completed":
		return "SCompleted"
	case "abandoned":
		return "SAbandoned"
	}

	return "SNull"
}

// keyDID looks a canonical key up in the agent's key index the way getDIDs does (base58 form, then did:key form).
func (a *Agent) keyDID(canon string) (string, bool) {
	try := []string{canon}

	if strings.HasPrefix(canon, "raw:") {
		var raw []byte

		fmt.Sscanf(canon[4:], "%x", &raw)

		dk, _ := fingerprint.CreateDIDKey(raw)
		try = []string{base58.Encode(raw), dk}
	}

	for _, k := range try {
		if d, err := a.ctx.DIDConnectionStore().GetDID(k); err == nil {
			return d, true
		}
	}

	return "", false
}

// snapshot prints the obs record for the trace after an input.
func (w *World) snapshot(t *ATrace, outs []string) string {
	for _, r := range t.a.AllRecords() {
		t.noteC(r.ConnID)
	}

	t.a.mu.Lock()
	for d := range t.a.putDIDs {
		t.noteD(d)
	}

	for k := range t.a.putKeys {
		t.noteK(canonKey(k))
	}
	t.a.mu.Unlock()

	var recs, res, keys []string

	for _, c := range t.cids {
		r := t.a.Record(c)
		if r == nil {
			recs = append(recs, fmt.Sprintf("(%d, None)", w.cid(c)))

			continue
		}

		recs = append(recs, fmt.Sprintf("(%d, Some (%s, %d, %s, %d, %d))", w.cid(c), nsOf(r.NS), w.th(r.ThreadID), stOf(r.State),
			w.did(r.MyDID), w.did(r.TheirDID)))
	}

	for _, d := range t.dids {
		dr, err := t.a.ctx.VDRegistry().Resolve(d)
		if err != nil || dr.DIDDocument == nil {
			res = append(res, fmt.Sprintf("(%d, None)", w.did(d)))

			continue
		}

		res = append(res, fmt.Sprintf("(%d, Some %s)", w.did(d), w.cDoc(absDoc(dr.DIDDocument))))
	}

	for _, k := range t.keys {
		if d, ok := t.a.keyDID(k); ok {
			keys = append(keys, fmt.Sprintf("(%d, Some %d)", w.in.id("k:"+k), w.did(d)))
		} else {
			keys = append(keys, fmt.Sprintf("(%d, None)", w.in.id("k:"+k)))
		}
	}

	return fmt.Sprintf("(Obs %s %s %s %s)", hx.CoqList(outs), hx.CoqList(recs), hx.CoqList(res), hx.CoqList(keys))
}
