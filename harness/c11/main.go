// c11: drives the real storage providers (mem, leveldb) and wrappers (cachedstore, batchedstore, formattedstore) in
// stacks of depth <= 3 through operation sequences, records what every call returned and compares it (a) directly
// with a reference implementation of the documented contract and (b), in Coq, with the models of coq/C11.
package main

import (
	"encoding/json"
	"errors"
	"fmt"
	"os"
	"path/filepath"
	"sort"
	"strings"

	"github.com/hyperledger/aries-framework-go/component/storage/leveldb"
	"github.com/hyperledger/aries-framework-go/component/storageutil/batchedstore"
	"github.com/hyperledger/aries-framework-go/component/storageutil/cachedstore"
	"github.com/hyperledger/aries-framework-go/component/storageutil/formattedstore"
	"github.com/hyperledger/aries-framework-go/component/storageutil/formattedstore/exampleformatters"
	"github.com/hyperledger/aries-framework-go/component/storageutil/mem"
	spi "github.com/hyperledger/aries-framework-go/spi/storage"

	"verifharness/hx"
)

// ---------- alphabets ----------

// palette holds the key strings of the running case: key number i (1..) is palette[i-1].
var palette = defaultPalette

var defaultPalette = []string{"k1", "k2", "k3"}

var binValue = []byte{0x00, 0xff, 'v', 0x0a, 0x22, 0xc3, 0x28, 0x00}

func keyStr(k int) string {
	if k == 0 {
		return ""
	}

	if k <= len(palette) {
		return palette[k-1]
	}

	return fmt.Sprintf("k%d", k)
}

func valBytes(v int) []byte {
	if v == 0 {
		return nil
	}

	if v == 4 {
		return []byte{} // the empty value (allowed by Put; only nil is refused)
	}

	if v == 5 {
		return binValue // wave 5: a value that is not text (NUL, invalid UTF-8, a quote, a newline)
	}

	return []byte(fmt.Sprintf("v%d", v))
}

func nameStr(n int) string {
	switch n {
	case 0:
		return ""
	case 9:
		return "x:y"
	}

	return string(rune('a' + n - 1))
}

func tvalStr(v int) string {
	switch v {
	case 0:
		return ""
	case 9:
		return "p:q"
	}

	return fmt.Sprintf("%d", v)
}

func keyNum(s string) int {
	var k int
	if s == "" {
		return 0
	}

	for i, p := range palette {
		if p == s {
			return i + 1
		}
	}

	if n, _ := fmt.Sscanf(s, "k%d", &k); n == 1 && k > len(palette) && keyStr(k) == s {
		return k
	}

	return 77
}

func valNum(b []byte) int {
	var v int
	if b == nil {
		return 0
	}

	if len(b) == 0 {
		return 4
	}

	if string(b) == string(binValue) {
		return 5
	}

	if n, _ := fmt.Sscanf(string(b), "v%d", &v); n == 1 && string(valBytes(v)) == string(b) {
		return v
	}

	return 77
}

func nameNum(s string) int {
	for _, n := range []int{0, 1, 2, 3, 9} {
		if nameStr(n) == s {
			return n
		}
	}

	return 77
}

func tvalNum(s string) int {
	for _, n := range []int{0, 1, 2, 3, 9} {
		if tvalStr(n) == s {
			return n
		}
	}

	return 77
}

// Tag is (name, value) in the number alphabet.
type Tag [2]int

// BOp is one operation of a Batch (V = 0: delete).
type BOp struct {
	K int   `json:"k"`
	V int   `json:"v"`
	T []Tag `json:"t,omitempty"`
}

// Op is one step of a case.
type Op struct {
	Kind string `json:"op"` // put get tags bulk query delete batch flush reopen rewrap
	K    int    `json:"k,omitempty"`
	V    int    `json:"v,omitempty"`
	T    []Tag  `json:"t,omitempty"`
	Ks   []int  `json:"ks,omitempty"`
	Q    []Tag  `json:"q,omitempty"` // criteria (name, value; value 0 = any)
	B    []BOp  `json:"b,omitempty"`
	// queryopt: Query with options
	Page int `json:"page,omitempty"` // WithPageSize
	Init int `json:"init,omitempty"` // WithInitialPageNum
	Sort int `json:"sort,omitempty"` // WithSortOrder on this tag name
}

// Res is one entry of a query result.
type Res struct {
	K int   `json:"k"`
	V int   `json:"v"`
	T []Tag `json:"t"`
}

// Out is the projected result of one step.
type Out struct {
	Kind string `json:"out"` // done err notfound val tags bulk query
	V    int    `json:"v,omitempty"`
	T    []Tag  `json:"t,omitempty"`
	Vs   []int  `json:"vs,omitempty"`
	R    []Res  `json:"r,omitempty"`
	Err  string `json:"err,omitempty"`
}

// Wrap is one wrapper layer.
type Wrap struct {
	Kind  string `json:"kind"` // cached batched fmt
	Limit int    `json:"limit,omitempty"`
	Fmt   string `json:"fmt,omitempty"` // noop b64det b64rand
}

// Stack is a base provider with wrappers, innermost first.
type Stack struct {
	Base  string `json:"base"` // mem leveldb
	Wraps []Wrap `json:"wraps,omitempty"`
}

// Case is replayable.
type Case struct {
	Stack Stack `json:"stack"`
	Ops   []Op  `json:"ops"`
	// Keys are the key strings behind the key numbers 1..3 (default k1, k2, k3).
	Keys []string `json:"keys,omitempty"`
}

func (s Stack) String() string {
	n := s.Base
	for _, w := range s.Wraps {
		switch w.Kind {
		case "cached":
			n = "cached(" + n + ")"
		case "batched":
			n = fmt.Sprintf("batched%d(%s)", w.Limit, n)
		case "fmt":
			n = w.Fmt + "(" + n + ")"
		}
	}

	return n
}

func (s Stack) supportsConj() bool {
	if s.Base != "mem" {
		return false
	}

	for _, w := range s.Wraps {
		if w.Kind == "fmt" {
			return false
		}
	}

	return true
}

func (s Stack) modelled() bool { return true }

func (s Stack) coq() string {
	t := "SMem"
	if s.Base == "leveldb" {
		t = "SLevel"
	}

	for _, w := range s.Wraps {
		switch w.Kind {
		case "cached":
			t = "(SCached " + t + ")"
		case "batched":
			t = fmt.Sprintf("(SBatched %s %s)", hx.CoqZ(int64(w.Limit)), t)
		case "fmt":
			// the model's formatter is an injective recoding: base64 and the EDV formatter (MAC'ed names/values, encrypted
			// document) are the same abstract formatter; "rand" = random formatted keys
			switch w.Fmt {
			case "noop":
				t = "(SFmt FNoop " + t + ")"
			case "b64det", "edvdet":
				t = "(SFmt FB64 " + t + ")"
			case "edvrand":
				t = "(SFmtE " + t + ")" // embeds the key in the formatted value
			default:
				t = "(SFmtR FB64 " + t + ")"
			}
		}
	}

	return t
}

// ---------- the real stack ----------

type world struct {
	stack      Stack
	base       spi.Provider
	top        spi.Provider
	store      spi.Store
	formatters []formattedstore.Formatter // one per fmt layer, kept across rewrap (a formatter may hold key material / maps)
	layers     []spi.Provider             // the wrapper providers, innermost first
	dir        string
	noOpen     bool
}

const storeName = "s"

func newWorld(st Stack) (*world, error) { return newWorldOpt(st, true) }

func newWorldNoOpen(st Stack) (*world, error) { return newWorldOpt(st, false) }

func newWorldOpt(st Stack, open bool) (*world, error) {
	w := &world{stack: st, noOpen: !open}

	switch st.Base {
	case "mem":
		w.base = mem.NewProvider()
	case "leveldb":
		root := os.Getenv("VERIF_RUN")
		if root == "" {
			root = os.TempDir()
		}

		d, err := os.MkdirTemp(root, "c11-ldb-")
		if err != nil {
			return nil, err
		}

		w.dir = d
		w.base = leveldb.NewProvider(filepath.Join(d, "db"))
	default:
		return nil, fmt.Errorf("unknown base %q", st.Base)
	}

	for _, wr := range st.Wraps {
		if wr.Kind == "fmt" {
			switch wr.Fmt {
			case "noop":
				w.formatters = append(w.formatters, &exampleformatters.NoOpFormatter{})
			case "b64det":
				w.formatters = append(w.formatters, exampleformatters.NewBase64Formatter(true))
			case "b64rand":
				w.formatters = append(w.formatters, exampleformatters.NewBase64Formatter(false))
			default:
				f, err := extraFormatter(wr.Fmt)
				if err != nil {
					return nil, err
				}

				w.formatters = append(w.formatters, f)
			}
		}
	}

	if err := w.wrap(); err != nil {
		return nil, err
	}

	return w, nil
}

// wrap builds new wrapper objects over the base provider (which keeps its data) and opens the store.
func (w *world) wrap() error {
	p := w.base
	fi := 0
	w.layers = nil

	for _, wr := range w.stack.Wraps {
		switch wr.Kind {
		case "cached":
			p = cachedstore.NewProvider(p, mem.NewProvider())
		case "batched":
			p = batchedstore.NewProvider(p, wr.Limit)
		case "fmt":
			p = formattedstore.NewProvider(p, w.formatters[fi])
			fi++
		default:
			return fmt.Errorf("unknown wrapper %q", wr.Kind)
		}

		w.layers = append(w.layers, p)
	}

	w.top = p

	if w.noOpen {
		return nil
	}

	s, err := p.OpenStore(storeName)
	if err != nil {
		return err
	}

	w.store = s

	// the store configuration goes through every layer (formattedstore keeps it in a side store of its own)
	cfg := spi.StoreConfiguration{TagNames: []string{"a", "b"}}
	if err := p.SetStoreConfig(storeName, cfg); err != nil {
		return fmt.Errorf("SetStoreConfig: %w", err)
	}

	got, err := p.GetStoreConfig(storeName)
	if err != nil {
		return fmt.Errorf("GetStoreConfig: %w", err)
	}

	if len(got.TagNames) != 2 || got.TagNames[0] != "a" || got.TagNames[1] != "b" {
		return fmt.Errorf("GetStoreConfig returned %v", got.TagNames)
	}

	return nil
}

func (w *world) close() {
	if w.top != nil {
		_ = w.top.Close()
	}

	if w.dir != "" {
		_ = os.RemoveAll(w.dir)
	}
}

func errOut(err error) Out {
	if errors.Is(err, spi.ErrDataNotFound) {
		return Out{Kind: "notfound", Err: err.Error()}
	}

	return Out{Kind: "err", Err: err.Error()}
}

func mkTags(t []Tag) []spi.Tag {
	tags := make([]spi.Tag, len(t))
	for i, x := range t {
		tags[i] = spi.Tag{Name: nameStr(x[0]), Value: tvalStr(x[1])}
	}

	return tags
}

func numTags(tags []spi.Tag) []Tag {
	t := make([]Tag, len(tags))
	for i, x := range tags {
		t[i] = Tag{nameNum(x.Name), tvalNum(x.Value)}
	}

	return t
}

func exprStr(q []Tag) string {
	parts := make([]string, len(q))
	for i, c := range q {
		parts[i] = nameStr(c[0])
		if c[1] != 0 {
			parts[i] += ":" + tvalStr(c[1])
		}
	}

	return strings.Join(parts, "&&")
}

func (w *world) exec(o Op) (out Out) {
	defer func() {
		if r := recover(); r != nil {
			out = Out{Kind: "panic", Err: fmt.Sprint(r)}
		}
	}()

	s := w.store

	switch o.Kind {
	case "put":
		if err := s.Put(keyStr(o.K), valBytes(o.V), mkTags(o.T)...); err != nil {
			return errOut(err)
		}

		return Out{Kind: "done"}
	case "get":
		v, err := s.Get(keyStr(o.K))
		if err != nil {
			return errOut(err)
		}

		return Out{Kind: "val", V: valNum(v)}
	case "tags":
		t, err := s.GetTags(keyStr(o.K))
		if err != nil {
			return errOut(err)
		}

		return Out{Kind: "tags", T: numTags(t)}
	case "bulk":
		ks := make([]string, len(o.Ks))
		for i, k := range o.Ks {
			ks[i] = keyStr(k)
		}

		vs, err := s.GetBulk(ks...)
		if err != nil {
			return errOut(err)
		}

		r := Out{Kind: "bulk", Vs: make([]int, len(vs))}
		for i, v := range vs {
			r.Vs[i] = valNum(v)
		}

		return r
	case "query", "queryopt":
		var opts []spi.QueryOption
		if o.Page > 0 {
			opts = append(opts, spi.WithPageSize(o.Page))
		}

		if o.Init > 0 {
			opts = append(opts, spi.WithInitialPageNum(o.Init))
		}

		if o.Sort > 0 {
			opts = append(opts, spi.WithSortOrder(&spi.SortOptions{Order: spi.SortDescending, TagName: nameStr(o.Sort)}))
		}

		it, err := s.Query(exprStr(o.Q), opts...)
		if err != nil {
			return errOut(err)
		}

		defer func() { _ = it.Close() }()

		r := Out{Kind: "query", R: []Res{}}

		for {
			ok, err := it.Next()
			if err != nil {
				return errOut(err)
			}

			if !ok {
				break
			}

			k, err := it.Key()
			if err != nil {
				return errOut(err)
			}

			v, err := it.Value()
			if err != nil {
				return errOut(err)
			}

			t, err := it.Tags()
			if err != nil {
				return errOut(err)
			}

			r.R = append(r.R, Res{K: keyNumAny(k), V: valNum(v), T: numTags(t)})
			if len(r.R) > 50 {
				return Out{Kind: "err", Err: "iterator does not end"}
			}
		}

		n, err := it.TotalItems()
		if err != nil {
			return errOut(err)
		}

		if n != len(r.R) {
			return Out{Kind: "err", Err: fmt.Sprintf("TotalItems %d but %d entries iterated", n, len(r.R))}
		}

		sort.SliceStable(r.R, func(i, j int) bool { return r.R[i].K < r.R[j].K })

		return r
	case "delete":
		if err := s.Delete(keyStr(o.K)); err != nil {
			return errOut(err)
		}

		return Out{Kind: "done"}
	case "batch":
		ops := make([]spi.Operation, len(o.B))
		for i, b := range o.B {
			ops[i] = spi.Operation{Key: keyStr(b.K), Value: valBytes(b.V)}
			if len(b.T) > 0 {
				ops[i].Tags = mkTags(b.T)
			}
		}

		if err := s.Batch(ops); err != nil {
			return errOut(err)
		}

		return Out{Kind: "done"}
	case "flush":
		if err := s.Flush(); err != nil {
			return errOut(err)
		}

		return Out{Kind: "done"}
	case "reopen":
		err := s.Close()

		s2, err2 := w.top.OpenStore(storeName)
		if err2 != nil {
			return Out{Kind: "err", Err: "re-open: " + err2.Error()}
		}

		w.store = s2

		if err != nil {
			return errOut(err)
		}

		return Out{Kind: "done"}
	case "rewrap":
		// the user calls Flush ("forces any queued up operations to execute") and then drops the wrapper objects
		if err := s.Flush(); err != nil {
			return errOut(err)
		}

		if err := w.wrap(); err != nil {
			return Out{Kind: "err", Err: "rewrap: " + err.Error()}
		}

		return Out{Kind: "done"}
	}

	return Out{Kind: "err", Err: "unknown op " + o.Kind}
}

// keyNumAny maps an unknown key string (e.g. a leaked formatted key) to 77.
func keyNumAny(s string) int { return keyNum(s) }

// ---------- reference implementation of the documented contract (the direct oracle) ----------

type rentry struct {
	v int
	t []Tag
}

type ref struct {
	m       map[int]rentry
	persist bool
}

func badTags(t []Tag) bool {
	for _, x := range t {
		if x[0] == 9 || x[1] == 9 {
			return true
		}
	}

	return false
}

func matches(e rentry, c Tag) bool {
	for _, t := range e.t {
		if t[0] == c[0] && (c[1] == 0 || t[1] == c[1]) {
			return true
		}
	}

	return false
}

func (r *ref) exec(o Op) Out {
	switch o.Kind {
	case "put":
		if o.K == 0 || o.V == 0 || badTags(o.T) {
			return Out{Kind: "err"}
		}

		r.m[o.K] = rentry{o.V, append([]Tag{}, o.T...)}

		return Out{Kind: "done"}
	case "get", "tags":
		if o.K == 0 {
			return Out{Kind: "err"}
		}

		e, ok := r.m[o.K]
		if !ok {
			return Out{Kind: "notfound"}
		}

		if o.Kind == "get" {
			return Out{Kind: "val", V: e.v}
		}

		return Out{Kind: "tags", T: append([]Tag{}, e.t...)}
	case "bulk":
		if len(o.Ks) == 0 {
			return Out{Kind: "err"}
		}

		vs := make([]int, len(o.Ks))

		for i, k := range o.Ks {
			if k == 0 {
				return Out{Kind: "err"}
			}

			vs[i] = r.m[k].v
		}

		return Out{Kind: "bulk", Vs: vs}
	case "query", "queryopt":
		// mem and leveldb document WithInitialPageNum / WithSortOrder as unsupported (an error); WithPageSize only
		// concerns performance
		if len(o.Q) == 0 || o.Init > 0 || o.Sort > 0 {
			return Out{Kind: "err"}
		}

		res := []Res{}

		for k, e := range r.m {
			all := true
			for _, c := range o.Q {
				all = all && matches(e, c)
			}

			if all {
				res = append(res, Res{K: k, V: e.v, T: append([]Tag{}, e.t...)})
			}
		}

		sort.Slice(res, func(i, j int) bool { return res[i].K < res[j].K })

		return Out{Kind: "query", R: res}
	case "delete":
		if o.K == 0 {
			return Out{Kind: "err"}
		}

		delete(r.m, o.K)

		return Out{Kind: "done"}
	case "batch":
		if len(o.B) == 0 {
			return Out{Kind: "err"}
		}

		for _, b := range o.B {
			if b.K == 0 {
				return Out{Kind: "err"}
			}
		}

		for _, b := range o.B {
			if b.V == 0 {
				delete(r.m, b.K)
			} else {
				r.m[b.K] = rentry{b.V, append([]Tag{}, b.T...)}
			}
		}

		return Out{Kind: "done"}
	case "flush", "rewrap":
		return Out{Kind: "done"}
	case "reopen":
		if !r.persist {
			r.m = map[int]rentry{}
		}

		return Out{Kind: "done"}
	}

	return Out{Kind: "err"}
}

func eqTags(a, b []Tag) bool {
	if len(a) != len(b) {
		return false
	}

	for i := range a {
		if a[i] != b[i] {
			return false
		}
	}

	return true
}

func eqOut(a, b Out) bool {
	if a.Kind != b.Kind {
		return false
	}

	switch a.Kind {
	case "val":
		return a.V == b.V
	case "tags":
		return eqTags(a.T, b.T)
	case "bulk":
		if len(a.Vs) != len(b.Vs) {
			return false
		}

		for i := range a.Vs {
			if a.Vs[i] != b.Vs[i] {
				return false
			}
		}
	case "query":
		if len(a.R) != len(b.R) {
			return false
		}

		for i := range a.R {
			if a.R[i].K != b.R[i].K || a.R[i].V != b.R[i].V || !eqTags(a.R[i].T, b.R[i].T) {
				return false
			}
		}
	}

	return true
}

// ---------- Coq printing ----------

func coqTags(t []Tag) string {
	s := make([]string, len(t))
	for i, x := range t {
		s[i] = fmt.Sprintf("(%d,%d)", x[0], x[1])
	}

	return "[" + strings.Join(s, ";") + "]"
}

func coqNs(ns []int) string {
	s := make([]string, len(ns))
	for i, x := range ns {
		s[i] = fmt.Sprint(x)
	}

	return "[" + strings.Join(s, ";") + "]"
}

func coqOp(o Op) string {
	switch o.Kind {
	case "put":
		return fmt.Sprintf("Op (Put %d %d %s)", o.K, o.V, coqTags(o.T))
	case "get":
		return fmt.Sprintf("Op (Get %d)", o.K)
	case "tags":
		return fmt.Sprintf("Op (GetTags %d)", o.K)
	case "bulk":
		return "Op (GetBulk " + coqNs(o.Ks) + ")"
	case "query":
		return "Op (Query " + coqTags(o.Q) + ")"
	case "queryopt":
		return "QOpt " + coqTags(o.Q) + " " + hx.CoqBool(o.Init == 0 && o.Sort == 0)
	case "delete":
		return fmt.Sprintf("Op (Delete %d)", o.K)
	case "batch":
		s := make([]string, len(o.B))
		for i, b := range o.B {
			s[i] = fmt.Sprintf("(%d,%d,%s)", b.K, b.V, coqTags(b.T))
		}

		return "Op (Batch [" + strings.Join(s, ";") + "])"
	case "flush":
		return "Op Flush"
	case "reopen":
		return "Op Reopen"
	}

	return "Rewrap"
}

func coqOut(o Out) string {
	switch o.Kind {
	case "done":
		return "ODone"
	case "notfound":
		return "ONotFound"
	case "val":
		return fmt.Sprintf("OVal %d", o.V)
	case "tags":
		return "OTags " + coqTags(o.T)
	case "bulk":
		return "OBulk " + coqNs(o.Vs)
	case "query":
		s := make([]string, len(o.R))
		for i, r := range o.R {
			s[i] = fmt.Sprintf("(%d,(%d,%s))", r.K, r.V, coqTags(r.T))
		}

		return "OQuery [" + strings.Join(s, ";") + "]"
	}

	return "OErr" // err and panic
}

// ---------- running one case ----------

func inContract(st Stack, o Op) bool {
	if (o.Kind == "query" || o.Kind == "queryopt") && len(o.Q) >= 2 {
		return st.supportsConj()
	}

	return true
}

// sigOf classifies a contract violation narrowly.
func sigOf(st Stack, ops []Op, i int, want, got Out, r *ref) string {
	o := ops[i]
	top := st.Base

	if len(st.Wraps) > 0 {
		top = st.Wraps[len(st.Wraps)-1].Kind
		if top == "fmt" {
			top = st.Wraps[len(st.Wraps)-1].Fmt
		}
	}

	if got.Kind == "panic" {
		return "panic:" + top + ":" + o.Kind
	}

	if st.Base == "leveldb" && len(st.Wraps) == 0 && usesReservedNames() {
		// LevelDB keeps its tag index and the store configuration as entries "TagMap" / "StoreConfig" of the same
		// key space
		return "leveldb:reserved-key-names"
	}

	if (o.Kind == "query" || o.Kind == "queryopt") && len(o.Q) == 1 && o.Q[0][1] == 0 && want.Kind == "query" && got.Kind == "query" &&
		st.Base == "leveldb" && len(got.R) > len(want.R) {
		// every expected entry is there; the extra ones are keys that exist but do not carry the tag name any more
		wantKeys := map[int]bool{}
		for _, x := range want.R {
			wantKeys[x.K] = true
		}

		okSuperset, seen := true, map[int]bool{}

		for _, x := range got.R {
			seen[x.K] = true

			if !wantKeys[x.K] {
				e, present := r.m[x.K]
				if !present || matches(e, o.Q[0]) {
					okSuperset = false
				}
			}
		}

		for k := range wantKeys {
			okSuperset = okSuperset && seen[k]
		}

		if okSuperset {
			return "leveldb:name-only-query:stale-tag-index"
		}
	}

	return fmt.Sprintf("%s:%s:want-%s-got-%s", top, o.Kind, want.Kind, got.Kind)
}

func runCase(kind string, c Case, tr *hx.Trace, withCoq bool) {
	rec := &hx.Record{Kind: kind, Case: c}

	palette = defaultPalette
	if len(c.Keys) > 0 {
		palette = c.Keys
	}

	defer func() { palette = defaultPalette }()

	w, err := newWorld(c.Stack)
	if err != nil {
		rec.Oracle, rec.Sig, rec.Detail = "fail", "setup", err.Error()
		tr.Put(rec)

		return
	}

	defer w.close()

	r := &ref{m: map[int]rentry{}, persist: c.Stack.Base == "leveldb"}
	outs := make([]Out, 0, len(c.Ops))
	steps := make([]string, 0, len(c.Ops))
	classParts := []string{c.Stack.String()}
	nontrivial := false
	oracleOK := true

	for i, o := range c.Ops {
		got := w.exec(o)
		want := r.exec(o)
		outs = append(outs, got)
		steps = append(steps, "("+coqOp(o)+", "+coqOut(got)+")")
		classParts = append(classParts, o.Kind+">"+got.Kind)

		if got.Kind == "val" || got.Kind == "tags" || (got.Kind == "query" && len(got.R) > 0) {
			nontrivial = true
		}

		if inContract(c.Stack, o) && !eqOut(want, got) {
			oracleOK = false

			if rec.Oracle != "fail" {
				rec.Oracle = "fail"
				rec.Sig = sigOf(c.Stack, c.Ops, i, want, got, r)
				wj, _ := json.Marshal(want)
				gj, _ := json.Marshal(got)
				oj, _ := json.Marshal(o)
				rec.Detail = fmt.Sprintf("%s step %d %s: contract prescribes %s, store returned %s", c.Stack, i, oj, wj, gj)
			}
		}

		if got.Kind == "panic" {
			break
		}
	}

	if withCoq && c.Stack.modelled() && !usesReservedNames() {
		rec.Coq = fmt.Sprintf("{| c_stack := %s; c_steps := [%s]; c_psteps := []; c_keytags := []; c_conj := %s; c_oracle := %s |}",
			c.Stack.coq(), strings.Join(steps, "; "), hx.CoqBool(c.Stack.supportsConj()), hx.CoqBool(oracleOK))
	}

	rec.Observed = outs
	rec.Class = strings.Join(classParts, ",")
	rec.Trivial = !nontrivial
	rec.Dist = []string{"keys=" + paletteName(c.Keys), "stack=" + c.Stack.String(), fmt.Sprintf("depth=%d", len(c.Stack.Wraps)), fmt.Sprintf("len=%d", len(c.Ops)/5*5)}

	for _, o := range c.Ops {
		rec.Dist = append(rec.Dist, "op="+o.Kind)
	}

	for _, o := range outs {
		rec.Dist = append(rec.Dist, "out="+o.Kind)
	}

	tr.Put(rec)
}

// ---------- generators ----------

var tagSets = [][]Tag{nil, {{1, 1}}, {{1, 2}}, {{2, 1}}, {{1, 1}, {2, 2}}, {{1, 2}, {2, 0}}, {{2, 2}}, {{1, 0}},
	// wave 5: a third tag name, three tags on one entry, one value under two names
	{{3, 1}}, {{1, 1}, {2, 1}, {3, 3}}, {{3, 0}, {1, 2}}}

var queries = [][]Tag{{{1, 0}}, {{1, 1}}, {{1, 2}}, {{2, 0}}, {{2, 2}}, {{1, 1}, {2, 2}}, {{1, 0}, {2, 0}}, {{1, 1}, {1, 2}}, {{1, 2}, {1, 0}}, {{3, 0}},
	{{3, 1}}, {{3, 3}, {1, 1}}, {{2, 1}}}

func randTags(r *hx.Rng) []Tag {
	if r.Intn(25) == 0 {
		return [][]Tag{{{9, 1}}, {{1, 9}}, {{1, 1}, {9, 0}}}[r.Intn(3)]
	}

	return tagSets[r.Intn(len(tagSets))]
}

func randKey(r *hx.Rng) int {
	if r.Intn(30) == 0 {
		return 0
	}

	return 1 + r.Intn(3)
}

func randOp(r *hx.Rng, st Stack) Op {
	x := r.Intn(100)

	switch {
	case x < 24:
		v := 1 + r.Intn(3)
		if r.Intn(30) == 0 {
			v = 0
		} else if r.Intn(8) == 0 {
			v = 4 // empty value
		} else if r.Intn(8) == 0 {
			v = 5 // binary value
		}

		return Op{Kind: "put", K: randKey(r), V: v, T: randTags(r)}
	case x < 36:
		return Op{Kind: "get", K: randKey(r)}
	case x < 48:
		return Op{Kind: "tags", K: randKey(r)}
	case x < 53:
		n := r.Intn(4)
		if r.Intn(4) == 0 {
			n = 4 + r.Intn(3) // wave 5: more keys than the alphabet has, so some key is asked for several times
		}

		ks := make([]int, n)

		for i := range ks {
			ks[i] = 1 + r.Intn(3)
		}

		if n > 0 && r.Intn(15) == 0 {
			ks[r.Intn(n)] = 0
		}

		return Op{Kind: "bulk", Ks: ks}
	case x < 68:
		q := queries[r.Intn(len(queries))]
		if r.Intn(40) == 0 {
			q = nil
		}

		if r.Intn(5) == 0 {
			o := Op{Kind: "queryopt", Q: q}

			switch r.Intn(4) {
			case 0:
				o.Page = 1 + r.Intn(3)
			case 1:
				o.Page, o.Init = r.Intn(3), 1+r.Intn(2)
			case 2:
				o.Sort = 1 + r.Intn(2)
			default:
				o.Page = 1
			}

			return o
		}

		return Op{Kind: "query", Q: q}
	case x < 78:
		return Op{Kind: "delete", K: randKey(r)}
	case x < 92:
		n := r.Intn(4)
		if r.Intn(3) > 0 && n == 0 {
			n = 1
		}

		// wave 5: long batches (longer than every finite batch limit but 100) that keep coming back to ONE key:
		// put / delete / put of one key inside a batch, the last operation on the key wins
		hot := 0
		if r.Intn(4) == 0 {
			n, hot = 4+r.Intn(4), 1+r.Intn(3)
		}

		b := make([]BOp, n)

		for i := range b {
			b[i] = BOp{K: 1 + r.Intn(3)}
			if hot > 0 && r.Intn(3) > 0 {
				b[i].K = hot
			}

			if r.Intn(3) > 0 {
				b[i].V = 1 + r.Intn(3)
				if r.Intn(8) == 0 {
					b[i].V = 4
				}

				b[i].T = tagSets[r.Intn(len(tagSets))]
			}
		}

		// an empty key only in first position: what a store does with the operations in front of an invalid one
		// is not prescribed
		if n > 0 && r.Intn(20) == 0 {
			b[0].K = 0
		}

		return Op{Kind: "batch", B: b}
	case x < 95:
		return Op{Kind: "flush"}
	case x < 98:
		return Op{Kind: "reopen"}
	}

	return Op{Kind: "rewrap"}
}

// probe reads everything back: tags before values (a cache filled by a value read must still know the tags).
func probe(r *hx.Rng) []Op {
	var ops []Op

	for _, k := range []int{1, 2, 3} {
		if r.Bool() {
			ops = append(ops, Op{Kind: "get", K: k}, Op{Kind: "tags", K: k})
		} else {
			ops = append(ops, Op{Kind: "tags", K: k}, Op{Kind: "get", K: k})
		}
	}

	ops = append(ops, Op{Kind: "bulk", Ks: []int{1, 2, 3}})

	for _, q := range queries {
		ops = append(ops, Op{Kind: "query", Q: q})
	}

	return ops
}

func randomCase(r *hx.Rng, st Stack, n int) Case {
	ops := make([]Op, 0, n+20)
	// half of the cases start from a populated provider under fresh wrappers
	if r.Bool() {
		for i := 0; i < 1+r.Intn(4); i++ {
			ops = append(ops, Op{Kind: "put", K: 1 + r.Intn(3), V: 1 + r.Intn(4), T: tagSets[r.Intn(len(tagSets))]})
		}

		ops = append(ops, Op{Kind: "rewrap"})
	}

	for len(ops) < n {
		ops = append(ops, randOp(r, st))
	}

	return Case{Stack: st, Ops: append(ops, probe(r)...), Keys: palettes[r.Intn(len(palettes))]}
}

func stacks(bases []string, maxDepth int, fmts []string) []Stack {
	var layers []Wrap

	layers = append(layers, Wrap{Kind: "cached"})
	for _, l := range []int{0, 1, 2, 3, 100} {
		layers = append(layers, Wrap{Kind: "batched", Limit: l})
	}

	for _, f := range fmts {
		layers = append(layers, Wrap{Kind: "fmt", Fmt: f})
	}

	var out []Stack

	var rec func(st Stack)

	rec = func(st Stack) {
		out = append(out, st)

		if len(st.Wraps) == maxDepth {
			return
		}

		for _, l := range layers {
			rec(Stack{Base: st.Base, Wraps: append(append([]Wrap{}, st.Wraps...), l)})
		}
	}

	for _, b := range bases {
		rec(Stack{Base: b})
	}

	return out
}

func corpus(dir string, tr *hx.Trace) {
	files, _ := filepath.Glob(filepath.Join(dir, "*.json"))
	sort.Strings(files)

	for _, f := range files {
		b, err := os.ReadFile(f)
		if err != nil {
			continue
		}

		var pc PCase
		if json.Unmarshal(b, &pc) == nil && len(pc.POps) > 0 {
			runPCase("corpus:"+filepath.Base(f), pc, tr)
			continue
		}

		var c Case
		if json.Unmarshal(b, &c) != nil || len(c.Ops) == 0 {
			fmt.Fprintln(os.Stderr, "bad corpus file", f)
			os.Exit(2)
		}

		runCase("corpus:"+filepath.Base(f), c, tr, true)
	}
}

// small exhaustive: every sequence of length <= depth over a reduced alphabet, followed by the probe
func exhaustive(st Stack, depth int, tr *hx.Trace, rng *hx.Rng) {
	alpha := []Op{
		{Kind: "put", K: 1, V: 1, T: []Tag{{1, 1}}},
		{Kind: "put", K: 1, V: 2},
		{Kind: "put", K: 2, V: 1, T: []Tag{{1, 2}, {2, 0}}},
		{Kind: "get", K: 1},
		{Kind: "tags", K: 1},
		{Kind: "delete", K: 1},
		{Kind: "batch", B: []BOp{{K: 1, V: 3, T: []Tag{{2, 2}}}, {K: 1}}},
		{Kind: "batch", B: []BOp{{K: 2}, {K: 1, V: 1, T: []Tag{{1, 2}}}}},
		{Kind: "rewrap"},
		{Kind: "reopen"},
	}

	var rec func(prefix []Op)

	rec = func(prefix []Op) {
		if len(prefix) > 0 {
			runCase("exhaustive", Case{Stack: st, Ops: append(append([]Op{}, prefix...), probe(rng)...)}, tr, true)
		}

		if len(prefix) == depth {
			return
		}

		for _, o := range alpha {
			rec(append(append([]Op{}, prefix...), o))
		}
	}

	rec(nil)
}

func main() {
	args := hx.ParseArgs()
	tr := hx.NewTrace(args.Out)

	defer tr.Close()

	if args.Replay != "" {
		b, err := os.ReadFile(args.Replay)
		if err != nil {
			fmt.Fprintln(os.Stderr, err)
			os.Exit(2)
		}

		var c struct {
			Case  *Case    `json:"case"`
			Stack Stack    `json:"stack"`
			Ops   []Op     `json:"ops"`
			Keys  []string `json:"keys"`
		}

		var pr struct {
			Case *PCase `json:"case"`
			PCase
		}

		if json.Unmarshal(b, &pr) == nil {
			if pr.Case != nil && len(pr.Case.POps) > 0 {
				runPCase("replay", *pr.Case, tr)
				return
			}

			if len(pr.POps) > 0 {
				runPCase("replay", pr.PCase, tr)
				return
			}
		}

		_ = json.Unmarshal(b, &c)
		if c.Case == nil {
			c.Case = &Case{Stack: c.Stack, Ops: c.Ops, Keys: c.Keys}
		}

		runCase("replay", *c.Case, tr, true)

		return
	}

	corpus(args.Extra, tr)
	keyTagProbes(tr)

	rng := hx.NewRng(args.Seed)
	thorough := args.Tier == "thorough"

	// exhaustive small sequences on the single providers and every single wrapper
	exDepth := 2
	if thorough {
		exDepth = 3
	}

	for _, st := range stacks([]string{"mem"}, 1, []string{"noop", "b64det", "b64rand"}) {
		exhaustive(st, exDepth, tr, rng)
	}

	exhaustive(Stack{Base: "leveldb"}, 2, tr, rng)
	exhaustive(Stack{Base: "leveldb", Wraps: []Wrap{{Kind: "cached"}}}, 2, tr, rng)

	// random sequences over every stack up to depth 3 (mem) / a selection (leveldb)
	memStacks := stacks([]string{"mem"}, 3, []string{"noop", "b64det", "b64rand"})
	ldbStacks := stacks([]string{"leveldb"}, 2, []string{"b64det", "b64rand"})
	perMem, perLdb, coqEvery, perEdv, perProv := 8, 4, 3, 12, 6

	if thorough {
		perMem, perLdb, coqEvery, perEdv, perProv = 60, 20, 6, 100, 60
	}

	n := 0

	for i, st := range memStacks {
		for j := 0; j < perMem; j++ {
			r := rng.Fork(uint64(i*1000 + j))
			runCase("random", randomCase(r, st, 4+r.Intn(26)), tr, n%coqEvery == 0)
			n++
		}
	}

	// the real EDV encrypted formatter (own KMS, JWE, MAC), deterministic and random document ids: direct oracle only
	edvStacks := []Stack{}
	for _, f := range []string{"edvrand", "edvdet"} {
		edvStacks = append(edvStacks,
			Stack{Base: "mem", Wraps: []Wrap{{Kind: "fmt", Fmt: f}}},
			Stack{Base: "mem", Wraps: []Wrap{{Kind: "fmt", Fmt: f}, {Kind: "cached"}}},
			Stack{Base: "mem", Wraps: []Wrap{{Kind: "fmt", Fmt: f}, {Kind: "batched", Limit: 2}}},
			Stack{Base: "mem", Wraps: []Wrap{{Kind: "cached"}, {Kind: "fmt", Fmt: f}}},
			Stack{Base: "leveldb", Wraps: []Wrap{{Kind: "fmt", Fmt: f}}})
	}

	for i, st := range edvStacks {
		for j := 0; j < perEdv; j++ {
			r := rng.Fork(uint64(9_000_000 + i*1000 + j))
			runCase("random-edv", randomCase(r, st, 4+r.Intn(12)), tr, true)
		}
	}

	// provider-level scenarios (OpenStore / SetStoreConfig / GetStoreConfig / GetOpenStores / Close): direct oracle
	pStacks := append(stacks([]string{"mem"}, 2, []string{"noop", "b64det", "b64rand"}), stacks([]string{"leveldb"}, 1, []string{"b64det", "b64rand"})...)
	for i, st := range pStacks {
		for j := 0; j < perProv; j++ {
			r := rng.Fork(uint64(7_000_000 + i*1000 + j))
			runPCase("provider", randPCase(r, st, 4+r.Intn(14)), tr)
		}
	}

	// LevelDB with keys named like its own bookkeeping entries (known finding): direct oracle only
	for j := 0; j < 4; j++ {
		r := rng.Fork(uint64(8_000_000 + j))
		c := randomCase(r, Stack{Base: "leveldb"}, 4+r.Intn(10))
		c.Keys = reservedPalette
		runCase("random-leveldb-reserved", c, tr, false)
	}

	for i, st := range ldbStacks {
		for j := 0; j < perLdb; j++ {
			r := rng.Fork(uint64(5_000_000 + i*1000 + j))
			runCase("random-leveldb", randomCase(r, st, 4+r.Intn(16)), tr, true)
		}
	}

	// wave 5: depth-3 stacks over LevelDB (any_stack_over_leveldb speaks about every depth): a seeded selection of the
	// 7^3 stacks of caching / batching / deterministic-key formatting layers, and of those with a random-key layer
	deep := stacks([]string{"leveldb"}, 3, []string{"noop", "b64det"})
	deepR := stacks([]string{"leveldb"}, 3, []string{"b64det", "b64rand"})
	nDeep := 16
	if thorough {
		nDeep = 120
	}

	for j := 0; j < nDeep; j++ {
		r := rng.Fork(uint64(6_000_000 + j))
		pool := deep
		if j%4 == 3 {
			pool = deepR
		}

		st := pool[r.Intn(len(pool))]
		for len(st.Wraps) < 3 {
			st = pool[r.Intn(len(pool))]
		}

		runCase("random-leveldb-deep", randomCase(r, st, 4+r.Intn(16)), tr, true)
	}
}
