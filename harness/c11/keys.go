package main

import (
	"encoding/base64"
	"encoding/hex"
	"fmt"
	"sort"
	"strings"

	"github.com/btcsuite/btcutil/base58"

	"github.com/hyperledger/aries-framework-go/component/storageutil/formattedstore"
	"github.com/hyperledger/aries-framework-go/component/storageutil/formattedstore/exampleformatters"
	"github.com/hyperledger/aries-framework-go/component/storageutil/mem"
	spi "github.com/hyperledger/aries-framework-go/spi/storage"

	"verifharness/hx"
)

const (
	didKey  = "did:example:12>?~" // its base64 has '+' and '/' and padding: std, url-safe and raw encodings differ
	opsKey  = "a&&b||c|d&e"
	longLen = 1200
)

func b64(s string) string    { return base64.StdEncoding.EncodeToString([]byte(s)) }
func b64url(s string) string { return base64.RawURLEncoding.EncodeToString([]byte(s)) }

// keyClasses are the key strings the generators draw from: plain keys, keys with the characters that are special in
// query expressions, keys that are encodings of other keys (both directions: a palette holds a key and its encoding),
// keys equal to internal names, a very long key.
var keyClasses = map[string]string{
	"k1": "k1", "k2": "k2", "k3": "k3",
	"did":          didKey,
	"b64(did)":     b64(didKey),
	"b64url(did)":  b64url(didKey),
	"b58(did)":     base58.Encode([]byte(didKey)),
	"hex(did)":     hex.EncodeToString([]byte(didKey)),
	"ops":          opsKey,
	"b64(ops)":     b64(opsKey),
	"b64(k1)":      b64("k1"),
	"b64(b64(k1))": b64(b64("k1")),
	"hex(k1)":      hex.EncodeToString([]byte("k1")),
	"b58(k1)":      base58.Encode([]byte("k1")),
	"Key":          "Key",
	"b64(Key)":     b64("Key"),
	"Key:k1":       "Key:" + b64("k1"),
	"storeconfig":  "formattedstore_storeconfig",
	"TagMap":       "TagMap",
	"StoreConfig":  "StoreConfig",
	"long":         strings.Repeat("k1", longLen/2),
	"long'":        strings.Repeat("k1", longLen/2) + "k",
	"url":          "https://example.com/a?b=c&d=e|f",
}

func pal(names ...string) []string {
	out := make([]string, len(names))
	for i, n := range names {
		out[i] = keyClasses[n]
	}

	return out
}

// palettes: three keys per case (so that collisions between the keys of a case stay frequent); a key and its
// encodings share a palette.
var palettes = [][]string{
	pal("k1", "k2", "k3"), pal("k1", "k2", "k3"), pal("k1", "k2", "k3"),
	pal("did", "b64(did)", "k1"), pal("b64(did)", "did", "b64url(did)"), pal("did", "b58(did)", "hex(did)"),
	pal("ops", "b64(ops)", "url"), pal("k1", "b64(k1)", "b64(b64(k1))"), pal("b64(k1)", "hex(k1)", "b58(k1)"),
	pal("Key", "b64(Key)", "Key:k1"), pal("storeconfig", "Key", "k1"), pal("long", "long'", "k1"),
	pal("url", "did", "ops"),
}

func init() {
	// a palette must consist of three different strings
	for _, p := range append(append([][]string{}, palettes...), reservedPalette) {
		if len(p) != 3 || p[0] == p[1] || p[0] == p[2] || p[1] == p[2] || p[0] == "" || p[1] == "" || p[2] == "" {
			panic(fmt.Sprintf("c11: bad key palette %q", p))
		}
	}
}

// leveldbPalettes additionally use the names of LevelDB's own bookkeeping entries.
var reservedPalette = pal("TagMap", "StoreConfig", "k1")

func paletteName(keys []string) string {
	if len(keys) == 0 {
		keys = defaultPalette
	}

	names := make([]string, len(keys))

	for i, k := range keys {
		names[i] = "?"

		var cands []string

		for n, v := range keyClasses {
			if v == k {
				cands = append(cands, n)
			}
		}

		sort.Strings(cands)

		if len(cands) > 0 {
			names[i] = cands[0]
		}
	}

	return strings.Join(names, ",")
}

// keyTagProbes: the value of the internal Key tag that formattedstore (random key formatting) writes for every key of
// the alphabet, observed at a recording provider below it.  The lookup of an entry by its key rests on this encoding
// being injective; the model has it as the explicit function key_tag_value with a proved injectivity lemma, and Corr
// checks that the observed table identifies exactly the keys the model's function identifies (none).
func keyTagProbes(tr *hx.Trace) {
	for _, fname := range []string{"b64rand", "edvrand"} {
		var f formattedstore.Formatter
		if fname == "b64rand" {
			f = exampleformatters.NewBase64Formatter(false)
		} else {
			var err error

			f, err = extraFormatter(fname)
			if err != nil {
				continue
			}
		}

		all := make([]string, 0, len(keyClasses))
		for n := range keyClasses {
			all = append(all, n)
		}

		sort.Strings(all)

		// one name per distinct key string
		var names []string

		seenKey := map[string]bool{}

		for _, n := range all {
			if !seenKey[keyClasses[n]] {
				seenKey[keyClasses[n]] = true
				names = append(names, n)
			}
		}

		rec := hx.NewRecProvider(mem.NewProvider())
		p := formattedstore.NewProvider(rec, f)
		r := &hx.Record{Kind: "keytag", Case: map[string]interface{}{"formatter": fname, "keys": names}, Class: "keytag," + fname}

		s, err := p.OpenStore(storeName)
		if err != nil {
			r.Oracle, r.Sig, r.Detail = "fail", "setup", err.Error()
			tr.Put(r)

			continue
		}

		classOf := map[string]int{} // observed tag value -> class number
		byClass := map[int]string{}
		var table []string

		observed := map[string]string{}

		for i, n := range names {
			rec.Reset()

			if err := s.Put(keyClasses[n], []byte("v"), []spi.Tag{}...); err != nil {
				r.Oracle, r.Sig, r.Detail = "fail", "keytag:put", fmt.Sprintf("Put(%q): %v", keyClasses[n], err)
				break
			}

			val := ""

			for _, c := range rec.Snapshot() {
				if c.Op == "Put" && len(c.Tags) == 1 {
					val = c.Tags[0].Name + ":" + c.Tags[0].Value
				}
			}

			if val == "" {
				r.Oracle, r.Sig, r.Detail = "fail", "keytag:not-observed", fmt.Sprintf("no Put with exactly the Key tag recorded for %q", keyClasses[n])
				break
			}

			observed[n] = val

			cl, seen := classOf[val]
			if !seen {
				cl = len(classOf) + 1
				classOf[val] = cl
				byClass[cl] = n
			} else if r.Oracle != "fail" {
				r.Oracle, r.Sig = "fail", "keytag:not-injective"
				r.Detail = fmt.Sprintf("%s: the keys %q and %q get the same Key tag (%s): they alias one entry", fname, keyClasses[byClass[cl]], keyClasses[n], val)
			}

			table = append(table, fmt.Sprintf("(%d,%d)", i+1, cl))
		}

		r.Observed = observed
		if r.Sig != "setup" && r.Sig != "keytag:put" && r.Sig != "keytag:not-observed" {
			r.Coq = fmt.Sprintf("{| c_stack := SMem; c_steps := []; c_psteps := []; c_keytags := [%s]; c_conj := true; c_oracle := %s |}",
				strings.Join(table, ";"), hx.CoqBool(r.Oracle != "fail"))
		}

		tr.Put(r)
	}
}

func usesReservedNames() bool {
	for _, k := range palette {
		if k == "TagMap" || k == "StoreConfig" {
			return true
		}
	}

	return false
}
