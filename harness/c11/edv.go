package main

import (
	"encoding/json"
	"fmt"

	"github.com/google/tink/go/keyset"
	"github.com/google/tink/go/mac"

	"github.com/hyperledger/aries-framework-go/component/storage/edv"
	"github.com/hyperledger/aries-framework-go/component/storageutil/formattedstore"
	"github.com/hyperledger/aries-framework-go/component/storageutil/mem"
	cryptoapi "github.com/hyperledger/aries-framework-go/pkg/crypto"
	"github.com/hyperledger/aries-framework-go/pkg/crypto/tinkcrypto"
	"github.com/hyperledger/aries-framework-go/pkg/doc/jose"
	"github.com/hyperledger/aries-framework-go/pkg/kms"
	"github.com/hyperledger/aries-framework-go/pkg/kms/localkms"
	mockkms "github.com/hyperledger/aries-framework-go/pkg/mock/kms"
	"github.com/hyperledger/aries-framework-go/pkg/secretlock/noop"
)

// extraFormatter builds the real EDV encrypted formatter (own KMS, real JWE encrypter/decrypter, real MAC):
// "edvdet" = deterministic document ids, "edvrand" = random document ids.
func extraFormatter(name string) (formattedstore.Formatter, error) {
	if name != "edvdet" && name != "edvrand" {
		return nil, fmt.Errorf("unknown formatter %q", name)
	}

	p, err := mockkms.NewProviderForKMS(mem.NewProvider(), &noop.NoLock{})
	if err != nil {
		return nil, err
	}

	k, err := localkms.New("local-lock://c11", p)
	if err != nil {
		return nil, err
	}

	c, err := tinkcrypto.New()
	if err != nil {
		return nil, err
	}

	_, pkb, err := k.CreateAndExportPubKeyBytes(kms.NISTP256ECDHKWType)
	if err != nil {
		return nil, err
	}

	pk := new(cryptoapi.PublicKey)
	if err = json.Unmarshal(pkb, pk); err != nil {
		return nil, err
	}

	enc, err := jose.NewJWEEncrypt(jose.A256GCM, "application/JSON", "", "", nil, []*cryptoapi.PublicKey{pk}, c)
	if err != nil {
		return nil, err
	}

	dec := jose.NewJWEDecrypt(nil, c, k)

	kh, err := keyset.NewHandle(mac.HMACSHA256Tag256KeyTemplate())
	if err != nil {
		return nil, err
	}

	var opts []edv.EncryptedFormatterOption
	if name == "edvdet" {
		opts = append(opts, edv.WithDeterministicDocumentIDs())
	}

	return edv.NewEncryptedFormatter(enc, dec, edv.NewMACCrypto(kh, c), opts...), nil
}
