package main

import (
	"fmt"

	"github.com/hyperledger/aries-framework-go/component/storageutil/formattedstore"
)

// extraFormatter builds formatters that need key material (EDV encrypted formatter).
func extraFormatter(name string) (formattedstore.Formatter, error) {
	return nil, fmt.Errorf("unknown formatter %q", name)
}
