package main

import (
	"errors"
	"fmt"
	"sort"
	"strings"

	spi "github.com/hyperledger/aries-framework-go/spi/storage"

	"verifharness/hx"
)

// POp is one provider-level step: open setcfg getcfg getopen close sclose put get.
type POp struct {
	Kind string `json:"pop"`
	N    int    `json:"n,omitempty"`    // store name number: 0 = blank, 1/2 = "s1"/"s2"
	Up   bool   `json:"up,omitempty"`   // use the upper-case spelling of the name
	Tags []int  `json:"tags,omitempty"` // setcfg: tag names (9 = a name with ':')
	K    int    `json:"k,omitempty"`
	V    int    `json:"v,omitempty"`
}

// PCase is a provider-level scenario.
type PCase struct {
	Stack Stack `json:"stack"`
	POps  []POp `json:"pops"`
}

func storeNameStr(n int, up bool) string {
	if n == 0 {
		return ""
	}

	s := fmt.Sprintf("st%d", n)
	if up {
		return strings.ToUpper(s)
	}

	return s
}

// pref is the reference for the documented provider-level contract.
type pstore struct {
	data map[int]int
	cfg  []int
	set  bool
	open bool
}

type pref struct {
	stores  map[int]*pstore
	persist bool
}

func (r *pref) exec(o POp) string {
	s := r.stores[o.N]

	switch o.Kind {
	case "open":
		if o.N == 0 {
			return "err"
		}

		if s == nil {
			s = &pstore{data: map[int]int{}}
			r.stores[o.N] = s
		}

		s.open = true

		return "done"
	case "setcfg":
		for _, t := range o.Tags {
			if t == 9 {
				return "err"
			}
		}

		if s == nil || !s.open {
			return "nostore"
		}

		s.cfg, s.set = append([]int{}, o.Tags...), true

		return "done"
	case "getcfg":
		if s == nil || (!s.open && !r.persist) {
			return "nostore"
		}

		if !s.set {
			return "unspecified"
		}

		return fmt.Sprint("cfg", s.cfg)
	case "getopen":
		var ns []int

		for n, st := range r.stores {
			if st.open {
				ns = append(ns, n)
			}
		}

		sort.Ints(ns)

		return fmt.Sprint("open", ns)
	case "close":
		for n, st := range r.stores {
			st.open = false
			if !r.persist {
				delete(r.stores, n)
			}
		}

		return "done"
	case "sclose":
		if s != nil && s.open {
			s.open = false
			if !r.persist {
				delete(r.stores, o.N)
			}
		}

		return "done"
	case "put":
		if s == nil || !s.open {
			return "skip"
		}

		s.data[o.K] = o.V

		return "done"
	case "get":
		if s == nil || !s.open {
			return "skip"
		}

		if v, ok := s.data[o.K]; ok {
			return fmt.Sprint("val", v)
		}

		return "notfound"
	}

	return "err"
}

func runPCase(kind string, c PCase, tr *hx.Trace) {
	rec := &hx.Record{Kind: kind, Case: c}

	w, err := newWorldNoOpen(c.Stack)
	if err != nil {
		rec.Oracle, rec.Sig, rec.Detail = "fail", "setup", err.Error()
		tr.Put(rec)

		return
	}

	defer w.close()

	r := &pref{stores: map[int]*pstore{}, persist: c.Stack.Base == "leveldb"}
	handles := map[int]spi.Store{}
	var obs []string

	classParts := []string{"provider", c.Stack.String()}

	for i, o := range c.POps {
		want := r.exec(o)
		got := ""
		name := storeNameStr(o.N, o.Up)

		func() {
			defer func() {
				if p := recover(); p != nil {
					got = fmt.Sprint("panic: ", p)
				}
			}()

			switch o.Kind {
			case "open":
				s, err := w.top.OpenStore(name)
				if err != nil {
					got = "err"
					return
				}

				handles[o.N] = s
				got = "done"
			case "setcfg":
				tn := make([]string, len(o.Tags))
				for j, t := range o.Tags {
					tn[j] = nameStr(t)
				}

				err := w.top.SetStoreConfig(name, spi.StoreConfiguration{TagNames: tn})
				got = perr(err)
			case "getcfg":
				cfg, err := w.top.GetStoreConfig(name)
				if err != nil {
					got = perr(err)
					return
				}

				ns := make([]int, len(cfg.TagNames))
				for j, t := range cfg.TagNames {
					ns[j] = nameNum(t)
				}

				got = fmt.Sprint("cfg", ns)
			case "getopen":
				open := w.top.GetOpenStores()
				var ns []int

				for n, h := range handles {
					for _, s := range open {
						if s == h {
							ns = append(ns, n)
							break
						}
					}
				}

				sort.Ints(ns)

				if len(ns) != len(open) {
					got = fmt.Sprintf("open%v+%d unknown", ns, len(open)-len(ns))
					return
				}

				got = fmt.Sprint("open", ns)
			case "close":
				got = perr(w.top.Close())
				handles = map[int]spi.Store{}
			case "sclose":
				h := handles[o.N]
				if h == nil {
					got = "done"
					return
				}

				got = perr(h.Close())
				if got == "done" {
					got = perr(h.Close()) // "Close can be called repeatedly on the same store"
				}

				delete(handles, o.N)
			case "put":
				h := handles[o.N]
				if h == nil {
					got = "skip"
					return
				}

				got = perr(h.Put(keyStr(o.K), valBytes(o.V)))
			case "get":
				h := handles[o.N]
				if h == nil {
					got = "skip"
					return
				}

				v, err := h.Get(keyStr(o.K))
				if err != nil {
					if errors.Is(err, spi.ErrDataNotFound) {
						got = "notfound"
					} else {
						got = "err"
					}

					return
				}

				got = fmt.Sprint("val", valNum(v))
			}
		}()

		obs = append(obs, got)
		classParts = append(classParts, o.Kind+">"+strings.SplitN(got, "[", 2)[0])

		if want != "unspecified" && want != got && rec.Oracle != "fail" {
			rec.Oracle = "fail"
			top := c.Stack.Base
			if len(c.Stack.Wraps) > 0 {
				top = c.Stack.Wraps[len(c.Stack.Wraps)-1].Kind
			}

			rec.Sig = fmt.Sprintf("provider:%s:%s:want-%s-got-%s", top, o.Kind, strings.SplitN(want, "[", 2)[0], strings.SplitN(got, "[", 2)[0])
			if c.Stack.Base == "leveldb" && o.Kind == "getcfg" && strings.HasPrefix(want, "cfg") && got == "nostore" &&
				r.stores[o.N] != nil && !r.stores[o.N].open {
				// the database exists on disk, but leveldb only looks at the stores open in memory (TODO #2948 in the source)
				rec.Sig = "leveldb:getstoreconfig:closed-store-not-found"
			}
			rec.Detail = fmt.Sprintf("%s provider step %d %+v: contract prescribes %s, provider returned %s", c.Stack, i, o, want, got)
		}

		if o.Kind == "close" {
			break
		}
	}

	// the in-memory provider itself goes through the Coq provider-level model
	if c.Stack.Base == "mem" && len(c.Stack.Wraps) == 0 {
		var steps []string

		ok := true

		for i, g := range obs {
			o := c.POps[i]
			if g == "skip" {
				continue
			}

			t, po := coqPOp(o), coqPOut(g)
			if o.Kind == "put" || o.Kind == "get" {
				switch g {
				case "done":
					po = "POut ODone"
				case "err":
					po = "POut OErr"
				}
			}

			if po == "" {
				ok = false
				break
			}

			steps = append(steps, "("+t+", "+po+")")
		}

		if ok {
			rec.Coq = fmt.Sprintf("{| c_stack := SMem; c_steps := []; c_psteps := [%s]; c_keytags := []; c_conj := true; c_oracle := %s |}",
				strings.Join(steps, "; "), hx.CoqBool(rec.Oracle != "fail"))
		}
	}

	rec.Observed = obs
	rec.Class = strings.Join(classParts, ",")
	rec.Dist = []string{"provider-level", "stack=" + c.Stack.String()}
	tr.Put(rec)
}

func perr(err error) string {
	if err == nil {
		return "done"
	}

	if errors.Is(err, spi.ErrStoreNotFound) {
		return "nostore"
	}

	return "err"
}

func randPCase(r *hx.Rng, st Stack, n int) PCase {
	ops := make([]POp, 0, n+1)

	for len(ops) < n {
		o := POp{N: 1 + r.Intn(2), Up: r.Intn(4) == 0}
		if r.Intn(25) == 0 {
			o.N = 0
		}

		switch x := r.Intn(100); {
		case x < 22:
			o.Kind = "open"
		case x < 34:
			o.Kind = "setcfg"
			o.Tags = [][]int{{1}, {1, 2}, {2}, {}, {1, 9}}[r.Intn(5)]
		case x < 48:
			o.Kind = "getcfg"
		case x < 58:
			o.Kind = "getopen"
		case x < 66:
			o.Kind = "sclose"
		case x < 84:
			o.Kind, o.K, o.V = "put", 1+r.Intn(2), 1+r.Intn(3)
		default:
			o.Kind, o.K = "get", 1+r.Intn(2)
		}

		ops = append(ops, o)
	}

	return PCase{Stack: st, POps: append(ops, POp{Kind: "getopen"}, POp{Kind: "close"})}
}

func coqPOp(o POp) string {
	switch o.Kind {
	case "open":
		return fmt.Sprintf("POpen %d", o.N)
	case "setcfg":
		return fmt.Sprintf("PSetCfg %d %s", o.N, coqNs(o.Tags))
	case "getcfg":
		return fmt.Sprintf("PGetCfg %d", o.N)
	case "getopen":
		return "PGetOpen"
	case "close":
		return "PClose"
	case "sclose":
		return fmt.Sprintf("PStoreClose %d", o.N)
	case "put":
		return fmt.Sprintf("PStore %d (Put %d %d [])", o.N, o.K, o.V)
	}

	return fmt.Sprintf("PStore %d (Get %d)", o.N, o.K)
}

func coqPOut(g string) string {
	switch {
	case g == "done":
		return "PDone"
	case g == "err":
		return "PErr"
	case g == "nostore":
		return "PNoStore"
	case g == "notfound":
		return "POut ONotFound"
	case strings.HasPrefix(g, "cfg["), strings.HasPrefix(g, "open["):
		if strings.Contains(g, "unknown") {
			return ""
		}

		body := strings.ReplaceAll(strings.TrimSuffix(g[strings.Index(g, "[")+1:], "]"), " ", ";")
		if strings.HasPrefix(g, "cfg") {
			return "PCfg [" + body + "]"
		}

		return "POpenSet [" + body + "]"
	case strings.HasPrefix(g, "val"):
		return "POut (OVal " + strings.TrimPrefix(g, "val") + ")"
	}

	return ""
}
