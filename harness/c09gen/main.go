// c09gen: translator for C09. Executes the verif export hooks of the five protocol packages of /repo
// (states x CanTransitionTo, message type -> state, action-event message types, follow-up of each Execute)
// and writes the tables as coq/gen/Gen_C09.v.  Run by bin/check on every run.
package main

import (
	"encoding/json"
	"fmt"
	"os"
	"strings"

	"github.com/hyperledger/aries-framework-go/pkg/didcomm/protocol/didexchange"
	"github.com/hyperledger/aries-framework-go/pkg/didcomm/protocol/introduce"
	"github.com/hyperledger/aries-framework-go/pkg/didcomm/protocol/issuecredential"
	"github.com/hyperledger/aries-framework-go/pkg/didcomm/protocol/legacyconnection"
	"github.com/hyperledger/aries-framework-go/pkg/didcomm/protocol/presentproof"

	"verifharness/c09tab"
)

type target struct {
	Msg       string
	V3        bool
	Outbound  bool
	State     string
	Namespace string
	Err       bool
}

type exec struct {
	State   string
	V3      bool
	Inbound bool
	Opt     string
	Flag    bool
	Next    string
	Err     bool
}

type action struct {
	Msg       string
	V3        bool
	State     string
	Namespace string
}

type tables struct {
	States  []string
	Can     [][2]string
	Targets []target
	Actions []action
	Exec    []exec
}

func conv(v interface{}) *tables {
	b, err := json.Marshal(v)
	if err != nil {
		panic(err)
	}

	t := &tables{}
	if err := json.Unmarshal(b, t); err != nil {
		panic(err)
	}

	return t
}

func idx(l []string, s string) int {
	for i, x := range l {
		if x == s {
			return i
		}
	}

	return -1
}

func cb(b bool) string {
	if b {
		return "true"
	}

	return "false"
}

func strList(l []string) string {
	q := make([]string, len(l))
	for i, s := range l {
		q[i] = "\"" + s + "\""
	}

	return "[" + strings.Join(q, "; ") + "]"
}

// state index: 0 = noop, i+1 = States[i]
func (t *tables) st(name string) int {
	if name == "noop" {
		return 0
	}

	i := idx(t.States, name)
	if i < 0 {
		panic("unknown state " + name)
	}

	return i + 1
}

func emit(w *strings.Builder, pfx string, t *tables, msgs, opts []string, ns bool) {
	fmt.Fprintf(w, "\n(* ---- %s ---- *)\n", pfx)
	fmt.Fprintf(w, "Definition %s_names : list string := %s.\n", pfx, strList(t.States))
	fmt.Fprintf(w, "Definition %s_msgs : list string := %s.\n", pfx, strList(msgs))
	fmt.Fprintf(w, "Definition %s_opts : list string := %s.\n", pfx, strList(opts))

	var rows []string
	for _, e := range t.Can {
		rows = append(rows, fmt.Sprintf("(%d, %d)", t.st(e[0]), t.st(e[1])))
	}

	fmt.Fprintf(w, "Definition %s_edges : list (N * N) := [%s].\n", pfx, strings.Join(rows, "; "))

	rows = nil

	for _, r := range t.Targets {
		s := "None"
		if !r.Err {
			s = fmt.Sprintf("Some %d", t.st(r.State))
		}

		if ns {
			// (msg, namespace is "my", state)
			rows = append(rows, fmt.Sprintf("(%d, %s, %s)", idx(msgs, r.Msg), cb(r.Namespace == "my"), s))
		} else {
			rows = append(rows, fmt.Sprintf("(%d, %s, %s, %s)", idx(msgs, r.Msg), cb(r.V3), cb(r.Outbound), s))
		}
	}

	if ns {
		fmt.Fprintf(w, "Definition %s_targets : list (N * bool * option N) := [%s].\n", pfx, strings.Join(rows, "; "))
	} else {
		fmt.Fprintf(w, "Definition %s_targets : list (N * bool * bool * option N) := [%s].\n", pfx, strings.Join(rows, "; "))
	}

	rows = nil

	for _, r := range t.Actions {
		if ns {
			rows = append(rows, fmt.Sprintf("(%d, %s)", t.st(r.State), cb(r.Namespace == "my")))
		} else {
			rows = append(rows, fmt.Sprintf("(%d, %s)", idx(msgs, r.Msg), cb(r.V3)))
		}
	}

	fmt.Fprintf(w, "Definition %s_actions : list (N * bool) := [%s].\n", pfx, strings.Join(rows, "; "))

	if t.Exec == nil {
		return
	}

	rows = nil

	for i, r := range t.Exec {
		s := "None"
		if !r.Err {
			s = fmt.Sprintf("Some %d", t.st(r.Next))
		}

		sep := ""
		if i%4 == 0 {
			sep = "\n  "
		}

		rows = append(rows, fmt.Sprintf("%s(%d, %s, %s, %d, %s, %s)", sep, t.st(r.State), cb(r.V3), cb(r.Inbound), idx(opts, r.Opt), cb(r.Flag), s))
	}

	fmt.Fprintf(w, "(* (state, v3, inbound, option given to Continue, will_confirm flag of the message, follow-up: None = error, Some 0 = noop) *)\n")
	fmt.Fprintf(w, "Definition %s_exec : list (N * bool * bool * N * bool * option N) := [%s].\n", pfx, strings.Join(rows, "; "))
}

type resolveRow struct {
	Msg      string
	V3       bool
	Outbound bool
	HasID    bool
	HasThid  bool
	HasPthid bool
	PIID     string
	State    string
}

var kindNo = map[string]int{"err": 0, "id": 1, "thid": 2, "pthid": 3, "fresh": 4}

// emitResolve writes which identifier of a message the service takes as protocol instance id, and whose persisted
// state it consults (0 = error, 1 = id, 2 = thid, 3 = pthid, 4 = a fresh id / start).
func emitResolve(w *strings.Builder, pfx string, v interface{}, msgs []string) {
	b, err := json.Marshal(v)
	if err != nil {
		panic(err)
	}

	var rows []resolveRow
	if err := json.Unmarshal(b, &rows); err != nil {
		panic(err)
	}

	var out []string

	for i, r := range rows {
		sep := ""
		if i%4 == 0 {
			sep = "\n  "
		}

		out = append(out, fmt.Sprintf("%s(%d, %s, %s, %s, %s, %s, %d, %d)", sep, idx(msgs, r.Msg), cb(r.V3), cb(r.Outbound),
			cb(r.HasID), cb(r.HasThid), cb(r.HasPthid), kindNo[r.PIID], kindNo[r.State]))
	}

	fmt.Fprintf(w, "(* (msg, v3, outbound, has id, has thid, has pthid, identifier taken as instance id, identifier whose state is read) *)\n")
	fmt.Fprintf(w, "Definition %s_resolve : list (N * bool * bool * bool * bool * bool * N * N) := [%s].\n", pfx, strings.Join(out, "; "))
}

func sameList(a, b []string) bool {
	if len(a) != len(b) {
		return false
	}

	for i := range a {
		if a[i] != b[i] {
			return false
		}
	}

	return true
}

func main() {
	if !sameList(c09tab.Opts["ic"], issuecredential.VerifOpts()) || !sameList(c09tab.Opts["pp"], presentproof.VerifOpts()) {
		fmt.Fprintln(os.Stderr, "option lists of the export hooks and c09tab differ")
		os.Exit(1)
	}

	out := "Gen_C09.v"
	if len(os.Args) > 1 {
		out = os.Args[1]
	}

	repo := "/repo"
	if len(os.Args) > 2 {
		repo = os.Args[2]
	}

	var w strings.Builder

	w.WriteString("(* GENERATED by harness/c09gen from /repo (verif export hooks of the protocol packages). Do not edit. *)\n")
	w.WriteString("(* States are numbered: 0 = noop, i+1 = i-th entry of <p>_names. Messages and options by position. *)\n")
	w.WriteString("From Coq Require Import List NArith String Bool.\nImport ListNotations.\nLocal Open Scope string_scope.\nLocal Open Scope N_scope.\n")

	emit(&w, "ic", conv(issuecredential.VerifGraph()),
		c09tab.Msgs["ic"], c09tab.Opts["ic"], false)
	emit(&w, "pp", conv(presentproof.VerifGraph()),
		c09tab.Msgs["pp"], c09tab.Opts["pp"], false)
	emit(&w, "intro", conv(introduce.VerifGraph()),
		c09tab.Msgs["intro"], c09tab.Opts["intro"], false)
	emitResolve(&w, "ic", issuecredential.VerifResolve(), c09tab.Msgs["ic"])
	emitResolve(&w, "pp", presentproof.VerifResolve(), c09tab.Msgs["pp"])
	emitResolve(&w, "intro", introduce.VerifResolve(), c09tab.Msgs["intro"])
	emit(&w, "didex", conv(didexchange.VerifGraph()),
		c09tab.Msgs["didex"], nil, true)
	emit(&w, "legacy", conv(legacyconnection.VerifGraph()),
		c09tab.Msgs["legacy"], nil, true)

	// source-level tables (go/ast over the packages of the repo under check)
	w.WriteString("\n(* ---- read off the source (go/ast) ---- *)\n")

	for _, x := range [][2]string{{"ic", "issuecredential"}, {"pp", "presentproof"}, {"intro", "introduce"},
		{"didex", "didexchange"}, {"legacy", "legacyconnection"}} {
		src := loadPkg(protoDir(repo, x[1]))
		emitDeclared(&w, x[0], src)

		switch x[0] {
		case "didex":
			t := conv(didexchange.VerifGraph())
			emitFollow(&w, "didex", t, c09tab.Msgs["didex"], src.followTable(t.States, c09tab.Msgs["didex"], didexchange.VerifMsgTypes()))
		case "legacy":
			t := conv(legacyconnection.VerifGraph())
			emitFollow(&w, "legacy", t, c09tab.Msgs["legacy"], src.followTable(t.States, c09tab.Msgs["legacy"], legacyconnection.VerifMsgTypes()))
		}
	}

	if err := os.WriteFile(out, []byte(w.String()), 0o644); err != nil {
		fmt.Fprintln(os.Stderr, err)
		os.Exit(1)
	}
}
