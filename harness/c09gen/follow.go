package main

// Source-level part of the C09 translator (go/ast over the protocol packages of the repo under check):
//
//   - declaredStates: every type of a package that has a CanTransitionTo method is a state of the protocol; its name
//     is the constant its Name() method returns.  The list is compared in Coq with the state list the export hook
//     enumerates (the hook's list is typed by hand: a state added to states.go must not stay outside the tables).
//   - followTable (DID Exchange, legacy Connection): the follow-up state of each ExecuteInbound per message type, read
//     off the method bodies (`switch msg.Type()`, `if msg.Type() != X` guards, `return rec, &next{}, action, nil`).
//     Branches that depend on the message content (`if err != nil { return ..., err }`) are failures of the Execute
//     (an observed input of the machine); every successful return of one (state, message type) must name the same
//     follow-up, otherwise the translator gives up (exit 1 = the obligation is broken).

import (
	"fmt"
	"go/ast"
	"go/parser"
	"go/token"
	"os"
	"path/filepath"
	"sort"
	"strconv"
	"strings"
)

type pkgSrc struct {
	files  []*ast.File
	consts map[string]ast.Expr
	names  map[string]string // state type -> state name
	exec   map[string]*ast.FuncDecl
	states []string // types with CanTransitionTo, in source order
}

func fail(format string, a ...interface{}) {
	fmt.Fprintf(os.Stderr, "c09gen: "+format+"\n", a...)
	os.Exit(1)
}

func recvType(fd *ast.FuncDecl) string {
	if fd.Recv == nil || len(fd.Recv.List) != 1 {
		return ""
	}

	t := fd.Recv.List[0].Type
	if s, ok := t.(*ast.StarExpr); ok {
		t = s.X
	}

	if id, ok := t.(*ast.Ident); ok {
		return id.Name
	}

	return ""
}

func loadPkg(dir string) *pkgSrc {
	fset := token.NewFileSet()

	pkgs, err := parser.ParseDir(fset, dir, func(fi os.FileInfo) bool {
		return !strings.HasSuffix(fi.Name(), "_test.go") && !strings.HasSuffix(fi.Name(), "_verif.go")
	}, 0)
	if err != nil {
		fail("parse %s: %v", dir, err)
	}

	p := &pkgSrc{consts: map[string]ast.Expr{}, names: map[string]string{}, exec: map[string]*ast.FuncDecl{}}

	var fnames []string

	byName := map[string]*ast.File{}

	for _, pk := range pkgs {
		for fn, f := range pk.Files {
			fnames = append(fnames, fn)
			byName[fn] = f
		}
	}

	sort.Strings(fnames)

	for _, fn := range fnames {
		p.files = append(p.files, byName[fn])
	}

	for _, f := range p.files {
		for _, d := range f.Decls {
			gd, ok := d.(*ast.GenDecl)
			if !ok || gd.Tok != token.CONST {
				continue
			}

			for _, sp := range gd.Specs {
				vs := sp.(*ast.ValueSpec) //nolint:forcetypeassert
				for i, n := range vs.Names {
					if i < len(vs.Values) {
						p.consts[n.Name] = vs.Values[i]
					}
				}
			}
		}
	}

	type nameRet struct {
		typ string
		fd  *ast.FuncDecl
	}

	var nameFns []nameRet

	for _, f := range p.files {
		for _, d := range f.Decls {
			fd, ok := d.(*ast.FuncDecl)
			if !ok || fd.Body == nil {
				continue
			}

			rt := recvType(fd)
			if rt == "" {
				continue
			}

			switch fd.Name.Name {
			case "CanTransitionTo":
				p.states = append(p.states, rt)
			case "Name":
				nameFns = append(nameFns, nameRet{rt, fd})
			case "ExecuteInbound":
				p.exec[rt] = fd
			}
		}
	}

	isState := map[string]bool{}
	for _, s := range p.states {
		isState[s] = true
	}

	for _, nf := range nameFns {
		if !isState[nf.typ] {
			continue
		}

		if len(nf.fd.Body.List) != 1 {
			fail("%s.Name(): unexpected body", nf.typ)
		}

		ret, ok := nf.fd.Body.List[0].(*ast.ReturnStmt)
		if !ok || len(ret.Results) != 1 {
			fail("%s.Name(): unexpected body", nf.typ)
		}

		v, ok := p.evalString(ret.Results[0], 0)
		if !ok {
			fail("%s.Name(): not a constant", nf.typ)
		}

		p.names[nf.typ] = v
	}

	for _, s := range p.states {
		if _, ok := p.names[s]; !ok {
			fail("state type %s has no Name()", s)
		}
	}

	return p
}

// evalString evaluates a constant string expression (literals, package constants, +).
func (p *pkgSrc) evalString(e ast.Expr, depth int) (string, bool) {
	if depth > 20 {
		return "", false
	}

	switch x := e.(type) {
	case *ast.BasicLit:
		if x.Kind != token.STRING {
			return "", false
		}

		s, err := strconv.Unquote(x.Value)

		return s, err == nil
	case *ast.Ident:
		c, ok := p.consts[x.Name]
		if !ok {
			return "", false
		}

		return p.evalString(c, depth+1)
	case *ast.ParenExpr:
		return p.evalString(x.X, depth+1)
	case *ast.BinaryExpr:
		if x.Op != token.ADD {
			return "", false
		}

		a, ok1 := p.evalString(x.X, depth+1)
		b, ok2 := p.evalString(x.Y, depth+1)

		return a + b, ok1 && ok2
	}

	return "", false
}

// declaredStates: names of all state types except the no-op, sorted.
func (p *pkgSrc) declaredStates() []string {
	var out []string

	for _, s := range p.states {
		if n := p.names[s]; n != "noop" {
			out = append(out, n)
		}
	}

	sort.Strings(out)

	return out
}

// ---- follow-up tables ----

type outcome struct {
	nexts map[string]bool
	errs  int
}

type followEval struct {
	p   *pkgSrc
	typ string
	out map[string]*outcome // message type (full string) -> outcome
}

func isMsgTypeCall(e ast.Expr) bool {
	c, ok := e.(*ast.CallExpr)
	if !ok || len(c.Args) != 0 {
		return false
	}

	s, ok := c.Fun.(*ast.SelectorExpr)
	if !ok || s.Sel.Name != "Type" {
		return false
	}

	id, ok := s.X.(*ast.Ident)

	return ok && id.Name == "msg"
}

// evalCond evaluates a condition that only speaks about msg.Type() for one concrete message type.
func (fe *followEval) evalCond(e ast.Expr, mt string) (val, ok bool) {
	switch x := e.(type) {
	case *ast.ParenExpr:
		return fe.evalCond(x.X, mt)
	case *ast.BinaryExpr:
		switch x.Op {
		case token.LAND, token.LOR:
			a, ok1 := fe.evalCond(x.X, mt)
			b, ok2 := fe.evalCond(x.Y, mt)

			if !ok1 || !ok2 {
				return false, false
			}

			if x.Op == token.LAND {
				return a && b, true
			}

			return a || b, true
		case token.EQL, token.NEQ:
			var other ast.Expr

			switch {
			case isMsgTypeCall(x.X):
				other = x.Y
			case isMsgTypeCall(x.Y):
				other = x.X
			default:
				return false, false
			}

			v, okc := fe.p.evalString(other, 0)
			if !okc {
				return false, false
			}

			if x.Op == token.EQL {
				return mt == v, true
			}

			return mt != v, true
		}
	}

	return false, false
}

func (fe *followEval) ret(r *ast.ReturnStmt, live map[string]bool) {
	if len(r.Results) != 4 {
		fail("%s.ExecuteInbound: return with %d results", fe.typ, len(r.Results))
	}

	last, isIdent := r.Results[3].(*ast.Ident)
	success := isIdent && last.Name == "nil"
	next := ""

	if success {
		u, ok := r.Results[1].(*ast.UnaryExpr)
		if !ok || u.Op != token.AND {
			fail("%s.ExecuteInbound: follow-up is not &T{}", fe.typ)
		}

		cl, ok := u.X.(*ast.CompositeLit)
		if !ok {
			fail("%s.ExecuteInbound: follow-up is not &T{}", fe.typ)
		}

		id, ok := cl.Type.(*ast.Ident)
		if !ok {
			fail("%s.ExecuteInbound: follow-up is not &T{}", fe.typ)
		}

		n, ok := fe.p.names[id.Name]
		if !ok {
			fail("%s.ExecuteInbound: follow-up %s is not a state", fe.typ, id.Name)
		}

		next = n
	}

	for m := range live {
		o := fe.out[m]
		if success {
			o.nexts[next] = true
		} else {
			o.errs++
		}
	}
}

func copySet(s map[string]bool) map[string]bool {
	c := map[string]bool{}
	for k := range s {
		c[k] = true
	}

	return c
}

// stmts evaluates a statement list for the message types in live; it returns the message types for which control
// can reach the end of the list.
func (fe *followEval) stmts(list []ast.Stmt, live map[string]bool) map[string]bool {
	live = copySet(live)

	for _, st := range list {
		if len(live) == 0 {
			break
		}

		switch x := st.(type) {
		case *ast.ReturnStmt:
			fe.ret(x, live)

			return map[string]bool{}
		case *ast.IfStmt:
			lt, lf := map[string]bool{}, map[string]bool{}
			decided := true

			for m := range live {
				v, ok := fe.evalCond(x.Cond, m)
				if !ok {
					decided = false
					break
				}

				if v {
					lt[m] = true
				} else {
					lf[m] = true
				}
			}

			if !decided {
				// depends on the content of the message: both ways are possible for every live type
				fe.stmts(x.Body.List, live)

				if x.Else != nil {
					if b, ok := x.Else.(*ast.BlockStmt); ok {
						fe.stmts(b.List, live)
					} else {
						fe.stmts([]ast.Stmt{x.Else}, live)
					}
				}

				continue
			}

			after := fe.stmts(x.Body.List, lt)

			if x.Else != nil {
				var rest map[string]bool
				if b, ok := x.Else.(*ast.BlockStmt); ok {
					rest = fe.stmts(b.List, lf)
				} else {
					rest = fe.stmts([]ast.Stmt{x.Else}, lf)
				}

				lf = rest
			}

			live = after
			for m := range lf {
				live[m] = true
			}
		case *ast.SwitchStmt:
			if x.Init != nil || !isMsgTypeCall(x.Tag) {
				fail("%s.ExecuteInbound: switch on something else than msg.Type()", fe.typ)
			}

			rest := copySet(live)
			after := map[string]bool{}

			var def *ast.CaseClause

			for _, c := range x.Body.List {
				cc := c.(*ast.CaseClause) //nolint:forcetypeassert
				if cc.List == nil {
					def = cc
					continue
				}

				sel := map[string]bool{}

				for _, e := range cc.List {
					v, ok := fe.p.evalString(e, 0)
					if !ok {
						fail("%s.ExecuteInbound: case value is not a constant", fe.typ)
					}

					if rest[v] {
						sel[v] = true
						delete(rest, v)
					}
				}

				for m := range fe.stmts(cc.Body, sel) {
					after[m] = true
				}
			}

			if def != nil {
				for m := range fe.stmts(def.Body, rest) {
					after[m] = true
				}
			} else {
				for m := range rest {
					after[m] = true
				}
			}

			live = after
		case *ast.AssignStmt, *ast.DeclStmt, *ast.ExprStmt:
			// no control flow
		default:
			fail("%s.ExecuteInbound: statement %T not understood", fe.typ, st)
		}
	}

	return live
}

type followRow struct {
	State, Msg, Next string
	Err              bool
}

// followTable: rows for every (state in `states`, message in `msgs`); types maps the short message name to the
// message type string.
func (p *pkgSrc) followTable(states, msgs []string, types map[string]string) []followRow {
	typeOf := map[string]string{}
	for t, n := range p.names {
		typeOf[n] = t
	}

	var rows []followRow

	for _, sn := range states {
		t, ok := typeOf[sn]
		if !ok {
			fail("state %s has no type in the source", sn)
		}

		fd := p.exec[t]
		if fd == nil {
			fail("state type %s has no ExecuteInbound", t)
		}

		if len(fd.Type.Params.List) == 0 || len(fd.Type.Params.List[0].Names) != 1 {
			fail("%s.ExecuteInbound: unexpected parameters", t)
		}

		fe := &followEval{p: p, typ: t, out: map[string]*outcome{}}
		live := map[string]bool{}

		for _, m := range msgs {
			fe.out[types[m]] = &outcome{nexts: map[string]bool{}}
			live[types[m]] = true
		}

		// a parameter named `_` cannot be inspected: the body must not depend on the message type then
		if rest := fe.stmts(fd.Body.List, live); len(rest) != 0 {
			fail("%s.ExecuteInbound: control reaches the end without return", t)
		}

		for _, m := range msgs {
			o := fe.out[types[m]]

			switch len(o.nexts) {
			case 0:
				rows = append(rows, followRow{State: sn, Msg: m, Err: true})
			case 1:
				for n := range o.nexts {
					rows = append(rows, followRow{State: sn, Msg: m, Next: n})
				}
			default:
				fail("%s.ExecuteInbound: follow-up for %s depends on the message content", t, m)
			}
		}
	}

	return rows
}

func emitDeclared(w *strings.Builder, pfx string, p *pkgSrc) {
	fmt.Fprintf(w, "(* go/ast: names of the types of the package that have a CanTransitionTo method (without noop), sorted *)\n")
	fmt.Fprintf(w, "Definition %s_declared : list string := %s.\n", pfx, strList(p.declaredStates()))
}

func emitFollow(w *strings.Builder, pfx string, t *tables, msgs []string, rows []followRow) {
	var out []string

	for i, r := range rows {
		s := "None"
		if !r.Err {
			s = fmt.Sprintf("Some %d", t.st(r.Next))
		}

		sep := ""
		if i%6 == 0 {
			sep = "\n  "
		}

		out = append(out, fmt.Sprintf("%s(%d, %d, %s)", sep, t.st(r.State), idx(msgs, r.Msg), s))
	}

	fmt.Fprintf(w, "(* go/ast over ExecuteInbound: (state, message type, follow-up: None = illegal message type for the state, Some 0 = noop) *)\n")
	fmt.Fprintf(w, "Definition %s_follow : list (N * N * option N) := [%s].\n", pfx, strings.Join(out, "; "))
}

func protoDir(repo, pkg string) string {
	return filepath.Join(repo, "pkg", "didcomm", "protocol", pkg)
}
