// c02: builds honest envelopes with the real packers (one KMS per party), derives adversarial envelopes from them
// (every kind of alteration of C02's quantifier: base64 positions of every field, JSON-level edits of protected and
// per-recipient headers, truncation, cross-splices between two envelopes, re-serialization, and constructions with
// the public crypto API by a co-recipient / outsider), unpacks them with a victim party on the real code under
// recover(), and records the result together with a symbolic description of the adversarial envelope (a Gallina
// function of the two honest wires) for the Coq model (coq/C02).
package main

import (
	"bytes"
	"crypto/aes"
	"crypto/cipher"
	"crypto/ecdsa"
	"crypto/hmac"
	"crypto/rand"
	"crypto/sha256"
	"crypto/sha512"
	"encoding/base64"
	"encoding/binary"
	"encoding/json"
	"fmt"
	"hash"
	"math/big"
	"os"
	"path/filepath"
	"sort"
	"strconv"
	"strings"

	"github.com/btcsuite/btcutil/base58"
	chacha "golang.org/x/crypto/chacha20poly1305"
	"golang.org/x/crypto/curve25519"

	gojose "github.com/go-jose/go-jose/v3"
	hybrid "github.com/google/tink/go/hybrid/subtle"
	"github.com/google/tink/go/keyset"

	"github.com/hyperledger/aries-framework-go/component/kmscrypto/crypto/tinkcrypto/primitive/composite"
	"github.com/hyperledger/aries-framework-go/component/kmscrypto/crypto/tinkcrypto/primitive/composite/ecdh"
	"github.com/hyperledger/aries-framework-go/component/kmscrypto/crypto/tinkcrypto/primitive/composite/keyio"
	"github.com/hyperledger/aries-framework-go/component/kmscrypto/doc/jose"
	"github.com/hyperledger/aries-framework-go/component/kmscrypto/doc/jose/jwk"
	"github.com/hyperledger/aries-framework-go/component/kmscrypto/kms/localkms"
	"github.com/hyperledger/aries-framework-go/component/kmscrypto/util/cryptoutil"
	"github.com/hyperledger/aries-framework-go/pkg/didcomm/transport"
	cryptoapi "github.com/hyperledger/aries-framework-go/spi/crypto"

	env "verifharness/c01env"
	"verifharness/hx"
)

// HEnv describes an honest envelope.
type HEnv struct {
	Packer  string   `json:"packer"`
	KT      string   `json:"kt"`
	Enc     string   `json:"enc"`
	Style   string   `json:"style"`
	Payload int      `json:"payload"` // payload id (bytes derived from it)
	Sender  [2]int   `json:"sender"`
	Rcpts   [][2]int `json:"rcpts"`
}

// Mut describes how the adversarial envelope is derived.
type Mut struct {
	Kind  string `json:"kind"`
	Field string `json:"field,omitempty"`
	Idx   int    `json:"idx,omitempty"`
	Pos   int    `json:"pos,omitempty"` // 0 first, 1 middle, 2 last character; truncation: per mille of the length
	Arg   string `json:"arg,omitempty"`
}

// Case is one replayable case.
type Case struct {
	H1    HEnv   `json:"h1"`
	H2    HEnv   `json:"h2"`
	Mut   Mut    `json:"mut"`
	Party int    `json:"party"`
	Via   string `json:"via"` // packager | packer
}

const (
	nParties = 6
	nSlots   = 2
	forged   = 888
)

type pool struct {
	w    *env.World
	keys map[string][][]*env.Key
	// ownSender: for an envelope the adversary built itself, the key whose PRIVATE part it used as sender (0: none)
	ownSender int
	// alt: the single-character alteration of a base64 member performed for the current case, as a Gallina
	// (option alteration): the MODEL decodes the original and the altered characters itself (coq/C02/Text.v)
	alt string
	// altItem: (edit, position, junk id) of the current alteration; grp: the open GROUP of alterations of one member of one
	// envelope pair (same victim, same route): the member's characters go to Coq once per group
	altItem string
	// cv: the envelope built for the current case has a protected member that is 'skid' up to letter case
	cv  bool
	grp *group
	// the honest envelopes of the current group's pair: every alteration of a group is applied to the SAME captured
	// envelopes (packing again would give other random members)
	hkey string
	he1  []byte
	he2  []byte
}

// group collects the alterations of one base64 member: one Coq case with the member's characters and a list of
// (edit, position, junk id, recorded UnwrapKey calls, observed result); carried by the LAST record of the group.
type group struct {
	key, head string
	items     []string
	last      *hx.Record
}

// flush closes the open group: its last record carries the Coq case of the whole group.
func (p *pool) flush(tr *hx.Trace) {
	if p.grp == nil {
		return
	}

	g := p.grp
	p.grp = nil
	g.last.Coq = strings.Replace(g.head, "@@ALTS@@", "["+strings.Join(g.items, "; ")+"]", 1)
	tr.Put(g.last)
}

func newPool() *pool {
	p := &pool{w: env.NewWorld(nParties), keys: map[string][][]*env.Key{}}

	for _, kt := range []string{env.X25519, env.P256, env.P384, env.Ed25519} {
		tab := make([][]*env.Key, nParties)
		for pa := 0; pa < nParties; pa++ {
			for s := 0; s < nSlots; s++ {
				tab[pa] = append(tab[pa], p.w.NewKey(pa, kt))
			}
		}

		p.keys[kt] = tab
	}

	return p
}

func (p *pool) partyKeys(pa int) []int {
	var ks []int

	for _, k := range p.w.Keys {
		if k.Owner == pa {
			ks = append(ks, k.Name)
		}
	}

	return ks
}

func payloadBytes(id int) []byte {
	if id == 0 {
		return []byte{}
	}

	return []byte(fmt.Sprintf(`{"@id":"%d","body":"payload %d"}`, id, id))
}

func (h HEnv) legacy() bool { return strings.HasPrefix(h.Packer, "leg") }
func (h HEnv) auth() bool   { return strings.HasSuffix(h.Packer, "auth") }

func (h HEnv) kt() string {
	if h.legacy() {
		return env.Ed25519
	}

	return h.KT
}

func (p *pool) key(h HEnv, ps [2]int) *env.Key { return p.keys[h.kt()][ps[0]][ps[1]] }

func (p *pool) rcpts(h HEnv) []*env.Key {
	var ks []*env.Key
	for _, r := range h.Rcpts {
		ks = append(ks, p.key(h, r))
	}

	return ks
}

func (p *pool) pack(h HEnv) ([]byte, error) {
	sender := p.key(h, h.Sender)

	pp, err := p.w.Parties[sender.Owner].Packer(h.Packer, h.Enc)
	if err != nil {
		return nil, err
	}

	var sid []byte
	if h.legacy() {
		sid = sender.Bytes
	} else if h.auth() {
		sid = sender.SenderID(h.Style)
	}

	var ra [][]byte
	for _, r := range p.rcpts(h) {
		ra = append(ra, r.RecipientArg(h.Style))
	}

	return pp.Pack(transport.MediaTypeV2PlaintextPayload, payloadBytes(h.Payload), sid, ra)
}

// ---------- Coq printing ----------

func coqPacker(s string) string {
	return map[string]string{"jwe-auth": "JweAuth", "jwe-anon": "JweAnon", "leg-auth": "LegAuth", "leg-anon": "LegAnon"}[s]
}

func coqStyle(s string) string {
	switch s {
	case "diddoc":
		return "DidDoc"
	case "pdoc":
		return "DidDocMulti"
	case "raw":
		return "RawKey"
	}

	return "DidKey"
}

func coqKref(style string, k *env.Key) string {
	switch style {
	case "diddoc":
		return fmt.Sprintf("(KDoc %d true)", k.Name)
	case "pdoc":
		return fmt.Sprintf("(KDoc %d false)", k.Name)
	}

	return fmt.Sprintf("(KDidKey %d)", k.Name)
}

func (p *pool) coqHEnv(h HEnv, rnd int) string {
	sender := p.key(h, h.Sender)

	var rn []int
	for _, r := range p.rcpts(h) {
		rn = append(rn, r.Name)
	}

	sn := sender.Name
	if !h.auth() {
		sn = 0
	}

	return fmt.Sprintf("(mkhenv (mkcfg %s %s %s %s) %s %d %d %s (mkrnd %d %d %d))", coqPacker(h.Packer), h.kt(), h.Enc,
		coqStyle(h.Style), hx.CoqNList(p.partyKeys(sender.Owner)), h.Payload, sn, hx.CoqNList(rn), rnd, rnd+50, rnd+51)
}

// ---------- base64 helpers ----------

const b64chars = "ABCDEFGHIJKLMNOPQRSTUVWXYZabcdefghijklmnopqrstuvwxyz0123456789-_"

// lowBitFirst swaps which positions get the single-low-bit replacement (second pass of the thorough tier)
var lowBitFirst bool

// flipIndex is the character position Mut.Pos stands for: 0 first, 1 middle, 2 last non-padding, >= 10 absolute
// (modulo the length).
func flipIndex(s string, pos int) (int, bool) {
	if len(s) == 0 {
		return 0, false
	}

	i := 0

	switch {
	case pos == 1:
		i = len(s) / 2
	case pos == 2:
		i = len(s) - 1
		for i > 0 && s[i] == '=' {
			i--
		}
	case pos >= 10: // absolute position (modulo the length)
		i = (pos - 10) % len(s)
	}

	return i, true
}

// editChars: replacement / inserted characters of the alteration kinds beyond "another alphabet symbol": characters the
// decoder skips (CR, LF), the padding character, symbols of the standard (non-URL) alphabet, the compact separator,
// white space.
var editChars = map[string]byte{"r-nl": '\n', "r-cr": '\r', "r-pad": '=', "r-plus": '+', "r-slash": '/', "r-dot": '.',
	"r-space": ' ', "i-nl": '\n', "i-cr": '\r', "i-sym": 'Q', "i-pad": '=', "i-dot": '.'}

// editString performs the single-character alteration m on s: returns the altered string, the position and the edit
// as a Gallina term of coq/C02/Text.v.
func editString(s string, m Mut) (string, int, string, bool) {
	i, ok := flipIndex(s, m.Pos)
	if !ok {
		return s, 0, "", false
	}

	switch {
	case m.Arg == "del":
		return s[:i] + s[i+1:], i, "EDelete", true
	case strings.HasPrefix(m.Arg, "i-"):
		ch := editChars[m.Arg]
		return s[:i] + string(ch) + s[i:], i, fmt.Sprintf("(EInsert %d)", ch), true
	case strings.HasPrefix(m.Arg, "r-"):
		ch := editChars[m.Arg]
		if s[i] == ch {
			return s, 0, "", false
		}

		return s[:i] + string(ch) + s[i+1:], i, fmt.Sprintf("(EReplace %d)", ch), true
	}

	if s[i] == '=' {
		return s, 0, "", false
	}

	c := strings.IndexByte(b64chars, s[i])
	if c < 0 {
		return s, 0, "", false
	}

	// at the last position choose a neighbour that differs in the low bits only (exercises the lenient decoder),
	// elsewhere any other symbol
	n := b64chars[(c+1)%64]
	if m.Pos == 2 || (m.Pos >= 10 && m.Pos%2 == 1) != lowBitFirst {
		n = b64chars[c^1] // single low bit
	}

	return s[:i] + string(n) + s[i+1:], i, fmt.Sprintf("(EReplace %d)", n), true
}

// alter performs the case's single-character alteration on a base64 member of the first envelope and records it for
// the model: (mkalt legacy member <characters of the original member> edit position junk-id).  What the alteration
// means (same bytes / other bytes / undecodable) is decided by the model, not here.
func (p *pool) alter(c Case, legacy bool, member, old string) (string, bool) {
	nv, i, ed, ok := editString(old, c.Mut)
	if !ok {
		return old, false
	}

	chars := make([]int, len(old))
	for j := range old {
		chars[j] = int(old[j])
	}

	p.alt = fmt.Sprintf("(Some (%v, %s, %s))", legacy, member, hx.CoqNList(chars))
	p.altItem = fmt.Sprintf("%s %d%%nat %d", ed, i, 500+c.Mut.Idx*10000+c.Mut.Pos)

	return nv, true
}

// ---------- one case ----------

type result struct {
	Attempts string `json:"-"`
	env.Unpacked
	PayloadID int `json:"payload_id"` // id of the payload obtained, -1 = none of the known ones
}

func (p *pool) unpack(c Case, h HEnv, b []byte) result {
	party := p.w.Parties[c.Party]
	party.Rec.Unwraps = nil

	u := env.Fence(func() env.Unpacked {
		if c.Via == "packager" {
			pk, err := party.Packager(h.Enc)
			if err != nil {
				return env.Unpacked{Out: "err", Err: err.Error()}
			}

			return p.w.Project(pk.UnpackMessage(b))
		}

		kind := h.Packer
		if c.Via == "leganon" {
			kind = "leg-anon"
		} else if c.Via == "auth" {
			kind = "jwe-auth"
		} else if c.Via == "anon" {
			kind = "jwe-anon"
		}

		pp, err := party.Packer(kind, h.Enc)
		if err != nil {
			return env.Unpacked{Out: "err", Err: err.Error()}
		}

		return p.w.Project(pp.Unpack(b))
	})

	r := result{Unpacked: u, PayloadID: -1, Attempts: "None"}
	// the UnwrapKey calls are compared with the model only where the symbolic description of the envelope is exact:
	// a changed protected STRING is described as "another serialization variant" whatever it decodes to (enough for the
	// outcome, not for the stage at which the real code gives up)
	coarse := c.Mut.Kind == "prot" || c.Mut.Kind == "truncate" || (c.Mut.Kind == "flip" && c.Mut.Field == "protected")
	if !h.legacy() && u.Out != "panic" && !coarse {
		r.Attempts = party.Rec.CoqAttempts()
	}

	if u.Out == "ok" {
		for _, id := range []int{c.H1.Payload, c.H2.Payload, forged} {
			if bytes.Equal(u.Message, payloadBytes(id)) {
				r.PayloadID = id
			}
		}
	}

	return r
}

func (p *pool) run(kind string, c Case, tr *hx.Trace) {
	rec := &hx.Record{Kind: kind, Case: c, Oracle: "ok"}
	fail := func(sig, detail string) {
		if rec.Oracle == "ok" {
			rec.Oracle, rec.Sig, rec.Detail = "fail", sig, detail
		}
	}

	var e1, e2 []byte

	var err1, err2 error

	if hk := fmt.Sprintf("%+v|%+v", c.H1, c.H2); c.Mut.Kind == "flip" && p.hkey == hk {
		e1, e2 = p.he1, p.he2
	} else {
		e1, err1 = p.pack(c.H1)
		e2, err2 = p.pack(c.H2)
		p.hkey, p.he1, p.he2 = hk, e1, e2
	}

	if err1 != nil || err2 != nil {
		// the generator only asks for configurations that pack on the unchanged tree
		rec.Oracle, rec.Sig, rec.Detail = "fail", "honest-pack-failed:"+c.H1.Packer, fmt.Sprint(err1, " / ", err2)
		rec.Class = "pack-failed"
		p.flush(tr)
		tr.Put(rec)

		return
	}

	lowBitFirst = c.Mut.Kind == "flip" && c.Mut.Arg == "alt"
	p.ownSender = 0
	p.alt = "None"
	p.cv = false
	mutated, coqE, own, err := p.mutate(c, e1, e2)
	lowBitFirst = false

	if err != nil {
		if c.Mut.Kind == "flip" && c.Mut.Pos >= 10 {
			return // a padding position
		}

		fmt.Fprintf(os.Stderr, "c02: mutation %+v not applicable: %v\n", c.Mut, err)
		os.Exit(2)
	}

	r := p.unpack(c, c.H1, mutated)

	// ---- direct oracle: accepted => exactly one of the honest triples (or the adversary's own, unattributed, envelope)
	if r.Out == "ok" {
		match := false

		for _, h := range []HEnv{c.H1, c.H2} {
			if r.PayloadID != h.Payload {
				continue
			}

			wantFrom := 0
			if h.auth() && coqPacker(h.Packer) == coqPacker(c.H1.Packer) {
				wantFrom = p.key(h, h.Sender).Name
			}

			if r.From != wantFrom {
				continue
			}

			isRcpt := false

			for _, k := range p.rcpts(h) {
				if k.Name == r.To && k.Owner == c.Party {
					isRcpt = true
				}
			}

			if isRcpt {
				match = true
				break
			}

			// payload and sender right, recipient key wrong
			fail("tokey-is-another-own-key:"+c.H1.Packer, fmt.Sprintf("mutation %+v: unpack reports ToKey %d, not a recipient key of the envelope", c.Mut, r.To))

			match = true
		}

		if !match && own && r.PayloadID == forged && (r.From == 0 || r.From == p.ownSender) {
			// the adversary's own envelope: attributed to nobody, or to the key whose private part it really used
			match = true
		}

		if !match {
			sig := "accepted-as-something-else:" + c.Mut.Kind + ":" + c.H1.Packer

			switch {
			case c.Mut.Kind == "es-forge" && r.From != 0:
				sig = "sender-forged-es-downgrade"
			case c.Mut.Kind == "pu-forge" && r.From != 0:
				sig = "sender-forged-1pu-foreign-static-key"
			case (c.Mut.Kind == "build" || c.Mut.Kind == "lbuild" || c.Mut.Kind == "pu-build") && r.From != 0:
				// the sender's private key took no part in this envelope (the harness built it from an outsider's keys)
				sig = "sender-attributed-without-sender-key"
			case c.Mut.Kind == "coreenc" && c.H1.Packer == "leg-auth":
				sig = "legacy-authcrypt-corecipient-forgery"
			}

			fail(sig, fmt.Sprintf("mutation %+v: unpack accepted payload id %d from key %d to key %d (honest: payload %d from %d / payload %d from %d)",
				c.Mut, r.PayloadID, r.From, r.To, c.H1.Payload, p.key(c.H1, c.H1.Sender).Name, c.H2.Payload, p.key(c.H2, c.H2.Sender).Name))
		}
	}

	cu := "URej"
	if r.Out == "ok" {
		pid, from, to := r.PayloadID, r.From, r.To
		if pid < 0 {
			pid = 999999
		}

		if from < 0 {
			from = 999999
		}

		if to < 0 {
			to = 999999
		}

		cu = fmt.Sprintf("(UOk %d %d %d)", pid, from, to)
	}

	up := "None"

	switch c.Via {
	case "packager":
	case "auth":
		up = "(Some JweAuth)"
	case "anon":
		up = "(Some JweAnon)"
	case "leganon":
		up = "(Some LegAnon)"
	default:
		up = "(Some " + coqPacker(c.H1.Packer) + ")"
	}

	rec.Observed = r
	rec.Class = fmt.Sprintf("%s/%s/%s/n=%d/%s/%s/%d/%d/%s/p%d/%s", c.H1.Packer, c.H1.kt(), c.H1.Enc, len(c.H1.Rcpts), c.Mut.Kind,
		c.Mut.Field, c.Mut.Idx, c.Mut.Pos, c.Mut.Arg, c.Party, r.Out)
	rec.Trivial = c.Mut.Kind == "none"
	rec.Dist = []string{"packer=" + c.H1.Packer, "kt=" + c.H1.kt(), "enc=" + c.H1.Enc, fmt.Sprintf("n=%d", len(c.H1.Rcpts)),
		"mut=" + c.Mut.Kind, "field=" + c.Mut.Kind + "/" + c.Mut.Field, "out=" + r.Out, "via=" + c.Via}

	if r.Out == "panic" {
		rec.Dist = append(rec.Dist, "panic:"+c.Mut.Kind+"/"+c.Mut.Field+"/"+c.Mut.Arg)
	}

	if p.alt != "None" {
		// one alteration of a base64 member: joins the group of its member (same pair, victim, route)
		key := fmt.Sprintf("%+v|%+v|%s|%d|%d|%s", c.H1, c.H2, c.Mut.Field, c.Mut.Idx, c.Party, c.Via)
		if p.grp != nil && p.grp.key != key {
			p.flush(tr)
		}

		if p.grp == nil {
			p.grp = &group{key: key, head: fmt.Sprintf("{| c_h1 := %s; c_h2 := %s; c_E := (fun w1 w2 => w1); c_alt := %s; c_alts := @@ALTS@@; c_up := %s; c_cv := false; c_party := %s; c_att := None; c_obs := URej |}",
				p.coqHEnv(c.H1, 100000), p.coqHEnv(c.H2, 100100), p.alt, up, hx.CoqNList(p.partyKeys(c.Party)))}
		} else {
			tr.Put(p.grp.last) // earlier members of the group: direct oracle only, the group's case covers them
		}

		p.grp.items = append(p.grp.items, fmt.Sprintf("mkao %s %s %s", p.altItem, r.Attempts, cu))
		p.grp.last = rec

		return
	}

	p.flush(tr)

	rec.Coq = fmt.Sprintf("{| c_h1 := %s; c_h2 := %s; c_E := (fun w1 w2 => %s); c_alt := None; c_alts := []; c_up := %s; c_cv := %v; c_party := %s; c_att := %s; c_obs := %s |}",
		p.coqHEnv(c.H1, 100000), p.coqHEnv(c.H2, 100100), coqE, up, p.cv, hx.CoqNList(p.partyKeys(c.Party)), r.Attempts, cu)
	tr.Put(rec)
}

// ---------- mutations ----------

func junk(c Case) string { return fmt.Sprintf("(Junk %d)", 500+c.Mut.Idx*10000+c.Mut.Pos) }

// mutate returns the adversarial envelope, its symbolic description (body of fun w1 w2 => ...), and whether it is the
// adversary's own construction (not derived from an honest envelope).
func (p *pool) mutate(c Case, e1, e2 []byte) ([]byte, string, bool, error) {
	if c.Mut.Kind == "none" {
		return e1, "w1", false, nil
	}

	if c.Mut.Kind == "whole-e2" {
		return e2, "w2", false, nil
	}

	if c.Mut.Kind == "truncate" {
		n := len(e1) * c.Mut.Pos / 1000
		if n >= len(e1) {
			n = len(e1) - 1
		}

		return e1[:n], "WBad", false, nil
	}

	if c.H1.legacy() {
		return p.mutateLegacy(c, e1, e2)
	}

	return p.mutateJWE(c, e1, e2)
}

func recsCoq(items []string) string { return "[" + strings.Join(items, "; ") + "]" }

func (p *pool) mutateJWE(c Case, e1, e2 []byte) ([]byte, string, bool, error) {
	r1, err := env.ParseRawJWE(e1)
	if err != nil {
		return nil, "", false, err
	}

	r2, err := env.ParseRawJWE(e2)
	if err != nil {
		return nil, "", false, err
	}

	m := c.Mut
	n := len(r1.Recipients)
	out := r1.Clone()
	h := c.H1
	victim2 := p.keys[h.kt()][c.Party][1] // the victim party's second key (slot 1)

	// all entries of w1 as Coq terms
	entries := func() []string {
		var l []string
		for i := 0; i < n; i++ {
			l = append(l, fmt.Sprintf("R w1 %d", i))
		}

		return l
	}

	switch m.Kind {
	case "flip":
		switch m.Field {
		case "protected":
			nv, ok := p.alter(c, false, "MProt", r1.Protected)
			if !ok {
				return nil, "", false, fmt.Errorf("cannot flip")
			}

			out.Protected = nv

			return out.Bytes(), "w1", false, nil
		case "iv", "ciphertext", "tag":
			old := map[string]*string{"iv": &out.IV, "ciphertext": &out.Ciphertext, "tag": &out.Tag}[m.Field]
			if *old == "" {
				// an empty field (empty payload): insert a symbol instead
				*old = "AA"
				set := map[string]string{"iv": "set_iv", "ciphertext": "set_ct", "tag": "set_tag"}[m.Field]

				return out.Bytes(), fmt.Sprintf("WJwe (%s %s (J w1))", set, junk(c)), false, nil
			}

			nv, ok := p.alter(c, false, map[string]string{"iv": "MIv", "ciphertext": "MCt", "tag": "MTag"}[m.Field], *old)
			if !ok {
				return nil, "", false, fmt.Errorf("cannot flip")
			}

			*old = nv

			return out.Bytes(), "w1", false, nil
		case "ek":
			nv, ok := p.alter(c, false, fmt.Sprintf("(MEk %d%%nat)", m.Idx), r1.Recipients[m.Idx].EncryptedKey)
			if !ok {
				return nil, "", false, fmt.Errorf("cannot flip")
			}

			out.Recipients[m.Idx].EncryptedKey = nv

			return out.Bytes(), "w1", false, nil
		case "aad":
			out.AAD = "QUJD"
			if out.Compact {
				return nil, "", false, fmt.Errorf("no aad member in compact form")
			}

			return out.Bytes(), "WJwe (set_aad (Junk 3) (J w1))", false, nil
		}
	case "splice":
		switch m.Field {
		case "protected":
			out.Protected = r2.Protected
			return out.Bytes(), "WJwe (set_prot (j_prot (J w2)) (J w1))", false, nil
		case "iv":
			out.IV = r2.IV
			return out.Bytes(), "WJwe (set_iv (j_iv (J w2)) (J w1))", false, nil
		case "ciphertext":
			out.Ciphertext = r2.Ciphertext
			return out.Bytes(), "WJwe (set_ct (j_ct (J w2)) (J w1))", false, nil
		case "tag":
			out.Tag = r2.Tag
			return out.Bytes(), "WJwe (set_tag (j_tag (J w2)) (J w1))", false, nil
		case "ct+tag":
			out.Ciphertext, out.Tag, out.IV = r2.Ciphertext, r2.Tag, r2.IV
			return out.Bytes(), "WJwe (set_iv (j_iv (J w2)) (set_tag (j_tag (J w2)) (set_ct (j_ct (J w2)) (J w1))))", false, nil
		case "recipients":
			out.Recipients = r2.Clone().Recipients
			return out.Bytes(), "WJwe (set_recs (j_recs (J w2)) (J w1))", false, nil
		case "body": // everything but the recipients from e2
			o2 := r2.Clone()
			o2.Recipients = r1.Clone().Recipients

			return o2.Bytes(), "WJwe (set_recs (j_recs (J w1)) (J w2))", false, nil
		case "ek":
			out.Recipients[m.Idx].EncryptedKey = r2.Recipients[m.Idx].EncryptedKey
			l := entries()
			l[m.Idx] = fmt.Sprintf("mkrcp (r_hdr (R w1 %d)) (r_ek (R w2 %d))", m.Idx, m.Idx)

			return out.Bytes(), fmt.Sprintf("WJwe (set_recs %s (J w1))", recsCoq(l)), false, nil
		}
	case "hdr": // per-recipient header edits (JSON serialization, several recipients)
		if n < 2 {
			return nil, "", false, fmt.Errorf("hdr needs several recipients")
		}

		hm := map[string]interface{}{}
		if err := json.Unmarshal(r1.Recipients[m.Idx].Header, &hm); err != nil {
			return nil, "", false, err
		}

		other := (m.Idx + 1) % n
		om := map[string]interface{}{}
		_ = json.Unmarshal(r1.Recipients[other].Header, &om)

		upd := ""
		whole := ""

		switch m.Arg {
		case "kid-delete":
			delete(hm, "kid")
			upd = "rh_set_kid None"
		case "kid-null":
			hm["kid"] = nil
			upd = "rh_set_kid None"
		case "kid-number":
			hm["kid"] = 7
			whole = "WBad"
		case "kid-other":
			hm["kid"] = om["kid"]
			upd = fmt.Sprintf("rh_set_kid (rh_kid (RH w1 %d))", other)
		case "kid-own2":
			hm["kid"] = victim2.Ref(h.Style)
			upd = "rh_set_kid (Some " + coqKref(h.Style, victim2) + ")"
		case "kid-bad":
			hm["kid"] = "garbage"
			upd = "rh_set_kid (Some (KBad 1))"
		case "kid-unres":
			hm["kid"] = "did:example:nobody#key-1"
			upd = "rh_set_kid (Some (KUnres 1))"
		case "alg-delete":
			delete(hm, "alg")
			upd = "rh_set_alg None"
		case "alg-other":
			if hm["alg"] == "ECDH-ES+A256KW" {
				hm["alg"] = "ECDH-ES+XC20PKW"
				upd = "rh_set_alg (Some ES_XC20PKW)"
			} else {
				hm["alg"] = "ECDH-ES+A256KW"
				upd = "rh_set_alg (Some ES_A256KW)"
			}
		case "alg-1pu":
			hm["alg"] = "ECDH-1PU+A256KW"
			upd = "rh_set_alg (Some PU_A256KW)"
		case "epk-delete":
			delete(hm, "epk")
			upd = "rh_set_epk None"
		case "epk-other":
			hm["epk"] = om["epk"]
			upd = fmt.Sprintf("rh_set_epk (rh_epk (RH w1 %d))", other)
		case "apu-delete":
			delete(hm, "apu")
			upd = "rh_set_apu None"
		case "apu-bad":
			hm["apu"] = "!!not base64!!"
			upd = "rh_set_apu (Some (Junk 4))"
		case "apu-other":
			hm["apu"] = om["apu"]
			upd = fmt.Sprintf("rh_set_apu (rh_apu (RH w1 %d))", other)
		case "hdr-null":
			out.Recipients[m.Idx].Header = nil
			l := entries()
			l[m.Idx] = fmt.Sprintf("mkrcp None (r_ek (R w1 %d))", m.Idx)

			return out.Bytes(), fmt.Sprintf("WJwe (set_recs %s (J w1))", recsCoq(l)), false, nil
		default:
			return nil, "", false, fmt.Errorf("unknown hdr edit %s", m.Arg)
		}

		if _, has := om[strings.SplitN(m.Arg, "-", 2)[0]]; !has && strings.HasSuffix(m.Arg, "-other") {
			return nil, "", false, fmt.Errorf("header member absent")
		}

		hb, _ := json.Marshal(hm)
		out.Recipients[m.Idx].Header = hb

		if whole != "" {
			return out.Bytes(), whole, false, nil
		}

		l := entries()
		l[m.Idx] = fmt.Sprintf("mkrcp (Some (%s (RH w1 %d))) (r_ek (R w1 %d))", upd, m.Idx, m.Idx)

		return out.Bytes(), fmt.Sprintf("WJwe (set_recs %s (J w1))", recsCoq(l)), false, nil
	case "recs": // structural edits of the recipients array
		if n < 2 {
			return nil, "", false, fmt.Errorf("recs needs several recipients")
		}

		l := entries()

		switch m.Arg {
		case "rotate":
			out.Recipients = append(append([]env.RawRec{}, r1.Recipients[1:]...), r1.Recipients[0])
			l = append(append([]string{}, l[1:]...), l[0])
		case "drop":
			if n == 2 {
				// one recipient left in the JSON form: the packers then read kid/epk from the protected header
				out.Recipients = []env.RawRec{r1.Recipients[1-m.Idx]}
				l = []string{l[1-m.Idx]}
			} else {
				out.Recipients = append(append([]env.RawRec{}, r1.Recipients[:m.Idx]...), r1.Recipients[m.Idx+1:]...)
				l = append(append([]string{}, l[:m.Idx]...), l[m.Idx+1:]...)
			}
		case "dup":
			out.Recipients = append(append([]env.RawRec{}, r1.Recipients...), r1.Recipients[m.Idx])
			l = append(l, l[m.Idx])
		case "insert-own2":
			// an entry naming ANOTHER key of the victim, with a well-formed header and a junk key, in front
			hm := map[string]interface{}{}
			_ = json.Unmarshal(r1.Recipients[0].Header, &hm)
			hm["kid"] = victim2.Ref(h.Style)
			hb, _ := json.Marshal(hm)
			out.Recipients = append([]env.RawRec{{Header: hb, EncryptedKey: "AAAAAAAAAAAAAAAAAAAAAAAAAAAAAAAAAAAAAAAAAAAAAAAAAAAAAAAAAAAAAAAAAAAAAAAA"}}, r1.Recipients...)
			l = append([]string{fmt.Sprintf("mkrcp (Some (rh_set_kid (Some %s) (RH w1 0))) (Junk 9)", coqKref(h.Style, victim2))}, l...)
		default:
			return nil, "", false, fmt.Errorf("unknown recs edit")
		}

		return out.Bytes(), fmt.Sprintf("WJwe (set_recs %s (J w1))", recsCoq(l)), false, nil
	case "prot": // re-serialization of the protected header with different values
		pm := r1.ProtectedMap()
		if pm == nil {
			return nil, "", false, fmt.Errorf("protected does not parse")
		}

		other := p.keys[h.kt()][5][0] // somebody else's key (party 5)
		upd := ""

		switch m.Arg {
		case "same": // decode and re-encode: identical bytes expected (sorted members)
			out.SetProtectedMap(pm)
			if out.Protected != r1.Protected {
				// same members and values, other member order (epk): another authenticated string
				return out.Bytes(), "WJwe (set_prot (Some (p_set_var 6 (P w1))) (J w1))", false, nil
			}

			return out.Bytes(), "w1", false, nil
		case "skid-other":
			pm["skid"] = other.Ref(h.Style)
			upd = "p_set_skid (Some " + coqKref(h.Style, other) + ")"
		case "skid-delete":
			delete(pm, "skid")
			upd = "p_set_skid None"
		case "skid-add":
			pm["skid"] = other.Ref(h.Style)
			upd = "p_set_skid (Some " + coqKref(h.Style, other) + ")"
		case "alg-es":
			pm["alg"] = "ECDH-ES+A256KW"
			upd = "p_set_alg (Some ES_A256KW)"
		case "alg-delete":
			delete(pm, "alg")
			upd = "p_set_alg None"
		case "enc-other":
			if pm["enc"] == "A256CBC-HS512" {
				pm["enc"] = "A128CBC-HS256"
				upd = "p_set_enc (Some A128CBC)"
			} else {
				pm["enc"] = "A256CBC-HS512"
				upd = "p_set_enc (Some A256CBC512)"
			}
		case "enc-delete":
			delete(pm, "enc")
			upd = "p_set_enc None"
		case "kid-own2":
			pm["kid"] = victim2.Ref(h.Style)
			upd = "p_set_kid (Some " + coqKref(h.Style, victim2) + ")"
		case "apu-delete":
			delete(pm, "apu")
			upd = "p_set_apu None"
		case "apv-other":
			pm["apv"] = "AAAA"
			upd = "p_set_apv (Some (Bytes 5))"
		case "epk-delete":
			delete(pm, "epk")
			upd = "p_set_epk None"
		case "typ-other":
			pm["typ"] = "application/didcomm-encrypted+json;x=1"
			upd = "p_set_var 9"
		case "space": // same members, another serialization
			b, _ := json.MarshalIndent(pm, "", " ")
			out.Protected = base64.RawURLEncoding.EncodeToString(b)

			return out.Bytes(), "WJwe (set_prot (Some (p_set_var 8 (P w1))) (J w1))", false, nil
		default:
			return nil, "", false, fmt.Errorf("unknown prot edit")
		}

		out.SetProtectedMap(pm)

		return out.Bytes(), fmt.Sprintf("WJwe (set_prot (Some (%s (P w1))) (J w1))", upd), false, nil
	case "reser":
		// the compact envelope re-serialized in the flattened / general JSON syntax: same fields, must unpack the same
		if !r1.Compact {
			return nil, "", false, fmt.Errorf("reser needs the compact form")
		}

		var b []byte

		if m.Arg == "flattened" {
			b, _ = json.Marshal(map[string]string{"protected": r1.Protected, "encrypted_key": r1.Recipients[0].EncryptedKey,
				"iv": r1.IV, "ciphertext": r1.Ciphertext, "tag": r1.Tag})
		} else {
			g := r1.Clone()
			g.Compact = false
			b = g.Bytes()
		}

		return b, "w1", false, nil
	case "unprot":
		// a shared unprotected header (JSON serialization): nothing in it is authenticated and the packers must not
		// take anything from it
		if out.Compact {
			return nil, "", false, fmt.Errorf("no unprotected member in compact form")
		}

		other := p.keys[h.kt()][5][0]
		um := map[string]interface{}{}

		switch m.Arg {
		case "skid":
			um["skid"] = other.Ref(h.Style)
		case "kid":
			um["kid"] = victim2.Ref(h.Style)
		case "alg-enc":
			um["alg"], um["enc"] = "ECDH-ES+A256KW", "A256GCM"
		default:
			um["x"] = 1
		}

		out.Unprotected, _ = json.Marshal(um)

		return out.Bytes(), "w1", false, nil
	case "es-forge":
		// an outsider (party 5) uses the public API: NewJWEEncrypt with a sender KEY ID but no sender key
		return p.esForge(c)
	case "build":
		// an envelope BUILT by an outsider (party 5) from scratch with the public crypto API
		return p.buildAdv(c)
	case "pu-build":
		// a hand-built ECDH-1PU envelope: the outsider uses ITS OWN static key; skid and apu name whom it likes
		return p.puBuild(c)
	case "pu-forge":
		// an outsider (party 5) uses the public API with ITS OWN static key but names the honest sender in skid
		return p.puForge(c)
	case "coreenc":
		// a co-recipient (owner of recipient 1) obtains the content key and re-encrypts another payload
		return p.coReencJWE(c, r1)
	}

	return nil, "", false, fmt.Errorf("unknown mutation %+v", m)
}

func (p *pool) esForge(c Case) ([]byte, string, bool, error) {
	h := c.H1
	mal := p.w.Parties[5]
	claimed := p.key(h, h.Sender)

	var recs []*cryptoapi.PublicKey

	var rn []int

	for _, k := range p.rcpts(h) {
		pk := *k.Pub
		pk.KID = k.Ref(h.Style)
		recs = append(recs, &pk)
		rn = append(rn, k.Name)
	}

	skid, skidCoq := "", "None"
	if c.Mut.Arg == "skid" {
		skid, skidCoq = claimed.Ref(h.Style), "(Some "+coqKref(h.Style, claimed)+")"
	}

	je, err := jose.NewJWEEncrypt(env.EncAlg(h.Enc), transport.MediaTypeV2EncryptedEnvelope, transport.MediaTypeV2PlaintextPayload,
		skid, nil, recs, mal.Crypto)
	if err != nil {
		return nil, "", false, err
	}

	j, err := je.Encrypt(payloadBytes(forged))
	if err != nil {
		return nil, "", false, err
	}

	var s string
	if len(recs) == 1 {
		s, err = j.CompactSerialize(json.Marshal)
	} else {
		s, err = j.FullSerialize(json.Marshal)
	}

	if err != nil {
		return nil, "", false, err
	}

	coq := fmt.Sprintf("WJwe (adv_es_jwe (mkcfg JweAnon %s %s %s) %s %d %s (mkrnd 200000 200050 200051))", h.kt(), h.Enc,
		coqStyle(h.Style), skidCoq, forged, hx.CoqNList(rn))

	return []byte(s), coq, true, nil
}

// ---------- envelope construction grammar (adversary-built envelopes) ----------

// advSpec says how the outsider assembles the envelope.  The content key is always REALLY wrapped with ECDH-ES for
// every recipient (the outsider holds no honest sender key); everything else is free.
type advSpec struct {
	N       int    // recipients (the victim's key at Pos, the others are keys of other parties: decoys)
	Pos     int    // position of the victim's entry
	Skid    string // prot | unprot | none : where the claimed sender's key id goes
	Apu     string // std (what WrapKey derives) | skid (the claimed sender's key id as apu, in wrap and header)
	ApuProt bool   // several recipients: additionally apu = base64url(claimed sender's key id) in the protected header
	VLabel  string // alg label of the victim's entry: es | 1pu
	DLabel  string // alg label of the decoy entries: es | 1pu
	AlgProt string // several recipients: shared alg in the protected header: none | es | 1pu
	Ser     string // compact | flattened | general (one recipient); general otherwise
	// CV: one header member whose NAME is spelled in another letter case: "<member>:<upper|title>", member = a protected
	// member (skid, alg, kid, epk, apu, enc, typ) or "r-<name>" for a per-recipient header member (kid, alg, epk, apu)
	CV string
}

func (a advSpec) String() string {
	s := fmt.Sprintf("n=%d;pos=%d;skid=%s;apu=%s;apuprot=%v;vl=%s;dl=%s;algp=%s;ser=%s", a.N, a.Pos, a.Skid, a.Apu, a.ApuProt,
		a.VLabel, a.DLabel, a.AlgProt, a.Ser)
	if a.CV != "" {
		s += ";cv=" + a.CV
	}

	return s
}

func parseAdvSpec(s string) advSpec {
	var a advSpec

	for _, kv := range strings.Split(s, ";") {
		p := strings.SplitN(kv, "=", 2)
		if len(p) != 2 {
			continue
		}

		switch p[0] {
		case "n":
			a.N, _ = strconv.Atoi(p[1])
		case "pos":
			a.Pos, _ = strconv.Atoi(p[1])
		case "skid":
			a.Skid = p[1]
		case "apu":
			a.Apu = p[1]
		case "apuprot":
			a.ApuProt = p[1] == "true"
		case "vl":
			a.VLabel = p[1]
		case "dl":
			a.DLabel = p[1]
		case "algp":
			a.AlgProt = p[1]
		case "ser":
			a.Ser = p[1]
		case "cv":
			a.CV = p[1]
		}
	}

	return a
}

// respell gives a member name another letter case.
func respell(name, how string) string {
	if how == "title" {
		return strings.ToUpper(name[:1]) + name[1:]
	}

	return strings.ToUpper(name)
}

// renameMember spells the member's name differently (nothing happens if the member is absent).
func renameMember(m map[string]interface{}, name, how string) bool {
	v, ok := m[name]
	if !ok {
		return false
	}

	delete(m, name)
	m[respell(name, how)] = v

	return true
}

func epkJWK(pk *cryptoapi.PublicKey) (json.RawMessage, error) {
	var key interface{}

	switch pk.Type {
	case "EC":
		c, err := hybrid.GetCurve(pk.Curve)
		if err != nil {
			return nil, err
		}

		key = &ecdsa.PublicKey{Curve: c, X: new(big.Int).SetBytes(pk.X), Y: new(big.Int).SetBytes(pk.Y)}
	default:
		key = pk.X
	}

	j := jwk.JWK{JSONWebKey: gojose.JSONWebKey{Key: key}, Kty: pk.Type, Crv: pk.Curve}

	return j.MarshalJSON()
}

func cekSize(enc string) int {
	switch enc {
	case "A192CBC":
		return 48
	case "A256CBC384":
		return 56
	case "A256CBC512":
		return 64
	}

	return 32
}

func (p *pool) buildAdv(c Case) ([]byte, string, bool, error) {
	h := c.H1
	a := parseAdvSpec(c.Mut.Arg)
	mal := p.w.Parties[5]
	claimed := p.key(h, h.Sender)
	victim := p.keys[h.kt()][c.Party][0]
	b64 := base64.RawURLEncoding.EncodeToString

	esReal, esCoq := "ECDH-ES+A256KW", "ES_A256KW"
	puLabel, puCoq := "ECDH-1PU+A256KW", "PU_A256KW"

	if h.kt() == env.X25519 {
		esReal, esCoq = "ECDH-ES+XC20PKW", "ES_XC20PKW"
		puLabel, puCoq = "ECDH-1PU+XC20PKW", "PU_XC20PKW"
	}

	label := func(l string) (string, string) {
		if l == "1pu" {
			return puLabel, "(Some " + puCoq + ")"
		}

		return esReal, "(Some " + esCoq + ")"
	}

	// recipients: decoys are keys of parties 2,3,4 (never the victim's party)
	var rks []*env.Key

	d := 0

	for i := 0; i < a.N; i++ {
		if i == a.Pos {
			rks = append(rks, victim)
			continue
		}

		pa := 2 + d%3
		if pa == c.Party {
			pa = 2 + (d+1)%3
		}

		rks = append(rks, p.keys[h.kt()][pa][d/3%nSlots])
		d++
	}

	cvMember, cvHow := "", ""
	if i := strings.Index(a.CV, ":"); i > 0 {
		cvMember, cvHow = a.CV[:i], a.CV[i+1:]
	}

	cek := make([]byte, cekSize(h.Enc))
	_, _ = rand.Read(cek)

	skidStr := claimed.Ref(h.Style)
	skidCoq := coqKref(h.Style, claimed)
	cekCoq := "(cek_of (mkrnd 200000 200050 200051))"

	prot := map[string]interface{}{"enc": string(env.EncAlg(h.Enc)), "typ": transport.MediaTypeV2EncryptedEnvelope,
		"cty": transport.MediaTypeV2PlaintextPayload}
	// Coq: enc skid alg kid epk apu apv
	pSkid, pAlg, pKid, pEpk, pApu := "None", "None", "None", "None", "None"

	if a.Skid == "prot" {
		prot["skid"] = skidStr
		pSkid = "(Some " + skidCoq + ")"
	}

	var (
		recs    []env.RawRec
		recsCoq []string
	)

	for i, rk := range rks {
		pk := *rk.Pub
		pk.KID = rk.Ref(h.Style)

		var apuIn []byte
		if a.Apu == "skid" {
			apuIn = []byte(skidStr)
		}

		var opts []cryptoapi.WrapKeyOpts
		if h.kt() == env.X25519 {
			opts = append(opts, cryptoapi.WithXC20PKW())
		}

		wk, err := mal.Crypto.WrapKey(cek, apuIn, nil, &pk, opts...)
		if err != nil {
			return nil, "", false, err
		}

		epk, err := epkJWK(&wk.EPK)
		if err != nil {
			return nil, "", false, err
		}

		e := 200000 + i
		apuTerm := fmt.Sprintf("(apu_es (Pub %d))", e)

		if a.Apu == "skid" {
			apuTerm = "(t_kref " + skidCoq + ")"
		}

		lab := a.DLabel
		if i == a.Pos {
			lab = a.VLabel
		}

		algStr, algCoq := label(lab)
		ekCoq := fmt.Sprintf("(Wrap (kek_es %s (dh %d %d) %s (Tup [])) %s)", esCoq, e, rk.Name, apuTerm, cekCoq)
		kidCoq := "(Some " + coqKref(h.Style, rk) + ")"

		if a.N == 1 {
			// one recipient: the packers read kid, alg, epk, apu from the protected header
			prot["kid"], prot["alg"], prot["epk"], prot["apu"] = pk.KID, algStr, json.RawMessage(epk), b64(wk.APU)
			pKid, pAlg, pEpk, pApu = kidCoq, algCoq, fmt.Sprintf("(Some (Pub %d))", e), "(Some "+apuTerm+")"
			recs = append(recs, env.RawRec{EncryptedKey: b64(wk.EncryptedCEK)})
			recsCoq = append(recsCoq, "mkrcp None "+ekCoq)

			continue
		}

		hm := map[string]interface{}{"kid": pk.KID, "alg": algStr, "epk": json.RawMessage(epk), "apu": b64(wk.APU)}
		if strings.HasPrefix(cvMember, "r-") {
			// per-recipient headers are decoded into a struct by encoding/json: the name's letter case does not matter
			renameMember(hm, cvMember[2:], cvHow)
		}

		hb, _ := json.Marshal(hm)
		recs = append(recs, env.RawRec{Header: hb, EncryptedKey: b64(wk.EncryptedCEK)})
		recsCoq = append(recsCoq, fmt.Sprintf("mkrcp (Some (mkrhdr %s %s (Some (Pub %d)) (Some %s) None)) %s", kidCoq, algCoq, e, apuTerm, ekCoq))
	}

	if a.N > 1 {
		if a.AlgProt != "none" {
			algStr, algCoq := label(a.AlgProt)
			prot["alg"], pAlg = algStr, algCoq
		}

		if a.ApuProt {
			prot["apu"] = b64([]byte(skidStr))
			pApu = "(Some (t_kref " + skidCoq + "))"
		}
	}

	// a protected member spelled in another letter case: the header MAP of jose has no such member
	pEnc := "(Some " + h.Enc + ")"

	if cvMember != "" && !strings.HasPrefix(cvMember, "r-") && renameMember(prot, cvMember, cvHow) {
		switch cvMember {
		case "skid":
			pSkid = "None"
			p.cv = true
		case "alg":
			pAlg = "None"
		case "kid":
			pKid = "None"
		case "epk":
			pEpk = "None"
		case "apu":
			pApu = "None"
		case "enc":
			pEnc = "None"
		}
	}

	pb, _ := json.Marshal(prot)
	protB64 := b64(pb)

	// content encryption under the chosen key with the protected header as AAD
	kt := ecdh.KeyTemplateForECDHPrimitiveWithCEK(cek, true, aeadAlg[h.Enc])

	ekh, err := keyset.NewHandle(kt)
	if err != nil {
		return nil, "", false, err
	}

	pubKH, err := ekh.Public()
	if err != nil {
		return nil, "", false, err
	}

	prim, err := ecdh.NewECDHEncrypt(pubKH)
	if err != nil {
		return nil, "", false, err
	}

	ser, err := prim.Encrypt(payloadBytes(forged), []byte(protB64))
	if err != nil {
		return nil, "", false, err
	}

	ed := &composite.EncryptedData{}
	if err := json.Unmarshal(ser, ed); err != nil {
		return nil, "", false, err
	}

	raw := &env.RawJWE{Protected: protB64, Recipients: recs, IV: b64(ed.IV), Ciphertext: b64(ed.Ciphertext), Tag: b64(ed.Tag)}

	if a.Skid == "unprot" {
		raw.Unprotected, _ = json.Marshal(map[string]string{"skid": skidStr})
	}

	var out []byte

	switch {
	case a.N == 1 && a.Ser == "compact":
		raw.Compact = true
		out = raw.Bytes()
	case a.N == 1 && a.Ser == "flattened":
		m := map[string]interface{}{"protected": raw.Protected, "encrypted_key": recs[0].EncryptedKey, "iv": raw.IV,
			"ciphertext": raw.Ciphertext, "tag": raw.Tag}
		if raw.Unprotected != nil {
			m["unprotected"] = raw.Unprotected
		}

		out, _ = json.Marshal(m)
	default:
		out = raw.Bytes()
	}

	coq := fmt.Sprintf("WJwe (reenc_jwe %s %d (mkjwe (Some (mkphdr %s %s %s %s %s %s None 0)) %s (Tup []) (Bytes 77) (Junk 0) (Junk 0)))",
		cekCoq, forged, pEnc, pSkid, pAlg, pKid, pEpk, pApu, recsCoq2(recsCoq))

	return out, coq, true, nil
}

func recsCoq2(items []string) string { return "[" + strings.Join(items, "; ") + "]" }

// puBuild: Arg "skid=own|claimed;apu=own|claimed"
func (p *pool) puBuild(c Case) ([]byte, string, bool, error) {
	h := c.H1
	mal := p.w.Parties[5]
	malKey := p.keys[h.kt()][5][0]
	claimed := p.key(h, h.Sender)
	b64 := base64.RawURLEncoding.EncodeToString
	who := func(name string) *env.Key {
		if strings.Contains(c.Mut.Arg, name+"=own") {
			return malKey
		}

		return claimed
	}
	skidK, apuK := who("skid"), who("apu")

	var (
		recs []*cryptoapi.PublicKey
		rn   []int
		kids []string
	)

	for _, k := range p.rcpts(h) {
		pk := *k.Pub
		pk.KID = k.Ref(h.Style)
		recs = append(recs, &pk)
		rn = append(rn, k.Name)
		kids = append(kids, pk.KID)
	}

	// ephemeral key
	epk := &cryptoapi.PrivateKey{}

	if h.kt() == env.X25519 {
		d := make([]byte, 32)
		_, _ = rand.Read(d)

		x, err := curve25519.X25519(d, curve25519.Basepoint)
		if err != nil {
			return nil, "", false, err
		}

		epk.PublicKey = cryptoapi.PublicKey{Type: "OKP", Curve: "X25519", X: x}
		epk.D = d
	} else {
		cv, err := hybrid.GetCurve(recs[0].Curve)
		if err != nil {
			return nil, "", false, err
		}

		ek, err := ecdsa.GenerateKey(cv, rand.Reader)
		if err != nil {
			return nil, "", false, err
		}

		epk.PublicKey = cryptoapi.PublicKey{Type: "EC", Curve: ek.Curve.Params().Name, X: ek.X.Bytes(), Y: ek.Y.Bytes()}
		epk.D = ek.D.Bytes()
	}

	epkJSON, err := epkJWK(&epk.PublicKey)
	if err != nil {
		return nil, "", false, err
	}

	algCoq := puAlg(h.kt(), h.Enc)
	algStr := map[string]string{"PU_XC20PKW": "ECDH-1PU+XC20PKW", "PU_A128KW": "ECDH-1PU+A128KW", "PU_A192KW": "ECDH-1PU+A192KW",
		"PU_A256KW": "ECDH-1PU+A256KW"}[algCoq]

	sort.Strings(kids)
	apv := sha256.Sum256([]byte(strings.Join(kids, ".")))
	apuRef := apuK.Ref(h.Style)

	prot := map[string]interface{}{"enc": string(env.EncAlg(h.Enc)), "typ": transport.MediaTypeV2EncryptedEnvelope,
		"cty": transport.MediaTypeV2PlaintextPayload, "skid": skidK.Ref(h.Style), "alg": algStr, "epk": json.RawMessage(epkJSON),
		"apu": b64([]byte(apuRef)), "apv": b64(apv[:])}
	if len(recs) == 1 {
		prot["kid"] = recs[0].KID
	}

	pb, _ := json.Marshal(prot)
	protB64 := b64(pb)

	cek := make([]byte, cekSize(h.Enc))
	_, _ = rand.Read(cek)

	kt := ecdh.KeyTemplateForECDHPrimitiveWithCEK(cek, true, aeadAlg[h.Enc])

	ekh, err := keyset.NewHandle(kt)
	if err != nil {
		return nil, "", false, err
	}

	pubKH, err := ekh.Public()
	if err != nil {
		return nil, "", false, err
	}

	prim, err := ecdh.NewECDHEncrypt(pubKH)
	if err != nil {
		return nil, "", false, err
	}

	ser, err := prim.Encrypt(payloadBytes(forged), []byte(protB64))
	if err != nil {
		return nil, "", false, err
	}

	ed := &composite.EncryptedData{}
	if err := json.Unmarshal(ser, ed); err != nil {
		return nil, "", false, err
	}

	kh, err := mal.KMS.Get(malKey.KMSKID)
	if err != nil {
		return nil, "", false, err
	}

	raw := &env.RawJWE{Protected: protB64, IV: b64(ed.IV), Ciphertext: b64(ed.Ciphertext), Tag: b64(ed.Tag), Compact: len(recs) == 1}

	for _, pk := range recs {
		opts := []cryptoapi.WrapKeyOpts{cryptoapi.WithSender(kh), cryptoapi.WithTag(ed.Tag), cryptoapi.WithEPK(epk)}
		if h.kt() == env.X25519 {
			opts = append(opts, cryptoapi.WithXC20PKW())
		}

		wk, err := mal.Crypto.WrapKey(cek, []byte(apuRef), apv[:], pk, opts...)
		if err != nil {
			return nil, "", false, err
		}

		rr := env.RawRec{EncryptedKey: b64(wk.EncryptedCEK)}
		if len(recs) > 1 {
			rr.Header, _ = json.Marshal(map[string]string{"kid": pk.KID})
		}

		raw.Recipients = append(raw.Recipients, rr)
	}

	if skidK == malKey {
		p.ownSender = malKey.Name
	}

	coq := fmt.Sprintf("WJwe (adv_1pu_jwe2 (mkcfg JweAuth %s %s %s) %s %d %d %d %d %s (mkrnd 200000 200050 200051))", h.kt(), h.Enc,
		coqStyle(h.Style), algCoq, forged, skidK.Name, apuK.Name, malKey.Name, hx.CoqNList(rn))

	return raw.Bytes(), coq, true, nil
}

func puAlg(kt, enc string) string {
	if kt == env.X25519 {
		return "PU_XC20PKW"
	}

	switch enc {
	case "A192CBC":
		return "PU_A192KW"
	case "A256CBC512":
		return "PU_A256KW"
	}

	return "PU_A128KW"
}

func (p *pool) puForge(c Case) ([]byte, string, bool, error) {
	h := c.H1
	mal := p.w.Parties[5]
	malKey := p.keys[h.kt()][5][0]
	claimed := p.key(h, h.Sender)

	var recs []*cryptoapi.PublicKey

	var rn []int

	for _, k := range p.rcpts(h) {
		pk := *k.Pub
		pk.KID = k.Ref(h.Style)
		recs = append(recs, &pk)
		rn = append(rn, k.Name)
	}

	kh, err := mal.KMS.Get(malKey.KMSKID)
	if err != nil {
		return nil, "", false, err
	}

	je, err := jose.NewJWEEncrypt(env.EncAlg(h.Enc), transport.MediaTypeV2EncryptedEnvelope, transport.MediaTypeV2PlaintextPayload,
		claimed.Ref(h.Style), kh.(*keyset.Handle), recs, mal.Crypto)
	if err != nil {
		return nil, "", false, err
	}

	j, err := je.Encrypt(payloadBytes(forged))
	if err != nil {
		return nil, "", false, err
	}

	var s string
	if len(recs) == 1 {
		s, err = j.CompactSerialize(json.Marshal)
	} else {
		s, err = j.FullSerialize(json.Marshal)
	}

	if err != nil {
		return nil, "", false, err
	}

	coq := fmt.Sprintf("WJwe (adv_1pu_jwe (mkcfg JweAuth %s %s %s) %s %d %d %d %s (mkrnd 200000 200050 200051))", h.kt(), h.Enc,
		coqStyle(h.Style), puAlg(h.kt(), h.Enc), forged, claimed.Name, malKey.Name, hx.CoqNList(rn))

	return []byte(s), coq, true, nil
}

var aeadAlg = map[string]ecdh.AEADAlg{
	"A256GCM": ecdh.AES256GCM, "XC20P": ecdh.XC20P, "A128CBC": ecdh.AES128CBCHMACSHA256,
	"A192CBC": ecdh.AES192CBCHMACSHA384, "A256CBC384": ecdh.AES256CBCHMACSHA384, "A256CBC512": ecdh.AES256CBCHMACSHA512,
}

func (p *pool) coReencJWE(c Case, r1 *env.RawJWE) ([]byte, string, bool, error) {
	h := c.H1
	if len(h.Rcpts) < 2 {
		return nil, "", false, fmt.Errorf("needs a co-recipient")
	}

	co := p.key(h, h.Rcpts[1])
	coParty := p.w.Parties[co.Owner]
	sender := p.key(h, h.Sender)
	pm := r1.ProtectedMap()

	// the co-recipient's wrapped key (entry 1), with the shared headers
	hm := map[string]interface{}{}
	_ = json.Unmarshal(r1.Recipients[1].Header, &hm)

	get := func(name string) interface{} {
		if v, ok := hm[name]; ok {
			return v
		}

		return pm[name]
	}

	epkB, _ := json.Marshal(get("epk"))

	ej := &jwk.JWK{}
	if err := ej.UnmarshalJSON(epkB); err != nil {
		return nil, "", false, err
	}

	wk := &cryptoapi.RecipientWrappedKey{KID: co.KMSKID, Alg: fmt.Sprint(get("alg"))}
	wk.EPK.Curve, wk.EPK.Type = ej.Crv, ej.Kty

	switch k := ej.Key.(type) {
	case []byte:
		wk.EPK.X = k
	default:
		pk, err := ej.PublicKeyBytes()
		if err != nil {
			return nil, "", false, err
		}

		_ = k
		half := (len(pk) - 1) / 2
		wk.EPK.X, wk.EPK.Y = pk[1:1+half], pk[1+half:]
	}

	dec := func(v interface{}) []byte {
		s, _ := v.(string)
		b, _ := base64.RawURLEncoding.DecodeString(s)

		return b
	}

	wk.APU, wk.APV = dec(get("apu")), dec(get("apv"))
	wk.EncryptedCEK = dec(r1.Recipients[1].EncryptedKey)

	kh, err := coParty.KMS.Get(co.KMSKID)
	if err != nil {
		return nil, "", false, err
	}

	var opts []cryptoapi.WrapKeyOpts

	if h.auth() {
		spub := *sender.Pub

		skh, e := keyio.PublicKeyToKeysetHandle(&spub, aeadAlg[h.Enc])
		if e != nil {
			return nil, "", false, e
		}

		opts = append(opts, cryptoapi.WithSender(skh), cryptoapi.WithTag(dec(r1.Tag)))
	}

	if h.kt() == env.X25519 {
		opts = append(opts, cryptoapi.WithXC20PKW())
	}

	cek, err := coParty.Crypto.UnwrapKey(wk, kh, opts...)
	if err != nil {
		return nil, "", false, fmt.Errorf("co-recipient cannot unwrap: %w", err)
	}

	// re-encrypt another payload under the same content key, same protected header (AAD) and recipients
	kt := ecdh.KeyTemplateForECDHPrimitiveWithCEK(cek, true, aeadAlg[h.Enc])

	ekh, err := keyset.NewHandle(kt)
	if err != nil {
		return nil, "", false, err
	}

	pubKH, err := ekh.Public()
	if err != nil {
		return nil, "", false, err
	}

	prim, err := ecdh.NewECDHEncrypt(pubKH)
	if err != nil {
		return nil, "", false, err
	}

	ser, err := prim.Encrypt(payloadBytes(forged), []byte(r1.Protected))
	if err != nil {
		return nil, "", false, err
	}

	ed := &composite.EncryptedData{}
	if err := json.Unmarshal(ser, ed); err != nil {
		return nil, "", false, err
	}

	out := r1.Clone()
	out.IV = base64.RawURLEncoding.EncodeToString(ed.IV)
	out.Ciphertext = base64.RawURLEncoding.EncodeToString(ed.Ciphertext)
	out.Tag = base64.RawURLEncoding.EncodeToString(ed.Tag)

	if c.Mut.Arg == "" {
		return out.Bytes(), fmt.Sprintf("WJwe (reenc_jwe (cek_of (h_rnd %s)) %d (set_iv (Bytes 77) (J w1)))", p.coqHEnv(h, 100000), forged), false, nil
	}

	// malformed-length members: the co-recipient controls iv, ciphertext and tag completely.  For the CBC-HMAC encs
	// the MAC is computed by hand over what the AEAD will take for the ciphertext once the composite primitive has
	// re-assembled iv || ciphertext || tag and cut the last T bytes off as the tag.
	honestTag := dec(r1.Tag)
	iv, ct, tag := ed.IV, ed.Ciphertext, ed.Tag

	var mac func(ivSent, ctSeen []byte) []byte

	hashes := map[string]func() hash.Hash{"A128CBC": sha256.New, "A192CBC": sha512.New384, "A256CBC512": sha512.New}

	if hf, isCBC := hashes[h.Enc]; isCBC {
		half := len(cek) / 2
		macKey, encKey := cek[:half], cek[half:]
		pt := payloadBytes(forged)
		padLen := aes.BlockSize - len(pt)%aes.BlockSize
		padded := append(append([]byte{}, pt...), bytes.Repeat([]byte{byte(padLen)}, padLen)...)
		iv = make([]byte, aes.BlockSize)
		_, _ = rand.Read(iv)

		block, e := aes.NewCipher(encKey)
		if e != nil {
			return nil, "", false, e
		}

		ct = make([]byte, len(padded))
		cipher.NewCBCEncrypter(block, iv).CryptBlocks(ct, padded)

		aad := []byte(r1.Protected)
		mac = func(ivSent, ctSeen []byte) []byte {
			al := make([]byte, 8)
			binary.BigEndian.PutUint64(al, uint64(len(aad))*8)

			m := hmac.New(hf, macKey)
			m.Write(aad)
			m.Write(ivSent)
			m.Write(ctSeen)
			m.Write(al)

			return m.Sum(nil)[:half]
		}

		tag = mac(iv, ct)
	} else {
		mac = func(_, _ []byte) []byte { return tag } // AEAD encs: the forged tag as produced by the primitive
	}

	cat := func(a, b []byte) []byte { return append(append([]byte{}, a...), b...) }
	tagCoq := "(Junk 73)"

	switch c.Mut.Arg {
	case "tag=h+f": // the KDF would see the honest tag first, the AEAD the forged one last
		tag = cat(honestTag, mac(iv, cat(ct, honestTag)))
		tagCoq = "(Tup [j_tag (J w1); Junk 73])"
	case "tag=f+h":
		tag = cat(mac(iv, ct), honestTag)
		tagCoq = "(Tup [Junk 73; j_tag (J w1)])"
	case "tag=trunc":
		tag = tag[:len(tag)/2]
	case "tag=ext":
		tag = cat(tag, make([]byte, 8))
	case "tag=h+zero":
		tag = cat(honestTag, make([]byte, len(honestTag)))
		tagCoq = "(Tup [j_tag (J w1); Junk 74])"
	case "iv=short":
		tag = mac(iv[:8], ct)
		iv = iv[:8]
	case "iv=long":
		tag = mac(cat(iv, iv[:8]), ct)
		iv = cat(iv, iv[:8])
	case "ct=append":
		extra := make([]byte, aes.BlockSize)
		_, _ = rand.Read(extra)
		ct = cat(ct, extra)
		tag = mac(iv, ct)
	default:
		return nil, "", false, fmt.Errorf("unknown co-recipient forgery %q", c.Mut.Arg)
	}

	out.IV = base64.RawURLEncoding.EncodeToString(iv)
	out.Ciphertext = base64.RawURLEncoding.EncodeToString(ct)
	out.Tag = base64.RawURLEncoding.EncodeToString(tag)

	return out.Bytes(), fmt.Sprintf("WJwe (set_tag %s (set_ct (Junk 72) (set_iv (Junk 71) (J w1))))", tagCoq), false, nil
}

func (p *pool) mutateLegacy(c Case, e1, e2 []byte) ([]byte, string, bool, error) {
	r1, p1, err := env.ParseRawLegacy(e1)
	if err != nil {
		return nil, "", false, err
	}

	r2, p2, err := env.ParseRawLegacy(e2)
	if err != nil {
		return nil, "", false, err
	}

	m := c.Mut
	out := *r1
	uc := base64.URLEncoding
	n := len(p1.Recipients)

	entries := func() []string {
		var l []string
		for i := 0; i < n; i++ {
			l = append(l, fmt.Sprintf("LR w1 %d", i))
		}

		return l
	}

	reprot := func(np *env.LegacyProt, l []string, extra string) ([]byte, string, bool, error) {
		out.SetProt(np)

		upd := fmt.Sprintf("lp_set_recs %s (LP w1)", recsCoq(l))
		if extra != "" {
			upd = extra + " (" + upd + ")"
		}

		return out.Bytes(), fmt.Sprintf("WLeg (l_set_prot (Some (%s)) (L w1))", upd), false, nil
	}

	switch m.Kind {
	case "flip":
		switch m.Field {
		case "protected":
			nv, ok := p.alter(c, true, "MProt", r1.Protected)
			if !ok {
				return nil, "", false, fmt.Errorf("cannot flip")
			}

			out.Protected = nv

			return out.Bytes(), "w1", false, nil
		case "iv", "ciphertext", "tag":
			old := map[string]*string{"iv": &out.IV, "ciphertext": &out.CipherText, "tag": &out.Tag}[m.Field]
			if *old == "" {
				*old = "AAAA"
				set := map[string]string{"iv": "l_set_iv", "ciphertext": "l_set_ct", "tag": "l_set_tag"}[m.Field]

				return out.Bytes(), fmt.Sprintf("WLeg (%s %s (L w1))", set, junk(c)), false, nil
			}

			nv, ok := p.alter(c, true, map[string]string{"iv": "MIv", "ciphertext": "MCt", "tag": "MTag"}[m.Field], *old)
			if !ok {
				return nil, "", false, fmt.Errorf("cannot flip")
			}

			*old = nv

			return out.Bytes(), "w1", false, nil
		case "iv-short": // DESIGN 11 #17: a nonce of the wrong length (panic in chacha20poly1305: C03's subject)
			out.IV = uc.EncodeToString([]byte{1, 2, 3, 4, 5})
			return out.Bytes(), "WLeg (l_set_iv (Junk 5) (L w1))", false, nil
		}
	case "splice":
		switch m.Field {
		case "protected":
			out.Protected = r2.Protected
			return out.Bytes(), "WLeg (l_set_prot (le_prot (L w2)) (L w1))", false, nil
		case "iv":
			out.IV = r2.IV
			return out.Bytes(), "WLeg (l_set_iv (le_iv (L w2)) (L w1))", false, nil
		case "ciphertext":
			out.CipherText = r2.CipherText
			return out.Bytes(), "WLeg (l_set_ct (le_ct (L w2)) (L w1))", false, nil
		case "tag":
			out.Tag = r2.Tag
			return out.Bytes(), "WLeg (l_set_tag (le_tag (L w2)) (L w1))", false, nil
		case "ct+tag":
			out.CipherText, out.Tag, out.IV = r2.CipherText, r2.Tag, r2.IV
			return out.Bytes(), "WLeg (l_set_iv (le_iv (L w2)) (l_set_tag (le_tag (L w2)) (l_set_ct (le_ct (L w2)) (L w1))))", false, nil
		case "rec": // recipient entry Idx of e2 inside e1's protected header (re-serialized)
			np := *p1
			np.Recipients = append([]env.LegacyRec{}, p1.Recipients...)
			np.Recipients[m.Idx] = p2.Recipients[m.Idx]
			l := entries()
			l[m.Idx] = fmt.Sprintf("LR w2 %d", m.Idx)

			return reprot(&np, l, "")
		case "sender": // the sealed sender of e2's entry in e1's entry
			np := *p1
			np.Recipients = append([]env.LegacyRec{}, p1.Recipients...)
			np.Recipients[m.Idx].Header.Sender = p2.Recipients[m.Idx].Header.Sender
			l := entries()
			l[m.Idx] = fmt.Sprintf("mklrcp (l_kid (LR w1 %d)) (l_sender (LR w2 %d)) (l_iv (LR w1 %d)) (l_ek (LR w1 %d))", m.Idx, m.Idx, m.Idx, m.Idx)

			return reprot(&np, l, "")
		}
	case "prot": // re-serialization with different values
		np := *p1
		np.Recipients = append([]env.LegacyRec{}, p1.Recipients...)
		l := entries()
		other := (m.Idx + 1) % n
		victim2 := p.keys[env.Ed25519][c.Party][1]

		switch m.Arg {
		case "same":
			out.SetProt(&np)
			if out.Protected != r1.Protected {
				return nil, "", false, fmt.Errorf("re-serialization is not the identity")
			}

			return out.Bytes(), "w1", false, nil
		case "kid-other":
			if n < 2 {
				return nil, "", false, fmt.Errorf("needs 2 recipients")
			}

			np.Recipients[m.Idx].Header.KID = p1.Recipients[other].Header.KID
			l[m.Idx] = fmt.Sprintf("mklrcp (l_kid (LR w1 %d)) (l_sender (LR w1 %d)) (l_iv (LR w1 %d)) (l_ek (LR w1 %d))", other, m.Idx, m.Idx, m.Idx)
		case "kid-own2":
			np.Recipients[m.Idx].Header.KID = base58.Encode(victim2.Bytes)
			l[m.Idx] = fmt.Sprintf("mklrcp %d (l_sender (LR w1 %d)) (l_iv (LR w1 %d)) (l_ek (LR w1 %d))", victim2.Name, m.Idx, m.Idx, m.Idx)
		case "ek-flip":
			nv, _, _, _ := editString(p1.Recipients[m.Idx].EncryptedKey, Mut{Pos: 1})
			np.Recipients[m.Idx].EncryptedKey = nv
			l[m.Idx] = fmt.Sprintf("mklrcp (l_kid (LR w1 %d)) (l_sender (LR w1 %d)) (l_iv (LR w1 %d)) (Junk 6)", m.Idx, m.Idx, m.Idx)
		case "alg-swap":
			if np.Alg == "Authcrypt" {
				np.Alg = "Anoncrypt"
				return reprot(&np, l, "lp_set_alg LAnoncrypt")
			}

			np.Alg = "Authcrypt"

			return reprot(&np, l, "lp_set_alg LAuthcrypt")
		case "typ-other":
			np.Typ = "JWM/2.0"
			return reprot(&np, l, "lp_set_typ false")
		case "rotate":
			if n < 2 {
				return nil, "", false, fmt.Errorf("needs 2 recipients")
			}

			np.Recipients = append(append([]env.LegacyRec{}, p1.Recipients[1:]...), p1.Recipients[0])
			l = append(append([]string{}, l[1:]...), l[0])
		default:
			return nil, "", false, fmt.Errorf("unknown legacy prot edit")
		}

		return reprot(&np, l, "")
	case "coreenc":
		return p.coReencLegacy(c, r1, p1)
	case "lbuild":
		return p.buildAdvLegacy(c)
	}

	return nil, "", false, fmt.Errorf("unknown legacy mutation %+v", m)
}

// coReencLegacy: the owner of recipient 1 opens its own entry with the public CryptoBox API, learns the content key,
// and encrypts another payload under it for the unchanged protected header.
func (p *pool) coReencLegacy(c Case, r1 *env.RawLegacy, p1 *env.LegacyProt) ([]byte, string, bool, error) {
	h := c.H1
	if len(h.Rcpts) < 2 {
		return nil, "", false, fmt.Errorf("needs a co-recipient")
	}

	co := p.key(h, h.Rcpts[1])
	coParty := p.w.Parties[co.Owner]
	sender := p.key(h, h.Sender)
	uc := base64.URLEncoding

	box, err := localkms.NewCryptoBox(coParty.KMS)
	if err != nil {
		return nil, "", false, err
	}

	rc := p1.Recipients[1]
	encCEK, _ := uc.DecodeString(rc.EncryptedKey)

	var cek []byte

	if h.auth() {
		nonce, _ := uc.DecodeString(rc.Header.IV)

		sc, e := cryptoutil.PublicEd25519toCurve25519(sender.Bytes)
		if e != nil {
			return nil, "", false, e
		}

		cek, err = box.EasyOpen(encCEK, nonce, sc, co.Bytes)
	} else {
		cek, err = box.SealOpen(encCEK, co.Bytes)
	}

	if err != nil {
		return nil, "", false, fmt.Errorf("co-recipient cannot open its entry: %w", err)
	}

	aead, err := chacha.New(cek)
	if err != nil {
		return nil, "", false, err
	}

	nonce, _ := uc.DecodeString(r1.IV)
	sealed := aead.Seal(nil, nonce, payloadBytes(forged), []byte(r1.Protected))
	out := *r1
	out.CipherText = uc.EncodeToString(sealed[:len(sealed)-16])
	out.Tag = uc.EncodeToString(sealed[len(sealed)-16:])

	return out.Bytes(), fmt.Sprintf("WLeg (reenc_leg (cek_of (h_rnd %s)) %d (L w1))", p.coqHEnv(h, 100000), forged), false, nil
}

// ---------- generators ----------

var editArgs = []string{"r-nl", "r-cr", "r-pad", "r-plus", "r-slash", "r-dot", "r-space", "i-nl", "i-cr", "i-sym", "i-pad", "i-dot", "del"}

func (p *pool) gen(tr *hx.Trace, rng *hx.Rng, thorough bool) {
	type pair struct{ h1, h2 HEnv }

	mk := func(packer, kt, enc, style string, n int, pay int, senderSlot int) HEnv {
		h := HEnv{Packer: packer, KT: kt, Enc: enc, Style: style, Payload: pay, Sender: [2]int{0, senderSlot}}
		// recipients: party 1 slot 0 (the victim), party 2, party 3 ...
		for i := 0; i < n; i++ {
			h.Rcpts = append(h.Rcpts, [2]int{1 + i, 0})
		}

		return h
	}

	var pairs []pair

	jweCfgs := [][3]string{
		{env.X25519, "XC20P", "didkey"}, {env.P256, "A256CBC512", "didkey"}, {env.P384, "A128CBC", "diddoc"},
		{env.X25519, "A256CBC384", "diddoc"}, {env.P256, "XC20P", "pdoc"}, {env.P256, "A192CBC", "didkey"},
	}

	anonCfgs := append(append([][3]string{}, jweCfgs...), [3]string{env.P256, "A256GCM", "didkey"}, [3]string{env.X25519, "A256GCM", "diddoc"})

	ci := int(rng.U64() % 1000)

	for _, packer := range []string{"jwe-auth", "jwe-anon"} {
		cfgs := jweCfgs
		if packer == "jwe-anon" {
			cfgs = anonCfgs
		}

		for _, n := range []int{1, 2, 3} {
			k := len(cfgs)

			for j := 0; j < k; j++ {
				cf := cfgs[(ci+j+n)%len(cfgs)]
				h1 := mk(packer, cf[0], cf[1], cf[2], n, 11, 0)
				// e2: independently produced; same sender and recipients, another payload — or another sender
				h2 := mk(packer, cf[0], cf[1], cf[2], n, 22, j%2)

				if n == 3 && j%2 == 1 && cf[2] != "pdoc" {
					// the victim holds TWO of the recipient keys (entries 0 and 2): a damaged entry 0 must not stop it
					h1.Rcpts[2], h2.Rcpts[2] = [2]int{1, 1}, [2]int{1, 1}
				}
				pairs = append(pairs, pair{h1, h2})
			}
		}
	}

	for _, packer := range []string{"leg-auth", "leg-anon"} {
		for _, n := range []int{1, 2, 3} {
			for j := 0; j < 2; j++ {
				h1 := mk(packer, env.Ed25519, "XC20P", "raw", n, 11, 0)
				h2 := mk(packer, env.Ed25519, "XC20P", "raw", n, 22, j)
				pairs = append(pairs, pair{h1, h2})
			}
		}
	}

	emit := func(kind string, pr pair, m Mut, party int, via string) {
		p.run(kind, Case{H1: pr.h1, H2: pr.h2, Mut: m, Party: party, Via: via}, tr)
	}

	for pi, pr := range pairs {
		n := len(pr.h1.Rcpts)
		legacy := pr.h1.legacy()
		auth := pr.h1.auth()
		via := []string{"packager", "packer"}[pi%2]
		victim := 1

		emit("sanity", pr, Mut{Kind: "none"}, victim, via)
		emit("sanity", pr, Mut{Kind: "whole-e2"}, victim, via)
		emit("sanity", pr, Mut{Kind: "none"}, 5, via)

		// every base64 field: first / middle / last symbol, seeded positions, and EVERY position on a sample of the
		// pairs (quick: 3 pairs, thorough: all)
		for fi, f := range []string{"protected", "iv", "ciphertext", "tag"} {
			for pos := 0; pos < 3; pos++ {
				emit("flip", pr, Mut{Kind: "flip", Field: f, Pos: pos}, victim, via)
			}

			for q := 0; q < 3; q++ {
				emit("flip", pr, Mut{Kind: "flip", Field: f, Pos: 10 + rng.Intn(4000)}, victim, via)
			}

			// the other single-character alterations: replacement by a character the decoder skips (CR / LF), by the
			// padding character, by a symbol of the standard alphabet, by the compact separator, by a blank; insertion
			// of a skipped character (same bytes!), of an alphabet symbol, of padding; deletion
			for ai, a := range editArgs {
				if (ai+pi+fi)%2 == 0 {
					emit("edit", pr, Mut{Kind: "flip", Field: f, Pos: (ai + pi) % 3, Arg: a}, victim, via)
				} else {
					emit("edit", pr, Mut{Kind: "flip", Field: f, Pos: 10 + rng.Intn(4000), Arg: a}, victim, via)
				}
			}

			if thorough || pi%20 == 5 {
				lim := map[string]int{"protected": 900, "iv": 32, "ciphertext": 120, "tag": 44}[f]
				for q := 0; q < lim; q++ {
					emit("flip-all", pr, Mut{Kind: "flip", Field: f, Pos: 10 + q}, victim, via)
				}

				if f == "tag" || thorough {
					// the other kinds of alteration at every position
					for _, a := range editArgs {
						if !thorough && (a == "r-cr" || a == "r-slash" || a == "r-space" || a == "i-cr" || a == "i-pad" || a == "i-dot" || a == "r-dot") {
							continue
						}

						for q := 0; q < lim; q++ {
							emit("edit-all", pr, Mut{Kind: "flip", Field: f, Pos: 10 + q, Arg: a}, victim, via)
						}
					}
				}

				if thorough {
					// the other replacement symbol at every position
					lowBitFirst = true
					for q := 0; q < lim; q++ {
						emit("flip-all", pr, Mut{Kind: "flip", Field: f, Pos: 10 + q, Arg: "alt"}, victim, via)
					}

					lowBitFirst = false
				}
			}
		}

		if !legacy {
			for i := 0; i < n; i++ {
				for k := 0; k < 3; k++ {
					a := editArgs[(pi+i*3+k)%len(editArgs)]
					emit("edit", pr, Mut{Kind: "flip", Field: "ek", Idx: i, Pos: (pi + k) % 3, Arg: a}, victim, via)
				}

				for pos := 0; pos < 3; pos++ {
					emit("flip", pr, Mut{Kind: "flip", Field: "ek", Idx: i, Pos: pos}, victim, via)
					if n > 1 && pos == 1 {
						emit("flip", pr, Mut{Kind: "flip", Field: "ek", Idx: i, Pos: pos}, 2, via)
					}
				}
			}

			if n > 1 {
				emit("flip", pr, Mut{Kind: "flip", Field: "aad"}, victim, via)
			}
		} else {
			emit("flip", pr, Mut{Kind: "flip", Field: "iv-short"}, victim, via)
		}

		for _, pm := range []int{0, 100, 500, 900, 999} {
			emit("truncate", pr, Mut{Kind: "truncate", Pos: pm}, victim, via)
		}

		// cross-splices of every field from the second envelope
		for _, f := range []string{"protected", "iv", "ciphertext", "tag", "ct+tag"} {
			emit("splice", pr, Mut{Kind: "splice", Field: f}, victim, via)
		}

		if !legacy {
			emit("splice", pr, Mut{Kind: "splice", Field: "recipients"}, victim, via)
			emit("splice", pr, Mut{Kind: "splice", Field: "body"}, victim, via)

			for i := 0; i < n; i++ {
				emit("splice", pr, Mut{Kind: "splice", Field: "ek", Idx: i}, victim, via)
			}
		} else {
			for i := 0; i < n; i++ {
				emit("splice", pr, Mut{Kind: "splice", Field: "rec", Idx: i}, victim, via)
				if auth {
					emit("splice", pr, Mut{Kind: "splice", Field: "sender", Idx: i}, victim, via)
				}
			}
		}

		// re-serialization of the protected header with different values
		if !legacy {
			args := []string{"same", "skid-other", "enc-other", "enc-delete", "typ-other", "space", "apv-other"}
			if auth {
				args = append(args, "skid-delete", "alg-es", "alg-delete", "apu-delete", "epk-delete")
			} else {
				args = append(args, "skid-add")
			}

			if n == 1 {
				args = append(args, "kid-own2")
			}

			for _, a := range args {
				emit("prot", pr, Mut{Kind: "prot", Arg: a}, victim, via)
			}
		} else {
			for _, a := range []string{"same", "kid-other", "kid-own2", "ek-flip", "alg-swap", "typ-other", "rotate"} {
				if n < 2 && (a == "kid-other" || a == "rotate") {
					continue
				}

				emit("prot", pr, Mut{Kind: "prot", Arg: a}, victim, via)
			}
		}

		if !legacy && n == 1 {
			emit("reser", pr, Mut{Kind: "reser", Arg: "flattened"}, victim, via)
			emit("reser", pr, Mut{Kind: "reser", Arg: "general"}, victim, via)
			emit("reser", pr, Mut{Kind: "reser", Arg: "flattened"}, 5, via)
		}

		// per-recipient headers and the recipients array (JSON serialization)
		if !legacy && n > 1 {
			args := []string{"kid-delete", "kid-null", "kid-number", "kid-other", "kid-own2", "kid-bad", "kid-unres", "hdr-null"}
			if !auth {
				args = append(args, "alg-delete", "alg-other", "alg-1pu", "epk-delete", "epk-other", "apu-delete", "apu-bad", "apu-other")
			}

			for _, a := range args {
				for i := 0; i < n; i++ {
					emit("hdr", pr, Mut{Kind: "hdr", Idx: i, Arg: a}, victim, via)
					if i == 1 {
						emit("hdr", pr, Mut{Kind: "hdr", Idx: i, Arg: a}, 2, via) // the party of entry 1
					}
				}
			}

			for _, a := range []string{"skid", "kid", "alg-enc", "other"} {
				emit("unprot", pr, Mut{Kind: "unprot", Arg: a}, victim, via)
			}

			for _, a := range []string{"rotate", "drop", "dup", "insert-own2"} {
				emit("recs", pr, Mut{Kind: "recs", Arg: a, Idx: 0}, victim, via)
				emit("recs", pr, Mut{Kind: "recs", Arg: a, Idx: 1}, 2, via)
			}
		}

		// constructions with the public crypto API
		if !legacy {
			emit("attack", pr, Mut{Kind: "es-forge", Arg: "skid"}, victim, "packager")
			emit("attack", pr, Mut{Kind: "es-forge", Arg: "skid"}, victim, "packer")
			emit("attack", pr, Mut{Kind: "es-forge", Arg: "noskid"}, victim, "packager")
		}

		if !legacy && auth {
			emit("attack", pr, Mut{Kind: "pu-forge"}, victim, "packager")
			emit("attack", pr, Mut{Kind: "pu-forge"}, victim, "packer")

			for _, a := range []string{"skid=own;apu=own", "skid=own;apu=claimed", "skid=claimed;apu=own", "skid=claimed;apu=claimed"} {
				emit("built", pr, Mut{Kind: "pu-build", Arg: a}, victim, "packager")
				emit("built", pr, Mut{Kind: "pu-build", Arg: a}, victim, "packer")
			}
		}

		if n > 1 && auth {
			emit("attack", pr, Mut{Kind: "coreenc"}, victim, via)

			if !legacy {
				// the co-recipient's forgeries with members of other lengths
				for _, a := range []string{"tag=h+f", "tag=f+h", "tag=h+zero", "tag=trunc", "tag=ext", "iv=short", "iv=long", "ct=append"} {
					emit("attack", pr, Mut{Kind: "coreenc", Arg: a}, victim, via)
				}
			}
		}
	}
}

// buildAdvLegacy: a legacy envelope BUILT by an outsider (party 5) with the public CryptoBox API.  Arg:
// n=<recipients>;pos=<victim>;sender=claimed|own|none;ek=seal|box|box2;alg=auth|anon;iv=present|absent
func (p *pool) buildAdvLegacy(c Case) ([]byte, string, bool, error) {
	h := c.H1
	a := map[string]string{}

	for _, kv := range strings.Split(c.Mut.Arg, ";") {
		if q := strings.SplitN(kv, "=", 2); len(q) == 2 {
			a[q[0]] = q[1]
		}
	}

	n, _ := strconv.Atoi(a["n"])
	pos, _ := strconv.Atoi(a["pos"])
	mal := p.w.Parties[5]
	malKey := p.keys[env.Ed25519][5][0]
	claimed := p.key(h, h.Sender)
	victim := p.keys[env.Ed25519][c.Party][0]
	uc := base64.URLEncoding

	box, err := localkms.NewCryptoBox(mal.KMS)
	if err != nil {
		return nil, "", false, err
	}

	cek := make([]byte, 32)
	_, _ = rand.Read(cek)
	cekCoq := "(cek_of (mkrnd 200000 200050 200051))"

	prot := &env.LegacyProt{Enc: "chacha20poly1305_ietf", Typ: "JWM/1.0", Alg: "Authcrypt"}
	algCoq := "LAuthcrypt"

	if a["alg"] == "anon" {
		prot.Alg, algCoq = "Anoncrypt", "LAnoncrypt"
	}

	var recsCoq []string

	d := 0

	for i := 0; i < n; i++ {
		rk := victim
		if i != pos {
			pa := 2 + d%3
			if pa == c.Party {
				pa = 2 + (d+1)%3
			}

			rk = p.keys[env.Ed25519][pa][0]
			d++
		}

		rcurve, err := cryptoutil.PublicEd25519toCurve25519(rk.Bytes)
		if err != nil {
			return nil, "", false, err
		}

		var rec env.LegacyRec

		rec.Header.KID = base58.Encode(rk.Bytes)
		senderCoq := "(Tup [])"

		switch a["sender"] {
		case "claimed", "own":
			sk := claimed
			if a["sender"] == "own" {
				sk = malKey
			}

			sealed, e := box.Seal([]byte(base58.Encode(sk.Bytes)), rcurve, rand.Reader)
			if e != nil {
				return nil, "", false, e
			}

			rec.Header.Sender = uc.EncodeToString(sealed)
			senderCoq = fmt.Sprintf("(seal %d %d (Pub %d))", 200100+i, rk.Name, sk.Name)
		}

		nonce := make([]byte, 24)
		_, _ = rand.Read(nonce)
		rec.Header.IV = uc.EncodeToString(nonce)
		ivCoq := fmt.Sprintf("(Bytes %d)", 300+i)
		ivHdrCoq := ivCoq

		if a["iv"] == "absent" {
			rec.Header.IV, ivHdrCoq = "", "(Tup [])"
		}

		var (
			ek    []byte
			ekCoq string
		)

		if a["ek"] == "seal" {
			ek, err = box.Seal(cek, rcurve, rand.Reader)
			ekCoq = fmt.Sprintf("(seal %d %d %s)", 200200+i, rk.Name, cekCoq)
		} else {
			bk := malKey
			if a["ek"] == "box2" {
				bk = p.keys[env.Ed25519][5][1] // a key unrelated to the one named in the sender header
			}

			ek, err = box.Easy(cek, nonce, rcurve, bk.KMSKID)
			ekCoq = fmt.Sprintf("(Wrap (box_key %d %d %s) %s)", bk.Name, rk.Name, ivCoq, cekCoq)
		}

		if err != nil {
			return nil, "", false, err
		}

		rec.EncryptedKey = uc.EncodeToString(ek)
		prot.Recipients = append(prot.Recipients, rec)
		recsCoq = append(recsCoq, fmt.Sprintf("mklrcp %d %s %s %s", rk.Name, senderCoq, ivHdrCoq, ekCoq))
	}

	out := &env.RawLegacy{}
	out.SetProt(prot)

	aead, err := chacha.New(cek)
	if err != nil {
		return nil, "", false, err
	}

	cn := make([]byte, chacha.NonceSize)
	_, _ = rand.Read(cn)
	sealed := aead.Seal(nil, cn, payloadBytes(forged), []byte(out.Protected))
	out.IV = uc.EncodeToString(cn)
	out.CipherText = uc.EncodeToString(sealed[:len(sealed)-16])
	out.Tag = uc.EncodeToString(sealed[len(sealed)-16:])

	if a["sender"] == "own" && a["ek"] == "box" && a["iv"] != "absent" {
		p.ownSender = malKey.Name
	}

	coq := fmt.Sprintf("WLeg (reenc_leg %s %d (mklenv (Some (mklphdr true %s %s 0)) (Bytes 78) (Junk 0) (Junk 0)))", cekCoq, forged,
		algCoq, recsCoq2(recsCoq))

	return out.Bytes(), coq, true, nil
}

func (p *pool) genBuiltLegacy(tr *hx.Trace) {
	h := HEnv{Packer: "leg-auth", KT: env.Ed25519, Enc: "XC20P", Style: "raw", Payload: 11, Sender: [2]int{0, 0}, Rcpts: [][2]int{{1, 0}}}

	for n := 1; n <= 3; n++ {
		for pos := 0; pos < n; pos++ {
			for _, sender := range []string{"claimed", "own", "none"} {
				for _, ek := range []string{"seal", "box", "box2"} {
					for _, alg := range []string{"auth", "anon"} {
						for _, iv := range []string{"present", "absent"} {
							for _, via := range []string{"packager", "packer", "leganon"} {
								arg := fmt.Sprintf("n=%d;pos=%d;sender=%s;ek=%s;alg=%s;iv=%s", n, pos, sender, ek, alg, iv)
								p.run("built", Case{H1: h, H2: h, Mut: Mut{Kind: "lbuild", Arg: arg}, Party: 1, Via: via}, tr)
							}
						}
					}
				}
			}
		}
	}
}

// genBuilt enumerates the construction grammar: header placements of skid / apu / alg, per-recipient alg labels
// independent of the real (ECDH-ES) wrapping, victim position, serialization, unpacked through the packager and
// through each JWE packer directly.
func (p *pool) genBuilt(tr *hx.Trace, rng *hx.Rng, thorough bool) {
	cfgs := [][3]string{{env.X25519, "XC20P", "didkey"}, {env.P256, "A256CBC512", "diddoc"}, {env.P384, "A128CBC", "pdoc"}}
	vias := []string{"packager", "auth", "anon"}

	var all []advSpec

	for _, ser := range []string{"compact", "flattened", "general"} {
		for _, skid := range []string{"prot", "unprot", "none"} {
			for _, apu := range []string{"std", "skid"} {
				for _, vl := range []string{"es", "1pu"} {
					all = append(all, advSpec{N: 1, Skid: skid, Apu: apu, VLabel: vl, DLabel: "es", AlgProt: "none", Ser: ser})
				}
			}
		}
	}

	for n := 2; n <= 3; n++ {
		for pos := 0; pos < n; pos++ {
			for _, skid := range []string{"prot", "unprot", "none"} {
				for _, apu := range []string{"std", "skid"} {
					for _, ap := range []bool{false, true} {
						for _, vl := range []string{"es", "1pu"} {
							for _, dl := range []string{"es", "1pu"} {
								for _, algp := range []string{"none", "es", "1pu"} {
									all = append(all, advSpec{N: n, Pos: pos, Skid: skid, Apu: apu, ApuProt: ap, VLabel: vl, DLabel: dl,
										AlgProt: algp, Ser: "general"})
								}
							}
						}
					}
				}
			}
		}
	}

	// member NAMES in another letter case (jose's protected-header map is case-sensitive, every struct decoded by
	// encoding/json — the packager's header stub, per-recipient headers — is not): every protected member and every
	// per-recipient member, upper case and title case
	var cvs []string

	for _, how := range []string{"upper", "title"} {
		for _, m := range []string{"skid", "alg", "kid", "epk", "apu", "enc", "typ", "r-kid", "r-alg", "r-epk", "r-apu"} {
			cvs = append(cvs, m+":"+how)
		}
	}

	base := len(all)

	for i := 0; i < base; i++ {
		a := all[i]

		switch {
		case a.N == 1:
			for k := 0; k < 2; k++ {
				a.CV = cvs[(2*i+k*5)%len(cvs)]
				if !strings.HasPrefix(a.CV, "r-") && !(strings.HasPrefix(a.CV, "skid") && a.Skid != "prot") {
					all = append(all, a)
				}
			}

			if a.Skid == "prot" {
				for _, how := range []string{"upper", "title"} {
					a.CV = "skid:" + how
					all = append(all, a)
				}
			}
		case i%7 == 3:
			a.CV = cvs[(i/7)%len(cvs)]
			if strings.HasPrefix(a.CV, "kid") || strings.HasPrefix(a.CV, "epk") || (strings.HasPrefix(a.CV, "skid") && a.Skid != "prot") {
				a.CV = "r-" + a.CV // members a multi-recipient protected header does not have
			}

			all = append(all, a)
		}
	}

	for ci, cf := range cfgs {
		h := HEnv{Packer: "jwe-auth", KT: cf[0], Enc: cf[1], Style: cf[2], Payload: 11, Sender: [2]int{0, 0}, Rcpts: [][2]int{{1, 0}}}

		for i, a := range all {
			// the whole grammar for the first configuration; a seeded third of it for the others (all of it in thorough)
			if ci > 0 && !thorough && rng.Intn(3) != 0 {
				continue
			}

			via := vias[(i+ci)%3]
			if thorough || a.N == 1 {
				for _, v := range vias {
					p.run("built", Case{H1: h, H2: h, Mut: Mut{Kind: "build", Arg: a.String()}, Party: 1, Via: v}, tr)
				}

				continue
			}

			p.run("built", Case{H1: h, H2: h, Mut: Mut{Kind: "build", Arg: a.String()}, Party: 1, Via: via}, tr)
		}
	}
}

func corpus(p *pool, dir string, tr *hx.Trace) {
	files, _ := filepath.Glob(filepath.Join(dir, "*.json"))
	sort.Strings(files)

	for _, f := range files {
		b, err := os.ReadFile(f)
		if err != nil {
			continue
		}

		var c struct {
			Case Case `json:"case"`
		}

		if json.Unmarshal(b, &c) != nil || c.Case.H1.Packer == "" {
			fmt.Fprintln(os.Stderr, "bad corpus file", f)
			os.Exit(2)
		}

		p.run("corpus:"+filepath.Base(f), c.Case, tr)
	}
}

func main() {
	args := hx.ParseArgs()
	tr := hx.NewTrace(args.Out)

	defer tr.Close()

	p := newPool()

	if args.Replay != "" {
		b, err := os.ReadFile(args.Replay)
		if err != nil {
			fmt.Fprintln(os.Stderr, err)
			os.Exit(2)
		}

		var c struct {
			Case Case `json:"case"`
		}

		_ = json.Unmarshal(b, &c)
		p.run("replay", c.Case, tr)
		p.flush(tr)

		return
	}

	corpus(p, args.Extra, tr)
	p.gen(tr, hx.NewRng(args.Seed), args.Tier == "thorough")
	p.genBuilt(tr, hx.NewRng(args.Seed+99), args.Tier == "thorough")
	p.genBuiltLegacy(tr)
	p.flush(tr)
}
