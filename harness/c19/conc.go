package main

import (
	"fmt"
	"sort"
	"strings"
	"sync"
	"time"

	"github.com/hyperledger/aries-framework-go/pkg/kms"
	"github.com/hyperledger/aries-framework-go/pkg/wallet"

	"verifharness/hx"
)

// Concurrent phase.  A round = sequential prefix, a set of calls released together from goroutines (several Open on
// instances of ONE profile, optionally Close and token operations), sequential suffix in which every token that can
// have been issued is presented again before and after a Close.  Nothing is judged by timing: the suffix runs when all
// overlapping calls have returned, and its verdicts (a closed token is rejected, ...) hold for every interleaving of
// correct code; an interleaving that does not happen is simply not observed.  Sets without Close and with at most one
// key operation are also tied to the model: the outcome must equal SOME sequential order (coq/C19/Corr.v check_conc).

// ConcCase is the replayable description of one round.
type ConcCase struct {
	Pre  []Op `json:"pre"`
	Conc []Op `json:"conc"`
	Post []Op `json:"post"`
}

type rawOut struct {
	obs Obs
	tok string
	kid string
}

// rawCall performs one call without touching the harness bookkeeping (safe to run from several goroutines).
func (w *world) rawCall(op Op) rawOut {
	x := w.insts[op.I]

	switch op.Kind {
	case "open":
		tok, err := x.Open(wallet.WithUnlockByPassphrase(pass(w.iuser[op.I])))
		if err != nil {
			c := classify(err)
			if c != "already" {
				c = "err"
			}

			return rawOut{obs: Obs{Out: c, Err: errStr(err)}}
		}

		return rawOut{obs: Obs{Out: "tok"}, tok: tok}
	case "close":
		if x.Close() {
			return rawOut{obs: Obs{Out: "true"}}
		}

		return rawOut{obs: Obs{Out: "false"}}
	case "key":
		kp, err := x.CreateKeyPair(w.tokenFor(op), kms.ED25519Type)
		if err != nil {
			return rawOut{obs: Obs{Out: classify(err), Err: errStr(err)}}
		}

		return rawOut{obs: Obs{Out: "key"}, kid: kp.KeyID}
	case "get":
		b, err := x.Get(w.tokenFor(op), ctOf(op.C), w.idStr(op.C))
		if err != nil {
			return rawOut{obs: Obs{Out: classify(err), Err: errStr(err)}}
		}

		return rawOut{obs: Obs{Out: "val", N: w.valueOf(w.iuser[op.I], op.C, b)}}
	}

	return rawOut{obs: Obs{Out: "err", Err: "not a concurrent op"}}
}

func tieable(cc ConcCase) bool {
	keys := 0

	for _, op := range cc.Conc {
		switch op.Kind {
		case "close":
			return false
		case "key":
			keys++
		}
	}

	return keys <= 1 && len(cc.Conc) <= 4
}

func coqOut(o Obs) string {
	s := coqObs(o, &o)
	// coqObs prints "(out, None)" here: keep the first component
	return strings.TrimSuffix(strings.TrimPrefix(s, "("), ", None)")
}

func runConc(kind string, cc ConcCase) *hx.Record {
	s := newSeqRun(kind)
	defer s.w.cleanup()

	w := s.w
	cc = ConcCase{Pre: normOps(cc.Pre), Conc: normOps(cc.Conc), Post: normOps(cc.Post)}
	s.rec.Case = map[string]interface{}{"conc": cc}
	s.dist = []string{fmt.Sprintf("conc-width=%d", len(cc.Conc))}

	skipped := func() *hx.Record {
		return &hx.Record{Kind: "skipped-timing", Case: s.rec.Case, Oracle: "ok", Trivial: true, Class: "skipped",
			Dist: []string{"skipped-timing"}}
	}

	for _, op := range cc.Pre {
		if !s.do(op) {
			return skipped()
		}
	}

	nPre := len(s.obs)
	tokBefore := len(w.toks)

	for _, op := range cc.Conc {
		if op.I < 0 || op.I >= len(w.insts) {
			s.rec.Trivial, s.rec.Detail = true, "bad concurrent op"
			return s.rec
		}
	}

	// --- released together ---
	outs := make([]rawOut, len(cc.Conc))
	start := make(chan struct{})

	var wg sync.WaitGroup

	for j := range cc.Conc {
		wg.Add(1)

		go func(j int) {
			defer wg.Done()

			<-start

			outs[j] = w.rawCall(cc.Conc[j])
		}(j)
	}

	t0 := time.Now()

	close(start)
	wg.Wait()

	t1 := time.Now()

	// --- bookkeeping, single-threaded, in index order ---
	closing := map[int]bool{}

	for _, op := range cc.Conc {
		if op.Kind == "close" {
			closing[w.iuser[op.I]] = true
		}
	}

	for u := range closing {
		for _, g := range w.grants[:tokBefore] {
			if g.user == u {
				g.closed = true
			}
		}

		if sp := w.spers[u]; sp != nil {
			sp.closed = true
		}
	}

	concObs := make([]Obs, len(cc.Conc))
	issued := 0

	for j, op := range cc.Conc {
		o := outs[j].obs
		u := w.iuser[op.I]

		switch {
		case op.Kind == "open" && o.Out == "tok":
			w.toks = append(w.toks, outs[j].tok)
			o.N = len(w.toks) - 1
			w.grants = append(w.grants, &grant{user: u, ttl: defaultTTL, last: w.now, rs: t0, re: t1, unsure: closing[u]})
			w.spers[u] = &grant{user: u, ttl: defaultTTL, last: w.now, rs: t0, re: t1}
			issued++
		case op.Kind == "key" && o.Out == "key":
			w.kids = append(w.kids, outs[j].kid)
			w.kpubs = append(w.kpubs, nil)
			w.nkeys++
			o.N = w.nkeys - 1
		}

		// a token that is foreign or was never issued is illegitimate in every interleaving
		if isTokenOp(op.Kind) && admitted(o.Out) {
			switch {
			case op.Tok < 0 || op.Tok >= tokBefore:
				s.fail("never-issued-token-admitted:"+op.Kind, fmt.Sprintf("concurrent op %d %+v admitted a token that was never issued", j, op))
			case w.grants[op.Tok].user != u:
				s.fail("foreign-token-admitted:"+op.Kind, fmt.Sprintf("concurrent op %d %+v: instance of user %d admitted a foreign token", j, op, u))
			}
		}

		concObs[j] = o
		s.classParts = append(s.classParts, "conc:"+op.Kind+"/"+o.Out)
		s.dist = append(s.dist, "conc="+op.Kind+"->"+o.Out)
	}

	s.dist = append(s.dist, fmt.Sprintf("conc-tokens-issued=%d", issued))

	var after Obs

	w.dump(&after)
	s.prev = after

	for _, op := range cc.Post {
		if !s.do(op) {
			return skipped()
		}
	}

	s.finish()

	if tieable(cc) {
		pre := make([]string, len(cc.Pre))
		for i, o := range cc.Pre {
			pre[i] = coqOp(o)
		}

		preObs := make([]string, nPre)
		prev := &Obs{Rows: [][3]int{}, Keys: []int{}}

		for i := 0; i < nPre; i++ {
			preObs[i] = coqObs(s.obs[i], prev)
			prev = &s.obs[i]
		}

		co := make([]string, len(cc.Conc))
		for j, o := range cc.Conc {
			co[j] = "(" + coqOp(o) + ", " + coqOut(concObs[j]) + ")"
		}

		post := make([]string, len(cc.Post))
		for i, o := range cc.Post {
			post[i] = coqOp(o)
		}

		postObs := make([]string, len(s.obs)-nPre)
		prev = nil // the first dump after the overlap is always printed

		for i := nPre; i < len(s.obs); i++ {
			postObs[i-nPre] = coqObs(s.obs[i], prev)
			prev = &s.obs[i]
		}

		s.rec.Coq = "Conc {| k_pre := " + hx.CoqList(pre) + "; k_pre_obs := " + hx.CoqList(preObs) +
			"; k_conc := " + hx.CoqList(co) + "; k_post := " + hx.CoqList(post) + "; k_post_obs := " + hx.CoqList(postObs) + " |}"
	}

	s.rec.Observed = map[string]interface{}{"pre": s.obs[:nPre], "conc": concObs, "post": s.obs[nPre:]}

	sort.Strings(s.classParts[nPre : nPre+len(cc.Conc)])
	s.rec.Class = strings.Join(s.classParts, ",")
	s.rec.Dist = s.dist

	return s.rec
}

// genConc builds one round.  wide = many openers (direct oracle only); otherwise 2..4 overlapping calls (also tied).
func genConc(r *hx.Rng, wide bool) ConcCase {
	var cc ConcCase

	n := 2 + r.Intn(3)
	if wide {
		n = 6 + r.Intn(7)
	}

	cc.Pre = setup(2) // instances 0 (user 1), 1 (user 2)
	for k := 1; k < n; k++ {
		cc.Pre = append(cc.Pre, Op{Kind: "new", U: 1}) // instances 2.. (user 1)
	}

	inst := func(k int) int { // k-th instance of user 1
		if k == 0 {
			return 0
		}

		return k + 1
	}

	ntok := 0

	if r.Intn(3) == 0 { // user 2 open: a foreign live token exists
		cc.Pre = append(cc.Pre, Op{Kind: "open", I: 1})
		ntok++
	}

	foreign := ntok - 1
	own := -1

	if r.Intn(4) == 0 { // user 1 already open: every overlapping Open must fail
		cc.Pre = append(cc.Pre, Op{Kind: "open", I: 0}, Op{Kind: "add", I: 0, Tok: ntok, C: 1, V: 501})
		own = ntok
		ntok++
	}

	withClose := wide && r.Intn(5) < 2
	slots := n

	if !wide {
		// 2..4 calls in all: openers plus at most one token operation
		if r.Intn(2) == 0 {
			slots = n - 1
		}
	}

	for k := 0; k < slots; k++ {
		cc.Conc = append(cc.Conc, Op{Kind: "open", I: inst(k)})
	}

	if slots < n || (wide && r.Intn(2) == 0) {
		switch r.Intn(4) {
		case 0:
			cc.Conc = append(cc.Conc, Op{Kind: "key", I: 1, Tok: own}) // user 2's instance, user 1's token (or never issued)
		case 1:
			cc.Conc = append(cc.Conc, Op{Kind: "key", I: 0, Tok: foreign})
		case 2:
			cc.Conc = append(cc.Conc, Op{Kind: "key", I: inst(n - 1), Tok: own})
		default:
			cc.Conc = append(cc.Conc, Op{Kind: "get", I: inst(n - 1), Tok: own, C: 1})
		}
	}

	if withClose {
		cc.Conc = append(cc.Conc, Op{Kind: "close", I: inst(r.Intn(n))})
	}

	// every token that can exist afterwards
	maxTok := ntok + slots

	for t := 0; t < maxTok; t++ {
		cc.Post = append(cc.Post, Op{Kind: "key", I: inst(r.Intn(n)), Tok: t})
	}

	cc.Post = append(cc.Post, Op{Kind: "close", I: inst(r.Intn(n))})

	for t := 0; t < maxTok; t++ {
		cc.Post = append(cc.Post, Op{Kind: "key", I: inst(r.Intn(n)), Tok: t})
		if !wide || t < 3 {
			cc.Post = append(cc.Post, Op{Kind: "get", I: inst(r.Intn(n)), Tok: t, C: 1}, Op{Kind: "key", I: 1, Tok: t})
		}
	}

	return cc
}

func concPhase(args hx.Args, rng *hx.Rng, tr *hx.Trace) {
	nTied, nWide := 400, 6000
	if args.Tier == "thorough" {
		nTied, nWide = 3000, 25000
	}

	jobs := make([]ConcCase, 0, nTied+nWide)
	kinds := make([]string, 0, nTied+nWide)

	for i := 0; i < nTied+nWide; i++ {
		r := rng.Fork(uint64(5_000_000 + i))
		jobs = append(jobs, genConc(r, i >= nTied))

		if i >= nTied {
			kinds = append(kinds, "concurrent-wide")
		} else {
			kinds = append(kinds, "concurrent")
		}
	}

	out := make([]*hx.Record, len(jobs))

	var (
		wg   sync.WaitGroup
		mu   sync.Mutex
		next int
	)

	for k := 0; k < 4; k++ {
		wg.Add(1)

		go func() {
			defer wg.Done()

			for {
				mu.Lock()
				i := next
				next++
				mu.Unlock()

				if i >= len(jobs) {
					return
				}

				out[i] = runConc(kinds[i], jobs[i])
			}
		}()
	}

	wg.Wait()

	// identical wide rounds without a finding carry no information individually: keep one record per class
	seen := map[string]bool{}

	for i, r := range out {
		if kinds[i] == "concurrent-wide" && r.Oracle == "ok" {
			if seen[r.Class] {
				continue
			}

			seen[r.Class] = true
		}

		tr.Put(r)
	}
}
