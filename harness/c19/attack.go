package main

import (
	"encoding/base64"
	"fmt"

	"github.com/hyperledger/aries-framework-go/component/storageutil/mem"
	"github.com/hyperledger/aries-framework-go/pkg/client/vcwallet"
	"github.com/hyperledger/aries-framework-go/pkg/doc/did"
	"github.com/hyperledger/aries-framework-go/pkg/framework/aries"
	vdrapi "github.com/hyperledger/aries-framework-go/pkg/framework/aries/api/vdr"
	"github.com/hyperledger/aries-framework-go/pkg/kms"
	mockvdr "github.com/hyperledger/aries-framework-go/pkg/mock/vdr"
	"github.com/hyperledger/aries-framework-go/pkg/vdr/fingerprint"
	"github.com/hyperledger/aries-framework-go/pkg/vdr/key"
	"github.com/hyperledger/aries-framework-go/pkg/wallet"

	"verifharness/hx"
)

// Methods outside the Coq model, checked by the direct oracle only.

type probe struct {
	Method string   `json:"method"`
	Inst   int      `json:"inst_user"`
	Token  string   `json:"token"` // own | foreign | closed | never-issued
	Result string   `json:"result"`
	Calls  []string `json:"storage_calls,omitempty"`
}

// signJWTAttack: profile 1 creates a signing key; SignJWT is then called on instances of both profiles with
// every kind of token.  Only (own instance, own live token) may sign.
func signJWTAttack(rep int) *hx.Record {
	w := newWorld()
	defer w.cleanup()

	w.ctx.VDRegistryValue = &mockvdr.MockVDRegistry{
		ResolveFunc: func(id string, _ ...vdrapi.DIDMethodOption) (*did.DocResolution, error) {
			return key.New().Read(id)
		},
	}

	rec := &hx.Record{Kind: "attack", Oracle: "ok", Class: "signjwt", Dist: []string{"attack=signjwt"}}
	fail := func(sig, detail string) {
		if rec.Oracle == "ok" {
			rec.Oracle, rec.Sig, rec.Detail = "fail", sig, detail
		}
	}

	for _, op := range append(setup(2), Op{Kind: "open", I: 0}, Op{Kind: "open", I: 1}) {
		if o, _ := w.apply(op); o.Out == "err" {
			rec.Trivial, rec.Detail = true, "setup failed: "+o.Err
			return rec
		}
	}

	kp, err := w.insts[0].CreateKeyPair(w.toks[0], kms.ED25519Type)
	if err != nil {
		rec.Trivial, rec.Detail = true, "setup failed: "+err.Error()
		return rec
	}

	pub, err := base64.RawURLEncoding.DecodeString(kp.PublicKey)
	if err != nil {
		rec.Trivial, rec.Detail = true, "setup failed: "+err.Error()
		return rec
	}

	_, vm := fingerprint.CreateDIDKey(pub)
	claims := map[string]interface{}{"iss": "c19", "n": rep}

	var probes []probe

	try := func(inst int, tokName, tok string, mayAdmit bool) {
		w.rec.Reset()

		jws, e := w.insts[inst].SignJWT(tok, nil, claims, vm)
		p := probe{Method: "SignJWT", Inst: w.iuser[inst], Token: tokName, Result: "error", Calls: touchedData(w.rec.Snapshot())}

		if e == nil && jws != "" {
			p.Result = "signed"
		}

		probes = append(probes, p)

		if p.Result == "signed" && !mayAdmit {
			fail(tokName+"-token-admitted:signjwt", fmt.Sprintf("SignJWT on an instance of user %d signed with a %s token", w.iuser[inst], tokName))
		}

		if p.Result != "signed" && !mayAdmit && len(p.Calls) > 0 {
			fail("rejected-op-touched-storage:signjwt", fmt.Sprintf("SignJWT rejected (%v) but made storage calls %v", e, p.Calls))
		}

		if p.Result != "signed" && mayAdmit {
			// not a violation of the property (only-if), but the probe would be vacuous
			rec.Trivial = true
			rec.Detail = fmt.Sprintf("own token did not sign: %v", e)
		}
	}

	try(0, "own", w.toks[0], true)
	try(1, "foreign", w.toks[0], false)
	try(1, "never-issued", w.tokenString(-1), false)
	try(0, "never-issued", w.tokenString(-1), false)
	try(0, "foreign", w.toks[1], false)
	w.insts[0].Close()
	try(0, "closed", w.toks[0], false)
	try(1, "foreign-closed", w.toks[0], false)

	rec.Case = map[string]interface{}{"attack": "signjwt", "rep": rep}
	rec.Observed = probes

	return rec
}

// clientAttack: two vcwallet.Client on one provider; a client keeps its token inside, so what can be checked is
// isolation of contents between clients and that close locks exactly the closed one.
func clientAttack(rep int) *hx.Record {
	rec := &hx.Record{Kind: "attack", Oracle: "ok", Class: "vcwallet-client", Dist: []string{"attack=vcwallet-client"},
		Case: map[string]interface{}{"attack": "vcwallet-client", "rep": rep}}
	fail := func(sig, detail string) {
		if rec.Oracle == "ok" {
			rec.Oracle, rec.Sig, rec.Detail = "fail", sig, detail
		}
	}

	fw, err := aries.New(aries.WithStoreProvider(keepProvider{mem.NewProvider()}),
		aries.WithProtocolStateStoreProvider(mem.NewProvider()))
	if err != nil {
		rec.Trivial, rec.Detail = true, "setup: "+err.Error()
		return rec
	}

	defer fw.Close() //nolint:errcheck

	ctx, err := fw.Context()
	if err != nil {
		rec.Trivial, rec.Detail = true, "setup: "+err.Error()
		return rec
	}

	id := atomicNext()
	users := []string{fmt.Sprintf("c19-%s-cl%d-a", runNonce, id), fmt.Sprintf("c19-%s-cl%d-b", runNonce, id)}
	if k := rep % (nameSchemes + 1); k != 0 { // user IDs that are look-alikes of one another (names.go)
		base := fmt.Sprintf("c19-%s-cl%d-user@example.com", runNonce, id)
		users = []string{similarName(base, k, 1), similarName(base, k, 2)}
	}


	var cl []*vcwallet.Client

	for i, u := range users {
		if e := vcwallet.CreateProfile(u, ctx, wallet.WithPassphrase(pass(i+1))); e != nil {
			rec.Trivial, rec.Detail = true, "setup: "+e.Error()
			return rec
		}

		x, e := vcwallet.New(u, ctx, wallet.WithUnlockByPassphrase(pass(i+1)))
		if e != nil {
			// the DIDComm part of the client needs services this provider does not carry
			rec.Trivial, rec.Detail = true, "setup: "+e.Error()
			return rec
		}

		cl = append(cl, x)
	}

	defer func() {
		for _, x := range cl {
			x.Close()
		}
	}()

	for i, x := range cl {
		b := []byte(fmt.Sprintf(`{"id":"c%d","type":"Metadata","v":%d}`, i+1, 700+i))
		if e := x.Add(wallet.Metadata, b); e != nil {
			// an own operation that fails is not against the property (only-if); the probe is then vacuous
			rec.Trivial, rec.Detail = true, "own add failed: "+e.Error()
			return rec
		}
	}

	for i, x := range cl {
		m, e := x.GetAll(wallet.Metadata)
		if e != nil || len(m) != 1 || m[fmt.Sprintf("c%d", i+1)] == nil {
			fail("content-crosses-profiles", fmt.Sprintf("client %d lists %d rows (%v)", i, len(m), e))
		}

		if _, e := x.Get(wallet.Metadata, fmt.Sprintf("c%d", 2-i)); e == nil {
			fail("content-crosses-profiles", fmt.Sprintf("client %d read the other client's row", i))
		}
	}

	cl[0].Close()

	if _, e := cl[0].GetAll(wallet.Metadata); e == nil {
		fail("closed-token-admitted:client", "closed client still lists contents")
	}

	if _, e := cl[1].GetAll(wallet.Metadata); e != nil {
		rec.Trivial, rec.Detail = true, "closing client a locked client b: "+e.Error()
	}

	return rec
}

func atomicNext() uint64 { return newWorldID() }
