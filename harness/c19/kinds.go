package main

import (
	"crypto/ed25519"
	"crypto/sha256"
	"encoding/base64"
	"encoding/json"
	"errors"
	"fmt"
	"sort"
	"strings"
	"sync"

	"github.com/btcsuite/btcutil/base58"
	"github.com/piprate/json-gold/ld"

	ldtestutil "github.com/hyperledger/aries-framework-go/component/models/ld/testutil"
	"github.com/hyperledger/aries-framework-go/pkg/crypto/primitive/bbs12381g2pub"
	"github.com/hyperledger/aries-framework-go/pkg/kms"
	"github.com/hyperledger/aries-framework-go/pkg/vdr/fingerprint"
	"github.com/hyperledger/aries-framework-go/pkg/vdr/key"
	"github.com/hyperledger/aries-framework-go/pkg/wallet"
)

// Content ids of the model: 100 * content type + number (the wallet's storage key is "<type>_<id>").
const (
	ctCollection = 1
	ctCredential = 2
	ctDIDRes     = 3
	ctMetadata   = 4
	ctConnection = 5
	ctKey        = 6
	importBase   = 1000 // key id kn = importBase + j : the j-th seeded Ed25519 key of the world
)

func ctOf(c int) wallet.ContentType {
	switch c / 100 {
	case ctCollection:
		return wallet.Collection
	case ctCredential:
		return wallet.Credential
	case ctDIDRes:
		return wallet.DIDResolutionResponse
	case ctMetadata:
		return wallet.Metadata
	case ctConnection:
		return wallet.Connection
	case ctKey:
		return wallet.Key
	}

	return wallet.ContentType("unknown")
}

var (
	loaderOnce sync.Once         //nolint:gochecknoglobals
	sharedLD   ld.DocumentLoader //nolint:gochecknoglobals
)

func documentLoader() ld.DocumentLoader {
	loaderOnce.Do(func() {
		l, err := ldtestutil.DocumentLoader()
		if err != nil {
			panic(err)
		}

		sharedLD = l
	})

	return sharedLD
}

// normOp keeps the early corpus / generator spelling working: ids below 100 are Metadata numbers.
func normOp(op Op) Op {
	if op.C > 0 && op.C < 100 {
		op.C += ctMetadata * 100
	}

	if op.Kind == "getall" && op.CT == 0 {
		op.CT = ctMetadata
	}

	return op
}

func normOps(ops []Op) []Op {
	out := make([]Op, len(ops))
	for i, o := range ops {
		out[i] = normOp(o)
	}

	return out
}

// seeded Ed25519 key j of the world (the same key material whoever imports it: two profiles importing key j collide)
func (w *world) edKey(j int) (ed25519.PrivateKey, string, string) {
	seed := sha256.Sum256([]byte(fmt.Sprintf("c19 world key %s %d %d", runNonce, w.id, j)))
	priv := ed25519.NewKeyFromSeed(seed[:])
	pub, _ := priv.Public().(ed25519.PublicKey)
	d, vm := fingerprint.CreateDIDKey(pub)

	return priv, d, vm
}

func (w *world) idStr(c int) string {
	n := c % 100

	switch c / 100 {
	case ctCollection:
		return fmt.Sprintf("did:example:col-%d", n)
	case ctCredential:
		return fmt.Sprintf("http://example.edu/credentials/c19-%d", n)
	case ctDIDRes:
		_, d, _ := w.edKey(500 + n)
		return d
	case ctMetadata:
		return fmt.Sprintf("did:example:m-%d", n)
	case ctConnection:
		return fmt.Sprintf("conn-%d", n)
	}

	return fmt.Sprintf("unknown-%d", c)
}

func (w *world) cidOf(ct int, id string) int {
	n := -1

	switch ct {
	case ctCollection:
		_, _ = fmt.Sscanf(id, "did:example:col-%d", &n)
	case ctCredential:
		_, _ = fmt.Sscanf(id, "http://example.edu/credentials/c19-%d", &n)
	case ctDIDRes:
		for k := 0; k < 100; k++ {
			if _, d, _ := w.edKey(500 + k); d == id {
				n = k
				break
			}
		}
	case ctMetadata:
		_, _ = fmt.Sscanf(id, "did:example:m-%d", &n)
	case ctConnection:
		_, _ = fmt.Sscanf(id, "conn-%d", &n)
	}

	if n < 0 {
		return -1
	}

	return ct*100 + n
}

// notary: a wallet profile outside the histories which signs the two real credentials every profile may store
// (c19-1: Ed25519Signature2018, c19-2: BbsBlsSignature2020); issuer = the notary's did:key, so verification needs no
// key of the verifying profile.
type notary struct {
	vcs map[int][]byte
	err error
}

func (w *world) notarize() *notary {
	if w.nota != nil {
		return w.nota
	}

	n := &notary{vcs: map[int][]byte{}}
	w.nota = n

	user := fmt.Sprintf("c19-%s-%d-notary", runNonce, w.id)
	if n.err = wallet.CreateProfile(user, w.ctx, wallet.WithPassphrase("notary")); n.err != nil {
		return n
	}

	x, err := wallet.New(user, w.ctx)
	if err != nil {
		n.err = err
		return n
	}

	tok, err := x.Open(wallet.WithUnlockByPassphrase("notary"))
	if err != nil {
		n.err = err
		return n
	}

	defer x.Close()

	priv, edDID, edVM := w.edKey(900)

	if n.err = x.Add(tok, wallet.Key, []byte(fmt.Sprintf(`{"id":"%s","type":"Ed25519VerificationKey2018","privateKeyBase58":"%s"}`,
		edVM, base58.Encode(priv)))); n.err != nil {
		return n
	}

	bseed := sha256.Sum256([]byte(fmt.Sprintf("c19 notary bbs %s %d", runNonce, w.id)))

	bpub, bpriv, err := bbs12381g2pub.GenerateKeyPair(sha256.New, bseed[:])
	if err != nil {
		n.err = err
		return n
	}

	bpubB, _ := bpub.Marshal()
	bprivB, _ := bpriv.Marshal()
	bbsDID, bbsVM := fingerprint.CreateDIDKeyByCode(fingerprint.BLS12381g2PubKeyMultiCodec, bpubB)

	if n.err = x.Add(tok, wallet.Key, []byte(fmt.Sprintf(`{"id":"%s","type":"Bls12381G1Key2020","privateKeyBase58":"%s"}`,
		bbsVM, base58.Encode(bprivB)))); n.err != nil {
		return n
	}

	vc1, err := x.Issue(tok, vcJSON(w.idStr(201), edDID, false), &wallet.ProofOptions{Controller: edDID})
	if err != nil {
		n.err = err
		return n
	}

	vc2, err := x.Issue(tok, vcJSON(w.idStr(202), bbsDID, true),
		&wallet.ProofOptions{Controller: bbsDID, ProofType: wallet.BbsBlsSignature2020, ProofRepresentation: &proofValue})
	if err != nil {
		n.err = err
		return n
	}

	if n.vcs[1], n.err = vc1.MarshalJSON(); n.err != nil {
		return n
	}

	n.vcs[2], n.err = vc2.MarshalJSON()

	return n
}

// contentFor builds the document stored under content id c with value v.
func (w *world) contentFor(c, v int) ([]byte, error) {
	switch c / 100 {
	case ctCollection:
		return []byte(fmt.Sprintf(`{"id":"%s","type":"Collection","v":%d}`, w.idStr(c), v)), nil
	case ctMetadata:
		return []byte(fmt.Sprintf(`{"id":"%s","type":"Person","v":%d}`, w.idStr(c), v)), nil
	case ctConnection:
		return []byte(fmt.Sprintf(`{"id":"%s","type":"Connection","v":%d}`, w.idStr(c), v)), nil
	case ctCredential:
		n := w.notarize()
		if n.err != nil {
			return nil, n.err
		}

		if b, ok := n.vcs[c%100]; ok {
			return b, nil
		}

		return nil, fmt.Errorf("no real credential for content id %d", c)
	case ctDIDRes:
		res, err := key.New().Read(w.idStr(c))
		if err != nil {
			return nil, err
		}

		return res.JSONBytes()
	}

	return nil, fmt.Errorf("no content for id %d", c)
}

type labelKey struct {
	store string
	c     int
}

// valueOf reads the value of a stored document: the "v" member, or (credentials, DID resolutions: real documents
// without room for it) the label noted when the document was added through that profile.
func (w *world) valueOf(u, c int, raw []byte) int {
	switch c / 100 {
	case ctCredential, ctDIDRes:
		return w.labels[labelKey{fmt.Sprint(u), c}]
	}

	var d content
	_ = json.Unmarshal(raw, &d)

	return d.V
}

func rowsOfMap(w *world, u, ct int, m map[string]json.RawMessage) [][2]int {
	all := [][2]int{}

	for k, v := range m {
		c := w.cidOf(ct, k)
		all = append(all, [2]int{c, w.valueOf(u, c, v)})
	}

	sort.Slice(all, func(a, b int) bool { return all[a][0] < all[b][0] })

	return all
}

// classifyUse maps the answer of a method that returns no stored data.
func classifyUse(err error) string {
	switch {
	case err == nil:
		return "done"
	case errors.Is(err, wallet.ErrWalletLocked) || strings.Contains(err.Error(), "wallet locked"):
		return "locked"
	case errors.Is(err, wallet.ErrInvalidAuthToken) || strings.Contains(err.Error(), "invalid auth token"):
		return "badtoken"
	}

	return "notfound" // got past the gates, then failed on the data (missing credential / key)
}

// signing identity for key id kn as the model knows it
func (w *world) vmOfKey(kn int) (string, string) {
	if kn >= importBase {
		_, d, vm := w.edKey(kn - importBase)
		return d, vm
	}

	if kn >= 0 && kn < len(w.kpubs) && w.kpubs[kn] != nil {
		return fingerprint.CreateDIDKey(w.kpubs[kn])
	}

	_, d, vm := w.edKey(777) // a key nobody holds

	return d, vm
}

func (w *world) use(x *wallet.Wallet, tok string, op Op) error {
	did, vm := w.vmOfKey(op.KN)
	n := w.notarize()

	if n.err != nil {
		return fmt.Errorf("notary: %w", n.err)
	}

	switch op.M {
	case "query":
		_, err := x.Query(tok, &wallet.QueryParams{Type: "DIDAuth"})
		return err
	case "issue":
		w.fresh++
		_, err := x.Issue(tok, vcJSON(fmt.Sprintf("http://example.edu/credentials/c19-i%04d", w.fresh), did, false),
			&wallet.ProofOptions{Controller: did})

		return err
	case "prove-stored":
		_, err := x.Prove(tok, &wallet.ProofOptions{Controller: did}, wallet.WithStoredCredentialsToProve(w.idStr(op.C)))
		return err
	case "prove-raw":
		_, err := x.Prove(tok, &wallet.ProofOptions{Controller: did}, wallet.WithRawCredentialsToProve(n.vcs[1]))
		return err
	case "verify-stored":
		ok, err := x.Verify(tok, wallet.WithStoredCredentialToVerify(w.idStr(op.C)))
		if err == nil && !ok {
			err = errors.New("not verified")
		}

		return err
	case "verify-raw":
		ok, err := x.Verify(tok, wallet.WithRawCredentialToVerify(n.vcs[1]))
		if err == nil && !ok {
			err = errors.New("not verified")
		}

		return err
	case "derive-stored":
		_, err := x.Derive(tok, wallet.FromStoredCredential(w.idStr(op.C)), &wallet.DeriveOptions{Frame: deriveFrame, Nonce: "c19"})
		return err
	case "derive-raw":
		_, err := x.Derive(tok, wallet.FromRawCredential(n.vcs[2]), &wallet.DeriveOptions{Frame: deriveFrame, Nonce: "c19"})
		return err
	case "resolve-stored":
		_, err := x.ResolveCredentialManifest(tok, []byte(manifestJSON), wallet.ResolveCredentialID("out1", w.idStr(op.C)))
		return err
	case "resolve-raw":
		_, err := x.ResolveCredentialManifest(tok, []byte(manifestJSON), wallet.ResolveRawCredential("out1", n.vcs[1]))
		return err
	case "signjwt":
		_, err := x.SignJWT(tok, nil, map[string]interface{}{"iss": "c19"}, vm)
		return err
	}

	return fmt.Errorf("unknown method %q", op.M)
}

var coqMeth = map[string]string{ //nolint:gochecknoglobals
	"query": "MQuery", "issue": "MIssue", "prove-stored": "MProveStored", "prove-raw": "MProveRaw",
	"verify-stored": "MVerifyStored", "verify-raw": "MVerifyRaw", "derive-stored": "MDeriveStored",
	"derive-raw": "MDeriveRaw", "resolve-stored": "MResolveStored", "resolve-raw": "MResolveRaw", "signjwt": "MSignJWT",
}

// token operations beyond the five early ones
func (w *world) applyMore(x *wallet.Wallet, tok string, op Op) (Obs, bool) {
	u := w.iuser[op.I]

	switch op.Kind {
	case "import":
		priv, _, vm := w.edKey(op.KN - importBase)
		err := x.Add(tok, wallet.Key, []byte(fmt.Sprintf(`{"id":"%s","type":"Ed25519VerificationKey2018","privateKeyBase58":"%s"}`,
			vm, base58.Encode(priv))))

		switch {
		case err == nil:
			w.kids = append(w.kids, vm[strings.Index(vm, "#")+1:])

			return Obs{Out: "done"}, true
		case strings.Contains(err.Error(), "already exists"):
			return Obs{Out: "exists", Err: errStr(err)}, true
		}

		return Obs{Out: classify(err), Err: errStr(err)}, true
	case "keynomat":
		// a Key content without private key material (nothing to import), in one of four shapes
		_, _, vm := w.edKey(op.KN)
		doc := [...]string{
			fmt.Sprintf(`{"id":"%s","type":"Ed25519VerificationKey2018"}`, vm),
			`{}`,
			fmt.Sprintf(`{"id":"%s","type":"Ed25519VerificationKey2018","privateKeyBase58":""}`, vm),
			fmt.Sprintf(`{"@context":["https://w3id.org/wallet/v1"],"id":"%s","controller":"did:example:c19","type":"Bls12381G1Key2020"}`, vm),
		}[op.KN&3]
		err := x.Add(tok, wallet.Key, []byte(doc))

		return Obs{Out: classify(err), Err: errStr(err)}, true
	case "addin":
		b, err := w.contentFor(op.C, op.V)
		if err != nil {
			return Obs{Out: "err", Err: err.Error()}, true
		}

		err = x.Add(tok, ctOf(op.C), b, wallet.AddByCollection(w.idStr(op.Col)))
		if err == nil {
			w.labels[labelKey{fmt.Sprint(u), op.C}] = op.V
		}

		return Obs{Out: classify(err), Err: errStr(err)}, true
	case "getallin":
		m, err := x.GetAll(tok, ctOf(op.CT*100), wallet.FilterByCollection(w.idStr(op.Col)))
		if err != nil {
			return Obs{Out: classify(err), Err: errStr(err)}, true
		}

		return Obs{Out: "all", All: rowsOfMap(w, u, op.CT, m)}, true
	case "use":
		err := w.use(x, tok, op)
		return Obs{Out: classifyUse(err), Err: errStr(err)}, true
	}

	return Obs{}, false
}

func pubOfKeyPair(kp *wallet.KeyPair) []byte {
	b, err := base64.RawURLEncoding.DecodeString(kp.PublicKey)
	if err != nil {
		return nil
	}

	return b
}

var _ = kms.ED25519Type
