package main

import "strings"

// User IDs that are look-alikes of one another.  A wallet user ID is an opaque string: two IDs that differ in anything
// (letter case, a blank, one more character, a Unicode look-alike, a different normalisation form) are two users, each
// with its own profile, contents, keys, session and token.  Scheme k builds, from one base name, the IDs of users
// 1..3 of a world (and of the two or three users of the attack streams); scheme 0 (not here) = plainly distinct names.
const nameSchemes = 8

func similarName(base string, scheme, u int) string {
	at := strings.Index(base, "@")
	local, domain := base, ""

	if at >= 0 {
		local, domain = base[:at], base[at:]
	}

	v := (u - 1) % 3

	switch scheme {
	case 1: // letter case of the whole ID
		return [...]string{base, strings.ToUpper(base), strings.ToUpper(base[:1]) + base[1:]}[v]
	case 2: // letter case of the local part / of the domain only
		return [...]string{base, strings.ToUpper(local) + domain, local + strings.ToUpper(domain)}[v]
	case 3: // blanks around
		return [...]string{base, base + " ", " " + base}[v]
	case 4: // one is a prefix of the other
		return [...]string{base, base + "x", base[:len(base)-1]}[v]
	case 5: // Unicode look-alikes: full-width letter, Cyrillic letter for a Latin one
		return [...]string{base, strings.Replace(base, "u", "\uff55", 1), strings.Replace(base, "e", "\u0435", 1)}[v]
	case 6: // normalisation forms: precomposed and decomposed accent, without accent
		return [...]string{"\u00e9" + base, "e\u0301" + base, "e" + base}[v]
	case 7: // separators that some stores and URL paths fold: dot, plus-suffix, trailing slash
		return [...]string{base, strings.Replace(base, "-user", ".user", 1), local + "+x" + domain}[v]
	default: // trailing NUL / newline / tab
		return [...]string{base, base + "\x00", base + "\n"}[v]
	}
}
