package main

import (
	"encoding/json"
	"fmt"
	"net/http"
	"net/http/httptest"
	"strings"
	"sync"

	"github.com/hyperledger/aries-framework-go/pkg/kms"
	"github.com/hyperledger/aries-framework-go/pkg/wallet"

	"verifharness/hx"
)

// Remote-KMS profiles.  keyServer is a multi-tenant web KMS on loopback: one key store per authorization value it
// knows, 401 for any other; it records which authorization every request carried and in which tenant's store every
// created key landed.  That record is the observation "whose key is it" for keys of remote profiles (for local
// profiles it is "whose master key opens the row of the shared kmsdb").

type srvReq struct {
	Bearer string
	Path   string
}

type keyServer struct {
	mu      sync.Mutex
	srv     *httptest.Server
	tenants map[string][]string // authorization -> key ids created with it
	reqs    []srvReq
	n       int
}

func newKeyServer() *keyServer {
	k := &keyServer{tenants: map[string][]string{}}
	k.srv = httptest.NewServer(http.HandlerFunc(k.handle))

	return k
}

func (k *keyServer) register(bearer string) {
	k.mu.Lock()
	defer k.mu.Unlock()

	if _, ok := k.tenants[bearer]; !ok {
		k.tenants[bearer] = nil
	}
}

func (k *keyServer) handle(rw http.ResponseWriter, r *http.Request) {
	bearer := strings.TrimPrefix(r.Header.Get("authorization"), "Bearer ")

	k.mu.Lock()
	defer k.mu.Unlock()

	k.reqs = append(k.reqs, srvReq{Bearer: bearer, Path: r.Method + " " + r.URL.Path})

	if _, ok := k.tenants[bearer]; !ok {
		rw.WriteHeader(http.StatusUnauthorized)
		_, _ = rw.Write([]byte(`{"errMessage":"unauthorized"}`))

		return
	}

	if r.Method != http.MethodPost || !strings.HasSuffix(r.URL.Path, "/keys") {
		rw.WriteHeader(http.StatusNotFound)
		_, _ = rw.Write([]byte(`{"errMessage":"not found"}`))

		return
	}

	k.n++
	kid := fmt.Sprintf("rk-%p-%d", k, k.n)
	k.tenants[bearer] = append(k.tenants[bearer], kid)

	resp, _ := json.Marshal(map[string]interface{}{
		"key_url":    fmt.Sprintf("%s/keys/%s", k.srv.URL, kid),
		"public_key": []byte("public key of " + kid),
	})

	rw.WriteHeader(http.StatusCreated)
	_, _ = rw.Write(resp)
}

func (k *keyServer) tenantOf(kid string) (string, bool) {
	k.mu.Lock()
	defer k.mu.Unlock()

	for b, ids := range k.tenants {
		for _, id := range ids {
			if id == kid {
				return b, true
			}
		}
	}

	return "", false
}

// drain returns and forgets the requests seen so far.
func (k *keyServer) drain() []srvReq {
	k.mu.Lock()
	defer k.mu.Unlock()

	r := k.reqs
	k.reqs = nil

	return r
}

func (w *world) bearer(u int) string { return fmt.Sprintf("authz-%s-%d-u%d", runNonce, w.id, u) }

func (w *world) server(n int) *keyServer {
	if w.servers == nil {
		w.servers = map[int]*keyServer{}
	}

	if w.servers[n] == nil {
		w.servers[n] = newKeyServer()
	}

	return w.servers[n]
}

// remoteOwner: the user in whose tenant store the key server holds kid (0 = none)
func (w *world) remoteOwner(kid string) int {
	for _, s := range w.servers {
		if b, ok := s.tenantOf(kid); ok {
			for u := 1; u <= maxUsers; u++ {
				if w.bearer(u) == b {
					return u
				}
			}

			return -1
		}
	}

	return 0
}

func (w *world) drainServers() []srvReq {
	var all []srvReq
	for _, s := range w.servers {
		all = append(all, s.drain()...)
	}

	return all
}

// remoteAttack: three remote profiles on ONE key server URL (two known to the server, one whose authorization the
// server does not know) and one local profile, unlocked in every order; keys are created through each.
func remoteAttack(rep int, r *hx.Rng) *hx.Record { //nolint:gocyclo
	w := newWorld()
	defer w.cleanup()

	rec := &hx.Record{Kind: "attack", Oracle: "ok", Class: "remote-kms", Dist: []string{"attack=remote-kms"},
		Case: map[string]interface{}{"attack": "remote-kms", "rep": rep}}
	fail := func(sig, detail string) {
		if rec.Oracle == "ok" {
			rec.Oracle, rec.Sig, rec.Detail = "fail", sig, detail
		}
	}

	srv := w.server(1)
	unknown := fmt.Sprintf("c19-%s-%d-mallory", runNonce, w.id)
	mBearer := "authz-unknown-to-the-key-server"

	ops := []Op{{Kind: "create", U: 1, Remote: 1}, {Kind: "create", U: 2, Remote: 1}, {Kind: "create", U: 3},
		{Kind: "new", U: 1}, {Kind: "new", U: 2}, {Kind: "new", U: 3}}
	for _, op := range ops {
		if o, _ := w.apply(op); o.Out == "err" {
			rec.Trivial, rec.Detail = true, "setup: "+o.Err
			return rec
		}
	}

	if e := wallet.CreateProfile(unknown, w.ctx, wallet.WithKeyServerURL(srv.srv.URL)); e != nil {
		rec.Trivial, rec.Detail = true, "setup: "+e.Error()
		return rec
	}

	mw, e := wallet.New(unknown, w.ctx)
	if e != nil {
		rec.Trivial, rec.Detail = true, "setup: "+e.Error()
		return rec
	}

	defer mw.Close()

	// unlock order is seeded: the defect class here is "state left by whoever unlocked first"
	order := []int{0, 1, 2, 3}
	for k := len(order) - 1; k > 0; k-- {
		j := r.Intn(k + 1)
		order[k], order[j] = order[j], order[k]
	}

	var mTok string

	for _, i := range order {
		if i == 3 {
			mTok, e = mw.Open(wallet.WithUnlockByAuthorizationToken(mBearer))
			if e != nil {
				rec.Trivial, rec.Detail = true, "open: "+e.Error()
				return rec
			}

			continue
		}

		if o, _ := w.apply(Op{Kind: "open", I: i}); o.Out != "tok" {
			rec.Trivial, rec.Detail = true, "open: "+o.Err
			return rec
		}
	}

	tokOf := map[int]string{}
	for k, g := range w.grants {
		tokOf[g.user] = w.toks[k]
	}

	var probes []mprobe

	w.drainServers()

	for round := 0; round < 2; round++ {
		for _, i := range order {
			if i == 3 {
				kp, err := mw.CreateKeyPair(mTok, kms.ED25519Type)
				reqs := w.drainServers()
				p := mprobe{Method: "createkeypair", Inst: 9, Token: "own-live/unknown-authorization", Result: "error", Err: errStr(err)}

				if err == nil {
					p.Result = "ok"
					fail("key-created-with-another-profiles-authorization",
						fmt.Sprintf("a profile whose authorization the key server does not know created key %s (it is in the store of user %d)", kp.KeyID, w.remoteOwner(kp.KeyID)))
				}

				for _, q := range reqs {
					if q.Bearer != mBearer {
						fail("request-carries-other-profiles-authorization", "a request of the unknown profile carried "+q.Bearer)
					}
				}

				probes = append(probes, p)

				continue
			}

			u := i + 1
			kp, err := w.insts[i].CreateKeyPair(tokOf[u], kms.ED25519Type)
			reqs := w.drainServers()
			p := mprobe{Method: "createkeypair", Inst: u, Token: "own-live", Result: "ok", Err: errStr(err)}

			if err != nil {
				p.Result = "error"
				rec.Trivial = true
			} else if u <= 2 {
				if o := w.remoteOwner(kp.KeyID); o != u {
					fail("key-under-other-profile", fmt.Sprintf("key %s created through remote profile %d is in the key store of user %d", kp.KeyID, u, o))
				}
			}

			for _, q := range reqs {
				if u == 3 || q.Bearer != w.bearer(u) {
					fail("request-carries-other-profiles-authorization", fmt.Sprintf("a key-server request made for user %d carried %q", u, q.Bearer))
				}
			}

			probes = append(probes, p)
		}

		// close and reopen one remote profile between the rounds (a later unlock must not inherit anything)
		if round == 0 {
			w.apply(Op{Kind: "close", I: 0})

			if o, _ := w.apply(Op{Kind: "open", I: 0}); o.Out == "tok" {
				tokOf[1] = w.toks[len(w.toks)-1]
			}

			w.drainServers()
		}
	}

	rec.Observed = probes

	return rec
}
