package main

import (
	"encoding/json"
	"fmt"
	"time"

	"github.com/hyperledger/aries-framework-go/component/storageutil/mem"
	"github.com/hyperledger/aries-framework-go/pkg/client/didexchange"
	"github.com/hyperledger/aries-framework-go/pkg/client/outofband"
	"github.com/hyperledger/aries-framework-go/pkg/doc/verifiable"
	"github.com/hyperledger/aries-framework-go/pkg/framework/aries"
	"github.com/hyperledger/aries-framework-go/pkg/wallet"

	"verifharness/hx"
)

// didcommAttack: the DIDComm features of the wallet (docs/vc_wallet.md: Connect, ProposePresentation, PresentProof,
// ProposeCredential, RequestCredential) take the wallet's auth token.  Two profiles on one framework; every method is
// called with every token class.  Anything but the own live token must be answered with an authorization error and
// must not create a connection record.
func didcommAttack(rep int) *hx.Record { //nolint:funlen,gocyclo
	rec := &hx.Record{Kind: "attack", Oracle: "ok", Class: "didcomm", Dist: []string{"attack=didcomm"},
		Case: map[string]interface{}{"attack": "didcomm", "rep": rep}}
	fail := func(sig, detail string) {
		if rec.Oracle == "ok" {
			rec.Oracle, rec.Sig, rec.Detail = "fail", sig, detail
		}
	}
	trivial := func(why string) *hx.Record {
		rec.Trivial, rec.Detail = true, why
		return rec
	}

	fw, err := aries.New(aries.WithStoreProvider(keepProvider{mem.NewProvider()}), aries.WithProtocolStateStoreProvider(mem.NewProvider()))
	if err != nil {
		return trivial("setup: " + err.Error())
	}

	defer fw.Close() //nolint:errcheck

	ctx, err := fw.Context()
	if err != nil {
		return trivial("setup: " + err.Error())
	}

	inviter, err := aries.New(aries.WithStoreProvider(mem.NewProvider()), aries.WithProtocolStateStoreProvider(mem.NewProvider()))
	if err != nil {
		return trivial("setup: " + err.Error())
	}

	defer inviter.Close() //nolint:errcheck

	ictx, err := inviter.Context()
	if err != nil {
		return trivial("setup: " + err.Error())
	}

	oob, err := outofband.New(ictx)
	if err != nil {
		return trivial("setup: " + err.Error())
	}

	dx, err := didexchange.New(ctx)
	if err != nil {
		return trivial("setup: " + err.Error())
	}

	id := newWorldID()
	users := []string{fmt.Sprintf("c19-%s-dc%d-a", runNonce, id), fmt.Sprintf("c19-%s-dc%d-b", runNonce, id)}
	if k := rep % (nameSchemes + 1); k != 0 { // user IDs that are look-alikes of one another (names.go)
		base := fmt.Sprintf("c19-%s-dc%d-user@example.com", runNonce, id)
		users = []string{similarName(base, k, 1), similarName(base, k, 2)}
	}


	var (
		ws   []*wallet.Wallet
		dcs  []*wallet.DidComm
		toks []string
	)

	for i, u := range users {
		if e := wallet.CreateProfile(u, ctx, wallet.WithPassphrase(pass(i+1))); e != nil {
			return trivial("setup: " + e.Error())
		}

		x, e := wallet.New(u, ctx)
		if e != nil {
			return trivial("setup: " + e.Error())
		}

		dc, e := wallet.NewDidComm(x, ctx)
		if e != nil {
			return trivial("setup: " + e.Error())
		}

		tok, e := x.Open(wallet.WithUnlockByPassphrase(pass(i + 1)))
		if e != nil {
			return trivial("setup: " + e.Error())
		}

		ws, dcs, toks = append(ws, x), append(dcs, dc), append(toks, tok)
	}

	defer func() {
		for _, x := range ws {
			x.Close()
		}
	}()

	nConn := func() int {
		cs, e := dx.QueryConnections(&didexchange.QueryConnectionsParams{})
		if e != nil {
			return -1
		}

		return len(cs)
	}

	newInv := func() (*outofband.Invitation, *wallet.GenericInvitation) {
		inv, e := oob.CreateInvitation(nil, outofband.WithLabel("c19 inviter"))
		if e != nil {
			return nil, nil
		}

		b, _ := json.Marshal(inv)
		g := &wallet.GenericInvitation{}

		if e := json.Unmarshal(b, g); e != nil {
			return inv, nil
		}

		return inv, g
	}

	type call struct {
		name string
		fn   func(dc *wallet.DidComm, tok string) error
	}

	short := wallet.WithConnectTimeout(30 * time.Millisecond)
	calls := []call{
		{"connect", func(dc *wallet.DidComm, tok string) error {
			inv, _ := newInv()
			if inv == nil {
				return fmt.Errorf("no invitation")
			}
			_, e := dc.Connect(tok, inv, short)
			return e
		}},
		{"propose-presentation", func(dc *wallet.DidComm, tok string) error {
			_, g := newInv()
			if g == nil {
				return fmt.Errorf("no invitation")
			}
			_, e := dc.ProposePresentation(tok, g, wallet.WithConnectOptions(short), wallet.WithInitiateTimeout(30*time.Millisecond))
			return e
		}},
		{"propose-credential", func(dc *wallet.DidComm, tok string) error {
			_, g := newInv()
			if g == nil {
				return fmt.Errorf("no invitation")
			}
			_, e := dc.ProposeCredential(tok, g, wallet.WithConnectOptions(short), wallet.WithInitiateTimeout(30*time.Millisecond))
			return e
		}},
		{"present-proof", func(dc *wallet.DidComm, tok string) error {
			_, e := dc.PresentProof(tok, "c19-no-such-thread", wallet.FromPresentation(&verifiable.Presentation{}))
			return e
		}},
		{"request-credential", func(dc *wallet.DidComm, tok string) error {
			_, e := dc.RequestCredential(tok, "c19-no-such-thread", wallet.FromPresentation(&verifiable.Presentation{}))
			return e
		}},
	}

	var probes []mprobe

	try := func(inst int, class, tok string) {
		for _, c := range calls {
			before := nConn()
			e := c.fn(dcs[inst], tok)
			after := nConn()
			p := mprobe{Method: c.name, Inst: inst + 1, Token: class, Result: "ok", Err: errStr(e)}

			switch {
			case e == nil:
			case authClass(e):
				p.Result = "auth-error"
			default:
				p.Result = "other-error"
			}

			if after != before {
				p.Calls = []string{fmt.Sprintf("connections %d->%d", before, after)}
			}

			probes = append(probes, p)
			rec.Dist = append(rec.Dist, "method="+c.name+"/"+class+"->"+p.Result)

			if class == "own-live" {
				continue
			}

			if p.Result != "auth-error" {
				fail(class+"-token-admitted:"+c.name, fmt.Sprintf("DidComm %s on the wallet of user %d with a %s token: %s %s", c.name, inst+1, class, p.Result, p.Err))
			} else if after != before {
				fail("rejected-op-changed-state:"+c.name, fmt.Sprintf("DidComm %s rejected but created a connection record", c.name))
			}
		}
	}

	never := fmt.Sprintf("%x", []byte(fmt.Sprintf("never issued didcomm %d", id)))

	try(0, "own-live", toks[0])
	try(1, "foreign", toks[0])
	try(0, "never-issued", never)
	try(0, "variant-of-own-live", spell(toks[0], spellings[rep%len(spellings)]))
	try(1, "variant-of-foreign-live", spell(toks[0], spellings[(rep+1)%len(spellings)]))
	ws[0].Close()
	try(0, "closed", toks[0])
	try(1, "foreign-closed", toks[0])

	rec.Observed = probes

	return rec
}
