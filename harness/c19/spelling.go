package main

import (
	"fmt"
	"strings"
)

// Variant spellings of a token.  A token is an opaque string compared exactly: any spelling other than the issued
// one is a string that was never issued (model: an unissued token number; oracle: must be rejected, nothing changes).
var spellings = []string{"upper", "mixed", "lead-space", "trail-space", "both-space", "tab", "newline", "crlf", //nolint:gochecknoglobals
	"trunc", "extend", "urlenc", "fullwidth", "nul", "quote", "bearer"}

// spell returns the token in the given spelling ("" and "lower" leave an issued token as it is: tokens are
// lower-case hex).
func spell(tok, v string) string {
	switch v {
	case "upper":
		return strings.ToUpper(tok)
	case "mixed":
		b := []byte(tok)
		for i := range b {
			if i%2 == 0 && b[i] >= 'a' && b[i] <= 'f' {
				b[i] -= 'a' - 'A'
			}
		}

		return string(b)
	case "lower":
		return strings.ToLower(tok)
	case "lead-space":
		return " " + tok
	case "trail-space":
		return tok + " "
	case "both-space":
		return "  " + tok + "  "
	case "tab":
		return "\t" + tok + "\t"
	case "newline":
		return tok + "\n"
	case "crlf":
		return tok + "\r\n"
	case "trunc":
		if len(tok) > 1 {
			return tok[:len(tok)-1]
		}

		return tok + "x"
	case "extend":
		return tok + "0"
	case "urlenc":
		if tok == "" {
			return "%20"
		}

		return fmt.Sprintf("%%%02x", tok[0]) + tok[1:]
	case "fullwidth":
		// Unicode compatibility forms of the ASCII hex digits (they case-fold / normalise to the ASCII ones)
		var b strings.Builder

		for _, r := range tok {
			switch {
			case r >= '0' && r <= '9':
				b.WriteRune('０' + (r - '0'))
			case r >= 'a' && r <= 'f':
				b.WriteRune('ａ' + (r - 'a'))
			default:
				b.WriteRune(r)
			}
		}

		return b.String()
	case "nul":
		return tok + "\x00"
	case "quote":
		return `"` + tok + `"`
	case "bearer":
		return "Bearer " + tok
	}

	return tok
}

// variantOf tells whether the spelling differs from the issued one (decided on the strings themselves)
func (w *world) variantOf(op Op) bool {
	if op.Var == "" {
		return false
	}

	base := w.tokenString(op.Tok)

	return spell(base, op.Var) != base
}

func (w *world) tokenFor(op Op) string { return spell(w.tokenString(op.Tok), op.Var) }
