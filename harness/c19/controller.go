package main

import (
	"bytes"
	"encoding/json"
	"fmt"
	"strings"

	"github.com/hyperledger/aries-framework-go/component/storageutil/mem"
	cmdvcwallet "github.com/hyperledger/aries-framework-go/pkg/controller/command/vcwallet"
	"github.com/hyperledger/aries-framework-go/pkg/framework/aries"
	"github.com/hyperledger/aries-framework-go/pkg/kms"
	"github.com/hyperledger/aries-framework-go/pkg/wallet"

	"verifharness/hx"
)

// controllerAttack: the command controller (the layer under the REST API) routes (userID, auth) pairs taken from the
// request to wallet instances it creates per call.  Two profiles on one framework; every routed content / key command
// is called with every (userID, token) combination.  Only a profile's own live token may be served.
func controllerAttack(rep int) *hx.Record { //nolint:funlen,gocyclo
	rec := &hx.Record{Kind: "attack", Oracle: "ok", Class: "command-controller", Dist: []string{"attack=command-controller"},
		Case: map[string]interface{}{"attack": "command-controller", "rep": rep}}
	fail := func(sig, detail string) {
		if rec.Oracle == "ok" {
			rec.Oracle, rec.Sig, rec.Detail = "fail", sig, detail
		}
	}
	trivial := func(why string) *hx.Record {
		rec.Trivial, rec.Detail = true, why
		return rec
	}

	fw, err := aries.New(aries.WithStoreProvider(keepProvider{mem.NewProvider()}), aries.WithProtocolStateStoreProvider(mem.NewProvider()))
	if err != nil {
		return trivial("setup: " + err.Error())
	}

	defer fw.Close() //nolint:errcheck

	ctx, err := fw.Context()
	if err != nil {
		return trivial("setup: " + err.Error())
	}

	cmd := cmdvcwallet.New(ctx, &cmdvcwallet.Config{})

	id := newWorldID()
	users := []string{fmt.Sprintf("c19-%s-cc%d-a", runNonce, id), fmt.Sprintf("c19-%s-cc%d-b", runNonce, id)}
	if k := rep % (nameSchemes + 1); k != 0 { // user IDs that are look-alikes of one another (names.go)
		base := fmt.Sprintf("c19-%s-cc%d-user@example.com", runNonce, id)
		users = []string{similarName(base, k, 1), similarName(base, k, 2)}
	}


	type fn func(rw *bytes.Buffer, req *bytes.Buffer) error

	call := func(f fn, req interface{}) (map[string]json.RawMessage, error) {
		b, _ := json.Marshal(req)

		var out bytes.Buffer

		if e := f(&out, bytes.NewBuffer(b)); e != nil {
			return nil, e
		}

		m := map[string]json.RawMessage{}
		_ = json.Unmarshal(out.Bytes(), &m)

		return m, nil
	}

	wrap := func(f func(rw *bytes.Buffer, req *bytes.Buffer) error) fn { return f }

	createProfile := wrap(func(rw, req *bytes.Buffer) error {
		if e := cmd.CreateProfile(rw, req); e != nil {
			return e
		}
		return nil
	})
	open := wrap(func(rw, req *bytes.Buffer) error {
		if e := cmd.Open(rw, req); e != nil {
			return e
		}
		return nil
	})
	closeW := wrap(func(rw, req *bytes.Buffer) error {
		if e := cmd.Close(rw, req); e != nil {
			return e
		}
		return nil
	})
	add := wrap(func(rw, req *bytes.Buffer) error {
		if e := cmd.Add(rw, req); e != nil {
			return e
		}
		return nil
	})
	get := wrap(func(rw, req *bytes.Buffer) error {
		if e := cmd.Get(rw, req); e != nil {
			return e
		}
		return nil
	})
	getAll := wrap(func(rw, req *bytes.Buffer) error {
		if e := cmd.GetAll(rw, req); e != nil {
			return e
		}
		return nil
	})
	remove := wrap(func(rw, req *bytes.Buffer) error {
		if e := cmd.Remove(rw, req); e != nil {
			return e
		}
		return nil
	})
	createKey := wrap(func(rw, req *bytes.Buffer) error {
		if e := cmd.CreateKeyPair(rw, req); e != nil {
			return e
		}
		return nil
	})

	toks := make([]string, 2)

	for i, u := range users {
		if _, e := call(createProfile, &cmdvcwallet.CreateOrUpdateProfileRequest{UserID: u, LocalKMSPassphrase: pass(i + 1)}); e != nil {
			return trivial("setup: " + e.Error())
		}

		m, e := call(open, &cmdvcwallet.UnlockWalletRequest{UserID: u, LocalKMSPassphrase: pass(i + 1)})
		if e != nil {
			return trivial("setup: " + e.Error())
		}

		_ = json.Unmarshal(m["token"], &toks[i])

		doc := fmt.Sprintf(`{"id":"did:example:cc-%d","type":"Person","v":%d}`, i+1, 900+i)
		if _, e := call(add, &cmdvcwallet.AddContentRequest{WalletAuth: cmdvcwallet.WalletAuth{UserID: u, Auth: toks[i]},
			ContentType: wallet.Metadata, Content: []byte(doc)}); e != nil {
			return trivial("setup add: " + e.Error())
		}
	}

	defer func() {
		for _, u := range users {
			_, _ = call(closeW, &cmdvcwallet.LockWalletRequest{UserID: u})
		}
	}()

	var probes []mprobe

	n := 0
	try := func(ui int, class, tok string) {
		auth := cmdvcwallet.WalletAuth{UserID: users[ui], Auth: tok}
		n++

		cmds := []struct {
			name string
			f    fn
			req  interface{}
		}{
			{"get", get, &cmdvcwallet.GetContentRequest{WalletAuth: auth, ContentType: wallet.Metadata, ContentID: fmt.Sprintf("did:example:cc-%d", ui+1)}},
			{"getall", getAll, &cmdvcwallet.GetAllContentRequest{WalletAuth: auth, ContentType: wallet.Metadata}},
			{"add", add, &cmdvcwallet.AddContentRequest{WalletAuth: auth, ContentType: wallet.Metadata,
				Content: []byte(fmt.Sprintf(`{"id":"did:example:cc-x%d","type":"Person"}`, n))}},
			{"remove", remove, &cmdvcwallet.RemoveContentRequest{WalletAuth: auth, ContentType: wallet.Metadata, ContentID: "did:example:none"}},
			{"createkeypair", createKey, &cmdvcwallet.CreateKeyPairRequest{WalletAuth: auth, KeyType: kms.ED25519Type}},
		}

		for _, c := range cmds {
			m, e := call(c.f, c.req)
			p := mprobe{Method: "command." + c.name, Inst: ui + 1, Token: class, Result: "ok", Err: errStr(e)}

			switch {
			case e == nil:
			case authClass(e):
				p.Result = "auth-error"
			default:
				p.Result = "other-error"
			}

			probes = append(probes, p)
			rec.Dist = append(rec.Dist, "method=command."+c.name+"/"+class+"->"+p.Result)

			if class == "own-live" {
				if c.name == "getall" && e == nil {
					// isolation through the controller: only the profile's own rows
					s := string(m["contents"])
					if strings.Contains(s, fmt.Sprintf("did:example:cc-%d", 2-ui)) {
						fail("content-crosses-profiles", fmt.Sprintf("command.getall for user %d lists a row of the other profile", ui+1))
					}
				}

				continue
			}

			if p.Result != "auth-error" {
				fail(class+"-token-admitted:command."+c.name, fmt.Sprintf("command %s for user %d with a %s token: %s %s", c.name, ui+1, class, p.Result, p.Err))
			}
		}
	}

	never := fmt.Sprintf("%x", []byte(fmt.Sprintf("never issued controller %d", id)))

	try(0, "own-live", toks[0])
	try(1, "own-live", toks[1])
	try(1, "foreign", toks[0])
	try(0, "foreign", toks[1])
	try(0, "never-issued", never)

	for k, sp := range spellings {
		if (k+rep)%4 != 0 {
			continue
		}

		try(0, "variant-of-own-live", spell(toks[0], sp))
		try(1, "variant-of-foreign-live", spell(toks[0], sp))
	}

	if _, e := call(closeW, &cmdvcwallet.LockWalletRequest{UserID: users[0]}); e != nil {
		return trivial("close: " + e.Error())
	}

	try(0, "closed", toks[0])
	try(1, "foreign-closed", toks[0])
	try(1, "own-live", toks[1])

	rec.Observed = probes

	return rec
}
