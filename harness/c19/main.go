// c19: drives real wallet.Wallet instances of two or three profiles that share one storage provider and the
// process-global session / store managers through histories of create-profile / new / open / close / time /
// token operations, presenting every token ever issued (own, foreign, closed, expired, never issued) to every
// instance, and records what the implementation did, for comparison with the Coq model (coq/C19).
//
// Time: the session cache (gcache) reads the wall clock in several places (GetALL / Has use time.Now directly),
// so a settable clock would not be faithful.  Sessions are opened with a short REAL expiry (10 units of 60 ms)
// or the default (10 min); a tick is a real sleep.  No verdict depends on a race: for every liveness decision the
// harness computes lower and upper bounds of the real time elapsed since the last re-arming of the entry
// (sleeps guarantee the lower bound); if the measured upper bound does not stay below the expiry where the
// logical history says "alive", the history is re-run, and dropped (never reported) after several attempts.
package main

import (
	"bytes"
	"crypto/sha256"
	"encoding/json"
	"errors"
	"fmt"
	"os"
	"path/filepath"
	"sort"
	"strings"
	"sync"
	"sync/atomic"
	"time"

	"github.com/hyperledger/aries-framework-go/component/storageutil/mem"
	"github.com/hyperledger/aries-framework-go/pkg/crypto/tinkcrypto"
	"github.com/hyperledger/aries-framework-go/pkg/kms"
	"github.com/hyperledger/aries-framework-go/pkg/kms/localkms"
	mockprovider "github.com/hyperledger/aries-framework-go/pkg/mock/provider"
	"github.com/hyperledger/aries-framework-go/pkg/secretlock"
	"github.com/hyperledger/aries-framework-go/pkg/secretlock/local"
	"github.com/hyperledger/aries-framework-go/pkg/secretlock/local/masterlock/hkdf"
	"github.com/hyperledger/aries-framework-go/pkg/wallet"
	"github.com/hyperledger/aries-framework-go/spi/storage"

	"verifharness/hx"
)

const (
	unit       = 60 * time.Millisecond
	shortTTL   = 10 // units
	defaultTTL = 10000
	maxUsers   = 3
	garbageTok = 900
)

// Op is one operation of a history.
type Op struct {
	Kind   string `json:"op"`               // create | new | open | close | tick | add | get | getall | remove | key
	U      int    `json:"u,omitempty"`      // create/new: user 1..3
	Remote int    `json:"remote,omitempty"` // create: 0 = local KMS profile, n = remote-KMS profile on key server n
	I      int    `json:"i"`                // instance number (creation order)
	Bad    bool   `json:"bad,omitempty"`    // open: wrong passphrase
	TTL    int    `json:"ttl,omitempty"`    // open: expiry in units, 0 = default
	Dt     int    `json:"dt,omitempty"`     // tick: units
	Tok    int    `json:"tok"`              // token number in issue order; a number not issued (yet) is presented as a random string
	C      int    `json:"c,omitempty"`      // content id: 100 * content type + number (below 100: Metadata number)
	V      int    `json:"v,omitempty"`      // content value (unique per history)
	CT     int    `json:"ct,omitempty"`     // getall / getallin: content type 1..6
	Col    int    `json:"col,omitempty"`    // addin / getallin: content id of the collection
	KN     int    `json:"kn,omitempty"`     // import: 1000 + j (seeded key j); use: signing key (created key number or imported id)
	M      string `json:"m,omitempty"`      // use: method
	Var    string `json:"var,omitempty"`    // the token is presented in this variant spelling (see spelling.go)
	NS     int    `json:"ns,omitempty"`     // create: naming scheme of the world's user IDs (see names.go); 0 = plainly distinct names
	PG     int    `json:"pg,omitempty"`     // open: 0 = the passphrase of the profile version the instance was made with; k>0 = the passphrase of version k-1
}

// Obs is what the implementation did for one op, plus the state of the shared storage afterwards.
type Obs struct {
	Out  string   `json:"out"` // done | tok | true | false | locked | badtoken | already | notfound | exists | err | val | all | key
	N    int      `json:"n"`
	All  [][2]int `json:"all,omitempty"`
	Rows [][3]int `json:"rows"` // (user, content id, value) of every profile's content store, sorted
	Keys []int    `json:"keys"` // owner (user whose master key opens it) of key k, in creation order
	Err  string   `json:"err,omitempty"`
	Pass bool     `json:"pass,omitempty"` // open: the passphrase presented is the one the instance's profile version is locked with
}

func isTokenOp(k string) bool {
	switch k {
	case "add", "get", "getall", "remove", "key", "import", "addin", "getallin", "use", "keynomat":
		return true
	}

	return false
}

// --- storage whose Close keeps the data (mem.Provider drops a store when it is closed) ---

type keepProvider struct{ *mem.Provider }

type keepStore struct{ storage.Store }

func (keepStore) Close() error { return nil }

func (p keepProvider) OpenStore(name string) (storage.Store, error) {
	s, err := p.Provider.OpenStore(name)
	if err != nil {
		return nil, err
	}

	return keepStore{s}, nil
}

// --- one world = one history ---

var runNonce = fmt.Sprintf("%d", time.Now().UnixNano()) //nolint:gochecknoglobals

var worldCounter uint64 //nolint:gochecknoglobals

type grant struct {
	user   int
	ttl    int
	last   int // logical time of issue / last admitted use
	closed bool
	unsure bool // issued while a Close of the same profile was in flight: live or closed, settled by the first presentation
	dead   bool // known expired
	rs, re time.Time
}

type world struct {
	id      uint64
	inner   keepProvider
	rec     *hx.RecProvider
	ctx     *mockprovider.Provider
	insts   []*wallet.Wallet
	iuser   []int
	toks    []string
	grants  []*grant
	now     int
	kids    []string
	kpubs   [][]byte // public key of created key k (nil for imported ones)
	kowner  []int
	nkeys   int // keys made by CreateKeyPair (the model numbers those; imported keys carry their own id)
	labels  map[labelKey]int
	nota    *notary
	fresh   int
	remote  map[int]int // user -> key server number (remote-KMS profiles)
	servers map[int]*keyServer
	owners  map[int]kms.KeyManager
	ownersAll map[int][]kms.KeyManager
	// store manager entries (profile -> persisted at, ttl), for the ambiguity check of wallet.New
	spers map[int]*grant
	// provenance of content values
	addedBy map[int]int
	ambig   bool
	// profile versions (CreateProfile = version 0, every UpdateProfile one more): master lock of each version, the
	// version an instance was made with
	psnap  map[int][]string
	igen   []int
	ownerN map[int]int
	ns     int // naming scheme of the user IDs
}

func (w *world) userName(u int) string {
	if w.ns != 0 {
		return similarName(fmt.Sprintf("c19-%s-%d-user@example.com", runNonce, w.id), w.ns, u)
	}

	return fmt.Sprintf("c19-%s-%d-u%d", runNonce, w.id, u)
}
func pass(u int) string                { return fmt.Sprintf("correct horse %d", u) }

// passG: the passphrase of version g of profile u
func passG(u, g int) string {
	if g == 0 {
		return pass(u)
	}

	return fmt.Sprintf("correct horse %d version %d", u, g)
}

func newWorldID() uint64 { return atomic.AddUint64(&worldCounter, 1) }

func newWorld() *world {
	w := &world{id: newWorldID(), owners: map[int]kms.KeyManager{}, spers: map[int]*grant{},
		addedBy: map[int]int{}, labels: map[labelKey]int{}, psnap: map[int][]string{}, ownerN: map[int]int{}}
	w.inner = keepProvider{mem.NewProvider()}
	w.rec = hx.NewRecProvider(w.inner)

	c, err := tinkcrypto.New()
	if err != nil {
		panic(err)
	}

	w.ctx = &mockprovider.Provider{StorageProviderValue: w.rec, ProtocolStateStorageProviderValue: mem.NewProvider(),
		CryptoValue: c, VDRegistryValue: didKeyVDR(), DocumentLoaderValue: documentLoader()}

	return w
}

func (w *world) cleanup() {
	for _, x := range w.insts {
		x.Close()
	}

	for _, s := range w.servers {
		s.srv.Close()
	}
}

func (w *world) tokenString(n int) string {
	if n >= 0 && n < len(w.toks) {
		return w.toks[n]
	}
	// same shape as a real token (64 hex digits), never issued
	h := sha256.Sum256([]byte(fmt.Sprintf("never issued %d %d", w.id, n)))

	return fmt.Sprintf("%x", h[:])
}

type kmsProv struct {
	s kms.Store
	l secretlock.Service
}

func (k kmsProv) StorageProvider() kms.Store     { return k.s }
func (k kmsProv) SecretLock() secretlock.Service { return k.l }

// snapshot notes the master lock of the profile version just stored (after CreateProfile / UpdateProfile).
func (w *world) snapshot(u int) {
	st, err := w.inner.OpenStore("vcwallet_profiles")
	if err != nil {
		panic(err)
	}

	b, err := st.Get("vcwallet_usr_" + w.userName(u))
	if err != nil {
		return
	}

	var p struct{ MasterLockCipher string }
	if e := json.Unmarshal(b, &p); e != nil {
		panic(e)
	}

	w.psnap[u] = append(w.psnap[u], p.MasterLockCipher)
}

// ownerKMS builds, outside the wallet, the key managers of a profile: one per profile version (master lock of that
// version, opened with that version's passphrase).
func (w *world) ownerKMS(u int) []kms.KeyManager {
	if len(w.psnap[u]) == 0 {
		return nil
	}

	if w.ownerN[u] == len(w.psnap[u]) {
		return w.ownersAll[u]
	}

	var out []kms.KeyManager

	for g, cipher := range w.psnap[u] {
		if cipher == "" {
			continue
		}

		ml, err := hkdf.NewMasterLock(passG(u, g), sha256.New, nil)
		if err != nil {
			panic(err)
		}

		sl, err := local.NewService(bytes.NewBufferString(cipher), ml)
		if err != nil {
			panic(err)
		}

		ks, err := kms.NewAriesProviderWrapper(w.inner)
		if err != nil {
			panic(err)
		}

		k, err := localkms.New("local-lock://"+w.userName(u), kmsProv{ks, sl})
		if err != nil {
			panic(err)
		}

		out = append(out, k)
	}

	if w.ownersAll == nil {
		w.ownersAll = map[int][]kms.KeyManager{}
	}

	w.ownersAll[u], w.ownerN[u] = out, len(w.psnap[u])

	return out
}

func (w *world) profileID(u int) string {
	st, err := w.inner.OpenStore("vcwallet_profiles")
	if err != nil {
		panic(err)
	}

	b, err := st.Get("vcwallet_usr_" + w.userName(u))
	if err != nil {
		return ""
	}

	var p struct{ ID string }
	_ = json.Unmarshal(b, &p)

	return p.ID
}

type content struct {
	ID   string `json:"id"`
	Type string `json:"type"`
	V    int    `json:"v"`
}

// dump reads the shared storage directly (not through the wallet, not recorded).
func (w *world) dump(o *Obs) {
	o.Rows = [][3]int{}

	for u := 1; u <= maxUsers; u++ {
		id := w.profileID(u)
		if id == "" {
			continue
		}

		st, err := w.inner.Provider.OpenStore(id)
		if err != nil {
			panic(err)
		}

		var rows [][3]int

		for ct := ctCollection; ct <= ctConnection; ct++ {
			it, err := st.Query(ctOf(ct * 100).Name())
			if err != nil {
				panic(err)
			}

			for {
				ok, e := it.Next()
				if e != nil || !ok {
					break
				}

				k, _ := it.Key()
				v, _ := it.Value()
				c := w.cidOf(ct, strings.TrimPrefix(k, ctOf(ct*100).Name()+"_"))
				rows = append(rows, [3]int{u, c, w.valueOf(u, c, v)})
			}

			_ = it.Close()
		}

		sort.Slice(rows, func(a, b int) bool { return rows[a][1] < rows[b][1] })
		o.Rows = append(o.Rows, rows...)
	}

	for len(w.kowner) < len(w.kids) {
		kid := w.kids[len(w.kowner)]
		owner := w.remoteOwner(kid) // keys of remote-KMS profiles: the tenant store the key server put it in

		for u := 1; u <= maxUsers && owner == 0; u++ {
			if w.remote[u] > 0 {
				continue
			}

			for _, k := range w.ownerKMS(u) {
				if _, err := k.Get(kid); err == nil {
					owner = u
					break
				}
			}

			if owner != 0 {
				break
			}
		}

		w.kowner = append(w.kowner, owner)
	}

	o.Keys = append([]int{}, w.kowner...)
}

func classify(err error) string {
	switch {
	case err == nil:
		return "done"
	case errors.Is(err, wallet.ErrWalletLocked):
		return "locked"
	case errors.Is(err, wallet.ErrInvalidAuthToken):
		return "badtoken"
	case errors.Is(err, wallet.ErrAlreadyUnlocked):
		return "already"
	case errors.Is(err, storage.ErrDataNotFound):
		return "notfound"
	case strings.Contains(err.Error(), "already exists in this wallet"):
		return "exists"
	}

	return "err"
}

func admitted(out string) bool {
	switch out {
	case "locked", "badtoken", "err":
		return false
	}

	return true
}

// check the real-time bounds of one cache entry against what the logical history says about it
func (w *world) bounds(g *grant, os_, oe time.Time) {
	if g.closed || g.dead || g.ttl >= defaultTTL {
		return
	}

	e := time.Duration(g.ttl) * unit

	if w.now-g.last <= g.ttl { // logically alive: the whole op must lie within the expiry
		if oe.Sub(g.rs) >= e-10*time.Millisecond {
			w.ambig = true
		}
	} else { // logically expired: guaranteed by the sleeps, verified all the same
		if os_.Sub(g.re) <= e {
			w.ambig = true
		}
	}
}

func (w *world) apply(op Op) (obs Obs, touched []hx.Call) {
	if op.Kind == "tick" {
		time.Sleep(time.Duration(op.Dt)*unit + 2*time.Millisecond)
		w.now += op.Dt
		obs.Out = "done"
		w.dump(&obs)

		return obs, nil
	}

	if op.Kind == "use" || op.C/100 == ctCredential {
		w.notarize() // outside the recorded call: the notary's own storage traffic is not the operation's
	}

	w.rec.Reset()

	t0 := time.Now()

	defer func() {
		t1 := time.Now()
		touched = w.rec.Snapshot()

		for _, g := range w.grants {
			w.bounds(g, t0, t1)
		}

		for _, g := range w.spers {
			w.bounds(g, t0, t1)
		}

		for _, g := range w.grants {
			if !g.closed && w.now-g.last > g.ttl {
				g.dead = true
			}
		}

		for _, g := range w.spers {
			if !g.closed && w.now-g.last > g.ttl {
				g.dead = true
			}
		}

		// bookkeeping of the reference (what the property calls a live token)
		switch {
		case op.Kind == "open" && obs.Out == "tok":
			g := &grant{user: w.iuser[op.I], ttl: ttlOf(op), last: w.now, rs: t0, re: t1}
			w.grants = append(w.grants, g)
			w.spers[g.user] = &grant{user: g.user, ttl: g.ttl, last: w.now, rs: t0, re: t1}
		case op.Kind == "close" && op.I < len(w.iuser):
			hadLive := false

			for _, g := range w.grants {
				if g.user == w.iuser[op.I] {
					if !g.closed && w.now-g.last <= g.ttl {
						hadLive = true
					}

					g.closed = true
				}
			}

			// contents.Close (which drops the store manager entry) runs only when a session was removed
			if s := w.spers[w.iuser[op.I]]; s != nil && hadLive {
				s.closed = true
			}
		case isTokenOp(op.Kind) && admitted(obs.Out) && op.Tok >= 0 && op.Tok < len(w.grants) && !w.variantOf(op):
			g := w.grants[op.Tok]
			if !g.closed && !g.dead {
				g.last, g.rs, g.re = w.now, t0, t1
			}
		}

		w.dump(&obs)
	}()

	if op.Kind != "create" && op.Kind != "new" && op.Kind != "update" && (op.I < 0 || op.I >= len(w.insts)) {
		return Obs{Out: "err", Err: "no such instance"}, nil
	}

	switch op.Kind {
	case "create":
		if op.NS != 0 && len(w.psnap) == 0 {
			w.ns = op.NS
		}

		popt := wallet.WithPassphrase(pass(op.U))

		if op.Remote > 0 {
			srv := w.server(op.Remote)
			srv.register(w.bearer(op.U))
			popt = wallet.WithKeyServerURL(srv.srv.URL)
		}

		err := wallet.CreateProfile(w.userName(op.U), w.ctx, popt)
		if err == nil && op.Remote > 0 {
			if w.remote == nil {
				w.remote = map[int]int{}
			}

			w.remote[op.U] = op.Remote
		}

		if err != nil {
			return Obs{Out: "err", Err: err.Error()}, nil
		}

		w.snapshot(op.U)

		return Obs{Out: "done"}, nil
	case "update":
		// a new passphrase (the next version's) for a local-KMS profile
		if w.remote[op.U] > 0 {
			return Obs{Out: "err", Err: "remote profiles are not updated by the harness"}, nil
		}

		err := wallet.UpdateProfile(w.userName(op.U), w.ctx, wallet.WithPassphrase(passG(op.U, len(w.psnap[op.U]))))
		if err != nil {
			return Obs{Out: "err", Err: err.Error()}, nil
		}

		w.snapshot(op.U)

		return Obs{Out: "done"}, nil
	case "new":
		x, err := wallet.New(w.userName(op.U), w.ctx)
		if err != nil {
			return Obs{Out: "err", Err: err.Error()}, nil
		}

		w.insts = append(w.insts, x)
		w.iuser = append(w.iuser, op.U)
		w.igen = append(w.igen, len(w.psnap[op.U])-1)

		return Obs{Out: "done"}, nil
	case "open":
		pg := w.igen[op.I]
		if op.PG > 0 {
			pg = op.PG - 1
		}

		p := passG(w.iuser[op.I], pg)
		if op.Bad {
			p = "wrong passphrase"
		}

		right := !op.Bad && (pg == w.igen[op.I] || w.remote[w.iuser[op.I]] > 0)

		opts := []wallet.UnlockOptions{wallet.WithUnlockByPassphrase(p)}

		if w.remote[w.iuser[op.I]] > 0 {
			// a remote-KMS profile is unlocked with the authorization its key server knows it by
			b := w.bearer(w.iuser[op.I])
			if op.Bad {
				b = "wrong authorization"
			}

			opts = []wallet.UnlockOptions{wallet.WithUnlockByAuthorizationToken(b)}
		}

		if op.TTL != 0 {
			opts = append(opts, wallet.WithUnlockExpiry(time.Duration(op.TTL)*unit))
		}

		tok, err := w.insts[op.I].Open(opts...)
		if err != nil {
			c := classify(err)
			if c != "already" {
				c = "err"
			}

			return Obs{Out: c, Err: err.Error(), Pass: right}, nil
		}

		w.toks = append(w.toks, tok)

		return Obs{Out: "tok", N: len(w.toks) - 1, Pass: right}, nil
	case "close":
		if w.insts[op.I].Close() {
			return Obs{Out: "true"}, nil
		}

		return Obs{Out: "false"}, nil
	}

	x, tok := w.insts[op.I], w.tokenFor(op)

	switch op.Kind {
	case "add":
		b, err := w.contentFor(op.C, op.V)
		if err != nil {
			return Obs{Out: "err", Err: err.Error()}, nil
		}

		err = x.Add(tok, ctOf(op.C), b)
		if err == nil {
			w.labels[labelKey{fmt.Sprint(w.iuser[op.I]), op.C}] = op.V
		}

		return Obs{Out: classify(err), Err: errStr(err)}, nil
	case "get":
		b, err := x.Get(tok, ctOf(op.C), w.idStr(op.C))
		if err != nil {
			return Obs{Out: classify(err), Err: errStr(err)}, nil
		}

		return Obs{Out: "val", N: w.valueOf(w.iuser[op.I], op.C, b)}, nil
	case "getall":
		m, err := x.GetAll(tok, ctOf(op.CT*100))
		if err != nil {
			return Obs{Out: classify(err), Err: errStr(err)}, nil
		}

		return Obs{Out: "all", All: rowsOfMap(w, w.iuser[op.I], op.CT, m)}, nil
	case "remove":
		err := x.Remove(tok, ctOf(op.C), w.idStr(op.C))

		return Obs{Out: classify(err), Err: errStr(err)}, nil
	case "key":
		kp, err := x.CreateKeyPair(tok, kms.ED25519Type)
		if err != nil {
			return Obs{Out: classify(err), Err: errStr(err)}, nil
		}

		w.kids = append(w.kids, kp.KeyID)
		w.kpubs = append(w.kpubs, pubOfKeyPair(kp))
		w.nkeys++

		return Obs{Out: "key", N: w.nkeys - 1}, nil
	}

	if o, ok := w.applyMore(x, tok, op); ok {
		return o, nil
	}

	return Obs{Out: "err", Err: "unknown op"}, nil
}

func ttlOf(op Op) int {
	if op.TTL == 0 {
		return defaultTTL
	}

	return op.TTL
}

func errStr(err error) string {
	if err == nil {
		return ""
	}

	s := err.Error()
	if len(s) > 120 {
		s = s[:120]
	}

	return s
}

// --- Coq printing ---

func coqOp(o Op) string {
	tok := o.Tok
	if tok < 0 || (o.Var != "" && o.Var != "lower") {
		tok = garbageTok // a variant spelling is a string that was never issued
	}

	switch o.Kind {
	case "create":
		return fmt.Sprintf("WCreate %d", o.U)
	case "new":
		return fmt.Sprintf("WNew %d", o.U)
	case "open":
		return fmt.Sprintf("WOpen %d%%nat %s %d", o.I, hx.CoqBool(!o.Bad), o.TTL)
	case "close":
		return fmt.Sprintf("WClose %d%%nat", o.I)
	case "tick":
		return fmt.Sprintf("WTick %d", o.Dt)
	case "update":
		return fmt.Sprintf("WUpdate %d", o.U)
	case "add":
		return fmt.Sprintf("WOp %d%%nat %d (KAdd %d %d)", o.I, tok, o.C, o.V)
	case "get":
		return fmt.Sprintf("WOp %d%%nat %d (KGet %d)", o.I, tok, o.C)
	case "getall":
		return fmt.Sprintf("WOp %d%%nat %d (KGetAll %d)", o.I, tok, o.CT)
	case "remove":
		return fmt.Sprintf("WOp %d%%nat %d (KRemove %d)", o.I, tok, o.C)
	case "import":
		return fmt.Sprintf("WOp %d%%nat %d (KImportKey %d)", o.I, tok, o.KN)
	case "addin":
		return fmt.Sprintf("WOp %d%%nat %d (KAddIn %d %d %d)", o.I, tok, o.C, o.V, o.Col)
	case "getallin":
		return fmt.Sprintf("WOp %d%%nat %d (KGetAllIn %d %d)", o.I, tok, o.CT, o.Col)
	case "keynomat":
		return fmt.Sprintf("WOp %d%%nat %d KAddKeyEmpty", o.I, tok)
	case "use":
		kn := o.KN
		if kn < 0 {
			kn = 999
		}

		return fmt.Sprintf("WOp %d%%nat %d (KUse %s %d %d)", o.I, tok, coqMeth[o.M], o.C, kn)
	default:
		return fmt.Sprintf("WOp %d%%nat %d KCreateKey", o.I, tok)
	}
}

// coqObs prints one observation; the dump is printed only when it differs from the one before (prev)
func coqObs(o Obs, prev *Obs) string {
	var out string

	switch o.Out {
	case "done":
		out = "RDone"
	case "tok":
		out = fmt.Sprintf("RTok %d", o.N)
	case "true", "false":
		out = "RBool " + o.Out
	case "locked":
		out = "RLocked"
	case "badtoken":
		out = "RBadToken"
	case "already":
		out = "RAlready"
	case "notfound":
		out = "RNotFound"
	case "exists":
		out = "RExists"
	case "val":
		out = fmt.Sprintf("RVal %d", o.N)
	case "all":
		it := make([]string, len(o.All))
		for i, r := range o.All {
			it[i] = fmt.Sprintf("(%d, %d)", r[0], r[1])
		}

		out = "RAll " + hx.CoqList(it)
	case "key":
		out = fmt.Sprintf("RKey %d", o.N)
	default:
		out = "RErr"
	}

	if prev != nil && sameDump(prev, &o) {
		return "(" + out + ", None)"
	}

	rows := make([]string, len(o.Rows))
	for i, r := range o.Rows {
		rows[i] = fmt.Sprintf("(%d, (%d, %d))", r[0], r[1], r[2])
	}

	return "(" + out + ", Some (" + hx.CoqList(rows) + ", " + hx.CoqNList(o.Keys) + "))"
}

func coqCase(ops []Op, obs []Obs) string {
	a := make([]string, len(ops))
	for i, o := range ops {
		if o.Kind == "open" && i < len(obs) && (obs[i].Out == "tok" || obs[i].Out == "already" || obs[i].Out == "err") && o.I < 1<<20 {
			// "passphrase right?" is the harness's reading of what was presented against the profile version the
			// instance was made with (an Open on a missing instance keeps the generator's flag)
			if obs[i].Err != "no such instance" {
				o.Bad = !obs[i].Pass
			}
		}

		a[i] = coqOp(o)
	}

	b := make([]string, len(obs))
	prev := &Obs{Rows: [][3]int{}, Keys: []int{}}

	for i := range obs {
		b[i] = coqObs(obs[i], prev)
		prev = &obs[i]
	}

	return "{| c_ops := " + hx.CoqList(a) + "; c_obs := " + hx.CoqList(b) + " |}"
}

// --- running one history, with the direct oracle ---

func sameDump(a, b *Obs) bool {
	x, _ := json.Marshal([]interface{}{a.Rows, a.Keys})
	y, _ := json.Marshal([]interface{}{b.Rows, b.Keys})

	return bytes.Equal(x, y)
}

func touchedData(calls []hx.Call) []string {
	var out []string

	for _, c := range calls {
		if c.Store == "vcwallet_profiles" {
			continue
		}

		switch c.Op {
		case "Put", "Get", "GetTags", "GetBulk", "Query", "Delete", "Batch":
			out = append(out, c.Op+":"+c.Store)
		}
	}

	return out
}

// seqRun executes operations one at a time on a fresh world and applies the direct oracle to each.
type seqRun struct {
	w          *world
	rec        *hx.Record
	obs        []Obs
	prev       Obs
	classParts []string
	nontrivial bool
	dist       []string
	n          int
	// a listed finding is reported only when nothing else failed in the record (it must never mask a violation)
	knownSig, knownDetail string
	importedBy            map[int]int
}

func newSeqRun(kind string) *seqRun {
	return &seqRun{w: newWorld(), rec: &hx.Record{Kind: kind, Oracle: "ok"}, prev: Obs{Rows: [][3]int{}, Keys: []int{}},
		classParts: []string{}, importedBy: map[int]int{}}
}

func (s *seqRun) finish() {
	if s.rec.Oracle == "ok" && s.knownSig != "" {
		s.rec.Oracle, s.rec.Sig, s.rec.Detail = "fail", s.knownSig, s.knownDetail
	}
}

func (s *seqRun) fail(sig, detail string) {
	if s.rec.Oracle == "ok" {
		s.rec.Oracle, s.rec.Sig, s.rec.Detail = "fail", sig, detail
	}
}

// do runs one op; false when a timing bound was not met (the verdict would depend on a race).
func (s *seqRun) do(op Op) bool {
	// the reference verdict BEFORE the op: is the presented token a live token of this instance's own profile?
	why := ""

	if isTokenOp(op.Kind) && op.I < len(s.w.iuser) {
		u := s.w.iuser[op.I]

		switch {
		case s.w.variantOf(op):
			// another spelling of a token is another string: never issued, whatever the token it resembles
			why = "variant-spelling"

			if op.Tok >= 0 && op.Tok < len(s.w.grants) {
				g := s.w.grants[op.Tok]

				switch {
				case g.closed:
					why = "variant-of-closed"
				case s.w.now-g.last > g.ttl:
					why = "variant-of-expired"
				case g.user != u:
					why = "variant-of-foreign-live"
				default:
					why = "variant-of-own-live"
				}
			}
		case op.Tok < 0 || op.Tok >= len(s.w.grants):
			why = "never-issued"
		case s.w.grants[op.Tok].user != u:
			why = "foreign"
			g := s.w.grants[op.Tok]

			if g.closed {
				why = "foreign-closed"
			} else if s.w.now-g.last > g.ttl {
				why = "foreign-expired"
			}
		case s.w.grants[op.Tok].unsure:
			why = ""
		case s.w.grants[op.Tok].closed:
			why = "closed"
		case s.w.now-s.w.grants[op.Tok].last > s.w.grants[op.Tok].ttl:
			why = "expired"
		}
	}

	var settle *grant
	if isTokenOp(op.Kind) && op.I < len(s.w.iuser) && op.Tok >= 0 && op.Tok < len(s.w.grants) &&
		s.w.grants[op.Tok].unsure && s.w.grants[op.Tok].user == s.w.iuser[op.I] && !s.w.variantOf(op) {
		settle = s.w.grants[op.Tok]
	}

	s.w.drainServers()

	o, calls := s.w.apply(op)
	if s.w.ambig {
		return false
	}

	// remote-KMS profiles: whatever reached a key server during the call carried the authorization of the profile
	// the call was made for, and a rejected call reached no key server at all
	if reqs := s.w.drainServers(); len(reqs) > 0 && op.Kind != "create" && op.Kind != "new" && op.I < len(s.w.iuser) {
		u := s.w.iuser[op.I]

		for _, q := range reqs {
			if q.Bearer != s.w.bearer(u) {
				s.fail("request-carries-other-profiles-authorization:"+op.Kind,
					fmt.Sprintf("op %d %+v: a key-server request (%s) made for user %d carried %q", s.n, op, q.Path, u, q.Bearer))
			}
		}

		if isTokenOp(op.Kind) && !admitted(o.Out) {
			s.fail("rejected-op-touched-key-server:"+op.Kind, fmt.Sprintf("op %d %+v rejected (%s) but sent %d request(s) to a key server", s.n, op, o.Out, len(reqs)))
		}
	}

	if settle != nil && o.Out != "locked" {
		settle.unsure = false
		settle.closed = !admitted(o.Out)
	}

	s.obs = append(s.obs, o)

	if isTokenOp(op.Kind) && op.I < len(s.w.iuser) {
		tokClass := why
		if tokClass == "" {
			tokClass = "own-live"
		}

		s.classParts = append(s.classParts, op.Kind+"/"+tokClass+"/"+o.Out)
		s.dist = append(s.dist, "token="+tokClass, "probe="+op.Kind+"/"+tokClass+"->"+o.Out)

		if why != "" {
			s.nontrivial = true
		}

		u := s.w.iuser[op.I]

		if admitted(o.Out) && why != "" {
			s.fail(why+"-token-admitted:"+op.Kind, fmt.Sprintf("op %d %+v: instance of user %d admitted a %s token (result %s)",
				s.n, op, u, why, o.Out))
		}

		if !admitted(o.Out) {
			if t := touchedData(calls); len(t) > 0 {
				s.fail("rejected-op-touched-storage:"+op.Kind, fmt.Sprintf("op %d %+v rejected (%s) but made storage calls %v", s.n, op, o.Out, t))
			}

			if !sameDump(&s.prev, &o) {
				s.fail("rejected-op-changed-state:"+op.Kind, fmt.Sprintf("op %d %+v rejected (%s) but the stored state changed", s.n, op, o.Out))
			}
		}

		// isolation: whatever comes back through an instance of u was added through an instance of u
		switch o.Out {
		case "done":
			if op.Kind == "add" || op.Kind == "addin" {
				s.w.addedBy[op.V] = u
			}

			if op.Kind == "import" {
				s.importedBy[op.KN] = u
			}
		case "exists":
			if by, ok := s.importedBy[op.KN]; op.Kind == "import" && ok && by != u && s.knownSig == "" {
				s.knownSig = "key-id-of-other-profile-visible"
				s.knownDetail = fmt.Sprintf("op %d %+v: profile %d is told that key id %d exists; only profile %d holds it", s.n, op, u, op.KN, by)
			}
		case "val":
			if s.w.addedBy[o.N] != u {
				s.fail("content-crosses-profiles", fmt.Sprintf("op %d %+v: instance of user %d read a value added under user %d", s.n, op, u, s.w.addedBy[o.N]))
			}
		case "all":
			for _, r := range o.All {
				if s.w.addedBy[r[1]] != u {
					s.fail("content-crosses-profiles", fmt.Sprintf("op %d %+v: instance of user %d listed a value added under user %d", s.n, op, u, s.w.addedBy[r[1]]))
				}
			}
		case "key":
			if n := len(o.Keys); n > 0 && o.Keys[n-1] != u { // the key just created is the last row of the key store
				s.fail("key-under-other-profile", fmt.Sprintf("op %d %+v: key created through an instance of user %d is wrapped for user %d", s.n, op, u, o.Keys[o.N]))
			}
		}
	} else {
		s.classParts = append(s.classParts, op.Kind+"/"+o.Out)
		s.dist = append(s.dist, "op="+op.Kind+"->"+o.Out)
	}

	// every stored row belongs to the profile that added it, after every op
	for _, r := range o.Rows {
		if by, ok := s.w.addedBy[r[2]]; !ok || by != r[0] {
			s.fail("content-planted-in-other-profile", fmt.Sprintf("op %d %+v: store of user %d holds value %d added under user %d", s.n, op, r[0], r[2], by))
		}
	}

	s.prev = o
	s.n++

	return true
}

// runOnce executes the history; ok=false when a timing bound was not met.
func runOnce(kind string, ops []Op) (*hx.Record, bool) {
	s := newSeqRun(kind)
	defer s.w.cleanup()

	ops = normOps(ops)
	s.rec.Case = map[string]interface{}{"ops": ops}
	s.dist = []string{fmt.Sprintf("len=%d", len(ops)/10*10)}

	for _, op := range ops {
		if op.Kind == "create" {
			s.dist = append(s.dist, fmt.Sprintf("user-ids=scheme-%d", op.NS))
			break
		}
	}

	for _, op := range ops {
		if !s.do(op) {
			return nil, false
		}
	}

	s.finish()
	s.rec.Coq = "Seq " + coqCase(ops, s.obs)
	s.rec.Observed = s.obs
	s.rec.Class = strings.Join(s.classParts, ",")
	s.rec.Trivial = !s.nontrivial
	s.rec.Dist = s.dist

	return s.rec, true
}

func runHistory(kind string, ops []Op) *hx.Record {
	for try := 0; try < 6; try++ {
		if rec, ok := runOnce(kind, ops); ok {
			return rec
		}

		time.Sleep(time.Duration(50*(try+1)) * time.Millisecond)
	}

	return &hx.Record{Kind: "skipped-timing", Case: map[string]interface{}{"ops": ops}, Oracle: "ok", Trivial: true,
		Class: "skipped", Dist: []string{"skipped-timing"}}
}

// --- generators ---

// setup: two profiles, one instance each created BEFORE anything is opened (their handles start locked)
func setup(nUsers int) []Op {
	var ops []Op
	for u := 1; u <= nUsers; u++ {
		ops = append(ops, Op{Kind: "create", U: u})
	}

	for u := 1; u <= nUsers; u++ {
		ops = append(ops, Op{Kind: "new", U: u})
	}

	return ops
}

// builder tracks what a history has issued so far, to aim events at "the latest token of user u"
type builder struct {
	ops    []Op
	iuser  []int
	ntok   int
	latest map[int]int // user -> latest token number issued (as the generator expects; -1 none)
	open   map[int]bool
	short  map[int]bool
	nextV  int
	nUsers int
	// remote-KMS configuration (nil = all local)
	remotes []int
	// profile versions as the generator expects them (UpdateProfile): current version per user, version per instance
	gen  map[int]int
	igen []int
	ns   int
}

// similar: the user IDs of this history are look-alikes of one another under a seeded scheme (names.go)
func (b *builder) similar(r *hx.Rng) *builder {
	b.ns = 1 + r.Intn(nameSchemes)

	for i := range b.ops {
		if b.ops[i].Kind == "create" {
			b.ops[i].NS = b.ns
		}
	}

	return b
}

func newBuilder(nUsers int) *builder { return newBuilderR(make([]int, nUsers)) }

// newBuilderR: remotes[u-1] = 0 for a local-KMS profile, n for a remote-KMS profile on key server n
func newBuilderR(remotes []int) *builder {
	nUsers := len(remotes)
	b := &builder{latest: map[int]int{}, open: map[int]bool{}, short: map[int]bool{}, nextV: 100, nUsers: nUsers,
		remotes: remotes, gen: map[int]int{}}
	b.ops = setup(nUsers)

	for i := range b.ops {
		if b.ops[i].Kind == "create" {
			b.ops[i].Remote = remotes[b.ops[i].U-1]
		}
	}

	for u := 1; u <= nUsers; u++ {
		b.iuser = append(b.iuser, u)
		b.igen = append(b.igen, 0)
		b.latest[u] = -1
	}

	return b
}

func (b *builder) firstInst(u int) int {
	for i, x := range b.iuser {
		if x == u {
			return i
		}
	}

	return 0
}

func (b *builder) lastInst(u int) int {
	for i := len(b.iuser) - 1; i >= 0; i-- {
		if b.iuser[i] == u {
			return i
		}
	}

	return 0
}

func (b *builder) tokOf(u int) int {
	if t := b.latest[u]; t >= 0 {
		return t
	}

	return -1
}

// event names (suffix = user): opens openl openbad close closelast half(6 units) full(12 units) new own ownlast cross crosskey add key garb
func (b *builder) event(e string) {
	u := 1
	if n := len(e); n > 0 && e[n-1] >= '1' && e[n-1] <= '9' {
		u = int(e[n-1] - '0')
		e = e[:n-1]
	}

	other := u%b.nUsers + 1

	switch e {
	case "opens", "openl":
		ttl := shortTTL
		if e == "openl" {
			ttl = 0
		}

		b.ops = append(b.ops, Op{Kind: "open", I: b.firstInst(u), TTL: ttl})
		// the generator's guess of whether this issues a token only steers later events; the harness numbers
		// tokens by what really happened
		if !b.open[u] {
			b.latest[u] = b.ntok
			b.ntok++
			b.open[u] = true
			b.short[u] = ttl != 0
		}
	case "openbad":
		if len(b.remotes) >= u && b.remotes[u-1] > 0 {
			break // a remote-KMS profile is not verified at unlock: there is no "wrong passphrase" to present
		}

		b.ops = append(b.ops, Op{Kind: "open", I: b.firstInst(u), Bad: true, TTL: shortTTL})
	case "close":
		b.ops = append(b.ops, Op{Kind: "close", I: b.firstInst(u)})
		b.open[u] = false
	case "closelast":
		b.ops = append(b.ops, Op{Kind: "close", I: b.lastInst(u)})
		b.open[u] = false
	case "half":
		b.ops = append(b.ops, Op{Kind: "tick", Dt: 6})
	case "full":
		b.ops = append(b.ops, Op{Kind: "tick", Dt: 12})
		// a short session may have expired; a later open then issues a new token: let the guess follow
		for x := range b.open {
			if b.short[x] {
				b.open[x] = false
			}
		}
	case "new":
		b.ops = append(b.ops, Op{Kind: "new", U: u})
		b.iuser = append(b.iuser, u)
		b.igen = append(b.igen, b.gen[u])
	case "update": // UpdateProfile: a new passphrase; instances made before keep the version they were made with
		if len(b.remotes) >= u && b.remotes[u-1] > 0 {
			break
		}

		b.ops = append(b.ops, Op{Kind: "update", U: u})
		b.gen[u]++
	case "recreate": // CreateProfile over an existing profile: refused, nothing changes
		b.ops = append(b.ops, Op{Kind: "create", U: u, NS: b.ns})
	case "opencur", "opencurlast": // Open presenting the passphrase of the CURRENT profile version (wrong for an instance made before an update)
		if len(b.remotes) >= u && b.remotes[u-1] > 0 {
			break
		}

		i := b.firstInst(u)
		if e == "opencurlast" {
			i = b.lastInst(u)
		}

		b.ops = append(b.ops, Op{Kind: "open", I: i, PG: b.gen[u] + 1, TTL: shortTTL})

		if b.igen[i] == b.gen[u] && !b.open[u] {
			b.latest[u] = b.ntok
			b.ntok++
			b.open[u] = true
			b.short[u] = true
		}
	case "own": // own instance, own latest token: a use that re-arms the expiry
		b.ops = append(b.ops, Op{Kind: "get", I: b.firstInst(u), Tok: b.tokOf(u), C: 1})
	case "ownlast":
		b.ops = append(b.ops, Op{Kind: "getall", I: b.lastInst(u), Tok: b.tokOf(u)})
	case "cross": // the OTHER profile's instance presented with u's latest token
		b.ops = append(b.ops, Op{Kind: "get", I: b.firstInst(other), Tok: b.tokOf(u), C: 1})
	case "crosskey":
		b.ops = append(b.ops, Op{Kind: "key", I: b.firstInst(other), Tok: b.tokOf(u)})
	case "add":
		b.nextV++
		b.ops = append(b.ops, Op{Kind: "add", I: b.firstInst(u), Tok: b.tokOf(u), C: 1 + b.nextV%2, V: b.nextV})
	case "key":
		b.ops = append(b.ops, Op{Kind: "key", I: b.firstInst(u), Tok: b.tokOf(u)})
	case "garb":
		b.ops = append(b.ops, Op{Kind: "get", I: b.firstInst(u), Tok: -1, C: 1})
	}
}

// probes: every instance x every token issued so far (+ one never issued) x every kind, in a seeded order
func (b *builder) probes(r *hx.Rng, kinds []string) {
	type pr struct{ i, t int }

	var ps []pr

	for i := range b.iuser {
		for t := -1; t < b.ntok; t++ {
			ps = append(ps, pr{i, t})
		}
	}

	for k := len(ps) - 1; k > 0; k-- {
		j := r.Intn(k + 1)
		ps[k], ps[j] = ps[j], ps[k]
	}

	for _, p := range ps {
		// the token in the issued spelling, and (for one pair in three) in a variant spelling
		vars := []string{""}
		if p.t >= 0 && r.Intn(3) == 0 {
			vars = append(vars, spellings[r.Intn(len(spellings))])
			if r.Bool() {
				vars[0], vars[1] = vars[1], vars[0]
			}
		}

		for _, v := range vars {
			for _, k := range kinds {
				op := Op{Kind: k, I: p.i, Tok: p.t, C: 1 + r.Intn(2), Var: v}
				if k == "add" {
					b.nextV++
					op.V = b.nextV
				}

				b.ops = append(b.ops, op)
			}
		}
	}
}

// --- every method class (content of every type, collections, key import, Query ... SignJWT) ---

var useMethods = []string{"query", "issue", "prove-stored", "prove-raw", "verify-stored", "verify-raw", //nolint:gochecknoglobals
	"derive-stored", "derive-raw", "resolve-stored", "resolve-raw", "signjwt"}

// prep fills profile u through its first instance with its latest token: a key under an explicit id, a collection,
// the two real credentials (one mapped into the collection), a DID resolution, metadata, a connection, a created key
func (b *builder) prep(u int) {
	i, t := b.firstInst(u), b.tokOf(u)
	v := func() int { b.nextV++; return b.nextV }

	b.ops = append(b.ops,
		Op{Kind: "import", I: i, Tok: t, KN: importBase + u},
		Op{Kind: "add", I: i, Tok: t, C: 101, V: v()},
		Op{Kind: "addin", I: i, Tok: t, C: 201, V: v(), Col: 101},
		Op{Kind: "add", I: i, Tok: t, C: 202, V: v()},
		Op{Kind: "add", I: i, Tok: t, C: 301, V: v()},
		Op{Kind: "add", I: i, Tok: t, C: 401, V: v()},
		Op{Kind: "addin", I: i, Tok: t, C: 501, V: v(), Col: 101},
		Op{Kind: "key", I: i, Tok: t},
	)
}

// probesFull: every instance x every token issued so far (+ one never issued) x every method class
func (b *builder) probesFull(r *hx.Rng) {
	type pr struct{ i, t int }

	var ps []pr

	for i := range b.iuser {
		for t := -1; t < b.ntok; t++ {
			ps = append(ps, pr{i, t})
		}
	}

	for k := len(ps) - 1; k > 0; k-- {
		j := r.Intn(k + 1)
		ps[k], ps[j] = ps[j], ps[k]
	}

	owner := func(t int) int {
		for u, lt := range b.latest {
			if lt == t {
				return u
			}
		}

		return 0
	}

	for _, p := range ps {
		u := b.iuser[p.i]
		v := func() int { b.nextV++; return b.nextV }
		signer := importBase + u

		if o := owner(p.t); o != 0 && r.Intn(2) == 0 {
			signer = importBase + o // aim at the key manager of the token's session
		}

		ops := []Op{
			{Kind: "get", C: 100*(1+r.Intn(5)) + 1},
			{Kind: "getall", CT: 1 + r.Intn(6)},
			{Kind: "getallin", CT: 2 + 3*r.Intn(2), Col: 101},
			{Kind: "add", C: 100*(3+r.Intn(3)) + 2 + r.Intn(2), V: v()},
			{Kind: "addin", C: 402 + r.Intn(2), V: v(), Col: 101 + r.Intn(2)},
			{Kind: "remove", C: 100*(4+r.Intn(2)) + 2 + r.Intn(2)},
			{Kind: "key"},
			{Kind: "import", KN: importBase + 1 + r.Intn(4)},
			{Kind: "keynomat", KN: r.Intn(4)},
		}

		for _, m := range useMethods {
			op := Op{Kind: "use", M: m, C: 201, KN: signer}
			if m == "derive-stored" {
				op.C = 202
			}

			if m == "signjwt" {
				op.KN = r.Intn(3)
			}

			ops = append(ops, op)
		}

		for k := len(ops) - 1; k > 0; k-- {
			j := r.Intn(k + 1)
			ops[k], ops[j] = ops[j], ops[k]
		}

		for k, op := range ops {
			op.I, op.Tok = p.i, p.t
			b.ops = append(b.ops, op)

			if p.t >= 0 && (k+p.i+p.t)%3 == 0 { // the same call with the token in a variant spelling
				op.Var = spellings[r.Intn(len(spellings))]
				if op.Kind == "add" || op.Kind == "addin" {
					op.V = v()
				}

				b.ops = append(b.ops, op)
			}
		}
	}
}

func buildFull(r *hx.Rng) []Op {
	b := newBuilder(2)
	if r.Intn(2) == 0 {
		b.similar(r)
	}

	// a short-lived session is used for the preparation only and has expired before the probes (no liveness decision
	// near its expiry); the other sessions have the default expiry
	opens := [][]string{{"openl1", "openl2"}, {"opens1", "openl2"}, {"openl1"}, {"openl1", "opens2"}}[r.Intn(4)]

	for _, e := range opens {
		b.event(e)
	}

	for u := 1; u <= 2; u++ {
		if b.open[u] {
			b.prep(u)
		}
	}

	if opens[0] == "opens1" || (len(opens) > 1 && opens[1] == "opens2") {
		b.event("full")
	}

	mid := []string{"close1", "close2", "half", "full", "new1", "new2", "own1", "cross1", "cross2", "crosskey1", "openl1", "openl2", "add1", "garb2"}
	for k := r.Intn(4); k > 0; k-- {
		b.event(mid[r.Intn(len(mid))])
	}

	b.probesFull(r)

	return b.ops
}

var allKinds = []string{"get", "add", "getall", "key", "remove", "keynomat"} //nolint:gochecknoglobals

type job struct {
	kind string
	ops  []Op
}

func build(nUsers int, events []string, r *hx.Rng, kinds []string) []Op {
	b := newBuilder(nUsers)
	if r.Intn(2) == 0 { // half of all histories: user IDs that are look-alikes of one another
		b.similar(r)
	}

	for _, e := range events {
		b.event(e)
	}

	b.probes(r, kinds)

	return b.ops
}

func enumerate(alpha []string, maxLen int, f func([]string)) {
	var rec func(prefix []string)

	rec = func(prefix []string) {
		f(prefix)

		if len(prefix) == maxLen {
			return
		}

		for _, e := range alpha {
			rec(append(append([]string{}, prefix...), e))
		}
	}

	rec(nil)
}

func loadConc(path string) (ConcCase, bool) {
	b, err := os.ReadFile(path)
	if err != nil {
		return ConcCase{}, false
	}

	var c struct {
		Case struct {
			Conc *ConcCase `json:"conc"`
		} `json:"case"`
		Conc *ConcCase `json:"conc"`
	}

	if json.Unmarshal(b, &c) != nil {
		return ConcCase{}, false
	}

	if c.Conc != nil {
		return *c.Conc, true
	}

	if c.Case.Conc != nil {
		return *c.Case.Conc, true
	}

	return ConcCase{}, false
}

func loadOps(path string) []Op {
	b, err := os.ReadFile(path)
	if err != nil {
		fmt.Fprintln(os.Stderr, err)
		os.Exit(2)
	}

	var c struct {
		Case struct {
			Ops []Op `json:"ops"`
		} `json:"case"`
		Ops []Op `json:"ops"`
	}

	if json.Unmarshal(b, &c) != nil {
		fmt.Fprintln(os.Stderr, "bad case file", path)
		os.Exit(2)
	}

	if len(c.Ops) == 0 {
		c.Ops = c.Case.Ops
	}

	if len(c.Ops) == 0 {
		fmt.Fprintln(os.Stderr, "empty case file", path)
		os.Exit(2)
	}

	return c.Ops
}

func main() {
	args := hx.ParseArgs()
	tr := hx.NewTrace(args.Out)

	defer tr.Close()

	if args.Replay != "" {
		if cc, ok := loadConc(args.Replay); ok {
			// an interleaving cannot be forced: repeat the round until the oracle fails (or give the last run)
			var rec *hx.Record
			for i := 0; i < 2000; i++ {
				rec = runConc("replay", cc)
				if rec.Oracle == "fail" {
					break
				}
			}

			tr.Put(rec)

			return
		}

		tr.Put(runHistory("replay", loadOps(args.Replay)))

		return
	}

	if os.Getenv("C19_ONLY") == "methods" { // development aid
		tr.Put(methodsAttack(0))
		tr.Put(didcommAttack(0))
		tr.Put(controllerAttack(0))

		return
	}

	var jobs []job

	files, _ := filepath.Glob(filepath.Join(args.Extra, "*.json"))
	sort.Strings(files)

	for _, f := range files {
		jobs = append(jobs, job{"corpus:" + filepath.Base(f), loadOps(f)})
	}

	rng := hx.NewRng(args.Seed)
	n := uint64(0)
	fork := func() *hx.Rng { n++; return rng.Fork(n) }

	// 1. every event sequence up to length 3 (quick) / 4 (thorough) over the two-profile alphabet, each followed by
	//    every instance x every token issued x {get, add, key} (all five kinds for the shortest ones)
	alpha := []string{"opens1", "openl1", "opens2", "close1", "close2", "half", "full", "new1", "own1", "cross1", "add1"}
	depth := 3

	if args.Tier == "thorough" {
		depth = 4
	}

	enumerate(alpha, depth, func(ev []string) {
		kinds := []string{"get", "add", "key"}
		if len(ev) <= 2 {
			kinds = allKinds
		}

		jobs = append(jobs, job{"exhaustive", build(2, ev, fork(), kinds)})
	})

	// 2. directed: sliding expiry.  open(short) . tick6 . X . tick6 [. Y]: the session survives the second tick
	//    exactly when X was an admitted use of its token; a rejected presentation must not re-arm it.
	mids := []string{"own1", "cross1", "crosskey1", "garb1", "add1", "key1", "new1", "ownlast1", "close2", "openbad1", "opens1", "half"}
	for _, pre := range [][]string{{"opens1"}, {"opens1", "opens2"}, {"opens1", "openl2"}, {"new1", "opens1"}} {
		for _, x := range mids {
			for _, y := range []string{"", "new1", "own1", "half", "close1", "opens1"} {
				ev := append(append([]string{}, pre...), "half", x, "half")
				if y != "" {
					ev = append(ev, y)
				}

				jobs = append(jobs, job{"directed", build(2, ev, fork(), allKinds)})
			}
		}
	}

	// 2a. profile update (passphrase change), re-creation over an existing profile, instances made before and after an
	//     update, opened with the passphrase of their own or of the current profile version: every sequence of
	//     length <= 2 over the alphabet after each prefix; no token is revoked or granted by an update
	ualpha := []string{"update1", "update2", "new1", "opens1", "opencur1", "opencurlast1", "close1", "own1", "cross2", "recreate1", "key1"}
	for _, pre := range [][]string{{}, {"opens1"}, {"openl1", "openl2", "add1"}} {
		enumerate(ualpha, 2, func(ev []string) {
			hasUpd := false
			for _, e := range ev {
				hasUpd = hasUpd || strings.HasPrefix(e, "update") || strings.HasPrefix(e, "recreate")
			}

			if !hasUpd {
				return
			}

			jobs = append(jobs, job{"update", build(2, append(append([]string{}, pre...), ev...), fork(), []string{"get", "add", "key", "keynomat"})})
		})
	}

	// 2b. every method class under every token class, tied to the model
	nFull := 70
	if args.Tier == "thorough" {
		nFull = 1500
	}

	for i := 0; i < nFull; i++ {
		jobs = append(jobs, job{"methods", buildFull(fork())})
	}

	// 2c. remote-KMS profiles (a multi-tenant key server on loopback): all on one key server URL, on two URLs, mixed
	//     with local profiles; interleaved open / close / key operations, then every instance x every token
	nRemote := 220
	if args.Tier == "thorough" {
		nRemote = 3000
	}

	rconf := [][]int{{1, 1}, {1, 1, 1}, {1, 2}, {0, 1}, {1, 0, 1}, {1, 1, 2}, {1, 1}}
	revents := []string{"opens", "openl", "openl", "close", "closelast", "half", "full", "new", "own", "cross", "crosskey", "crosskey",
		"add", "key", "key", "garb"}

	for i := 0; i < nRemote; i++ {
		r := fork()
		conf := rconf[r.Intn(len(rconf))]
		b := newBuilderR(conf)
		if r.Intn(2) == 0 {
			b.similar(r)
		}

		for k := 2 + r.Intn(8); k > 0; k-- {
			b.event(fmt.Sprintf("%s%d", revents[r.Intn(len(revents))], 1+r.Intn(len(conf))))
		}

		b.probes(r, []string{"key", "get", "add", "key"})
		jobs = append(jobs, job{"remote-kms", b.ops})
	}

	// 2d. spellings: every variant spelling x every instance x every token x every method class, in states where the
	//     token spelt is live (own / foreign), closed, expired
	nSpell := 8
	if args.Tier == "thorough" {
		nSpell = 80
	}

	for i := 0; i < nSpell; i++ {
		r := fork()
		b := newBuilder(2)
		if i%2 == 1 {
			b.similar(r)
		}

		b.event("openl1")
		if i%4 == 2 {
			b.event("opens2") // short expiry: spelt after it has passed
		} else {
			b.event("openl2")
		}

		b.prep(1)
		b.prep(2)

		switch i % 4 {
		case 1:
			b.event("close1")
		case 2:
			b.event("full") // the short session of profile 2 expires
		case 3:
			b.event("close2")
			b.event("openl2")
		}

		for _, sp := range spellings {
			for inst := range b.iuser {
				for t := 0; t < b.ntok; t++ {
					ops := []Op{{Kind: "get", C: 401}, {Kind: "getall", CT: 4}, {Kind: "add", C: 402, V: 0}, {Kind: "remove", C: 401},
						{Kind: "key"}, {Kind: "import", KN: importBase + 3}, {Kind: "keynomat"}, {Kind: "getallin", CT: 2, Col: 101},
						{Kind: "addin", C: 403, Col: 101}}
					for _, m := range useMethods {
						op := Op{Kind: "use", M: m, C: 201, KN: importBase + b.iuser[inst]}
						if m == "derive-stored" {
							op.C = 202
						}

						ops = append(ops, op)
					}

					// a seeded third of the method classes per (spelling, instance, token): all of them over the stream
					for k, op := range ops {
						if (k+r.Intn(3))%3 != 0 {
							continue
						}

						op.I, op.Tok, op.Var = inst, t, sp
						if op.Kind == "add" || op.Kind == "addin" {
							b.nextV++
							op.V = b.nextV
						}

						b.ops = append(b.ops, op)
					}
				}
			}
		}

		jobs = append(jobs, job{"spelling", b.ops})
	}

	// 3. seeded random histories over three profiles
	nRandom := 700
	if args.Tier == "thorough" {
		nRandom = 4000
	}

	ralpha := []string{"opens", "openl", "opens", "close", "closelast", "half", "half", "full", "new", "own", "ownlast",
		"cross", "crosskey", "add", "add", "key", "garb", "openbad", "update", "opencur", "opencurlast", "recreate"}

	for i := 0; i < nRandom; i++ {
		r := fork()
		nu := 2 + r.Intn(2)
		ln := 3 + r.Intn(8)
		ev := make([]string, ln)

		for k := range ev {
			ev[k] = fmt.Sprintf("%s%d", ralpha[r.Intn(len(ralpha))], 1+r.Intn(nu))
		}

		jobs = append(jobs, job{"random", build(nu, ev, r, allKinds)})
	}

	// run in parallel (sleeps dominate), write in order
	out := make([]*hx.Record, len(jobs))
	workers := 48

	var wg sync.WaitGroup

	next := int64(-1)

	for k := 0; k < workers; k++ {
		wg.Add(1)

		go func() {
			defer wg.Done()

			for {
				i := int(atomic.AddInt64(&next, 1))
				if i >= len(jobs) {
					return
				}

				out[i] = runHistory(jobs[i].kind, jobs[i].ops)
			}
		}()
	}

	wg.Wait()

	for _, r := range out {
		tr.Put(r)
	}

	// overlapping calls (several Open on one profile, Open vs Close, Open vs key operation)
	concPhase(args, rng, tr)

	// methods outside the model: direct oracle only
	nAttack := 10
	if args.Tier == "thorough" {
		nAttack = 100
	}

	for i := 0; i < nAttack; i++ {
		tr.Put(signJWTAttack(i))
		tr.Put(clientAttack(i))
	}

	for i := 0; i < 1+nAttack/5; i++ {
		rep := i + (1+nAttack/5)*int(args.Seed%1000) // the repetition number selects spellings and the naming scheme of the user IDs
		tr.Put(methodsAttack(rep))
		tr.Put(didcommAttack(rep))
		tr.Put(controllerAttack(rep))
	}

	for i := 0; i < 2*nAttack; i++ {
		tr.Put(remoteAttack(i, rng.Fork(uint64(7_000_000+i))))
	}
}
