package main

import (
	"crypto/ed25519"
	"crypto/sha256"
	"encoding/base64"
	"encoding/json"
	"errors"
	"fmt"
	"strings"
	"time"

	"github.com/btcsuite/btcutil/base58"

	ldtestutil "github.com/hyperledger/aries-framework-go/component/models/ld/testutil"
	"github.com/hyperledger/aries-framework-go/pkg/crypto/primitive/bbs12381g2pub"
	"github.com/hyperledger/aries-framework-go/pkg/doc/did"
	"github.com/hyperledger/aries-framework-go/pkg/doc/verifiable"
	vdrapi "github.com/hyperledger/aries-framework-go/pkg/framework/aries/api/vdr"
	"github.com/hyperledger/aries-framework-go/pkg/kms"
	mockvdr "github.com/hyperledger/aries-framework-go/pkg/mock/vdr"
	"github.com/hyperledger/aries-framework-go/pkg/vdr/fingerprint"
	"github.com/hyperledger/aries-framework-go/pkg/vdr/key"
	"github.com/hyperledger/aries-framework-go/pkg/wallet"

	"verifharness/hx"
)

// Every token-taking Wallet method, called with VALID inputs under every token class.  Direct oracle:
//   - a token that is not a live token of the instance's own profile must be answered with an authorization error
//     (wallet locked / invalid auth token), whatever the method, and the call must not read or write any stored data;
//   - with the own live token the method must get past the gate (success or a data-level answer), otherwise the probe
//     is vacuous and the record says so.

// fixtures of one profile
type fixtures struct {
	u         int
	edDID     string // did:key of the imported Ed25519 key
	edVM      string
	bbsDID    string
	bbsVM     string
	credID    string // stored credential with an Ed25519 proof
	bbsCredID string // stored credential with a BBS+ proof
	rawCred   []byte // signed credential, raw
	rawBBS    []byte
	colID     string
	metaID    string
	connID    string
	didResID  string
	jwtVM     string // verification method of a key made by CreateKeyPair
	n         int
}

type mprobe struct {
	Method string   `json:"method"`
	Inst   int      `json:"inst_user"`
	Token  string   `json:"token"`
	Result string   `json:"result"`
	Err    string   `json:"err,omitempty"`
	Calls  []string `json:"storage_calls,omitempty"`
}

func authClass(err error) bool {
	if err == nil {
		return false
	}

	if errors.Is(err, wallet.ErrWalletLocked) || errors.Is(err, wallet.ErrInvalidAuthToken) {
		return true
	}

	s := err.Error()

	return strings.Contains(s, "wallet locked") || strings.Contains(s, "invalid auth token")
}

func didKeyVDR() *mockvdr.MockVDRegistry {
	return &mockvdr.MockVDRegistry{
		ResolveFunc: func(id string, _ ...vdrapi.DIDMethodOption) (*did.DocResolution, error) {
			if strings.HasPrefix(id, "did:key:") {
				return key.New().Read(id)
			}

			return nil, fmt.Errorf("did not found")
		},
	}
}

func vcJSON(id, issuer string, bbs bool) []byte {
	if bbs {
		// the shape of the framework's own BBS+ sample (University Degree Credential)
		return []byte(fmt.Sprintf(`{"@context":["https://www.w3.org/2018/credentials/v1","https://www.w3.org/2018/credentials/examples/v1",`+
			`"https://w3id.org/security/bbs/v1"],"id":"%s","type":["VerifiableCredential","UniversityDegreeCredential"],`+
			`"issuer":{"id":"%s","name":"Example University"},"issuanceDate":"2010-01-01T19:23:24Z",`+
			`"credentialSubject":{"id":"did:example:ebfeb1f712ebc6f1c276e12ec21","name":"Jayden Doe","degree":{"type":"BachelorDegree","university":"MIT"}}}`,
			id, issuer))
	}

	return []byte(fmt.Sprintf(`{"@context":["https://www.w3.org/2018/credentials/v1"],"id":"%s","type":["VerifiableCredential"],"issuer":"%s",`+
		`"issuanceDate":"2021-01-01T00:00:00Z","credentialSubject":{"id":"did:example:holder-%s"}}`, id, issuer, id[len(id)-4:]))
}

var proofValue = verifiable.SignatureProofValue //nolint:gochecknoglobals

const manifestJSON = `{"id":"c19-manifest","version":"0.1.0","issuer":{"id":"did:example:123","name":"c19"},` +
	`"output_descriptors":[{"id":"out1","schema":"https://www.w3.org/2018/credentials/v1",` +
	`"display":{"title":{"path":["$.id"],"schema":{"type":"string"},"fallback":"credential"},` +
	`"subtitle":{"text":"c19"},"description":{"text":"c19 probe"}}}]}`

var deriveFrame = map[string]interface{}{ //nolint:gochecknoglobals
	"@context": []interface{}{"https://www.w3.org/2018/credentials/v1", "https://www.w3.org/2018/credentials/examples/v1",
		"https://w3id.org/security/bbs/v1"},
	"type":         []interface{}{"VerifiableCredential", "UniversityDegreeCredential"},
	"@explicit":    true,
	"identifier":   map[string]interface{}{},
	"issuer":       map[string]interface{}{},
	"issuanceDate": map[string]interface{}{},
	"credentialSubject": map[string]interface{}{
		"@explicit": true,
		"degree":    map[string]interface{}{},
		"name":      map[string]interface{}{},
	},
}

// prepare fills profile u (through its own instance and token) with one item of every content type, two keys,
// two signed credentials and a collection mapping.
func (w *world) prepare(u, inst int, tok string) (*fixtures, error) {
	f := &fixtures{u: u}
	x := w.insts[inst]

	seed := sha256.Sum256([]byte(fmt.Sprintf("c19 ed %s %d %d", runNonce, w.id, u)))
	priv := ed25519.NewKeyFromSeed(seed[:])
	pub, _ := priv.Public().(ed25519.PublicKey)
	f.edDID, f.edVM = fingerprint.CreateDIDKey(pub)

	keyDoc := fmt.Sprintf(`{"@context":["https://w3id.org/wallet/v1"],"id":"%s","type":"Ed25519VerificationKey2018","privateKeyBase58":"%s"}`,
		f.edVM, base58.Encode(priv))
	if err := x.Add(tok, wallet.Key, []byte(keyDoc)); err != nil {
		return nil, fmt.Errorf("import ed key: %w", err)
	}

	bseed := sha256.Sum256([]byte(fmt.Sprintf("c19 bbs %s %d %d", runNonce, w.id, u)))

	bpub, bpriv, err := bbs12381g2pub.GenerateKeyPair(sha256.New, bseed[:])
	if err != nil {
		return nil, err
	}

	bpubB, _ := bpub.Marshal()
	bprivB, _ := bpriv.Marshal()
	f.bbsDID, f.bbsVM = fingerprint.CreateDIDKeyByCode(fingerprint.BLS12381g2PubKeyMultiCodec, bpubB)

	bkeyDoc := fmt.Sprintf(`{"@context":["https://w3id.org/wallet/v1"],"id":"%s","type":"Bls12381G1Key2020","privateKeyBase58":"%s"}`,
		f.bbsVM, base58.Encode(bprivB))
	if err = x.Add(tok, wallet.Key, []byte(bkeyDoc)); err != nil {
		return nil, fmt.Errorf("import bbs key: %w", err)
	}

	f.colID = fmt.Sprintf("did:example:collection-%d", u)
	if err = x.Add(tok, wallet.Collection, []byte(fmt.Sprintf(`{"@context":["https://w3id.org/wallet/v1"],"id":"%s","type":"Collection","name":"c19"}`, f.colID))); err != nil {
		return nil, fmt.Errorf("add collection: %w", err)
	}

	f.credID = fmt.Sprintf("http://example.edu/credentials/u%d-e001", u)

	vc, err := x.Issue(tok, vcJSON(f.credID, f.edDID, false), &wallet.ProofOptions{Controller: f.edDID})
	if err != nil {
		return nil, fmt.Errorf("issue: %w", err)
	}

	if f.rawCred, err = vc.MarshalJSON(); err != nil {
		return nil, err
	}

	if err = x.Add(tok, wallet.Credential, f.rawCred, wallet.AddByCollection(f.colID)); err != nil {
		return nil, fmt.Errorf("add credential: %w", err)
	}

	f.bbsCredID = fmt.Sprintf("http://example.edu/credentials/u%d-b002", u)

	bvc, err := x.Issue(tok, vcJSON(f.bbsCredID, f.bbsDID, true), &wallet.ProofOptions{Controller: f.bbsDID, ProofType: wallet.BbsBlsSignature2020, ProofRepresentation: &proofValue})
	if err != nil {
		return nil, fmt.Errorf("issue bbs: %w", err)
	}

	if f.rawBBS, err = bvc.MarshalJSON(); err != nil {
		return nil, err
	}

	if err = x.Add(tok, wallet.Credential, f.rawBBS); err != nil {
		return nil, fmt.Errorf("add bbs credential: %w", err)
	}

	f.metaID = fmt.Sprintf("did:example:meta-%d", u)
	if err = x.Add(tok, wallet.Metadata, []byte(fmt.Sprintf(`{"@context":["https://w3id.org/wallet/v1"],"id":"%s","type":"Person","name":"p%d"}`, f.metaID, u))); err != nil {
		return nil, fmt.Errorf("add metadata: %w", err)
	}

	f.connID = fmt.Sprintf("conn-%d", u)
	if err = x.Add(tok, wallet.Connection, []byte(fmt.Sprintf(`{"@context":["https://w3id.org/wallet/v1"],"id":"%s","type":"Connection","name":"c%d"}`, f.connID, u))); err != nil {
		return nil, fmt.Errorf("add connection: %w", err)
	}

	res, err := key.New().Read(f.edDID)
	if err != nil {
		return nil, err
	}

	resB, err := res.JSONBytes()
	if err != nil {
		return nil, err
	}

	f.didResID = f.edDID
	if err = x.Add(tok, wallet.DIDResolutionResponse, resB); err != nil {
		return nil, fmt.Errorf("add did resolution: %w", err)
	}

	kp, err := x.CreateKeyPair(tok, kms.ED25519Type)
	if err != nil {
		return nil, fmt.Errorf("create key pair: %w", err)
	}

	kpub, err := base64.RawURLEncoding.DecodeString(kp.PublicKey)
	if err != nil {
		return nil, err
	}

	_, f.jwtVM = fingerprint.CreateDIDKey(kpub)

	return f, nil
}

type method struct {
	name string
	// call with the fixtures of the profile whose data is aimed at (own) and of the signing identity (signer)
	fn func(x *wallet.Wallet, tok string, own, signer *fixtures) (interface{}, error)
}

// degenerate input (name prefix "degenerate-"): the method takes its shortest path (nothing to store, parse, sign or
// look up). With a token that is not own-live the call must FAIL (any error; success is the violation) without
// touching stored data; with the own live token it is not judged.
func (m method) degenerate() bool { return strings.HasPrefix(m.name, "degenerate-") }

func fresh(f *fixtures) int { f.n++; return f.n }

func allMethods() []method { //nolint:funlen
	ms := []method{
		{"add-collection", func(x *wallet.Wallet, tok string, own, _ *fixtures) (interface{}, error) {
			return nil, x.Add(tok, wallet.Collection, []byte(fmt.Sprintf(`{"id":"did:example:col-%d-%d","type":"Collection"}`, own.u, fresh(own))))
		}},
		{"add-credential", func(x *wallet.Wallet, tok string, own, _ *fixtures) (interface{}, error) {
			return nil, x.Add(tok, wallet.Credential, vcJSON(fmt.Sprintf("http://example.edu/credentials/u%d-x%03d", own.u, fresh(own)), own.edDID, false))
		}},
		{"add-credential-in-collection", func(x *wallet.Wallet, tok string, own, _ *fixtures) (interface{}, error) {
			return nil, x.Add(tok, wallet.Credential, vcJSON(fmt.Sprintf("http://example.edu/credentials/u%d-y%03d", own.u, fresh(own)), own.edDID, false),
				wallet.AddByCollection(own.colID))
		}},
		{"add-metadata", func(x *wallet.Wallet, tok string, own, _ *fixtures) (interface{}, error) {
			return nil, x.Add(tok, wallet.Metadata, []byte(fmt.Sprintf(`{"id":"did:example:m-%d-%d","type":"Person"}`, own.u, fresh(own))))
		}},
		{"add-connection", func(x *wallet.Wallet, tok string, own, _ *fixtures) (interface{}, error) {
			return nil, x.Add(tok, wallet.Connection, []byte(fmt.Sprintf(`{"id":"conn-%d-%d","type":"Connection"}`, own.u, fresh(own))))
		}},
		{"add-didresolution", func(x *wallet.Wallet, tok string, own, _ *fixtures) (interface{}, error) {
			seed := sha256.Sum256([]byte(fmt.Sprintf("c19 extra %d %d", own.u, fresh(own))))
			pub, _ := ed25519.NewKeyFromSeed(seed[:]).Public().(ed25519.PublicKey)
			d, _ := fingerprint.CreateDIDKey(pub)

			res, err := key.New().Read(d)
			if err != nil {
				return nil, err
			}

			b, err := res.JSONBytes()
			if err != nil {
				return nil, err
			}

			return nil, x.Add(tok, wallet.DIDResolutionResponse, b)
		}},
		{"add-key", func(x *wallet.Wallet, tok string, own, _ *fixtures) (interface{}, error) {
			seed := sha256.Sum256([]byte(fmt.Sprintf("c19 addkey %s %d %d", runNonce, own.u, fresh(own))))
			priv := ed25519.NewKeyFromSeed(seed[:])
			pub, _ := priv.Public().(ed25519.PublicKey)
			_, vm := fingerprint.CreateDIDKey(pub)

			return nil, x.Add(tok, wallet.Key, []byte(fmt.Sprintf(`{"id":"%s","type":"Ed25519VerificationKey2018","privateKeyBase58":"%s"}`, vm, base58.Encode(priv))))
		}},
	}

	type ctID struct {
		ct wallet.ContentType
		id func(f *fixtures) string
	}

	for _, c := range []ctID{
		{wallet.Collection, func(f *fixtures) string { return f.colID }},
		{wallet.Credential, func(f *fixtures) string { return f.credID }},
		{wallet.DIDResolutionResponse, func(f *fixtures) string { return f.didResID }},
		{wallet.Metadata, func(f *fixtures) string { return f.metaID }},
		{wallet.Connection, func(f *fixtures) string { return f.connID }},
	} {
		c := c
		ms = append(ms,
			method{"get-" + c.ct.Name(), func(x *wallet.Wallet, tok string, own, _ *fixtures) (interface{}, error) {
				return x.Get(tok, c.ct, c.id(own))
			}},
			method{"getall-" + c.ct.Name(), func(x *wallet.Wallet, tok string, _, _ *fixtures) (interface{}, error) {
				return x.GetAll(tok, c.ct)
			}},
			method{"remove-" + c.ct.Name(), func(x *wallet.Wallet, tok string, own, _ *fixtures) (interface{}, error) {
				return nil, x.Remove(tok, c.ct, fmt.Sprintf("no-such-%d", fresh(own)))
			}},
		)
	}

	ms = append(ms,
		method{"getall-key", func(x *wallet.Wallet, tok string, _, _ *fixtures) (interface{}, error) {
			return x.GetAll(tok, wallet.Key)
		}},
		method{"getall-credential-by-collection", func(x *wallet.Wallet, tok string, own, _ *fixtures) (interface{}, error) {
			return x.GetAll(tok, wallet.Credential, wallet.FilterByCollection(own.colID))
		}},
		method{"query-didauth", func(x *wallet.Wallet, tok string, _, _ *fixtures) (interface{}, error) {
			return x.Query(tok, &wallet.QueryParams{Type: "DIDAuth"})
		}},
		method{"query-by-example", func(x *wallet.Wallet, tok string, _, _ *fixtures) (interface{}, error) {
			q := `{"reason":"c19","example":{"@context":["https://www.w3.org/2018/credentials/v1"],"type":["VerifiableCredential"]}}`

			return x.Query(tok, &wallet.QueryParams{Type: "QueryByExample", Query: []json.RawMessage{[]byte(q)}})
		}},
		method{"query-by-frame", func(x *wallet.Wallet, tok string, _, _ *fixtures) (interface{}, error) {
			fr, _ := json.Marshal(map[string]interface{}{"reason": "c19", "frame": deriveFrame})

			return x.Query(tok, &wallet.QueryParams{Type: "QueryByFrame", Query: []json.RawMessage{fr}})
		}},
		method{"issue", func(x *wallet.Wallet, tok string, _, signer *fixtures) (interface{}, error) {
			return x.Issue(tok, vcJSON(fmt.Sprintf("http://example.edu/credentials/u%d-i%03d", signer.u, fresh(signer)), signer.edDID, false),
				&wallet.ProofOptions{Controller: signer.edDID})
		}},
		method{"issue-jwt", func(x *wallet.Wallet, tok string, _, signer *fixtures) (interface{}, error) {
			return x.Issue(tok, vcJSON(fmt.Sprintf("http://example.edu/credentials/u%d-j%03d", signer.u, fresh(signer)), signer.edDID, false),
				&wallet.ProofOptions{Controller: signer.edDID, ProofFormat: wallet.ExternalJWTProofFormat})
		}},
		method{"prove-stored", func(x *wallet.Wallet, tok string, own, signer *fixtures) (interface{}, error) {
			return x.Prove(tok, &wallet.ProofOptions{Controller: signer.edDID}, wallet.WithStoredCredentialsToProve(own.credID))
		}},
		method{"prove-raw", func(x *wallet.Wallet, tok string, own, signer *fixtures) (interface{}, error) {
			return x.Prove(tok, &wallet.ProofOptions{Controller: signer.edDID}, wallet.WithRawCredentialsToProve(own.rawCred))
		}},
		method{"verify-stored", func(x *wallet.Wallet, tok string, own, _ *fixtures) (interface{}, error) {
			ok, err := x.Verify(tok, wallet.WithStoredCredentialToVerify(own.credID))
			if err == nil && !ok {
				err = errors.New("not verified")
			}

			return ok, err
		}},
		method{"verify-raw", func(x *wallet.Wallet, tok string, own, _ *fixtures) (interface{}, error) {
			ok, err := x.Verify(tok, wallet.WithRawCredentialToVerify(own.rawCred))
			if err == nil && !ok {
				err = errors.New("not verified")
			}

			return ok, err
		}},
		method{"derive-stored", func(x *wallet.Wallet, tok string, own, _ *fixtures) (interface{}, error) {
			return x.Derive(tok, wallet.FromStoredCredential(own.bbsCredID), &wallet.DeriveOptions{Frame: deriveFrame, Nonce: "c19"})
		}},
		method{"derive-raw", func(x *wallet.Wallet, tok string, own, _ *fixtures) (interface{}, error) {
			return x.Derive(tok, wallet.FromRawCredential(own.rawBBS), &wallet.DeriveOptions{Frame: deriveFrame, Nonce: "c19"})
		}},
		method{"resolve-manifest-stored", func(x *wallet.Wallet, tok string, own, _ *fixtures) (interface{}, error) {
			return x.ResolveCredentialManifest(tok, []byte(manifestJSON), wallet.ResolveCredentialID("out1", own.credID))
		}},
		method{"resolve-manifest-raw", func(x *wallet.Wallet, tok string, own, _ *fixtures) (interface{}, error) {
			return x.ResolveCredentialManifest(tok, []byte(manifestJSON), wallet.ResolveRawCredential("out1", own.rawCred))
		}},
		method{"signjwt", func(x *wallet.Wallet, tok string, _, signer *fixtures) (interface{}, error) {
			return x.SignJWT(tok, nil, map[string]interface{}{"iss": "c19"}, signer.jwtVM)
		}},
		method{"createkeypair", func(x *wallet.Wallet, tok string, _, _ *fixtures) (interface{}, error) {
			return x.CreateKeyPair(tok, kms.ED25519Type)
		}},
	)

	// degenerate inputs
	dg := func(name string, fn func(x *wallet.Wallet, tok string, own, signer *fixtures) (interface{}, error)) {
		ms = append(ms, method{"degenerate-" + name, fn})
	}

	for i, doc := range []string{`{"id":"did:example:c19#nokey","type":"Ed25519VerificationKey2018"}`, `{}`, `{"privateKeyBase58":""}`, `{"id":"","type":""}`} {
		doc := doc
		dg(fmt.Sprintf("add-key-without-material-%d", i), func(x *wallet.Wallet, tok string, _, _ *fixtures) (interface{}, error) {
			return nil, x.Add(tok, wallet.Key, []byte(doc))
		})
	}

	for _, ct := range []wallet.ContentType{wallet.Collection, wallet.Credential, wallet.Metadata, wallet.Connection, wallet.DIDResolutionResponse,
		wallet.ContentType("unknown"), wallet.ContentType("")} {
		ct := ct
		dg("add-empty-object-"+ct.Name(), func(x *wallet.Wallet, tok string, own, _ *fixtures) (interface{}, error) {
			return nil, x.Add(tok, ct, []byte(fmt.Sprintf(`{"c19":%d}`, fresh(own))))
		})
		dg("add-no-json-"+ct.Name(), func(x *wallet.Wallet, tok string, _, _ *fixtures) (interface{}, error) {
			return nil, x.Add(tok, ct, nil)
		})
		dg("get-empty-id-"+ct.Name(), func(x *wallet.Wallet, tok string, _, _ *fixtures) (interface{}, error) {
			return x.Get(tok, ct, "")
		})
		dg("remove-empty-id-"+ct.Name(), func(x *wallet.Wallet, tok string, _, _ *fixtures) (interface{}, error) {
			return nil, x.Remove(tok, ct, "")
		})
		dg("getall-unknown-collection-"+ct.Name(), func(x *wallet.Wallet, tok string, _, _ *fixtures) (interface{}, error) {
			return x.GetAll(tok, ct, wallet.FilterByCollection("no-such-collection"))
		})
	}

	dg("add-validate-invalid-jsonld", func(x *wallet.Wallet, tok string, _, _ *fixtures) (interface{}, error) {
		return nil, x.Add(tok, wallet.Metadata, []byte(`{"@context":"https://w3id.org/wallet/v1","id":"did:example:c19v","undefinedTerm":1}`), wallet.ValidateContent())
	})
	dg("add-key-validate-no-material", func(x *wallet.Wallet, tok string, _, _ *fixtures) (interface{}, error) {
		return nil, x.Add(tok, wallet.Key, []byte(`{"@context":["https://w3id.org/wallet/v1"],"id":"did:example:c19#k","type":"Ed25519VerificationKey2018"}`), wallet.ValidateContent())
	})
	dg("query-no-params", func(x *wallet.Wallet, tok string, _, _ *fixtures) (interface{}, error) {
		return x.Query(tok)
	})
	dg("query-unsupported-type", func(x *wallet.Wallet, tok string, _, _ *fixtures) (interface{}, error) {
		return x.Query(tok, &wallet.QueryParams{Type: "NoSuchQuery"})
	})
	dg("issue-invalid-credential", func(x *wallet.Wallet, tok string, _, signer *fixtures) (interface{}, error) {
		return x.Issue(tok, []byte(`{}`), &wallet.ProofOptions{Controller: signer.edDID})
	})
	dg("issue-no-proof-options", func(x *wallet.Wallet, tok string, _, signer *fixtures) (interface{}, error) {
		return x.Issue(tok, vcJSON("http://example.edu/credentials/c19-degenerate", signer.edDID, false), nil)
	})
	dg("prove-nothing", func(x *wallet.Wallet, tok string, _, signer *fixtures) (interface{}, error) {
		return x.Prove(tok, &wallet.ProofOptions{Controller: signer.edDID})
	})
	dg("prove-no-proof-options", func(x *wallet.Wallet, tok string, _, _ *fixtures) (interface{}, error) {
		return x.Prove(tok, nil)
	})
	dg("prove-unknown-controller", func(x *wallet.Wallet, tok string, _, _ *fixtures) (interface{}, error) {
		return x.Prove(tok, &wallet.ProofOptions{Controller: "did:example:nobody"})
	})
	dg("verify-nothing", func(x *wallet.Wallet, tok string, _, _ *fixtures) (interface{}, error) {
		return x.Verify(tok, wallet.WithRawCredentialToVerify(nil))
	})
	dg("verify-garbage", func(x *wallet.Wallet, tok string, _, _ *fixtures) (interface{}, error) {
		return x.Verify(tok, wallet.WithRawPresentationToVerify([]byte(`{}`)))
	})
	dg("derive-nothing", func(x *wallet.Wallet, tok string, _, _ *fixtures) (interface{}, error) {
		return x.Derive(tok, wallet.FromRawCredential(nil), &wallet.DeriveOptions{})
	})
	dg("resolve-manifest-no-option", func(x *wallet.Wallet, tok string, _, _ *fixtures) (interface{}, error) {
		return x.ResolveCredentialManifest(tok, []byte(manifestJSON), nil)
	})
	dg("resolve-manifest-garbage-manifest", func(x *wallet.Wallet, tok string, own, _ *fixtures) (interface{}, error) {
		return x.ResolveCredentialManifest(tok, []byte(`{`), wallet.ResolveRawCredential("out1", own.rawCred))
	})
	dg("signjwt-unknown-kid", func(x *wallet.Wallet, tok string, _, _ *fixtures) (interface{}, error) {
		return x.SignJWT(tok, nil, nil, "did:example:nobody#k")
	})
	dg("signjwt-empty-kid", func(x *wallet.Wallet, tok string, _, _ *fixtures) (interface{}, error) {
		return x.SignJWT(tok, nil, nil, "")
	})
	dg("createkeypair-unsupported-type", func(x *wallet.Wallet, tok string, _, _ *fixtures) (interface{}, error) {
		return x.CreateKeyPair(tok, kms.KeyType("no-such-key-type"))
	})

	return ms
}

// methodsAttack runs every method under every token class; one record per run.
func methodsAttack(rep int) *hx.Record { //nolint:funlen,gocyclo
	w := newWorld()
	defer w.cleanup()
	w.ns = rep % (nameSchemes + 1) // user IDs that are look-alikes of one another (names.go); 0 = plainly distinct

	loader, err := ldtestutil.DocumentLoader()
	if err != nil {
		panic(err)
	}

	w.ctx.VDRegistryValue = didKeyVDR()
	w.ctx.DocumentLoaderValue = loader

	rec := &hx.Record{Kind: "attack", Oracle: "ok", Class: "methods", Dist: []string{"attack=methods"},
		Case: map[string]interface{}{"attack": "methods", "rep": rep}}
	fail := func(sig, detail string) {
		if rec.Oracle == "ok" {
			rec.Oracle, rec.Sig, rec.Detail = "fail", sig, detail
		}
	}
	trivial := func(why string) *hx.Record {
		rec.Trivial, rec.Detail = true, why
		return rec
	}

	for _, op := range append(setup(2), Op{Kind: "open", I: 0}, Op{Kind: "open", I: 1}, Op{Kind: "new", U: 1}, Op{Kind: "new", U: 2}) {
		if o, _ := w.apply(op); o.Out == "err" {
			return trivial("setup failed: " + o.Err)
		}
	}

	fx := map[int]*fixtures{}

	for u := 1; u <= 2; u++ {
		f, e := w.prepare(u, u-1, w.toks[u-1])
		if e != nil {
			return trivial(fmt.Sprintf("prepare profile %d: %v", u, e))
		}

		fx[u] = f
	}

	var (
		probes                []mprobe
		knownSig, knownDetail string
	)

	vacuous := map[string]bool{}
	ms := allMethods()

	// the key store ("kmsdb") is one store for all profiles: profile 2 imports, under its own live token, a key whose
	// explicit id is the id of a key of profile 1
	{
		seed := sha256.Sum256([]byte(fmt.Sprintf("c19 squat %s %d", runNonce, w.id)))
		priv := ed25519.NewKeyFromSeed(seed[:])
		doc := fmt.Sprintf(`{"id":"%s","type":"Ed25519VerificationKey2018","privateKeyBase58":"%s"}`, fx[1].edVM, base58.Encode(priv))
		e := w.insts[1].Add(w.toks[1], wallet.Key, []byte(doc))
		p := mprobe{Method: "add-key-with-id-of-other-profile", Inst: 2, Token: "own-live", Result: "ok", Err: errStr(e)}

		if e != nil {
			p.Result = "other-error"
		}

		probes = append(probes, p)
		rec.Dist = append(rec.Dist, "method="+p.Method+"->"+p.Result)

		// whatever the answer, profile 1's key must still be profile 1's: it signs, and profile 2 cannot use it
		if _, e1 := w.insts[0].Issue(w.toks[0], vcJSON("http://example.edu/credentials/u1-k001", fx[1].edDID, false),
			&wallet.ProofOptions{Controller: fx[1].edDID}); e1 != nil {
			fail("key-of-other-profile-damaged", "after profile 2 imported a key under the id of profile 1's key, profile 1 cannot sign any more: "+e1.Error())
		}

		if _, e2 := w.insts[1].Issue(w.toks[1], vcJSON("http://example.edu/credentials/u2-k001", fx[1].edDID, false),
			&wallet.ProofOptions{Controller: fx[1].edDID}); e2 == nil && e != nil {
			fail("key-crosses-profiles", "profile 2 signed with the key of profile 1")
		}

		if e != nil && strings.Contains(e.Error(), "already exists") {
			// the answer tells profile 2 that some profile holds a key with this id (listed finding: reported at the
			// end, only if nothing else failed)
			knownSig, knownDetail = "key-id-of-other-profile-visible", "importing a key under the id of another profile's key is refused with: "+errStr(e)
		}
	}

	// try one (instance, token) pair on every method; owner = profile the token was issued to (0 = nobody)
	try := func(inst int, class, tok string, owner int) {
		u := w.iuser[inst]
		legit := class == "own-live"

		for _, m := range ms {
			signers := []*fixtures{fx[u]}
			if owner != 0 && owner != u {
				signers = append(signers, fx[owner]) // aim at the key manager of the token's session
			}

			for _, sg := range signers {
				w.rec.Reset()

				_, e := m.fn(w.insts[inst], tok, fx[u], sg)
				calls := touchedData(w.rec.Snapshot())
				p := mprobe{Method: m.name, Inst: u, Token: class, Result: "ok", Err: errStr(e), Calls: calls}

				switch {
				case e == nil:
				case authClass(e):
					p.Result = "auth-error"
				default:
					p.Result = "other-error"
				}

				if len(calls) > 4 {
					p.Calls = calls[:4]
				}

				probes = append(probes, p)
				rec.Dist = append(rec.Dist, "method="+m.name+"/"+class+"->"+p.Result)

				if legit {
					if p.Result != "ok" && !m.degenerate() {
						vacuous[m.name] = true
					}

					continue
				}

				if m.degenerate() {
					// any error is a rejection; success with a token that is not own-live is the violation
					if p.Result == "ok" {
						fail(class+"-token-admitted:"+m.name, fmt.Sprintf("%s on an instance of user %d with a %s token succeeded", m.name, u, class))
					} else if len(calls) > 0 {
						fail("rejected-op-touched-storage:"+m.name, fmt.Sprintf("%s failed (%s) but made storage calls %v", m.name, p.Err, calls))
					}

					continue
				}

				if p.Result != "auth-error" {
					fail(class+"-token-admitted:"+m.name, fmt.Sprintf("%s on an instance of user %d with a %s token: %s %s", m.name, u, class, p.Result, p.Err))
				} else if len(calls) > 0 {
					fail("rejected-op-touched-storage:"+m.name, fmt.Sprintf("%s rejected (%s) but made storage calls %v", m.name, p.Err, calls))
				}
			}
		}
	}

	// phase A: both profiles open
	try(0, "own-live", w.toks[0], 1)
	try(1, "own-live", w.toks[1], 2)
	try(1, "foreign", w.toks[0], 1)
	try(0, "foreign", w.toks[1], 2)
	try(0, "never-issued", w.tokenString(-1), 0)
	try(3, "foreign", w.toks[0], 1) // instance of profile 2 created while open

	// the same live tokens in other spellings: other strings, never issued
	for k, sp := range spellings {
		if (k+rep)%3 != 0 {
			continue
		}

		try(0, "variant-of-own-live", spell(w.toks[0], sp), 1)
		try(1, "variant-of-foreign-live", spell(w.toks[0], sp), 1)
	}

	// phase B: profile 1 closed (its instance 2 was created while open: the handle of that instance stays open)
	w.insts[0].Close()
	try(0, "closed", w.toks[0], 1)
	try(2, "closed", w.toks[0], 1)
	try(1, "foreign-closed", w.toks[0], 1)
	// phase C: profile 1 reopened with a short expiry, which then passes
	tokC, e := w.insts[0].Open(wallet.WithUnlockByPassphrase(pass(1)), wallet.WithUnlockExpiry(shortTTL*unit))
	if e != nil {
		return trivial("reopen failed: " + e.Error())
	}

	time.Sleep((shortTTL + 2) * unit)
	try(0, "expired", tokC, 1)
	try(1, "foreign-expired", tokC, 1)

	if len(vacuous) > 0 {
		names := []string{}
		for n := range vacuous {
			names = append(names, n)
		}

		rec.Detail = "own live token did not pass: " + strings.Join(names, ",")
		rec.Dist = append(rec.Dist, "methods-vacuous")
	}

	rec.Observed = probes

	if rec.Oracle == "ok" && knownSig != "" {
		rec.Oracle, rec.Sig, rec.Detail = "fail", knownSig, knownDetail
	}

	return rec
}
