package main

import (
	"fmt"

	ml "github.com/IBM/mathlib"

	bbs "github.com/hyperledger/aries-framework-go/component/kmscrypto/crypto/primitive/bbs12381g2pub"
)

// Structurally crafted proofs.  The forger is a holder with ONE valid signature: it knows A', Abar, d and the
// witnesses of an honest derivation (through the verif hook of bbs12381g2pub) and builds the two Schnorr sub-proofs
// itself, with the package's own encoders.  Families (Attack.Fam):
//   surplus      both sub-proofs carry one response more than bases; the surplus response plays the challenge
//   surplus-vc2  the same for VC2 only, VC1 answered honestly for the resulting real challenge
//   sim-chosen   both sub-proofs simulated for a challenge chosen first (standard Schnorr simulation)
//   blind-vc2    VC2 simulated for the challenge the verifier computes when the VC2 commitment is a placeholder
//   blind-both   both simulated for the challenge the verifier computes with both commitments as placeholders
//   honest-pad   an honest proof re-encoded with padding bits set in the payload (+ dummy messages supplied)
//   extra-resp-1/2, drop-resp-1/2   honest proof with a response appended to / removed from VC1 / VC2
// If the verifier derives the challenge from every commitment and insists on one response per base, all of them
// (except honest-pad, which is the known supplemented-suffix finding, and its pad-free form = the honest proof) fail.

type forger struct {
	c     *Case
	pub   []byte
	n     int
	nonce []byte
	pok   *bbs.VerifPoK
	h0    *ml.G1
	h     []*ml.G1
}

func newForger(c *Case, p *primParty, sig []byte) (*forger, error) {
	f := &forger{c: c, pub: p.pub, n: len(c.Msgs), nonce: nonceBytes(c.Nonce)}

	var err error

	f.pok, err = bbs.VerifNewPoK(msgsOf(c.Msgs), sig, p.pub, dedup(c.R))
	if err != nil {
		return nil, err
	}

	f.h0, f.h, err = bbs.VerifGenerators(p.pub, f.n)

	return f, err
}

func frOf(id int) *ml.Zr { return bbs.ParseSignatureMessage(msgBytes(id)).FR }

func (f *forger) bases2(claimedR []int) []*ml.G1 {
	_, _, d := f.pok.Points()
	in := map[int]bool{}

	for _, r := range claimedR {
		in[r] = true
	}

	out := []*ml.G1{d, f.h0}

	for i := 0; i < f.n; i++ {
		if !in[i] {
			out = append(out, f.h[i])
		}
	}

	return out
}

// statement2 = -(g1 + sum h[claimedR[k]] * m_k), pairing the k-th claimed message with the k-th smallest index
func (f *forger) statement2(claimedR []int, claimed []int) *ml.G1 {
	st := bbs.VerifG1()
	rs := sortedCopy(claimedR)

	for k, idx := range rs {
		st.Add(f.h[idx].Mul(frOf(claimed[k])))
	}

	st.Neg()

	return st
}

func randFrs(k int) []*ml.Zr {
	out := make([]*ml.Zr, k)
	for i := range out {
		out[i] = bbs.VerifRandFr()
	}

	return out
}

func simulate(bases []*ml.G1, st *ml.G1, c *ml.Zr) *bbs.ProofG1 {
	z := randFrs(len(bases))
	t := bbs.VerifSum(append(append([]*ml.G1{}, bases...), st), append(append([]*ml.Zr{}, z...), c))

	return bbs.NewProofG1(t, z)
}

func surplus(bases []*ml.G1, st *ml.G1) *bbs.ProofG1 {
	z := randFrs(len(bases) + 1)
	t := bbs.VerifSum(append(append([]*ml.G1{}, bases...), st), z)

	return bbs.NewProofG1(t, z)
}

// build returns the crafted proof bytes for the attack (payload revealed = ClaimedR + Pads).
func (f *forger) build(a *Attack) ([]byte, error) {
	aP, aB, d := f.pok.Points()
	t1, t2 := f.pok.Commitments()
	rev := append(sortedCopy(a.ClaimedR), a.Pads...)
	supplied := msgsOf(a.Supplied)

	if len(a.Supplied) < len(a.ClaimedR) {
		return nil, fmt.Errorf("forge: fewer supplied than claimed")
	}

	st1 := aB.Copy()
	st1.Sub(d)

	b1 := []*ml.G1{aP, f.h0}
	b2 := f.bases2(a.ClaimedR)
	st2 := f.statement2(a.ClaimedR, a.Supplied)
	asm := func(v1, v2 *bbs.ProofG1) ([]byte, error) { return bbs.VerifAssemble(f.n, rev, aP, aB, d, v1, v2) }
	chal := func(v1, v2 *bbs.ProofG1) (*ml.Zr, error) {
		draft, err := asm(v1, v2)
		if err != nil {
			return nil, err
		}

		in, err := bbs.VerifChallengeInput(supplied, draft, f.nonce, f.pub)
		if err != nil {
			return nil, err
		}

		return bbs.VerifChallenge(in), nil
	}
	empty := func(t *ml.G1) *bbs.ProofG1 { return bbs.NewProofG1(t, nil) }

	switch a.Fam {
	case "surplus":
		return asm(surplus(b1, st1), surplus(b2, st2))
	case "surplus-vc2":
		v2 := surplus(b2, st2)

		c, err := chal(empty(t1), v2)
		if err != nil {
			return nil, err
		}

		v1, _ := f.pok.Proofs(c)

		return asm(v1, v2)
	case "sim-chosen":
		c := bbs.VerifRandFr()

		return asm(simulate(b1, st1, c), simulate(b2, st2, c))
	case "blind-vc2":
		c, err := chal(empty(t1), empty(bbs.VerifG1()))
		if err != nil {
			return nil, err
		}

		v1, _ := f.pok.Proofs(c)

		return asm(v1, simulate(b2, st2, c))
	case "blind-both":
		c, err := chal(empty(bbs.VerifG1()), empty(bbs.VerifG1()))
		if err != nil {
			return nil, err
		}

		return asm(simulate(b1, st1, c), simulate(b2, st2, c))
	case "honest-pad", "extra-resp-1", "extra-resp-2", "drop-resp-1", "drop-resp-2":
		c, err := chal(empty(t1), empty(t2))
		if err != nil {
			return nil, err
		}

		v1, v2 := f.pok.Proofs(c)

		switch a.Fam {
		case "extra-resp-1":
			v1 = bbs.NewProofG1(t1, append(append([]*ml.Zr{}, v1.VerifResponses()...), bbs.VerifRandFr()))
		case "extra-resp-2":
			v2 = bbs.NewProofG1(t2, append(append([]*ml.Zr{}, v2.VerifResponses()...), bbs.VerifRandFr()))
		case "drop-resp-1":
			r := v1.VerifResponses()
			v1 = bbs.NewProofG1(t1, r[:len(r)-1])
		case "drop-resp-2":
			r := v2.VerifResponses()
			v2 = bbs.NewProofG1(t2, r[:len(r)-1])
		}

		return asm(v1, v2)
	}

	return nil, fmt.Errorf("forge: unknown family %q", a.Fam)
}

// transcriptLabels names every 96-byte point of the verifier's challenge input (and the trailing nonce scalar):
// 1 Abar, 2 A', 3 h0, 4 VC1 commitment, 5 d, 6 VC2 commitment, 7 nonce, 100+i generator h_i, 0 anything else.
func (f *forger) transcriptLabels(pads []int, extra int) ([]int, error) {
	aP, aB, d := f.pok.Points()
	t1, t2 := f.pok.Commitments()
	rs := dedup(f.c.R)
	rev := append(append([]int{}, rs...), pads...)

	ids := revealedIDs(f.c)
	for j := 0; j < extra; j++ {
		ids = append(ids, 7000+j)
	}

	draft, err := bbs.VerifAssemble(f.n, rev, aP, aB, d, bbs.NewProofG1(t1, nil), bbs.NewProofG1(t2, nil))
	if err != nil {
		return nil, err
	}

	in, err := bbs.VerifChallengeInput(msgsOf(ids), draft, f.nonce, f.pub)
	if err != nil {
		return nil, err
	}

	known := map[string]int{}
	known[string(aB.Bytes())] = 1
	known[string(aP.Bytes())] = 2
	known[string(f.h0.Bytes())] = 3
	known[string(t1.Bytes())] = 4
	known[string(d.Bytes())] = 5
	known[string(t2.Bytes())] = 6

	for i, g := range f.h {
		known[string(g.Bytes())] = 100 + i
	}

	nb := bbs.ParseProofNonce(f.nonce).ToBytes()
	psize := len(aB.Bytes())

	var out []int

	for len(in) > 0 {
		switch {
		case len(in) == len(nb) && string(in) == string(nb):
			out = append(out, 7)
			in = nil
		case len(in) >= psize:
			out = append(out, known[string(in[:psize])])
			in = in[psize:]
		default:
			out = append(out, 0)
			in = nil
		}
	}

	return out, nil
}
