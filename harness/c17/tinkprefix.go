package main

import (
	"bytes"
	"fmt"

	"github.com/google/tink/go/insecurecleartextkeyset"
	"github.com/google/tink/go/keyset"
	tinkpb "github.com/google/tink/go/proto/tink_go_proto"

	"github.com/hyperledger/aries-framework-go/component/kmscrypto/crypto/tinkcrypto"
	tinkbbs "github.com/hyperledger/aries-framework-go/component/kmscrypto/crypto/tinkcrypto/primitive/bbs"
)

// prefParty: the Tink-backed Crypto service with a BBS+ keyset of 1..3 keys, each with its own output prefix type
// (RAW, TINK, LEGACY, CRUNCHY), one of them primary.  The issuer signs with the key `signer` (i.e. with the keyset as
// it was when that key was the primary one - a rotated keyset); holder and verifier have their own Crypto instance and
// receive the CURRENT public keyset in serialized form.
type prefParty struct {
	kinds                    []string
	primary, signer          int
	issuerC, holderC, verifC *tinkcrypto.Crypto
	signKH                   *keyset.Handle
	pubBytes, otherPubBytes  []byte
	prefixes                 [][]byte // output prefix of every key, in keyset order
}

type prefKeyset struct {
	pub, priv []byte // the current keyset: public part, and cleartext private part (to rebuild the issuer's older state)
	ids       []uint32
}

var prefCache = map[string]*prefKeyset{}

func prefixType(kind string) tinkpb.OutputPrefixType {
	switch kind {
	case "TINK":
		return tinkpb.OutputPrefixType_TINK
	case "LEGACY":
		return tinkpb.OutputPrefixType_LEGACY
	case "CRUNCHY":
		return tinkpb.OutputPrefixType_CRUNCHY
	default:
		return tinkpb.OutputPrefixType_RAW
	}
}

func buildKeyset(kinds []string, primary int) *prefKeyset {
	m := keyset.NewManager()
	ks := &prefKeyset{}

	for _, k := range kinds {
		tmpl := tinkbbs.BLS12381G2KeyTemplate()
		tmpl.OutputPrefixType = prefixType(k)

		id, err := m.Add(tmpl)
		must(err)

		ks.ids = append(ks.ids, id)
	}

	must(m.SetPrimary(ks.ids[primary]))

	final, err := m.Handle()
	must(err)

	ks.pub = pubOf(final)

	buf := &bytes.Buffer{}
	must(insecurecleartextkeyset.Write(final, keyset.NewBinaryWriter(buf)))

	ks.priv = buf.Bytes()

	return ks
}

func pubOf(kh *keyset.Handle) []byte {
	pub, err := kh.Public()
	must(err)

	buf := &bytes.Buffer{}
	must(pub.WriteWithNoSecrets(keyset.NewBinaryWriter(buf)))

	return buf.Bytes()
}

func readPub(b []byte) *keyset.Handle {
	kh, err := keyset.ReadWithNoSecrets(keyset.NewBinaryReader(bytes.NewReader(b)))
	must(err)

	return kh
}

func outputPrefix(kind string, id uint32) []byte {
	switch kind {
	case "TINK":
		return []byte{1, byte(id >> 24), byte(id >> 16), byte(id >> 8), byte(id)}
	case "LEGACY", "CRUNCHY":
		return []byte{0, byte(id >> 24), byte(id >> 16), byte(id >> 8), byte(id)}
	default:
		return nil
	}
}

func newPref(kinds []string, primary, signer, key int) *prefParty {
	ck := fmt.Sprintf("%v-%d-%d", kinds, primary, key)

	ks, ok := prefCache[ck]
	if !ok {
		ks = buildKeyset(kinds, primary)
		prefCache[ck] = ks
	}

	ock := ck + "-other"

	oks, ok := prefCache[ock]
	if !ok {
		oks = buildKeyset(kinds, primary)
		prefCache[ock] = oks
	}

	p := &prefParty{kinds: kinds, primary: primary, signer: signer}

	var err error

	p.issuerC, err = tinkcrypto.New()
	must(err)
	p.holderC, err = tinkcrypto.New()
	must(err)
	p.verifC, err = tinkcrypto.New()
	must(err)

	// the issuer's keyset at the time key `signer` was the primary one
	old, err := insecurecleartextkeyset.Read(keyset.NewBinaryReader(bytes.NewReader(ks.priv)))
	must(err)

	sm := keyset.NewManagerFromHandle(old)
	must(sm.SetPrimary(ks.ids[signer]))

	p.signKH, err = sm.Handle()
	must(err)

	p.pubBytes = ks.pub
	p.otherPubBytes = oks.pub

	for i, k := range kinds {
		p.prefixes = append(p.prefixes, outputPrefix(k, ks.ids[i]))
	}

	return p
}

func (p *prefParty) sign(msgs [][]byte) ([]byte, error) { return p.issuerC.SignMulti(msgs, p.signKH) }

func (p *prefParty) verify(msgs [][]byte, sig []byte) error {
	return p.holderC.VerifyMulti(msgs, sig, readPub(p.pubBytes))
}

func (p *prefParty) verifyOther(msgs [][]byte, sig []byte) error {
	return p.holderC.VerifyMulti(msgs, sig, readPub(p.otherPubBytes))
}

func (p *prefParty) derive(msgs [][]byte, sig, nonce []byte, idx []int) ([]byte, error) {
	return p.holderC.DeriveProof(msgs, sig, nonce, idx, readPub(p.pubBytes))
}

func (p *prefParty) verifyProof(revealed [][]byte, proof, nonce []byte, otherKey bool) error {
	b := p.pubBytes
	if otherKey {
		b = p.otherPubBytes
	}

	return p.verifC.VerifyProof(revealed, proof, nonce, readPub(b))
}

// prefixLen is the number of bytes the signing key puts in front of signatures and proofs.
func (p *prefParty) prefixLen() int { return len(p.prefixes[p.signer]) }
