package main

import (
	"bytes"
	"fmt"

	"github.com/google/tink/go/keyset"
	tinkpb "github.com/google/tink/go/proto/tink_go_proto"

	"github.com/hyperledger/aries-framework-go/component/kmscrypto/crypto/tinkcrypto"
	tinkbbs "github.com/hyperledger/aries-framework-go/component/kmscrypto/crypto/tinkcrypto/primitive/bbs"
)

// prefParty: the Tink-backed Crypto service with BBS+ keysets of one output prefix type (RAW, TINK, LEGACY,
// CRUNCHY).  The issuer holds the private keyset; holder and verifier have their own Crypto instance and receive the
// public keyset in serialized form.
type prefParty struct {
	kind                      string
	issuerC, holderC, verifC  *tinkcrypto.Crypto
	kh                        *keyset.Handle
	pubBytes, otherPubBytes   []byte
}

var prefCache = map[string]*prefParty{}

func prefixType(kind string) tinkpb.OutputPrefixType {
	switch kind {
	case "TINK":
		return tinkpb.OutputPrefixType_TINK
	case "LEGACY":
		return tinkpb.OutputPrefixType_LEGACY
	case "CRUNCHY":
		return tinkpb.OutputPrefixType_CRUNCHY
	default:
		return tinkpb.OutputPrefixType_RAW
	}
}

func newKeyset(kind string) (*keyset.Handle, []byte) {
	tmpl := tinkbbs.BLS12381G2KeyTemplate()
	tmpl.OutputPrefixType = prefixType(kind)

	kh, err := keyset.NewHandle(tmpl)
	must(err)

	pub, err := kh.Public()
	must(err)

	buf := &bytes.Buffer{}
	must(pub.WriteWithNoSecrets(keyset.NewBinaryWriter(buf)))

	return kh, buf.Bytes()
}

func readPub(b []byte) *keyset.Handle {
	kh, err := keyset.ReadWithNoSecrets(keyset.NewBinaryReader(bytes.NewReader(b)))
	must(err)

	return kh
}

func newPref(kind string, key int) *prefParty {
	ck := fmt.Sprintf("%s-%d", kind, key)
	if p, ok := prefCache[ck]; ok {
		return p
	}

	p := &prefParty{kind: kind}

	var err error

	p.issuerC, err = tinkcrypto.New()
	must(err)
	p.holderC, err = tinkcrypto.New()
	must(err)
	p.verifC, err = tinkcrypto.New()
	must(err)

	p.kh, p.pubBytes = newKeyset(kind)
	_, p.otherPubBytes = newKeyset(kind)
	prefCache[ck] = p

	return p
}

func (p *prefParty) sign(msgs [][]byte) ([]byte, error) { return p.issuerC.SignMulti(msgs, p.kh) }

func (p *prefParty) verify(msgs [][]byte, sig []byte) error {
	return p.holderC.VerifyMulti(msgs, sig, readPub(p.pubBytes))
}

func (p *prefParty) verifyOther(msgs [][]byte, sig []byte) error {
	return p.holderC.VerifyMulti(msgs, sig, readPub(p.otherPubBytes))
}

func (p *prefParty) derive(msgs [][]byte, sig, nonce []byte, idx []int) ([]byte, error) {
	return p.holderC.DeriveProof(msgs, sig, nonce, idx, readPub(p.pubBytes))
}

func (p *prefParty) verifyProof(revealed [][]byte, proof, nonce []byte, otherKey bool) error {
	b := p.pubBytes
	if otherKey {
		b = p.otherPubBytes
	}

	return p.verifC.VerifyProof(revealed, proof, nonce, readPub(b))
}

// prefixLen is the number of bytes the keyset puts in front of signatures and proofs.
func (p *prefParty) prefixLen() int {
	if p.kind == "RAW" {
		return 0
	}

	return 5
}
