package main

import (
	"fmt"

	bbs "github.com/hyperledger/aries-framework-go/component/kmscrypto/crypto/primitive/bbs12381g2pub"
)

// objectLevel drives the OBJECT-level API of bbs12381g2pub with long-lived objects: the public key is unmarshalled
// once and its generators are built once; the same objects then serve repeated Signature.Verify, NewPoKOfSignature
// (with the reveal LIST as the caller passes it: unsorted, with duplicates) and PoKOfSignatureProof.Verify calls,
// interleaved with Marshal of the key.  Oracle: the same verdicts as with fresh objects (accept), key bytes unchanged.
func objectLevel(c *Case, pub, sig, nonce []byte) (failure, detail string) {
	defer func() {
		if r := recover(); r != nil {
			failure, detail = "object-level-panic", fmt.Sprint(r)
		}
	}()

	n := len(c.Msgs)

	pk, err := bbs.UnmarshalPublicKey(pub)
	if err != nil {
		return "object-level-setup", err.Error()
	}

	pkg, err := pk.ToPublicKeyWithGenerators(n)
	if err != nil {
		return "object-level-setup", err.Error()
	}

	sigObj, err := bbs.ParseSignature(sig)
	if err != nil {
		return "object-level-setup", err.Error()
	}

	msgs := make([]*bbs.SignatureMessage, n)
	for i, id := range c.Msgs {
		msgs[i] = bbs.ParseSignatureMessage(msgBytes(id))
	}

	keyIntact := func(when string) (string, string) {
		b, merr := pk.Marshal()
		if merr != nil || string(b) != string(pub) {
			return "key-object-modified", "the public key object no longer marshals to the issuer's key " + when
		}

		return "", ""
	}

	rs := dedup(c.R)
	revealed := map[int]*bbs.SignatureMessage{}
	inOrder := make([]*bbs.SignatureMessage, 0, len(rs))

	for _, i := range rs {
		revealed[i] = msgs[i]
		inOrder = append(inOrder, msgs[i])
	}

	nb := bbs.ParseProofNonce(nonce).ToBytes()

	for round := 0; round < 3; round++ {
		if verr := sigObj.Verify(msgs, pkg); verr != nil {
			return "object-reuse-signature-reject", fmt.Sprintf("Signature.Verify #%d with the same key object: %v", round+1, verr)
		}

		if f, d := keyIntact(fmt.Sprintf("after Signature.Verify #%d", round+1)); f != "" {
			return f, d
		}

		pok, perr := bbs.NewPoKOfSignature(sigObj, msgs, append([]int{}, c.R...), pkg)
		if perr != nil {
			return "object-reuse-pok-reject", fmt.Sprintf("NewPoKOfSignature #%d (reveal list %v): %v", round+1, c.R, perr)
		}

		ch := bbs.VerifChallenge(append(pok.ToBytes(), nb...))
		proof := pok.GenerateProof(ch)

		for again := 0; again < 2; again++ {
			vch := bbs.VerifChallenge(append(proof.GetBytesForChallenge(revealed, pkg), nb...))
			if !vch.Equals(ch) {
				return "object-reuse-challenge-differs", fmt.Sprintf("round %d: the verifier's challenge differs from the prover's (reveal list %v)", round+1, c.R)
			}

			if verr := proof.Verify(vch, pkg, revealed, inOrder); verr != nil {
				return "object-reuse-proof-reject", fmt.Sprintf("PoKOfSignatureProof.Verify round %d.%d (reveal list %v): %v", round+1, again+1, c.R, verr)
			}
		}

		if f, d := keyIntact(fmt.Sprintf("after proof round %d", round+1)); f != "" {
			return f, d
		}
	}

	// fresh objects give the same verdict (sanity of the oracle itself)
	fpk, _ := bbs.UnmarshalPublicKey(pub)

	fpkg, err := fpk.ToPublicKeyWithGenerators(n)
	if err != nil {
		return "object-level-setup", err.Error()
	}

	if verr := sigObj.Verify(msgs, fpkg); verr != nil {
		return "object-fresh-signature-reject", verr.Error()
	}

	return "", ""
}
