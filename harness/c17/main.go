// c17: drives the real BBS+ implementation (bbs12381g2pub directly, the Tink-backed Crypto service with one KMS per
// party, and the credential level GenerateBBSSelectiveDisclosure + ParseCredential) over message vectors x reveal
// subsets x verifier-side attacks, and records what it did for comparison with the Coq model (coq/C17).
package main

import (
	"crypto/sha256"
	"encoding/json"
	"fmt"
	"math/big"
	"os"
	"path/filepath"
	"sort"
	"strings"

	ml "github.com/IBM/mathlib"
	bbs "github.com/hyperledger/aries-framework-go/component/kmscrypto/crypto/primitive/bbs12381g2pub"

	"verifharness/hx"
)

// Attack is one verifier-side call on a derived proof.
type Attack struct {
	// Kind: honest | supplied (the verifier is given the message ids in Supplied instead of the revealed ones) |
	// nonce (other nonce) | key (other issuer key) | alter (byte Pos of the proof XOR-ed with Byte, 1..255).
	Kind     string `json:"kind"`
	Label    string `json:"label,omitempty"` // changed | dropped | reordered | supplemented | ... (for the histogram)
	Supplied []int  `json:"supplied,omitempty"`
	Pos      int    `json:"pos,omitempty"`
	Byte     int    `json:"byte,omitempty"`
	// forge: a structurally crafted proof (family Fam, see forge.go) claiming the indexes ClaimedR (+ the padding
	// bit indexes Pads in the payload) for the supplied messages
	Fam      string `json:"fam,omitempty"`
	ClaimedR []int  `json:"claimed,omitempty"`
	Pads     []int  `json:"pads,omitempty"`
}

// TrSpec asks for the verifier's challenge input of the honest proof re-encoded with padding bits Pads and Extra
// supplementary messages.
type TrSpec struct {
	Pads  []int `json:"pads,omitempty"`
	Extra int   `json:"extra,omitempty"`
}

// Case is one signed vector, one reveal set, one derived proof and the attacks tried on it.
type Case struct {
	Level   string   `json:"level"` // prim | tink
	Msgs    []int    `json:"msgs"`  // message ids (equal id = equal bytes)
	R       []int    `json:"reveal"`
	Nonce   int      `json:"nonce"`
	Key     int      `json:"key"`
	Attacks []Attack `json:"attacks"`
	Bytes   bool     `json:"bytes,omitempty"` // hand the proof bytes to the model (layout parse, alterations)
	Tr      []TrSpec `json:"transcripts,omitempty"`
	// Level tinkp: the keyset's keys (output prefix type of each), which one is primary now, which one signed
	Kinds   []string `json:"kinds,omitempty"`
	Primary int      `json:"primary,omitempty"`
	Signer  int      `json:"signer,omitempty"`
	// Long marks vectors of more than 256 messages (generator index bookkeeping beyond one byte)
	Long bool `json:"long,omitempty"`
}

func signerKind(c *Case) string {
	if c.Level == "tinkp" && c.Signer < len(c.Kinds) {
		return c.Kinds[c.Signer]
	}

	return "RAW"
}

const legacyID = 9999

// Verdict of one verifier call.
const (
	vAccept = "accept"
	vReject = "reject"
	vPanic  = "panic"
)

// msgBytes maps a message id to its bytes, injectively; id 0 is the empty message, some ids are long.
func msgBytes(id int) []byte {
	if id == 0 {
		return []byte{}
	}

	if id == legacyID { // the message Tink's LEGACY output prefix type appends (cryptofmt.LegacyStartByte)
		return []byte{0}
	}

	s := fmt.Sprintf("_:c14n%d <http://example.org/p%d> \"v%d\" .", id%5, id%11, id)

	switch id % 7 {
	case 3:
		s += strings.Repeat("x", 900+id)
	case 5:
		s = fmt.Sprintf("%d", id)
	}

	return []byte(s)
}

func nonceBytes(id int) []byte {
	switch id {
	case 0:
		return []byte{}
	case 1:
		return []byte("n1")
	case 2:
		h := sha256.Sum256([]byte("nonce-2"))
		return h[:]
	case 3:
		return []byte(strings.Repeat("long-nonce-", 40))
	case 4, 5, 6, 7, 8: // lengths around the sizes the implementation works with: scalar (32), hash output (48), 64
		l := []int{31, 32, 33, 48, 64}[id-4]
		out := make([]byte, 0, 96)

		for i := 0; len(out) < l; i++ {
			h := sha256.Sum256([]byte(fmt.Sprintf("nonce-%d-%d", id, i)))
			out = append(out, h[:]...)
		}

		return out[:l]
	default:
		return []byte(fmt.Sprintf("nonce-%d", id))
	}
}

// aliasNonce: another nonce of the same length whose big-endian value differs from the given one by the group order
// (nil when the nonce is shorter than a scalar).  Whatever a verifier does with nonce bytes, two different byte strings
// are two different nonces.
func aliasNonce(nonce []byte) []byte {
	if len(nonce) < 32 {
		return nil
	}

	v := new(big.Int).SetBytes(nonce)
	w := new(big.Int).Add(v, groupOrder())

	if w.BitLen() > 8*len(nonce) {
		w = new(big.Int).Sub(v, groupOrder())
		if w.Sign() < 0 {
			return nil
		}
	}

	out := make([]byte, len(nonce))
	w.FillBytes(out)

	return out
}

func msgsOf(ids []int) [][]byte {
	out := make([][]byte, len(ids))
	for i, id := range ids {
		out[i] = msgBytes(id)
	}

	return out
}

// withSentinel returns the messages as a slice that has one more element of capacity holding a sentinel, and a
// function telling whether that element beyond the slice was left alone (a callee must not append into the caller's
// backing array).
func withSentinel(msgs [][]byte) ([][]byte, func() bool) {
	buf := make([][]byte, len(msgs)+1)
	copy(buf, msgs)
	buf[len(msgs)] = []byte("c17-sentinel")

	return buf[:len(msgs)], func() bool { return string(buf[len(msgs)]) == "c17-sentinel" }
}

// party abstracts the implementation under test (primitive or Tink-backed service).
type party interface {
	sign(msgs [][]byte) ([]byte, error)
	verify(msgs [][]byte, sig []byte) error
	derive(msgs [][]byte, sig, nonce []byte, idx []int) ([]byte, error)
	verifyProof(revealed [][]byte, proof, nonce []byte, otherKey bool) error
}

type primParty struct {
	pub, priv, otherPub []byte
}

var primCache = map[int]*primParty{}

func keySeed(k int) []byte {
	h := sha256.Sum256([]byte(fmt.Sprintf("c17-key-%d", k)))
	return h[:]
}

func newPrim(key int) *primParty {
	if p, ok := primCache[key]; ok {
		return p
	}

	pub, priv, err := bbs.GenerateKeyPair(sha256.New, keySeed(key))
	must(err)

	opub, _, err := bbs.GenerateKeyPair(sha256.New, keySeed(key+1000))
	must(err)

	p := &primParty{}
	p.pub, err = pub.Marshal()
	must(err)
	p.priv, err = priv.Marshal()
	must(err)
	p.otherPub, err = opub.Marshal()
	must(err)
	primCache[key] = p

	return p
}

func (p *primParty) sign(msgs [][]byte) ([]byte, error) { return bbs.New().Sign(msgs, p.priv) }
func (p *primParty) verify(msgs [][]byte, sig []byte) error {
	return bbs.New().Verify(msgs, sig, p.pub)
}

func (p *primParty) derive(msgs [][]byte, sig, nonce []byte, idx []int) ([]byte, error) {
	return bbs.New().DeriveProof(msgs, sig, nonce, p.pub, idx)
}

func (p *primParty) verifyProof(revealed [][]byte, proof, nonce []byte, otherKey bool) error {
	k := p.pub
	if otherKey {
		k = p.otherPub
	}

	return bbs.New().VerifyProof(revealed, proof, nonce, k)
}

func must(err error) {
	if err != nil {
		panic(err)
	}
}

// fenced runs f and reports a panic instead of dying.
func fenced(f func() error) (verdict, detail string) {
	defer func() {
		if r := recover(); r != nil {
			verdict, detail = vPanic, fmt.Sprint(r)
		}
	}()

	if err := f(); err != nil {
		return vReject, err.Error()
	}

	return vAccept, ""
}

func sortedCopy(a []int) []int {
	b := append([]int{}, a...)
	sort.Ints(b)

	return b
}

func eqInts(a, b []int) bool {
	if len(a) != len(b) {
		return false
	}

	for i := range a {
		if a[i] != b[i] {
			return false
		}
	}

	return true
}

// Obs is what the implementation did on one case.
type Obs struct {
	SignVerify string   `json:"sign_verify"`
	Derive     string   `json:"derive"`
	Payload    []int    `json:"payload"`
	ProofLen   int      `json:"proof_len"`
	Verdicts   []string `json:"verdicts"`
	Intact     bool     `json:"intact"`
	Transcript [][]int  `json:"transcripts,omitempty"`
	KeyPrefix  []int    `json:"key_prefix,omitempty"`   // the bytes the keyset put in front of the signature
	ProofPfx   []int    `json:"proof_prefix,omitempty"` // ... and in front of the derived proof
	SigChecks  []string `json:"sig_checks,omitempty"`
	Dump       string   `json:"dump,omitempty"`
	ObjectLevel string  `json:"object_level,omitempty"`
	KeyPrefixes  [][]int `json:"keyset_prefixes,omitempty"` // output prefix of every key of the keyset
	GensDistinct int     `json:"generators_distinct"`      // 0 not observed, 1 h0, h_1..h_n pairwise distinct, 2 not
	Details    []string `json:"details,omitempty"`
}

func partyOf(c *Case) party {
	if c.Level == "tink" {
		return newTink(c.Key)
	}

	if c.Level == "tinkp" {
		return newPref(c.Kinds, c.Primary, c.Signer, c.Key)
	}

	return newPrim(c.Key)
}

func runCase(kind string, c *Case, tr *hx.Trace) { runCaseOpt(kind, c, tr, true) }

// runCaseOpt runs the case.  A rejected HONEST signature / derivation / proof is re-tried once with fresh randomness
// (Sign and DeriveProof are randomised): if the second attempt is clean, the first one was a non-reproducible
// failure of the implementation - it is reported under its own narrow signature (a known finding) together with the
// material needed to analyse it, and the clean attempt is the case's record.  A change that breaks completeness fails
// both attempts and is reported as it is.
func runCaseOpt(kind string, c *Case, tr *hx.Trace, withCoq bool) {
	honestFailure := func(r *hx.Record) bool {
		return r.Oracle == "fail" && (r.Sig == "honest-reject" || r.Sig == "sign-verify-reject" || r.Sig == "derive-reject")
	}

	var first []*hx.Record

	runCaseOnce(kind, c, withCoq, func(r *hx.Record) { first = append(first, r) })

	if len(first) != 1 || !honestFailure(first[0]) {
		for _, r := range first {
			tr.Put(r)
		}

		return
	}

	var second []*hx.Record

	runCaseOnce(kind, c, withCoq, func(r *hx.Record) { second = append(second, r) })

	if len(second) != 1 || honestFailure(second[0]) {
		tr.Put(first[0]) // reproducible: a real completeness failure

		return
	}

	f := first[0]
	f.Coq = ""
	f.Detail = "NOT REPRODUCED on a second attempt with fresh randomness; first attempt: " + f.Sig + ": " + f.Detail
	f.Sig = "unreproducible-honest-reject"
	f.Kind = kind + ":retry"
	tr.Put(f)
	tr.Put(second[0])
}

func runCaseOnce(kind string, c *Case, withCoq bool, put func(*hx.Record)) {
	p := partyOf(c)
	msgs := msgsOf(c.Msgs)
	n := len(msgs)
	nonce := nonceBytes(c.Nonce)
	rs := dedup(c.R)
	revealedIDs := make([]int, len(rs))

	for i, r := range rs {
		revealedIDs[i] = c.Msgs[r]
	}

	rec := &hx.Record{Kind: kind, Case: c}
	obs := &Obs{}
	rec.Observed = obs
	fail := func(sig, detail string) {
		// the recorded known finding must never mask another failure of the same case
		if rec.Oracle != "fail" || (rec.Sig == "supplemented-suffix-accept" && sig != rec.Sig) {
			rec.Oracle, rec.Sig, rec.Detail = "fail", sig, detail
		}
	}

	var sig, proof []byte

	obs.SignVerify, _ = fenced(func() error {
		var err error

		sm, okS := withSentinel(msgs)

		sig, err = p.sign(sm)
		if err != nil {
			return err
		}

		vm, okV := withSentinel(msgs)
		err = p.verify(vm, sig)

		if !okS() || !okV() {
			fail("caller-slice-modified", "SignMulti/VerifyMulti wrote into the caller's message slice beyond its length")
		}

		return err
	})
	if obs.SignVerify != vAccept {
		v3, _ := fenced(func() error { return p.verify(msgsOf(c.Msgs), sig) })
		obs.Dump = fmt.Sprintf("signature verified again: %s; sig=%x", v3, sig)

		if pp2, ok := p.(*primParty); ok {
			obs.Dump += fmt.Sprintf(" pub=%x", pp2.pub)
		}

		if tp, ok := p.(*tinkParty); ok {
			obs.Dump += fmt.Sprintf(" pub=%x", tp.pubBytes)
		}
		fail("sign-verify-"+obs.SignVerify, "a fresh signature over the vector does not verify")
	}

	// signature level (direct oracle): VerifyMulti accepts only this key's signature over exactly these messages
	pfxLen := 0
	pp, isPref := p.(*prefParty)

	if isPref {
		pfxLen = pp.prefixLen()

		for _, pf := range pp.prefixes {
			ints := []int{}
			for _, b := range pf {
				ints = append(ints, int(b))
			}

			obs.KeyPrefixes = append(obs.KeyPrefixes, ints)
		}
	}

	// the generators h0, h_1..h_n of the key must be pairwise distinct (positions are bound by them)
	if prim, ok := p.(*primParty); ok {
		h0, hs, gerr := bbs.VerifGenerators(prim.pub, n)
		if gerr == nil {
			seen := map[string]int{string(h0.Bytes()): -1}
			obs.GensDistinct = 1

			for i, g := range hs {
				if j, dup := seen[string(g.Bytes())]; dup {
					obs.GensDistinct = 2

					fail("generators-not-distinct", fmt.Sprintf("generator of message %d equals that of message %d (-1 = h0)", i, j))

					break
				}

				seen[string(g.Bytes())] = i
			}
		}
	}

	if obs.SignVerify == vAccept && len(sig) > pfxLen {
		type sc struct {
			name string
			f    func() error
		}

		chg := msgsOf(c.Msgs)
		chg[len(chg)-1] = msgBytes(8000 + len(chg))
		checks := []sc{{"changed-message", func() error { return p.verify(chg, sig) }},
			{"dropped-message", func() error { return p.verify(msgsOf(c.Msgs[:len(c.Msgs)-1]), sig) }},
			{"extra-message", func() error { return p.verify(append(msgsOf(c.Msgs), msgBytes(8001)), sig) }}}

		if len(c.Msgs) > 256 { // positions i and i+256 exchanged
			i := len(c.Msgs) % 7
			if i+256 >= len(c.Msgs) {
				i = 0
			}

			sw := msgsOf(c.Msgs)
			sw[i], sw[i+256] = sw[i+256], sw[i]

			if string(sw[i]) != string(sw[i+256]) {
				checks = append(checks, sc{"swapped-256", func() error { return p.verify(sw, sig) }})
			}
		}

		if isPref {
			alt := append([]byte{}, sig...)
			alt[len(c.Msgs)%5%len(alt)] ^= 1 << (len(c.Msgs) % 8)
			garbage := []byte(fmt.Sprintf("this is definitely not a BBS+ signature %d %v", c.Key, c.Msgs))
			checks = append(checks,
				sc{"other-keyset", func() error { return pp.verifyOther(msgs, sig) }},
				sc{"leading-byte-altered", func() error { return pp.verify(msgs, alt) }},
				sc{"garbage", func() error { return pp.verify(msgs, garbage) }},
				sc{"prefix-only", func() error { return pp.verify(msgs, sig[:pfxLen]) }})
		}

		for _, k := range checks {
			v, d := fenced(k.f)
			obs.SigChecks = append(obs.SigChecks, k.name+":"+v)

			if v != vReject {
				fail("signature-"+k.name+"-"+v, "VerifyMulti: expected reject, implementation: "+v+" "+d)
			}
		}
	}

	var dd string

	obs.Derive, dd = fenced(func() error {
		var err error

		dm, okD := withSentinel(msgs)
		proof, err = p.derive(dm, sig, nonce, append([]int{}, c.R...))

		if !okD() {
			fail("caller-slice-modified", "DeriveProof wrote into the caller's message slice beyond its length")
		}

		return err
	})
	if obs.Derive != vAccept {
		fail("derive-"+obs.Derive, "DeriveProof failed for a non-empty subset: "+dd)
		put(rec)

		return
	}

	nInner := n
	if signerKind(c) == "LEGACY" {
		nInner = n + 1 // the wrapper signs one more message
	}

	plen := 2 + nInner/8 + 1

	if len(proof) < pfxLen || len(sig) < pfxLen {
		fail("prefix-missing", "signature or proof shorter than the keyset's output prefix")
		put(rec)

		return
	}

	obs.ProofLen = len(proof) - pfxLen

	for _, b := range proof[pfxLen:][:min(plen, len(proof)-pfxLen)] {
		obs.Payload = append(obs.Payload, int(b))
	}

	for i := 0; i < pfxLen; i++ {
		obs.KeyPrefix = append(obs.KeyPrefix, int(sig[i]))
		obs.ProofPfx = append(obs.ProofPfx, int(proof[i]))
	}

	if string(sig[:pfxLen]) != string(proof[:pfxLen]) {
		fail("prefix-differs", "the derived proof does not carry the output prefix of the signing key")
	}

	if prim, ok := p.(*primParty); ok && obs.SignVerify == vAccept {
		if f, d := objectLevel(c, prim.pub, sig, nonce); f != "" {
			obs.ObjectLevel = f
			fail(f, d)
		} else {
			obs.ObjectLevel = "ok"
		}
	}

	vs := make([]string, len(c.Attacks))
	pristine := append([]byte{}, proof...)

	var fg *forger

	needForger := len(c.Tr) > 0
	for _, a := range c.Attacks {
		needForger = needForger || a.Kind == "forge"
	}

	if pp, ok := p.(*primParty); ok && needForger {
		var ferr error

		fg, ferr = newForger(c, pp, sig)
		if ferr != nil {
			fail("forge-setup-error", ferr.Error())
		}
	}

	for _, t := range c.Tr {
		if fg == nil {
			break
		}

		l, terr := fg.transcriptLabels(t.Pads, t.Extra)
		if terr != nil {
			fail("transcript-error", terr.Error())
		}

		obs.Transcript = append(obs.Transcript, l)
	}

	rsorted := dedup(c.R)

	for i, a := range c.Attacks {
		supplied := revealedIDs
		pf := proof
		nn := nonce
		other := false
		expect := vAccept

		switch a.Kind {
		case "supplied":
			supplied = a.Supplied
			if !eqInts(supplied, revealedIDs) {
				expect = vReject
			}
		case "nonce":
			switch {
			case a.Pos == 10: // the same nonce with one byte appended
				nn = append(append([]byte{}, nonce...), 'x')
			case a.Pos == 11 && len(nonce) > 0: // the same nonce with its last byte changed
				nn = append([]byte{}, nonce...)
				nn[len(nn)-1] ^= 1
			case a.Pos == 12: // same length, value shifted by the group order
				nn = aliasNonce(nonce)
			default:
				nn = nonceBytes(c.Nonce + 1 + a.Pos)
			}

			expect = vReject
		case "key":
			other = true
			expect = vReject
		case "forge":
			supplied = a.Supplied
			expect = vReject
			trueClaim := eqInts(sortedCopy(a.ClaimedR), rsorted) && len(supplied) >= len(revealedIDs) &&
				eqInts(supplied[:len(revealedIDs)], revealedIDs)

			if a.Fam == "honest-pad" && len(a.Pads) == 0 && trueClaim && len(supplied) == len(revealedIDs) {
				expect = vAccept
			}

			if fg == nil {
				vs[i] = vReject
				obs.Details = append(obs.Details, "no forger")

				continue
			}

			fb, ferr := fg.build(&c.Attacks[i])
			if ferr != nil {
				fail("forge-build-error", fmt.Sprintf("attack %d (%s): %v", i, a.Fam, ferr))
				vs[i] = vReject
				obs.Details = append(obs.Details, ferr.Error())

				continue
			}

			v, d := fenced(func() error { return p.verifyProof(msgsOf(supplied), fb, nonce, false) })
			vs[i] = v
			obs.Details = append(obs.Details, d)

			if v != expect {
				sg := fmt.Sprintf("forged-%s-%s", a.Fam, v)
				if v == vAccept && a.Fam == "honest-pad" && trueClaim {
					// an honest proof with padding bits and dummy messages: the surplus is ignored (known finding)
					sg = "supplemented-suffix-accept"
				}

				fail(sg, fmt.Sprintf("attack %d (crafted proof, family %s, claimed indexes %v, padding bits %v, messages %v): expected %s, implementation: %s %s",
					i, a.Fam, a.ClaimedR, a.Pads, supplied, expect, v, d))
			}

			continue
		case "prefix": // a byte of the keyset's output prefix altered
			pf = append([]byte{}, proof...)
			if a.Pos < pfxLen && byte(a.Byte) != 0 {
				pf[a.Pos] ^= byte(a.Byte)
				expect = vReject
			}
		case "garbage": // not a proof at all (direct oracle only)
			pf = []byte(fmt.Sprintf("this is definitely not a BBS+ proof %d %d %v", a.Pos, c.Key, c.Msgs))
			if a.Pos > 0 && a.Pos < len(proof) {
				pf = append(append([]byte{}, pf[:min(5, len(pf))]...), proof[a.Pos:]...) // foreign prefix + proof tail
			}

			expect = vReject
		case "alter":
			pf = append([]byte{}, proof...)
			if a.Pos < len(pf) && byte(a.Byte) != 0 {
				pf[a.Pos] ^= byte(a.Byte)
				expect = vReject
			}
		case "addq": // the 32-byte scalar at Pos replaced by the encoding of its value + the group order
			pf = append([]byte{}, proof...)
			if a.Pos+32 <= len(pf) {
				v := new(big.Int).SetBytes(pf[a.Pos : a.Pos+32])
				v.Add(v, groupOrder())

				if v.BitLen() <= 256 {
					v.FillBytes(pf[a.Pos : a.Pos+32])
					expect = vReject
				}
			}
		}

		vm, okP := withSentinel(msgsOf(supplied))
		v, d := fenced(func() error { return p.verifyProof(vm, pf, nn, other) })

		if !okP() {
			fail("caller-slice-modified", "VerifyProof wrote into the caller's message slice beyond its length")
		}

		vs[i] = v
		obs.Details = append(obs.Details, d)

		if a.Kind == "honest" && v != vAccept { // keep the material of a rejected honest proof
			v2, _ := fenced(func() error { return p.verifyProof(msgsOf(supplied), append([]byte{}, proof...), nn, other) })
			v3, _ := fenced(func() error { return p.verify(msgsOf(c.Msgs), sig) })
			obs.Dump = fmt.Sprintf("same proof verified again: %s; signature verified again: %s; nonce=%x sig=%x proof=%x", v2, v3, nonce, sig, proof)
			if pp2, ok := p.(*primParty); ok {
				obs.Dump += fmt.Sprintf(" pub=%x", pp2.pub)
			}

			if tp, ok := p.(*tinkParty); ok {
				obs.Dump += fmt.Sprintf(" pub=%x", tp.pubBytes)
			}
		}

		if v != expect {
			lbl := a.Label
			if lbl == "" {
				lbl = a.Kind
			}

			sg := fmt.Sprintf("%s-%s", lbl, v)
			if a.Kind == "supplied" && v == vAccept && len(supplied) > len(revealedIDs) &&
				eqInts(supplied[:len(revealedIDs)], revealedIDs) {
				// the revealed messages followed by extra ones: VerifyProof ignores the surplus
				sg = "supplemented-suffix-accept"
			}

			fail(sg, fmt.Sprintf("attack %d (%s %s): expected %s, implementation: %s %s",
				i, a.Kind, a.Label, expect, v, d))
		}
	}

	obs.Verdicts = vs
	// the verifier must not modify the caller's proof (the same buffer is handed to every non-altering call above)
	obs.Intact = string(pristine) == string(proof)
	if !obs.Intact {
		fail("proof-mutated", "VerifyProof modified the proof bytes it was given")
	}
	if withCoq {
		rec.Coq = coqCase(c, obs, proof)
	}
	rec.Class, rec.Trivial, rec.Dist = classify(c, obs)
	put(rec)
}

func min(a, b int) int {
	if a < b {
		return a
	}

	return b
}

func classify(c *Case, o *Obs) (string, bool, []string) {
	n := len(c.Msgs)
	kinds := map[string]bool{}
	dist := []string{"level:" + c.Level, fmt.Sprintf("n:%d", bucket(n)), fmt.Sprintf("revealed:%d", bucket(len(c.R))),
		fmt.Sprintf("nonce:%d", c.Nonce)}

	if c.Level == "tinkp" {
		dist = append(dist, fmt.Sprintf("tink-keyset-keys:%d", len(c.Kinds)), "tink-signer-prefix:"+signerKind(c),
			fmt.Sprintf("tink-signer-is-primary:%v", c.Signer == c.Primary))
	}

	if c.Long {
		dist = append(dist, "long-vector")
	}

	for _, a := range c.Attacks {
		l := a.Kind
		if a.Label != "" {
			l += ":" + a.Label
		}

		if a.Fam != "" {
			l += ":" + a.Fam
			if len(a.Pads) > 0 {
				l += "+pad"
			}
		}

		if !kinds[l] {
			kinds[l] = true
		}

		dist = append(dist, "attack:"+l)
	}

	ks := make([]string, 0, len(kinds))
	for k := range kinds {
		ks = append(ks, k)
	}

	sort.Strings(ks)

	cl := fmt.Sprintf("%s%v/%d/%d n=%d R=%v nonce=%d %s", c.Level, c.Kinds, c.Primary, c.Signer, n, dedup(c.R), c.Nonce, strings.Join(ks, ","))

	return cl, len(c.Attacks) == 0, dist
}

func bucket(n int) int {
	switch {
	case n <= 8:
		return n
	case n <= 16:
		return 16
	case n <= 32:
		return 32
	default:
		return 64
	}
}

// ---------- Coq printing ----------

func coqNatList(a []int) string {
	s := make([]string, len(a))
	for i, v := range a {
		s[i] = hx.CoqNat(v)
	}

	return hx.CoqList(s)
}

func coqPlainNList(a []int) string {
	s := make([]string, len(a))
	for i, v := range a {
		s[i] = fmt.Sprintf("%d", v)
	}

	return hx.CoqList(s)
}

func coqVerdict(v string) string {
	switch v {
	case vAccept:
		return "VAccept"
	case vReject:
		return "VReject"
	default:
		return "VPanic"
	}
}

func coqAttack(a Attack) string {
	switch a.Kind {
	case "supplied":
		return "(ASupplied " + coqPlainNList(a.Supplied) + ")"
	case "nonce":
		return fmt.Sprintf("(ANonce %d)", a.Pos)
	case "key":
		return "AKey"
	case "alter":
		return fmt.Sprintf("(AAlter %s %d)", hx.CoqNat(a.Pos), a.Byte)
	case "addq":
		return fmt.Sprintf("(AAddQ %s)", hx.CoqNat(a.Pos))
	case "prefix":
		return fmt.Sprintf("(APrefix %s %d)", hx.CoqNat(a.Pos), a.Byte)
	case "forge":
		return fmt.Sprintf("(AForge %d %s %s %s)", famCode(a.Fam), coqNatList(sortedCopy(a.ClaimedR)), coqPlainNList(a.Supplied), coqNatList(a.Pads))
	default:
		return "AHonest"
	}
}

var famNames = []string{"", "surplus", "surplus-vc2", "sim-chosen", "blind-vc2", "blind-both", "honest-pad",
	"extra-resp-1", "extra-resp-2", "drop-resp-1", "drop-resp-2"}

func famCode(f string) int {
	for i, n := range famNames {
		if n == f {
			return i
		}
	}

	return 0
}

func coqCase(c *Case, o *Obs, proof []byte) string { return coqCaseCred(c, o, proof, "") }

// coqCaseCred: cred is the Gallina term of the credential-level observation ("" = none); a case with one was verified
// through the proof suite (exact statement count).
func coqCaseCred(c *Case, o *Obs, proof []byte, cred string) string {
	credTerm, strict := "None", c.Level == "cred"
	if cred != "" {
		credTerm = "(Some " + cred + ")"
	}

	legacy := signerKind(c) == "LEGACY"
	withLegacy := func(l []int) []int {
		if legacy {
			return append(append([]int{}, l...), legacyID)
		}

		return l
	}

	var att []string

	for i, a := range c.Attacks {
		if a.Kind == "garbage" { // direct oracle only
			continue
		}

		ca := a
		if a.Kind == "supplied" {
			ca.Supplied = withLegacy(a.Supplied)
		}

		if a.Kind == "honest" && legacy {
			ca = Attack{Kind: "supplied", Supplied: withLegacy(revealedIDs(c))}
		}

		att = append(att, "("+coqAttack(ca)+", "+coqVerdict(o.Verdicts[i])+")")
	}

	kindCode := func(k string) string {
		switch k {
		case "TINK":
			return "PTink"
		case "LEGACY":
			return "PLegacy"
		case "CRUNCHY":
			return "PCrunchy"
		default:
			return "PRaw"
		}
	}
	ksTerm := "[{| k_kind := PRaw; k_pfx := [] |}]"

	if c.Level == "tinkp" {
		es := make([]string, len(c.Kinds))
		for i, k := range c.Kinds {
			es[i] = fmt.Sprintf("{| k_kind := %s; k_pfx := %s |}", kindCode(k), coqPlainNList(o.KeyPrefixes[i]))
		}

		ksTerm = hx.CoqList(es)
	}

	pb := "[]"

	if c.Bytes {
		bs := make([]int, len(proof))
		for i, b := range proof {
			bs[i] = int(b)
		}

		pb = coqPlainNList(bs)
	}

	trs := []string{}

	for i, t := range c.Tr {
		if i < len(o.Transcript) {
			trs = append(trs, fmt.Sprintf("(%s, %s, %s)", coqNatList(t.Pads), hx.CoqNat(t.Extra), coqPlainNList(o.Transcript[i])))
		}
	}

	return fmt.Sprintf("{| c_msgs := %s; c_R := %s; c_nonce := %d; c_key := %d; c_payload := %s; c_len := %d; c_proof := %s; c_intact := %s; c_ks := %s; c_signer := %s; c_sigpfx := %s; c_pfx := %s; c_gd := %d; c_tr := %s; c_q := %s; c_strict := %s; c_cred := %s; c_att := %s |}",
		coqPlainNList(withLegacy(c.Msgs)), coqNatList(c.R), c.Nonce, c.Key, coqPlainNList(o.Payload), o.ProofLen, pb, hx.CoqBool(o.Intact),
		ksTerm, hx.CoqNat(c.Signer), coqPlainNList(o.KeyPrefix), coqPlainNList(o.ProofPfx), o.GensDistinct, hx.CoqList(trs), groupOrder().String(), hx.CoqBool(strict), credTerm, hx.CoqList(att))
}

// ---------- generators ----------

func revealedIDs(c *Case) []int {
	rs := dedup(c.R)
	out := make([]int, len(rs))

	for i, r := range rs {
		out[i] = c.Msgs[r]
	}

	return out
}

// listAttacks are the verifier-side list manipulations of the property statement.
func listAttacks(c *Case, r *hx.Rng) []Attack {
	rv := revealedIDs(c)
	out := []Attack{{Kind: "honest"}}
	fresh := 5000 + r.Intn(1000)

	// changed: one position replaced by a message that was not signed, and by a hidden one
	k := r.Intn(len(rv))
	ch := append([]int{}, rv...)
	ch[k] = fresh
	out = append(out, Attack{Kind: "supplied", Label: "changed", Supplied: ch})

	hidden := hiddenIDs(c)
	if len(hidden) > 0 {
		ch2 := append([]int{}, rv...)
		ch2[r.Intn(len(rv))] = hidden[r.Intn(len(hidden))]
		out = append(out, Attack{Kind: "supplied", Label: "changed-to-hidden", Supplied: ch2})
	}

	// dropped: one removed (first, last or random)
	d := r.Intn(len(rv))
	dr := append(append([]int{}, rv[:d]...), rv[d+1:]...)
	out = append(out, Attack{Kind: "supplied", Label: "dropped", Supplied: dr})

	if len(rv) > 1 {
		out = append(out, Attack{Kind: "supplied", Label: "dropped-last", Supplied: append([]int{}, rv[:len(rv)-1]...)})
		// reordered: swap two positions / rotate
		i, j := r.Intn(len(rv)), r.Intn(len(rv)-1)
		if j >= i {
			j++
		}

		sw := append([]int{}, rv...)
		sw[i], sw[j] = sw[j], sw[i]
		out = append(out, Attack{Kind: "supplied", Label: "reordered", Supplied: sw})
		rot := append(append([]int{}, rv[1:]...), rv[0])
		out = append(out, Attack{Kind: "supplied", Label: "rotated", Supplied: rot})
	}

	// supplemented: an extra message appended / prepended / a hidden one appended
	out = append(out, Attack{Kind: "supplied", Label: "supplemented", Supplied: append(append([]int{}, rv...), fresh)})
	out = append(out, Attack{Kind: "supplied", Label: "supplemented-front", Supplied: append([]int{fresh}, rv...)})

	if len(hidden) > 0 {
		out = append(out, Attack{Kind: "supplied", Label: "supplemented-hidden",
			Supplied: append(append([]int{}, rv...), hidden[r.Intn(len(hidden))])})
		// the full vector instead of the revealed part
		if len(c.Msgs) <= 12 {
			out = append(out, Attack{Kind: "supplied", Label: "supplemented-all", Supplied: append([]int{}, c.Msgs...)})
		}
	}

	out = append(out, Attack{Kind: "nonce", Pos: r.Intn(3)}, Attack{Kind: "nonce", Label: "extended", Pos: 10},
		Attack{Kind: "nonce", Label: "last-byte", Pos: 11}, Attack{Kind: "key"})
	if aliasNonce(nonceBytes(c.Nonce)) != nil {
		out = append(out, Attack{Kind: "nonce", Label: "plus-order", Pos: 12})
	}

	return out
}

// forgeAttacks: crafted proofs for a changed message and for an additionally "revealed" never-signed message, with
// and without padding bits in the payload; re-encodings of the honest proof.
func forgeAttacks(c *Case, r *hx.Rng) ([]Attack, []TrSpec) {
	n := len(c.Msgs)
	rs := dedup(c.R)
	rv := revealedIDs(c)
	spare := 8*(n/8+1) - n
	pad1 := []int{n + r.Intn(spare)}
	fresh := 6000 + r.Intn(500)

	type claim struct {
		idx []int
		ids []int
	}

	changed := claim{idx: rs, ids: append([]int{}, rv...)}
	changed.ids[r.Intn(len(rv))] = fresh
	claims := []claim{changed}

	in := map[int]bool{}
	for _, x := range rs {
		in[x] = true
	}

	var hiddenIdx []int

	for i := 0; i < n; i++ {
		if !in[i] {
			hiddenIdx = append(hiddenIdx, i)
		}
	}

	if len(hiddenIdx) > 0 {
		x := hiddenIdx[r.Intn(len(hiddenIdx))]
		ext := claim{idx: sortedCopy(append(append([]int{}, rs...), x))}

		for _, i := range ext.idx {
			if i == x {
				ext.ids = append(ext.ids, fresh+1)
			} else {
				ext.ids = append(ext.ids, c.Msgs[i])
			}
		}

		claims = append(claims, ext)
	}

	var out []Attack

	for _, fam := range []string{"surplus", "surplus-vc2", "sim-chosen", "blind-vc2", "blind-both", "honest-pad"} {
		for _, cl := range claims {
			out = append(out, Attack{Kind: "forge", Fam: fam, ClaimedR: cl.idx, Supplied: cl.ids})
			out = append(out, Attack{Kind: "forge", Fam: fam, ClaimedR: cl.idx, Supplied: append(append([]int{}, cl.ids...), 7000), Pads: pad1})
		}
	}

	// the honest proof re-encoded: as it is, with padding bits and dummy messages, with a response added / removed
	out = append(out, Attack{Kind: "forge", Fam: "honest-pad", ClaimedR: rs, Supplied: rv})
	out = append(out, Attack{Kind: "forge", Fam: "honest-pad", ClaimedR: rs, Supplied: append(append([]int{}, rv...), 7000), Pads: pad1})
	out = append(out, Attack{Kind: "forge", Fam: "honest-pad", ClaimedR: rs, Supplied: append(append([]int{}, rv...), 7000, 7001), Pads: pad1})

	trs := []TrSpec{{}, {Extra: 1}, {Pads: pad1, Extra: 1}, {Pads: pad1, Extra: 2}}

	if spare >= 2 {
		pad2 := []int{n, n + spare - 1}
		out = append(out, Attack{Kind: "forge", Fam: "honest-pad", ClaimedR: rs, Supplied: append(append([]int{}, rv...), 7000, 7001), Pads: pad2})
		out = append(out, Attack{Kind: "forge", Fam: "blind-vc2", ClaimedR: changed.idx, Supplied: append(append([]int{}, changed.ids...), 7000, 7001), Pads: pad2})
		trs = append(trs, TrSpec{Pads: pad2, Extra: 2})
	}

	for _, fam := range []string{"extra-resp-1", "extra-resp-2", "drop-resp-1", "drop-resp-2"} {
		out = append(out, Attack{Kind: "forge", Fam: fam, ClaimedR: rs, Supplied: rv})
	}

	return out, trs
}

func hiddenIDs(c *Case) []int {
	in := map[int]bool{}
	for _, r := range c.R {
		in[r] = true
	}

	var out []int

	for i, m := range c.Msgs {
		if !in[i] {
			out = append(out, m)
		}
	}

	return out
}

// proofLayout returns the offsets of the fields of a derived proof (n messages, h hidden).
func proofLayout(n, hidden int) (offs []int, names []string, total int) {
	p := 2 + n/8 + 1
	add := func(name string, l int) {
		offs = append(offs, p)
		names = append(names, name)
		p += l
	}
	offs, names = []int{0, 2}, []string{"count", "bitvector"}
	add("aprime", 48)
	add("abar", 48)
	add("d", 48)
	add("len1", 4)
	add("c1", 48)
	add("n1", 4)
	add("resp1", 64)
	add("c2", 48)
	add("n2", 4)
	add("resp2", 32*(2+hidden))

	return offs, names, p
}

// alterAttacks: k single-position alterations; every field of the layout is hit at least once when k allows.
func alterAttacks(c *Case, r *hx.Rng, k int, all bool) []Attack {
	n := len(c.Msgs)
	offs, names, total := proofLayout(n, n-len(dedup(c.R)))

	var out []Attack

	if all {
		for pos := 0; pos < total; pos++ {
			out = append(out, Attack{Kind: "alter", Label: fieldOf(offs, names, pos), Pos: pos, Byte: xorMask(r)})
		}

		return out
	}

	for i := 0; i < k; i++ {
		var pos int

		if i < len(offs) {
			end := total
			if i+1 < len(offs) {
				end = offs[i+1]
			}

			pos = offs[i] + r.Intn(end-offs[i])
		} else {
			pos = r.Intn(total)
		}

		out = append(out, Attack{Kind: "alter", Label: fieldOf(offs, names, pos), Pos: pos, Byte: xorMask(r)})
	}

	return out
}

// groupOrder: the order of the scalar field as the curve library has it.
func groupOrder() *big.Int {
	q, ok := new(big.Int).SetString(ml.Curves[ml.BLS12_381_BBS].GroupOrder.String(), 16)
	if !ok {
		panic("group order")
	}

	return q
}

// addqAttacks: every response scalar of both sub-proofs re-encoded as value + group order (the same scalar, other bytes).
func addqAttacks(c *Case) []Attack {
	n := len(c.Msgs)
	offs, names, total := proofLayout(n, n-len(dedup(c.R)))

	var out []Attack

	for i, nm := range names {
		if nm != "resp1" && nm != "resp2" {
			continue
		}

		end := total
		if i+1 < len(offs) {
			end = offs[i+1]
		}

		for pos := offs[i]; pos+32 <= end; pos += 32 {
			out = append(out, Attack{Kind: "addq", Label: "noncanonical-" + nm, Pos: pos})
		}
	}

	return out
}

// flagAlters: the three flag bits (compression, infinity, sign) of every compressed G1 point of the proof.
func flagAlters(c *Case) []Attack {
	n := len(c.Msgs)
	offs, names, _ := proofLayout(n, n-len(dedup(c.R)))

	var out []Attack

	for i, nm := range names {
		switch nm {
		case "aprime", "abar", "d", "c1", "c2":
			for _, bit := range []int{0x80, 0x40, 0x20} {
				out = append(out, Attack{Kind: "alter", Label: nm + "-flag", Pos: offs[i], Byte: bit})
			}
		}
	}

	return out
}

// structuralAlters: every single-bit flip of every byte of the structural fields (count, bit vector, the three
// length / count fields), which decide how the rest of the proof is read.
func structuralAlters(c *Case) []Attack {
	n := len(c.Msgs)
	offs, names, total := proofLayout(n, n-len(dedup(c.R)))

	var out []Attack

	for i, nm := range names {
		switch nm {
		case "count", "bitvector", "len1", "n1", "n2":
			end := total
			if i+1 < len(offs) {
				end = offs[i+1]
			}

			for pos := offs[i]; pos < end; pos++ {
				for b := 0; b < 8; b++ {
					out = append(out, Attack{Kind: "alter", Label: nm, Pos: pos, Byte: 1 << b})
				}
			}
		}
	}

	return out
}

func dedup(a []int) []int {
	b := sortedCopy(a)
	out := b[:0]

	for i, v := range b {
		if i == 0 || v != b[i-1] {
			out = append(out, v)
		}
	}

	return out
}

func fieldOf(offs []int, names []string, pos int) string {
	f := names[0]

	for i, o := range offs {
		if pos >= o {
			f = names[i]
		}
	}

	return f
}

func xorMask(r *hx.Rng) int {
	if r.Bool() {
		return 1 << r.Intn(8) // a single flipped bit
	}

	return 1 + r.Intn(255)
}

func subsetsOf(n int) [][]int {
	var out [][]int

	for m := 1; m < 1<<n; m++ {
		var s []int

		for i := 0; i < n; i++ {
			if m&(1<<i) != 0 {
				s = append(s, i)
			}
		}

		out = append(out, s)
	}

	return out
}

func randomSubset(r *hx.Rng, n int) []int {
	var s []int

	switch r.Intn(6) {
	case 0: // single
		return []int{r.Intn(n)}
	case 1: // all
		for i := 0; i < n; i++ {
			s = append(s, i)
		}

		return s
	case 2: // all but one
		h := r.Intn(n)
		for i := 0; i < n; i++ {
			if i != h || n == 1 {
				s = append(s, i)
			}
		}

		return s
	}

	for i := 0; i < n; i++ {
		if r.Bool() {
			s = append(s, i)
		}
	}

	if len(s) == 0 {
		s = []int{r.Intn(n)}
	}

	return s
}

func randomMsgs(r *hx.Rng, n int) []int {
	ids := make([]int, n)
	for i := range ids {
		switch r.Intn(10) {
		case 0:
			ids[i] = 0 // empty message
		case 1:
			if i > 0 {
				ids[i] = ids[r.Intn(i)] // a repeated message
			} else {
				ids[i] = 1 + r.Intn(4000)
			}
		default:
			ids[i] = 1 + r.Intn(4000)
		}
	}

	return ids
}

// revealList turns a reveal set into a list as callers pass it: random order, sometimes naming an index twice or more
// (two requirement lists concatenated).
func revealList(r *hx.Rng, set []int, n int) []int {
	l := append([]int{}, set...)

	switch r.Intn(3) {
	case 0:
		for k := 1 + r.Intn(3); k > 0; k-- {
			l = append(l, set[r.Intn(len(set))])
		}
	case 1:
		l = append(l, set...) // the same list twice
	}

	// NewPoKOfSignature refuses a list LONGER than the message vector even if it only repeats indexes (it compares the
	// list length, not the number of distinct indexes, with the message count): keep to what it accepts
	if len(l) > n {
		l = l[:len(set)]
	}

	return shuffled(r, l)
}

func maxIndex(a []int) int {
	m := 0
	for _, x := range a {
		if x > m {
			m = x
		}
	}

	return m
}

func shuffled(r *hx.Rng, a []int) []int {
	b := append([]int{}, a...)
	for i := len(b) - 1; i > 0; i-- {
		j := r.Intn(i + 1)
		b[i], b[j] = b[j], b[i]
	}

	return b
}

func corpus(dir string, tr *hx.Trace) {
	files, _ := filepath.Glob(filepath.Join(dir, "*.json"))
	sort.Strings(files)

	for _, f := range files {
		b, err := os.ReadFile(f)
		if err != nil {
			continue
		}

		var c struct {
			Case *Case `json:"case"`
		}

		if json.Unmarshal(b, &c) != nil || c.Case == nil {
			continue
		}

		if c.Case.Level == "cred" {
			var cc struct {
				Case *CredCase `json:"case"`
			}

			if json.Unmarshal(b, &cc) == nil && cc.Case != nil {
				runCred("corpus", cc.Case, tr)
			}

			continue
		}

		runCase("corpus", c.Case, tr)
	}
}

func main() {
	args := hx.ParseArgs()
	tr := hx.NewTrace(args.Out)

	defer tr.Close()

	if args.Replay != "" {
		b, err := os.ReadFile(args.Replay)
		must(err)

		var c struct {
			Case *Case `json:"case"`
		}

		must(json.Unmarshal(b, &c))

		if c.Case != nil && c.Case.Level == "cred" {
			var cc struct {
				Case *CredCase `json:"case"`
			}

			must(json.Unmarshal(b, &cc))
			runCred("replay", cc.Case, tr)
		} else if c.Case != nil {
			reps := 1
			if v := os.Getenv("C17_STRESS"); v != "" { // development aid: repeat the case (fresh randomness each time)
				fmt.Sscanf(v, "%d", &reps)
				c.Case.Attacks = c.Case.Attacks[:1]
			}

			for i := 0; i < reps; i++ {
				runCase("replay", c.Case, tr)
			}
		}

		return
	}

	corpus(args.Extra, tr)

	rng := hx.NewRng(args.Seed)

	if f := os.Getenv("C17_FORM"); f != "" { // development aid: only credentials of one form
		for i := 0; i < 12; i++ {
			cc := randomCred(rng.Fork(uint64(i)))
			cc.Form = f
			runCred("credential", cc, tr)
		}

		return
	}
	thorough := args.Tier == "thorough"

	// 1. exhaustive: every non-empty reveal subset for n <= 5 (quick) / 6 (thorough), primitive level
	maxN := 5
	if thorough {
		maxN = 6
	}

	cnt := uint64(0)

	for n := 1; n <= maxN; n++ {
		for _, s := range subsetsOf(n) {
			cnt++
			r := rng.Fork(cnt)
			c := &Case{Level: "prim", Msgs: randomMsgs(r, n), R: s, Nonce: r.Intn(9), Key: r.Intn(3)}
			c.Attacks = listAttacks(c, r)
			runCase("exhaustive", c, tr)
		}
	}

	// 2. the same through the Tink-backed Crypto service (issuer, holder and verifier with their own KMS)
	for n := 1; n <= maxN-1; n++ {
		for _, s := range subsetsOf(n) {
			cnt++
			r := rng.Fork(cnt)
			c := &Case{Level: "tink", Msgs: randomMsgs(r, n), R: s, Nonce: r.Intn(9), Key: r.Intn(2)}
			c.Attacks = listAttacks(c, r)
			runCase("exhaustive-tink", c, tr)
		}
	}

	// 3. random vectors of 1..32 messages, random subsets (given in random order), both levels
	nRandom, nAlter, nAll := 110, 24, 1
	if thorough {
		nRandom, nAlter, nAll = 1500, 200, 6
	}

	for i := 0; i < nRandom; i++ {
		cnt++
		r := rng.Fork(cnt)
		n := 1 + r.Intn(32)

		if r.Intn(4) == 0 {
			n = []int{7, 8, 9, 15, 16, 17, 24, 31, 32}[r.Intn(9)] // byte boundaries of the bit vector
		}

		lvl := "prim"
		if i%3 == 2 {
			lvl = "tink"
		}

		c := &Case{Level: lvl, Msgs: randomMsgs(r, n), R: revealList(r, randomSubset(r, n), n), Nonce: r.Intn(9), Key: r.Intn(3)}
		c.Attacks = listAttacks(c, r)
		runCase("random", c, tr)
	}

	// 4. single-position alterations of the proof bytes; the model reads the real proof bytes
	for i := 0; i < nAlter; i++ {
		cnt++
		r := rng.Fork(cnt)
		n := 1 + r.Intn(10)

		if i%6 == 5 {
			n = 15 + r.Intn(18)
		}

		lvl := "prim"
		if i%4 == 3 {
			lvl = "tink"
		}

		c := &Case{Level: lvl, Msgs: randomMsgs(r, n), R: randomSubset(r, n), Nonce: r.Intn(9), Key: r.Intn(3), Bytes: true}
		c.Attacks = append([]Attack{{Kind: "honest"}}, structuralAlters(c)...)
		c.Attacks = append(c.Attacks, alterAttacks(c, r, 24, false)...)
		c.Attacks = append(c.Attacks, addqAttacks(c)...)
		c.Attacks = append(c.Attacks, flagAlters(c)...)
		runCase("alter", c, tr)
	}

	// 8. Tink keysets of 1..3 keys of every output prefix type (also mixed), primary first / last / middle, signed by
	//    each key (a rotated keyset): the wrapper must accept exactly what a key of the keyset produced
	type ksShape struct {
		kinds           []string
		primary, signer int
	}

	var shapes []ksShape

	for _, k := range []string{"RAW", "TINK", "LEGACY", "CRUNCHY"} {
		shapes = append(shapes, ksShape{[]string{k}, 0, 0})

		for _, prim := range []int{0, 1} {
			for sg := 0; sg < 2; sg++ {
				shapes = append(shapes, ksShape{[]string{k, k}, prim, sg})
			}
		}

		shapes = append(shapes, ksShape{[]string{k, k, k}, 2, 0}, ksShape{[]string{k, k, k}, 0, 2}, ksShape{[]string{k, k, k}, 1, 1})
	}

	shapes = append(shapes, ksShape{[]string{"RAW", "TINK"}, 1, 0}, ksShape{[]string{"TINK", "RAW"}, 1, 0},
		ksShape{[]string{"LEGACY", "TINK", "CRUNCHY"}, 1, 0}, ksShape{[]string{"CRUNCHY", "RAW", "LEGACY"}, 0, 2},
		ksShape{[]string{"TINK", "LEGACY"}, 0, 1})

	nPref := 1
	if thorough {
		nPref = 8
	}

	for _, sh := range shapes {
		for i := 0; i < nPref; i++ {
			cnt++
			r := rng.Fork(cnt)
			n := 1 + r.Intn(9)

			if r.Intn(5) == 4 {
				n = []int{7, 8, 15, 16, 23}[r.Intn(5)]
			}

			c := &Case{Level: "tinkp", Kinds: sh.kinds, Primary: sh.primary, Signer: sh.signer, Msgs: randomMsgs(r, n),
				R: revealList(r, randomSubset(r, n), n), Nonce: r.Intn(9), Key: r.Intn(2)}
			c.Attacks = listAttacks(c, r)

			if signerKind(c) != "RAW" {
				for pos := 0; pos < 5; pos++ {
					c.Attacks = append(c.Attacks, Attack{Kind: "prefix", Label: "prefix", Pos: pos, Byte: xorMask(r)})
				}
			}

			c.Attacks = append(c.Attacks, Attack{Kind: "garbage", Label: "garbage"}, Attack{Kind: "garbage", Label: "foreign-prefix", Pos: 5})
			runCase("tink-prefix", c, tr)
		}
	}

	// 9. vectors of more than 256 messages: the generator index needs more than one byte; reveal sets with positions
	//    congruent modulo 255 / 256 / 257, revealed messages exchanged between such positions
	longSizes := []int{257, 300}
	if thorough {
		longSizes = []int{257, 258, 300, 511, 513, 700}
	}

	for _, n := range longSizes {
		cnt++
		r := rng.Fork(cnt)
		c := &Case{Level: "prim", Long: true, Msgs: randomMsgs(r, n), Nonce: r.Intn(9), Key: r.Intn(3)}
		a := r.Intn(n - 257)
		c.R = []int{a, a + 255, a + 256, a + 257, r.Intn(n), n - 1}

		if n > 257 {
			c.R = append(c.R, 0, 1, 256, 257)
		}

		inRange := c.R[:0]
		for _, x := range c.R {
			if x < n {
				inRange = append(inRange, x)
			}
		}

		c.R = dedup(inRange)
		c.Attacks = listAttacks(c, r)
		rv := revealedIDs(c)
		rs := dedup(c.R)

		for x := 0; x < len(rs); x++ {
			for y := x + 1; y < len(rs); y++ {
				d := rs[y] - rs[x]
				if (d == 255 || d == 256 || d == 257 || d == 1) && rv[x] != rv[y] {
					sw := append([]int{}, rv...)
					sw[x], sw[y] = sw[y], sw[x]
					c.Attacks = append(c.Attacks, Attack{Kind: "supplied", Label: fmt.Sprintf("swapped-%d", d), Supplied: sw})
				}
			}
		}

		runCase("long", c, tr)
	}

	// 7. structurally crafted proofs and the verifier's challenge transcript
	nForge := 24
	if thorough {
		nForge = 200
	}

	for i := 0; i < nForge; i++ {
		cnt++
		r := rng.Fork(cnt)
		n := 1 + r.Intn(9)

		if i%5 == 4 {
			n = []int{7, 8, 15, 16, 17, 24, 31}[r.Intn(7)]
		}

		c := &Case{Level: "prim", Msgs: randomMsgs(r, n), R: randomSubset(r, n), Nonce: r.Intn(9), Key: r.Intn(3)}
		c.Attacks, c.Tr = forgeAttacks(c, r)
		c.Attacks = append([]Attack{{Kind: "honest"}}, c.Attacks...)
		runCase("forge", c, tr)
	}

	// 6. credential level: generated credentials x reveal frames through GenerateBBSSelectiveDisclosure + ParseCredential
	nCred := 40
	if thorough {
		nCred = 250
	}

	for i := 0; i < nCred; i++ {
		cnt++
		cc := randomCred(rng.Fork(cnt))
		if i%4 == 3 {
			mixedMember(rng.Fork(cnt+100000), cc)
		}

		if f := os.Getenv("C17_FORM"); f != "" {
			cc.Form = f
		}

		runCred("credential", cc, tr)
	}

	if os.Getenv("C17_FORM") != "" {
		return
	}

	// 5. every position of a proof (direct oracle only)
	for i := 0; i < nAll; i++ {
		cnt++
		r := rng.Fork(cnt)
		n := 1 + r.Intn(6)
		c := &Case{Level: "prim", Msgs: randomMsgs(r, n), R: randomSubset(r, n), Nonce: r.Intn(9), Key: r.Intn(3)}
		c.Attacks = alterAttacks(c, r, 0, true)
		runCaseOpt("alter-all", c, tr, false)
	}
}
