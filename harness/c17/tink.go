package main

import (
	"fmt"

	"github.com/hyperledger/aries-framework-go/component/kmscrypto/crypto/tinkcrypto"
	"github.com/hyperledger/aries-framework-go/component/kmscrypto/kms/localkms"
	"github.com/hyperledger/aries-framework-go/component/storageutil/mem"
	mockkms "github.com/hyperledger/aries-framework-go/pkg/mock/kms"
	"github.com/hyperledger/aries-framework-go/pkg/secretlock/noop"
	kmsapi "github.com/hyperledger/aries-framework-go/spi/kms"
)

// tinkParty: issuer, holder and verifier each have their own KMS and Crypto service; the holder and the verifier
// only ever see the issuer's exported public key bytes.
type tinkParty struct {
	issuerKMS, holderKMS, verifierKMS *localkms.LocalKMS
	issuerC, holderC, verifierC       *tinkcrypto.Crypto
	signKH                            interface{}
	pubBytes, otherPubBytes           []byte
}

var tinkCache = map[int]*tinkParty{}

func newKMS(name string) *localkms.LocalKMS {
	p, err := mockkms.NewProviderForKMS(mem.NewProvider(), &noop.NoLock{})
	must(err)

	k, err := localkms.New("local-lock://"+name, p)
	must(err)

	return k
}

func newTink(key int) *tinkParty {
	if t, ok := tinkCache[key]; ok {
		return t
	}

	t := &tinkParty{
		issuerKMS: newKMS(fmt.Sprintf("issuer%d", key)), holderKMS: newKMS("holder"), verifierKMS: newKMS("verifier"),
	}

	var err error

	t.issuerC, err = tinkcrypto.New()
	must(err)
	t.holderC, err = tinkcrypto.New()
	must(err)
	t.verifierC, err = tinkcrypto.New()
	must(err)

	kid, kh, err := t.issuerKMS.Create(kmsapi.BLS12381G2Type)
	must(err)

	t.signKH = kh
	t.pubBytes, _, err = t.issuerKMS.ExportPubKeyBytes(kid)
	must(err)

	okid, _, err := t.issuerKMS.Create(kmsapi.BLS12381G2Type)
	must(err)

	t.otherPubBytes, _, err = t.issuerKMS.ExportPubKeyBytes(okid)
	must(err)

	tinkCache[key] = t

	return t
}

func (t *tinkParty) sign(msgs [][]byte) ([]byte, error) { return t.issuerC.SignMulti(msgs, t.signKH) }

func (t *tinkParty) verify(msgs [][]byte, sig []byte) error {
	kh, err := localkms.PublicKeyBytesToHandle(t.pubBytes, kmsapi.BLS12381G2Type)
	if err != nil {
		return err
	}

	return t.holderC.VerifyMulti(msgs, sig, kh)
}

func (t *tinkParty) derive(msgs [][]byte, sig, nonce []byte, idx []int) ([]byte, error) {
	kh, err := localkms.PublicKeyBytesToHandle(t.pubBytes, kmsapi.BLS12381G2Type)
	if err != nil {
		return nil, err
	}

	return t.holderC.DeriveProof(msgs, sig, nonce, idx, kh)
}

func (t *tinkParty) verifyProof(revealed [][]byte, proof, nonce []byte, otherKey bool) error {
	b := t.pubBytes
	if otherKey {
		b = t.otherPubBytes
	}

	kh, err := localkms.PublicKeyBytesToHandle(b, kmsapi.BLS12381G2Type)
	if err != nil {
		return err
	}

	return t.verifierC.VerifyProof(revealed, proof, nonce, kh)
}
