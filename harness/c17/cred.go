package main

import (
	"crypto/sha256"
	"encoding/base64"
	"encoding/json"
	"fmt"
	"strings"

	bbs "github.com/hyperledger/aries-framework-go/component/kmscrypto/crypto/primitive/bbs12381g2pub"
	"github.com/hyperledger/aries-framework-go/component/models/ld/documentloader"
	"github.com/hyperledger/aries-framework-go/component/models/ld/processor"
	ldtestutil "github.com/hyperledger/aries-framework-go/component/models/ld/testutil"
	"github.com/hyperledger/aries-framework-go/component/models/signature/suite"
	"github.com/hyperledger/aries-framework-go/component/models/signature/suite/bbsblssignature2020"
	"github.com/hyperledger/aries-framework-go/component/models/signature/suite/bbsblssignatureproof2020"
	"github.com/hyperledger/aries-framework-go/component/models/verifiable"

	"verifharness/hx"
)

// CredCase: a generated credential (subject fields present), the fields the reveal frame selects, the verifier-side
// checks.  It is reported to the model as a vector of statements (proof-option statements followed by the
// document's canonical N-Quads), the revealed statement indexes as found by canonicalising the DERIVED credential,
// and the payload of the derived proof value.
type CredCase struct {
	Level   string   `json:"level"` // cred
	Present []string `json:"present"`
	Reveal  []string `json:"revealed_fields"`
	Top     []string `json:"top"`        // optional top-level members present
	TopRev  []string `json:"top_reveal"` // of which revealed
	Nonce   int      `json:"nonce"`
	Key     int      `json:"key"`
	Val     int      `json:"val"`
}

var subjectPool = []string{"givenName", "familyName", "gender", "image", "residentSince", "lprCategory", "lprNumber",
	"commuterClassification", "birthCountry", "birthDate"}
var topPool = []string{"identifier", "name", "description", "expirationDate"}

func fieldValue(f string, v int) string {
	switch f {
	case "residentSince", "birthDate":
		return fmt.Sprintf("19%02d-01-%02d", 50+v%40, 1+v%27)
	case "expirationDate":
		return fmt.Sprintf("20%02d-12-03T12:19:52Z", 25+v%40)
	case "image":
		return fmt.Sprintf("data:image/png;base64,iVBOR%dw0KGgokJggg==", v)
	default:
		return fmt.Sprintf("%s-value-%d", f, v)
	}
}

type bbsSigner struct{ priv []byte }

func (s *bbsSigner) Sign(data []byte) ([]byte, error) {
	return bbs.New().Sign(lines(string(data)), s.priv)
}
func (s *bbsSigner) Alg() string { return "" }

func lines(txt string) [][]byte {
	var out [][]byte

	for _, l := range strings.Split(txt, "\n") {
		if strings.TrimSpace(l) != "" {
			out = append(out, []byte(l))
		}
	}

	return out
}

func canonLines(doc map[string]interface{}) ([]string, error) {
	b, err := processor.Default().GetCanonicalDocument(doc, processor.WithDocumentLoader(loader()))
	if err != nil {
		return nil, err
	}

	var out []string

	for _, l := range lines(string(b)) {
		out = append(out, string(l))
	}

	return out, nil
}

var ldLoader *documentloader.DocumentLoader

func loader() *documentloader.DocumentLoader {
	if ldLoader == nil {
		l, err := ldtestutil.DocumentLoader()
		must(err)

		ldLoader = l
	}

	return ldLoader
}

func in(s string, l []string) bool {
	for _, x := range l {
		if x == s {
			return true
		}
	}

	return false
}

var ctxs = []interface{}{"https://www.w3.org/2018/credentials/v1", "https://w3id.org/citizenship/v1",
	"https://w3id.org/security/bbs/v1"}

func buildCred(c *CredCase) map[string]interface{} {
	subj := map[string]interface{}{"id": "did:example:b34ca6cd37bbf23", "type": []interface{}{"PermanentResident", "Person"}}
	for i, f := range c.Present {
		subj[f] = fieldValue(f, c.Val+i)
	}

	doc := map[string]interface{}{
		"@context": ctxs, "id": fmt.Sprintf("https://issuer.oidp.uscis.gov/credentials/%d", 83627465+c.Val),
		"type": []interface{}{"VerifiableCredential", "PermanentResidentCard"}, "issuer": "did:example:489398593",
		"issuanceDate": "2019-12-03T12:19:52Z", "credentialSubject": subj,
	}
	for i, f := range c.Top {
		doc[f] = fieldValue(f, c.Val+20+i)
	}

	return doc
}

func buildFrame(c *CredCase) map[string]interface{} {
	subj := map[string]interface{}{"@explicit": true, "type": []interface{}{"PermanentResident", "Person"}}
	for _, f := range c.Reveal {
		subj[f] = map[string]interface{}{}
	}

	fr := map[string]interface{}{
		"@context": ctxs, "type": []interface{}{"VerifiableCredential", "PermanentResidentCard"}, "@explicit": true,
		"issuer": map[string]interface{}{}, "issuanceDate": map[string]interface{}{}, "credentialSubject": subj,
	}
	for _, f := range c.TopRev {
		fr[f] = map[string]interface{}{}
	}

	return fr
}

func toMap(v interface{}) map[string]interface{} {
	b, err := json.Marshal(v)
	must(err)

	m := map[string]interface{}{}
	must(json.Unmarshal(b, &m))

	return m
}

func runCred(kind string, c *CredCase, tr *hx.Trace) {
	rec := &hx.Record{Kind: kind, Case: c}
	fail := func(sig, detail string) {
		if rec.Oracle != "fail" {
			rec.Oracle, rec.Sig, rec.Detail = "fail", sig, detail
		}
	}
	obs := map[string]interface{}{}
	rec.Observed = obs

	defer func() {
		if r := recover(); r != nil {
			fail("cred-panic", fmt.Sprint(r))
			tr.Put(rec)
		}
	}()

	pub, priv, err := bbs.GenerateKeyPair(sha256.New, keySeed(c.Key))
	must(err)

	pubB, _ := pub.Marshal()
	privB, _ := priv.Marshal()
	opub, _, _ := bbs.GenerateKeyPair(sha256.New, keySeed(c.Key+1000))
	opubB, _ := opub.Marshal()
	nonce := nonceBytes(c.Nonce)
	ld := loader()

	docMap := buildCred(c)
	docBytes, _ := json.Marshal(docMap)

	vc, err := verifiable.ParseCredential(docBytes, verifiable.WithJSONLDDocumentLoader(ld), verifiable.WithDisabledProofCheck())
	must(err)

	signSuite := bbsblssignature2020.New(suite.WithSigner(&bbsSigner{priv: privB}),
		suite.WithVerifier(bbsblssignature2020.NewG2PublicKeyVerifier()))
	must(vc.AddLinkedDataProof(&verifiable.LinkedDataProofContext{
		SignatureType: "BbsBlsSignature2020", SignatureRepresentation: verifiable.SignatureProofValue,
		Suite: signSuite, VerificationMethod: "did:example:123456#key1",
	}, processor.WithDocumentLoader(ld)))

	fetch := verifiable.WithPublicKeyFetcher(verifiable.SingleKey(pubB, "Bls12381G2Key2020"))

	derived, err := vc.GenerateBBSSelectiveDisclosure(buildFrame(c), nonce, verifiable.WithJSONLDDocumentLoader(ld), fetch)
	if err != nil {
		fail("cred-derive-failed", err.Error())
		tr.Put(rec)

		return
	}

	derivedBytes, err := json.Marshal(derived)
	must(err)

	verifyWith := func(b []byte, n []byte, key []byte) string {
		ps := bbsblssignatureproof2020.New(suite.WithCompactProof(),
			suite.WithVerifier(bbsblssignatureproof2020.NewG2PublicKeyVerifier(n)))
		v, _ := fenced(func() error {
			_, e := verifiable.ParseCredential(b, verifiable.WithJSONLDDocumentLoader(ld),
				verifiable.WithEmbeddedSignatureSuites(ps),
				verifiable.WithPublicKeyFetcher(verifiable.SingleKey(key, "Bls12381G2Key2020")))
			return e
		})

		return v
	}

	// statements: original document vs derived document (no blank nodes: every node has an id)
	origMap := toMap(vc)
	delete(origMap, "proof")

	dm := map[string]interface{}{}
	must(json.Unmarshal(derivedBytes, &dm))

	proofVal := ""
	if p, ok := dm["proof"].(map[string]interface{}); ok {
		proofVal, _ = p["proofValue"].(string)
	}

	delete(dm, "proof")

	origSt, err := canonLines(origMap)
	must(err)

	derSt, err := canonLines(dm)
	must(err)

	idx := map[string]int{}
	for i, s := range origSt {
		idx[s] = i
	}

	var rd []int

	for _, s := range derSt {
		i, ok := idx[s]
		if !ok {
			fail("cred-foreign-statement", "the derived credential contains a statement the issuer did not sign: "+s)
			continue
		}

		rd = append(rd, i)
	}

	// only the selected statements: hidden values absent, revealed values present
	ds := strings.Join(derSt, "\n")

	for i, f := range c.Present {
		has := strings.Contains(ds, fieldValue(f, c.Val+i))
		if has != in(f, c.Reveal) {
			fail("cred-wrong-disclosure", fmt.Sprintf("subject field %s: revealed=%v but present in derived=%v", f, in(f, c.Reveal), has))
		}
	}

	for i, f := range c.Top {
		has := strings.Contains(ds, fieldValue(f, c.Val+20+i))
		if has != in(f, c.TopRev) {
			fail("cred-wrong-disclosure", fmt.Sprintf("member %s: revealed=%v but present in derived=%v", f, in(f, c.TopRev), has))
		}
	}

	proofBytes, err := base64.StdEncoding.DecodeString(proofVal)
	if err != nil || len(proofBytes) < 2 {
		fail("cred-proof-value", "no decodable proofValue")
		tr.Put(rec)

		return
	}

	count := int(proofBytes[0])<<8 | int(proofBytes[1])
	np := count - len(origSt)
	obs["statements"], obs["proof_statements"], obs["revealed_doc_indexes"] = len(origSt), np, rd

	if np < 1 {
		fail("cred-count", fmt.Sprintf("message count %d of the proof is not proof statements + %d document statements", count, len(origSt)))
		tr.Put(rec)

		return
	}

	// verifier-side checks
	atts := []Attack{{Kind: "honest"}, {Kind: "nonce", Pos: 0}, {Kind: "key"}}
	vs := []string{verifyWith(derivedBytes, nonce, pubB), verifyWith(derivedBytes, nonceBytes(c.Nonce+1), pubB),
		verifyWith(derivedBytes, nonce, opubB)}
	expect := []string{vAccept, vReject, vReject}

	// a revealed claim changed in the derived credential = one supplied message changed
	all := append([]int{}, make([]int, 0)...)
	for i := 0; i < np; i++ {
		all = append(all, i)
	}

	for _, i := range rd {
		all = append(all, np+i)
	}

	if len(c.Reveal) > 0 {
		f := c.Reveal[0]
		old := ""

		for i, p := range c.Present {
			if p == f {
				old = fieldValue(f, c.Val+i)
			}
		}

		tam := strings.Replace(string(derivedBytes), old, fieldValue(f, c.Val+777), 1)
		// which statement changed: the one holding the old value
		sup := make([]int, len(all))
		for k, i := range all {
			sup[k] = i + 1
			if i >= np && strings.Contains(origSt[i-np], old) {
				sup[k] = 9000
			}
		}

		atts = append(atts, Attack{Kind: "supplied", Label: "claim-changed", Supplied: sup})
		vs = append(vs, verifyWith([]byte(tam), nonce, pubB))
		expect = append(expect, vReject)
	}

	for i := range vs {
		if vs[i] != expect[i] {
			fail(fmt.Sprintf("cred-%s-%s", atts[i].Kind+atts[i].Label, vs[i]),
				fmt.Sprintf("credential-level check %d (%s %s): expected %s, got %s", i, atts[i].Kind, atts[i].Label, expect[i], vs[i]))
		}
	}

	obs["verdicts"] = vs

	// the case as the model sees it: statements 1..count, revealed = proof statements + the derived document's
	mc := &Case{Level: "cred", Nonce: c.Nonce, Key: c.Key, R: all, Attacks: atts}
	for i := 0; i < count; i++ {
		mc.Msgs = append(mc.Msgs, i+1)
	}

	o := &Obs{Verdicts: vs, ProofLen: len(proofBytes), Intact: true}
	for _, b := range proofBytes[:min(2+count/8+1, len(proofBytes))] {
		o.Payload = append(o.Payload, int(b))
	}

	rec.Coq = coqCase(mc, o, nil)
	rec.Class = fmt.Sprintf("cred present=%v reveal=%v top=%v/%v", c.Present, c.Reveal, c.Top, c.TopRev)
	rec.Dist = []string{"level:cred", fmt.Sprintf("statements:%d", bucket(count)), fmt.Sprintf("revealed:%d", bucket(len(all))),
		fmt.Sprintf("subject-fields-revealed:%d/%d", len(c.Reveal), len(c.Present))}
	tr.Put(rec)
}

func pick(r *hx.Rng, pool []string, p int) []string {
	var out []string

	for _, f := range pool {
		if r.Intn(100) < p {
			out = append(out, f)
		}
	}

	return out
}

func randomCred(r *hx.Rng) *CredCase {
	c := &CredCase{Level: "cred", Nonce: r.Intn(4), Key: r.Intn(3), Val: r.Intn(500)}
	c.Present = pick(r, subjectPool, 70)
	c.Reveal = pick(r, c.Present, []int{0, 30, 50, 100}[r.Intn(4)])
	c.Top = pick(r, topPool, 60)
	c.TopRev = pick(r, c.Top, 50)

	return c
}
