package main

import (
	"os"
	"regexp"
	"sort"
	"crypto/sha256"
	"encoding/base64"
	"encoding/json"
	"fmt"
	"strings"

	bbs "github.com/hyperledger/aries-framework-go/component/kmscrypto/crypto/primitive/bbs12381g2pub"
	"github.com/hyperledger/aries-framework-go/component/models/ld/documentloader"
	"github.com/hyperledger/aries-framework-go/component/models/ld/processor"
	ldtestutil "github.com/hyperledger/aries-framework-go/component/models/ld/testutil"
	"github.com/hyperledger/aries-framework-go/component/models/signature/suite"
	"github.com/hyperledger/aries-framework-go/component/models/signature/suite/bbsblssignature2020"
	"github.com/hyperledger/aries-framework-go/component/models/signature/suite/bbsblssignatureproof2020"
	"github.com/hyperledger/aries-framework-go/component/models/signature/suite/ed25519signature2018"
	sigutil "github.com/hyperledger/aries-framework-go/component/models/signature/util"
	sigverifier "github.com/hyperledger/aries-framework-go/component/models/signature/verifier"
	kmsapi "github.com/hyperledger/aries-framework-go/spi/kms"
	"github.com/hyperledger/aries-framework-go/component/models/verifiable"

	"verifharness/hx"
)

// CredCase: a generated credential (subject fields present), the fields the reveal frame selects, the verifier-side
// checks.  It is reported to the model as a vector of statements (proof-option statements followed by the
// document's canonical N-Quads), the revealed statement indexes as found by canonicalising the DERIVED credential,
// and the payload of the derived proof value.
type CredCase struct {
	Level   string   `json:"level"` // cred
	Present []string `json:"present"`
	Reveal  []string `json:"revealed_fields"`
	Top     []string `json:"top"`        // optional top-level members present
	TopRev  []string `json:"top_reveal"` // of which revealed
	Nonce   int      `json:"nonce"`
	Key     int      `json:"key"`
	Val     int      `json:"val"`
	BBS     int      `json:"bbs,omitempty"`      // number of BbsBlsSignature2020 proofs (issuer keys), default 1
	Ed      bool     `json:"ed,omitempty"`       // an Ed25519Signature2018 proof as well
	EdFirst bool     `json:"ed_first,omitempty"` // ... added before the BBS+ proofs
	Form    string   `json:"form,omitempty"`     // ids (every node has an id) | see buildCred
	// Images: further values of the subject's image member (an IRI-valued, multi-valued member): IRIs of several
	// schemes (they sort before or after the urn:bnid: IRIs of blank nodes) and inline nodes without id
	Images []string `json:"images,omitempty"`
}

var subjectPool = []string{"givenName", "familyName", "gender", "image", "residentSince", "lprCategory", "lprNumber",
	"commuterClassification", "birthCountry", "birthDate"}
var topPool = []string{"identifier", "name", "description", "expirationDate"}

func fieldValue(f string, v int) string {
	switch f {
	case "residentSince", "birthDate":
		return fmt.Sprintf("19%02d-01-%02d", 50+v%40, 1+v%27)
	case "expirationDate":
		return fmt.Sprintf("20%02d-12-03T12:19:52Z", 25+v%40)
	case "image":
		return fmt.Sprintf("data:image/png;base64,iVBOR%dw0KGgokJggg==", v)
	default:
		return fmt.Sprintf("%s-value-%d", f, v)
	}
}

var imagePool = []string{"did", "https", "urn-a", "uuid", "urn-z", "node", "node"}

func imageValue(kind string, v int) interface{} {
	switch kind {
	case "did":
		return fmt.Sprintf("did:example:image%d", v)
	case "https":
		return fmt.Sprintf("https://images.example/%d.png", v)
	case "urn-a":
		return fmt.Sprintf("urn:aaa:image:%d", v)
	case "uuid":
		return fmt.Sprintf("urn:uuid:8f2a6b1c-0d4e-4c5a-9b7e-%012d", v)
	case "urn-z":
		return fmt.Sprintf("urn:zzz:image:%d", v)
	default: // an inline node without id
		return map[string]interface{}{"description": fmt.Sprintf("photograph %d", v), "identifier": fmt.Sprintf("IMG-%d", v)}
	}
}

type bbsSigner struct {
	priv   []byte
	signed []string // the message vector of the last signature: proof statements, then document statements
}

func (s *bbsSigner) Sign(data []byte) ([]byte, error) {
	s.signed = nil
	for _, l := range lines(string(data)) {
		s.signed = append(s.signed, string(l))
	}

	return bbs.New().Sign(lines(string(data)), s.priv)
}

// recVerifier records the statements the proof suite hands to its verifier.
type recVerifier struct {
	inner interface {
		Verify(pubKeyValue *sigverifier.PublicKey, doc, signature []byte) error
	}
	doc []string
}

func (r *recVerifier) Verify(pubKeyValue *sigverifier.PublicKey, doc, signature []byte) error {
	r.doc = nil
	for _, l := range lines(string(doc)) {
		r.doc = append(r.doc, string(l))
	}

	return r.inner.Verify(pubKeyValue, doc, signature)
}

var (
	reBlank = regexp.MustCompile(`^_:c14n(\d+)$`)
	reBnid  = regexp.MustCompile(`^<urn:bnid:_:c14n(\d+)>$`)
)

// splitStatement: subject, predicate, object of a canonical N-Quad of the default graph.
func splitStatement(l string) []string {
	l = strings.TrimSuffix(strings.TrimSpace(l), " .")

	i := strings.Index(l, " ")
	if i < 0 {
		return []string{l}
	}

	j := strings.Index(l[i+1:], " ")
	if j < 0 {
		return []string{l[:i], l[i+1:]}
	}

	return []string{l[:i], l[i+1 : i+1+j], l[i+2+j:]}
}

// credTerm renders the credential-level observation for the model: tokens other than blank node labels and their
// urn:bnid: IRIs are named by the rank of their text among all such texts of the case (bytewise order).
func credTerm(np int, signed, c0, vdoc []string) string {
	texts := map[string]bool{}
	ok := true

	each := func(f func(tok string)) {
		for _, list := range [][]string{signed, c0, vdoc} {
			for _, l := range list {
				for _, t := range splitStatement(l) {
					f(t)
				}
			}
		}
	}
	special := func(t string) (string, bool) {
		for _, re := range []*regexp.Regexp{reBlank, reBnid} {
			if m := re.FindStringSubmatch(t); m != nil {
				if len(m[1]) != 1 { // labels from c14n10 on sort differently as text than as numbers
					ok = false
				}

				if re == reBlank {
					return "TBlank " + m[1], true
				}

				return "TBnid " + m[1], true
			}
		}

		return "", false
	}

	each(func(t string) {
		if _, sp := special(t); !sp {
			texts[t] = true
			// the transformations of the code work on substrings: a text that merely CONTAINS a label is outside the model
			if strings.Contains(t, "_:c14n") {
				ok = false
			}
		}
	})

	if !ok {
		return ""
	}

	sorted := make([]string, 0, len(texts))
	for t := range texts {
		sorted = append(sorted, t)
	}

	sort.Strings(sorted)

	rank := map[string]int{}
	for i, t := range sorted {
		rank[t] = i
	}

	pos := func(prefix string) int { return sort.SearchStrings(sorted, prefix) }
	stmts := func(list []string) string {
		out := make([]string, len(list))

		for i, l := range list {
			var ts []string

			for _, t := range splitStatement(l) {
				if sp, is := special(t); is {
					ts = append(ts, sp)
				} else {
					ts = append(ts, fmt.Sprintf("TPlain %d", rank[t]))
				}
			}

			out[i] = hx.CoqList(ts)
		}

		return hx.CoqList(out)
	}

	return fmt.Sprintf("{| cr_rk := {| bnid_pos := %d; blank_pos := %d |}; cr_np := %s; cr_signed := %s; cr_c0 := %s; cr_vdoc := %s |}",
		pos("<urn:bnid:_:c14n"), pos("_:c14n"), hx.CoqNat(np), stmts(signed), stmts(c0), stmts(vdoc))
}
func (s *bbsSigner) Alg() string { return "" }

func lines(txt string) [][]byte {
	var out [][]byte

	for _, l := range strings.Split(txt, "\n") {
		if strings.TrimSpace(l) != "" {
			out = append(out, []byte(l))
		}
	}

	return out
}

func canonLines(doc map[string]interface{}) ([]string, error) {
	b, err := processor.Default().GetCanonicalDocument(doc, processor.WithDocumentLoader(loader()))
	if err != nil {
		return nil, err
	}

	var out []string

	for _, l := range lines(string(b)) {
		out = append(out, string(l))
	}

	return out, nil
}

var ldLoader *documentloader.DocumentLoader

func loader() *documentloader.DocumentLoader {
	if ldLoader == nil {
		l, err := ldtestutil.DocumentLoader()
		must(err)

		ldLoader = l
	}

	return ldLoader
}

func in(s string, l []string) bool {
	for _, x := range l {
		if x == s {
			return true
		}
	}

	return false
}

var ctxs = []interface{}{"https://www.w3.org/2018/credentials/v1", "https://w3id.org/citizenship/v1",
	"https://w3id.org/security/bbs/v1"}

func nested(c *CredCase) bool { return strings.HasPrefix(c.form(), "blank-nested") }

func ctxsOf(c *CredCase) []interface{} {
	if nested(c) {
		return []interface{}{ctxs[0], "https://www.w3.org/2018/credentials/examples/v1", ctxs[2]}
	}

	return ctxs
}

// nestedCred: a university degree credential whose subject and nested degree object are blank nodes.
func nestedCred(c *CredCase) map[string]interface{} {
	return map[string]interface{}{
		"@context": ctxsOf(c), "id": fmt.Sprintf("https://example.gov/credentials/%d", 3732+c.Val),
		"type": []interface{}{"VerifiableCredential", "UniversityDegreeCredential"}, "issuer": "did:example:489398593",
		"issuanceDate": "2020-03-10T04:24:12.164Z",
		"credentialSubject": map[string]interface{}{
			"name": fieldValue("name", c.Val), "spouse": fmt.Sprintf("did:example:c276e12ec21ebfeb1f712ebc6f%d", c.Val),
			"degree": map[string]interface{}{"type": "BachelorDegree", "name": fieldValue("degree", c.Val)},
		},
	}
}

func nestedFrame(c *CredCase) map[string]interface{} {
	subj := map[string]interface{}{"@explicit": true, "name": map[string]interface{}{}}
	if c.form() == "blank-nested" {
		subj["degree"] = map[string]interface{}{}
	}

	return map[string]interface{}{
		"@context": ctxsOf(c), "type": []interface{}{"VerifiableCredential", "UniversityDegreeCredential"}, "@explicit": true,
		"issuer": map[string]interface{}{}, "issuanceDate": map[string]interface{}{}, "credentialSubject": subj,
	}
}

func buildCred(c *CredCase) map[string]interface{} {
	subj := map[string]interface{}{"id": "did:example:b34ca6cd37bbf23", "type": []interface{}{"PermanentResident", "Person"}}
	for i, f := range c.Present {
		subj[f] = fieldValue(f, c.Val+i)

		if f == "image" && len(c.Images) > 0 {
			vals := []interface{}{subj[f]}
			for j, k := range c.Images {
				vals = append(vals, imageValue(k, c.Val+j))
			}

			subj[f] = vals
		}
	}

	credID := fmt.Sprintf("https://issuer.oidp.uscis.gov/credentials/%d", 83627465+c.Val)

	// forms with blank nodes: the subject (and the credential) without id; a credential id that sorts after urn:bnid:
	switch c.form() {
	case "blank-subject":
		delete(subj, "id")
	case "blank-subject-uuid":
		delete(subj, "id")

		credID = fmt.Sprintf("urn:uuid:c17a%04d-1111-2222-3333-444455556666", c.Val)
	case "no-ids":
		delete(subj, "id")

		credID = ""
	case "blank-nested", "blank-nested-hidden":
		return nestedCred(c)
	}

	doc := map[string]interface{}{
		"@context": ctxs, "id": credID,
		"type": []interface{}{"VerifiableCredential", "PermanentResidentCard"}, "issuer": "did:example:489398593",
		"issuanceDate": "2019-12-03T12:19:52Z", "credentialSubject": subj,
	}
	for i, f := range c.Top {
		doc[f] = fieldValue(f, c.Val+20+i)
	}

	if credID == "" {
		delete(doc, "id")
	}

	return doc
}

func buildFrame(c *CredCase) map[string]interface{} {
	subj := map[string]interface{}{"@explicit": true, "type": []interface{}{"PermanentResident", "Person"}}
	for _, f := range c.Reveal {
		subj[f] = map[string]interface{}{}
	}

	if nested(c) {
		return nestedFrame(c)
	}

	fr := map[string]interface{}{
		"@context": ctxs, "type": []interface{}{"VerifiableCredential", "PermanentResidentCard"}, "@explicit": true,
		"issuer": map[string]interface{}{}, "issuanceDate": map[string]interface{}{}, "credentialSubject": subj,
	}
	for _, f := range c.TopRev {
		fr[f] = map[string]interface{}{}
	}

	return fr
}

func toMap(v interface{}) map[string]interface{} {
	b, err := json.Marshal(v)
	must(err)

	m := map[string]interface{}{}
	must(json.Unmarshal(b, &m))

	return m
}

// sink is where runCredOnce puts its records (the trace, or a buffer while an honest failure is being re-tried).
type sink interface {
	Put(r *hx.Record)
	N() int
}

type bufSink struct {
	base int
	recs []*hx.Record
}

func (b *bufSink) Put(r *hx.Record) { b.recs = append(b.recs, r) }
func (b *bufSink) N() int           { return b.base + len(b.recs) }

// credHonestFailure: an honest issuer signature, derivation or derived proof was rejected.
func credHonestFailure(recs []*hx.Record) *hx.Record {
	for _, r := range recs {
		if r.Oracle != "fail" {
			continue
		}

		if strings.HasPrefix(r.Sig, "cred-honest-") ||
			(strings.HasPrefix(r.Sig, "cred-derive-failed") && strings.Contains(r.Detail, "invalid BLS12-381 signature")) {
			return r
		}
	}

	return nil
}

// runCred runs the case; a rejected HONEST signature / derivation / derived proof is re-tried once with fresh randomness
// (as at the primitive level): only a failure that does not repeat becomes the known finding unreproducible-honest-reject.
func runCred(kind string, c *CredCase, tr *hx.Trace) {
	first := &bufSink{base: tr.N()}
	runCredOnce(kind, c, first)

	flush := func(b *bufSink) {
		for _, r := range b.recs {
			tr.Put(r)
		}
	}

	f := credHonestFailure(first.recs)
	if f == nil || c.form() == "no-ids" {
		flush(first)

		return
	}

	second := &bufSink{base: tr.N() + 1}
	runCredOnce(kind, c, second)

	if credHonestFailure(second.recs) != nil { // reproducible: a real completeness failure
		flush(first)

		return
	}

	f.Coq = ""
	f.Detail = "NOT REPRODUCED on a second attempt with fresh randomness; first attempt: " + f.Sig + ": " + f.Detail
	f.Sig = "unreproducible-honest-reject"
	f.Kind = kind + ":retry"
	tr.Put(f)
	flush(second)
}

func runCredOnce(kind string, c *CredCase, tr sink) {
	base := &hx.Record{Kind: kind, Case: c}
	fail0 := func(sig, detail string) {
		if base.Oracle != "fail" {
			base.Oracle, base.Sig, base.Detail = "fail", sig, detail
		}
	}
	obs0 := map[string]interface{}{}
	base.Observed = obs0
	put0 := func() {
		base.Class = fmt.Sprintf("cred form=%s bbs=%d ed=%v present=%v reveal=%v", c.Form, c.nBBS(), c.Ed, c.Present, c.Reveal)
		base.Dist = []string{"level:cred", "cred-form:" + c.form(), fmt.Sprintf("cred-bbs-proofs:%d", c.nBBS()), fmt.Sprintf("cred-ed25519:%v", c.Ed)}
		tr.Put(base)
	}

	defer func() {
		if r := recover(); r != nil {
			fail0("cred-panic", fmt.Sprint(r))
			put0()
		}
	}()

	if nested(c) { // other vocabulary: name is revealed, spouse hidden, degree per form
		cc := *c
		cc.Present, cc.Reveal, cc.Top, cc.TopRev = nil, nil, nil, nil
		c = &cc
		base.Case = c
	}

	k := c.nBBS()
	nonce := nonceBytes(c.Nonce)
	ld := loader()

	type ikey struct {
		vm        string
		pub, priv []byte
	}

	keys := make([]ikey, k)

	for j := range keys {
		pub, priv, err := bbs.GenerateKeyPair(sha256.New, keySeed(c.Key+10*j))
		must(err)

		keys[j].vm = fmt.Sprintf("did:example:489398593#key%d", j+1)
		keys[j].pub, _ = pub.Marshal()
		keys[j].priv, _ = priv.Marshal()
	}

	opub, _, _ := bbs.GenerateKeyPair(sha256.New, keySeed(c.Key+1000))
	opubB, _ := opub.Marshal()

	fetcher := func(issuerID, keyID string) (*sigverifier.PublicKey, error) {
		for _, ik := range keys {
			if strings.HasSuffix(ik.vm, keyID) {
				return &sigverifier.PublicKey{Type: "Bls12381G2Key2020", Value: ik.pub}, nil
			}
		}

		return nil, fmt.Errorf("key %s not found", keyID)
	}
	otherFetcher := func(issuerID, keyID string) (*sigverifier.PublicKey, error) {
		return &sigverifier.PublicKey{Type: "Bls12381G2Key2020", Value: opubB}, nil
	}

	docMap := buildCred(c)
	docBytes, _ := json.Marshal(docMap)

	vc, err := verifiable.ParseCredential(docBytes, verifiable.WithJSONLDDocumentLoader(ld), verifiable.WithDisabledProofCheck())
	must(err)

	addEd := func() {
		s, e := sigutil.NewSigner(kmsapi.ED25519Type)
		must(e)
		must(vc.AddLinkedDataProof(&verifiable.LinkedDataProofContext{
			SignatureType: "Ed25519Signature2018", SignatureRepresentation: verifiable.SignatureProofValue,
			Suite: ed25519signature2018.New(suite.WithSigner(s)), VerificationMethod: "did:example:489398593#ed",
		}, processor.WithDocumentLoader(ld)))
	}

	if c.Ed && c.EdFirst {
		addEd()
	}

	signers := make([]*bbsSigner, k)

	for j := range keys {
		signers[j] = &bbsSigner{priv: keys[j].priv}
		must(vc.AddLinkedDataProof(&verifiable.LinkedDataProofContext{
			SignatureType: "BbsBlsSignature2020", SignatureRepresentation: verifiable.SignatureProofValue,
			Suite:              bbsblssignature2020.New(suite.WithSigner(signers[j])),
			VerificationMethod: keys[j].vm,
		}, processor.WithDocumentLoader(ld)))
	}

	if c.Ed && !c.EdFirst {
		addEd()
	}

	derived, err := vc.GenerateBBSSelectiveDisclosure(buildFrame(c), nonce, verifiable.WithJSONLDDocumentLoader(ld),
		verifiable.WithPublicKeyFetcher(fetcher))
	if err != nil {
		fail0("cred-derive-failed-"+c.form(), err.Error())
		put0()

		return
	}

	derivedBytes, err := json.Marshal(derived)
	must(err)

	if os.Getenv("C17_DEBUG") != "" {
		fmt.Fprintln(os.Stderr, string(derivedBytes))
	}

	var lastDoc []string // the statements the suite handed to its verifier in the last verifyWith

	verifyWith := func(b []byte, n []byte, f verifiable.PublicKeyFetcher) (string, string) {
		rv := &recVerifier{inner: bbsblssignatureproof2020.NewG2PublicKeyVerifier(n)}
		ps := bbsblssignatureproof2020.New(suite.WithCompactProof(), suite.WithVerifier(rv))

		defer func() { lastDoc = rv.doc }()

		return fenced(func() error {
			_, e := verifiable.ParseCredential(b, verifiable.WithJSONLDDocumentLoader(ld),
				verifiable.WithEmbeddedSignatureSuites(ps), verifiable.WithPublicKeyFetcher(f))
			return e
		})
	}

	origMap := toMap(vc)
	delete(origMap, "proof")

	dm := map[string]interface{}{}
	must(json.Unmarshal(derivedBytes, &dm))

	var proofs []map[string]interface{}

	switch p := dm["proof"].(type) {
	case map[string]interface{}:
		proofs = append(proofs, p)
	case []interface{}:
		for _, x := range p {
			if m, ok := x.(map[string]interface{}); ok {
				proofs = append(proofs, m)
			}
		}
	}

	delete(dm, "proof")

	origSt, err := canonLines(origMap)
	must(err)

	derSt, err := canonLines(dm)
	must(err)

	for i := range origSt {
		origSt[i] = processor.TransformBlankNode(origSt[i])
	}

	idx := map[string]int{}
	for i, s := range origSt {
		idx[s] = i
	}

	var rd []int

	for _, s := range derSt {
		i, ok := idx[s]
		if !ok {
			// with two blank nodes (form no-ids) the derived document's blank node labels are not the signer's:
			// the statements cannot be mapped by text
			if c.form() != "no-ids" {
				fail0("cred-foreign-statement", "the derived credential contains a statement the issuer did not sign: "+s)
			}

			continue
		}

		rd = append(rd, i)
	}

	ds := strings.Join(derSt, "\n")

	for i, f := range c.Present {
		has := strings.Contains(ds, fieldValue(f, c.Val+i))
		if has != in(f, c.Reveal) {
			fail0("cred-wrong-disclosure", fmt.Sprintf("subject field %s: revealed=%v but present in derived=%v", f, in(f, c.Reveal), has))
		}
	}

	for i, f := range c.Top {
		has := strings.Contains(ds, fieldValue(f, c.Val+20+i))
		if has != in(f, c.TopRev) {
			fail0("cred-wrong-disclosure", fmt.Sprintf("member %s: revealed=%v but present in derived=%v", f, in(f, c.TopRev), has))
		}
	}

	if len(proofs) != k {
		fail0("cred-proof-count", fmt.Sprintf("%d BBS+ signatures but %d derived proofs", k, len(proofs)))
	}

	// the derived credential as a whole verifies against the issuer keys
	whole, wd := verifyWith(derivedBytes, nonce, fetcher)
	obs0["whole"], obs0["derived_proofs"], obs0["statements"], obs0["revealed_doc_indexes"] = whole, len(proofs), len(origSt), rd

	if whole != vAccept {
		fail0("cred-honest-"+whole+c.formSuffix(), "the derived credential does not verify against the issuer keys: "+wd)
	}

	put0()

	// every derived proof on its own
	for pi, pm := range proofs {
		rec := &hx.Record{Kind: kind, Case: c, ID: fmt.Sprintf("%s-%d-proof%d", kind, tr.N(), pi)}
		obs := map[string]interface{}{"proof_index": pi, "verificationMethod": pm["verificationMethod"]}
		rec.Observed = obs
		fail := func(sig, detail string) {
			if rec.Oracle != "fail" {
				rec.Oracle, rec.Sig, rec.Detail = "fail", sig, detail
			}
		}

		single := map[string]interface{}{}
		for kk, v := range dm {
			single[kk] = v
		}

		single["proof"] = pm
		singleBytes, _ := json.Marshal(single)

		proofVal, _ := pm["proofValue"].(string)

		proofBytes, derr := base64.StdEncoding.DecodeString(proofVal)
		if derr != nil || len(proofBytes) < 2 {
			fail("cred-proof-value", "no decodable proofValue")
			tr.Put(rec)

			continue
		}

		count := int(proofBytes[0])<<8 | int(proofBytes[1])
		np := count - len(origSt)
		obs["proof_statements"] = np

		if np < 1 {
			fail("cred-count", fmt.Sprintf("message count %d of the proof is not proof statements + %d document statements", count, len(origSt)))
			tr.Put(rec)

			continue
		}

		atts := []Attack{{Kind: "honest"}, {Kind: "nonce", Pos: 0}, {Kind: "key"}}
		v0, d0 := verifyWith(singleBytes, nonce, fetcher)
		vdoc := lastDoc
		v1, _ := verifyWith(singleBytes, nonceBytes(c.Nonce+1), fetcher)
		v2, _ := verifyWith(singleBytes, nonce, otherFetcher)
		vs := []string{v0, v1, v2}
		expect := []string{vAccept, vReject, vReject}

		if an := aliasNonce(nonce); an != nil { // same length, value shifted by the group order
			va, _ := verifyWith(singleBytes, an, fetcher)
			atts = append(atts, Attack{Kind: "nonce", Label: "plus-order", Pos: 12})
			vs = append(vs, va)
			expect = append(expect, vReject)
		}

		var all []int

		for i := 0; i < np; i++ {
			all = append(all, i)
		}

		for _, i := range rd {
			all = append(all, np+i)
		}

		if len(c.Reveal) > 0 {
			f := c.Reveal[0]
			old := ""

			for i, p := range c.Present {
				if p == f {
					old = fieldValue(f, c.Val+i)
				}
			}

			tam := strings.Replace(string(singleBytes), old, fieldValue(f, c.Val+777), 1)
			if tam == string(singleBytes) || old == "" {
				fail("cred-harness-tamper", "the revealed value to change does not occur in the derived credential")
			}

			sup := make([]int, len(all))

			for kk, i := range all {
				sup[kk] = i + 1
				if i >= np && strings.Contains(origSt[i-np], old) {
					sup[kk] = 9000
				}
			}

			atts = append(atts, Attack{Kind: "supplied", Label: "claim-changed", Supplied: sup})
			v3, _ := verifyWith([]byte(tam), nonce, fetcher)
			vs = append(vs, v3)
			expect = append(expect, vReject)
		}

		// every statement of the derived document must be covered by the proof: revealed = proof statements + them
		nRevealed := 0
		for _, b := range proofBytes[2:min(2+count/8+1, len(proofBytes))] {
			for ; b != 0; b &= b - 1 {
				nRevealed++
			}
		}

		obs["revealed_count"] = nRevealed

		if nRevealed != np+len(derSt) {
			fail("cred-unproven-statements"+c.formSuffix(), fmt.Sprintf("derived proof #%d reveals %d messages (%d proof statements) but the derived credential has %d statements: the others are accepted unverified",
				pi+1, nRevealed, np, len(derSt)))
		}

		// a claim ADDED to the derived credential (refreshService: its statements sort after all others when every node
		// has an IRI).  If the original statements stay a prefix this is the supplemented list of the known finding.
		if addedBytes, addedSt := addClaim(single); addedBytes != nil {
			sup := make([]int, 0, len(all)+2)
			for _, i := range all {
				sup = append(sup, i+1)
			}

			isSuffix := len(addedSt) > len(derSt)
			for i := range derSt {
				if !isSuffix || addedSt[i] != derSt[i] {
					isSuffix = false
				}
			}

			if isSuffix {
				for j := len(derSt); j < len(addedSt); j++ {
					sup = append(sup, 9100+j)
				}

				v4, _ := verifyWith(addedBytes, nonce, fetcher)
				atts = append(atts, Attack{Kind: "supplied", Label: "claim-added", Supplied: sup})
				vs = append(vs, v4)
				expect = append(expect, vReject)
			}
		}

		for i := range vs {
			if vs[i] != expect[i] {
				d := ""
				if i == 0 {
					d = ": " + d0
				}

				fail(fmt.Sprintf("cred-%s-%s%s", atts[i].Kind+atts[i].Label, vs[i], c.formSuffix()),
					fmt.Sprintf("derived proof #%d (%v), check %d (%s %s): expected %s, got %s%s", pi+1, pm["verificationMethod"],
						i, atts[i].Kind, atts[i].Label, expect[i], vs[i], d))
			}
		}

		obs["verdicts"] = vs

		mc := &Case{Level: "cred", Nonce: c.Nonce, Key: c.Key + 10*pi, R: all, Attacks: atts}
		for i := 0; i < count; i++ {
			mc.Msgs = append(mc.Msgs, i+1)
		}

		o := &Obs{Verdicts: vs, ProofLen: len(proofBytes), Intact: true}
		for _, b := range proofBytes[:min(2+count/8+1, len(proofBytes))] {
			o.Payload = append(o.Payload, int(b))
		}

		if len(rd) == len(derSt) { // the statement mapping is complete: tie it to the model
			ct := ""
			if pi < len(signers) && len(signers[pi].signed) == count {
				ct = credTerm(np, signers[pi].signed, derSt, vdoc)
			}

			obs["statement_model"] = ct != ""
			rec.Coq = coqCaseCred(mc, o, nil, ct)
		}

		rec.Class = fmt.Sprintf("cred form=%s bbs=%d/%d ed=%v present=%v reveal=%v top=%v/%v", c.Form, pi+1, k, c.Ed, c.Present, c.Reveal, c.Top, c.TopRev)
		rec.Dist = []string{"level:cred-proof", fmt.Sprintf("statements:%d", bucket(count)), fmt.Sprintf("revealed:%d", bucket(len(all))),
			fmt.Sprintf("subject-fields-revealed:%d/%d", len(c.Reveal), len(c.Present)), fmt.Sprintf("cred-proof-index:%d", pi)}
		tr.Put(rec)
	}
}

// addClaim returns the credential with an unsigned refreshService claim added, and its canonical statements.
func addClaim(single map[string]interface{}) ([]byte, []string) {
	m := map[string]interface{}{}
	for k, v := range single {
		m[k] = v
	}

	m["refreshService"] = map[string]interface{}{"id": "https://zzz.example/refresh/1", "type": "ManualRefreshService2018"}

	b, err := json.Marshal(m)
	if err != nil {
		return nil, nil
	}

	noProof := map[string]interface{}{}
	for k, v := range m {
		if k != "proof" {
			noProof[k] = v
		}
	}

	st, err := canonLines(noProof)
	if err != nil {
		return nil, nil
	}

	return b, st
}

func (c *CredCase) nBBS() int {
	if c.BBS < 1 {
		return 1
	}

	return c.BBS
}

func (c *CredCase) form() string {
	if c.Form == "" {
		return "ids"
	}

	return c.Form
}

// formSuffix distinguishes the signatures of credentials with blank nodes from those where every node has an id.
func (c *CredCase) formSuffix() string {
	if c.form() == "ids" {
		return ""
	}

	return "-" + c.form()
}

func pick(r *hx.Rng, pool []string, p int) []string {
	var out []string

	for _, f := range pool {
		if r.Intn(100) < p {
			out = append(out, f)
		}
	}

	return out
}

// mixedMember makes the credential one whose subject has a revealed multi-valued member mixing inline nodes without id
// with IRIs of several schemes, under a subject with or without id.
func mixedMember(r *hx.Rng, c *CredCase) {
	if !in("image", c.Present) {
		c.Present = append(c.Present, "image")
	}

	if !in("image", c.Reveal) {
		c.Reveal = append(c.Reveal, "image")
	}

	iris := pick(r, imagePool[:5], 50)
	if len(iris) == 0 {
		iris = []string{imagePool[r.Intn(5)]}
	}

	vals := append([]string{"node"}, iris...)
	if r.Intn(3) == 0 {
		vals = append(vals, "node")
	}

	for i := len(vals) - 1; i > 0; i-- {
		j := r.Intn(i + 1)
		vals[i], vals[j] = vals[j], vals[i]
	}

	c.Images = vals
	c.Form = []string{"ids", "blank-subject", "blank-subject", "blank-subject-uuid"}[r.Intn(4)]
}

func randomCred(r *hx.Rng) *CredCase {
	c := &CredCase{Level: "cred", Nonce: r.Intn(9), Key: r.Intn(3), Val: r.Intn(500)}
	c.Present = pick(r, subjectPool, 70)
	c.Reveal = pick(r, c.Present, []int{0, 30, 50, 100}[r.Intn(4)])
	c.Top = pick(r, topPool, 60)
	c.TopRev = pick(r, c.Top, 50)
	c.BBS = []int{1, 1, 2, 2, 3}[r.Intn(5)]
	c.Ed = r.Intn(3) == 0
	c.EdFirst = r.Bool()
	if in("image", c.Present) && r.Intn(2) == 0 {
		c.Images = pick(r, imagePool, 45)
		if r.Intn(3) > 0 && !in("image", c.Reveal) {
			c.Reveal = append(c.Reveal, "image")
		}
	}

	c.Form = []string{"ids", "ids", "ids", "ids", "blank-subject", "blank-subject-uuid", "blank-subject-uuid", "no-ids",
		"blank-nested", "blank-nested-hidden"}[r.Intn(10)]

	return c
}
