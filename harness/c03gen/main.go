// c03gen: translator for C03. For every anchored file of the property (anchors.files in properties.jsonl) it lists
// the operations of the Go code that can panic on their own and that no compiler check covers:
//
//	assert  x.(T) without the comma-ok form (outside a type switch)
//	index   x[i] on a slice / string / array, unless the bound is evident (see "discharged" below)
//	slice   x[lo:hi] on a slice / string / array with at least one bound
//	panic   an explicit call of the builtin panic
//
// and writes them as the table coq/gen/Gen_C03.v.  coq/C03/Sites.v holds, for every site, either the model
// site it is (with its guard) or a reviewed reason why it cannot be reached with data of another party outside its
// domain; Props.v proves by vm_compute that every generated site is covered and that no entry is stale.  A new
// unguarded assertion / index / slice / panic in an anchored file therefore breaks an obligation.
//
// The packages are type-checked (go/types, export data from `go list -export` of the harness module, so the
// working tree of /repo with the verif tag is what is read).  Discharged without review, counted per file in
// the table:
//
//	map      x[k] on a map (a missing key yields the zero value)
//	const    constant index into an array (checked by the compiler) / constant bounds slicing an array
//	range    x[i] inside `for i := range x` / `for i := 0; i < len(x); i++` on the same x
//	generic  instantiation of a generic function or type
//
// A site is identified by (file, function, kind, expression text), not by its line, so that unrelated edits do not
// disturb the table; the count of identical sites is part of the entry.
package main

import (
	"bytes"
	"encoding/json"
	"fmt"
	"go/ast"
	"go/importer"
	"go/parser"
	"go/printer"
	"go/token"
	"go/types"
	"io"
	"os"
	"os/exec"
	"path/filepath"
	"sort"
	"strings"
)

const modPrefix = "github.com/hyperledger/aries-framework-go/"

type listed struct {
	ImportPath string
	Export     string
	Dir        string
	GoFiles    []string
	CgoFiles   []string
}

type site struct {
	File, Func, Kind, Expr string
	Count                  int
	Lines                  []int
}

// files that are not anchors of the property but hold operations the model covers (E2 transport helper, E7, E9, E10)
var extraFiles = []string{
	"component/models/sdjwt/common/verification.go",
	"component/models/verifiable/common.go",
	"pkg/didcomm/transport/internal/helpers.go",
	"pkg/internal/didkeyutil/util.go",
}

func fatal(f string, a ...interface{}) {
	fmt.Fprintf(os.Stderr, "c03gen: "+f+"\n", a...)
	os.Exit(1)
}

func anchors(root string) []string {
	b, err := os.ReadFile(filepath.Join(root, "properties.jsonl"))
	if err != nil {
		fatal("%v", err)
	}

	for _, ln := range strings.Split(string(b), "\n") {
		if strings.TrimSpace(ln) == "" {
			continue
		}

		var p struct {
			ID      string `json:"id"`
			Anchors struct {
				Files []string `json:"files"`
			} `json:"anchors"`
		}

		if json.Unmarshal([]byte(ln), &p) == nil && p.ID == "C03" {
			return p.Anchors.Files
		}
	}

	fatal("no C03 entry in properties.jsonl")

	return nil
}

func goList(pkgs []string) map[string]*listed {
	args := append([]string{"list", "-export", "-deps", "-tags", "verif", "-json=ImportPath,Export,Dir,GoFiles,CgoFiles"}, pkgs...)
	cmd := exec.Command("go", args...)
	cmd.Stderr = os.Stderr

	out, err := cmd.Output()
	if err != nil {
		fatal("go list: %v", err)
	}

	res := map[string]*listed{}
	dec := json.NewDecoder(bytes.NewReader(out))

	for {
		var l listed
		if err := dec.Decode(&l); err == io.EOF {
			break
		} else if err != nil {
			fatal("go list output: %v", err)
		}

		c := l
		res[l.ImportPath] = &c
	}

	return res
}

type walker struct {
	fset  *token.FileSet
	info  *types.Info
	file  string
	sites map[string]*site
	disch map[string]int // discharged, by rule
	// stacks
	funcs  []string
	okForm map[*ast.TypeAssertExpr]bool
	ranges []rangeCtx
}

type rangeCtx struct {
	key types.Object
	x   string
}

func (w *walker) text(n ast.Node) string {
	var b bytes.Buffer
	_ = printer.Fprint(&b, w.fset, n) //nolint:errcheck

	return strings.Join(strings.Fields(b.String()), " ")
}

func (w *walker) add(kind string, n ast.Node) {
	fn := ""
	if len(w.funcs) > 0 {
		fn = w.funcs[len(w.funcs)-1]
	}

	expr := w.text(n)
	if len(expr) > 110 { //nolint:gomnd
		expr = expr[:110]
	}

	key := w.file + "\x00" + fn + "\x00" + kind + "\x00" + expr

	s := w.sites[key]
	if s == nil {
		s = &site{File: w.file, Func: fn, Kind: kind, Expr: expr}
		w.sites[key] = s
	}

	s.Count++
	s.Lines = append(s.Lines, w.fset.Position(n.Pos()).Line)
}

func funcName(d *ast.FuncDecl) string {
	if d.Recv == nil || len(d.Recv.List) == 0 {
		return d.Name.Name
	}

	t := d.Recv.List[0].Type
	star := ""

	if s, ok := t.(*ast.StarExpr); ok {
		t = s.X
		star = "*"
	}

	if ix, ok := t.(*ast.IndexExpr); ok {
		t = ix.X
	}

	if id, ok := t.(*ast.Ident); ok {
		return "(" + star + id.Name + ")." + d.Name.Name
	}

	return d.Name.Name
}

func under(t types.Type) types.Type {
	if t == nil {
		return nil
	}

	u := t.Underlying()
	if p, ok := u.(*types.Pointer); ok {
		if a, ok := p.Elem().Underlying().(*types.Array); ok {
			return a
		}
	}

	return u
}

func (w *walker) isConst(e ast.Expr) bool {
	if e == nil {
		return true
	}

	tv, ok := w.info.Types[e]

	return ok && tv.Value != nil
}

func (w *walker) inRange(idx ast.Expr, x string) bool {
	id, ok := idx.(*ast.Ident)
	if !ok {
		return false
	}

	obj := w.info.Uses[id]
	if obj == nil {
		return false
	}

	for _, r := range w.ranges {
		if r.key == obj && r.x == x {
			return true
		}
	}

	return false
}

func (w *walker) Visit(n ast.Node) ast.Visitor { return w } // unused: walk is explicit below

func (w *walker) walk(n ast.Node) {
	if n == nil {
		return
	}

	switch t := n.(type) {
	case *ast.FuncDecl:
		w.funcs = append(w.funcs, funcName(t))
		if t.Body != nil {
			w.walk(t.Body)
		}

		w.funcs = w.funcs[:len(w.funcs)-1]

		return
	case *ast.AssignStmt:
		if len(t.Lhs) == 2 && len(t.Rhs) == 1 {
			if ta, ok := ast.Unparen(t.Rhs[0]).(*ast.TypeAssertExpr); ok {
				w.okForm[ta] = true
			}
		}
	case *ast.ValueSpec:
		if len(t.Names) == 2 && len(t.Values) == 1 {
			if ta, ok := ast.Unparen(t.Values[0]).(*ast.TypeAssertExpr); ok {
				w.okForm[ta] = true
			}
		}
	case *ast.RangeStmt:
		pushed := false

		if id, ok := t.Key.(*ast.Ident); ok && id.Name != "_" {
			if obj := w.info.Defs[id]; obj != nil {
				if _, isMap := under(w.info.TypeOf(t.X)).(*types.Map); !isMap {
					w.ranges = append(w.ranges, rangeCtx{obj, w.text(t.X)})
					pushed = true
				}
			}
		}

		w.walk(t.X)
		w.walk(t.Body)

		if pushed {
			w.ranges = w.ranges[:len(w.ranges)-1]
		}

		return
	case *ast.ForStmt:
		// for i := ...; i < len(x); i++
		pushed := false

		if be, ok := t.Cond.(*ast.BinaryExpr); ok && be.Op == token.LSS {
			if id, ok := be.X.(*ast.Ident); ok {
				if call, ok := be.Y.(*ast.CallExpr); ok && len(call.Args) == 1 {
					if f, ok := call.Fun.(*ast.Ident); ok && f.Name == "len" {
						if obj := w.info.Uses[id]; obj != nil {
							w.ranges = append(w.ranges, rangeCtx{obj, w.text(call.Args[0])})
							pushed = true
						}
					}
				}
			}
		}

		w.walk(t.Init)
		w.walk(t.Cond)
		w.walk(t.Post)
		w.walk(t.Body)

		if pushed {
			w.ranges = w.ranges[:len(w.ranges)-1]
		}

		return
	case *ast.TypeAssertExpr:
		if t.Type != nil && !w.okForm[t] {
			w.add("assert", t)
		}
	case *ast.IndexExpr:
		tv, ok := w.info.Types[t.X]
		if !ok || !tv.IsValue() {
			w.disch["generic"]++
			break
		}

		switch u := under(tv.Type).(type) {
		case *types.Map:
			w.disch["map"]++
		case *types.Array:
			if w.isConst(t.Index) {
				w.disch["const"]++
			} else if w.inRange(t.Index, w.text(t.X)) {
				w.disch["range"]++
			} else {
				w.add("index", t)
			}

			_ = u
		case *types.Slice, *types.Basic:
			if w.inRange(t.Index, w.text(t.X)) {
				w.disch["range"]++
			} else {
				w.add("index", t)
			}
		default:
			// type parameter or signature: instantiation
			w.disch["generic"]++
		}
	case *ast.IndexListExpr:
		w.disch["generic"]++
	case *ast.SliceExpr:
		if t.Low == nil && t.High == nil && t.Max == nil {
			break
		}

		if _, isArr := under(w.info.TypeOf(t.X)).(*types.Array); isArr &&
			w.isConst(t.Low) && w.isConst(t.High) && w.isConst(t.Max) {
			w.disch["const"]++
			break
		}

		w.add("slice", t)
	case *ast.CallExpr:
		if id, ok := t.Fun.(*ast.Ident); ok && id.Name == "panic" {
			if _, isBuiltin := w.info.Uses[id].(*types.Builtin); isBuiltin {
				w.add("panic", t)
			}
		}
	}

	// generic descent over the children
	ast.Inspect(n, func(c ast.Node) bool {
		if c == n || c == nil {
			return c == n
		}

		w.walk(c)

		return false
	})
}

func coqStr(s string) string {
	var b strings.Builder

	b.WriteByte('"')

	for i := 0; i < len(s); i++ {
		switch c := s[i]; {
		case c == '"':
			b.WriteString("\"\"")
		case c < 32 || c >= 127: //nolint:gomnd
			b.WriteByte('?')
		default:
			b.WriteByte(c)
		}
	}

	b.WriteByte('"')

	return b.String()
}

func main() {
	if len(os.Args) < 2 { //nolint:gomnd
		fatal("usage: c03gen <out.v>")
	}

	root := os.Getenv("VERIF_ROOT")
	if root == "" {
		root = "/verif"
	}

	files := append(anchors(root), extraFiles...)
	sort.Strings(files)

	byPkg := map[string][]string{}
	for _, f := range files {
		p := modPrefix + filepath.ToSlash(filepath.Dir(f))
		byPkg[p] = append(byPkg[p], filepath.Base(f))
	}

	pkgs := make([]string, 0, len(byPkg))
	for p := range byPkg {
		pkgs = append(pkgs, p)
	}

	sort.Strings(pkgs)

	all := goList(pkgs)
	fset := token.NewFileSet()

	imp := importer.ForCompiler(fset, "gc", func(path string) (io.ReadCloser, error) {
		l := all[path]
		if l == nil || l.Export == "" {
			return nil, fmt.Errorf("no export data for %s", path)
		}

		return os.Open(l.Export)
	})

	var sites []*site

	disch := map[string]map[string]int{}

	for _, p := range pkgs {
		l := all[p]
		if l == nil {
			fatal("package %s not listed", p)
		}

		var (
			parsed []*ast.File
			names  []string
		)

		for _, gf := range append(append([]string{}, l.GoFiles...), l.CgoFiles...) {
			af, err := parser.ParseFile(fset, filepath.Join(l.Dir, gf), nil, parser.SkipObjectResolution)
			if err != nil {
				fatal("%v", err)
			}

			parsed = append(parsed, af)
			names = append(names, gf)
		}

		info := &types.Info{Types: map[ast.Expr]types.TypeAndValue{}, Defs: map[*ast.Ident]types.Object{},
			Uses: map[*ast.Ident]types.Object{}}

		conf := types.Config{Importer: imp, Error: func(err error) {
			fatal("type check of %s: %v", p, err)
		}}

		if _, err := conf.Check(p, fset, parsed, info); err != nil {
			fatal("type check of %s: %v", p, err)
		}

		for _, want := range byPkg[p] {
			found := false

			for i, nm := range names {
				if nm != want {
					continue
				}

				found = true
				rel := strings.TrimPrefix(p, modPrefix) + "/" + want
				w := &walker{fset: fset, info: info, file: rel, sites: map[string]*site{}, disch: map[string]int{},
					okForm: map[*ast.TypeAssertExpr]bool{}}

				for _, d := range parsed[i].Decls {
					w.walk(d)
				}

				for _, s := range w.sites {
					sites = append(sites, s)
				}

				disch[rel] = w.disch
			}

			if !found {
				fatal("anchored file %s/%s is not part of the build", p, want)
			}
		}
	}

	sort.Slice(sites, func(i, j int) bool {
		a, b := sites[i], sites[j]
		if a.File != b.File {
			return a.File < b.File
		}

		if a.Lines[0] != b.Lines[0] {
			return a.Lines[0] < b.Lines[0]
		}

		if a.Kind != b.Kind {
			return a.Kind < b.Kind
		}

		return a.Expr < b.Expr
	})

	var o strings.Builder

	o.WriteString("(* GENERATED by harness/c03gen from the anchored files of C03 in /repo - do not edit.\n")
	o.WriteString("   Every operation that can panic by itself: unchecked type assertion, index, slice, explicit panic.\n")
	o.WriteString("   Line numbers are deliberately not part of the table (a site is file, function, kind, expression, count). *)\n")
	o.WriteString("From Coq Require Import List String.\nImport ListNotations.\nLocal Open Scope string_scope.\n\n")
	o.WriteString("Inductive skind := KAssert | KIndex | KSlice | KPanic.\n")
	o.WriteString("Record site := { s_file : string; s_func : string; s_kind : skind; s_expr : string; s_count : nat }.\n\n")

	kinds := map[string]string{"assert": "KAssert", "index": "KIndex", "slice": "KSlice", "panic": "KPanic"}

	// file names are shared through definitions (short literals keep coqc fast)
	fileIdx := map[string]int{}

	for i, f := range files {
		fileIdx[f] = i
		o.WriteString(fmt.Sprintf("Definition f%d := %s.\n", i, coqStr(f)))
	}

	o.WriteString("\nDefinition files : list string := [")

	for i := range files {
		if i > 0 {
			o.WriteString("; ")
		}

		o.WriteString(fmt.Sprintf("f%d", i))
	}

	o.WriteString("].\n\nDefinition sites : list site := [\n")

	for i, s := range sites {
		sep := ";"
		if i == len(sites)-1 {
			sep = ""
		}

		o.WriteString(fmt.Sprintf("  {| s_file := f%d; s_func := %s; s_kind := %s; s_expr := %s; s_count := %d |}%s\n",
			fileIdx[s.File], coqStr(s.Func), kinds[s.Kind], coqStr(s.Expr), s.Count, sep))
	}

	o.WriteString("].\n\n(* discharged without review, per file: (file, map index, constant array index, range-bounded index, generic instantiation) *)\n")
	o.WriteString("Definition discharged : list (string * nat * nat * nat * nat) := [\n")

	for i, f := range files {
		d := disch[f]
		sep := ";"

		if i == len(files)-1 {
			sep = ""
		}

		o.WriteString(fmt.Sprintf("  (f%d, %d, %d, %d, %d)%s\n", i, d["map"], d["const"], d["range"], d["generic"], sep))
	}

	o.WriteString("]%nat.\n")

	if err := os.WriteFile(os.Args[1], []byte(o.String()), 0o644); err != nil { //nolint:gomnd,gosec
		fatal("%v", err)
	}

	// a human-readable listing with line numbers for the reviewer (not part of the table)
	if lst := os.Getenv("C03GEN_LISTING"); lst != "" {
		var b strings.Builder

		for _, s := range sites {
			b.WriteString(fmt.Sprintf("%s\t%v\t%s\t%s\t%s\t%d\n", s.File, s.Lines, s.Func, s.Kind, s.Expr, s.Count))
		}

		_ = os.WriteFile(lst, []byte(b.String()), 0o644) //nolint:errcheck,gosec,gomnd
	}
}
