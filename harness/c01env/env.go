// Package c01env is the world shared by the C01 and C02 harnesses: parties with one real KMS each, keys of every
// key-agreement type, a VDR stub that serves DID documents built from the public keys, and the real packers/packager.
package c01env

import (
	"encoding/json"
	"errors"
	"fmt"
	"github.com/google/tink/go/keyset"
	"github.com/hyperledger/aries-framework-go/component/kmscrypto/crypto/tinkcrypto/primitive/composite/keyio"
	"os"
	"runtime/debug"
	"strings"

	"github.com/btcsuite/btcutil/base58"

	"github.com/hyperledger/aries-framework-go/component/kmscrypto/crypto/tinkcrypto"
	"github.com/hyperledger/aries-framework-go/component/kmscrypto/doc/jose"
	"github.com/hyperledger/aries-framework-go/component/kmscrypto/doc/util/jwkkid"
	"github.com/hyperledger/aries-framework-go/component/kmscrypto/doc/util/kmsdidkey"
	"github.com/hyperledger/aries-framework-go/component/kmscrypto/kms/localkms"
	"github.com/hyperledger/aries-framework-go/component/models/did"
	"github.com/hyperledger/aries-framework-go/component/storageutil/mem"
	"github.com/hyperledger/aries-framework-go/pkg/didcomm/packager"
	"github.com/hyperledger/aries-framework-go/pkg/didcomm/packer"
	"github.com/hyperledger/aries-framework-go/pkg/didcomm/packer/anoncrypt"
	"github.com/hyperledger/aries-framework-go/pkg/didcomm/packer/authcrypt"
	legacyanon "github.com/hyperledger/aries-framework-go/pkg/didcomm/packer/legacy/anoncrypt"
	legacyauth "github.com/hyperledger/aries-framework-go/pkg/didcomm/packer/legacy/authcrypt"
	"github.com/hyperledger/aries-framework-go/pkg/didcomm/transport"
	mockkms "github.com/hyperledger/aries-framework-go/pkg/mock/kms"
	mockprovider "github.com/hyperledger/aries-framework-go/pkg/mock/provider"
	mockvdr "github.com/hyperledger/aries-framework-go/pkg/mock/vdr"
	"github.com/hyperledger/aries-framework-go/pkg/secretlock/noop"
	cryptoapi "github.com/hyperledger/aries-framework-go/spi/crypto"
	"github.com/hyperledger/aries-framework-go/spi/kms"
	vdrspi "github.com/hyperledger/aries-framework-go/spi/vdr"
)

// Key types (model names).
const (
	X25519  = "X25519"
	P256    = "P256"
	P384    = "P384"
	P521    = "P521"
	Ed25519 = "Ed25519"
)

// KTs are the JWE key-agreement key types.
var KTs = []string{X25519, P256, P384, P521}

// Encs are the content encryption algorithms of the JWE packers (model name -> jose value).
var Encs = []string{"A256GCM", "XC20P", "A128CBC", "A192CBC", "A256CBC384", "A256CBC512"}

// EncAlg maps the model name to the jose constant.
func EncAlg(e string) jose.EncAlg {
	switch e {
	case "A256GCM":
		return jose.A256GCM
	case "XC20P":
		return jose.XC20P
	case "A128CBC":
		return jose.A128CBCHS256
	case "A192CBC":
		return jose.A192CBCHS384
	case "A256CBC384":
		return jose.A256CBCHS384
	case "A256CBC512":
		return jose.A256CBCHS512
	}

	return jose.EncAlg(e)
}

func kmsType(kt string) kms.KeyType {
	switch kt {
	case X25519:
		return kms.X25519ECDHKWType
	case P256:
		return kms.NISTP256ECDHKWType
	case P384:
		return kms.NISTP384ECDHKWType
	case P521:
		return kms.NISTP521ECDHKWType
	}

	return kms.ED25519Type
}

// Key is one key pair held by exactly one party.
type Key struct {
	Name   int // the model's key name (global, > 0)
	Owner  int
	KT     string
	KMSKID string
	Bytes  []byte               // exported public key bytes
	Pub    *cryptoapi.PublicKey // ECDH types
	DidKey string
	// Born is the epoch from which the party's DID document lists this key (the key itself is in the KMS from the start)
	Born int
	// Gone: the key was rotated in its KMS: its private part is still inside the rotated keyset, but the KMS no longer
	// finds it under this key's id
	Gone bool
	w    *World
}

// KeyDID is the DID of the document that holds this single key agreement key (id <did>#key-1).  The DIDs are of
// realistic methods: did:web with dots, did:peer:2 with dot-separated elements, did:example.
func (k *Key) KeyDID() string {
	switch k.Name % 3 {
	case 0:
		return fmt.Sprintf("did:web:agent%d.example.com", k.Name)
	case 1:
		return fmt.Sprintf("did:peer:2.Ez6LSk%dxQ.Vz6Mkk%dyR.SeyJ0IjoiZG0ifQ", k.Name, k.Name)
	}

	return fmt.Sprintf("did:example:k%d", k.Name)
}

// PartyDID is the DID of the party's document that lists ALL its key agreement keys.
func PartyDID(p int) string {
	switch p % 3 {
	case 0:
		return fmt.Sprintf("did:web:party%d.agents.example.org", p)
	case 1:
		return fmt.Sprintf("did:peer:2.Ez6LSp%daQ.Vz6Mkp%dbR", p, p)
	}

	return fmt.Sprintf("did:example:p%d", p)
}

// PartyKeys are the party's key agreement keys in document order.
func (w *World) PartyKeys(p int) []*Key {
	var ks []*Key

	for _, k := range w.Keys {
		if k.Owner == p && k.Pub != nil {
			ks = append(ks, k)
		}
	}

	return ks
}

// Fragment of the key in its party's document.  The fragments of one document are suffixes of one another, the
// longer ones listed first ("alt-alt-key-1", "alt-key-1", "key-1"): only an exact fragment match resolves them.
func (k *Key) Fragment() string {
	ks := k.w.PartyKeys(k.Owner)
	for j, x := range ks {
		if x == k {
			return strings.Repeat("alt-", len(ks)-1-j) + "key-1"
		}
	}

	return "key-1"
}

// DocEntry is one keyAgreement entry of a party's DID document: a party key (of a supported verification-method
// type) or a FOREIGN entry (a type the resolvers cannot build a key from, or an entry without key material).
type DocEntry struct {
	Frag string
	Type string
	Key  *Key // nil: foreign entry
}

// PartyDoc lists the keyAgreement entries of the party's document in order.  Between the party's own keys
// (X25519KeyAgreementKey2019 and JsonWebKey2020 entries of every curve the party has) stand foreign entries: before
// the first key, in the middle and at the end; their fragments are suffix-related to the keys' fragments as well.
func (w *World) PartyDoc(p int) []DocEntry {
	ks := w.PartyKeys(p)

	var es []DocEntry

	es = append(es, DocEntry{Frag: strings.Repeat("alt-", len(ks)) + "key-1", Type: "X25519KeyAgreementKey2020"})

	for j, k := range ks {
		if k.Born > w.Epoch {
			continue // not yet published in the document (fragments of the other entries do not depend on it)
		}

		typ := "JsonWebKey2020"
		if k.KT == X25519 {
			typ = "X25519KeyAgreementKey2019"
		}

		es = append(es, DocEntry{Frag: k.Fragment(), Type: typ, Key: k})

		switch j {
		case 1:
			es = append(es, DocEntry{Frag: "ed-key-1", Type: "Ed25519VerificationKey2018"})
		case 3:
			es = append(es, DocEntry{Frag: "suite-key-1", Type: "UnknownSuite2099"})
		}
	}

	es = append(es, DocEntry{Frag: "empty-key-1", Type: "JsonWebKey2020"}) // no key material
	es = append(es, DocEntry{Frag: "multikey-1", Type: "Multikey"})

	return es
}

// DocRef is <KeyDID>#key-1.
func (k *Key) DocRef() string { return k.KeyDID() + "#key-1" }

// PDoc is <PartyDID>#<Fragment>.
func (k *Key) PDoc() string { return PartyDID(k.Owner) + "#" + k.Fragment() }

// Party is an agent: its own KMS, crypto, packers.
type Party struct {
	ID     int
	KMS    *localkms.LocalKMS
	Crypto *tinkcrypto.Crypto
	// Rec is the crypto service handed to the packers: the real one, recording every WrapKey call
	Rec *RecCrypto
	w   *World
	pk  map[string]*packager.Packager
	pp  map[string]packer.Packer
}

// World is the set of parties and the public directory.
type World struct {
	Parties []*Party
	Keys    []*Key
	byRef   map[string]*Key
	// Epoch is the current time of the public directory: DID documents evolve (a party's document gains keys)
	Epoch int
	VDR   *mockvdr.MockVDRegistry
}

// NewWorld creates n parties.
func NewWorld(n int) *World {
	w := &World{byRef: map[string]*Key{}}
	w.VDR = &mockvdr.MockVDRegistry{ResolveFunc: w.resolve}

	for i := 0; i < n; i++ {
		w.AddParty()
	}

	return w
}

// AddParty adds an agent with a fresh KMS.
func (w *World) AddParty() *Party {
	p, err := mockkms.NewProviderForKMS(mem.NewProvider(), &noop.NoLock{})
	if err != nil {
		panic(err)
	}

	k, err := localkms.New("local-lock://x", p)
	if err != nil {
		panic(err)
	}

	c, err := tinkcrypto.New()
	if err != nil {
		panic(err)
	}

	pa := &Party{ID: len(w.Parties), KMS: k, Crypto: c, Rec: &RecCrypto{Crypto: c}, w: w, pk: map[string]*packager.Packager{}, pp: map[string]packer.Packer{}}
	w.Parties = append(w.Parties, pa)

	return pa
}

// NewKey creates a key of the type in the owner's KMS.
func (w *World) NewKey(owner int, kt string) *Key {
	p := w.Parties[owner]

	kid, b, err := p.KMS.CreateAndExportPubKeyBytes(kmsType(kt))
	if err != nil {
		panic(err)
	}

	k := &Key{Name: len(w.Keys) + 1, Owner: owner, KT: kt, KMSKID: kid, Bytes: b, w: w}

	k.DidKey, err = kmsdidkey.BuildDIDKeyByKeyType(b, kmsType(kt))
	if err != nil {
		panic(err)
	}

	if kt != Ed25519 {
		k.Pub = &cryptoapi.PublicKey{}
		if e := json.Unmarshal(b, k.Pub); e != nil {
			panic(e)
		}

	} else {
		w.byRef[base58.Encode(b)] = k
	}

	w.byRef[k.DidKey] = k
	w.Keys = append(w.Keys, k)

	return k
}

// Rotate rotates the key in its owner's KMS (kms.Rotate): the keyset gets a new primary key and is stored under the
// new key's id.  Returns the new key; the old one is marked Gone.
func (w *World) Rotate(k *Key) (*Key, error) {
	p := w.Parties[k.Owner]

	nkid, _, err := p.KMS.Rotate(kmsType(k.KT), k.KMSKID)
	if err != nil {
		return nil, err
	}

	b, _, err := p.KMS.ExportPubKeyBytes(nkid)
	if err != nil {
		return nil, err
	}

	nk := &Key{Name: len(w.Keys) + 1, Owner: k.Owner, KT: k.KT, KMSKID: nkid, Bytes: b, Born: 0, w: w}

	nk.DidKey, err = kmsdidkey.BuildDIDKeyByKeyType(b, kmsType(k.KT))
	if err != nil {
		return nil, err
	}

	if k.KT != Ed25519 {
		nk.Pub = &cryptoapi.PublicKey{}
		if e := json.Unmarshal(b, nk.Pub); e != nil {
			return nil, e
		}
	} else {
		w.byRef[base58.Encode(b)] = nk
	}

	w.byRef[nk.DidKey] = nk
	w.Keys = append(w.Keys, nk)
	k.Gone = true

	return nk, nil
}

// Ref is the key reference of the style.
func (k *Key) Ref(style string) string {
	switch style {
	case "diddoc":
		return k.DocRef()
	case "pdoc":
		return k.PDoc()
	case "raw":
		return base58.Encode(k.Bytes)
	}

	return k.DidKey
}

// ByRef finds the key a reference names.
func (w *World) ByRef(ref string) *Key {
	if k := w.byRef[ref]; k != nil {
		return k
	}

	for _, k := range w.Keys {
		if k.Pub != nil && (k.DocRef() == ref || k.PDoc() == ref) {
			return k
		}
	}

	return nil
}

func (w *World) vm(k *Key, id, controller string) did.Verification {
	j, err := jwkkid.BuildJWK(k.Bytes, kmsType(k.KT))
	if err != nil {
		panic(err)
	}

	typ := "JsonWebKey2020"
	if k.KT == X25519 {
		typ = "X25519KeyAgreementKey2019"
	}

	v, err := did.NewVerificationMethodFromJWK(id, typ, controller, j)
	if err != nil {
		panic(err)
	}

	return did.Verification{VerificationMethod: *v}
}

func (w *World) resolve(id string, _ ...vdrspi.DIDMethodOption) (*did.DocResolution, error) {
	var doc *did.Doc

	for _, k := range w.Keys {
		if k.Pub != nil && k.KeyDID() == id {
			doc = &did.Doc{ID: id, KeyAgreement: []did.Verification{w.vm(k, k.DocRef(), id)}}
		}
	}

	for p := range w.Parties {
		if PartyDID(p) != id {
			continue
		}

		doc = &did.Doc{ID: id}

		if len(w.PartyKeys(p)) == 0 {
			doc = nil
			continue
		}

		for i, e := range w.PartyDoc(p) {
			vmID := id + "#" + e.Frag
			if p%2 == 1 {
				vmID = "#" + e.Frag // relative verification method ids
			}

			if e.Key != nil {
				doc.KeyAgreement = append(doc.KeyAgreement, w.vm(e.Key, vmID, id))
				continue
			}

			var val []byte
			if e.Type != "JsonWebKey2020" {
				val = make([]byte, 32)
				for j := range val {
					val[j] = byte(7*i + j + p)
				}
			}

			doc.KeyAgreement = append(doc.KeyAgreement,
				did.Verification{VerificationMethod: *did.NewVerificationMethodFromBytes(vmID, e.Type, id, val)})
		}

		if len(doc.KeyAgreement) == 0 {
			doc = nil
		}
	}

	if doc == nil {
		return nil, errors.New("did not found: " + id)
	}

	return &did.DocResolution{DIDDocument: doc}, nil
}

func (p *Party) provider() *mockprovider.Provider {
	return &mockprovider.Provider{KMSValue: p.KMS, CryptoValue: p.Rec, VDRegistryValue: p.w.VDR}
}

// Packer returns the party's packer of the kind ("jwe-auth", "jwe-anon", "leg-auth", "leg-anon").
func (p *Party) Packer(kind, enc string) (packer.Packer, error) {
	// packers are long-lived like the packagers (an agent keeps its instances): created once per (kind, enc)
	if pp, ok := p.pp[kind+"/"+enc]; ok {
		return pp, nil
	}

	pp, err := p.newPacker(kind, enc)
	if err == nil {
		p.pp[kind+"/"+enc] = pp
	}

	return pp, err
}

// ResetInstances drops the party's long-lived packagers and packers (an agent restart).
func (p *Party) ResetInstances() {
	p.pk = map[string]*packager.Packager{}
	p.pp = map[string]packer.Packer{}
}

func (p *Party) newPacker(kind, enc string) (packer.Packer, error) {
	switch kind {
	case "jwe-auth":
		return authcrypt.New(p.provider(), EncAlg(enc))
	case "jwe-anon":
		return anoncrypt.New(p.provider(), EncAlg(enc))
	case "leg-auth":
		return legacyauth.New(p.provider()), nil
	case "leg-anon":
		return legacyanon.New(p.provider()), nil
	}

	return nil, errors.New("unknown packer " + kind)
}

// Packager returns the party's packager with all four packers (JWE packers with the given enc).  When the JWE
// authcrypt packer does not admit the enc the error is returned (a pack-side rejection).
func (p *Party) Packager(enc string) (*packager.Packager, error) {
	if pk, ok := p.pk[enc]; ok {
		return pk, nil
	}

	prov := p.provider()

	var list []packer.Packer

	for _, kind := range []string{"jwe-auth", "jwe-anon", "leg-auth", "leg-anon"} {
		pp, err := p.newPacker(kind, enc)
		if err != nil {
			if kind == "jwe-auth" {
				continue // anoncrypt-only packager (A256GCM)
			}

			return nil, err
		}

		list = append(list, pp)
	}

	prov.PackerList = list
	prov.PackerValue = list[0]

	pk, err := packager.New(prov)
	if err != nil {
		return nil, err
	}

	p.pk[enc] = pk

	return pk, nil
}

// Profile is the media type profile that selects the packer family in the packager.
func Profile(kind string) string {
	if strings.HasPrefix(kind, "leg") {
		return transport.MediaTypeRFC0019EncryptedEnvelope
	}

	return transport.MediaTypeDIDCommV2Profile
}

// SenderID is the senderID argument of a JWE packer's Pack for this key and style: "<kms kid>.<skid>".
func (k *Key) SenderID(style string) []byte { return []byte(k.KMSKID + "." + k.Ref(style)) }

// RecipientArg is the recipient public key argument of a packer's Pack.
func (k *Key) RecipientArg(style string) []byte {
	if k.Pub == nil {
		return k.Bytes
	}

	pk := *k.Pub
	pk.KID = k.Ref(style)

	b, err := json.Marshal(&pk)
	if err != nil {
		panic(err)
	}

	return b
}

// Unpacked is the projected result of an unpack.
type Unpacked struct {
	Out     string `json:"out"` // ok | err | panic
	Err     string `json:"err,omitempty"`
	Message []byte `json:"-"`
	From    int    `json:"from"` // key name, 0 = none, -1 = a key not in the world / not matching
	To      int    `json:"to"`
}

func (w *World) keyOfJSON(b []byte) int {
	if len(b) == 0 {
		return 0
	}

	pk := &cryptoapi.PublicKey{}
	if json.Unmarshal(b, pk) == nil && pk.KID != "" {
		k := w.ByRef(pk.KID)
		if k == nil || k.Pub == nil {
			return -1
		}

		// (the curve is named "NIST_P256" by the KMS export and "P-256" by the DID-document resolver: same key)
		if string(k.Pub.X) != string(pk.X) || string(k.Pub.Y) != string(pk.Y) || k.Pub.Type != pk.Type {
			return -1
		}

		return k.Name
	}

	// legacy: raw Ed25519 key
	if k := w.byRef[base58.Encode(b)]; k != nil {
		return k.Name
	}

	return -1
}

// Project turns an unpack result into the observables.
func (w *World) Project(env *transport.Envelope, err error) Unpacked {
	if err != nil || env == nil {
		s := ""
		if err != nil {
			s = err.Error()
		}

		return Unpacked{Out: "err", Err: s}
	}

	return Unpacked{Out: "ok", Message: env.Message, From: w.keyOfJSON(env.FromKey), To: w.keyOfJSON(env.ToKey)}
}

// Fence runs f and turns a panic into outcome "panic".
func Fence(f func() Unpacked) (u Unpacked) {
	defer func() {
		if r := recover(); r != nil {
			u = Unpacked{Out: "panic", Err: fmt.Sprint(r)}

			if os.Getenv("VERIF_STACK") != "" {
				fmt.Fprintf(os.Stderr, "panic: %v\n%s\n", r, debug.Stack())
			}
		}
	}()

	return f()
}

// WrapCall is one recorded Crypto.WrapKey call: its arguments and options and the ephemeral key of its result.
type WrapCall struct {
	APU, APV, Tag []byte
	HasSender     bool
	EPKGiven      bool
	Alg           string
	EPKX          []byte
	// the dataflow of the call: the content key handed in, the recipient public key handed in, the public part of the
	// sender key handle option, and the apu / apv of the RESULT (what the key derivation really used)
	CEK            []byte
	RcptX, RcptY   []byte
	SenderX        []byte
	OutAPU, OutAPV []byte
	OK             bool
}

// RecCrypto wraps the real crypto service and records the key-wrap calls of the packers.
type RecCrypto struct {
	cryptoapi.Crypto
	Wraps   []WrapCall
	Unwraps []UnwrapCall
}

// UnwrapCall is one recorded Crypto.UnwrapKey call.
type UnwrapCall struct {
	Alg       string
	HasSender bool
	OK        bool
}

// UnwrapKey records and forwards.
func (r *RecCrypto) UnwrapKey(recWK *cryptoapi.RecipientWrappedKey, kh interface{},
	opts ...cryptoapi.WrapKeyOpts) ([]byte, error) {
	o := cryptoapi.NewOpt()
	for _, f := range opts {
		f(o)
	}

	c := UnwrapCall{HasSender: o.SenderKey() != nil}
	if recWK != nil {
		c.Alg = recWK.Alg
	}

	key, err := r.Crypto.UnwrapKey(recWK, kh, opts...)
	c.OK = err == nil
	r.Unwraps = append(r.Unwraps, c)

	return key, err
}

// CoqAttempts prints the recorded UnwrapKey calls as a list of the model's attempt records.
func (r *RecCrypto) CoqAttempts() string {
	items := make([]string, 0, len(r.Unwraps))
	for _, c := range r.Unwraps {
		b := func(x bool) string {
			if x {
				return "true"
			}

			return "false"
		}
		items = append(items, "mkatt "+b(strings.Contains(strings.ToUpper(c.Alg), "1PU"))+" "+b(c.HasSender)+" "+b(c.OK))
	}

	return "(Some [" + strings.Join(items, "; ") + "])"
}

// KeyByX finds the world's key with these public X bytes (nil: none).
func (w *World) KeyByX(x []byte) *Key {
	for _, k := range w.Keys {
		if k.Pub != nil && len(x) > 0 && string(k.Pub.X) == string(x) {
			return k
		}
	}

	return nil
}

// WrapKey records and forwards.
func (r *RecCrypto) WrapKey(cek, apu, apv []byte, recPubKey *cryptoapi.PublicKey,
	opts ...cryptoapi.WrapKeyOpts) (*cryptoapi.RecipientWrappedKey, error) {
	o := cryptoapi.NewOpt()
	for _, f := range opts {
		f(o)
	}

	wk, err := r.Crypto.WrapKey(cek, apu, apv, recPubKey, opts...)

	c := WrapCall{APU: append([]byte{}, apu...), APV: append([]byte{}, apv...), Tag: append([]byte{}, o.Tag()...),
		HasSender: o.SenderKey() != nil, EPKGiven: o.EPK() != nil, CEK: append([]byte{}, cek...), OK: err == nil}
	if recPubKey != nil {
		c.RcptX, c.RcptY = append([]byte{}, recPubKey.X...), append([]byte{}, recPubKey.Y...)
	}

	if kh, ok := o.SenderKey().(*keyset.Handle); ok && kh != nil {
		if pk, e := keyio.ExtractPrimaryPublicKey(kh); e == nil {
			c.SenderX = append([]byte{}, pk.X...)
		}
	}

	if err == nil {
		c.Alg, c.EPKX = wk.Alg, append([]byte{}, wk.EPK.X...)
		c.OutAPU, c.OutAPV = append([]byte{}, wk.APU...), append([]byte{}, wk.APV...)
	}

	r.Wraps = append(r.Wraps, c)

	return wk, err
}
