package c01env

import (
	"encoding/base64"
	"encoding/json"
	"strings"
)

// RawRec is one recipient entry of a serialized JWE, header kept as raw JSON.
type RawRec struct {
	Header       json.RawMessage `json:"header,omitempty"`
	EncryptedKey string          `json:"encrypted_key,omitempty"`
}

// RawJWE is a serialized JWE (compact or JSON) at the level an attacker on the wire sees it: base64 strings.
type RawJWE struct {
	Compact     bool            `json:"-"`
	Protected   string          `json:"protected,omitempty"`
	Unprotected json.RawMessage `json:"unprotected,omitempty"`
	Recipients  []RawRec        `json:"recipients,omitempty"`
	AAD         string          `json:"aad,omitempty"`
	IV          string          `json:"iv,omitempty"`
	Ciphertext  string          `json:"ciphertext,omitempty"`
	Tag         string          `json:"tag,omitempty"`
}

// ParseRawJWE splits a serialized JWE.
func ParseRawJWE(b []byte) (*RawJWE, error) {
	s := string(b)
	if !strings.HasPrefix(s, "{") {
		p := strings.Split(s, ".")
		for len(p) < 5 {
			p = append(p, "")
		}

		return &RawJWE{Compact: true, Protected: p[0], Recipients: []RawRec{{EncryptedKey: p[1]}}, IV: p[2],
			Ciphertext: p[3], Tag: p[4]}, nil
	}

	r := &RawJWE{}

	return r, json.Unmarshal(b, r)
}

// Bytes serializes again (compact stays compact).
func (r *RawJWE) Bytes() []byte {
	if r.Compact {
		ek := ""
		if len(r.Recipients) > 0 {
			ek = r.Recipients[0].EncryptedKey
		}

		return []byte(strings.Join([]string{r.Protected, ek, r.IV, r.Ciphertext, r.Tag}, "."))
	}

	b, err := json.Marshal(r)
	if err != nil {
		panic(err)
	}

	return b
}

// Clone copies.
func (r *RawJWE) Clone() *RawJWE {
	c := *r
	c.Recipients = append([]RawRec{}, r.Recipients...)

	return &c
}

// ProtectedMap decodes the protected header.
func (r *RawJWE) ProtectedMap() map[string]interface{} {
	b, err := base64.RawURLEncoding.DecodeString(r.Protected)
	if err != nil {
		return nil
	}

	m := map[string]interface{}{}
	if json.Unmarshal(b, &m) != nil {
		return nil
	}

	return m
}

// SetProtectedMap re-serializes the protected header from a map.
func (r *RawJWE) SetProtectedMap(m map[string]interface{}) {
	b, err := json.Marshal(m)
	if err != nil {
		panic(err)
	}

	r.Protected = base64.RawURLEncoding.EncodeToString(b)
}

// RawLegacy is a serialized legacy envelope.
type RawLegacy struct {
	Protected  string `json:"protected,omitempty"`
	IV         string `json:"iv,omitempty"`
	CipherText string `json:"ciphertext,omitempty"`
	Tag        string `json:"tag,omitempty"`
}

// LegacyRec is a legacy recipient entry.
type LegacyRec struct {
	EncryptedKey string `json:"encrypted_key,omitempty"`
	Header       struct {
		KID    string `json:"kid,omitempty"`
		Sender string `json:"sender,omitempty"`
		IV     string `json:"iv,omitempty"`
	} `json:"header,omitempty"`
}

// LegacyProt is the legacy protected header.
type LegacyProt struct {
	Enc        string      `json:"enc,omitempty"`
	Typ        string      `json:"typ,omitempty"`
	Alg        string      `json:"alg,omitempty"`
	Recipients []LegacyRec `json:"recipients,omitempty"`
}

// ParseRawLegacy parses a legacy envelope and its protected header.
func ParseRawLegacy(b []byte) (*RawLegacy, *LegacyProt, error) {
	r := &RawLegacy{}
	if err := json.Unmarshal(b, r); err != nil {
		return nil, nil, err
	}

	pb, err := base64.URLEncoding.DecodeString(r.Protected)
	if err != nil {
		return r, nil, err
	}

	p := &LegacyProt{}

	return r, p, json.Unmarshal(pb, p)
}

// Bytes serializes.
func (r *RawLegacy) Bytes() []byte {
	b, err := json.Marshal(r)
	if err != nil {
		panic(err)
	}

	return b
}

// SetProt re-serializes the protected header.
func (r *RawLegacy) SetProt(p *LegacyProt) {
	b, err := json.Marshal(p)
	if err != nil {
		panic(err)
	}

	r.Protected = base64.URLEncoding.EncodeToString(b)
}
