// c13gen: translator for the lock-discipline table of C13 (coq/gen/Gen_C13.v).
//
// It parses the anchored source files with go/ast (no type checker: resolution is by receiver, struct field names
// and package-level names of the same package) and emits, per function/method:
//   - every access to a struct field or package-level variable (read / write) with the mutexes held at that point,
//   - every call of another function/method of the same package with the mutexes held at the call,
//   - every call made THROUGH a field (an injected store, provider, cache: the underlying calls of a wrapper),
//   - every mutex acquisition with the mutexes already held (lock order).
//
// Recognised: x.Lock()/x.RLock() ... x.Unlock()/x.RUnlock() regions, `defer x.Unlock()`, embedded mutexes,
// package-level mutexes, sync.Once.Do(func) (the closure runs exclusively; code after Do is ordered after it).
// Lock state changes inside a nested block do not leak out of the block (an early `Unlock(); return` branch).
package main

import (
	"fmt"
	"go/ast"
	"go/parser"
	"go/token"
	"go/types"
	"os"
	"path/filepath"
	"sort"
	"strings"
)

//nolint:gochecknoglobals
var anchored = []string{
	"component/storageutil/mem/mem.go",
	"component/storageutil/cachedstore/cachedstore.go",
	"component/storageutil/batchedstore/batchedstore.go",
	"component/storageutil/formattedstore/formattedstore.go",
	"component/kmscrypto/kms/localkms/localkms.go",
	"component/kmscrypto/kms/localkms/localkms_writer.go",
	"component/kmscrypto/kms/localkms/privkey_import.go",
	"pkg/didcomm/protocol/messagepickup/service.go",
	"pkg/didcomm/protocol/mediator/service.go",
	"pkg/didcomm/transport/ws/pool.go",
	"pkg/wallet/session.go",
	"pkg/didcomm/common/service/action.go",
	"pkg/didcomm/common/service/message.go",
	"component/storage/leveldb/leveldb.go",
	"pkg/store/did/store.go",
	"pkg/wallet/contents.go",
}

type held struct {
	lock string
	excl bool
}

type access struct {
	field string
	write bool
	held  []held
}

type call struct {
	callee string
	held   []held
}

type scall struct {
	field, method string
	held          []held
}

type acq struct {
	lock string
	excl bool
	loop bool
	held []held
}

type fn struct {
	name     string
	exported bool
	accs     []access
	calls    []call
	scalls   []scall
	acqs     []acq
}

type pkgInfo struct {
	name    string
	structs map[string]map[string]string // type -> field -> type expr
	byField map[string][]string          // field -> types
	funcs   map[string]bool              // package-level function names
	methods map[string]bool              // Type.method
	globals map[string]string            // package-level var -> type expr ("" unknown)
	rets    map[string]string            // function / Type.method -> first result type (without *), when a struct of this package
	// field selections resolved by the type checker (go/types over the package's anchored files, imports stubbed):
	// selector expression -> "pkg.Type.field" for fields of named struct types of this package
	tsel map[*ast.SelectorExpr]string
}

// stubImporter satisfies imports with empty packages: everything declared IN the package (receivers, struct fields,
// embedded structs, local variables of package types, results of package functions) is resolved by the type checker;
// expressions of foreign types stay unresolved (errors are ignored) and fall back to the syntactic rules.
type stubImporter struct{ pkgs map[string]*types.Package }

func (s *stubImporter) Import(path string) (*types.Package, error) {
	if p, ok := s.pkgs[path]; ok {
		return p, nil
	}

	name := path
	if i := strings.LastIndex(name, "/"); i >= 0 {
		name = name[i+1:]
	}

	p := types.NewPackage(path, name)
	p.MarkComplete()
	s.pkgs[path] = p

	return p, nil
}

var tcStats = struct{ typed, syntactic, disagree int }{} //nolint:gochecknoglobals

func typeCheck(fset *token.FileSet, name string, files []*ast.File) map[*ast.SelectorExpr]string {
	info := &types.Info{Selections: map[*ast.SelectorExpr]*types.Selection{}}
	conf := types.Config{Importer: &stubImporter{pkgs: map[string]*types.Package{}}, Error: func(error) {}, DisableUnusedImportCheck: true}
	pkg, _ := conf.Check(name, fset, files, info)
	res := map[*ast.SelectorExpr]string{}

	if pkg == nil {
		return res
	}

	for sel, s := range info.Selections {
		if s.Kind() != types.FieldVal {
			continue
		}

		v, ok := s.Obj().(*types.Var)
		if !ok || !v.IsField() || v.Pkg() != pkg {
			continue
		}

		// the struct that declares the field: walk the selection path from the receiver type
		t := s.Recv()
		idx := s.Index()

		var owner string

		for k, i := range idx {
			if p, ok := t.(*types.Pointer); ok {
				t = p.Elem()
			}

			named, _ := t.(*types.Named)

			st, ok := t.Underlying().(*types.Struct)
			if !ok {
				owner = ""

				break
			}

			if k == len(idx)-1 {
				if named != nil && named.Obj().Pkg() == pkg {
					owner = named.Obj().Name()
				}
			}

			t = st.Field(i).Type()
		}

		if owner != "" {
			res[sel] = name + "." + owner + "." + v.Name()
		}
	}

	return res
}

func exprStr(e ast.Expr) string {
	switch x := e.(type) {
	case *ast.Ident:
		return x.Name
	case *ast.SelectorExpr:
		return exprStr(x.X) + "." + x.Sel.Name
	case *ast.StarExpr:
		return "*" + exprStr(x.X)
	case *ast.MapType:
		return "map[" + exprStr(x.Key) + "]" + exprStr(x.Value)
	case *ast.ArrayType:
		return "[]" + exprStr(x.Elt)
	case *ast.ChanType:
		return "chan " + exprStr(x.Value)
	case *ast.FuncType:
		return "func"
	case *ast.InterfaceType:
		return "interface"
	}

	return "?"
}

func isMutexType(t string) bool {
	t = strings.TrimPrefix(t, "*")

	return t == "sync.Mutex" || t == "sync.RWMutex"
}

type walker struct {
	loop  int
	local map[string]string // local variable -> struct type of this package (from `x := f(...)` with a known result type)
	p     *pkgInfo
	recv  string // receiver identifier
	rtype string // receiver type
	f     *fn
}

func copyHeld(h []held) []held { return append([]held{}, h...) }

// lockName resolves the expression a Lock/Unlock method is called on.
func (w *walker) lockName(x ast.Expr) string {
	switch e := x.(type) {
	case *ast.Ident:
		if e.Name == w.recv {
			for f, t := range w.p.structs[w.rtype] {
				if isMutexType(t) && (f == "RWMutex" || f == "Mutex") {
					return w.p.name + "." + w.rtype + "." + f
				}
			}
		}

		if t, ok := w.p.globals[e.Name]; ok && (isMutexType(t) || t == "sync.Once") {
			return w.p.name + "." + e.Name
		}
	case *ast.SelectorExpr:
		if fld := w.fieldOf(e); fld != "" {
			return fld
		}
	}

	return ""
}

// fieldOf resolves x.f to "pkg.Type.f" when f is a field of a struct of this package.
func (w *walker) fieldOf(e *ast.SelectorExpr) string {
	syn := w.fieldOfSyntactic(e)

	if t, ok := w.p.tsel[e]; ok {
		tcStats.typed++

		if syn != "" && syn != t {
			tcStats.disagree++

			fmt.Fprintf(os.Stderr, "c13gen: %s: syntactic resolution %s, type checker %s\n", exprStr(e), syn, t)
		}

		return t
	}

	if syn != "" {
		tcStats.syntactic++
	}

	return syn
}

func (w *walker) fieldOfSyntactic(e *ast.SelectorExpr) string {
	f := e.Sel.Name
	if id, ok := e.X.(*ast.Ident); ok && id.Name == w.recv {
		if _, ok := w.p.structs[w.rtype][f]; ok {
			return w.p.name + "." + w.rtype + "." + f
		}

		return ""
	}

	if id, ok := e.X.(*ast.Ident); ok {
		// a package qualifier (sync.Mutex, spi.ErrX) is not a field access
		if _, isGlobal := w.p.globals[id.Name]; !isGlobal && id.Obj == nil {
			return ""
		}
	}

	ts := w.p.byField[f]
	if len(ts) == 1 {
		return w.p.name + "." + ts[0] + "." + f
	}

	return ""
}

func (w *walker) fieldType(full string) string {
	parts := strings.Split(full, ".")
	if len(parts) != 3 {
		return ""
	}

	return w.p.structs[parts[1]][parts[2]]
}

func (w *walker) exprs(n ast.Node, h []held, lhs map[ast.Expr]bool) {
	if n == nil {
		return
	}

	ast.Inspect(n, func(x ast.Node) bool {
		switch e := x.(type) {
		case *ast.FuncLit:
			w.block(e.Body.List, copyHeld(h))

			return false
		case *ast.CallExpr:
			w.call(e, h)
		case *ast.SelectorExpr:
			if fld := w.fieldOf(e); fld != "" && !isMutexType(w.fieldType(fld)) && w.fieldType(fld) != "sync.Once" {
				w.f.accs = append(w.f.accs, access{field: fld, write: lhs[e], held: copyHeld(h)})
			}
		case *ast.Ident:
			if t, ok := w.p.globals[e.Name]; ok && e.Obj != nil && e.Obj.Kind == ast.Var && !isMutexType(t) && t != "sync.Once" {
				w.f.accs = append(w.f.accs, access{field: w.p.name + "." + e.Name, write: lhs[e], held: copyHeld(h)})
			}
		}

		return true
	})
}

func (w *walker) call(c *ast.CallExpr, h []held) {
	switch fun := c.Fun.(type) {
	case *ast.Ident:
		if w.p.funcs[fun.Name] {
			w.f.calls = append(w.f.calls, call{callee: w.p.name + "." + fun.Name, held: copyHeld(h)})
		}
	case *ast.SelectorExpr:
		if id, ok := fun.X.(*ast.Ident); ok && id.Name == w.recv && w.p.methods[w.rtype+"."+fun.Sel.Name] {
			w.f.calls = append(w.f.calls, call{callee: w.p.name + "." + w.rtype + "." + fun.Sel.Name, held: copyHeld(h)})

			return
		}

		// a method call on a local variable whose type is known from `x := f(...)`
		if id, ok := fun.X.(*ast.Ident); ok && id.Name != w.recv {
			if t := w.local[id.Name]; t != "" && w.p.methods[t+"."+fun.Sel.Name] {
				w.f.calls = append(w.f.calls, call{callee: w.p.name + "." + t + "." + fun.Sel.Name, held: copyHeld(h)})

				return
			}
		}

		// a method call on a local variable: resolved when exactly one type of the package has a method of that name
		// (unexported method names only: an exported name like Close or Write is usually a method of a foreign type)
		if id, ok := fun.X.(*ast.Ident); ok && id.Obj != nil && id.Name != w.recv && !ast.IsExported(fun.Sel.Name) {
			var owners []string

			for m := range w.p.methods {
				if strings.HasSuffix(m, "."+fun.Sel.Name) {
					owners = append(owners, m)
				}
			}

			if len(owners) == 1 {
				w.f.calls = append(w.f.calls, call{callee: w.p.name + "." + owners[0], held: copyHeld(h)})

				return
			}
		}

		// a call through a field: recv.field.Method(...) or recv.field(...)
		if inner, ok := fun.X.(*ast.SelectorExpr); ok {
			if fld := w.fieldOf(inner); fld != "" && !isMutexType(w.fieldType(fld)) && w.fieldType(fld) != "sync.Once" {
				w.f.scalls = append(w.f.scalls, scall{field: fld, method: fun.Sel.Name, held: copyHeld(h)})
			}
		} else if fld := w.fieldOf(fun); fld != "" && w.fieldType(fld) == "closer" {
			w.f.scalls = append(w.f.scalls, scall{field: fld, method: "()", held: copyHeld(h)})
		}
	}
}

// resultType: the struct type (of this package) a call returns, when the callee is a function / method of the package.
func (w *walker) resultType(c *ast.CallExpr) string {
	name := ""

	switch f := c.Fun.(type) {
	case *ast.Ident:
		name = f.Name
	case *ast.SelectorExpr:
		if id, ok := f.X.(*ast.Ident); ok && id.Name == w.recv {
			name = w.rtype + "." + f.Sel.Name
		}
	}

	t := w.p.rets[name]
	if _, ok := w.p.structs[t]; ok {
		return t
	}

	return ""
}

func lockCall(s ast.Stmt) (*ast.CallExpr, bool) {
	switch x := s.(type) {
	case *ast.ExprStmt:
		c, ok := x.X.(*ast.CallExpr)

		return c, ok
	case *ast.DeferStmt:
		return x.Call, true
	}

	return nil, false
}

func remove(h []held, l string) []held {
	var r []held

	for _, x := range h {
		if x.lock != l {
			r = append(r, x)
		}
	}

	return r
}

// block walks the statements with the locks in h held. It returns the locks that were acquired in this block (or
// leaked into it from a nested block) and whose release is deferred: on the path through the block they stay held
// until the function returns, so the statements AFTER the block run with them conditionally held (name + "?").
func (w *walker) block(stmts []ast.Stmt, h []held) []held {
	acquired := map[string]bool{}
	deferred := map[string]bool{}
	excls := map[string]bool{}

	var leakOut []held

	nested := func(ss []ast.Stmt, hh []held) {
		for _, l := range w.block(ss, hh) {
			name := l.lock
			if !strings.HasSuffix(name, "?") {
				name += "?"
			}

			h = append(copyHeld(h), held{name, l.excl})
			leakOut = append(leakOut, held{name, l.excl})
		}
	}

	for _, s := range stmts {
		if c, ok := lockCall(s); ok {
			if sel, ok := c.Fun.(*ast.SelectorExpr); ok {
				_, isDefer := s.(*ast.DeferStmt)

				switch sel.Sel.Name {
				case "Lock", "RLock":
					if l := w.lockName(sel.X); l != "" && !isDefer {
						w.f.acqs = append(w.f.acqs, acq{lock: l, excl: sel.Sel.Name == "Lock", loop: w.loop > 0, held: copyHeld(h)})
						h = append(copyHeld(h), held{l, sel.Sel.Name == "Lock"})
						acquired[l], excls[l] = true, sel.Sel.Name == "Lock"

						continue
					}
				case "Unlock", "RUnlock":
					if l := w.lockName(sel.X); l != "" {
						if !isDefer {
							h = remove(h, l)
							delete(acquired, l)
						} else {
							deferred[l] = true
						}

						continue
					}
				case "Do":
					if l := w.lockName(sel.X); l != "" && len(c.Args) == 1 {
						if fl, ok := c.Args[0].(*ast.FuncLit); ok {
							w.block(fl.Body.List, append(copyHeld(h), held{"once:" + l, true}))
							h = append(copyHeld(h), held{"once:" + l, false})

							continue
						}
					}
				}
			}
		}

		switch x := s.(type) {
		case *ast.AssignStmt:
			if len(x.Rhs) == 1 && len(x.Lhs) >= 1 {
				if c, ok := x.Rhs[0].(*ast.CallExpr); ok {
					if id, ok := x.Lhs[0].(*ast.Ident); ok {
						if t := w.resultType(c); t != "" {
							w.local[id.Name] = t
						}
					}
				}
			}

			lhs := map[ast.Expr]bool{}

			for _, l := range x.Lhs {
				markLHS(l, lhs)
			}

			for _, l := range x.Lhs {
				w.exprs(l, h, lhs)
			}

			for _, r := range x.Rhs {
				w.exprs(r, h, nil)
			}
		case *ast.IncDecStmt:
			lhs := map[ast.Expr]bool{}
			markLHS(x.X, lhs)
			w.exprs(x.X, h, lhs)
		case *ast.ExprStmt:
			if c, ok := x.X.(*ast.CallExpr); ok {
				if id, ok := c.Fun.(*ast.Ident); ok && id.Name == "delete" && len(c.Args) == 2 {
					lhs := map[ast.Expr]bool{}
					markLHS(c.Args[0], lhs)
					w.exprs(c.Args[0], h, lhs)
					w.exprs(c.Args[1], h, nil)

					continue
				}
			}

			w.exprs(x.X, h, nil)
		case *ast.BlockStmt:
			nested(x.List, copyHeld(h))
		case *ast.IfStmt:
			if x.Init != nil {
				nested([]ast.Stmt{x.Init}, copyHeld(h))
			}

			w.exprs(x.Cond, h, nil)
			nested(x.Body.List, copyHeld(h))

			if x.Else != nil {
				nested([]ast.Stmt{x.Else}, copyHeld(h))
			}
		case *ast.ForStmt:
			if x.Init != nil {
				nested([]ast.Stmt{x.Init}, copyHeld(h))
			}

			w.exprs(x.Cond, h, nil)
			w.loop++
			nested(x.Body.List, copyHeld(h))
			w.loop--
		case *ast.RangeStmt:
			w.exprs(x.X, h, nil)
			w.loop++
			nested(x.Body.List, copyHeld(h))
			w.loop--
		case *ast.SwitchStmt:
			if x.Init != nil {
				nested([]ast.Stmt{x.Init}, copyHeld(h))
			}

			w.exprs(x.Tag, h, nil)
			nested(x.Body.List, copyHeld(h))
		case *ast.TypeSwitchStmt:
			nested(x.Body.List, copyHeld(h))
		case *ast.CaseClause:
			for _, e := range x.List {
				w.exprs(e, h, nil)
			}

			nested(x.Body, copyHeld(h))
		case *ast.SelectStmt:
			nested(x.Body.List, copyHeld(h))
		case *ast.CommClause:
			nested(x.Body, copyHeld(h))
		case *ast.GoStmt:
			w.exprs(x.Call, nil, nil) // a new goroutine holds nothing
		default:
			w.exprs(s, h, nil)
		}
	}

	for l := range acquired {
		if deferred[l] {
			leakOut = append(leakOut, held{l, excls[l]})
		}
	}

	sort.Slice(leakOut, func(i, j int) bool { return leakOut[i].lock < leakOut[j].lock })

	return leakOut
}

func markLHS(e ast.Expr, lhs map[ast.Expr]bool) {
	switch x := e.(type) {
	case *ast.SelectorExpr, *ast.Ident:
		lhs[x] = true
	case *ast.IndexExpr:
		markLHS(x.X, lhs)
	case *ast.StarExpr:
		markLHS(x.X, lhs)
	}
}

func coqStr(s string) string { return "\"" + s + "\"" }

func coqHeld(h []held) string {
	it := make([]string, len(h))
	for i, x := range h {
		it[i] = fmt.Sprintf("(%s, %v)", coqStr(x.lock), x.excl)
	}

	return "[" + strings.Join(it, "; ") + "]"
}

func main() {
	if len(os.Args) < 3 {
		fmt.Fprintln(os.Stderr, "usage: c13gen <repo> <out>")
		os.Exit(2)
	}

	repo, out := os.Args[1], os.Args[2]
	fset := token.NewFileSet()

	byDir := map[string][]string{}
	for _, f := range anchored {
		byDir[filepath.Dir(f)] = append(byDir[filepath.Dir(f)], f)
	}

	dirs := make([]string, 0, len(byDir))
	for d := range byDir {
		dirs = append(dirs, d)
	}

	sort.Strings(dirs)

	var fns []*fn

	var sends []string // channel sends: function, channel expression, inside a select with an alternative?

	var requesters []string // rendezvous requesters: function, registers its channel before it sends the request?

	mutable := map[string]bool{}

	for _, d := range dirs {
		var files []*ast.File

		for _, f := range byDir[d] {
			af, err := parser.ParseFile(fset, filepath.Join(repo, f), nil, 0)
			if err != nil {
				fmt.Fprintln(os.Stderr, "parse:", err)
				os.Exit(1)
			}

			files = append(files, af)
		}

		p := &pkgInfo{name: files[0].Name.Name, structs: map[string]map[string]string{}, byField: map[string][]string{},
			funcs: map[string]bool{}, methods: map[string]bool{}, globals: map[string]string{}, rets: map[string]string{}}

		for _, af := range files {
			for _, decl := range af.Decls {
				switch x := decl.(type) {
				case *ast.GenDecl:
					for _, sp := range x.Specs {
						switch s := sp.(type) {
						case *ast.TypeSpec:
							if st, ok := s.Type.(*ast.StructType); ok {
								fs := map[string]string{}

								for _, fl := range st.Fields.List {
									t := exprStr(fl.Type)
									if len(fl.Names) == 0 {
										fs[strings.TrimPrefix(strings.TrimPrefix(t, "*"), "sync.")] = t
									}

									for _, n := range fl.Names {
										fs[n.Name] = t
									}
								}

								p.structs[s.Name.Name] = fs
							}
						case *ast.ValueSpec:
							if x.Tok == token.VAR {
								for i, n := range s.Names {
									t := ""
									if s.Type != nil {
										t = exprStr(s.Type)
									} else if i < len(s.Values) {
										if c, ok := s.Values[i].(*ast.CallExpr); ok && len(c.Args) > 0 {
											if id, ok := c.Fun.(*ast.Ident); ok && id.Name == "make" {
												t = exprStr(c.Args[0])
											}
										}
									}

									// only variables that can change: maps, slices, pointers, mutexes, once
									if strings.HasPrefix(t, "map[") || strings.HasPrefix(t, "[]") || strings.HasPrefix(t, "*") || isMutexType(t) || t == "sync.Once" {
										p.globals[n.Name] = t
									}
								}
							}
						}
					}
				case *ast.FuncDecl:
					fname := x.Name.Name
					if x.Recv == nil {
						p.funcs[x.Name.Name] = true
					} else {
						fname = strings.TrimPrefix(exprStr(x.Recv.List[0].Type), "*") + "." + x.Name.Name
						p.methods[fname] = true
					}

					if x.Type.Results != nil && len(x.Type.Results.List) > 0 {
						p.rets[fname] = strings.TrimPrefix(exprStr(x.Type.Results.List[0].Type), "*")
					}
				}
			}
		}

		for t, fs := range p.structs {
			for f := range fs {
				p.byField[f] = append(p.byField[f], t)
			}
		}

		p.tsel = typeCheck(fset, p.name, files)

		for _, af := range files {
			for _, decl := range af.Decls {
				fd, ok := decl.(*ast.FuncDecl)
				if !ok || fd.Body == nil {
					continue
				}

				w := &walker{p: p, local: map[string]string{}}
				name := p.name + "." + fd.Name.Name

				if fd.Recv != nil {
					w.rtype = strings.TrimPrefix(exprStr(fd.Recv.List[0].Type), "*")
					if len(fd.Recv.List[0].Names) > 0 {
						w.recv = fd.Recv.List[0].Names[0].Name
					}

					name = p.name + "." + w.rtype + "." + fd.Name.Name
				}

				w.f = &fn{name: name, exported: ast.IsExported(fd.Name.Name)}
				w.block(fd.Body.List, nil)

				// channel sends of the function (closures included): a send that is the communication of a select
				// clause with at least one other clause can be abandoned; a plain send waits for a receiver for good
				inSelect := map[ast.Stmt]bool{}

				ast.Inspect(fd.Body, func(n ast.Node) bool {
					if sel, ok := n.(*ast.SelectStmt); ok && len(sel.Body.List) >= 2 {
						for _, cl := range sel.Body.List {
							if cc, ok := cl.(*ast.CommClause); ok && cc.Comm != nil {
								inSelect[cc.Comm] = true
							}
						}
					}

					return true
				})

				// requesters of a rendezvous: the function makes a channel, registers it (a call of a set...Ch method of
				// the package with that channel) and sends a request through the outbound dispatcher: is the registration
				// textually before the send (a response may arrive as soon as the request is out)?
				var regPos, sendPos token.Pos

				ast.Inspect(fd.Body, func(n ast.Node) bool {
					c, ok := n.(*ast.CallExpr)
					if !ok {
						return true
					}

					if sel, ok := c.Fun.(*ast.SelectorExpr); ok {
						nm := sel.Sel.Name
						if strings.HasPrefix(nm, "set") && strings.HasSuffix(nm, "Ch") && len(c.Args) == 2 && exprStr(c.Args[1]) != "nil" && regPos == 0 {
							regPos = c.Pos()
						}

						if nm == "SendToDID" && sendPos == 0 {
							sendPos = c.Pos()
						}
					}

					return true
				})

				if regPos != 0 && sendPos != 0 {
					requesters = append(requesters, fmt.Sprintf("(%s, %v)", coqStr(name), regPos < sendPos))
				}

				ast.Inspect(fd.Body, func(n ast.Node) bool {
					if snd, ok := n.(*ast.SendStmt); ok {
						sends = append(sends, fmt.Sprintf("(%s, %s, %v)", coqStr(name), coqStr(exprStr(snd.Chan)), inSelect[snd]))
					}

					return true
				})

				// constructors (plain functions New…/new…) initialise an object nobody else can reach yet
				if fd.Recv == nil && (strings.HasPrefix(fd.Name.Name, "New") || strings.HasPrefix(fd.Name.Name, "new")) {
					w.f.accs, w.f.calls = nil, nil
				}
				fns = append(fns, w.f)

				// constructors (plain functions) initialise; only methods and functions with locks make a field "mutable"
				for _, a := range w.f.accs {
					if a.write && (fd.Recv != nil || len(w.f.acqs) > 0) {
						mutable[a.field] = true
					}
				}
			}
		}
	}

	sort.Slice(fns, func(i, j int) bool { return fns[i].name < fns[j].name })

	var b strings.Builder

	b.WriteString("(* GENERATED by harness/c13gen from the anchored files of /repo on every run of bin/check C13 -- do not edit. *)\n")
	b.WriteString("From Coq Require Import List String Bool.\nImport ListNotations.\nOpen Scope string_scope.\n\n")
	b.WriteString("Record acc := mkAcc { a_field : string; a_write : bool; a_held : list (string * bool) }.\n")
	b.WriteString("Record fcall := mkCall { c_callee : string; c_held : list (string * bool) }.\n")
	b.WriteString("Record scall := mkSCall { s_field : string; s_method : string; s_held : list (string * bool) }.\n")
	b.WriteString("Record acq := mkAcq { q_lock : string; q_excl : bool; q_loop : bool; q_held : list (string * bool) }.\n")
	b.WriteString("Record meth := mkMeth { m_name : string; m_exported : bool; m_accs : list acc; m_calls : list fcall; m_scalls : list scall; m_acqs : list acq }.\n\n")

	ms := make([]string, 0, len(mutable))
	for m := range mutable {
		ms = append(ms, m)
	}

	sort.Strings(ms)

	b.WriteString("(* fields / package variables written by some method (constructors initialise, they do not count) *)\n")
	b.WriteString("Definition mutable_fields : list string := [\n")

	for i, m := range ms {
		sep := ";"
		if i == len(ms)-1 {
			sep = ""
		}

		b.WriteString("  " + coqStr(m) + sep + "\n")
	}

	b.WriteString("].\n\nDefinition table : list meth := [\n")

	for i, f := range fns {
		var accs, calls, scalls, acqs []string

		seen := map[string]bool{}

		for _, a := range f.accs {
			if !mutable[a.field] {
				continue
			}

			s := fmt.Sprintf("mkAcc %s %v %s", coqStr(a.field), a.write, coqHeld(a.held))
			if !seen[s] {
				seen[s] = true

				accs = append(accs, s)
			}
		}

		for _, c := range f.calls {
			calls = append(calls, fmt.Sprintf("mkCall %s %s", coqStr(c.callee), coqHeld(c.held)))
		}

		for _, c := range f.scalls {
			scalls = append(scalls, fmt.Sprintf("mkSCall %s %s %s", coqStr(c.field), coqStr(c.method), coqHeld(c.held)))
		}

		for _, q := range f.acqs {
			acqs = append(acqs, fmt.Sprintf("mkAcq %s %v %v %s", coqStr(q.lock), q.excl, q.loop, coqHeld(q.held)))
		}

		sep := ";"
		if i == len(fns)-1 {
			sep = ""
		}

		fmt.Fprintf(&b, "  mkMeth %s %v\n    [%s]\n    [%s]\n    [%s]\n    [%s]%s\n", coqStr(f.name), f.exported,
			strings.Join(accs, "; "), strings.Join(calls, "; "), strings.Join(scalls, "; "), strings.Join(acqs, "; "), sep)
	}

	b.WriteString("].\n\n(* every channel send statement of the anchored files: function, channel, inside a select with an alternative *)\n")
	b.WriteString("Definition chan_sends : list (string * string * bool) := [\n  " + strings.Join(sends, ";\n  ") + "\n].\n")

	b.WriteString("\n(* functions that register a response channel and send a request: is the registration before the send? *)\n")
	b.WriteString("Definition requesters : list (string * bool) := [\n  " + strings.Join(requesters, ";\n  ") + "\n].\n")

	fmt.Fprintf(&b, "\n(* field selections resolved by the type checker (go/types, imports stubbed) / by the syntactic rules only *)\nDefinition resolution_stats : list nat := [%d; %d].\n",
		tcStats.typed, tcStats.syntactic)

	if tcStats.disagree > 0 {
		fmt.Fprintf(os.Stderr, "c13gen: %d field selections are resolved differently by the type checker and by the syntactic rules\n", tcStats.disagree)
		os.Exit(1)
	}

	if err := os.WriteFile(out, []byte(b.String()), 0o600); err != nil {
		fmt.Fprintln(os.Stderr, err)
		os.Exit(1)
	}
}
