// c05: runs operation histories on the real localkms with the real local secret lock (raw, HKDF-protected and
// PBKDF2-protected master key) over a recording store and a recording secret-lock wrapper; decrypts, with the keys
// the harness owns, every value that was written and rebuilds it as a symbolic term for the Coq model (coq/C05);
// scans every written value and every API result for secret bytes; reopens with wrong master key / passphrase.
package main

import (
	"bytes"
	"crypto/aes"
	"crypto/cipher"
	"crypto/ecdsa"
	"crypto/ed25519"
	"crypto/elliptic"
	"crypto/sha256"
	"crypto/sha512"
	"encoding/base64"
	"encoding/binary"
	"encoding/hex"
	"encoding/json"
	"fmt"
	"hash/adler32"
	"hash/crc32"
	"hash/fnv"
	"io"
	"math/big"
	"os"
	"path/filepath"
	"sort"
	"strings"

	"github.com/btcsuite/btcd/btcec"
	"github.com/btcsuite/btcutil/base58"
	"github.com/golang/protobuf/proto"
	_ "github.com/google/tink/go/aead" // registers the AES-GCM key manager used for the DEK
	"github.com/google/tink/go/core/registry"
	"github.com/google/tink/go/insecurecleartextkeyset"
	"github.com/google/tink/go/keyset"
	tinkpb "github.com/google/tink/go/proto/tink_go_proto"
	"github.com/google/tink/go/tink"
	"golang.org/x/crypto/hkdf"
	"golang.org/x/crypto/nacl/box"
	"golang.org/x/crypto/pbkdf2"
	"google.golang.org/protobuf/encoding/protowire"

	"github.com/hyperledger/aries-framework-go/component/kmscrypto/crypto/tinkcrypto"
	compkms "github.com/hyperledger/aries-framework-go/component/kmscrypto/kms"
	"github.com/hyperledger/aries-framework-go/component/kmscrypto/kms/localkms"
	"github.com/hyperledger/aries-framework-go/component/kmscrypto/secretlock/local"
	"github.com/hyperledger/aries-framework-go/component/kmscrypto/util/cryptoutil"
	arieslog "github.com/hyperledger/aries-framework-go/component/log"
	spilog "github.com/hyperledger/aries-framework-go/spi/log"
	lockhkdf "github.com/hyperledger/aries-framework-go/component/kmscrypto/secretlock/local/masterlock/hkdf"
	lockpbkdf2 "github.com/hyperledger/aries-framework-go/component/kmscrypto/secretlock/local/masterlock/pbkdf2"
	"github.com/hyperledger/aries-framework-go/component/storageutil/mem"
	kmsapi "github.com/hyperledger/aries-framework-go/spi/kms"
	"github.com/hyperledger/aries-framework-go/spi/secretlock"

	"verifharness/hx"
)

type ktInfo struct {
	name string
	asym bool
	imp  string // "", ed, ec
	crv  string
}

var ktypes = []ktInfo{
	{"AES128GCM", false, "", ""}, {"AES256GCMNoPrefix", false, "", ""}, {"AES256GCM", false, "", ""},
	{"ChaCha20Poly1305", false, "", ""}, {"XChaCha20Poly1305", false, "", ""}, {"HMACSHA256Tag256", false, "", ""},
	{"ECDSAP256DER", true, "ec", "P-256"}, {"ECDSAP384DER", true, "ec", "P-384"}, {"ECDSAP521DER", true, "ec", "P-521"},
	{"ECDSAP256IEEEP1363", true, "ec", "P-256"}, {"ECDSAP384IEEEP1363", true, "ec", "P-384"},
	{"ECDSAP521IEEEP1363", true, "ec", "P-521"}, {"ECDSASecp256k1IEEEP1363", true, "ec", "SECP256K1"},
	{"ED25519", true, "ed", ""}, {"NISTP256ECDHKW", true, "ec", "P-256"}, {"NISTP384ECDHKW", true, "ec", "P-384"},
	{"NISTP521ECDHKW", true, "ec", "P-521"}, {"X25519ECDHKW", true, "", ""}, {"BLS12381G2", true, "", ""},
}

// import-only type (no Create, no export, no Rotate): sampled by its own sweep
var extraTypes = []ktInfo{{"ECDSASecp256k1DER", true, "ec", "SECP256K1"}}

func ktByName(n string) *ktInfo {
	for i := range ktypes {
		if ktypes[i].name == n {
			return &ktypes[i]
		}
	}

	for i := range extraTypes {
		if extraTypes[i].name == n {
			return &extraTypes[i]
		}
	}

	return nil
}

// ---------- recording secret lock ----------

type lockCall struct {
	enc        bool
	plaintext  string // as given to / returned by the lock (keywrapper passes base64url text)
	aad        string
	ciphertext string
}

type recLock struct {
	inner secretlock.Service
	calls []lockCall
}

func (l *recLock) Encrypt(keyURI string, req *secretlock.EncryptRequest) (*secretlock.EncryptResponse, error) {
	resp, err := l.inner.Encrypt(keyURI, req)
	if err == nil {
		l.calls = append(l.calls, lockCall{true, req.Plaintext, req.AdditionalAuthenticatedData, resp.Ciphertext})
	}

	return resp, err
}

func (l *recLock) Decrypt(keyURI string, req *secretlock.DecryptRequest) (*secretlock.DecryptResponse, error) {
	resp, err := l.inner.Decrypt(keyURI, req)
	if err == nil {
		l.calls = append(l.calls, lockCall{false, resp.Plaintext, req.AdditionalAuthenticatedData, req.Ciphertext})
	}

	return resp, err
}

type provider struct {
	store kmsapi.Store
	lock  secretlock.Service
}

func (p *provider) StorageProvider() kmsapi.Store  { return p.store }
func (p *provider) SecretLock() secretlock.Service { return p.lock }

const (
	keyURI     = "local-lock://verif/c05"
	pbkdf2Iter = 64
)

// ---------- the world ----------

type world struct {
	cfg        string // raw | hkdf | pbkdf2
	raw        *mem.Provider
	rec        *hx.RecProvider
	masterKey  []byte
	passphrase string
	salt       []byte
	protected  string // what is kept at rest instead of the master key (hkdf/pbkdf2)
	lock       *recLock
	kms        *localkms.LocalKMS
	failPut    bool // the store refuses Puts (an import that fails at its write)
	store      kmsapi.Store // THE store object of the rightful key manager
	crypto     *tinkcrypto.Crypto

	matAtom map[string]int
	dekAtom map[string]int

	storedKS  map[string]storedKeyset // id -> the keyset found (by decryption) in its last stored value
	lastKS    *tinkpb.Keyset
	lastAtoms []int
	secrets []secret // tracked secret byte strings
	hay     []hay    // everything the adversary sees
	issued  []issuedID
	odd     []issuedID // ids of accepted malformed imports

	unparsed []string // private key protos in which no key_value field was found

	nonceID     map[string]int // nonce bytes -> number (equal bytes = equal number)
	blobEvents  []string       // encryptions of a master key under the passphrase-derived key: (key term, nonce)
	writeEvents []string       // per stored value: keyset under the DEK, DEK under the master key
	seenPair    map[string]string
	reuse       string
	confusable  []string // wrong passphrases that a sloppy comparison / a weak digest may take for the right one
}

type issuedID struct {
	id string
	kt string
}

type secret struct {
	what string
	b    []byte
}

type hay struct {
	what string
	b    []byte
}

func masterLock(cfg, pass string, salt []byte) (secretlock.Service, error) {
	switch cfg {
	case "hkdf":
		return lockhkdf.NewMasterLock(pass, sha256.New, salt)
	case "pbkdf2":
		return lockpbkdf2.NewMasterLock(pass, sha256.New, pbkdf2Iter, salt)
	}

	return nil, nil
}

// newLock builds the secret lock the way an application does for this configuration.
func isRawCfg(cfg string) bool { return strings.HasPrefix(cfg, "raw") }

// newLock builds the secret lock the way an application does for this configuration: every way local.NewService
// accepts a master key.
//
//	raw        unprotected, base64URL text from a reader
//	rawbin     unprotected, the raw key bytes from a reader
//	rawfile    unprotected, raw key bytes in a file read through local.MasterKeyFromPath
//	rawfileb64 unprotected, base64URL text in a file read through local.MasterKeyFromPath
//	rawenv     unprotected, base64URL text in an environment variable read through local.MasterKeyFromEnv
//	hkdf / pbkdf2  protected by the passphrase-derived master lock
func newLock(cfg string, masterKey []byte, protected, pass string, salt []byte) (secretlock.Service, error) {
	b64 := []byte(base64.URLEncoding.EncodeToString(masterKey))

	switch cfg {
	case "raw":
		return local.NewService(bytes.NewReader(b64), nil)
	case "rawbin":
		return local.NewService(bytes.NewReader(append([]byte(nil), masterKey...)), nil)
	case "rawfile", "rawfileb64":
		dir, err := os.MkdirTemp("", "verif-c05-")
		if err != nil {
			return nil, err
		}

		defer os.RemoveAll(dir)

		content := masterKey
		if cfg == "rawfileb64" {
			content = b64
		}

		path := filepath.Join(dir, "master.key")
		if err = os.WriteFile(path, content, 0o600); err != nil {
			return nil, err
		}

		rd, err := local.MasterKeyFromPath(path)
		if err != nil {
			return nil, err
		}

		return local.NewService(rd, nil)
	case "rawenv":
		const prefix = "VERIF_C05_MK_"

		name := prefix + strings.ReplaceAll(keyURI, "/", "_")
		if err := os.Setenv(name, string(b64)); err != nil {
			return nil, err
		}

		defer os.Unsetenv(name)

		rd, err := local.MasterKeyFromEnv(prefix, keyURI)
		if err != nil {
			return nil, err
		}

		return local.NewService(rd, nil)
	}

	ml, err := masterLock(cfg, pass, salt)
	if err != nil {
		return nil, err
	}

	return local.NewService(bytes.NewReader([]byte(protected)), ml)
}

func newWorld(cfg string, r *hx.Rng) *world {
	w := &world{cfg: cfg, storedKS: map[string]storedKeyset{}, matAtom: map[string]int{}, dekAtom: map[string]int{}, nonceID: map[string]int{}, seenPair: map[string]string{}}
	w.raw = mem.NewProvider()
	w.rec = hx.NewRecProvider(w.raw)
	w.rec.Before = func(c *hx.Call) error {
		if w.failPut && c.Op == "Put" && c.Store == compkms.AriesWrapperStoreName {
			return hx.ErrInjected
		}

		return nil
	}
	w.masterKey = r.Bytes(32)

	if isRawCfg(cfg) {
		// AES-128/192/256 master keys; a binary key must not happen to be base64URL text
		w.masterKey = r.Bytes([]int{32, 32, 16, 24}[r.Intn(4)])
		for {
			if _, e := base64.URLEncoding.DecodeString(string(w.masterKey)); e != nil {
				break
			}

			w.masterKey = r.Bytes(len(w.masterKey))
		}
	}

	w.passphrase, w.confusable = choosePassphrase(r)
	w.salt = r.Bytes(16)

	if !isRawCfg(cfg) {
		ml, err := masterLock(cfg, w.passphrase, w.salt)
		if err != nil {
			panic(err)
		}

		enc, err := ml.Encrypt("", &secretlock.EncryptRequest{Plaintext: string(w.masterKey)})
		if err != nil {
			panic(err)
		}

		w.protected = enc.Ciphertext
		w.hay = append(w.hay, hay{"protected master key", []byte(w.protected)}, hay{"salt", w.salt})
		w.addSecret("passphrase", []byte(w.passphrase))
	}

	w.addSecret("master key", w.masterKey)

	inner, err := newLock(cfg, w.masterKey, w.protected, w.passphrase, w.salt)
	if err != nil {
		panic(err)
	}

	w.lock = &recLock{inner: inner}

	if w.crypto, err = tinkcrypto.New(); err != nil {
		panic(err)
	}

	w.kms = w.open(w.lock, true)

	return w
}

func (w *world) open(lock secretlock.Service, recorded bool) *localkms.LocalKMS {
	var (
		st  kmsapi.Store
		err error
	)

	if recorded {
		if w.store == nil {
			w.store, err = compkms.NewAriesProviderWrapper(w.rec)
		}

		st = w.store
	} else {
		st, err = compkms.NewAriesProviderWrapper(w.raw)
	}

	if err != nil {
		panic(err)
	}

	k, err := localkms.New(keyURI, &provider{store: st, lock: lock})
	if err != nil {
		panic(err)
	}

	return k
}

func (w *world) openOn(lock secretlock.Service, st kmsapi.Store) *localkms.LocalKMS {
	k, err := localkms.New(keyURI, &provider{store: st, lock: lock})
	if err != nil {
		panic(err)
	}

	return k
}

func (w *world) addSecret(what string, b []byte) {
	if len(b) < 16 {
		return
	}

	w.secrets = append(w.secrets, secret{what, append([]byte(nil), b...)})
}

// event records one encryption: the key (as a term) and the nonce found in the ciphertext bytes.
func (w *world) event(list *[]string, keyTerm, what string, nonce []byte) {
	id, ok := w.nonceID[string(nonce)]
	if !ok {
		id = len(w.nonceID)
		w.nonceID[string(nonce)] = id
	}

	*list = append(*list, fmt.Sprintf("(%s, %d)", keyTerm, id))

	pair := keyTerm + "/" + string(nonce)
	if first, dup := w.seenPair[pair]; dup && w.reuse == "" {
		w.reuse = fmt.Sprintf("the nonce %x is used twice under one key: %s and %s", nonce, first, what)
	}

	w.seenPair[pair] = what
}

// ownLockKey derives the master lock's key from the passphrase the way RFC 5869 / RFC 8018 say (not through the lock).
func ownLockKey(cfg, pass string, salt []byte) ([]byte, int) {
	if cfg == "hkdf" {
		lk := make([]byte, 32)
		_, _ = io.ReadFull(hkdf.New(sha256.New, []byte(pass), salt, nil), lk)

		return lk, 4
	}

	return pbkdf2.Key([]byte(pass), salt, pbkdf2Iter, 32, sha256.New), 6
}

// blob records a protected master key: it must open, under the harness's own derivation, to the key that was protected.
func (w *world) blob(cfg, protected string, plain []byte, what string) (term string, ok bool) {
	lk, label := ownLockKey(cfg, w.passphrase, w.salt)

	raw, err := base64.URLEncoding.DecodeString(protected)
	if err != nil || len(raw) < 13 {
		return "Junk 9", false
	}

	keyT := fmt.Sprintf("Kdf [Bytes %d; Bytes 3; Bytes 2]", label)

	pt, err := gcmOpen(lk, raw, []byte{})
	if err != nil || !bytes.Equal(pt, plain) {
		w.event(&w.blobEvents, "Junk 9", what, raw[:12])
		return "Junk 9", false
	}

	w.event(&w.blobEvents, keyT, what, raw[:12])

	return fmt.Sprintf("AEnc (%s) (Bytes 0) (Bytes 1)", keyT), true
}

// weakDigests: cheap iterative 32-bit checksums somebody may index passphrases by.
var weakDigests = []struct {
	name string
	f    func([]byte) uint32
}{
	{"fnv32a", func(b []byte) uint32 { h := fnv.New32a(); _, _ = h.Write(b); return h.Sum32() }},
	{"fnv32", func(b []byte) uint32 { h := fnv.New32(); _, _ = h.Write(b); return h.Sum32() }},
	{"crc32", crc32.ChecksumIEEE},
	{"adler32", adler32.Checksum},
	{"java31", func(b []byte) uint32 {
		var h uint32
		for _, c := range b {
			h = 31*h + uint32(c)
		}

		return h
	}},
}

var collidingPairs = map[string][2]string{}

// choosePassphrase picks the owner's passphrase together with wrong passphrases that must NOT open the lock although
// they agree with the right one under a sloppy comparison: one more character, one less, other case, surrounding
// blanks, a common prefix of 8 bytes, and (birthday search, both chosen by the harness) the same value under one of
// the cheap iterative 32-bit checksums above (iterative: the collision survives any common suffix such as the salt).
func choosePassphrase(r *hx.Rng) (string, []string) {
	d := weakDigests[r.Intn(len(weakDigests))]

	pair, ok := collidingPairs[d.name]
	if !ok {
		seen := map[uint32]string{}
		g := hx.NewRng(uint64(len(d.name)) + 99)

		for {
			c := "Pass-" + hex.EncodeToString(g.Bytes(9))
			v := d.f([]byte(c))

			if o, hit := seen[v]; hit && o != c {
				pair = [2]string{o, c}
				break
			}

			seen[v] = c
		}

		collidingPairs[d.name] = pair
	}

	// passphrase LENGTH is a dimension of its own: words, sentences, phrases longer than any hash's block (64 / 128
	// bytes) or a password hash's input bound (55, 56, 72 bytes).  (An iterative checksum collision survives a common
	// suffix, so the colliding pair stays one.)
	suffix := ""

	if n := []int{0, 0, 10, 41, 42, 60, 106, 107, 180, 300}[r.Intn(10)]; n > 0 {
		words := []string{" correct", " horse", " battery", " staple", " Zebra", " 7", " quiet", " lantern"}
		for len(suffix) < n {
			suffix += words[r.Intn(len(words))]
		}

		suffix = suffix[:n]
	}

	p := pair[0] + suffix

	wrong := []string{pair[1] + suffix, p + "x", p[:len(p)-1], strings.ToUpper(p), strings.ToLower(p), " " + p, p + " ",
		p[:8] + hex.EncodeToString(r.Bytes(9))}

	// wrong passphrases that agree with the right one on a prefix / everywhere but one place: a lock that lets only part of
	// the passphrase take part in the derivation (a bounded buffer, a truncated or block-wise folded input) takes them
	// for the right one.  One character changed at the start, in the middle, at the end and right after every boundary;
	// the passphrase cut at every boundary.
	flip := func(s string, i int) string {
		c := byte('q')
		if s[i] == c {
			c = 'Q'
		}

		return s[:i] + string(c) + s[i+1:]
	}

	wrong = append(wrong, flip(p, 0), flip(p, len(p)/2), flip(p, len(p)-1))

	for _, bnd := range []int{8, 16, 20, 32, 48, 55, 56, 63, 64, 65, 72, 100, 127, 128, 129, 255, 256} {
		if bnd < len(p) {
			wrong = append(wrong, p[:bnd], flip(p, bnd))
		}
	}

	seen := map[string]bool{p: true}

	var out []string

	for _, x := range wrong {
		if !seen[x] {
			seen[x] = true
			out = append(out, x)
		}
	}

	return p, out
}

// ---------- rebuilding a stored value as a term ----------

func gcmOpen(key, nonceCT, aad []byte) ([]byte, error) {
	blk, err := aes.NewCipher(key)
	if err != nil {
		return nil, err
	}

	g, err := cipher.NewGCM(blk)
	if err != nil {
		return nil, err
	}

	if len(nonceCT) <= g.NonceSize() {
		return nil, fmt.Errorf("short")
	}

	return g.Open(nil, nonceCT[:g.NonceSize()], nonceCT[g.NonceSize():], aad)
}

const dekTypeURL = "type.googleapis.com/google.crypto.tink.AesGcmKey"

// rebuild returns the Gallina term of a stored value, and a reason when the value is not the expected envelope.
func (w *world) rebuild(pos int, op Op, value []byte) (term string, bad string) {
	var doc map[string]json.RawMessage
	if err := json.Unmarshal(value, &doc); err != nil {
		return "Junk 3", "stored value is not JSON"
	}

	var extra []string

	for k := range doc {
		if k != "encryptedKeyset" && k != "keysetInfo" {
			extra = append(extra, k)
		}
	}

	sort.Strings(extra)

	var ekB64 string
	if err := json.Unmarshal(doc["encryptedKeyset"], &ekB64); err != nil || ekB64 == "" {
		return "Junk 3", "stored value has no encryptedKeyset"
	}

	ek, err := base64.StdEncoding.DecodeString(ekB64)
	if err != nil || len(ek) < 4 {
		return "Junk 3", "encryptedKeyset is not base64"
	}

	n := int(binary.BigEndian.Uint32(ek[:4]))
	if n <= 0 || 4+n > len(ek) {
		return "Junk 3", "encryptedKeyset has no envelope prefix"
	}

	encDEK, payload := ek[4:4+n], ek[4+n:]

	// (ii) the wrapped DEK must be a ciphertext the secret lock produced in this run ...
	var call *lockCall

	for i := range w.lock.calls {
		c := &w.lock.calls[i]
		if ct, e := base64.URLEncoding.DecodeString(c.ciphertext); e == nil && c.enc && bytes.Equal(ct, encDEK) {
			call = c
		}
	}

	if call == nil {
		return "Tup [Junk 4; Junk 4]", "the wrapped DEK was not produced by the secret lock"
	}

	// ... and it must open under the master key (the harness's own AES-GCM), with the empty AAD
	wrapKey := "Bytes 1"

	pt, err := gcmOpen(w.masterKey, encDEK, []byte(call.aad))
	if err != nil || string(pt) != call.plaintext {
		wrapKey, bad = "Junk 1", "the wrapped DEK does not open under the master key"
	}

	aadT := "Bytes 0"
	if call.aad != "" {
		aadT, bad = "Junk 2", "the DEK was wrapped with a non-empty AAD"
	}

	dek, err := base64.URLEncoding.DecodeString(call.plaintext)
	if err != nil {
		return "Tup [Junk 5; Junk 5]", "DEK plaintext is not base64url"
	}

	dAtom, ok := w.dekAtom[string(dek)]
	if !ok {
		dAtom = 4*pos + 7
		w.dekAtom[string(dek)] = dAtom
		w.addSecret("DEK", dek)

		if len(dek) > 32 {
			w.addSecret("DEK key bytes", dek[len(dek)-32:])
		}
	}

	// the keyset must open under that DEK (Tink's own AES-GCM primitive for the DEK key proto), empty AAD
	prim, err := registry.Primitive(dekTypeURL, dek)
	if err != nil {
		return "Tup [Junk 6; Junk 6]", "DEK is not an AES-GCM key"
	}

	ksBytes, err := prim.(tink.AEAD).Decrypt(payload, []byte{})
	if err != nil {
		return "Tup [Junk 6; Junk 6]", "the keyset does not open under the DEK"
	}

	ks := new(tinkpb.Keyset)
	if err = proto.Unmarshal(ksBytes, ks); err != nil {
		return "Tup [Junk 6; Junk 6]", "the keyset is not a Tink keyset"
	}

	var (
		keys  []string
		atoms []int
	)

	for _, k := range ks.Key {
		m := string(k.KeyData.Value)

		a, ok := w.matAtom[m]
		if !ok {
			a = 4*pos + 5
			if op.Kind == "import" || op.Kind == "importbad" {
				a = importAtom(pos)
			}

			w.matAtom[m] = a
			w.trackMaterial(k.KeyData.TypeUrl, k.KeyData.Value)
		}

		keys = append(keys, fmt.Sprintf("Bytes %d", a))
		atoms = append(atoms, a)
	}

	if len(payload) > 12 && len(encDEK) > 12 {
		w.event(&w.writeEvents, fmt.Sprintf("Bytes %d", dAtom), fmt.Sprintf("keyset of op %d under its DEK", pos), payload[:12])
		w.event(&w.writeEvents, wrapKey, fmt.Sprintf("DEK of op %d under the master key", pos), encDEK[:12])
	}

	// keysetInfo, the cleartext member: parsed strictly (no member the schema does not have) and compared, field by
	// field, with the keys of the keyset just decrypted: descriptor i must be exactly the public description of key i
	// (type URL, status, Tink key id, output prefix type), the primary key id the keyset's
	w.lastKS, w.lastAtoms = ks, atoms

	infoT, infoBad := rebuildInfo(doc["keysetInfo"], ks, atoms)
	if infoBad != "" && bad == "" {
		bad = infoBad
	}

	term = fmt.Sprintf("Tup [AEnc (Bytes %d) (Bytes 0) (Tup %s); AEnc (%s) (%s) (Bytes %d); %s", dAtom, hx.CoqList(keys), wrapKey, aadT, dAtom, infoT)
	if len(extra) > 0 {
		term += "; Junk 7"
		bad = "stored value has members besides encryptedKeyset/keysetInfo: " + strings.Join(extra, ",")
	}

	return term + "]", bad
}

type ksInfoJSON struct {
	PrimaryKeyID *uint32 `json:"primaryKeyId"`
	KeyInfo      []struct {
		TypeURL          *string `json:"typeUrl"`
		Status           *string `json:"status"`
		KeyID            *uint32 `json:"keyId"`
		OutputPrefixType *string `json:"outputPrefixType"`
	} `json:"keyInfo"`
}

// rebuildInfo returns the term of a keysetInfo member: Tup [Junk (atom of the primary key); Tup [Junk (atom of key i) ...]]
// when it is exactly the public description of the decrypted keyset; anything else shows up as another term.
func rebuildInfo(raw json.RawMessage, ks *tinkpb.Keyset, atoms []int) (term, bad string) {
	if len(raw) == 0 {
		return "Junk 9", "keysetInfo is missing from the stored value"
	}

	var in ksInfoJSON

	dec := json.NewDecoder(bytes.NewReader(raw))
	dec.DisallowUnknownFields()

	if err := dec.Decode(&in); err != nil {
		return "Junk 9", "keysetInfo does not parse under its schema (unknown or ill-typed member): " + err.Error()
	}

	if dec.More() {
		return "Junk 9", "keysetInfo is followed by further data"
	}

	prim := "Junk 999998"

	if in.PrimaryKeyID == nil || *in.PrimaryKeyID != ks.PrimaryKeyId {
		bad = "keysetInfo names another primary key id than the keyset"
	}

	for i, k := range ks.Key {
		if k.KeyId == ks.PrimaryKeyId && bad == "" {
			prim = fmt.Sprintf("Junk %d", atoms[i])
		}
	}

	var ds []string

	for i, d := range in.KeyInfo {
		if i >= len(ks.Key) {
			ds = append(ds, "Junk 999997")
			bad = "keysetInfo describes more keys than the keyset has"

			continue
		}

		k := ks.Key[i]

		switch {
		case d.TypeURL == nil || *d.TypeURL != k.KeyData.TypeUrl:
			ds = append(ds, "Junk 999996")
			bad = fmt.Sprintf("keysetInfo type URL of key %d is not the key's", i)
		case d.Status == nil || *d.Status != k.Status.String():
			ds = append(ds, "Junk 999995")
			bad = fmt.Sprintf("keysetInfo status of key %d is not the key's", i)
		case d.KeyID == nil || *d.KeyID != k.KeyId:
			ds = append(ds, "Junk 999994")
			bad = fmt.Sprintf("keysetInfo key id of key %d is not the key's", i)
		case d.OutputPrefixType == nil || *d.OutputPrefixType != k.OutputPrefixType.String():
			ds = append(ds, "Junk 999993")
			bad = fmt.Sprintf("keysetInfo output prefix type of key %d is not the key's", i)
		default:
			ds = append(ds, fmt.Sprintf("Junk %d", atoms[i]))
		}
	}

	if len(in.KeyInfo) < len(ks.Key) && bad == "" {
		bad = "keysetInfo describes fewer keys than the keyset has"
	}

	return "Tup [" + prim + "; Tup " + hx.CoqList(ds) + "]", bad
}

func importAtom(pos int) int { return 4*(5000+pos) + 5 }

// trackMaterial registers the serialized private key proto and its secret field (key_value: the raw scalar, seed or
// symmetric key) as secrets to scan for.  (The tail of a private key proto may be its PUBLIC key.)
func (w *world) trackMaterial(typeURL string, v []byte) {
	w.addSecret("key material (proto)", v)

	field := protowire.Number(3)
	if strings.HasSuffix(typeURL, ".Ed25519PrivateKey") || strings.HasSuffix(typeURL, ".ChaCha20Poly1305Key") {
		field = 2
	}

	b := v
	found := false

	for len(b) > 0 {
		num, typ, n := protowire.ConsumeTag(b)
		if n < 0 {
			break
		}

		b = b[n:]

		if typ == protowire.BytesType {
			val, m := protowire.ConsumeBytes(b)
			if m < 0 {
				break
			}

			if num == field {
				w.addSecret("key material (key_value)", val)

				if strings.HasSuffix(typeURL, ".Ed25519PrivateKey") && len(val) == ed25519.SeedSize {
					h := sha512.Sum512(val)
					h[0] &= 248
					h[31] &= 127
					h[31] |= 64
					w.addSecret("key material (curve25519 form of the Ed25519 key)", h[:32])
				}

				found = true
			}

			b = b[m:]
		} else {
			m := protowire.ConsumeFieldValue(num, typ, b)
			if m < 0 {
				break
			}

			b = b[m:]
		}
	}

	if !found {
		w.unparsed = append(w.unparsed, typeURL)
	}
}

// ---------- operations ----------

// Op is one operation of a history.
type Op struct {
	Kind string `json:"op"` // create | createx | import | rotate | get | export
	KT   string `json:"kt,omitempty"`
	UID  bool   `json:"uid,omitempty"` // import with a caller-chosen id
	Ref  int    `json:"ref"`
	// importbad: which defect the key handed to ImportPrivateKey has: curve (a valid key of another curve than the key
	// type's), offcurve, nild, nilx, kind (Ed25519 key for an EC type and vice versa), nil
	Bad string `json:"bad,omitempty"`
	// RotKT: rotate with this key type instead of the keyset's own (outside the model: direct oracles only)
	RotKT string `json:"rotkt,omitempty"`
}

// Obs is what happened.
type Obs struct {
	OK     bool     `json:"ok"`
	Writes []string `json:"writes"` // rebuilt terms
	Outs   []string `json:"outs"`   // ids / exported public keys returned, as rebuilt terms
	Bad    string   `json:"bad,omitempty"`
	Worked bool     `json:"worked,omitempty"` // importbad: accepted; box: the CryptoBox call succeeded
}

func genImportKey(kt *ktInfo, r *hx.Rng) (interface{}, [][]byte) {
	seed := r.Bytes(80)

	switch kt.imp {
	case "ed":
		priv := ed25519.NewKeyFromSeed(seed[:32])
		return priv, [][]byte{seed[:32]}
	case "ec":
		var c elliptic.Curve

		switch kt.crv {
		case "P-256":
			c = elliptic.P256()
		case "P-384":
			c = elliptic.P384()
		case "SECP256K1":
			c = btcec.S256()
		default:
			c = elliptic.P521()
		}

		d := new(big.Int).SetBytes(seed[:(c.Params().BitSize+7)/8])
		d.Mod(d, new(big.Int).Sub(c.Params().N, big.NewInt(1)))
		d.Add(d, big.NewInt(1))
		priv := &ecdsa.PrivateKey{D: d}
		priv.Curve = c
		priv.X, priv.Y = c.ScalarBaseMult(d.Bytes())

		return priv, [][]byte{d.Bytes()}
	}

	return nil, nil
}

// genBadKey builds a key ImportPrivateKey should have trouble with; the secret parts are returned for the scan.
func genBadKey(kt *ktInfo, bad string, r *hx.Rng) (interface{}, [][]byte) {
	good, sec := genImportKey(kt, r)

	switch bad {
	case "nil":
		if kt.imp == "ed" {
			return ed25519.PrivateKey(nil), nil
		}

		return (*ecdsa.PrivateKey)(nil), nil
	case "kind":
		// an Ed25519 key for an EC key type, an EC key for Ed25519
		if kt.imp == "ed" {
			return genImportKey(&ktInfo{imp: "ec", crv: "P-256"}, r)
		}

		return genImportKey(&ktInfo{imp: "ed"}, r)
	}

	if bad == "dup" || bad == "existing" || bad == "putfail" {
		return good, sec
	}

	ec, isEC := good.(*ecdsa.PrivateKey)
	if !isEC {
		return good, sec // Ed25519 keys have no curve/coordinate defects: imported as they are
	}

	switch bad {
	case "curve":
		other := "P-384"
		if kt.crv == "P-384" {
			other = "P-521"
		}

		return genImportKey(&ktInfo{imp: "ec", crv: other}, r)
	case "offcurve":
		ec.Y = new(big.Int).Add(ec.Y, big.NewInt(1))
	case "nild":
		ec.D = nil
		sec = nil
	case "nilx":
		ec.X = nil
	}

	return ec, sec
}

// safeEasy: CryptoBox.Easy panics (nil dereference in extractPrivKey) when the key under id is not an Ed25519 key — a
// robustness matter outside C05; the harness reports it as a failed call.
func safeEasy(cb *localkms.CryptoBox, payload, nonce, theirPub []byte, id string) (ct []byte, err error) {
	defer func() {
		if p := recover(); p != nil {
			err = fmt.Errorf("panic: %v", p)
		}
	}()

	return cb.Easy(payload, nonce, theirPub, id)
}

type rngReader struct{ r *hx.Rng }

func (rr rngReader) Read(p []byte) (int, error) { copy(p, rr.r.Bytes(len(p))); return len(p), nil }

// box runs the CryptoBox calls of the key manager with the key under id (legacy packer's entry points): they read the
// key, must write nothing and must not change how later keysets are wrapped.
func (w *world) box(id string, r *hx.Rng) error {
	cb, err := localkms.NewCryptoBox(w.kms)
	if err != nil {
		return err
	}

	rd := rngReader{r}

	theirPub, theirPriv, err := box.GenerateKey(rd)
	if err != nil {
		return err
	}

	payload := []byte("verif c05 box payload")
	nonce := r.Bytes(cryptoutil.NonceSize)

	ct, err := safeEasy(cb, payload, nonce, theirPub[:], id)
	if err != nil {
		return err
	}

	w.see("CryptoBox.Easy result", ct)

	myPub, _, err := w.kms.ExportPubKeyBytes(id)
	if err != nil || len(myPub) != ed25519.PublicKeySize {
		return nil
	}

	myCurve, err := cryptoutil.PublicEd25519toCurve25519(myPub)
	if err != nil {
		return nil
	}

	var (
		nb [cryptoutil.NonceSize]byte
		mc [cryptoutil.Curve25519KeySize]byte
	)

	copy(nb[:], nonce)
	copy(mc[:], myCurve)

	if pt, e := cb.EasyOpen(box.Seal(nil, payload, &nb, &mc, theirPriv), nonce, theirPub[:], myPub); e == nil {
		w.see("CryptoBox.EasyOpen result", pt)
	}

	if sealed, e := cb.Seal(payload, myCurve, rd); e == nil {
		w.see("CryptoBox.Seal result", sealed)

		if pt, e2 := cb.SealOpen(sealed, myPub); e2 == nil {
			w.see("CryptoBox.SealOpen result", pt)
		}
	}

	return nil
}

// everything the framework logs is visible to whoever reads the logs
type capLogger struct{ module string }

var logLines []string

func (l capLogger) put(level, msg string, args []interface{}) {
	logLines = append(logLines, level+" "+l.module+" "+fmt.Sprintf(msg, args...))
}

func (l capLogger) Panicf(msg string, args ...interface{}) { l.put("PANIC", msg, args) }
func (l capLogger) Fatalf(msg string, args ...interface{}) { l.put("FATAL", msg, args) }
func (l capLogger) Errorf(msg string, args ...interface{}) { l.put("ERROR", msg, args) }
func (l capLogger) Warnf(msg string, args ...interface{})  { l.put("WARN", msg, args) }
func (l capLogger) Infof(msg string, args ...interface{})  { l.put("INFO", msg, args) }
func (l capLogger) Debugf(msg string, args ...interface{}) { l.put("DEBUG", msg, args) }

type capProvider struct{}

func (capProvider) GetLogger(module string) spilog.Logger { return capLogger{module} }

func (w *world) see(what string, b []byte) { w.hay = append(w.hay, hay{what, append([]byte(nil), b...)}) }

func (w *world) apply(pos int, op Op, r *hx.Rng) Obs {
	w.rec.Reset()

	var (
		id  string
		kh  interface{}
		pub []byte
		err error
		obs Obs
	)

	kt := op.KT

	switch op.Kind {
	case "create":
		id, kh, err = w.kms.Create(kmsapi.KeyType(kt))
	case "createx":
		id, pub, err = w.kms.CreateAndExportPubKeyBytes(kmsapi.KeyType(kt))
	case "import":
		priv, sec := genImportKey(ktByName(kt), r)
		for _, s := range sec {
			w.addSecret("imported private key", s)
		}

		var opts []kmsapi.PrivateKeyOpts
		if op.UID {
			opts = append(opts, kmsapi.WithKeyID(fmt.Sprintf("imported-%d", pos)))
		}

		id, kh, err = w.kms.ImportPrivateKey(priv, kmsapi.KeyType(kt), opts...)
	case "importbad":
		priv, sec := genBadKey(ktByName(kt), op.Bad, r)
		for _, s := range sec {
			w.addSecret("imported private key", s)
		}

		// well-formed keys whose import fails AT THE STORE: the id check finds the id taken, or the Put fails
		var badOpts []kmsapi.PrivateKeyOpts

		switch op.Bad {
		case "existing":
			// an id that is in use NOW (an id freed by a rotation could be taken again, rightly)
			for i := len(w.issued) - 1; i >= 0; i-- {
				if _, e := w.kms.Get(w.issued[i].id); e == nil {
					badOpts = append(badOpts, kmsapi.WithKeyID(w.issued[i].id))
					break
				}
			}
		case "putfail":
			w.failPut = true
		}

		func() {
			defer func() {
				if p := recover(); p != nil {
					err = fmt.Errorf("panic: %v", p) // a panic on a malformed key is C03's subject; what it says is a result all the same
				}
			}()

			id, kh, err = w.kms.ImportPrivateKey(priv, kmsapi.KeyType(kt), badOpts...)

			if op.Bad == "dup" && err == nil {
				// the same key once more: its thumbprint id is taken
				if _, _, e2 := w.kms.ImportPrivateKey(priv, kmsapi.KeyType(kt)); e2 != nil {
					w.see("error text", []byte(e2.Error()))
				}
			}
		}()

		w.failPut = false
		obs.Worked = err == nil
	case "box":
		if op.Ref < len(w.issued) {
			err = w.box(w.issued[op.Ref].id, r)
		} else {
			err = fmt.Errorf("no such ref")
		}

		obs.Worked = err == nil
	case "reopen":
		// the process restarts: a NEW secret lock instance (the unprotected key handed over again / the protected master
		// key unlocked again with the passphrase) and a new key manager, over the same store object or a fresh wrapper
		var inner secretlock.Service

		if inner, err = newLock(w.cfg, w.masterKey, w.protected, w.passphrase, w.salt); err == nil {
			w.lock.inner = inner

			if op.UID {
				w.store, err = compkms.NewAriesProviderWrapper(w.rec)
			}

			if err == nil {
				w.kms = w.openOn(w.lock, w.store)
			}
		}
	case "rotate":
		if op.Ref < len(w.issued) {
			kt = w.issued[op.Ref].kt
			if op.RotKT != "" {
				kt = op.RotKT
			}
			id, kh, err = w.kms.Rotate(kmsapi.KeyType(kt), w.issued[op.Ref].id)
		} else {
			err = fmt.Errorf("no such ref")
		}
	case "get":
		if op.Ref < len(w.issued) {
			kh, err = w.kms.Get(w.issued[op.Ref].id)
		} else {
			err = fmt.Errorf("no such ref")
		}
	case "export":
		if op.Ref < len(w.issued) {
			pub, _, err = w.kms.ExportPubKeyBytes(w.issued[op.Ref].id)
		} else {
			err = fmt.Errorf("no such ref")
		}
	}

	obs.OK = err == nil

	// API results the caller (and the adversary) sees; handles are opaque
	if err == nil {
		if id != "" {
			w.see("returned id", []byte(id))
			if op.Kind == "importbad" {
				// stored, returned, probed with wrong locks — but later operations of the history do not refer to it
				w.odd = append(w.odd, issuedID{id, kt})
			} else {
				w.issued = append(w.issued, issuedID{id, kt})
			}
		}

		if pub != nil {
			w.see("exported public key", pub)
		}
	} else {
		w.see("error text", []byte(err.Error()))
	}

	// key material of a returned handle is tracked even before it is seen in the store
	if h, ok := kh.(*keyset.Handle); ok && h != nil {
		mw := &keyset.MemReaderWriter{}
		if insecurecleartextkeyset.Write(h, mw) == nil && mw.Keyset != nil {
			for _, k := range mw.Keyset.Key {
				if _, known := w.matAtom[string(k.KeyData.Value)]; !known {
					w.trackMaterial(k.KeyData.TypeUrl, k.KeyData.Value)
				}
			}
		}
	}

	// everything written to the store by this call
	for _, c := range w.rec.Snapshot() {
		if c.Op != "Put" || c.Inject {
			continue
		}

		w.see("stored value", c.Value)
		w.see("store key", []byte(c.Key))

		if c.Store != compkms.AriesWrapperStoreName {
			obs.Bad = "write outside the kms store: " + c.Store
			obs.Writes = append(obs.Writes, "Junk 8")

			continue
		}

		w.lastKS = nil

		t, bad := w.rebuild(pos, op, c.Value)
		obs.Writes = append(obs.Writes, t)

		if w.lastKS != nil {
			w.storedKS[c.Key] = storedKeyset{w.lastKS, w.lastAtoms}
		}

		if bad != "" && obs.Bad == "" {
			obs.Bad = bad
		}
	}

	if obs.Writes == nil {
		obs.Writes = []string{}
	}

	// the non-opaque API results as terms (outs.go)
	obs.Outs = []string{}

	if err == nil {
		switch op.Kind {
		case "create", "rotate":
			obs.Outs = append(obs.Outs, w.idTerm(id, kt, pos, ""))
		case "createx":
			obs.Outs = append(obs.Outs, w.idTerm(id, kt, pos, ""), w.pubTerm(id, pub))
		case "import":
			chosen := ""
			if op.UID {
				chosen = fmt.Sprintf("imported-%d", pos)
			}

			obs.Outs = append(obs.Outs, w.idTerm(id, kt, pos, chosen))
		case "importbad":
			obs.Outs = append(obs.Outs, w.idTerm(id, kt, pos, ""))
		case "export":
			obs.Outs = append(obs.Outs, w.pubTerm(w.issued[op.Ref].id, pub))
		}
	}

	return obs
}

// use exercises a handle with the crypto service (whatever primitive it supports), as an application would.
func (w *world) use(h interface{}) {
	c := w.crypto
	msg := []byte("verif c05")

	if _, e := c.Sign(msg, h); e == nil {
		return
	}

	if _, _, e := c.Encrypt(msg, nil, h); e == nil {
		return
	}

	_, _ = c.ComputeMAC(msg, h)
}

// ---------- scanning ----------

func encodings(b []byte) map[string][]byte {
	return map[string][]byte{
		"raw":          b,
		"base64":       []byte(base64.StdEncoding.EncodeToString(b)),
		"base64raw":    []byte(base64.RawStdEncoding.EncodeToString(b)),
		"base64url":    []byte(base64.URLEncoding.EncodeToString(b)),
		"base64urlraw": []byte(base64.RawURLEncoding.EncodeToString(b)),
		"hex":          []byte(hex.EncodeToString(b)),
		"HEX":          []byte(strings.ToUpper(hex.EncodeToString(b))),
		"base58":       []byte(base58.Encode(b)),
		"decimal":      []byte(new(big.Int).SetBytes(b).String()),                       // %v / %d / String() of a big.Int
		"gobytes":      []byte(strings.Trim(fmt.Sprint(b), "[]")),                       // %v of a []byte
		"gosyntax":     []byte(strings.TrimSuffix(strings.TrimPrefix(fmt.Sprintf("%#v", b), "[]byte{"), "}")), // %#v
	}
}

// unescape undoes C / Go / JSON / protobuf-text style escapes (\ooo, \xhh, \u00hh, \n, \", ...): whatever quoting a
// message was rendered with, the bytes it stands for are scanned.
func unescape(h []byte) ([]byte, bool) {
	out := make([]byte, 0, len(h))
	changed := false

	hexv := func(c byte) int {
		switch {
		case c >= '0' && c <= '9':
			return int(c - '0')
		case c >= 'a' && c <= 'f':
			return int(c-'a') + 10
		case c >= 'A' && c <= 'F':
			return int(c-'A') + 10
		}

		return -1
	}

	for i := 0; i < len(h); i++ {
		if h[i] != '\\' || i+1 >= len(h) {
			out = append(out, h[i])
			continue
		}

		c := h[i+1]

		switch {
		case c == 'x' && i+3 < len(h) && hexv(h[i+2]) >= 0 && hexv(h[i+3]) >= 0:
			out = append(out, byte(hexv(h[i+2])*16+hexv(h[i+3])))
			i += 3
			changed = true
		case c == 'u' && i+5 < len(h) && hexv(h[i+2]) >= 0 && hexv(h[i+3]) >= 0 && hexv(h[i+4]) >= 0 && hexv(h[i+5]) >= 0:
			r := hexv(h[i+2])<<12 | hexv(h[i+3])<<8 | hexv(h[i+4])<<4 | hexv(h[i+5])
			if r < 256 {
				out = append(out, byte(r))
			} else {
				out = append(out, []byte(string(rune(r)))...)
			}

			i += 5
			changed = true
		case c >= '0' && c <= '7':
			v, n := 0, 0
			for n < 3 && i+1+n < len(h) && h[i+1+n] >= '0' && h[i+1+n] <= '7' {
				v = v*8 + int(h[i+1+n]-'0')
				n++
			}

			out = append(out, byte(v))
			i += n
			changed = true
		default:
			if r, ok := map[byte]byte{'n': 10, 'r': 13, 't': 9, 'a': 7, 'b': 8, 'f': 12, 'v': 11, '\\': '\\', '"': '"', '\'': '\''}[c]; ok {
				out = append(out, r)
				i++
				changed = true
			} else {
				out = append(out, h[i])
			}
		}
	}

	return out, changed
}

// views of a haystack: itself, and every JSON string member decoded as base64 (std/url), one level
func views(h []byte) [][]byte {
	out := [][]byte{h}

	if u, changed := unescape(h); changed {
		out = append(out, u)
	}

	var doc map[string]interface{}
	if json.Unmarshal(h, &doc) == nil {
		for _, v := range doc {
			if s, ok := v.(string); ok {
				for _, enc := range []*base64.Encoding{base64.StdEncoding, base64.RawStdEncoding, base64.URLEncoding, base64.RawURLEncoding} {
					if d, err := enc.DecodeString(s); err == nil && len(d) > 0 {
						out = append(out, d)
					}
				}
			}
		}
	}

	for _, enc := range []*base64.Encoding{base64.StdEncoding, base64.URLEncoding, base64.RawURLEncoding} {
		if d, err := enc.DecodeString(string(h)); err == nil && len(d) > 0 {
			out = append(out, d)
		}
	}

	return out
}

func (w *world) scan() (sig, detail string) {
	for _, s := range w.secrets {
		encs := encodings(s.b)
		names := make([]string, 0, len(encs))

		for n := range encs {
			names = append(names, n)
		}

		sort.Strings(names)

		for _, h := range w.hay {
			for vi, v := range views(h.b) {
				for _, n := range names {
					// the base64url text of the master key IS what the raw configuration is given; it is never written
					if bytes.Contains(v, encs[n]) {
						return "leak:" + strings.Fields(s.what)[0] + ":" + n,
							fmt.Sprintf("%s found (%s, view %d) in %s", s.what, n, vi, h.what)
					}
				}
			}
		}
	}

	return "", ""
}

// ---------- one history ----------

func coqOp(op Op, pos int, o Obs) string {
	asym := "false"
	if kt := ktByName(op.KT); kt != nil && kt.asym {
		asym = "true"
	}

	switch op.Kind {
	case "create":
		return "Create " + asym
	case "createx":
		return "CreateExport " + asym
	case "import":
		// thumb: an input — no id requested and the key type exports its public key
		return fmt.Sprintf("Import %d %s", importAtom(pos), hx.CoqBool(!op.UID && op.KT != "ECDSASecp256k1DER"))
	case "importbad":
		return fmt.Sprintf("ImportTry %d %s %s", importAtom(pos), hx.CoqBool(o.Worked), hx.CoqBool(op.KT != "ECDSASecp256k1DER"))
	case "box":
		return fmt.Sprintf("Box %d%%nat %s", op.Ref, hx.CoqBool(o.Worked))
	case "rotate":
		return fmt.Sprintf("Rotate %d%%nat", op.Ref)
	case "get":
		return fmt.Sprintf("Get %d%%nat", op.Ref)
	case "reopen":
		return "Reopen"
	default:
		return fmt.Sprintf("Export %d%%nat", op.Ref)
	}
}

type histCase struct {
	Cfg string `json:"cfg"`
	Ops []Op   `json:"ops"`
}

func runHistory(kind, cfg string, ops []Op, r *hx.Rng, tr *hx.Trace) {
	logLines = nil
	w := newWorld(cfg, r)
	rec := &hx.Record{Kind: kind, Case: histCase{cfg, ops}, Oracle: "ok"}

	fail := func(sig, detail string) {
		if rec.Oracle == "ok" {
			rec.Oracle, rec.Sig, rec.Detail = "fail", sig, detail
		}
	}

	var (
		obs      []Obs
		coqOps   []string
		coqObs   []string
		class    []string
		nWrites  int
		nontrivl bool
	)

	for i, op := range ops {
		o := w.apply(i, op, r.Fork(uint64(1000+i)))
		obs = append(obs, o)
		coqOps = append(coqOps, coqOp(op, i, o))
		coqObs = append(coqObs, "("+hx.CoqList(o.Writes)+", "+hx.CoqList(o.Outs)+", "+hx.CoqBool(o.OK)+")")
		class = append(class, fmt.Sprintf("%s/%s/%v/%d", op.Kind, op.KT, o.OK, len(o.Writes)))
		nWrites += len(o.Writes)

		if o.Bad != "" {
			fail("stored-form:"+strings.Fields(o.Bad)[0]+"-"+strings.Fields(o.Bad)[1], fmt.Sprintf("op %d (%+v): %s", i, op, o.Bad))
		}

		if op.Kind == "rotate" || op.Kind == "import" || op.Kind == "importbad" || op.Kind == "box" || op.Kind == "reopen" {
			nontrivl = true
		}
	}

	if len(w.unparsed) > 0 {
		fail("harness:key-proto-unparsed", "no key_value field found in "+strings.Join(w.unparsed, ","))
	}

	for _, l := range logLines {
		w.see("log line", []byte(l))
	}

	// (iii) nothing the adversary sees contains secret bytes in any of the encodings
	if sig, detail := w.scan(); sig != "" {
		fail(sig, detail)
	}

	// the protected master key, rebuilt: it must open under the harness's own derivation from the passphrase
	protT := "[]"

	if !isRawCfg(cfg) {
		t, ok := w.blob(cfg, w.protected, w.masterKey, "the protected master key")
		protT = "[" + t + "]"

		if !ok {
			fail("protected-master:not-under-derived-key", "the protected master key does not open under the passphrase-derived key")
		}

		// a master key roll-over by the SAME lock instance (two more protections), and one by a NEW lock instance
		if ml, err := masterLock(cfg, w.passphrase, w.salt); err == nil {
			for i := 0; i < 2; i++ {
				nk := r.Fork(uint64(777 + i)).Bytes(32)
				if enc, e := ml.Encrypt("", &secretlock.EncryptRequest{Plaintext: string(nk)}); e == nil {
					if _, ok = w.blob(cfg, enc.Ciphertext, nk, fmt.Sprintf("roll-over %d by one lock instance", i)); !ok {
						fail("protected-master:not-under-derived-key", "a rolled-over master key does not open under the passphrase-derived key")
					}
				}
			}
		}
	}

	// (iv) a key manager opened over the same store with another master key reads nothing;
	//      the right one reads every live id; a wrong passphrase does not even open the lock
	wrongReads, wrongUnlocks := false, false

	// first the rightful key manager (same process) reads and uses every id: whatever it may cache must not serve others
	for _, is := range w.issued {
		if h, e := w.kms.Get(is.id); e == nil {
			_, _, _ = w.kms.ExportPubKeyBytes(is.id)
			w.use(h)

			if cb, e2 := localkms.NewCryptoBox(w.kms); e2 == nil {
				_, _ = safeEasy(cb, []byte("x"), make([]byte, cryptoutil.NonceSize), make([]byte, 32), is.id)
			}
		}
	}

	flipped := append([]byte(nil), w.masterKey...)
	flipped[7] ^= 0x40
	probes := []struct {
		what string
		key  []byte
	}{
		{"a master key differing in one bit", flipped},
		{"the all-zero master key", make([]byte, len(w.masterKey))},
		{"another random master key", r.Fork(424242).Bytes(len(w.masterKey))},
	}

	for _, pr := range probes {
		deliveries := []string{cfg}
		if isRawCfg(cfg) && cfg != "rawbin" {
			deliveries = append(deliveries, "rawbin")
		}

		for _, dl := range deliveries {
			prot2 := ""

			if !isRawCfg(dl) {
				ml, _ := masterLock(dl, w.passphrase, w.salt)
				if enc, err := ml.Encrypt("", &secretlock.EncryptRequest{Plaintext: string(pr.key)}); err == nil {
					prot2 = enc.Ciphertext

					if _, ok := w.blob(dl, prot2, pr.key, "another master key protected by a new lock instance"); !ok {
						fail("protected-master:not-under-derived-key", "a second protected master key does not open under the passphrase-derived key")
					}
				}
			}

			wl, err := newLock(dl, pr.key, prot2, w.passphrase, w.salt)
			if err != nil {
				continue
			}

			// the intruding key manager: over THE store object and URI of the rightful one (same process), and over a
			// fresh wrapper of the same provider; every entry point that reads a key
			for mi, k2 := range []*localkms.LocalKMS{w.openOn(wl, w.store), w.open(wl, false)} {
				how := fmt.Sprintf("%s (%s, %s)", pr.what, dl, []string{"same store object", "fresh store wrapper"}[mi])

				for _, is := range append(append([]issuedID{}, w.issued...), w.odd...) {
					if _, e := k2.Get(is.id); e == nil {
						wrongReads = true

						fail("wrong-master-key:reads", fmt.Sprintf("Get(%q) succeeded in a key manager opened with %s", is.id, how))
					}

					if _, _, e := k2.ExportPubKeyBytes(is.id); e == nil {
						wrongReads = true

						fail("wrong-master-key:exports", fmt.Sprintf("ExportPubKeyBytes(%q) succeeded with %s", is.id, how))
					}

					if cb, e := localkms.NewCryptoBox(k2); e == nil {
						if _, e = safeEasy(cb, []byte("x"), make([]byte, cryptoutil.NonceSize), make([]byte, 32), is.id); e == nil {
							wrongReads = true

							fail("wrong-master-key:cryptobox", fmt.Sprintf("CryptoBox.Easy with key %q succeeded with %s", is.id, how))
						}
					}

					if _, _, e := k2.Rotate(kmsapi.KeyType(is.kt), is.id); e == nil {
						wrongReads = true

						fail("wrong-master-key:rotates", fmt.Sprintf("Rotate(%q) succeeded with %s", is.id, how))
					}
				}
			}
		}
	}

	if !isRawCfg(cfg) {
		for _, wp := range w.confusable {
			if wp == w.passphrase || wp == "" {
				continue
			}

			wl, err := newLock(cfg, nil, w.protected, wp, w.salt)
			if err != nil {
				continue
			}

			wrongUnlocks = true

			fail("wrong-passphrase:unlocks", fmt.Sprintf("local.NewService succeeded with the passphrase %q instead of %q", wp, w.passphrase))

			k2 := w.open(wl, false)
			for _, is := range w.issued {
				if _, e := k2.Get(is.id); e == nil {
					fail("wrong-passphrase:reads", fmt.Sprintf("Get(%q) succeeded under the passphrase %q", is.id, wp))
				}
			}
		}

		// a configured master lock accepts nothing but a blob IT can decrypt: not the plain master key in any form, not
		// garbage of key length, not a blob protected under another passphrase — whatever passphrase the lock has
		if otherLock, e := masterLock(cfg, "another-"+w.passphrase, w.salt); e == nil {
			rnd := r.Fork(31337).Bytes(32)
			forms := []struct {
				what string
				data []byte
			}{
				{"the plain master key as base64URL text", []byte(base64.URLEncoding.EncodeToString(w.masterKey))},
				{"the plain master key as raw bytes", w.masterKey},
				{"32 random bytes", rnd},
				{"base64URL text of 32 random bytes", []byte(base64.URLEncoding.EncodeToString(rnd))},
				{"base64URL text of 16 random bytes", []byte(base64.URLEncoding.EncodeToString(rnd[:16]))},
			}

			if enc, e2 := otherLock.Encrypt("", &secretlock.EncryptRequest{Plaintext: string(w.masterKey)}); e2 == nil {
				forms = append(forms, struct {
					what string
					data []byte
				}{"the master key protected under another passphrase", []byte(enc.Ciphertext)})
			}

			for _, f := range forms {
				for _, pass := range []string{w.passphrase, w.passphrase + "x"} {
					ml, e3 := masterLock(cfg, pass, w.salt)
					if e3 != nil {
						continue
					}

					svc, e3 := local.NewService(bytes.NewReader(append([]byte(nil), f.data...)), ml)
					if e3 != nil {
						continue
					}

					wrongUnlocks = true

					fail("master-lock:accepts-unprotected-key", fmt.Sprintf("local.NewService with a %s master lock accepted %s as master key data", cfg, f.what))

					k2 := w.openOn(svc, w.store)
					for _, is := range w.issued {
						if _, e4 := k2.Get(is.id); e4 == nil {
							fail("master-lock:reads", fmt.Sprintf("Get(%q) succeeded through a lock opened from %s", is.id, f.what))
						}
					}
				}
			}
		}

		if _, err := newLock(cfg, nil, w.protected, w.passphrase, append([]byte{1}, w.salt...)); err == nil {
			wrongUnlocks = true

			fail("wrong-salt:unlocks", "local.NewService succeeded with another salt")
		}
	}

	// the right lock, built afresh, reads everything that is live
	if rl, err := newLock(cfg, w.masterKey, w.protected, w.passphrase, w.salt); err != nil {
		fail("right-lock:fails", err.Error())
	} else {
		k3 := w.open(rl, false)
		live := map[string]bool{}

		for i, op := range ops {
			_ = i
			_ = op
		}

		for _, is := range w.issued {
			live[is.id] = true
		}

		// ids replaced by a rotation are gone; read what the store still has
		n := 0

		for id := range live {
			if _, e := k3.Get(id); e == nil {
				n++
			}
		}

		if len(w.issued) > 0 && n == 0 {
			fail("right-lock:reads-nothing", "a key manager opened with the right master key reads no issued id")
		}
	}

	if w.reuse != "" {
		fail("nonce-reuse", w.reuse)
	}

	cfgT := map[string]string{"hkdf": "LHkdf", "pbkdf2": "LPbkdf2"}[cfg]
	if isRawCfg(cfg) {
		cfgT = "LRaw"
	}
	rec.Coq = fmt.Sprintf("{| c_cfg := %s; c_ops := %s; c_obs := %s; c_protected := %s; c_wrong_master_reads := %s; c_wrong_pass_unlocks := %s; c_nblobs := %d%%nat; c_events := %s |}",
		cfgT, hx.CoqList(coqOps), hx.CoqList(coqObs), protT, hx.CoqBool(wrongReads), hx.CoqBool(wrongUnlocks),
		len(w.blobEvents), hx.CoqList(append(append([]string{}, w.blobEvents...), w.writeEvents...)))
	for _, op := range ops {
		if op.RotKT != "" {
			rec.Coq = "" // Rotate with another key type: stored-form oracle, byte scan and wrong-lock probes only
		}
	}

	rec.Observed = map[string]interface{}{"ops": obs, "secrets_tracked": len(w.secrets), "haystacks": len(w.hay)}
	rec.Class = cfg + ":" + strings.Join(class, ",")
	rec.Trivial = !nontrivl && nWrites < 2
	rec.Dist = []string{"cfg=" + cfg, fmt.Sprintf("len=%d", len(ops))}

	for _, op := range ops {
		rec.Dist = append(rec.Dist, "op="+op.Kind)
		if op.KT != "" {
			rec.Dist = append(rec.Dist, "kt="+op.KT)
		}
	}

	tr.Put(rec)
}

// ---------- generators ----------

func issuedBy(ops []Op) int {
	n := 0

	for _, o := range ops {
		if o.Kind == "create" || o.Kind == "import" || o.Kind == "rotate" {
			n++
		}

		if o.Kind == "createx" {
			if kt := ktByName(o.KT); kt != nil && kt.asym {
				n++
			}
		}
	}

	return n
}

func enumerate(alpha []Op, maxLen int, f func([]Op)) {
	var rec func(prefix []Op)

	rec = func(prefix []Op) {
		if len(prefix) > 0 {
			f(append([]Op{}, prefix...))
		}

		if len(prefix) == maxLen {
			return
		}

		for _, o := range alpha {
			if (o.Kind == "rotate" || o.Kind == "get" || o.Kind == "export" || o.Kind == "box") && o.Ref > issuedBy(prefix) {
				continue
			}

			rec(append(append([]Op{}, prefix...), o))
		}
	}

	rec(nil)
}

func randomHistory(r *hx.Rng, n int) []Op {
	var ops []Op

	var imp []ktInfo

	for _, k := range ktypes {
		if k.imp != "" {
			imp = append(imp, k)
		}
	}

	for len(ops) < n {
		is := issuedBy(ops)

		switch x := r.Intn(100); {
		case x < 30 || is == 0:
			o := Op{Kind: "create", KT: ktypes[r.Intn(len(ktypes))].name}
			if r.Intn(3) == 0 {
				o.Kind = "createx"
			}

			ops = append(ops, o)
		case x < 40:
			ops = append(ops, Op{Kind: "import", KT: imp[r.Intn(len(imp))].name, UID: r.Bool()})
		case x < 45:
			ops = append(ops, Op{Kind: "importbad", KT: imp[r.Intn(len(imp))].name,
				Bad: []string{"curve", "offcurve", "nild", "nilx", "kind", "nil", "dup", "existing", "putfail"}[r.Intn(9)]})
		case x < 52:
			ops = append(ops, Op{Kind: "box", Ref: r.Intn(is + 1)})
		case x < 75:
			ops = append(ops, Op{Kind: "rotate", Ref: r.Intn(is + 1)})
		case x < 84:
			ops = append(ops, Op{Kind: "get", Ref: r.Intn(is + 1)})
		case x < 91:
			ops = append(ops, Op{Kind: "reopen", UID: r.Bool()})
		default:
			ops = append(ops, Op{Kind: "export", Ref: r.Intn(is + 1)})
		}
	}

	return ops
}

func main() {
	arieslog.Initialize(capProvider{})
	arieslog.SetLevel("", spilog.DEBUG)

	args := hx.ParseArgs()
	tr := hx.NewTrace(args.Out)

	defer tr.Close()

	rng := hx.NewRng(args.Seed)
	cfgs := []string{"raw", "hkdf", "pbkdf2", "rawbin", "rawfile", "rawfileb64", "rawenv"}

	if args.Replay != "" {
		b, err := os.ReadFile(args.Replay)
		if err != nil {
			fmt.Fprintln(os.Stderr, err)
			os.Exit(2)
		}

		var c struct {
			Case histCase `json:"case"`
			Cfg  string   `json:"cfg"`
			Ops  []Op     `json:"ops"`
		}

		_ = json.Unmarshal(b, &c)
		if len(c.Case.Ops) == 0 {
			c.Case = histCase{c.Cfg, c.Ops}
		}

		if c.Case.Cfg == "" {
			c.Case.Cfg = "raw"
		}

		runHistory("replay", c.Case.Cfg, c.Case.Ops, rng.Fork(1), tr)

		return
	}

	n := uint64(0)
	next := func() *hx.Rng { n++; return rng.Fork(n) }

	files, _ := filepath.Glob(filepath.Join(args.Extra, "*.json"))
	sort.Strings(files)

	for _, f := range files {
		b, err := os.ReadFile(f)
		if err != nil {
			continue
		}

		var c histCase
		if json.Unmarshal(b, &c) != nil || len(c.Ops) == 0 {
			fmt.Fprintln(os.Stderr, "bad corpus file", f)
			os.Exit(2)
		}

		runHistory("corpus:"+filepath.Base(f), c.Cfg, c.Ops, next(), tr)
	}

	// every key type under every lock configuration: create, export, rotate twice, read; import where possible
	for _, cfg := range cfgs {
		for _, kt := range ktypes {
			ops := []Op{{Kind: "create", KT: kt.name}, {Kind: "createx", KT: kt.name}, {Kind: "reopen"}, {Kind: "rotate", Ref: 0},
				{Kind: "export", Ref: 1}, {Kind: "reopen", UID: true}, {Kind: "rotate", Ref: 1}, {Kind: "get", Ref: 2}, {Kind: "get", Ref: 0}}
			if kt.imp != "" {
				ops = append(ops, Op{Kind: "import", KT: kt.name}, Op{Kind: "import", KT: kt.name, UID: true},
					Op{Kind: "rotate", Ref: issuedBy(ops)})
			}

			runHistory("sweep", cfg, ops, next(), tr)
		}
	}

	// all histories up to length 2 (quick) / 3 (thorough) over a small alphabet, every configuration
	// failing / odd imports: every importable key type x every defect; each followed by ordinary operations
	for ci, cfg := range cfgs {
		for _, kt := range ktypes {
			if kt.imp == "" {
				continue
			}

			for bi, bad := range []string{"curve", "offcurve", "nild", "nilx", "kind", "nil", "dup", "existing", "putfail"} {
				if (bi+ci)%2 == 1 && args.Tier != "thorough" {
					continue // quick: half of the defects per configuration, alternating
				}

				runHistory("importbad", cfg, []Op{{Kind: "create", KT: kt.name}, {Kind: "importbad", KT: kt.name, Bad: bad},
					{Kind: "import", KT: kt.name}, {Kind: "rotate", Ref: 1}, {Kind: "get", Ref: 1}}, next(), tr)
			}
		}
	}

	// import-only secp256k1 keys (DER signatures) beside the exportable kind; Rotate with another key type than the
	// keyset's (outside the model): whatever is written must be an envelope under the master key, nothing may leak
	for i, cfg := range cfgs {
		runHistory("secp256k1", cfg, []Op{{Kind: "import", KT: "ECDSASecp256k1DER"}, {Kind: "import", KT: "ECDSASecp256k1IEEEP1363"},
			{Kind: "import", KT: "ECDSASecp256k1DER", UID: true}, {Kind: "get", Ref: 0}, {Kind: "rotate", Ref: 1}, {Kind: "export", Ref: 1}}, next(), tr)

		mix := []string{"AES256GCM", "HMACSHA256Tag256", "ED25519", "ECDSAP256DER", "NISTP256ECDHKW", "X25519ECDHKW", "BLS12381G2"}
		for a := range mix {
			b := (a + 1 + i) % len(mix)
			if a == b {
				continue
			}

			runHistory("rotate-mismatch", cfg, []Op{{Kind: "create", KT: mix[a]}, {Kind: "rotate", Ref: 0, RotKT: mix[b]},
				{Kind: "get", Ref: 0}, {Kind: "get", Ref: 1}, {Kind: "create", KT: mix[b]}}, next(), tr)
		}
	}

	// CryptoBox calls, then keys are created / imported / rotated: what is written afterwards is wrapped as before
	for _, cfg := range cfgs {
		for _, kt := range []string{"ED25519", "X25519ECDHKW", "AES256GCM", "ECDSAP256DER"} {
			runHistory("box", cfg, []Op{{Kind: "create", KT: kt}, {Kind: "box", Ref: 0}, {Kind: "create", KT: "ED25519"},
				{Kind: "import", KT: "ED25519"}, {Kind: "box", Ref: 1}, {Kind: "rotate", Ref: 0}, {Kind: "createx", KT: "NISTP256ECDHKW"},
				{Kind: "box", Ref: 2}, {Kind: "import", KT: "ECDSAP384DER", UID: true}, {Kind: "get", Ref: 3}}, next(), tr)
		}
	}

	alpha := []Op{{Kind: "reopen"}, {Kind: "box", Ref: 0}, {Kind: "importbad", KT: "ECDSAP256DER", Bad: "curve"}, {Kind: "create", KT: "AES256GCM"}, {Kind: "create", KT: "ED25519"}, {Kind: "createx", KT: "HMACSHA256Tag256"},
		{Kind: "createx", KT: "NISTP256ECDHKW"}, {Kind: "import", KT: "ED25519"}, {Kind: "import", KT: "ECDSAP256DER", UID: true},
		{Kind: "rotate", Ref: 0}, {Kind: "rotate", Ref: 1}, {Kind: "get", Ref: 0}, {Kind: "export", Ref: 0}, {Kind: "export", Ref: 1}}

	depth, nRandom := 2, 1500
	if args.Tier == "thorough" {
		depth, nRandom = 3, 12000
	}

	for _, cfg := range cfgs {
		c := cfg
		enumerate(alpha, depth, func(ops []Op) { runHistory("exhaustive", c, ops, next(), tr) })
	}

	for i := 0; i < nRandom; i++ {
		r := next()
		runHistory("random", cfgs[i%len(cfgs)], randomHistory(r, 2+r.Intn(11)), r, tr)
	}
}
