// c05, API results as terms: every id and every exported public key the key manager returns is rebuilt as the model's
// term by an argument that does not go through the key manager: the exported bytes are `Pub k` when every coordinate
// they carry is a field of the PUBLIC key proto Tink's own key manager derives from the private key proto of key k
// (found in the decrypted keyset); an id is `Kdf [Pub k]` when it is jwkkid.CreateKID of bytes that are `Pub k`.
package main

import (
	"bytes"
	"crypto/ecdsa"
	"crypto/x509"
	"encoding/json"
	"fmt"

	"github.com/google/tink/go/core/registry"
	tinkpb "github.com/google/tink/go/proto/tink_go_proto"
	"google.golang.org/protobuf/encoding/protowire"

	"github.com/hyperledger/aries-framework-go/component/kmscrypto/doc/util/jwkkid"
	cryptoapi "github.com/hyperledger/aries-framework-go/spi/crypto"
	kmsapi "github.com/hyperledger/aries-framework-go/spi/kms"
)

// storedKeyset: what the harness found (by decryption) under an id at its last write.
type storedKeyset struct {
	ks    *tinkpb.Keyset
	atoms []int
}

// bytesFields collects every length-delimited field of a proto message, recursively (a nested message is a field too).
func bytesFields(b []byte, depth int, out *[][]byte) {
	for len(b) > 0 {
		num, typ, n := protowire.ConsumeTag(b)
		if n < 0 {
			return
		}

		b = b[n:]

		if typ == protowire.BytesType {
			v, m := protowire.ConsumeBytes(b)
			if m < 0 {
				return
			}

			*out = append(*out, v)

			if depth < 4 {
				bytesFields(v, depth+1, out)
			}

			b = b[m:]

			continue
		}

		m := protowire.ConsumeFieldValue(num, typ, b)
		if m < 0 {
			return
		}

		b = b[m:]
	}
}

func stripZeros(b []byte) []byte {
	for len(b) > 0 && b[0] == 0 {
		b = b[1:]
	}

	return b
}

// exportedCoords: the coordinates / raw key inside exported public key bytes (classified by length first).
func exportedCoords(pub []byte) [][]byte {
	switch {
	case len(pub) == 32 || len(pub) == 96:
		return [][]byte{pub}
	case (len(pub) == 65 || len(pub) == 97 || len(pub) == 133) && pub[0] == 4:
		h := (len(pub) - 1) / 2
		return [][]byte{pub[1 : 1+h], pub[1+h:]}
	case len(pub) > 2 && pub[0] == 0x30:
		if k, err := x509.ParsePKIXPublicKey(pub); err == nil {
			if e, ok := k.(*ecdsa.PublicKey); ok {
				return [][]byte{e.X.Bytes(), e.Y.Bytes()}
			}
		}
	case len(pub) > 0 && pub[0] == '{':
		var pk cryptoapi.PublicKey
		if json.Unmarshal(pub, &pk) == nil && len(pk.X) > 0 {
			if len(pk.Y) > 0 {
				return [][]byte{pk.X, pk.Y}
			}

			return [][]byte{pk.X}
		}
	}

	return nil
}

// pubTerm: `Pub k` when the exported bytes carry exactly the public key of the primary key of the keyset stored under id.
func (w *world) pubTerm(id string, pub []byte) string {
	sk, ok := w.storedKS[id]
	if !ok || sk.ks == nil {
		return "Junk 999989"
	}

	for i, k := range sk.ks.Key {
		if k.KeyId != sk.ks.PrimaryKeyId {
			continue
		}

		km, err := registry.GetKeyManager(k.KeyData.TypeUrl)
		if err != nil {
			return "Junk 999988"
		}

		pkm, ok := km.(registry.PrivateKeyManager)
		if !ok {
			return "Junk 999987"
		}

		pd, err := pkm.PublicKeyData(k.KeyData.Value)
		if err != nil {
			return "Junk 999986"
		}

		var fields [][]byte

		bytesFields(pd.Value, 0, &fields)

		coords := exportedCoords(pub)
		if len(coords) == 0 {
			return "Junk 999985"
		}

		for _, c := range coords {
			found := false

			for _, f := range fields {
				if len(stripZeros(c)) >= 16 && bytes.Equal(stripZeros(f), stripZeros(c)) {
					found = true
				}
			}

			if !found {
				return "Junk 999984"
			}
		}

		return fmt.Sprintf("Pub %d", sk.atoms[i])
	}

	return "Junk 999983"
}

// idTerm: `Kdf [Pub k]` when id is the thumbprint id (jwkkid.CreateKID) of bytes that are `Pub k` for the keyset stored
// under it; `Junk pos` for an id that the caller chose or that has the form of the key manager's random ids.
func (w *world) idTerm(id, kt string, pos int, chosen string) string {
	if chosen != "" && id == chosen {
		return fmt.Sprintf("Junk %d", pos)
	}

	if pub, _, err := w.kms.ExportPubKeyBytes(id); err == nil {
		if kid, e := jwkkid.CreateKID(pub, kmsapi.KeyType(kt)); e == nil && kid == id {
			if t := w.pubTerm(id, pub); len(t) > 4 && t[:4] == "Pub " {
				return "Kdf [" + t + "]"
			}
		}
	}

	return fmt.Sprintf("Junk %d", pos)
}
