// Package c14env is a snapshot (commit ceabcbd) of c01env/env.go, private to the C14 harness so that it does not break
// when the C01/C02 harness world changes its API: the world shared by the C01 and C02 harnesses: parties with one real KMS each, keys of every
// key-agreement type, a VDR stub that serves DID documents built from the public keys, and the real packers/packager.
package c14env

import (
	"encoding/json"
	"errors"
	"fmt"
	"os"
	"runtime/debug"
	"strings"

	"github.com/btcsuite/btcutil/base58"

	"github.com/hyperledger/aries-framework-go/component/kmscrypto/crypto/tinkcrypto"
	"github.com/hyperledger/aries-framework-go/component/kmscrypto/doc/jose"
	"github.com/hyperledger/aries-framework-go/component/kmscrypto/doc/util/jwkkid"
	"github.com/hyperledger/aries-framework-go/component/kmscrypto/doc/util/kmsdidkey"
	"github.com/hyperledger/aries-framework-go/component/kmscrypto/kms/localkms"
	"github.com/hyperledger/aries-framework-go/component/models/did"
	"github.com/hyperledger/aries-framework-go/component/storageutil/mem"
	"github.com/hyperledger/aries-framework-go/pkg/didcomm/packager"
	"github.com/hyperledger/aries-framework-go/pkg/didcomm/packer"
	"github.com/hyperledger/aries-framework-go/pkg/didcomm/packer/anoncrypt"
	"github.com/hyperledger/aries-framework-go/pkg/didcomm/packer/authcrypt"
	legacyanon "github.com/hyperledger/aries-framework-go/pkg/didcomm/packer/legacy/anoncrypt"
	legacyauth "github.com/hyperledger/aries-framework-go/pkg/didcomm/packer/legacy/authcrypt"
	"github.com/hyperledger/aries-framework-go/pkg/didcomm/transport"
	mockkms "github.com/hyperledger/aries-framework-go/pkg/mock/kms"
	mockprovider "github.com/hyperledger/aries-framework-go/pkg/mock/provider"
	mockvdr "github.com/hyperledger/aries-framework-go/pkg/mock/vdr"
	"github.com/hyperledger/aries-framework-go/pkg/secretlock/noop"
	cryptoapi "github.com/hyperledger/aries-framework-go/spi/crypto"
	"github.com/hyperledger/aries-framework-go/spi/kms"
	vdrspi "github.com/hyperledger/aries-framework-go/spi/vdr"
)

// Key types (model names).
const (
	X25519  = "X25519"
	P256    = "P256"
	P384    = "P384"
	P521    = "P521"
	Ed25519 = "Ed25519"
)

// KTs are the JWE key-agreement key types.
var KTs = []string{X25519, P256, P384, P521}

// Encs are the content encryption algorithms of the JWE packers (model name -> jose value).
var Encs = []string{"A256GCM", "XC20P", "A128CBC", "A192CBC", "A256CBC384", "A256CBC512"}

// EncAlg maps the model name to the jose constant.
func EncAlg(e string) jose.EncAlg {
	switch e {
	case "A256GCM":
		return jose.A256GCM
	case "XC20P":
		return jose.XC20P
	case "A128CBC":
		return jose.A128CBCHS256
	case "A192CBC":
		return jose.A192CBCHS384
	case "A256CBC384":
		return jose.A256CBCHS384
	case "A256CBC512":
		return jose.A256CBCHS512
	}

	return jose.EncAlg(e)
}

func kmsType(kt string) kms.KeyType {
	switch kt {
	case X25519:
		return kms.X25519ECDHKWType
	case P256:
		return kms.NISTP256ECDHKWType
	case P384:
		return kms.NISTP384ECDHKWType
	case P521:
		return kms.NISTP521ECDHKWType
	}

	return kms.ED25519Type
}

// Key is one key pair held by exactly one party.
type Key struct {
	Name   int // the model's key name (global, > 0)
	Owner  int
	KT     string
	KMSKID string
	Bytes  []byte               // exported public key bytes
	Pub    *cryptoapi.PublicKey // ECDH types
	DidKey string
	DocRef string // did:example:k<Name>#key-1 (a document with this single key agreement key)
	PDoc   string // did:example:p<Owner>#key-<Name> (the party's document with all its key agreement keys)
}

// Party is an agent: its own KMS, crypto, packers.
type Party struct {
	ID     int
	KMS    *localkms.LocalKMS
	Crypto *tinkcrypto.Crypto
	w      *World
	pk     map[string]*packager.Packager
}

// World is the set of parties and the public directory.
type World struct {
	Parties []*Party
	Keys    []*Key
	byRef   map[string]*Key
	VDR     *mockvdr.MockVDRegistry
}

// NewWorld creates n parties.
func NewWorld(n int) *World {
	w := &World{byRef: map[string]*Key{}}
	w.VDR = &mockvdr.MockVDRegistry{ResolveFunc: w.resolve}

	for i := 0; i < n; i++ {
		w.AddParty()
	}

	return w
}

// AddParty adds an agent with a fresh KMS.
func (w *World) AddParty() *Party {
	p, err := mockkms.NewProviderForKMS(mem.NewProvider(), &noop.NoLock{})
	if err != nil {
		panic(err)
	}

	k, err := localkms.New("local-lock://x", p)
	if err != nil {
		panic(err)
	}

	c, err := tinkcrypto.New()
	if err != nil {
		panic(err)
	}

	pa := &Party{ID: len(w.Parties), KMS: k, Crypto: c, w: w, pk: map[string]*packager.Packager{}}
	w.Parties = append(w.Parties, pa)

	return pa
}

// NewKey creates a key of the type in the owner's KMS.
func (w *World) NewKey(owner int, kt string) *Key {
	p := w.Parties[owner]

	kid, b, err := p.KMS.CreateAndExportPubKeyBytes(kmsType(kt))
	if err != nil {
		panic(err)
	}

	k := &Key{Name: len(w.Keys) + 1, Owner: owner, KT: kt, KMSKID: kid, Bytes: b}

	k.DidKey, err = kmsdidkey.BuildDIDKeyByKeyType(b, kmsType(kt))
	if err != nil {
		panic(err)
	}

	if kt != Ed25519 {
		k.Pub = &cryptoapi.PublicKey{}
		if e := json.Unmarshal(b, k.Pub); e != nil {
			panic(e)
		}

		k.DocRef = fmt.Sprintf("did:example:k%d#key-1", k.Name)
		k.PDoc = fmt.Sprintf("did:example:p%d#key-%d", owner, k.Name)
		w.byRef[k.DocRef] = k
		w.byRef[k.PDoc] = k
	} else {
		w.byRef[base58.Encode(b)] = k
	}

	w.byRef[k.DidKey] = k
	w.Keys = append(w.Keys, k)

	return k
}

// Ref is the key reference of the style.
func (k *Key) Ref(style string) string {
	switch style {
	case "diddoc":
		return k.DocRef
	case "pdoc":
		return k.PDoc
	case "raw":
		return base58.Encode(k.Bytes)
	}

	return k.DidKey
}

// ByRef finds the key a reference names.
func (w *World) ByRef(ref string) *Key { return w.byRef[ref] }

func (w *World) vm(k *Key, id, controller string) did.Verification {
	j, err := jwkkid.BuildJWK(k.Bytes, kmsType(k.KT))
	if err != nil {
		panic(err)
	}

	typ := "JsonWebKey2020"
	if k.KT == X25519 {
		typ = "X25519KeyAgreementKey2019"
	}

	v, err := did.NewVerificationMethodFromJWK(id, typ, controller, j)
	if err != nil {
		panic(err)
	}

	return did.Verification{VerificationMethod: *v}
}

func (w *World) resolve(id string, _ ...vdrspi.DIDMethodOption) (*did.DocResolution, error) {
	var doc *did.Doc

	switch {
	case strings.HasPrefix(id, "did:example:k"):
		for _, k := range w.Keys {
			if k.Pub != nil && strings.HasPrefix(k.DocRef, id+"#") {
				doc = &did.Doc{ID: id, KeyAgreement: []did.Verification{w.vm(k, k.DocRef, id)}}
			}
		}
	case strings.HasPrefix(id, "did:example:p"):
		doc = &did.Doc{ID: id}

		for _, k := range w.Keys {
			if k.Pub != nil && strings.HasPrefix(k.PDoc, id+"#") {
				doc.KeyAgreement = append(doc.KeyAgreement, w.vm(k, k.PDoc, id))
			}
		}

		if len(doc.KeyAgreement) == 0 {
			doc = nil
		}
	}

	if doc == nil {
		return nil, errors.New("did not found: " + id)
	}

	return &did.DocResolution{DIDDocument: doc}, nil
}

func (p *Party) provider() *mockprovider.Provider {
	return &mockprovider.Provider{KMSValue: p.KMS, CryptoValue: p.Crypto, VDRegistryValue: p.w.VDR}
}

// Packer returns the party's packer of the kind ("jwe-auth", "jwe-anon", "leg-auth", "leg-anon").
func (p *Party) Packer(kind, enc string) (packer.Packer, error) {
	switch kind {
	case "jwe-auth":
		return authcrypt.New(p.provider(), EncAlg(enc))
	case "jwe-anon":
		return anoncrypt.New(p.provider(), EncAlg(enc))
	case "leg-auth":
		return legacyauth.New(p.provider()), nil
	case "leg-anon":
		return legacyanon.New(p.provider()), nil
	}

	return nil, errors.New("unknown packer " + kind)
}

// Packager returns the party's packager with all four packers (JWE packers with the given enc).  When the JWE
// authcrypt packer does not admit the enc the error is returned (a pack-side rejection).
func (p *Party) Packager(enc string) (*packager.Packager, error) {
	if pk, ok := p.pk[enc]; ok {
		return pk, nil
	}

	prov := p.provider()

	var list []packer.Packer

	for _, kind := range []string{"jwe-auth", "jwe-anon", "leg-auth", "leg-anon"} {
		pp, err := p.Packer(kind, enc)
		if err != nil {
			if kind == "jwe-auth" {
				continue // anoncrypt-only packager (A256GCM)
			}

			return nil, err
		}

		list = append(list, pp)
	}

	prov.PackerList = list
	prov.PackerValue = list[0]

	pk, err := packager.New(prov)
	if err != nil {
		return nil, err
	}

	p.pk[enc] = pk

	return pk, nil
}

// PackagerPrim returns the party's packager with all four packers and the given one ("jwe-auth", "jwe-anon",
// "leg-auth", "leg-anon") as the PRIMARY packer — the one the packager falls back to for a media type profile it has no
// packer for.
func (p *Party) PackagerPrim(enc, prim string) (*packager.Packager, error) {
	if pk, ok := p.pk[enc+"|"+prim]; ok {
		return pk, nil
	}

	prov := p.provider()

	var list []packer.Packer

	for _, kind := range []string{prim, "jwe-auth", "jwe-anon", "leg-auth", "leg-anon"} {
		if kind == prim && len(list) > 0 {
			continue
		}

		pp, err := p.Packer(kind, enc)
		if err != nil {
			if kind == "jwe-auth" && prim != "jwe-auth" {
				continue
			}

			return nil, err
		}

		list = append(list, pp)
	}

	prov.PackerList = list
	prov.PackerValue = list[0]

	pk, err := packager.New(prov)
	if err != nil {
		return nil, err
	}

	p.pk[enc+"|"+prim] = pk

	return pk, nil
}

// Profile is the media type profile that selects the packer family in the packager.
func Profile(kind string) string {
	if strings.HasPrefix(kind, "leg") {
		return transport.MediaTypeRFC0019EncryptedEnvelope
	}

	return transport.MediaTypeDIDCommV2Profile
}

// SenderID is the senderID argument of a JWE packer's Pack for this key and style: "<kms kid>.<skid>".
func (k *Key) SenderID(style string) []byte { return []byte(k.KMSKID + "." + k.Ref(style)) }

// RecipientArg is the recipient public key argument of a packer's Pack.
func (k *Key) RecipientArg(style string) []byte {
	if k.Pub == nil {
		return k.Bytes
	}

	pk := *k.Pub
	pk.KID = k.Ref(style)

	b, err := json.Marshal(&pk)
	if err != nil {
		panic(err)
	}

	return b
}

// Unpacked is the projected result of an unpack.
type Unpacked struct {
	Out     string `json:"out"` // ok | err | panic
	Err     string `json:"err,omitempty"`
	Message []byte `json:"-"`
	From    int    `json:"from"` // key name, 0 = none, -1 = a key not in the world / not matching
	To      int    `json:"to"`
}

func (w *World) keyOfJSON(b []byte) int {
	if len(b) == 0 {
		return 0
	}

	pk := &cryptoapi.PublicKey{}
	if json.Unmarshal(b, pk) == nil && pk.KID != "" {
		k := w.byRef[pk.KID]
		if k == nil || k.Pub == nil {
			return -1
		}

		// (the curve is named "NIST_P256" by the KMS export and "P-256" by the DID-document resolver: same key)
		if string(k.Pub.X) != string(pk.X) || string(k.Pub.Y) != string(pk.Y) || k.Pub.Type != pk.Type {
			return -1
		}

		return k.Name
	}

	// legacy: raw Ed25519 key
	if k := w.byRef[base58.Encode(b)]; k != nil {
		return k.Name
	}

	return -1
}

// Project turns an unpack result into the observables.
func (w *World) Project(env *transport.Envelope, err error) Unpacked {
	if err != nil || env == nil {
		s := ""
		if err != nil {
			s = err.Error()
		}

		return Unpacked{Out: "err", Err: s}
	}

	return Unpacked{Out: "ok", Message: env.Message, From: w.keyOfJSON(env.FromKey), To: w.keyOfJSON(env.ToKey)}
}

// Fence runs f and turns a panic into outcome "panic".
func Fence(f func() Unpacked) (u Unpacked) {
	defer func() {
		if r := recover(); r != nil {
			u = Unpacked{Out: "panic", Err: fmt.Sprint(r)}

			if os.Getenv("VERIF_STACK") != "" {
				fmt.Fprintf(os.Stderr, "panic: %v\n%s\n", r, debug.Stack())
			}
		}
	}()

	return f()
}
