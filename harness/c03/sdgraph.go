package main

import (
	"crypto/sha256"
	"encoding/base64"
	"encoding/json"
	"errors"
	"fmt"
	"strings"

	"github.com/hyperledger/aries-framework-go/component/kmscrypto/doc/jose"
	afjwt "github.com/hyperledger/aries-framework-go/component/models/jwt"
	"github.com/hyperledger/aries-framework-go/component/models/sdjwt/holder"
	sdverifier "github.com/hyperledger/aries-framework-go/component/models/sdjwt/verifier"
)

// ---------- the proportion oracle ----------

// ampErr: what an entry point handed back is out of all proportion to what it was given.
type ampErr struct{ in, out int }

func (e *ampErr) Error() string {
	return fmt.Sprintf("output of %d bytes for an input of %d bytes", e.out, e.in)
}

func isAmp(err error) bool {
	var a *ampErr
	return errors.As(err, &a)
}

// proportion judges the value a decoding entry point returned: serialised it must stay within 64 x the input + 64 KiB
// (no decoder of the framework legitimately expands its input by more than its own field names).
func proportion(in []byte, v interface{}, err error) error {
	if err != nil {
		return err
	}

	out, e := json.Marshal(v)
	if e != nil {
		return nil
	}

	if len(out) > 64*len(in)+(1<<16) { //nolint:gomnd
		return &ampErr{in: len(in), out: len(out)}
	}

	return nil
}

// ---------- SD-JWTs whose disclosures reference each other in shapes no honest issuer builds ----------

func sdDisc(parts ...interface{}) (string, string) {
	raw, err := json.Marshal(parts)
	must(err)

	d := base64.RawURLEncoding.EncodeToString(raw)
	h := sha256.Sum256([]byte(d))

	return d, base64.RawURLEncoding.EncodeToString(h[:])
}

// a disclosure graph: the disclosures and the digests the payload refers to
type sdGraph struct {
	discs []string
	tops  []string
}

// sdGraphs builds, for one reference form (array elements {"...": digest} / nested objects with _sd), the shapes
//
//	chain      every level refers to the level below once
//	diamond    every level refers to two different disclosures which both refer to the SAME disclosure below
//	twice      every level refers to the level below twice in one value
//	shared     n different disclosures under the top all refer to one leaf
//	payload+   the payload refers to the top and, again, to the leaf
//	dangling   a reference without a disclosure, and a disclosure nobody refers to
func sdGraphs(objForm bool, depth int) map[string]sdGraph {
	n := 0

	// a disclosure whose value refers to the given digests
	node := func(digests ...string) (string, string) {
		n++
		salt := fmt.Sprintf("s%d", n)

		if objForm {
			sd := make([]interface{}, len(digests))
			for i, d := range digests {
				sd[i] = d
			}

			return sdDisc(salt, fmt.Sprintf("m%d", n), map[string]interface{}{"_sd": sd})
		}

		arr := make([]interface{}, len(digests))
		for i, d := range digests {
			arr[i] = map[string]interface{}{"...": d}
		}

		return sdDisc(salt, arr)
	}

	leaf := func() (string, string) {
		n++

		if objForm {
			return sdDisc(fmt.Sprintf("s%d", n), fmt.Sprintf("m%d", n), "leaf")
		}

		return sdDisc(fmt.Sprintf("s%d", n), "leaf")
	}

	out := map[string]sdGraph{}

	{ // chain
		d, top := leaf()
		g := sdGraph{discs: []string{d}}

		for k := 0; k < depth; k++ {
			d, top = node(top)
			g.discs = append(g.discs, d)
		}

		g.tops = []string{top}
		out["chain"] = g
	}

	{ // diamond
		d, top := leaf()
		g := sdGraph{discs: []string{d}}

		for k := 0; k < depth; k++ {
			da, ha := node(top)
			db, hb := node(top)
			d, top = node(ha, hb)
			g.discs = append(g.discs, da, db, d)
		}

		g.tops = []string{top}
		out["diamond"] = g
	}

	{ // twice
		d, top := leaf()
		g := sdGraph{discs: []string{d}}

		for k := 0; k < depth; k++ {
			d, top = node(top, top)
			g.discs = append(g.discs, d)
		}

		g.tops = []string{top}
		out["twice"] = g
	}

	{ // shared
		d, lf := leaf()
		g := sdGraph{discs: []string{d}}

		var mids []string

		for k := 0; k < depth+1; k++ {
			dm, hm := node(lf)
			g.discs = append(g.discs, dm)
			mids = append(mids, hm)
		}

		d, top := node(mids...)
		g.discs = append(g.discs, d)
		g.tops = []string{top}
		out["shared"] = g
	}

	{ // payload+
		d, lf := leaf()
		g := sdGraph{discs: []string{d}}
		top := lf

		for k := 0; k < depth; k++ {
			d, top = node(top)
			g.discs = append(g.discs, d)
		}

		g.tops = []string{top, lf}
		out["payload+"] = g
	}

	{ // dangling
		d, lf := leaf()
		_, ghost := leaf()
		d2, top := node(lf, ghost)
		d3, _ := leaf()
		out["dangling"] = sdGraph{discs: []string{d, d2, d3}, tops: []string{top}}
	}

	return out
}

func (s *syncWorld) sdGraphSeeds(signer jose.Signer, ver jose.SignatureVerifier, thorough bool) {
	depths := []int{1, 2, 3, 6, 12, 18}
	if thorough {
		depths = append(depths, 21) //nolint:gomnd
	}

	hp := func(in []byte) error {
		cl, e := holder.Parse(string(in), holder.WithSignatureVerifier(ver))
		return proportion(in, cl, e)
	}
	vp := func(in []byte) error {
		cl, e := sdverifier.Parse(string(in), sdverifier.WithSignatureVerifier(ver))
		return proportion(in, cl, e)
	}

	for _, objForm := range []bool{false, true} {
		for _, depth := range depths {
			for shape, g := range sdGraphs(objForm, depth) {
				payload := map[string]interface{}{"iss": "did:example:iss", "_sd_alg": "sha-256", "exp": 4600000000}

				if objForm {
					sd := make([]interface{}, len(g.tops))
					for i, d := range g.tops {
						sd[i] = d
					}

					payload["_sd"] = sd
				} else {
					arr := make([]interface{}, len(g.tops))
					for i, d := range g.tops {
						arr[i] = map[string]interface{}{"...": d}
					}

					payload["data"] = arr
				}

				tok, err := afjwt.NewSigned(payload, jose.Headers{"typ": "JWT"}, signer)
				must(err)

				ser, err := tok.Serialize(false)
				must(err)

				form := "arr"
				if objForm {
					form = "obj"
				}

				name := fmt.Sprintf("sdgraph.%s.%s.d%d", form, shape, depth)
				kind := "fixed"

				if depth == 2 { //nolint:gomnd
					kind = "token" // the closure around the small ones
				}

				s.add(&Seed{Name: name + ".issuance", Layer: "E7", Kind: kind,
					Wire: []byte(ser + "~" + strings.Join(g.discs, "~")), Targets: []Target{{"sdjwt/holder.Parse", hp}}})
				s.add(&Seed{Name: name + ".presentation", Layer: "E7", Kind: kind,
					Wire: []byte(ser + "~" + strings.Join(g.discs, "~") + "~"), Targets: []Target{{"sdjwt/verifier.Parse", vp}}})
			}
		}
	}
}
