package main

import (
	"bytes"
	"encoding/base64"
	"encoding/json"
	"fmt"
	"sort"
	"strings"
)

// The type-confusion closure works on an "exploded" tree: ordinary JSON values plus wrappers for the encodings the
// framework nests inside strings (base64url(JSON), compact dot-separated segments, SD-JWT '~' lists).  A wrapper keeps
// the original text, so that untouched parts of a mutated object stay byte-identical to what the encoder produced.

// B64 is a string member whose content is base64url(JSON).
type B64 struct {
	Orig  string
	Std   bool // padded URL encoding
	V     interface{}
	Dirty bool
}

// Compact is a dot-separated token; segments are strings or *B64.
type Compact struct {
	Segs []interface{}
}

// Tilde is an SD-JWT combined format; parts are *Compact, *B64 or strings.
type Tilde struct {
	Parts []interface{}
}

func parseJSON(b []byte) (interface{}, bool) {
	d := json.NewDecoder(bytes.NewReader(b))
	d.UseNumber()

	var v interface{}
	if err := d.Decode(&v); err != nil {
		return nil, false
	}

	if d.More() {
		return nil, false
	}

	return v, true
}

func tryB64JSON(s string) *B64 {
	if len(s) < 2 {
		return nil
	}

	for _, std := range []bool{false, true} {
		var (
			b   []byte
			err error
		)

		if std {
			b, err = base64.URLEncoding.DecodeString(s)
		} else {
			b, err = base64.RawURLEncoding.DecodeString(s)
		}

		if err != nil || len(b) == 0 || (b[0] != '{' && b[0] != '[') {
			continue
		}

		if v, ok := parseJSON(b); ok {
			return &B64{Orig: s, Std: std, V: explode(v)}
		}
	}

	return nil
}

func explodeString(s string) interface{} {
	if strings.Contains(s, "~") && strings.Count(strings.SplitN(s, "~", 2)[0], ".") == 2 {
		t := &Tilde{}

		for _, p := range strings.Split(s, "~") {
			t.Parts = append(t.Parts, explodeString(p))
		}

		return t
	}

	if n := strings.Count(s, "."); (n == 2 || n == 4) && !strings.ContainsAny(s, " {:/") {
		segs := strings.Split(s, ".")
		if b := tryB64JSON(segs[0]); b != nil {
			c := &Compact{}

			for _, sg := range segs {
				if bb := tryB64JSON(sg); bb != nil {
					c.Segs = append(c.Segs, bb)
				} else {
					c.Segs = append(c.Segs, sg)
				}
			}

			return c
		}
	}

	if b := tryB64JSON(s); b != nil {
		return b
	}

	return s
}

func explode(v interface{}) interface{} {
	switch t := v.(type) {
	case map[string]interface{}:
		m := make(map[string]interface{}, len(t))
		for k, x := range t {
			m[k] = explode(x)
		}

		return m
	case []interface{}:
		a := make([]interface{}, len(t))
		for i, x := range t {
			a[i] = explode(x)
		}

		return a
	case string:
		return explodeString(t)
	}

	return v
}

// implode turns the exploded tree back into plain JSON values (strings for the wrappers).
func implode(v interface{}) interface{} {
	switch t := v.(type) {
	case map[string]interface{}:
		m := make(map[string]interface{}, len(t))
		for k, x := range t {
			m[k] = implode(x)
		}

		return m
	case []interface{}:
		a := make([]interface{}, len(t))
		for i, x := range t {
			a[i] = implode(x)
		}

		return a
	case *B64:
		if !t.Dirty {
			return t.Orig
		}

		b, err := json.Marshal(implode(t.V))
		if err != nil {
			return t.Orig
		}

		if t.Std {
			return base64.URLEncoding.EncodeToString(b)
		}

		return base64.RawURLEncoding.EncodeToString(b)
	case *Compact:
		ss := make([]string, len(t.Segs))
		for i, s := range t.Segs {
			ss[i] = implodeStr(s)
		}

		return strings.Join(ss, ".")
	case *Tilde:
		ss := make([]string, len(t.Parts))
		for i, s := range t.Parts {
			ss[i] = implodeStr(s)
		}

		return strings.Join(ss, "~")
	}

	return v
}

func implodeStr(v interface{}) string {
	x := implode(v)
	if s, ok := x.(string); ok {
		return s
	}

	b, _ := json.Marshal(x) //nolint:errcheck

	return string(b)
}

// a path step: map key, array index, or "*" into a wrapper.
type step struct {
	key string
	idx int
	in  bool // into a B64 wrapper
}

func (s step) String() string {
	if s.in {
		return "^"
	}

	if s.key != "" {
		return s.key
	}

	return fmt.Sprintf("%d", s.idx)
}

func pathStr(p []step) string {
	ss := make([]string, len(p))
	for i, s := range p {
		ss[i] = s.String()
	}

	return "/" + strings.Join(ss, "/")
}

// paths lists every position of the exploded tree (the root is the empty path).
func paths(v interface{}, cur []step, out *[][]step) {
	*out = append(*out, append([]step{}, cur...))

	switch t := v.(type) {
	case map[string]interface{}:
		ks := make([]string, 0, len(t))
		for k := range t {
			ks = append(ks, k)
		}

		sort.Strings(ks)

		for _, k := range ks {
			paths(t[k], append(cur, step{key: k}), out)
		}
	case []interface{}:
		for i, x := range t {
			paths(x, append(cur, step{idx: i}), out)
		}
	case *B64:
		paths(t.V, append(cur, step{in: true}), out)
	case *Compact:
		for i, x := range t.Segs {
			paths(x, append(cur, step{idx: i}), out)
		}
	case *Tilde:
		for i, x := range t.Parts {
			paths(x, append(cur, step{idx: i}), out)
		}
	}
}

func getAt(v interface{}, p []step) interface{} {
	for _, s := range p {
		switch t := v.(type) {
		case map[string]interface{}:
			v = t[s.key]
		case []interface{}:
			v = t[s.idx]
		case *B64:
			v = t.V
		case *Compact:
			v = t.Segs[s.idx]
		case *Tilde:
			v = t.Parts[s.idx]
		}
	}

	return v
}

type delMark struct{}

// setAt returns a copy of the tree with the value at p replaced (delMark deletes it from its parent).
func setAt(v interface{}, p []step, nv interface{}) interface{} {
	if len(p) == 0 {
		return nv
	}

	s := p[0]
	_, del := nv.(delMark)
	last := len(p) == 1

	switch t := v.(type) {
	case map[string]interface{}:
		m := make(map[string]interface{}, len(t))
		for k, x := range t {
			m[k] = x
		}

		if last && del {
			delete(m, s.key)
		} else {
			m[s.key] = setAt(t[s.key], p[1:], nv)
		}

		return m
	case []interface{}:
		if last && del {
			a := append([]interface{}{}, t[:s.idx]...)
			return append(a, t[s.idx+1:]...)
		}

		a := append([]interface{}{}, t...)
		a[s.idx] = setAt(t[s.idx], p[1:], nv)

		return a
	case *B64:
		if last && del {
			return &B64{Orig: t.Orig, Std: t.Std, V: map[string]interface{}{}, Dirty: true}
		}

		return &B64{Orig: t.Orig, Std: t.Std, V: setAt(t.V, p[1:], nv), Dirty: true}
	case *Compact:
		c := &Compact{Segs: append([]interface{}{}, t.Segs...)}
		if last && del {
			c.Segs = append(c.Segs[:s.idx], c.Segs[s.idx+1:]...)
		} else {
			c.Segs[s.idx] = setAt(t.Segs[s.idx], p[1:], nv)
		}

		return c
	case *Tilde:
		c := &Tilde{Parts: append([]interface{}{}, t.Parts...)}
		if last && del {
			c.Parts = append(c.Parts[:s.idx], c.Parts[s.idx+1:]...)
		} else {
			c.Parts[s.idx] = setAt(t.Parts[s.idx], p[1:], nv)
		}

		return c
	}

	return v
}

// Mut is one single-position mutation.
type Mut struct {
	Path string
	Name string
	Tree interface{}
}

func kindOf(v interface{}) string {
	switch v.(type) {
	case nil:
		return "null"
	case bool:
		return "bool"
	case json.Number, float64:
		return "num"
	case string:
		return "str"
	case []interface{}:
		return "arr"
	case map[string]interface{}:
		return "obj"
	case *B64:
		return "b64json"
	case *Compact:
		return "compact"
	case *Tilde:
		return "tilde"
	}

	return "?"
}

// replacement values of the closure: {null, true, 0, -1, 2^63, "", "x", [], {}, [null], {"a":null}}.
func replacements() []struct {
	n string
	v interface{}
} {
	return []struct {
		n string
		v interface{}
	}{
		{"null", nil}, {"true", true}, {"0", json.Number("0")}, {"-1", json.Number("-1")},
		{"2^63", json.Number("9223372036854775808")}, {"empty-str", ""}, {"str-x", "x"},
		{"empty-arr", []interface{}{}}, {"empty-obj", map[string]interface{}{}},
		{"arr-null", []interface{}{nil}}, {"obj-null", map[string]interface{}{"a": nil}},
	}
}

// closure lists every single-position mutation of the exploded tree.
func closure(tree interface{}) []Mut {
	var ps [][]step

	paths(tree, nil, &ps)

	var out []Mut

	add := func(p []step, name string, nv interface{}) {
		out = append(out, Mut{Path: pathStr(p), Name: name, Tree: setAt(tree, p, nv)})
	}

	for _, p := range ps {
		cur := getAt(tree, p)

		if len(p) > 0 {
			add(p, "delete", delMark{})
		}

		for _, r := range replacements() {
			add(p, r.n, r.v)
		}

		// wrong-typed siblings and shape changes that keep the content
		switch t := cur.(type) {
		case string:
			// a URL-bearing member: the sender can point it at an endpoint of its own
			if strings.HasPrefix(t, "http://") || strings.HasPrefix(t, "https://") {
				for _, k := range []string{"hang", "flood", "redirect"} {
					add(p, "url-"+k, "@HOSTILE:"+k+"@")
				}
			}

			add(p, "str->arr", []interface{}{t})
			add(p, "str->obj", map[string]interface{}{"id": t})

			if len(t) > 0 {
				add(p, "str-trunc", t[:len(t)-1])
				add(p, "str-first", t[:1])
			}

			add(p, "str-ext", t+"A")
			add(p, "str-nonascii", "é"+t)
			add(p, "str-rune", t+"€")
			add(p, "str-badutf8", "\xff"+t)
			add(p, "str-b64-5bytes", "AAAAAAA=")

			// a string that holds 8..40 base64url bytes (nonce / iv / tag like): the same encoding of other lengths
			for _, enc := range []*base64.Encoding{base64.URLEncoding, base64.RawURLEncoding} {
				if b, err := enc.DecodeString(t); err == nil && len(b) >= 8 && len(b) <= 40 {
					for _, n := range []int{0, 1, 11, 12, 13, 16, 24, 32} {
						add(p, fmt.Sprintf("str-b64-len%d", n), enc.EncodeToString(bytes.Repeat([]byte{0xA5}, n)))
					}

					break
				}
			}

			if i := strings.Index(t, "#"); i > 0 {
				add(p, "str-nofrag", t[:i])
			}

			add(p, "str-hash", t+"#")
			add(p, "str-dot", t+".")
		case []interface{}:
			add(p, "arr+null", append(append([]interface{}{}, t...), nil))

			if len(t) > 0 {
				add(p, "arr->first", t[0])
				add(p, "arr-dup", append(append([]interface{}{}, t...), t[0]))
				add(p, "arr-nested", []interface{}{t})
			}
		case map[string]interface{}:
			// an attachment (an object with a data object): content that is only referenced, at a hostile location
			if d, ok := t["data"].(map[string]interface{}); ok {
				for _, k := range hostileKinds {
					c := make(map[string]interface{}, len(t))
					for kk, vv := range t {
						c[kk] = vv
					}

					nd := map[string]interface{}{"links": []interface{}{"@HOSTILE:" + k + "@"}}
					if sha, has := d["sha256"]; has {
						nd["sha256"] = sha
					}

					c["data"] = nd
					add(p, "attach-links-"+k, c)
				}
			}

			// ... or whose inline content decodes to a JSON scalar / an unexpected shape
			if _, ok := t["data"].(map[string]interface{}); ok {
				for _, js := range []string{"null", "7", "[null]", "{}", "\"x\""} {
					c := make(map[string]interface{}, len(t))
					for kk, vv := range t {
						c[kk] = vv
					}

					c["data"] = map[string]interface{}{"base64": base64.StdEncoding.EncodeToString([]byte(js))}
					add(p, "attach-b64-"+js, c)
				}
			}

			// a JOSE header (an object with a string "alg"): every registered header member it does NOT carry is added
			// with a value of each wrong type (decoders test optional members only when they are present)
			if _, isJOSE := t["alg"].(string); isJOSE {
				for _, name := range []string{"typ", "cty", "crit", "b64", "kid", "jwk", "skid", "apu", "apv", "epk", "enc", "zip", "x5c"} {
					if _, has := t[name]; has {
						continue
					}

					for _, v := range []struct {
						n string
						v interface{}
					}{{"null", nil}, {"0", json.Number("0")}, {"arr", []interface{}{}}, {"obj", map[string]interface{}{}}, {"JWT", "JWT"}} {
						c := make(map[string]interface{}, len(t)+1)
						for kk, vv := range t {
							c[kk] = vv
						}

						c[name] = v.v
						add(p, "add-"+name+"-"+v.n, c)
					}
				}
			}

			// a verification method: every type with every form of the key material present / absent / empty
			if _, isVM := t["type"].(string); isVM && hasKeyMember(t) {
				b58, _ := t["publicKeyBase58"].(string)
				if b58 == "" {
					b58 = "H3C2AVvLMv6gmMNam3uVAjZpfkcJCwDwnZn6z3wXmqPV"
				}

				jwkObj, hasJWK := t["publicKeyJwk"]
				if !hasJWK {
					jwkObj = map[string]interface{}{"kty": "OKP", "crv": "Ed25519", "x": "7lC-MdLXkzF4NmnNv7nXkW5iTnRGc3m3qfTzBLCq0Po"}
				}

				forms := []struct {
					n string
					m map[string]interface{}
				}{
					{"none", map[string]interface{}{}},
					{"b58", map[string]interface{}{"publicKeyBase58": b58}},
					{"b58-empty", map[string]interface{}{"publicKeyBase58": ""}},
					{"jwk", map[string]interface{}{"publicKeyJwk": jwkObj}},
					{"jwk-empty", map[string]interface{}{"publicKeyJwk": map[string]interface{}{}}},
					{"jwk-null", map[string]interface{}{"publicKeyJwk": nil}},
					{"multibase", map[string]interface{}{"publicKeyMultibase": "z" + b58}},
					{"multibase-empty", map[string]interface{}{"publicKeyMultibase": ""}},
					{"hex", map[string]interface{}{"publicKeyHex": "00"}},
					{"b58+jwk", map[string]interface{}{"publicKeyBase58": b58, "publicKeyJwk": jwkObj}},
				}

				for _, typ := range []string{"Ed25519VerificationKey2018", "Ed25519VerificationKey2020", "JsonWebKey2020",
					"JwsVerificationKey2020", "X25519KeyAgreementKey2019", "Bls12381G2Key2020", "EcdsaSecp256k1VerificationKey2019"} {
					for _, f := range forms {
						c := map[string]interface{}{}

						for kk, vv := range t {
							if !strings.HasPrefix(kk, "publicKey") {
								c[kk] = vv
							}
						}

						for kk, vv := range f.m {
							c[kk] = vv
						}

						c["type"] = typ
						add(p, "vm-"+typ+"-"+f.n, c)
					}
				}
			}

			// DIDComm V1 / V2 member aliases (@id / id, @type / type): the plain name keeps the value while the
			// decorated one changes type
			for _, k := range sortedKeys(t) {
				if !strings.HasPrefix(k, "@") || len(k) < 2 {
					continue
				}

				for _, r := range []struct {
					n string
					v interface{}
				}{{"null", nil}, {"0", json.Number("0")}, {"arr", []interface{}{}}, {"obj", map[string]interface{}{}}} {
					c := make(map[string]interface{}, len(t)+1)
					for kk, vv := range t {
						c[kk] = vv
					}

					c[k[1:]] = t[k]
					c[k] = r.v
					add(p, "alias"+k+"-"+r.n, c)
				}
			}

			add(p, "obj->arr", []interface{}{t})

			b, _ := json.Marshal(implode(t)) //nolint:errcheck
			add(p, "obj->str", string(b))
		case json.Number:
			add(p, "num->str", t.String())
			add(p, "num-neg", json.Number("-"+strings.TrimPrefix(t.String(), "-")))
			add(p, "num-frac", json.Number("1.5"))
			add(p, "num-huge", json.Number("1e30"))
		case bool:
			add(p, "bool->str", fmt.Sprint(t))
			add(p, "bool-flip", !t)
		case *B64:
			// a token part decoded into a struct: every shape in which one top-level member stands alone or is missing
			// is a payload with nil sub-objects (delete is covered by the member paths)
			if m, ok := t.V.(map[string]interface{}); ok && len(m) <= 16 {
				for _, k := range sortedKeys(m) {
					add(append(append([]step{}, p...), step{in: true}), "only-"+k, map[string]interface{}{k: m[k]})
				}
			}

			add(p, "b64->plainobj", t.V)
			add(p, "b64-trunc", t.Orig[:len(t.Orig)-1])
			add(p, "b64-pad", t.Orig+"=")
			add(p, "b64-badchar", "!"+t.Orig)
		case *Compact:
			add(p, "compact+seg", implodeStr(t)+".AA")
			add(p, "compact-emptysegs", strings.Repeat(".", len(t.Segs)-1))
		case *Tilde:
			add(p, "tilde+part", implodeStr(t)+"~AA")
		}
	}

	return out
}

// render serialises an exploded tree (a document or a bare token).
func render(tree interface{}) []byte {
	x := implode(tree)
	if s, ok := x.(string); ok {
		if _, isStr := tree.(string); !isStr {
			return []byte(s) // bare compact / tilde token
		}
	}

	b, err := json.Marshal(x)
	if err != nil {
		return []byte("null")
	}

	return b
}

// explodeWire explodes a wire input: a JSON document, or a bare token.
func explodeWire(b []byte) (interface{}, bool) {
	if v, ok := parseJSON(b); ok {
		if _, isStr := v.(string); !isStr {
			return explode(v), true
		}
	}

	x := explodeString(string(b))
	if _, isStr := x.(string); isStr {
		return nil, false
	}

	return x, true
}

// truncations returns cut points of a wire: every position for short inputs, sampled ones otherwise.
func truncations(b []byte, max int) [][]byte {
	var out [][]byte

	n := len(b)
	stepN := 1

	if n > max {
		stepN = n / max
	}

	for i := 0; i < n; i++ {
		if i%stepN == 0 || i < 8 || i >= n-8 {
			out = append(out, append([]byte{}, b[:i]...))
		}
	}

	for _, e := range []string{"}", "\"", "]", ".", "~", "\x00", "A", "{"} {
		out = append(out, append(append([]byte{}, b...), e...))
	}

	return out
}

func sortedKeys(m map[string]interface{}) []string {
	ks := make([]string, 0, len(m))
	for k := range m {
		ks = append(ks, k)
	}

	sort.Strings(ks)

	return ks
}

func hasKeyMember(m map[string]interface{}) bool {
	for k := range m {
		if strings.HasPrefix(k, "publicKey") && k != "publicKey" {
			return true
		}
	}

	return false
}
