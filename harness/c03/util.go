package main

import (
	"crypto/sha256"
	"encoding/base64"
	"io"

	josejwt "github.com/go-jose/go-jose/v3/jwt"
	"github.com/piprate/json-gold/ld"

	"github.com/hyperledger/aries-framework-go/component/models/ld/processor"
)

// detRand is a deterministic byte stream (keys of token seeds do not need to be secret).
type detReader struct {
	seed []byte
	ctr  byte
	buf  []byte
}

func detRand(label string) io.Reader { return &detReader{seed: []byte(label)} }

func (d *detReader) Read(p []byte) (int, error) {
	for i := range p {
		if len(d.buf) == 0 {
			h := sha256.Sum256(append(append([]byte{}, d.seed...), d.ctr))
			d.ctr++
			d.buf = h[:]
		}

		p[i] = d.buf[0]
		d.buf = d.buf[1:]
	}

	return len(p), nil
}

func b64url(b []byte) string { return base64.URLEncoding.EncodeToString(b) }

func jwtDate(sec int64) *josejwt.NumericDate {
	d := josejwt.NumericDate(sec)
	return &d
}

func ldOpt(l ld.DocumentLoader) processor.Opts { return processor.WithDocumentLoader(l) }
