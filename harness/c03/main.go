// Command c03 explores the entry points of /repo that consume data of another party with the type-confusion closure
// of valid objects the framework's own encoders produced (every single-member mutation at every JSON path, also
// inside base64url(JSON) members and compact tokens), truncations/extensions, length-field sweeps of the byte
// codecs and seeded random bytes; every call runs under a panic/timeout fence (protocol handlers, which work in
// goroutines of their own, run in worker subprocesses).  For the guard layers E1..E9 modelled in coq/C03 the input
// is also handed to the model (field `coq`) and the outcome classes are compared there.
package main

import (
	"encoding/base64"
	"encoding/binary"
	"encoding/json"
	"flag"
	"fmt"
	"os"
	"path/filepath"
	"runtime/debug"
	"sort"
	"strings"
	"sync"
	"time"

	"github.com/btcsuite/btcutil/base58"

	"verifharness/hx"
)

// Case is the replayable description of one fenced call.
type Case struct {
	Seed string `json:"seed"`
	EP   string `json:"ep"`
	Gen  string `json:"gen"` // seed | closure | trunc | lenfield | bytes | random | raw | proto
	Path string `json:"path,omitempty"`
	Mut  string `json:"mut,omitempty"`
	N    int    `json:"n,omitempty"`
	V    uint64 `json:"v,omitempty"`
	Raw  string `json:"raw_b64,omitempty"`
	// protocol cases
	Proto *ProtoCase `json:"proto,omitempty"`
}

// Outcome of a fenced call.
type Outcome struct {
	Class  string `json:"class"` // ok | err | panic | timeout
	Err    string `json:"err,omitempty"`
	Site   string `json:"site,omitempty"`
	Millis int64  `json:"ms,omitempty"`
}

var hangLimit = 20 * time.Second

var (
	seenSite   = map[string]bool{}
	seenSiteMu sync.Mutex
)

// firstSight tells whether the panic site is seen for the first time in this run.
func firstSight(site string) bool {
	seenSiteMu.Lock()
	defer seenSiteMu.Unlock()

	if seenSite[site] {
		return false
	}

	seenSite[site] = true

	return true
}

// panicSite names the innermost frame below the panic that belongs to the framework (or the library that panicked).
func panicSite(stack string) string {
	lines := strings.Split(stack, "\n")
	seenPanic := false
	first := ""

	for _, l := range lines {
		if strings.HasPrefix(l, "panic(") {
			seenPanic = true
			continue
		}

		if !seenPanic || strings.HasPrefix(l, "\t") || strings.HasPrefix(l, " ") {
			continue
		}

		i := strings.LastIndex(l, "(")
		if i <= 0 {
			continue
		}

		f := strings.TrimSuffix(l[:i], "[...]")
		if strings.HasPrefix(f, "runtime.") || strings.HasPrefix(f, "main.") {
			continue
		}

		if first == "" {
			first = f
		}

		if strings.Contains(f, "aries-framework-go") {
			f = strings.TrimPrefix(f, "github.com/hyperledger/aries-framework-go/")
			return f
		}
	}

	return first
}

func runOnce(f func() error) Outcome {
	ch := make(chan Outcome, 1)
	t0 := time.Now()

	go func() {
		var o Outcome

		defer func() {
			if r := recover(); r != nil {
				st := string(debug.Stack())
				o = Outcome{Class: "panic", Err: fmt.Sprint(r), Site: panicSite(st)}

				if firstSight(o.Site) {
					fmt.Fprintf(os.Stderr, "c03: first panic at %s: %v\n%s\n", o.Site, r, st)
				} else if os.Getenv("VERIF_STACK") != "" {
					fmt.Fprintf(os.Stderr, "panic: %v\n%s\n", r, st)
				}
			}

			ch <- o
		}()

		if err := f(); isAmp(err) {
			// resources out of proportion to the input: judged like a hang (confirmed by the second run)
			o = Outcome{Class: "timeout", Err: err.Error(), Site: "amplification"}
		} else if err != nil {
			o = Outcome{Class: "err", Err: err.Error()}
		} else {
			o = Outcome{Class: "ok"}
		}
	}()

	select {
	case o := <-ch:
		o.Millis = time.Since(t0).Milliseconds()
		return o
	case <-time.After(hangLimit):
		return Outcome{Class: "timeout", Millis: time.Since(t0).Milliseconds()}
	}
}

// fence runs f under recover with the hang threshold; a timeout is confirmed by running once more.
func fence(f func() error) Outcome {
	o := runOnce(f)
	if o.Class == "timeout" {
		o2 := runOnce(f)
		if o2.Class != "timeout" {
			return o2
		}
	}

	return o
}

// put appends a record (the synchronous part and the protocol workers run side by side).
func (r *runner) put(rec *hx.Record) {
	r.mu.Lock()
	defer r.mu.Unlock()

	r.n++

	if rec.Oracle == "fail" {
		r.fails++
	}

	r.tr.Put(rec)
}

type runner struct {
	mu      sync.Mutex
	crashes int // protocol inputs attributed to a dead worker in this run
	coqMu   sync.Mutex
	tr      *hx.Trace
	sw      *syncWorld
	rng     *hx.Rng
	tier    string
	seed    uint64
	pool    *hostilePool
	coqLeft map[string]int // per layer budget of cases handed to the model
	n       int
	fails   int
}

func errKind(o Outcome) string {
	if o.Class != "err" {
		return o.Class
	}

	e := o.Err
	if len(e) > 28 {
		e = e[:28]
	}

	return "err:" + e
}

func (r *runner) emit(sd *Seed, t Target, c Case, in []byte, wellFormed bool) Outcome {
	in = r.pool.substitute(in, "x")
	flood0, contact0 := r.pool.flooded(), r.pool.contacts()

	o := fence(func() error { return t.Run(in) })

	// out of proportion: the call took more than 32 MiB from an endless stream a ~100 byte member pointed at
	if o.Class != "panic" && o.Class != "timeout" && r.pool.flooded()-flood0 > 1<<25 {
		o = Outcome{Class: "timeout", Err: fmt.Sprintf("read %d bytes of an endless stream", r.pool.flooded()-flood0), Millis: o.Millis}
	}

	derefs := r.pool.contacts() > contact0

	rec := &hx.Record{Kind: c.Gen, Case: c, Observed: o}
	rec.Class = sd.Layer + "|" + t.EP + "|" + strings.Split(sd.Name, ".")[0] + "|" + c.Path + "|" + c.Mut + "|" + o.Class
	rec.Trivial = !wellFormed && o.Class == "err"
	rec.Dist = []string{"layer:" + sd.Layer, "ep:" + t.EP, "outcome:" + o.Class, "gen:" + c.Gen}

	if o.Class == "err" {
		rec.Dist = append(rec.Dist, "ep-err:"+t.EP+":"+errKind(o))
	}

	if derefs {
		rec.Dist = append(rec.Dist, "dereferences-sender-url:"+t.EP)
	}

	if o.Class == "panic" || o.Class == "timeout" {
		rec.Oracle = "fail"
		rec.Sig = o.Class + "@" + o.Site

		if o.Class == "timeout" {
			rec.Sig = "timeout@" + t.EP
		}

		rec.Detail = fmt.Sprintf("%s on %s (seed %s, %s %s %s): %s", o.Class, t.EP, sd.Name, c.Gen, c.Path, c.Mut, o.Err)
		c.Raw = base64.StdEncoding.EncodeToString(in)
		rec.Case = c
	}

	if coq := r.coqCase(sd, t, c, in, o); coq != "" {
		rec.Coq = coq
	}

	r.put(rec)

	return o
}

// genInputs calls f for every generated input of a seed.
func (r *runner) genInputs(sd *Seed, f func(c Case, in []byte, wellFormed bool)) {
	f(Case{Seed: sd.Name, Gen: "seed"}, sd.Wire, true)

	if sd.Kind == "fixed" { // an input built for its own sake (no closure around it)
		return
	}

	if sd.Kind == "json" || sd.Kind == "token" {
		if tree, ok := explodeWire(sd.Wire); ok {
			for _, m := range closure(tree) {
				f(Case{Seed: sd.Name, Gen: "closure", Path: m.Path, Mut: m.Name}, render(m.Tree), true)
			}
		}
	}

	maxTr := 48
	if r.tier == "thorough" {
		maxTr = 400
	}

	for i, b := range truncations(sd.Wire, maxTr) {
		f(Case{Seed: sd.Name, Gen: "trunc", N: i}, b, false)
	}

	if sd.Kind == "bytes" {
		for fi, lf := range sd.LenFields {
			off, width := lf[0], lf[1]
			if off+width > len(sd.Wire) {
				continue
			}

			var cur uint64
			if width == 2 {
				cur = uint64(binary.BigEndian.Uint16(sd.Wire[off:]))
			} else {
				cur = uint64(binary.BigEndian.Uint32(sd.Wire[off:]))
			}

			vals := []uint64{0, 1, 2, 7, 8, 9, 15, 16, cur - 1, cur + 1, cur + 8, cur * 2, uint64(len(sd.Wire)),
				uint64(len(sd.Wire) - off), uint64(len(sd.Wire) - off - width), uint64(len(sd.Wire) - off - width + 1),
				255, 256, 65535, 65536, 1 << 24, 1 << 27, 1<<27 + 1, 1 << 28, 1<<31 - 1, 1 << 31, 1<<32 - 1, cur ^ 1, cur ^ 0x100, cur ^ 0x10000}

			for _, v := range vals {
				b := append([]byte{}, sd.Wire...)
				if width == 2 {
					binary.BigEndian.PutUint16(b[off:], uint16(v))
				} else {
					binary.BigEndian.PutUint32(b[off:], uint32(v))
				}

				f(Case{Seed: sd.Name, Gen: "lenfield", N: fi, V: v}, b, true)

				// the same with the tail cut or padded to what the field announces
				if width == 2 && v < 4096 {
					// message count: keep the rest, also set every bit of the bit vector
					bb := append([]byte{}, b...)
					for i := 2; i < 2+int(v)/8+1 && i < len(bb); i++ {
						bb[i] = 0xff
					}

					f(Case{Seed: sd.Name, Gen: "lenfield-allbits", N: fi, V: v}, bb, true)

					// a consistent payload for the announced count (all bits / no bits set) followed by the original proof
					if off == 0 {
						tail := sd.Wire[2+int(cur)/8+1:]

						for _, fill := range []byte{0xff, 0x00, 0x01} {
							pl := make([]byte, 2+int(v)/8+1)
							binary.BigEndian.PutUint16(pl, uint16(v))

							for i := 2; i < len(pl); i++ {
								pl[i] = fill
							}

							f(Case{Seed: sd.Name, Gen: fmt.Sprintf("lenfield-payload-%02x", fill), N: fi, V: v}, append(pl, tail...), true)
						}
					}
				}
			}
		}

		// single byte alterations at sampled positions
		stepN := 1
		if len(sd.Wire) > 64 && r.tier != "thorough" {
			stepN = len(sd.Wire) / 64
		}

		for i := 0; i < len(sd.Wire); i += stepN {
			for _, x := range []byte{0x01, 0x80, 0xff} {
				b := append([]byte{}, sd.Wire...)
				b[i] ^= x
				f(Case{Seed: sd.Name, Gen: "bytes", N: i, V: uint64(x)}, b, true)
			}
		}
	}

	if sd.Kind == "text" {
		s := string(sd.Wire)
		for i := 0; i < len(s); i++ {
			for _, x := range []string{"", "é", "€", "0", "l", "#", "z", ":"} {
				f(Case{Seed: sd.Name, Gen: "text", N: i, Mut: x}, []byte(s[:i]+x+s[i+1:]), true)
			}
		}

		for _, m := range didKeyByteMutations(s) {
			f(Case{Seed: sd.Name, Gen: "didkey-bytes", Mut: m[0]}, []byte(m[1]), true)
		}

		for _, m := range textMutations(s) {
			f(Case{Seed: sd.Name, Gen: "text-struct", Mut: m[0]}, []byte(m[1]), true)
		}
	}

	// seeded random bytes of the seed's length class
	nr := 8
	if r.tier == "thorough" {
		nr = 200
	}

	for i := 0; i < nr; i++ {
		rr := r.rng.Fork(uint64(i) + uint64(len(sd.Name))*1000)
		b := rr.Bytes(rr.Intn(len(sd.Wire) + 2))
		c := Case{Seed: sd.Name, Gen: "random", N: i, Raw: base64.StdEncoding.EncodeToString(b)}
		f(c, b, false)
	}
}

func (r *runner) runSeed(sd *Seed) {
	r.genInputs(sd, func(c Case, in []byte, wf bool) {
		for _, t := range sd.Targets {
			cc := c
			cc.EP = t.EP
			r.emit(sd, t, cc, in, wf)
		}
	})
}

// replayCase re-derives the input of a case and runs it.
func (r *runner) replayCase(c Case, kind string) bool {
	if c.Proto != nil {
		return r.replayProto(c, kind)
	}

	sd := r.sw.byName[c.Seed]
	if sd == nil {
		fmt.Fprintln(os.Stderr, "c03: unknown seed in case:", c.Seed)
		return false
	}

	var tg *Target

	for i := range sd.Targets {
		if sd.Targets[i].EP == c.EP {
			tg = &sd.Targets[i]
		}
	}

	if tg == nil {
		fmt.Fprintln(os.Stderr, "c03: unknown entry point in case:", c.EP)
		return false
	}

	found := false

	if c.Gen != "raw" && c.Gen != "random" {
		r.genInputs(sd, func(g Case, in []byte, wf bool) {
			if found || g.Gen != c.Gen || g.Path != c.Path || g.Mut != c.Mut || g.N != c.N || g.V != c.V {
				return
			}

			found = true
			g.EP = c.EP
			g.Gen = c.Gen
			r.emitAs(kind, sd, *tg, g, in, wf)
		})
	}

	if !found && c.Raw != "" {
		b, err := base64.StdEncoding.DecodeString(c.Raw)
		if err != nil {
			return false
		}

		cc := c
		cc.Gen = "raw"
		r.emitAs(kind, sd, *tg, cc, b, true)
		found = true
	}

	return found
}

func (r *runner) emitAs(kind string, sd *Seed, t Target, c Case, in []byte, wf bool) {
	gen := c.Gen
	c.Gen = kind + ":" + gen
	r.emit(sd, t, c, in, wf)
}

// didKeyByteMutations re-encodes a did:key after changing the multicodec prefix and the length of the key bytes.
func didKeyByteMutations(s string) [][2]string {
	const pfx = "did:key:z"
	if !strings.HasPrefix(s, pfx) {
		return nil
	}

	raw := base58.Decode(s[len(pfx):])
	if len(raw) < 3 {
		return nil
	}

	_, br := binary.Uvarint(raw)
	if br <= 0 {
		return nil
	}

	key := raw[br:]

	var out [][2]string

	codes := map[string][]byte{
		"ed25519": {0xed, 0x01}, "x25519": {0xec, 0x01}, "p256": {0x80, 0x24}, "p384": {0x81, 0x24}, "p521": {0x82, 0x24},
		"bls-g2": {0xeb, 0x01}, "bls-g1g2": {0xee, 0x01}, "secp256k1": {0xe7, 0x01}, "zero": {0x00}, "one-byte": {0x7f},
		"unterminated": {0xff}, "unterminated3": {0xff, 0xff, 0xff}, "overlong9": {0x80, 0x80, 0x80, 0x80, 0x80, 0x80, 0x80, 0x80, 0x01},
		"overflow10": {0xff, 0xff, 0xff, 0xff, 0xff, 0xff, 0xff, 0xff, 0xff, 0x7f},
		"overflow11": {0xff, 0xff, 0xff, 0xff, 0xff, 0xff, 0xff, 0xff, 0xff, 0xff, 0x01},
		"same":       raw[:br],
	}

	names := make([]string, 0, len(codes))
	for n := range codes {
		names = append(names, n)
	}

	sort.Strings(names)

	lens := []int{0, 1, 2, 16, 31, 32, 33, 47, 48, 49, 64, 65, 66, 95, 96, 97, 132, 133, 143, 144, 145, len(key) - 1, len(key) + 1}

	for _, n := range names {
		for _, l := range lens {
			if l < 0 {
				continue
			}

			k := make([]byte, l)
			for i := range k {
				if i < len(key) {
					k[i] = key[i]
				} else {
					k[i] = byte(i*37 + 1)
				}
			}

			b := append(append([]byte{}, codes[n]...), k...)
			out = append(out, [2]string{fmt.Sprintf("%s/len%d", n, l), pfx + base58.Encode(b)})

			if l > 0 {
				// first key byte variants (compression tags of EC points)
				for _, t := range []byte{0x00, 0x02, 0x03, 0x04, 0xff} {
					kk := append([]byte{}, k...)
					kk[0] = t
					bb := append(append([]byte{}, codes[n]...), kk...)
					out = append(out, [2]string{fmt.Sprintf("%s/len%d/tag%02x", n, l, t), pfx + base58.Encode(bb)})
				}
			}
		}
	}

	return out
}

func textMutations(s string) [][2]string {
	out := [][2]string{{"empty", ""}, {"did:key:", "did:key:"}, {"did:key:z", "did:key:z"}, {"no-z", strings.Replace(s, ":z", ":", 1)},
		{"upper", strings.ToUpper(s)}, {"double", s + s}, {"frag", s + "#" + strings.TrimPrefix(s, "did:key:")},
		{"nonascii-tail", s + "é"}, {"space", s + " "}}

	for i := 9; i < len(s) && i < 24; i++ {
		out = append(out, [2]string{fmt.Sprintf("cut%d", i), s[:i]})
	}

	return out
}

func main() {
	worker := flag.String("worker", "", "protocol worker mode (internal)")
	a := hx.ParseArgs()

	if *worker != "" {
		workerMain(*worker)
		return
	}

	tr := hx.NewTrace(a.Out)
	defer tr.Close()

	r := &runner{tr: tr, rng: hx.NewRng(a.Seed), tier: a.Tier, seed: a.Seed, coqLeft: map[string]int{}}
	r.pool = newHostilePool()
	r.sw = newSyncWorld(a.Tier == "thorough")

	if a.Replay != "" {
		b, err := os.ReadFile(a.Replay)
		if err != nil {
			fmt.Fprintln(os.Stderr, "c03: cannot read replay:", err)
			os.Exit(2)
		}

		var doc struct {
			Case Case `json:"case"`
		}

		if err := json.Unmarshal(b, &doc); err != nil {
			fmt.Fprintln(os.Stderr, "c03: bad replay file:", err)
			os.Exit(2)
		}

		if !r.replayCase(doc.Case, "replay") {
			os.Exit(2)
		}

		return
	}

	// corpus first
	var protoCorpus []Case

	if a.Extra != "" {
		files, _ := filepath.Glob(filepath.Join(a.Extra, "*.json")) //nolint:errcheck
		sort.Strings(files)

		for _, f := range files {
			b, err := os.ReadFile(f)
			if err != nil {
				continue
			}

			var doc struct {
				Case Case `json:"case"`
			}

			if json.Unmarshal(b, &doc) == nil {
				if doc.Case.Proto != nil {
					protoCorpus = append(protoCorpus, doc.Case)
					continue
				}

				r.replayCase(doc.Case, "corpus")
			}
		}

		r.replayProtoBatch(protoCorpus, "corpus")
	}

	only := os.Getenv("C03_ONLY") // development aid: "sync" or "proto"

	protoDone := make(chan struct{})

	go func() {
		defer close(protoDone)

		if only != "sync" {
			r.runProtocols()
		}
	}()

	if only != "proto" {
		// the seeds are independent: three of them at a time
		next := make(chan *Seed)

		var wg sync.WaitGroup

		for w := 0; w < 3; w++ {
			wg.Add(1)

			go func() {
				defer wg.Done()

				for sd := range next {
					t0 := time.Now()
					r.runSeed(sd)

					if os.Getenv("C03_TIMING") != "" {
						fmt.Fprintf(os.Stderr, "c03: seed %s: %v\n", sd.Name, time.Since(t0))
					}
				}
			}()
		}

		for _, sd := range r.sw.seeds {
			next <- sd
		}

		close(next)
		wg.Wait()
	}

	<-protoDone

	fmt.Fprintf(os.Stderr, "c03: %d fenced calls, %d oracle failures\n", r.n, r.fails)
}
