package main

import (
	"crypto/elliptic"
	"encoding/base64"
	"encoding/binary"
	"encoding/hex"
	"encoding/json"
	"fmt"
	"math"
	"sort"
	"strings"

	"github.com/btcsuite/btcutil/base58"

	"github.com/hyperledger/aries-framework-go/component/kmscrypto/doc/jose"
	"github.com/hyperledger/aries-framework-go/component/models/sdjwt/common"
)

// ---------- Gallina printers ----------

func coqStr(s string) (string, bool) {
	var b strings.Builder

	b.WriteByte('"')

	for i := 0; i < len(s); i++ {
		c := s[i]

		switch {
		case c == '"':
			b.WriteString("\"\"")
		case c < 32 || c == 127:
			return "", false
		default:
			b.WriteByte(c)
		}
	}

	b.WriteByte('"')

	return b.String(), true
}

func coqJSON(v interface{}) (string, bool) {
	switch t := v.(type) {
	case nil:
		return "JNull", true
	case bool:
		if t {
			return "(JBool true)", true
		}

		return "(JBool false)", true
	case float64:
		if t != math.Trunc(t) || math.Abs(t) >= 1e18 {
			return "", false
		}

		return fmt.Sprintf("(JNum (%d)%%Z)", int64(t)), true
	case json.Number:
		f, err := t.Float64()
		if err != nil {
			return "", false
		}

		return coqJSON(f)
	case string:
		s, ok := coqStr(t)
		return "(JStr " + s + ")", ok
	case []interface{}:
		items := make([]string, len(t))

		for i, x := range t {
			s, ok := coqJSON(x)
			if !ok {
				return "", false
			}

			items[i] = s
		}

		return "(JArr [" + strings.Join(items, "; ") + "])", true
	case map[string]interface{}:
		s, ok := coqAssoc(t)
		return "(JObj " + s + ")", ok
	}

	return "", false
}

func coqAssoc(m map[string]interface{}) (string, bool) {
	ks := make([]string, 0, len(m))
	for k := range m {
		ks = append(ks, k)
	}

	sort.Strings(ks)

	items := make([]string, len(ks))

	for i, k := range ks {
		ks2, ok := coqStr(k)
		if !ok {
			return "", false
		}

		vs, ok := coqJSON(m[k])
		if !ok {
			return "", false
		}

		items[i] = "(" + ks2 + ", " + vs + ")"
	}

	return "[" + strings.Join(items, "; ") + "]", true
}

func coqBytes(b []byte) string {
	return "(unhex \"" + hex.EncodeToString(b) + "\")"
}

func coqBool(b bool) string {
	if b {
		return "true"
	}

	return "false"
}

// ---------- observed stage ----------

type stageRule struct {
	sub   string
	stage int
}

var stageTables = map[string][]stageRule{
	"I1": {{"null entry", 2}, {"missing protected headers", 3}, {"missing encryption algorithm", 4},
		{"' not supported", 5}, {"jwe recipient has no header", 6}, {"jwe recipient is nil", 6}, {"JSON value is not a map", 7}},
	"I2": {},
	"I3": {{"is not base58 encoded", 31}, {"message type ", 32}, {"message format ", 33}, {"invalid iv length", 17}},
	"I4": {{"invalid JWS compact format", 41}, {"alg JWS header is not defined", 42}, {"invalid b64 header", 43},
		{"is not DID", 44}, {"has no key fragment", 45}},
	"I5": {{"invalid size of signature proof", 53}, {"invalid size of G1 signature proof", 52},
		{"invalid size of signature", 51}, {"invalid size of PoK payload", 54}, {"revealed message index exceeds", 56},
		{"payload revealed bigger from messages", 57}},
	"I6": {{"unknown key encoding", 61}, {"code exceeds maximum size", 64}, {"invalid bbs+ public key", 66},
		{"unsupported key multicodec", 67}, {"invalid NIST_P", 68}},
	"I7d":   {{"must be greater", 71}, {"disclosure salt type", 72}, {"disclosure name type", 73}},
	"I7dig": {{"get disclosure digests", 78}},
	"I7cnf": {{"must be present in SD-JWT", 76}, {"must be an object", 77}},
	"I10": {{"credential type of unknown structure", 101}, {"vc types:", 101}, {"credential context of unknown type", 102},
		{"violated type constraint", 103}, {"violated @context constraint", 104}},
	"I11": {{"JWT of compacted JWS form", 111}, {"invalid JWS compact format", 41}, {"alg JWS header is not defined", 42},
		{"invalid b64 header", 43}, {"is not DID", 44}, {"has no key fragment", 45}, {"alg header is not defined", 112},
		{"invalid typ header format", 113}, {"invalid typ header", 114}, {"typ is not JWT", 115},
		{"nested JWT is not supported", 116}},
	"I6f":   {{"unknown key encoding", 61}, {"code exceeds maximum size", 64}, {"invalid bbs+ public key", 66}},
}

func coqObs(table string, o Outcome) string {
	switch o.Class {
	case "ok":
		return "OOk"
	case "panic":
		return "OPanic"
	case "timeout":
		return "OTimeout"
	}

	// sender key variant of the base58 message has its own stage
	if table == "I3" && strings.Contains(o.Err, "sender key is not base58") {
		return "(OErr 34)"
	}

	for _, r := range stageTables[table] {
		if strings.Contains(o.Err, r.sub) {
			return fmt.Sprintf("(OErr %d)", r.stage)
		}
	}

	return "(OErr 0)"
}

func mkCase(input, obs string) string {
	return "{| c_in := " + input + "; c_obs := " + obs + " |}"
}

// ---------- views ----------

type rawJWE struct {
	Protected    string          `json:"protected,omitempty"`
	Unprotected  json.RawMessage `json:"unprotected,omitempty"`
	Recipients   json.RawMessage `json:"recipients,omitempty"`
	EncryptedKey string          `json:"encrypted_key,omitempty"`
	Header       json.RawMessage `json:"header,omitempty"`
	AAD          string          `json:"aad,omitempty"`
	IV           string          `json:"iv,omitempty"`
	Ciphertext   string          `json:"ciphertext,omitempty"`
	Tag          string          `json:"tag,omitempty"`
}

func rawURLOK(s string) bool {
	_, err := base64.RawURLEncoding.DecodeString(s)
	return err == nil
}

// e1View is the view jose.Deserialize's guard layer works on (the decoding itself is the standard library's).
func e1View(in []byte) (string, bool) {
	var raw rawJWE

	pre := true

	if strings.HasPrefix(string(in), "{") {
		if json.Unmarshal(in, &raw) != nil {
			pre = false
		}
	} else {
		parts := strings.Split(string(in), ".")
		if len(parts) != 5 { //nolint:gomnd
			pre = false
		} else {
			raw = rawJWE{Protected: parts[0], EncryptedKey: parts[1], IV: parts[2], Ciphertext: parts[3], Tag: parts[4]}
		}
	}

	var prot map[string]interface{}

	if pre {
		pb, err := base64.RawURLEncoding.DecodeString(raw.Protected)
		if err != nil || json.Unmarshal(pb, &prot) != nil {
			pre = false
			prot = nil
		}
	}

	if pre && raw.Unprotected != nil {
		var un map[string]interface{}
		if json.Unmarshal(raw.Unprotected, &un) != nil {
			pre = false
		}
	}

	var rcpts []*jose.Recipient

	if pre {
		if raw.Recipients != nil {
			if json.Unmarshal(raw.Recipients, &rcpts) != nil {
				pre = false
				rcpts = nil
			}
		} else {
			r := &jose.Recipient{EncryptedKey: raw.EncryptedKey}

			if raw.Header != nil {
				if json.Unmarshal(raw.Header, &r.Header) != nil {
					pre = false
				}
			}

			rcpts = []*jose.Recipient{r}
		}
	}

	if !pre {
		prot, rcpts = nil, nil
	}

	ps, ok := coqAssoc(prot)
	if !ok {
		return "", false
	}

	rs := make([]string, len(rcpts))

	for i, r := range rcpts {
		if r == nil {
			rs[i] = "None"
			continue
		}

		h := "None"

		if r.Header != nil {
			k, ok2 := coqStr(r.Header.KID)
			if !ok2 {
				return "", false
			}

			h = "(Some " + k + ")"
		}

		rs[i] = fmt.Sprintf("(Some {| r_ek_ok := %s; r_hdr := %s |})", coqBool(rawURLOK(r.EncryptedKey)), h)
	}

	post := rawURLOK(raw.AAD) && rawURLOK(raw.IV) && rawURLOK(raw.Ciphertext) && rawURLOK(raw.Tag)

	return fmt.Sprintf("(I1 {| e1_pre_ok := %s; e1_prot := %s; e1_rcpts := [%s]; e1_post_ok := %s |})",
		coqBool(pre), ps, strings.Join(rs, "; "), coqBool(post)), true
}

type legEnvelope struct {
	Protected  string `json:"protected,omitempty"`
	IV         string `json:"iv,omitempty"`
	CipherText string `json:"ciphertext,omitempty"`
	Tag        string `json:"tag,omitempty"`
}

type legProtected struct {
	Enc        string `json:"enc,omitempty"`
	Typ        string `json:"typ,omitempty"`
	Alg        string `json:"alg,omitempty"`
	Recipients []struct {
		EncryptedKey string `json:"encrypted_key,omitempty"`
		Header       struct {
			KID    string `json:"kid,omitempty"`
			Sender string `json:"sender,omitempty"`
			IV     string `json:"iv,omitempty"`
		} `json:"header,omitempty"`
	} `json:"recipients,omitempty"`
}

func asciiOnly(s string) bool {
	for i := 0; i < len(s); i++ {
		if s[i] >= 0x80 { //nolint:gomnd
			return false
		}
	}

	return true
}

// e3View is the view of the legacy packers' guard layer; owned tells which base58 keys this agent holds.
func e3View(in []byte, owned map[string]bool) (string, bool) {
	var (
		env  legEnvelope
		prot legProtected
	)

	libOK := json.Unmarshal(in, &env) == nil

	if libOK {
		pb, err := base64.URLEncoding.DecodeString(env.Protected)
		if err != nil || json.Unmarshal(pb, &prot) != nil {
			libOK = false
			prot = legProtected{}
		}
	}

	typOK := prot.Typ == "JWM/1.0"
	algOK := prot.Alg == "Authcrypt" || prot.Alg == "Anoncrypt"

	kids := make([]string, len(prot.Recipients))
	for i, r := range prot.Recipients {
		kids[i] = fmt.Sprintf("(%s, %s)", coqBool(asciiOnly(r.Header.KID)), coqBool(owned[r.Header.KID]))
	}

	fieldsOK := true
	ivLen := 0

	for i, f := range []string{env.CipherText, env.IV, env.Tag} {
		b, err := base64.URLEncoding.DecodeString(f)
		if err != nil {
			fieldsOK = false
		}

		if i == 1 {
			ivLen = len(b)
		}
	}

	return fmt.Sprintf("(I3 {| e3_lib_ok := %s; e3_typ_ok := %s; e3_alg_ok := %s; e3_kids := [%s]; e3_cek_ok := true; "+
		"e3_sender_ascii := true; e3_fields_ok := %s; e3_iv_len := %d |})", coqBool(libOK), coqBool(typOK), coqBool(algOK),
		strings.Join(kids, "; "), coqBool(fieldsOK), ivLen), true
}

func e4View(in []byte) (string, bool) {
	parts := strings.Split(string(in), ".")
	hdr := "None"

	hb, err := base64.RawURLEncoding.DecodeString(parts[0])
	if err == nil {
		var h map[string]interface{}
		if json.Unmarshal(hb, &h) == nil {
			s, ok := coqAssoc(h)
			if !ok {
				return "", false
			}

			hdr = "(Some " + s + ")"
		}
	}

	return fmt.Sprintf("(I4 {| e4_parts := %d%%nat; e4_hdr := %s; e4_alg_known := true |})", len(parts), hdr), true
}

func e6View(in []byte, full bool) (string, bool) {
	s := string(in)
	msid := ""
	z := false

	// fingerprint.getMethodSpecificID: the third ':' separated part, whatever the first two are
	if parts := strings.SplitN(s, ":", 3); len(parts) == 3 { //nolint:gomnd
		msid = parts[2]
		z = len(msid) >= 2 && msid[0] == 'z'
	}

	ascii := asciiOnly(msid)

	var raw []byte
	if z && ascii {
		raw = base58.Decode(msid[1:])
	}

	view := fmt.Sprintf("{| e6_z := %s; e6_ascii := %s; e6_bytes := %s |}", coqBool(z), coqBool(ascii), coqBytes(raw))
	if !full {
		return "(I6f " + view + ")", true
	}

	// the library's verdict on the key bytes as a curve point (what unmarshalECKey asks elliptic for)
	point := false

	code, br := binary.Uvarint(raw)
	if br > 0 && br <= len(raw) {
		var crv elliptic.Curve

		switch code {
		case 0x1200:
			crv = elliptic.P256()
		case 0x1201:
			crv = elliptic.P384()
		case 0x1202:
			crv = elliptic.P521()
		}

		if crv != nil {
			key := raw[br:]

			x, y := elliptic.UnmarshalCompressed(crv, key)
			if x == nil || y == nil {
				x, y = elliptic.Unmarshal(crv, append([]byte{4}, key...)) //nolint:gomnd,staticcheck
			}

			point = x != nil && y != nil
		}
	}

	return fmt.Sprintf("(I6 %s %s)", coqBool(point), view), true
}

// coqCase builds the Gallina case of a fenced call for the entry points whose guard layer is modelled.
func (r *runner) coqCase(sd *Seed, t Target, c Case, in []byte, o Outcome) string {
	var (
		input, table string
		ok           bool
	)

	switch {
	case t.EP == "jose.Deserialize+Decrypt":
		input, ok = e1View(in)
		table = "I1"
	case t.EP == "packager.UnpackMessage" && sd.Layer == "E3" && sd.Kind == "json" && strings.HasPrefix(string(in), "{"):
		input, ok = e3View(in, r.sw.owned)
		table = "I3"
	case t.EP == "packager.UnpackMessage" && len(in) <= 64:
		input, ok = "(I2 "+coqBytes(in)+")", true
		table = "I2"
	case t.EP == "jose.ParseJWS":
		input, ok = e4View(in)
		table = "I4"
	case t.EP == "bbs.ParseSignature":
		input, ok, table = "(I5sig "+coqBytes(in)+")", true, "I5"
	case t.EP == "bbs.ParseProofG1":
		input, ok, table = "(I5g1 "+coqBytes(in)+")", true, "I5"
	case t.EP == "bbs.ParseSignatureProof":
		input, ok, table = "(I5sp "+coqBytes(in)+")", true, "I5"
	case strings.HasPrefix(t.EP, "bbs.VerifyProof"):
		n := sd.NMsgs
		if t.EP == "bbs.VerifyProof" {
			n = sd.NRevealed
		}

		input, ok, table = fmt.Sprintf("(I5vp (%d)%%Z %s)", n, coqBytes(in)), true, "I5"
	case t.EP == "sdjwt/common.GetDisclosureClaims":
		input, ok = e7DisclosureView(in)
		table = "I7d"
	case t.EP == "sdjwt/common.GetDisclosureDigests":
		input, ok = e7DigestsView(in)
		table = "I7dig"
	case t.EP == "sdjwt/common.GetCNF":
		var m map[string]interface{}
		if json.Unmarshal(in, &m) != nil {
			return ""
		}

		var as string

		as, ok = coqAssoc(m)
		input, table = "(I7cnf "+as+")", "I7cnf"
	case t.EP == "jwt.Parse":
		input, ok = e4View(in)
		input = strings.Replace(input, "(I4 ", "(I11 ", 1)
		table = "I11"
	case sd.Layer == "E10" && (t.EP == "verifiable.ParseCredential(base context)" ||
		t.EP == "verifiable.ParseCredential(no proof check)" || t.EP == "verifiable.ParseCredential(validation off)"):
		input, ok = e10View(in, t.EP == "verifiable.ParseCredential(base context)")
		table = "I10"
	case t.EP == "kmsdidkey.EncryptionPubKeyFromDIDKey":
		input, ok = e6View(in, true)
		table = "I6"
	case t.EP == "fingerprint.PubKeyFromDIDKey":
		input, ok = e6View(in, false)
		table = "I6f"
	default:
		return ""
	}

	if !ok {
		return ""
	}

	// a stride per generator keeps the number of cases evaluated inside Coq bounded; failures always go there
	if o.Class != "panic" && o.Class != "timeout" {
		key := table + "|" + c.Gen + "|" + sd.Name + "|" + t.EP

		r.coqMu.Lock()
		k := r.coqLeft[key]
		r.coqLeft[key] = k + 1
		r.coqMu.Unlock()

		st := r.stride(c.Gen)

		// the members the E10 / E11 models read: every mutation of them goes through Coq
		if (table == "I10" && (strings.Contains(c.Path, "type") || strings.Contains(c.Path, "@context"))) ||
			(table == "I11" && c.Gen == "closure" && (strings.Contains(c.Path, "typ") || strings.Contains(c.Path, "cty") ||
				strings.Contains(c.Path, "alg") || strings.Contains(c.Path, "kid"))) {
			st = 1
		}

		if k%st != 0 {
			return ""
		}
	}

	return mkCase(input, coqObs(table, o))
}

func (r *runner) stride(gen string) int {
	if i := strings.Index(gen, ":"); i >= 0 { // corpus:..., replay:...
		return 1
	}

	st := 1

	switch {
	case gen == "closure":
		st = 17
	case gen == "trunc":
		st = 9
	case gen == "text":
		st = 23
	case gen == "didkey-bytes":
		st = 25
	case gen == "bytes":
		st = 29
	case strings.HasPrefix(gen, "lenfield"):
		st = 9
	}

	if r.tier == "thorough" {
		st = (st + 3) / 4
	}

	return st
}

func e7DisclosureView(in []byte) (string, bool) {
	decoded, err := base64.RawURLEncoding.DecodeString(string(in))
	if err != nil {
		return "(I7d None)", true
	}

	var arr []interface{}
	if json.Unmarshal(decoded, &arr) != nil {
		return "(I7d None)", true
	}

	items := make([]string, len(arr))

	for i, x := range arr {
		s, ok := coqJSON(x)
		if !ok {
			return "", false
		}

		items[i] = s
	}

	return "(I7d (Some [" + strings.Join(items, "; ") + "]))", true
}

func e7DigestsView(in []byte) (string, bool) {
	var m map[string]interface{}
	if json.Unmarshal(in, &m) != nil {
		return "", false
	}

	as, ok := coqAssoc(m)
	if !ok {
		return "", false
	}

	var observed []string

	func() {
		defer func() { _ = recover() }() //nolint:errcheck

		d, err := common.GetDisclosureDigests(m)
		if err == nil {
			for k := range d {
				observed = append(observed, k)
			}
		}
	}()

	sort.Strings(observed)

	items := make([]string, len(observed))

	for i, x := range observed {
		s, ok2 := coqStr(x)
		if !ok2 {
			return "", false
		}

		items[i] = s
	}

	return "(I7dig " + as + " [" + strings.Join(items, "; ") + "])", true
}

// e10View hands the model the "type" and "@context" members of a JSON credential as encoding/json decodes them.
func e10View(in []byte, baseMode bool) (string, bool) {
	var m map[string]interface{}
	if len(in) == 0 || in[0] != '{' || json.Unmarshal(in, &m) != nil {
		return "", false
	}

	// encoding/json matches struct fields case-insensitively: a member spelled differently is not what the view reads
	for k := range m {
		if (strings.EqualFold(k, "type") && k != "type") || (strings.EqualFold(k, "@context") && k != "@context") {
			return "", false
		}
	}

	member := func(k string) (string, bool) {
		v, present := m[k]
		if !present || v == nil {
			return "None", true
		}

		js, ok := coqJSON(v)

		return "(Some " + js + ")", ok
	}

	ty, ok1 := member("type")
	cx, ok2 := member("@context")

	if !ok1 || !ok2 {
		return "", false
	}

	return fmt.Sprintf("(I10 %s %s %s)", coqBool(baseMode), ty, cx), true
}
