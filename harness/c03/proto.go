package main

// ProtoCase describes a protocol-handler case (worker subprocess).
type ProtoCase struct {
	Scenario string `json:"scenario"`
}

func (r *runner) runProtocols()                       {}
func (r *runner) replayProto(c Case, kind string) bool { return false }
func workerMain(name string)                           {}
