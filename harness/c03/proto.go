package main

import (
	"bufio"
	"bytes"
	gocontext "context"
	"encoding/base64"
	"encoding/json"
	"fmt"
	"io"
	"net"
	"os"
	"os/exec"
	"strings"
	"sync"
	"time"

	"github.com/btcsuite/btcutil/base58"
	"nhooyr.io/websocket"

	"github.com/hyperledger/aries-framework-go/component/kmscrypto/doc/util/fingerprint"
	"github.com/hyperledger/aries-framework-go/component/models/did"
	"github.com/hyperledger/aries-framework-go/component/storageutil/mem"
	"github.com/hyperledger/aries-framework-go/pkg/didcomm/common/service"
	"github.com/hyperledger/aries-framework-go/pkg/didcomm/dispatcher"
	"github.com/hyperledger/aries-framework-go/pkg/didcomm/protocol/decorator"
	"github.com/hyperledger/aries-framework-go/pkg/didcomm/protocol/didexchange"
	"github.com/hyperledger/aries-framework-go/pkg/didcomm/protocol/introduce"
	"github.com/hyperledger/aries-framework-go/pkg/didcomm/protocol/issuecredential"
	"github.com/hyperledger/aries-framework-go/pkg/didcomm/protocol/legacyconnection"
	"github.com/hyperledger/aries-framework-go/pkg/didcomm/protocol/mediator"
	"github.com/hyperledger/aries-framework-go/pkg/didcomm/protocol/messagepickup"
	mdpresentproof "github.com/hyperledger/aries-framework-go/pkg/didcomm/protocol/middleware/presentproof"
	"github.com/hyperledger/aries-framework-go/pkg/didcomm/protocol/outofband"
	"github.com/hyperledger/aries-framework-go/pkg/didcomm/protocol/outofbandv2"
	"github.com/hyperledger/aries-framework-go/pkg/didcomm/protocol/presentproof"
	"github.com/hyperledger/aries-framework-go/pkg/didcomm/transport"
	"github.com/hyperledger/aries-framework-go/pkg/framework/aries"
	"github.com/hyperledger/aries-framework-go/pkg/framework/aries/defaults"
	"github.com/hyperledger/aries-framework-go/pkg/framework/context"
	"github.com/hyperledger/aries-framework-go/pkg/store/connection"
	kmsapi "github.com/hyperledger/aries-framework-go/spi/kms"
	vdrapi "github.com/hyperledger/aries-framework-go/spi/vdr"

	"verifharness/hx"
)

// ProtoCase describes a protocol-handler case: the service-level delivery of one message after a history prefix.
type ProtoCase struct {
	Proto  string `json:"proto"`  // protocol of the template list
	Index  int    `json:"index"`  // the template that is mutated; templates before it are the history prefix
	Path   string `json:"path"`   // closure position
	Mut    string `json:"mut"`    // closure mutation
	Conn   bool   `json:"conn"`   // a completed connection with the sender exists
	Second bool   `json:"second"` // the mutated message is delivered twice
	// Pre: history prefix as template indexes ("3,1": invitation, then response) delivered on the same thread before
	// the mutated message (role-consistent prefixes of the protocol's exchanges; the agent's application continues
	// every action, so the thread is in the state those messages lead to)
	Pre string `json:"pre,omitempty"`
	// Via: "" = HandleInbound of the accepting services; "oobv2-accept" = the application hands the received
	// out-of-band 2.0 invitation to AcceptInvitation; "batch-reply" = the message answers a BatchPickup call of the
	// application that is waiting for its batch
	Via string `json:"via,omitempty"`
	// Reply (Via "api:<call>"): how the peer answers the request the application's call sent: once | twice |
	// then-seed (the mutated answer, then the regular one) | seed-then | late (after the call timed out) | late-twice
	Reply string `json:"reply,omitempty"`
}

// ---------- templates: what the framework's encoders emit for each message type (thread T) ----------

const holderVC = `{"@context":["https://www.w3.org/2018/credentials/v1"],"id":"http://example.edu/credentials/1872",
"type":["VerifiableCredential"],"issuer":"did:example:76e12ec712ebc6f1c221ebfeb1f","issuanceDate":"2010-01-01T19:23:24Z",
"credentialSubject":{"id":"did:example:ebfeb1f712ebc6f1c276e12ec21"}}`

const (
	myDID    = "did:peer:1zQmbVerifTargetAgent0000000000000000000000000000"
	theirDID = "did:peer:1zQmbVerifSenderAgent0000000000000000000000000000"
)

func peerDoc(id string) string {
	return peerDocKeys(id, "H3C2AVvLMv6gmMNam3uVAjZpfkcJCwDwnZn6z3wXmqPV", "JhNWeSVLMYccCk7iopQW4guaSJTojqpMEELgSLhKwRr",
		"did:key:z6MkpTHR8VNsBxYAAWHut2Geadd9jSwuBV8xRoAnwWsdvktH")
}

func peerDocKeys(id, ed58, x58, edDidKey string) string {
	return `{"@context":["https://www.w3.org/ns/did/v1"],"id":"` + id + `","verificationMethod":[{"id":"` + id +
		`#key-1","type":"Ed25519VerificationKey2018","controller":"` + id +
		`","publicKeyBase58":"` + ed58 + `"}],"authentication":["` + id + `#key-1"],` +
		`"keyAgreement":[{"id":"` + id + `#key-2","type":"X25519KeyAgreementKey2019","controller":"` + id +
		`","publicKeyBase58":"` + x58 + `"}],"service":[{"id":"` + id +
		`#didcomm","type":"did-communication","priority":0,"recipientKeys":["` + edDidKey + `"],` +
		`"serviceEndpoint":"http://127.0.0.1:1/"}]}`
}

// realDoc is a DID document whose keys live in the target's KMS (so that the agent can pack for / as that DID).
var realDocKeys = map[string]string{}

func realDoc(ctx *context.Provider, id string) string {
	_, edPub, err := ctx.KMS().CreateAndExportPubKeyBytes(kmsapi.ED25519Type)
	must(err)

	_, xPub, err := ctx.KMS().CreateAndExportPubKeyBytes(kmsapi.X25519ECDHKWType)
	must(err)

	var xk struct {
		X []byte `json:"X"`
	}

	_ = json.Unmarshal(xPub, &xk)

	dk, _ := fingerprint.CreateDIDKey(edPub)
	realDocKeys[id] = dk

	return peerDocKeys(id, base58.Encode(edPub), base58.Encode(xk.X), dk)
}

func templates() map[string][]string {
	// the peer's DID and document are the item's own (a stored peer DID cannot be re-pointed to another document)
	const newDID = "did:peer:1zQmbVerifPeer§"

	att := `{"@id":"a1","mime-type":"application/json","data":{"json":` + peerDoc(newDID) + `}}`
	thread := `"~thread":{"thid":"T§","pthid":"P§"}`
	// connection protocols: the thread of a response / ack is the id of the request, which the agent itself chose when
	// it was the invitee: "@THID@" is replaced in the worker by the thread of the connection record the item's
	// invitation created (T§ when there is none)
	cthread := `"~thread":{"thid":"@THID@","pthid":"P§"}`
	cred := `{"@id":"c1","mime-type":"application/ld+json","data":{"json":` + strings.ReplaceAll(vcSimple, "\n", "") + `}}`

	return map[string][]string{
		"didexchange": {
			`{"@type":"https://didcomm.org/didexchange/1.0/request","@id":"T§","label":"bob","did":"` + newDID + `","did_doc~attach":` + att + `,"~thread":{"pthid":"P§"}}`,
			`{"@type":"https://didcomm.org/didexchange/1.0/response","@id":"r2","did":"` + newDID + `","did_doc~attach":` + att + `,` + cthread + `}`,
			`{"@type":"https://didcomm.org/didexchange/1.0/complete","@id":"r3",` + cthread + `}`,
			`{"@type":"https://didcomm.org/didexchange/1.0/invitation","@id":"P§","label":"bob","recipientKeys":["did:key:z6MkpTHR8VNsBxYAAWHut2Geadd9jSwuBV8xRoAnwWsdvktH"],"serviceEndpoint":"http://127.0.0.1:1/","routingKeys":[]}`,
			`{"@type":"https://didcomm.org/didexchange/1.0/ack","@id":"r4","status":"OK",` + cthread + `}`,
		},
		"legacyconnection": {
			`{"@type":"https://didcomm.org/connections/1.0/request","@id":"T§","label":"bob","connection":{"DID":"` + theirDID + `","DIDDoc":` + peerDoc(theirDID) + `},"~thread":{"pthid":"P§"}}`,
			`{"@type":"https://didcomm.org/connections/1.0/response","@id":"r2","connection~sig":{"@type":"https://didcomm.org/signature/1.0/ed25519Sha512_single","signature":"AAAA","sig_data":"AAAAAAAAAAB7fQ==","signer":"H3C2AVvLMv6gmMNam3uVAjZpfkcJCwDwnZn6z3wXmqPV"},` + cthread + `}`,
			`{"@type":"https://didcomm.org/notification/1.0/ack","@id":"r3","status":"OK",` + cthread + `}`,
			`{"@type":"https://didcomm.org/connections/1.0/invitation","@id":"P§","label":"bob","recipientKeys":["H3C2AVvLMv6gmMNam3uVAjZpfkcJCwDwnZn6z3wXmqPV"],"serviceEndpoint":"http://127.0.0.1:1/","did":""}`,
			// the interop form of a request: a document whose id is a bare key and an IndyAgent service with raw base58 keys
			`{"@type":"https://didcomm.org/connections/1.0/request","@id":"T§","label":"bob","connection":{"DID":"H3C2AVvLMv6gmMNam3uVAj","DIDDoc":{"@context":"https://w3id.org/did/v1","id":"H3C2AVvLMv6gmMNam3uVAj","publicKey":[{"id":"H3C2AVvLMv6gmMNam3uVAj#1","type":"Ed25519VerificationKey2018","controller":"H3C2AVvLMv6gmMNam3uVAj","publicKeyBase58":"H3C2AVvLMv6gmMNam3uVAjZpfkcJCwDwnZn6z3wXmqPV"}],"authentication":[{"type":"Ed25519SignatureAuthentication2018","publicKey":"H3C2AVvLMv6gmMNam3uVAj#1"}],"service":[{"id":"H3C2AVvLMv6gmMNam3uVAj;indy","type":"IndyAgent","priority":0,"recipientKeys":["H3C2AVvLMv6gmMNam3uVAjZpfkcJCwDwnZn6z3wXmqPV"],"routingKeys":["JhNWeSVLMYccCk7iopQW4guaSJTojqpMEELgSLhKwRr"],"serviceEndpoint":"http://127.0.0.1:1/"}]}},"~thread":{"pthid":"P§"}}`,
		},
		"issuecredential": {
			`{"@type":"https://didcomm.org/issue-credential/2.0/propose-credential","@id":"T§","comment":"c","credential_proposal":{"@type":"https://didcomm.org/issue-credential/2.0/credential-preview","attributes":[{"name":"n","mime-type":"text/plain","value":"v"}]},"formats":[{"attach_id":"c1","format":"aries/ld-proof-vc@v1.0"}],"filters~attach":[` + cred + `]}`,
			`{"@type":"https://didcomm.org/issue-credential/2.0/offer-credential","@id":"o1","comment":"c","credential_preview":{"@type":"https://didcomm.org/issue-credential/2.0/credential-preview","attributes":[{"name":"n","value":"v"}]},"formats":[{"attach_id":"c1","format":"aries/ld-proof-vc@v1.0"}],"offers~attach":[` + cred + `],` + thread + `}`,
			`{"@type":"https://didcomm.org/issue-credential/2.0/request-credential","@id":"o2","comment":"c","formats":[{"attach_id":"c1","format":"aries/ld-proof-vc@v1.0"}],"requests~attach":[` + cred + `],` + thread + `}`,
			`{"@type":"https://didcomm.org/issue-credential/2.0/issue-credential","@id":"o3","comment":"c","formats":[{"attach_id":"c1","format":"aries/ld-proof-vc@v1.0"}],"credentials~attach":[` + cred + `],` + thread + `,"~please_ack":{}}`,
			`{"@type":"https://didcomm.org/issue-credential/2.0/ack","@id":"o4","status":"OK",` + thread + `}`,
			`{"@type":"https://didcomm.org/issue-credential/2.0/problem-report","@id":"o5","description":{"code":"rejected","en":"no"},` + thread + `}`,
			`{"@type":"https://didcomm.org/issue-credential/3.0/offer-credential","id":"T3§","type":"https://didcomm.org/issue-credential/3.0/offer-credential","body":{"goal_code":"g","comment":"c","credential_preview":{"type":"https://didcomm.org/issue-credential/3.0/credential-preview","body":{"attributes":[{"name":"n","value":"v"}]}}},"attachments":[{"id":"c1","media_type":"application/json","format":"aries/ld-proof-vc@v1.0","data":{"json":{}}}]}`,
		},
		"presentproof": {
			`{"@type":"https://didcomm.org/present-proof/2.0/propose-presentation","@id":"T§","comment":"c","formats":[{"attach_id":"c1","format":"dif/presentation-exchange/definitions@v1.0"}],"proposals~attach":[` + cred + `]}`,
			`{"@type":"https://didcomm.org/present-proof/2.0/request-presentation","@id":"p1","comment":"c","will_confirm":true,"formats":[{"attach_id":"c1","format":"dif/presentation-exchange/definitions@v1.0"}],"request_presentations~attach":[{"@id":"c1","mime-type":"application/json","data":{"json":{"presentation_definition":` + strings.ReplaceAll(pdJSON, "\n", "") + `}}}],` + thread + `}`,
			`{"@type":"https://didcomm.org/present-proof/2.0/presentation","@id":"p2","comment":"c","formats":[{"attach_id":"c1","format":"dif/presentation-exchange/submission@v1.0"}],"presentations~attach":[` + cred + `],` + thread + `}`,
			`{"@type":"https://didcomm.org/present-proof/2.0/ack","@id":"p3","status":"OK",` + thread + `}`,
			`{"@type":"https://didcomm.org/present-proof/2.0/problem-report","@id":"p4","description":{"code":"rejected","en":"no"},` + thread + `}`,
			`{"type":"https://didcomm.org/present-proof/3.0/request-presentation","id":"T3§","from_prior":"eyJhbGciOiJFZERTQSIsImtpZCI6ImRpZDpleGFtcGxlOm9sZCNrZXktMSJ9.eyJpc3MiOiJkaWQ6ZXhhbXBsZTpvbGQiLCJzdWIiOiJkaWQ6ZXhhbXBsZTpuZXciLCJpYXQiOjE2MDAwMDAwMDB9.AAAA","body":{"goal_code":"g","will_confirm":true},"attachments":[{"id":"c1","media_type":"application/json","format":"dif/presentation-exchange/definitions@v1.0","data":{"json":{}}}]}`,
		},
		"introduce": {
			`{"@type":"https://didcomm.org/introduce/1.0/request","@id":"T§","please_introduce_to":{"name":"carol","description":"d","expected":true,"img~attach":{"data":{"base64":"AAAA"}}},"nwise":false,"~timing":{"expires_time":"2030-01-01T00:00:00Z"}}`,
			`{"@type":"https://didcomm.org/introduce/1.0/proposal","@id":"i1","to":{"name":"carol","description":"d","expected":true},"nwise":false,` + thread + `}`,
			`{"@type":"https://didcomm.org/introduce/1.0/response","@id":"i2","approve":true,"oob-message":{"@type":"https://didcomm.org/out-of-band/1.0/invitation","@id":"oob1","label":"carol","services":["did:example:carol"],"handshake_protocols":["https://didcomm.org/didexchange/1.0"]},` + thread + `}`,
			`{"@type":"https://didcomm.org/introduce/1.0/ack","@id":"i3","status":"OK",` + thread + `}`,
			`{"@type":"https://didcomm.org/introduce/1.0/problem-report","@id":"i4","description":{"code":"rejected","en":"no"},` + thread + `}`,
		},
		"mediator": {
			`{"@type":"https://didcomm.org/coordinatemediation/1.0/mediate-request","@id":"T§","~timing":{}}`,
			`{"@type":"https://didcomm.org/coordinatemediation/1.0/keylist_update","@id":"k1","updates":[{"recipient_key":"did:key:z6MkpTHR8VNsBxYAAWHut2Geadd9jSwuBV8xRoAnwWsdvktH","action":"add"}]}`,
			`{"@type":"https://didcomm.org/coordinatemediation/1.0/mediate-grant","@id":"@REQID@","endpoint":"http://127.0.0.1:1/","routing_keys":["did:key:z6MkpTHR8VNsBxYAAWHut2Geadd9jSwuBV8xRoAnwWsdvktH"],` + thread + `}`,
			`{"@type":"https://didcomm.org/coordinatemediation/1.0/keylist_update_response","@id":"@REQID@","updated":[{"recipient_key":"did:key:z6MkpTHR8VNsBxYAAWHut2Geadd9jSwuBV8xRoAnwWsdvktH","action":"add","result":"success"}],` + thread + `}`,
			`{"@type":"https://didcomm.org/routing/1.0/forward","@id":"f1","to":"did:key:z6MkpTHR8VNsBxYAAWHut2Geadd9jSwuBV8xRoAnwWsdvktH","msg":{"protected":"e30","iv":"AAAA","ciphertext":"AAAA","tag":"AAAA"}}`,
			`{"type":"https://didcomm.org/routing/2.0/forward","id":"f2","body":{"next":"did:key:z6MkpTHR8VNsBxYAAWHut2Geadd9jSwuBV8xRoAnwWsdvktH"},"to":["did:example:m"],"attachments":[{"id":"a","data":{"json":{"protected":"e30"}}}]}`,
		},
		"messagepickup": {
			`{"@type":"https://didcomm.org/messagepickup/1.0/status-request","@id":"T§",` + thread + `}`,
			`{"@type":"https://didcomm.org/messagepickup/1.0/batch-pickup","@id":"m1","batch_size":1,` + thread + `}`,
			`{"@type":"https://didcomm.org/messagepickup/1.0/status","@id":"@REQID@","message_count":1,"duration_waited":1,"last_added_time":"2020-01-01T00:00:00Z","last_delivered_time":"2020-01-01T00:00:00Z","last_removed_time":"2020-01-01T00:00:00Z","total_size":1,` + thread + `}`,
			`{"@type":"https://didcomm.org/messagepickup/1.0/batch","@id":"@REQID@","messages~attach":[{"id":"x","message":{"protected":"e30"}}],` + thread + `}`,
			`{"@type":"https://didcomm.org/messagepickup/1.0/noop","@id":"m4","~timing":{}}`,
		},
		"outofband": {
			`{"@type":"https://didcomm.org/out-of-band/1.0/invitation","@id":"P§","label":"bob","goal":"g","goal_code":"gc","services":[{"id":"s1","type":"did-communication","recipientKeys":["did:key:z6MkpTHR8VNsBxYAAWHut2Geadd9jSwuBV8xRoAnwWsdvktH"],"serviceEndpoint":"http://127.0.0.1:1/"},"` + theirDID + `"],"accept":["didcomm/aip2;env=rfc19"],"handshake_protocols":["https://didcomm.org/didexchange/1.0"],"request~attach":[` + att + `]}`,
			`{"@type":"https://didcomm.org/out-of-band/1.0/handshake-reuse","@id":"h1§","~thread":{"thid":"h1§","pthid":"P§"}}`,
			`{"@type":"https://didcomm.org/out-of-band/1.0/handshake-reuse-accepted","@id":"h2","~thread":{"thid":"h1§","pthid":"P§"}}`,
			`{"type":"https://didcomm.org/out-of-band/2.0/invitation","id":"T2§","from":"` + theirDID + `","label":"bob","body":{"goal":"g","goal_code":"gc","accept":["didcomm/v2","didcomm/aip2;env=rfc19"]},"attachments":[{"id":"a","media_type":"application/json","data":{"json":{"type":"https://didcomm.org/present-proof/3.0/request-presentation","id":"x","body":{}}}}]}`,
		},
	}
}

// statePaths: role-consistent inbound sequences of each protocol (template indexes); the type-confused messages are
// injected after every prefix of every path.
var statePaths = map[string][][]int{
	"didexchange":      {{0, 2}, {3, 1, 4}, {0, 0}},
	"legacyconnection": {{0, 2}, {3, 1, 2}, {0, 0}, {4, 2}},
	"issuecredential":  {{0, 2, 4}, {1, 3}, {1, 5}, {2, 4}, {6}},
	"presentproof":     {{0, 2}, {1, 3}, {1, 4}, {5}},
	"introduce":        {{0, 2, 2}, {0, 0}, {1, 3}, {1, 4}},
	"mediator":         {{0, 1, 4}, {2, 3}},
	"messagepickup":    {{0, 1, 1}, {2, 3}},
	"outofband":        {{0, 1}, {0, 2}, {3}},
}

var protoOrder = []string{"didexchange", "legacyconnection", "issuecredential", "presentproof", "introduce", "mediator",
	"messagepickup", "outofband"}

// ---------- worker ----------

type workReq struct {
	Op   string          `json:"op"` // msg | flush
	ID   int             `json:"id"`
	Msg  json.RawMessage `json:"msg"`
	Conn bool            `json:"conn"`
	Wait int             `json:"wait_ms"`
	Inv  string          `json:"inv"` // id of the item's invitation / parent thread
	Alt  string          `json:"alt"` // thread id to use when the agent has no connection record for Inv
	Via  string          `json:"via"`
	Late int             `json:"late_ms"`       // api call: the first answer arrives this long after the request
	Raw  []byte          `json:"raw,omitempty"` // a transport frame (any bytes)
	// Burst: the message is delivered this many times at once (duplicated delivery racing with the waiting call)
	Burst int `json:"burst,omitempty"`
	// InSend: the message is the peer's answer delivered this many times while the agent's outbound send of the request
	// has not returned yet
	InSend int `json:"in_send,omitempty"`
}

type nullTransport struct{}

var sentCh = make(chan []byte, 1024)

func (nullTransport) Start(transport.Provider) error { return nil }

// sendHook, when set, is called inside Send: a peer that answers while the agent's send is still in progress (return
// route on the same socket, a fast router).
var (
	sendHook   func([]byte)
	sendHookMu sync.Mutex
)

func (nullTransport) Send(data []byte, _ *service.Destination) (string, error) {
	select {
	case sentCh <- data:
	default:
	}

	sendHookMu.Lock()
	h := sendHook
	sendHook = nil
	sendHookMu.Unlock()

	if h != nil {
		h(data)
	}

	return "", nil
}
func (nullTransport) AcceptRecipient([]string) bool { return true }
func (nullTransport) Accept(string) bool            { return true }

type target struct {
	ctx      *context.Provider
	svcs     []svc
	lookup   *connection.Lookup
	rec      *connection.Recorder
	pool     *hostilePool
	lastReq  string // @id of the request the last application call sent
	wsURL    string
	nconn    int
	myKey    string // did:key of this agent's DID document key
	theirKey string
}

type svc interface {
	HandleInbound(msg service.DIDCommMsg, ctx service.DIDCommContext) (string, error)
	Accept(msgType string) bool
	Name() string
}

func newTarget() *target {
	wsAddr := freeAddr()

	fw, err := aries.New(aries.WithStoreProvider(mem.NewProvider()), aries.WithProtocolStateStoreProvider(mem.NewProvider()),
		defaults.WithInboundWSAddr(wsAddr, "ws://"+wsAddr, "", "", 0),
		aries.WithOutboundTransports(nullTransport{}),
		// the goal code of the out-of-band 2.0 template is routed to the present-proof service
		aries.WithServiceMsgTypeTargets(dispatcher.MessageTypeTarget{Target: "gc", MsgType: "present-proof/3.0/request-presentation"}))
	must(err)

	ctx, err := fw.Context()
	must(err)

	t := &target{ctx: ctx, wsURL: "ws://" + wsAddr}

	for _, s := range ctx.AllServices() {
		t.svcs = append(t.svcs, s)

		// the holder application uses the presentation-exchange middleware of the framework
		if pp, ok := s.(*presentproof.Service); ok {
			pp.Use(mdpresentproof.PresentationDefinition(ctx))
		}

		if ev, ok := s.(service.Event); ok {
			ch := make(chan service.DIDCommAction, 64)
			if ev.RegisterActionEvent(ch) == nil {
				go autoContinue(s, ch)
			}
		}
	}

	// a completed connection with the sender + both DID documents
	for _, id := range []string{myDID, theirDID} {
		d, e := did.ParseDocument([]byte(realDoc(ctx, id)))
		must(e)

		_, e = ctx.VDRegistry().Create("peer", d, vdrapi.WithOption("store", true))
		must(e)
	}

	rec, err := connection.NewRecorder(ctx)
	must(err)

	t.lookup = rec.Lookup
	t.myKey, t.theirKey = realDocKeys[myDID], realDocKeys[theirDID]
	t.rec = rec
	t.pool = newHostilePool()

	must(rec.SaveConnectionRecord(&connection.Record{ConnectionID: "conn1", State: "completed", ThreadID: "Tconn",
		TheirDID: theirDID, MyDID: myDID, Namespace: "my", TheirLabel: "bob",
		RecipientKeys: []string{"did:key:z6MkpTHR8VNsBxYAAWHut2Geadd9jSwuBV8xRoAnwWsdvktH"}}))

	// the sender is this agent's router (what AddKey / BatchPickup ... need): the registration is written directly
	for _, s := range ctx.AllServices() {
		if m, ok := s.(*mediator.Service); ok {
			done := make(chan struct{})

			go func() {
				_ = m.Register("conn1", mediator.ClientOption(func(o *mediator.ClientOptions) { o.Timeout = 3 * time.Second }))

				close(done)
			}()

			select {
			case packed := <-sentCh:
				if env, e := ctx.Packager().UnpackMessage(packed); e == nil {
					var req struct {
						ID string `json:"@id"`
					}

					if json.Unmarshal(env.Message, &req) == nil {
						grant, _ := service.ParseDIDCommMsgMap([]byte(`{"@type":"https://didcomm.org/coordinatemediation/1.0/mediate-grant","@id":"` +
							req.ID + `","endpoint":"http://127.0.0.1:1/","routing_keys":["did:key:z6MkpTHR8VNsBxYAAWHut2Geadd9jSwuBV8xRoAnwWsdvktH"]}`))
						_, _ = m.HandleInbound(grant, service.NewDIDCommContext(myDID, theirDID, nil))
					}
				}
			case <-time.After(3 * time.Second): //nolint:gomnd
			}

			select {
			case <-done:
			case <-time.After(5 * time.Second): //nolint:gomnd
			}
		}
	}

	// an inbox for the sender at the message pickup service
	for _, s := range ctx.AllServices() {
		if mp, ok := s.(*messagepickup.Service); ok {
			_ = mp.AddMessage([]byte(`{"protected":"e30"}`), theirDID)
			_ = mp.AddMessage([]byte(`{"protected":"e30"}`), theirDID)
		}
	}

	return t
}

func freeAddr() string {
	ln, err := net.Listen("tcp", "127.0.0.1:0")
	must(err)

	defer ln.Close() //nolint:errcheck

	return ln.Addr().String()
}

// autoContinue approves every action the way an application would (introduce: with a recipient).
func autoContinue(s svc, ch chan service.DIDCommAction) {
	name := s.Name()
	introduced := map[string]bool{}
	n := 0

	piid := func(a service.DIDCommAction) string {
		if a.Properties == nil {
			return ""
		}

		if p, ok := a.Properties.All()["piid"].(string); ok {
			return p
		}

		return ""
	}

	for a := range ch {
		n++
		// every other action is continued through the service's ActionContinue (the client API: the action is
		// reloaded from the store), the others through the event's Continue
		viaAPI := n%2 == 0 && piid(a) != ""

		switch {
		case name == introduce.Introduce:
			var opt introduce.Opt

			if a.Message.Type() == introduce.RequestMsgType {
				// the application names the recipients for the first request of a thread and simply continues a
				// repeated one (the service then works with what it stored for the thread)
				thid, _ := a.Message.ThreadID() //nolint:errcheck
				if !introduced[thid] {
					introduced[thid] = true
					opt = introduce.WithRecipients(&introduce.To{Name: "carol"}, &introduce.Recipient{
						To: &introduce.To{Name: "dave"}, MyDID: myDID, TheirDID: theirDID})
				}
			}

			if is, ok := s.(*introduce.Service); ok && viaAPI {
				_ = is.ActionContinue(piid(a), opt)
			} else if opt != nil {
				a.Continue(opt)
			} else {
				a.Continue(nil)
			}
		case name == issuecredential.Name:
			var opt issuecredential.Opt

			switch a.Message.Type() {
			case issuecredential.ProposeCredentialMsgTypeV2, issuecredential.ProposeCredentialMsgTypeV3:
				opt = issuecredential.WithOfferCredential(&issuecredential.OfferCredentialParams{})
			case issuecredential.RequestCredentialMsgTypeV2, issuecredential.RequestCredentialMsgTypeV3:
				opt = issuecredential.WithIssueCredential(&issuecredential.IssueCredentialParams{})
			}

			if is, ok := s.(*issuecredential.Service); ok && viaAPI {
				if opt != nil {
					_ = is.ActionContinue(piid(a), opt)
				} else {
					_ = is.ActionContinue(piid(a))
				}
			} else if opt != nil {
				a.Continue(opt)
			} else {
				a.Continue(nil)
			}
		case name == presentproof.Name:
			var opt presentproof.Opt

			switch a.Message.Type() {
			case presentproof.ProposePresentationMsgTypeV2, presentproof.ProposePresentationMsgTypeV3:
				opt = presentproof.WithRequestPresentation(&presentproof.RequestPresentationParams{})
			case presentproof.RequestPresentationMsgTypeV2, presentproof.RequestPresentationMsgTypeV3:
				// the holder answers with a credential and lets the middleware build the submission
				var vcm map[string]interface{}

				_ = json.Unmarshal([]byte(holderVC), &vcm)

				opt = presentproof.WithPresentation(&presentproof.PresentationParams{
					Attachments: []decorator.GenericAttachment{{ID: "hc1", MediaType: "application/ld+json",
						Data: decorator.AttachmentData{JSON: vcm}}}})
			}

			if ps, ok := s.(*presentproof.Service); ok && viaAPI {
				if opt != nil {
					_ = ps.ActionContinue(piid(a), opt)
				} else {
					_ = ps.ActionContinue(piid(a))
				}
			} else if opt != nil {
				a.Continue(opt)
			} else {
				a.Continue(nil)
			}
		default:
			a.Continue(nil)
		}
	}
}

// threadOf finds the thread of the connection record that belongs to the invitation / parent thread inv.
func (t *target) threadOf(inv, alt string) string {
	recs, err := t.lookup.QueryConnectionRecords()
	if err != nil {
		return alt
	}

	for _, r := range recs {
		if r.ConnectionID != "conn1" && (r.InvitationID == inv || r.ParentThreadID == inv) && r.ThreadID != "" {
			return r.ThreadID
		}
	}

	return alt
}

type oobOpts struct{}

func (oobOpts) MyLabel() string             { return "alice" }
func (oobOpts) RouterConnections() []string { return nil }
func (oobOpts) ReuseAnyConnection() bool    { return false }
func (oobOpts) ReuseConnection() string     { return "" }

// acceptOOB: what an application does with an out-of-band 1.0 invitation it received (the DID exchange that follows is
// answered by the peer with the next message of the item).
func (t *target) acceptOOB(raw []byte) {
	inv := &outofband.Invitation{}
	if json.Unmarshal(raw, inv) != nil {
		return
	}

	s, err := t.ctx.Service(outofband.Name)
	if err != nil {
		return
	}

	if o, ok := s.(*outofband.Service); ok {
		_, e := o.AcceptInvitation(inv, oobOpts{})
		if e != nil && os.Getenv("C03_DEBUG") != "" {
			fmt.Fprintf(os.Stderr, "c03-debug: oob AcceptInvitation: %v\n", e)
		}
	}
}

// wsPacked packs the message as the peer would (its keys, for this agent's keys) and writes the envelope on the agent's
// websocket: the transport listener unpacks it, links the connection to the sender's keys when a return route is asked
// for, and hands it to the inbound message handler - the whole inbound path.
func (t *target) wsPacked(plain []byte) {
	packed, err := t.ctx.Packager().PackMessage(&transport.Envelope{MediaTypeProfile: transport.MediaTypeRFC0019EncryptedEnvelope,
		Message: plain, FromKey: []byte(t.theirKey), ToKeys: []string{t.myKey}})
	if err != nil {
		if os.Getenv("C03_DEBUG") != "" {
			fmt.Fprintf(os.Stderr, "c03-debug: pack for ws: %v\n", err)
		}

		return
	}

	t.wsFrame(packed)
}

// acceptOOBv2: what an application does with an out-of-band 2.0 invitation it received.
func (t *target) acceptOOBv2(raw []byte) {
	inv := &outofbandv2.Invitation{}
	if json.Unmarshal(raw, inv) != nil {
		return
	}

	s, err := t.ctx.Service(outofbandv2.Name)
	if err != nil {
		return
	}

	if o, ok := s.(*outofbandv2.Service); ok {
		_, e := o.AcceptInvitation(inv)
		if e != nil && os.Getenv("C03_DEBUG") != "" {
			fmt.Fprintf(os.Stderr, "c03-debug: oobv2 AcceptInvitation: %v\n", e)
		}
	}
}

// apiCall starts a call of the application's API that sends a request to the peer and waits for the answer; the @id of
// the request (taken from the outbound transport) is what the peer's answers refer to.
func (t *target) apiCall(name string) {
	for len(sentCh) > 0 {
		<-sentCh
	}

	t.lastReq = "none"

	var (
		med *mediator.Service
		mp  *messagepickup.Service
	)

	for _, s := range t.svcs {
		switch x := s.(type) {
		case *mediator.Service:
			med = x
		case *messagepickup.Service:
			mp = x
		}
	}

	if med == nil || mp == nil {
		return
	}

	const key = "did:key:z6MkpTHR8VNsBxYAAWHut2Geadd9jSwuBV8xRoAnwWsdvktH"

	switch name {
	case "mediator-addkey":
		go func() {
			if e := med.AddKey("conn1", key); e != nil && os.Getenv("C03_DEBUG") != "" {
				fmt.Fprintf(os.Stderr, "c03-debug: AddKey: %v\n", e)
			}
		}()
	case "mediator-register":
		// a fresh connection with the same peer that is not yet registered as a router
		t.nconn++
		id := fmt.Sprintf("conn-r%d", t.nconn)

		if t.rec.SaveConnectionRecord(&connection.Record{ConnectionID: id, State: "completed", ThreadID: "T" + id,
			TheirDID: theirDID, MyDID: myDID, Namespace: "my"}) != nil {
			return
		}

		go func() {
			_ = med.Register(id, mediator.ClientOption(func(o *mediator.ClientOptions) { o.Timeout = 2 * time.Second }))
		}()
	case "mediator-unregister":
		// unregister and register again while the peer's answers (grant, keylist responses) keep coming
		go func() {
			_ = med.Unregister("conn1")
			_ = med.Register("conn1", mediator.ClientOption(func(o *mediator.ClientOptions) { o.Timeout = 2 * time.Second }))
		}()
	case "pickup-batch":
		go func() { _, _ = mp.BatchPickup("conn1", 1) }()
	case "pickup-status":
		go func() { _, _ = mp.StatusRequest("conn1") }()
	case "pickup-noop":
		go func() { _ = mp.Noop("conn1") }()
	default:
		return
	}

	select {
	case packed := <-sentCh:
		env, err := t.ctx.Packager().UnpackMessage(packed)
		if err != nil {
			if os.Getenv("C03_DEBUG") != "" {
				fmt.Fprintf(os.Stderr, "c03-debug: apiCall %s: unpack of the request: %v\n", name, err)
			}

			return
		}

		var req struct {
			ID string `json:"@id"`
		}

		if json.Unmarshal(env.Message, &req) == nil && req.ID != "" {
			t.lastReq = req.ID
		}

		if os.Getenv("C03_DEBUG") != "" {
			fmt.Fprintf(os.Stderr, "c03-debug: apiCall %s: request %s\n", name, env.Message)
		}
	case <-time.After(2 * time.Second): //nolint:gomnd
		if os.Getenv("C03_DEBUG") != "" {
			fmt.Fprintf(os.Stderr, "c03-debug: apiCall %s: no request seen\n", name)
		}
	}
}

// wsFrame sends one frame to the agent's websocket inbound transport (whose listener goroutine has no recover).
func (t *target) wsFrame(frame []byte) {
	if t.wsURL == "" {
		return
	}

	ctx, cancel := gocontext.WithTimeout(gocontext.Background(), 3*time.Second) //nolint:gomnd
	defer cancel()

	c, _, err := websocket.Dial(ctx, t.wsURL, nil) //nolint:bodyclose
	if err != nil {
		return
	}

	_ = c.Write(ctx, websocket.MessageBinary, frame)

	time.Sleep(20 * time.Millisecond) //nolint:gomnd

	_ = c.Close(websocket.StatusNormalClosure, "")
}

func (t *target) deliver(raw []byte, conn bool) {
	msg, err := service.ParseDIDCommMsgMap(raw)
	if err != nil {
		return
	}

	dctx := service.EmptyDIDCommContext()
	if conn {
		dctx = service.NewDIDCommContext(myDID, theirDID, nil)

		// what the inbound message handler does before the services see the message (DID rotation: from_prior)
		if rot := t.ctx.DIDRotator(); rot != nil {
			_ = rot.HandleInboundMessage(msg.Clone(), theirDID, myDID)
		}
	}

	for _, s := range t.svcs {
		if s.Accept(msg.Type()) {
			_, e := s.HandleInbound(msg.Clone(), dctx)
			if e != nil && os.Getenv("C03_DEBUG") != "" {
				fmt.Fprintf(os.Stderr, "c03-debug: %s HandleInbound(%s): %v\n", s.Name(), msg.Type(), e)
			}
		}
	}
}

func workerMain(_ string) {
	t := newTarget()

	if os.Getenv("C03_DEBUG") != "" {
		// every template must be a message some service accepts
		for proto, list := range templates() {
			for i, tpl := range list {
				m, err := service.ParseDIDCommMsgMap([]byte(tpl))
				accepted := false

				if err == nil {
					for _, s := range t.svcs {
						if s.Accept(m.Type()) {
							accepted = true
						}
					}
				}

				if !accepted {
					fmt.Fprintf(os.Stderr, "c03-debug: template %s/%d (%s) is accepted by no service\n", proto, i, m.Type())
				}
			}
		}
	}

	rd := bufio.NewReaderSize(os.Stdin, 1<<20)
	out := bufio.NewWriter(os.Stdout)

	for {
		line, err := rd.ReadBytes('\n')
		if len(line) > 0 {
			var req workReq
			if json.Unmarshal(line, &req) == nil {
				switch req.Op {
				case "msg":
					raw := []byte(req.Msg)
					if bytes.Contains(raw, []byte("@THID@")) {
						raw = bytes.ReplaceAll(raw, []byte("@THID@"), []byte(t.threadOf(req.Inv, req.Alt)))
					}

					raw = t.pool.substitute(raw, fmt.Sprintf("i%d", req.ID))

					// the entry point is called in a goroutine of its own: one that does not come back within the hang
					// threshold is reported and left behind
					fin := make(chan struct{})

					go func() {
						defer close(fin)

						t.dispatch(req, raw)
					}()

					select {
					case <-fin:
					case <-time.After(hangLimit):
						fmt.Fprintf(out, "hung %d\n", req.ID)
					}

					if req.Wait > 0 {
						time.Sleep(time.Duration(req.Wait) * time.Millisecond)
					}

					fmt.Fprintf(out, "ok %d\n", req.ID)
				case "pause":
					time.Sleep(time.Duration(req.Wait) * time.Millisecond)
				case "flush":
					time.Sleep(time.Duration(req.Wait) * time.Millisecond)

					// a sender-controlled endpoint some handler dereferenced and is still waiting for: give the client
					// the whole hang threshold to give up
					held := 0

					if n, _ := t.pool.pending(); n > 0 {
						deadline := time.Now().Add(hangLimit)
						for time.Now().Before(deadline) {
							if n, _ = t.pool.pending(); n == 0 {
								break
							}

							time.Sleep(200 * time.Millisecond) //nolint:gomnd
						}

						held, _ = t.pool.pending()
					}

					fmt.Fprintf(out, "flushed held=%d flood=%d contacts=%d heldtags=%s floodtags=%s\n", held, t.pool.flooded(),
						t.pool.contacts(), strings.Join(t.pool.heldTags(), ","), strings.Join(t.pool.floodTags(1<<25), ","))
				}

				out.Flush()
			}
		}

		if err != nil {
			return
		}
	}
}

// dispatch hands one message to the entry point its case names.
func (t *target) dispatch(req workReq, raw []byte) {
	switch {
	case req.Via == "oobv2-accept":
		t.acceptOOBv2(raw)
	case strings.HasPrefix(req.Via, "api:") && req.InSend > 0:
		n := req.InSend

		sendHookMu.Lock()
		sendHook = func(packed []byte) {
			env, err := t.ctx.Packager().UnpackMessage(packed)
			if err != nil {
				return
			}

			var rq struct {
				ID string `json:"@id"`
			}

			if json.Unmarshal(env.Message, &rq) != nil || rq.ID == "" {
				return
			}

			for i := 0; i < n; i++ {
				t.deliver(bytes.ReplaceAll(raw, []byte("@REQID@"), []byte(rq.ID)), true)
			}

			time.Sleep(100 * time.Millisecond) //nolint:gomnd // the handlers reach the point where they hand the answer over
		}
		sendHookMu.Unlock()

		t.apiCall(strings.TrimPrefix(req.Via, "api:"))
		time.Sleep(150 * time.Millisecond) //nolint:gomnd
	case strings.HasPrefix(req.Via, "api:"):
		t.apiCall(strings.TrimPrefix(req.Via, "api:"))

		if req.Late > 0 {
			time.Sleep(time.Duration(req.Late) * time.Millisecond)
		}

		answer := bytes.ReplaceAll(raw, []byte("@REQID@"), []byte(t.lastReq))

		if req.Burst > 1 {
			var wg sync.WaitGroup

			start := make(chan struct{})

			for i := 0; i < req.Burst; i++ {
				wg.Add(1)

				go func() {
					defer wg.Done()
					<-start
					t.deliver(answer, true)
				}()
			}

			close(start)
			wg.Wait()

			return
		}

		t.deliver(answer, true)
	case req.Via == "reply":
		t.deliver(bytes.ReplaceAll(raw, []byte("@REQID@"), []byte(t.lastReq)), true)
	case req.Via == "ws-frame":
		t.wsFrame(req.Raw)
	case req.Via == "ws-packed":
		t.wsPacked(raw)
	case req.Via == "oob-accept":
		t.acceptOOB(raw)
	default:
		t.deliver(raw, req.Conn)
	}
}

// ---------- parent side ----------

type protoItem struct {
	pc    ProtoCase
	seq   [][]byte // messages to deliver: prefix + the mutated message (+ once more)
	uniq  string   // suffix of the item's thread ids
	waits []int    // pause (ms) before the k-th message
	// lateFirst: the first answer arrives only after the application's call has timed out
	lateFirst bool
}

type batchResult struct {
	crashed bool
	timeout bool
	stderr  string
	lastOK  int
	held    int   // requests to hostile endpoints the agent still had open when the hang threshold passed
	flood   int64 // bytes the agent took from the endless stream
	// bad: the items (index in the batch) whose message named the endpoint of a held request / an over-read stream
	bad map[int]bool
}

func runBatch(items []protoItem, quiesce int) batchResult {
	cmd := exec.Command(os.Args[0], "-worker", "proto") //nolint:gosec
	cmd.Env = append(os.Environ(), "GOTRACEBACK=all")

	stdin, err := cmd.StdinPipe()
	must(err)

	stdout, err := cmd.StdoutPipe()
	must(err)

	var stderr bytes.Buffer
	cmd.Stderr = &stderr

	must(cmd.Start())

	done := make(chan batchResult, 1)

	go func() {
		res := batchResult{lastOK: -1}
		rd := bufio.NewReader(stdout)
		hung := map[int]bool{}

		for {
			line, e := rd.ReadString('\n')
			if strings.HasPrefix(line, "ok ") {
				fmt.Sscanf(line, "ok %d", &res.lastOK) //nolint:errcheck
			}

			if strings.HasPrefix(line, "hung ") {
				var n int
				if _, e2 := fmt.Sscanf(line, "hung %d", &n); e2 == nil {
					hung[n] = true
				}
			}

			if strings.HasPrefix(line, "flushed") {
				var contacts int64

				var ht, ft string

				for _, f := range strings.Fields(line) {
					switch {
					case strings.HasPrefix(f, "held="):
						fmt.Sscanf(f, "held=%d", &res.held) //nolint:errcheck
					case strings.HasPrefix(f, "flood="):
						fmt.Sscanf(f, "flood=%d", &res.flood) //nolint:errcheck
					case strings.HasPrefix(f, "contacts="):
						fmt.Sscanf(f, "contacts=%d", &contacts) //nolint:errcheck
					case strings.HasPrefix(f, "heldtags="):
						ht = strings.TrimPrefix(f, "heldtags=")
					case strings.HasPrefix(f, "floodtags="):
						ft = strings.TrimPrefix(f, "floodtags=")
					}
				}

				res.bad = map[int]bool{}

				for _, tg := range strings.Split(ht+","+ft, ",") {
					var n int
					if _, e := fmt.Sscanf(tg, "i%d", &n); e == nil {
						res.bad[n] = true
					}
				}

				for n := range hung {
					res.bad[n] = true
				}

				if res.held > 0 || len(res.bad) > 0 {
					res.timeout = true
				}

				done <- res

				return
			}

			if e != nil {
				res.crashed = true
				done <- res

				return
			}
		}
	}()

	go func() {
		w := bufio.NewWriter(stdin)

		for i, it := range items {
			for k, m := range it.seq {
				wait := 2
				if it.pc.Pre != "" {
					wait = 6 // the application's continuation of the prefix message must have run
				}

				if k == len(it.seq)-1 {
					wait = 0
				}

				via := it.pc.Via

				if via == "oob-accept" {
					wait = 40

					if k > 0 {
						via = ""
					}
				}

				if via == "ws-packed" {
					wait = 3
				}

				if strings.HasPrefix(via, "api:") {
					wait = 30 // the call (or the handler) works on the answer before the next one arrives

					if k > 0 {
						via = "reply"
					}

					if k == len(it.seq)-1 && strings.HasPrefix(it.pc.Reply, "late") && len(it.seq) > 0 {
						wait = 30
					}
				}

				late := 0
				if it.lateFirst && k == 0 {
					late = 10500 // updateTimeout of the services is 10 s
				}

				wr := workReq{Op: "msg", ID: i, Msg: m, Conn: it.pc.Conn, Wait: wait,
					Inv: "P" + it.uniq, Alt: "T" + it.uniq, Via: via, Late: late}
				switch it.pc.Reply {
				case "burst":
					wr.Burst = 6
				case "in-send":
					wr.InSend = 1
				case "in-send-twice":
					wr.InSend = 2
				}

				if via == "ws-frame" {
					wr.Msg, wr.Raw, wr.Wait = json.RawMessage("null"), m, 5
				}

				b, _ := json.Marshal(wr) //nolint:errcheck
				w.Write(b)               //nolint:errcheck
				w.WriteByte('\n')        //nolint:errcheck
			}
		}

		b, _ := json.Marshal(workReq{Op: "flush", Wait: quiesce}) //nolint:errcheck
		w.Write(b)                                                //nolint:errcheck
		w.WriteByte('\n')                                         //nolint:errcheck
		w.Flush()                                                 //nolint:errcheck
	}()

	limit := 4*hangLimit + time.Duration(len(items))*200*time.Millisecond

	var res batchResult

	select {
	case res = <-done:
	case <-time.After(limit):
		res = batchResult{timeout: true, lastOK: -1}
	}

	stdin.Close()               //nolint:errcheck
	cmd.Process.Kill()          //nolint:errcheck
	cmd.Wait()                  //nolint:errcheck
	io.Copy(io.Discard, stdout) //nolint:errcheck

	res.stderr = stderr.String()

	// a panic inside an inbound transport's HTTP handler is recovered by net/http (the connection dies, the agent
	// survives): the entry point panicked all the same
	if !res.crashed && strings.Contains(res.stderr, "http: panic serving") {
		res.crashed = true
		i := strings.Index(res.stderr, "http: panic serving")
		res.stderr = "panic: " + res.stderr[i:]
	}
	if res.crashed && !strings.Contains(res.stderr, "panic") && !strings.Contains(res.stderr, "fatal error") {
		// the worker ended without a Go panic trace: not an implementation crash
		res.stderr = "worker ended unexpectedly: " + res.stderr
	}

	return res
}

func workerPanicSite(stderr string) (string, string) {
	msg := ""

	for _, l := range strings.Split(stderr, "\n") {
		if strings.HasPrefix(l, "panic: ") || strings.HasPrefix(l, "fatal error: ") {
			msg = l
			break
		}
	}

	// first framework frame after the panic line
	idx := strings.Index(stderr, msg)
	site := ""

	for _, l := range strings.Split(stderr[idx:], "\n") {
		if strings.HasPrefix(l, "github.com/hyperledger/aries-framework-go/") {
			i := strings.LastIndex(l, "(")
			if i > 0 {
				site = strings.TrimPrefix(l[:i], "github.com/hyperledger/aries-framework-go/")
				break
			}
		}
	}

	return msg, site
}

func (r *runner) protoItems() []protoItem {
	tpls := templates()

	var items []protoItem

	for _, proto := range protoOrder {
		list := tpls[proto]

		for idx, tpl := range list {
			tree, ok := explodeWire([]byte(tpl))
			if !ok {
				panic("bad template " + proto)
			}

			prefix := make([][]byte, 0, idx)
			for _, p := range list[:idx] {
				prefix = append(prefix, []byte(p))
			}

			muts := closure(tree)
			muts = append([]Mut{{Path: "", Name: "seed", Tree: tree}}, muts...)

			for mi, m := range muts {
				// quick tier: the prefix-state variants are sampled, the fresh-thread variant always runs
				wire := render(m.Tree)

				all := []ProtoCase{{Proto: proto, Index: idx, Path: m.Path, Mut: m.Name, Conn: true},
					{Proto: proto, Index: idx, Path: m.Path, Mut: m.Name, Conn: false},
					{Proto: proto, Index: idx, Path: m.Path, Mut: m.Name, Conn: true, Second: true}}

				variants := all
				always := strings.HasPrefix(m.Name, "attach-links-") || strings.HasPrefix(m.Name, "url-") ||
					strings.HasPrefix(m.Name, "attach-b64-")

				if r.tier != "thorough" && m.Name != "seed" {
					// quick tier: every mutation in one of the three settings (rotating), every third one skipped
					// (rotating with the seed, so that three seeds cover the closure); the sender-controlled URLs
					// always, with a connection
					if (mi+int(r.seed))%3 == 2 && !always {
						continue
					}

					variants = all[mi%3 : mi%3+1]
					if always {
						variants = all[0:1]
					}
				}

				for _, pc := range variants {
					it := protoItem{pc: pc, uniq: fmt.Sprintf("-%d", len(items))}
					// every item works on threads of its own (the worker's agent is shared by a batch)
					uniq := []byte(it.uniq)
					own := func(b []byte) []byte { return bytes.ReplaceAll(b, []byte("§"), uniq) }

					if pc.Second {
						for _, p := range prefix {
							it.seq = append(it.seq, own(p))
						}

						it.seq = append(it.seq, own(wire), own(wire))
					} else {
						it.seq = append(it.seq, own(wire))
					}

					items = append(items, it)
				}
			}
		}
	}

	// entry points of the application that consume a peer's message: AcceptInvitation of an out-of-band 2.0
	// invitation, the answer to a pending BatchPickup
	for _, v := range []struct {
		proto string
		idx   int
		via   string
	}{{"outofband", 3, "oobv2-accept"}} {
		tree, ok := explodeWire([]byte(tpls[v.proto][v.idx]))
		if !ok {
			continue
		}

		muts := append([]Mut{{Path: "", Name: "seed", Tree: tree}}, closure(tree)...)

		for mi, m := range muts {
			if r.tier != "thorough" && m.Name != "seed" && m.Name != "null" && m.Name != "arr-null" && (mi+int(r.seed))%4 != 0 {
				continue
			}

			it := protoItem{pc: ProtoCase{Proto: v.proto, Index: v.idx, Path: m.Path, Mut: m.Name, Conn: true, Via: v.via},
				uniq: fmt.Sprintf("-%d", len(items))}
			it.seq = append(it.seq, bytes.ReplaceAll(render(m.Tree), []byte("§"), []byte(it.uniq)))
			items = append(items, it)
		}
	}

	// calls of the application's API in flight or finished, answered by the peer once, twice, contradictorily, late
	for _, v := range []struct {
		proto string
		idx   int
		api   string
	}{{"mediator", 3, "mediator-addkey"}, {"mediator", 2, "mediator-register"}, {"mediator", 2, "mediator-unregister"},
		{"messagepickup", 3, "pickup-batch"},
		{"messagepickup", 2, "pickup-status"}, {"messagepickup", 4, "pickup-noop"}} {
		tree, ok := explodeWire([]byte(tpls[v.proto][v.idx]))
		if !ok {
			continue
		}

		seedWire := render(tree)
		muts := append([]Mut{{Path: "", Name: "seed", Tree: tree}}, closure(tree)...)

		for mi, m := range muts {
			replies := []string{"once", "twice", "then-seed", "seed-then", "burst", "in-send-twice"}
			if m.Name == "seed" {
				replies = []string{"once", "twice", "burst", "in-send", "in-send-twice", "late", "late-twice"}

				if r.tier != "thorough" {
					// quick tier: the answers after the call's 10 s timeout only for the two calls that register a
					// channel under the request id
					replies = []string{"once", "twice", "burst", "in-send", "in-send-twice"} // late answers: thorough tier
				}
			} else if r.tier != "thorough" {
				if (mi+int(r.seed))%3 != 0 && m.Name != "null" && m.Name != "arr-null" && m.Name != "str-x" {
					continue
				}

				replies = replies[mi%6 : mi%6+1]
			}

			for _, rp := range replies {
				it := protoItem{pc: ProtoCase{Proto: v.proto, Index: v.idx, Path: m.Path, Mut: m.Name, Conn: true,
					Via: "api:" + v.api, Reply: rp}, uniq: fmt.Sprintf("-%d", len(items))}
				wire := bytes.ReplaceAll(render(m.Tree), []byte("§"), []byte(it.uniq))
				sw := bytes.ReplaceAll(seedWire, []byte("§"), []byte(it.uniq))

				it.seq, it.lateFirst = replySeq(rp, wire, sw)

				items = append(items, it)
			}
		}
	}

	// an out-of-band 1.0 invitation the application accepts, then the peer's DID Exchange response on the thread the
	// agent opened: the invitation's attachments are dispatched once the exchange completes
	if tree, ok := explodeWire([]byte(tpls["outofband"][0])); ok {
		muts := append([]Mut{{Path: "", Name: "seed", Tree: tree}}, closure(tree)...)

		for mi, m := range muts {
			always := strings.HasPrefix(m.Name, "attach-") || m.Name == "null" || m.Name == "arr-null" || m.Name == "seed"
			if r.tier != "thorough" && !always && (mi+int(r.seed))%4 != 0 {
				continue
			}

			it := protoItem{pc: ProtoCase{Proto: "outofband", Index: 0, Path: m.Path, Mut: m.Name, Conn: true, Via: "oob-accept"},
				uniq: fmt.Sprintf("-%d", len(items))}
			it.seq = [][]byte{bytes.ReplaceAll(render(m.Tree), []byte("§"), []byte(it.uniq)),
				bytes.ReplaceAll([]byte(tpls["didexchange"][1]), []byte("§"), []byte(it.uniq))}
			items = append(items, it)
		}
	}

	// messages packed by the peer and written on the agent's websocket with a return route asked for: transport
	// listener (key linking reads the DID document attachment), inbound message handler, services
	for _, proto := range protoOrder {
		for idx, tpl := range tpls[proto] {
			var obj map[string]interface{}
			if json.Unmarshal([]byte(tpl), &obj) != nil {
				continue
			}

			obj["~transport"] = map[string]interface{}{"~return_route": "all"}

			wb, _ := json.Marshal(obj) //nolint:errcheck

			tree, ok := explodeWire(wb)
			if !ok {
				continue
			}

			muts := []Mut{{Path: "", Name: "seed", Tree: tree}}
			if proto == "didexchange" || proto == "legacyconnection" || (proto == "presentproof" && idx == 5) {
				muts = append(muts, closure(tree)...)
			}

			for mi, m := range muts {
				always := strings.HasPrefix(m.Name, "attach-") || m.Name == "seed" || m.Name == "null"
				if r.tier != "thorough" && !always && (mi+int(r.seed))%5 != 0 {
					continue
				}

				it := protoItem{pc: ProtoCase{Proto: proto, Index: idx, Path: m.Path, Mut: m.Name, Conn: true, Via: "ws-packed"},
					uniq: fmt.Sprintf("-%d", len(items))}
				it.seq = [][]byte{bytes.ReplaceAll(render(m.Tree), []byte("§"), []byte(it.uniq))}
				items = append(items, it)
			}
		}
	}

	// frames for the websocket inbound transport: what a hostile peer can write on the socket before anything is
	// unpacked
	for i, f := range wsFrames() {
		it := protoItem{pc: ProtoCase{Proto: "ws", Index: i, Mut: "frame", Via: "ws-frame"}, uniq: fmt.Sprintf("-%d", len(items))}
		it.seq = [][]byte{f}
		items = append(items, it)
	}

	// state-dependent injection: after every prefix of every role-consistent path, every template of the protocol
	// (seed + a rotating sample of its closure; the thorough tier takes every fourth mutation)
	stride := 37
	if r.tier == "thorough" {
		stride = 4
	}

	for _, proto := range protoOrder {
		list := tpls[proto]

		seen := map[string]bool{}

		for _, path := range statePaths[proto] {
			for j := 1; j <= len(path); j++ {
				pre := path[:j]

				key := fmt.Sprint(pre)
				if seen[key] {
					continue
				}

				seen[key] = true

				preStr := strings.Trim(strings.ReplaceAll(fmt.Sprint(pre), " ", ","), "[]")

				for idx, tpl := range list {
					tree, ok := explodeWire([]byte(tpl))
					if !ok {
						continue
					}

					muts := append([]Mut{{Path: "", Name: "seed", Tree: tree}}, closure(tree)...)

					for mi, m := range muts {
						if m.Name != "seed" && (mi+int(r.seed)+idx+j)%stride != 0 {
							continue
						}

						pc := ProtoCase{Proto: proto, Index: idx, Path: m.Path, Mut: m.Name, Conn: true, Pre: preStr}
						it := protoItem{pc: pc, uniq: fmt.Sprintf("-%d", len(items))}
						uniq := []byte(it.uniq)

						for _, pi := range pre {
							it.seq = append(it.seq, bytes.ReplaceAll([]byte(list[pi]), []byte("§"), uniq))
						}

						it.seq = append(it.seq, bytes.ReplaceAll(render(m.Tree), []byte("§"), uniq))
						items = append(items, it)
					}
				}
			}
		}
	}

	return items
}

func (r *runner) emitProto(kind string, it protoItem, res batchResult, alone bool) {
	o := Outcome{Class: "ok"}
	rec := &hx.Record{Kind: kind, Case: Case{Seed: "proto." + it.pc.Proto, EP: "HandleInbound", Gen: "proto", Proto: &it.pc}}

	if res.timeout {
		o = Outcome{Class: "timeout", Site: "HandleInbound:" + it.pc.Proto}

		switch {
		case res.held > 0:
			o.Err = fmt.Sprintf("%d request(s) to a sender-controlled endpoint still open after the hang threshold", res.held)
			o.Site = "fetch-of-sender-url:" + it.pc.Proto
		case res.flood > 1<<25:
			o.Err = fmt.Sprintf("%d bytes taken from an endless stream behind a sender-controlled URL", res.flood)
			o.Site = "fetch-of-sender-url:" + it.pc.Proto
		}
	} else if res.crashed {
		msg, site := workerPanicSite(res.stderr)
		o = Outcome{Class: "panic", Err: msg, Site: site}

		if firstSight(site) || os.Getenv("VERIF_STACK") != "" {
			st := res.stderr
			if i := strings.Index(st, msg); i >= 0 {
				st = st[i:]
			}

			if len(st) > 3000 {
				st = st[:3000]
			}

			fmt.Fprintf(os.Stderr, "c03: first worker panic at %s:\n%s\n", site, st)
		}
	}

	rec.Observed = o
	rec.Class = fmt.Sprintf("E9|%s|%d|%s|%s|%v|%v|%s|%s", it.pc.Proto, it.pc.Index, it.pc.Path, it.pc.Mut, it.pc.Conn, it.pc.Second,
		it.pc.Pre+it.pc.Via+it.pc.Reply, o.Class)
	rec.Dist = []string{"layer:E9", "ep:HandleInbound:" + it.pc.Proto, "outcome:" + o.Class, "gen:proto"}
	if it.pc.Pre != "" {
		rec.Dist = append(rec.Dist, "after-prefix:"+it.pc.Proto+":"+it.pc.Pre)
	}

	if o.Class != "ok" {
		rec.Oracle = "fail"
		rec.Sig = o.Class + "@" + o.Site
		rec.Detail = fmt.Sprintf("%s in a handler goroutine of the agent: protocol %s, template %d, %s %s (conn=%v, delivered twice=%v, after prefix [%s], via %q answered %q): %s",
			o.Class, it.pc.Proto, it.pc.Index, it.pc.Path, it.pc.Mut, it.pc.Conn, it.pc.Second, it.pc.Pre, it.pc.Via, it.pc.Reply, o.Err)

		if !alone {
			rec.Detail += " [attributed inside a batch]"
		}
	}

	if c := r.coqProto(it, o); c != "" {
		rec.Coq = c
	}

	// message pickup pre-checks are modelled (E8): the seed / mutated status-request and batch-pickup
	if it.pc.Proto == "messagepickup" && it.pc.Index <= 1 && !it.pc.Second && it.pc.Pre == "" {
		rec.Coq = r.coqPickup(it, o)
	}

	r.put(rec)
}

// coqPickup gives the model the shape of a status-request / batch-pickup (an inbox with two messages exists for the
// connected sender; none for an unattributed one).
func (r *runner) coqPickup(it protoItem, o Outcome) string {
	var m map[string]interface{}
	if json.Unmarshal(it.seq[len(it.seq)-1], &m) != nil {
		return ""
	}

	obs := "OOk"
	if o.Class == "panic" {
		obs = "OPanic"
	} else if o.Class == "timeout" {
		obs = "OTimeout"
	}

	typ, _ := m["@type"].(string) //nolint:errcheck

	switch typ {
	case messagepickup.StatusRequestMsgType:
		_, isObj := m["~thread"].(map[string]interface{})

		return mkCase(fmt.Sprintf("(I8s %s %s)", coqBool(it.pc.Conn), coqBool(isObj)), obs)
	case messagepickup.BatchPickupMsgType:
		held := 0
		if it.pc.Conn {
			held = 2
		}

		f, isNum := m["batch_size"].(float64)
		if !isNum || f != float64(int64(f)) || f > 1e9 || f < -1e9 {
			return ""
		}

		return mkCase(fmt.Sprintf("(I8b %d%%nat (%d)%%Z)", held, int64(f)), obs)
	}

	return ""
}

func (r *runner) runProtocols() {
	items := r.protoItems()

	const batch = 300

	var chunks [][]protoItem

	var fast, urls []protoItem

	for _, it := range items {
		names := false

		for _, m := range it.seq {
			if bytes.Contains(m, []byte("@HOSTILE:")) {
				names = true
			}
		}

		switch {
		case it.lateFirst:
			chunks = append(chunks, []protoItem{it}) // waits for a timeout of the service: a worker of its own
		case names:
			urls = append(urls, it) // together: only their workers may have to wait for the hang threshold
		default:
			fast = append(fast, it)
		}
	}

	for i := 0; i < len(urls); i += batch {
		j := i + batch
		if j > len(urls) {
			j = len(urls)
		}

		chunks = append(chunks, urls[i:j])
	}

	for i := 0; i < len(fast); i += batch {
		j := i + batch
		if j > len(fast) {
			j = len(fast)
		}

		chunks = append(chunks, fast[i:j])
	}

	// first pass: the chunks in parallel workers; a chunk whose worker died is split afterwards (sequentially)
	results := make([]batchResult, len(chunks))
	sem := make(chan struct{}, 6) //nolint:gomnd
	done := make(chan int, len(chunks))

	for i := range chunks {
		go func(i int) {
			sem <- struct{}{}
			results[i] = runBatch(chunks[i], 300) //nolint:gomnd
			<-sem
			done <- i
		}(i)
	}

	for range chunks {
		<-done
	}

	for i, ch := range chunks {
		res := results[i]

		if !res.crashed && !res.timeout {
			for _, it := range ch {
				r.emitProto("proto", it, res, false)
			}

			continue
		}

		if !res.crashed && len(res.bad) > 0 {
			// requests to sender-controlled endpoints are attributed by the endpoint's path: confirm those items once
			// more together, the rest of the batch was fine
			var (
				suspects []protoItem
				idx      []int
			)

			for k, it := range ch {
				if res.bad[k] {
					suspects = append(suspects, it)
					idx = append(idx, k)
				}
			}

			if len(suspects) > 40 { //nolint:gomnd
				suspects, idx = suspects[:40], idx[:40]
			}

			confirm := runBatch(suspects, 300) //nolint:gomnd
			confirmed := map[int]bool{}

			for j := range suspects {
				if confirm.bad[j] {
					confirmed[idx[j]] = true
				}
			}

			ok := batchResult{lastOK: res.lastOK}

			for k, it := range ch {
				if confirmed[k] {
					r.emitProto("proto", it, batchResult{timeout: true, held: confirm.held, flood: confirm.flood}, true)
				} else {
					r.emitProto("proto", it, ok, false)
				}
			}

			continue
		}

		r.runProtoRange(ch)
	}
}

// runProtoRange runs a batch in one worker; when the worker dies the batch is split to attribute the crash.
func (r *runner) runProtoRange(items []protoItem) {
	for len(items) > 0 {
		res := runBatch(items, 300) //nolint:gomnd
		if !res.crashed && !res.timeout {
			for _, it := range items {
				r.emitProto("proto", it, res, false)
			}

			return
		}

		if len(items) == 1 {
			// confirm alone once more (a loaded machine must not produce a false alarm)
			r.emitProto("proto", items[0], runBatch(items, 800), true) //nolint:gomnd

			return
		}

		if !res.crashed {
			r.bisectProto(items)
			return
		}

		// the worker died: the culprit is (nearly always) the first message that was not acknowledged or one of the
		// few before it (handlers work asynchronously); each candidate is run alone
		k := res.lastOK + 1
		if k >= len(items) {
			k = len(items) - 1
		}

		lo := k - 3 //nolint:gomnd
		if lo < 0 {
			lo = 0
		}

		found := -1

		for j := k; j >= lo && found < 0; j-- {
			alone := runBatch(items[j:j+1], 800) //nolint:gomnd
			if alone.crashed || alone.timeout {
				again := runBatch(items[j:j+1], 800) //nolint:gomnd
				if again.crashed || again.timeout {
					r.emitProto("proto", items[j], again, true)

					found = j
				}
			}
		}

		if found < 0 {
			r.bisectProto(items)
			return
		}

		for i, it := range items[:k+1] {
			if i != found {
				r.emitProto("proto", it, batchResult{lastOK: res.lastOK}, false)
			}
		}

		items = items[k+1:]

		r.mu.Lock()
		r.crashes++
		tooMany := r.crashes > 30 //nolint:gomnd
		r.mu.Unlock()

		if tooMany {
			// the agent dies on so many inputs that attributing each costs more than it tells: the rest is not run
			fmt.Fprintf(os.Stderr, "c03: more than 30 crashing protocol inputs attributed; %d inputs of this batch not run\n", len(items))
			return
		}
	}
}

// bisectProto splits a batch that failed without a usable hint.
func (r *runner) bisectProto(items []protoItem) {
	if len(items) == 1 {
		r.emitProto("proto", items[0], runBatch(items, 800), true) //nolint:gomnd
		return
	}

	mid := len(items) / 2

	for _, half := range [][]protoItem{items[:mid], items[mid:]} {
		res := runBatch(half, 300) //nolint:gomnd
		if !res.crashed && !res.timeout {
			for _, it := range half {
				r.emitProto("proto", it, res, false)
			}

			continue
		}

		r.bisectProto(half)
	}
}

// replySeq: the peer's answers to the request of an application call.
func replySeq(rp string, wire, seedWire []byte) ([][]byte, bool) {
	switch rp {
	case "twice":
		return [][]byte{wire, wire}, false
	case "then-seed":
		return [][]byte{wire, seedWire}, false
	case "seed-then":
		return [][]byte{seedWire, wire}, false
	case "in-send", "in-send-twice": // answered while the agent's send of the request is still in progress
		return [][]byte{wire}, false
	case "burst": // the same answer several times at once, while the call is still waiting (see workReq.Burst)
		return [][]byte{wire}, false
	case "late": // the call has given up when the answer arrives
		return [][]byte{wire}, true
	case "late-twice":
		return [][]byte{wire, wire}, true
	}

	return [][]byte{wire}, false
}

// buildItem rebuilds the item of a protocol case from its description (used by replays and corpus witnesses, which
// must not depend on the tier's sampling).
func buildItem(pc ProtoCase) (protoItem, bool) {
	if pc.Via == "ws-frame" {
		fr := wsFrames()
		if pc.Index < 0 || pc.Index >= len(fr) {
			return protoItem{}, false
		}

		return protoItem{pc: pc, uniq: "-r", seq: [][]byte{fr[pc.Index]}}, true
	}

	list := templates()[pc.Proto]
	if pc.Index < 0 || pc.Index >= len(list) {
		return protoItem{}, false
	}

	tree, ok := explodeWire([]byte(list[pc.Index]))
	if !ok {
		return protoItem{}, false
	}

	var wire []byte

	if pc.Mut == "seed" {
		wire = render(tree)
	} else {
		for _, m := range closure(tree) {
			if m.Path == pc.Path && m.Name == pc.Mut {
				wire = render(m.Tree)
				break
			}
		}
	}

	if wire == nil {
		return protoItem{}, false
	}

	it := protoItem{pc: pc, uniq: "-r"}
	own := func(b []byte) []byte { return bytes.ReplaceAll(b, []byte("§"), []byte(it.uniq)) }

	if pc.Via == "ws-packed" {
		var obj map[string]interface{}
		if json.Unmarshal([]byte(list[pc.Index]), &obj) != nil {
			return protoItem{}, false
		}

		obj["~transport"] = map[string]interface{}{"~return_route": "all"}

		wb, _ := json.Marshal(obj) //nolint:errcheck

		tree, ok = explodeWire(wb)
		if !ok {
			return protoItem{}, false
		}

		wire = nil

		if pc.Mut == "seed" {
			wire = render(tree)
		} else {
			for _, m := range closure(tree) {
				if m.Path == pc.Path && m.Name == pc.Mut {
					wire = render(m.Tree)
					break
				}
			}
		}

		if wire == nil {
			return protoItem{}, false
		}
	}

	switch {
	case pc.Via == "oob-accept":
		it.seq = [][]byte{own(wire), own([]byte(templates()["didexchange"][1]))}
	case strings.HasPrefix(pc.Via, "api:"):
		it.seq, it.lateFirst = replySeq(pc.Reply, own(wire), own([]byte(list[pc.Index])))
	case pc.Pre != "":
		for _, f := range strings.Split(pc.Pre, ",") {
			var pi int
			if _, err := fmt.Sscanf(f, "%d", &pi); err != nil || pi < 0 || pi >= len(list) {
				return protoItem{}, false
			}

			it.seq = append(it.seq, own([]byte(list[pi])))
		}

		it.seq = append(it.seq, own(wire))
	case pc.Second:
		for _, p := range list[:pc.Index] {
			it.seq = append(it.seq, own([]byte(p)))
		}

		it.seq = append(it.seq, own(wire), own(wire))
	default:
		it.seq = append(it.seq, own(wire))
	}

	return it, true
}

func (r *runner) replayProto(c Case, kind string) bool {
	it, ok := buildItem(*c.Proto)
	if !ok {
		return false
	}

	res := runBatch([]protoItem{it}, 800) //nolint:gomnd
	if res.crashed || res.timeout {
		res = runBatch([]protoItem{it}, 800) //nolint:gomnd
	}

	r.emitProto(kind+":proto", it, res, true)

	return true
}

// coqProto hands the modelled pre-checks of the connection protocols / introduce (E9) the shape of the delivered
// message.  Handlers work asynchronously: the observation is "the agent survived" (ONoCrash) or a crash.
func (r *runner) coqProto(it protoItem, o Outcome) (out string) {
	// the views are computed with the framework's own decoders: a crash of those is the worker's to report
	defer func() {
		if recover() != nil {
			out = ""
		}
	}()

	obs := "ONoCrash"
	if o.Class == "panic" {
		obs = "OPanic"
	} else if o.Class == "timeout" {
		obs = "OTimeout"
	}

	// a raw frame on the websocket: the transport helper's quoted-base64 detection (E2)
	if it.pc.Via == "ws-frame" && len(it.seq[0]) <= 96 { //nolint:gomnd
		return mkCase("(I2t "+coqBytes(it.seq[0])+")", obs)
	}

	if it.pc.Via != "" {
		return ""
	}

	obs = "ONoCrash"
	if o.Class == "panic" {
		obs = "OPanic"
	} else if o.Class == "timeout" {
		obs = "OTimeout"
	}

	last := it.seq[len(it.seq)-1]

	msg, err := service.ParseDIDCommMsgMap(last)
	if err != nil {
		return ""
	}

	pc := it.pc

	switch {
	case (pc.Proto == "didexchange" || pc.Proto == "legacyconnection") && pc.Index == 3 && pc.Pre == "" && !pc.Second:
		var (
			did  string
			keys []string
		)

		if pc.Proto == "didexchange" {
			inv := &didexchange.Invitation{}
			if msg.Decode(inv) != nil {
				return ""
			}

			did, keys = inv.DID, inv.RecipientKeys
		} else {
			inv := &legacyconnection.Invitation{}
			if msg.Decode(inv) != nil {
				return ""
			}

			did, keys = inv.DID, inv.RecipientKeys
		}

		ks := make([]string, len(keys))

		for i, k := range keys {
			s, ok := coqStr(k)
			if !ok {
				return ""
			}

			ks[i] = s
		}

		return mkCase(fmt.Sprintf("(I9inv %s %s [%s])", coqBool(pc.Proto == "legacyconnection"), coqBool(did != ""),
			strings.Join(ks, "; ")), obs)
	case pc.Proto == "legacyconnection" && pc.Index == 1 && pc.Pre == "3":
		resp := &legacyconnection.Response{}
		if msg.Decode(resp) != nil {
			return ""
		}

		sig := "None"

		if cs := resp.ConnectionSignature; cs != nil {
			data, e1 := base64.URLEncoding.DecodeString(cs.SignedData)
			_, e2 := base64.URLEncoding.DecodeString(cs.Signature)
			sig = fmt.Sprintf("(Some {| sv_data_ok := %s; sv_data_len := (%d)%%Z; sv_sig_ok := %s |})", coqBool(e1 == nil),
				len(data), coqBool(e2 == nil))
		}

		return mkCase("(I9resp "+sig+")", obs)
	case pc.Proto == "legacyconnection" && pc.Index == 4 && pc.Pre == "" && !pc.Second:
		var m struct {
			Connection struct {
				DIDDoc struct {
					Service []struct {
						RecipientKeys []string `json:"recipientKeys"`
					} `json:"service"`
				} `json:"DIDDoc"`
			} `json:"connection"`
		}

		if json.Unmarshal(last, &m) != nil || len(m.Connection.DIDDoc.Service) == 0 {
			return ""
		}

		var ks []string

		for _, k := range m.Connection.DIDDoc.Service[0].RecipientKeys {
			ks = append(ks, fmt.Sprintf("(%s, %s, %s, %s)", coqBool(k == ""), coqBool(k != "" && strings.Contains("?/#", k[:1])),
				coqBool(strings.HasPrefix(k, "did:")), coqBool(asciiOnly(k))))
		}

		return mkCase("(I9keys ["+strings.Join(ks, "; ")+"])", obs)
	case pc.Proto == "introduce" && pc.Index == 0 && pc.Second && pc.Mut == "seed":
		return mkCase("(I9meta [false; false])", obs)
	}

	return ""
}

// wsFrames: short frames, quoted frames and their truncations.
func wsFrames() [][]byte {
	quoted := []byte("\"" + base64.URLEncoding.EncodeToString([]byte(`{"protected":"eyJ0eXAiOiJKV00vMS4wIn0","iv":"AAAA","ciphertext":"AAAA","tag":"AAAA"}`)) + "\"")

	frames := [][]byte{{}, []byte("\""), []byte("\"\""), []byte("\"a\""), []byte("\"\"\""), []byte("{"), []byte("{}"), []byte("null"),
		[]byte("[]"), []byte("\"e30\""), []byte("\"e30=\""), []byte("e30.e30.e30.e30.e30"), []byte("."), []byte("...."),
		[]byte("\x00"), []byte("\xff\xfe"), quoted, []byte(`{"protected":"e30","recipients":[null]}`),
		[]byte(`{"protected":"eyJ0eXAiOiJKV00vMS4wIiwiYWxnIjoiQXV0aGNyeXB0IiwicmVjaXBpZW50cyI6W3siaGVhZGVyIjp7ImtpZCI6IuKCrCJ9fV19","iv":"AAAA","ciphertext":"AAAA","tag":"AAAA"}`)}

	for i := 1; i < len(quoted); i += 7 {
		frames = append(frames, append([]byte{}, quoted[:i]...), append(append([]byte{}, quoted[:i]...), '"'))
	}

	return frames
}

// replayProtoBatch runs the protocol witnesses of the corpus together in one worker; when that worker does not survive
// (or waits on a hostile endpoint) each is run alone.
func (r *runner) replayProtoBatch(cases []Case, kind string) {
	var items []protoItem

	for _, c := range cases {
		if it, ok := buildItem(*c.Proto); ok {
			it.uniq = fmt.Sprintf("-c%d", len(items))

			for k := range it.seq {
				it.seq[k] = bytes.ReplaceAll(it.seq[k], []byte("-r"), []byte(it.uniq))
			}

			items = append(items, it)
		}
	}

	if len(items) == 0 {
		return
	}

	var fast []protoItem

	for _, it := range items {
		if it.lateFirst {
			r.replayProto(Case{Proto: &it.pc}, kind)
		} else {
			fast = append(fast, it)
		}
	}

	res := runBatch(fast, 500) //nolint:gomnd
	if !res.crashed && !res.timeout {
		for _, it := range fast {
			r.emitProto(kind+":proto", it, res, false)
		}

		return
	}

	for _, it := range fast {
		pc := it.pc
		r.replayProto(Case{Proto: &pc}, kind)
	}
}
