package main

import (
	"bytes"
	"fmt"
	"net"
	"net/http"
	"strings"
	"sync"
	"sync/atomic"
	"time"
)

// Hostile endpoints a sender can put behind any URL-bearing member (attachment data.links, service endpoints, schema /
// status / refresh ids, contexts): a server that accepts and never answers, one that drips a byte every few seconds, one
// that streams without end, one that announces a huge Content-Length and stalls, a redirect loop.  Every request is
// recorded: that an inbound path dereferenced the URL at all, how long the client stayed, how much it took.
type hostilePool struct {
	ln      net.Listener
	base    string
	mu      sync.Mutex
	open    map[int64]time.Time // requests the client has not given up yet
	tags    map[int64]string    // the tag (last path element) of an open request: which input named the URL
	floodBy map[string]int64    // bytes of the endless stream taken, per tag
	next    int64
	served  int64 // bytes of the endless stream taken by clients
	contact int64
}

var hostileKinds = []string{"hang", "drip", "flood", "hugelen", "redirect"}

const floodCap = 1 << 28 // the endless stream stops here (the harness must survive a client that reads it all)

func newHostilePool() *hostilePool {
	ln, err := net.Listen("tcp", "127.0.0.1:0")
	must(err)

	p := &hostilePool{ln: ln, base: "http://" + ln.Addr().String(), open: map[int64]time.Time{}, tags: map[int64]string{},
		floodBy: map[string]int64{}}

	mux := http.NewServeMux()
	mux.HandleFunc("/", p.serve)

	go func() { _ = (&http.Server{Handler: mux}).Serve(ln) }() //nolint:gosec

	return p
}

func (p *hostilePool) enter(tag string) int64 {
	atomic.AddInt64(&p.contact, 1)
	p.mu.Lock()
	defer p.mu.Unlock()
	p.next++
	p.open[p.next] = time.Now()
	p.tags[p.next] = tag

	return p.next
}

func (p *hostilePool) leave(id int64) {
	p.mu.Lock()
	delete(p.open, id)
	delete(p.tags, id)
	p.mu.Unlock()
}

// heldTags lists the tags of the requests still open; floodTags those that took more than limit bytes.
func (p *hostilePool) heldTags() []string {
	p.mu.Lock()
	defer p.mu.Unlock()

	var out []string
	for _, t := range p.tags {
		out = append(out, t)
	}

	return out
}

func (p *hostilePool) floodTags(limit int64) []string {
	p.mu.Lock()
	defer p.mu.Unlock()

	var out []string

	for t, n := range p.floodBy {
		if n > limit {
			out = append(out, t)
		}
	}

	return out
}

func (p *hostilePool) serve(w http.ResponseWriter, r *http.Request) {
	tag := r.URL.Path[strings.LastIndex(r.URL.Path, "/")+1:]
	if strings.HasPrefix(r.URL.Path, "/redirect") {
		tag = "redirect"
	}

	id := p.enter(tag)
	defer p.leave(id)

	gone := r.Context().Done()

	switch {
	case strings.HasPrefix(r.URL.Path, "/hang"):
		<-gone
	case strings.HasPrefix(r.URL.Path, "/drip"):
		w.WriteHeader(http.StatusOK)

		for {
			select {
			case <-gone:
				return
			case <-time.After(3 * time.Second): //nolint:gomnd
				_, _ = w.Write([]byte("{"))

				if f, ok := w.(http.Flusher); ok {
					f.Flush()
				}
			}
		}
	case strings.HasPrefix(r.URL.Path, "/flood"):
		w.WriteHeader(http.StatusOK)

		chunk := bytes.Repeat([]byte("A"), 1<<16) //nolint:gomnd

		for sent := 0; sent < floodCap; sent += len(chunk) {
			if _, err := w.Write(chunk); err != nil {
				return
			}

			atomic.AddInt64(&p.served, int64(len(chunk)))
			p.mu.Lock()
			p.floodBy[tag] += int64(len(chunk))
			p.mu.Unlock()
		}
	case strings.HasPrefix(r.URL.Path, "/hugelen"):
		w.Header().Set("Content-Length", "1099511627776")
		w.WriteHeader(http.StatusOK)
		_, _ = w.Write([]byte("{"))

		if f, ok := w.(http.Flusher); ok {
			f.Flush()
		}

		<-gone
	default: // redirect loop
		http.Redirect(w, r, fmt.Sprintf("%s/redirect/%d", p.base, id), http.StatusFound)
	}
}

// pending tells how many requests are still held open by their clients and for how long the oldest is.
func (p *hostilePool) pending() (int, time.Duration) {
	p.mu.Lock()
	defer p.mu.Unlock()

	var oldest time.Duration

	for _, t := range p.open {
		if d := time.Since(t); d > oldest {
			oldest = d
		}
	}

	return len(p.open), oldest
}

func (p *hostilePool) contacts() int64 { return atomic.LoadInt64(&p.contact) }
func (p *hostilePool) flooded() int64  { return atomic.LoadInt64(&p.served) }

// substitute puts the pool's URLs in place of the placeholders "@HOSTILE:<kind>@".
func (p *hostilePool) substitute(b []byte, tag string) []byte {
	if !bytes.Contains(b, []byte("@HOSTILE:")) {
		return b
	}

	for _, k := range hostileKinds {
		b = bytes.ReplaceAll(b, []byte("@HOSTILE:"+k+"@"), []byte(p.base+"/"+k+"/"+tag))
	}

	return b
}
