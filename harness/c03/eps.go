package main

import (
	"bytes"
	"crypto"
	"crypto/aes"
	"crypto/cipher"
	"crypto/ecdsa"
	"crypto/ed25519"
	"crypto/elliptic"
	"crypto/hmac"
	"crypto/rand"
	"crypto/sha256"
	"crypto/sha512"
	"encoding/base64"
	"encoding/binary"
	"encoding/json"
	"fmt"
	"hash"
	"math/big"
	"strings"
	"time"

	"github.com/btcsuite/btcutil/base58"
	gojose "github.com/go-jose/go-jose/v3"
	"github.com/google/tink/go/hybrid/subtle"
	bbs "github.com/hyperledger/aries-framework-go/component/kmscrypto/crypto/primitive/bbs12381g2pub"
	"github.com/hyperledger/aries-framework-go/component/kmscrypto/doc/jose"
	"github.com/hyperledger/aries-framework-go/component/kmscrypto/doc/jose/jwk"
	"github.com/hyperledger/aries-framework-go/component/kmscrypto/doc/jose/jwk/jwksupport"
	"github.com/hyperledger/aries-framework-go/component/kmscrypto/doc/jose/kidresolver"
	"github.com/hyperledger/aries-framework-go/component/kmscrypto/doc/util/fingerprint"
	"github.com/hyperledger/aries-framework-go/component/kmscrypto/doc/util/kmsdidkey"

	"github.com/hyperledger/aries-framework-go/component/models/did"
	"github.com/hyperledger/aries-framework-go/component/models/did/util/vmparse"
	"github.com/hyperledger/aries-framework-go/component/models/jose/diddocresolver"
	afjwt "github.com/hyperledger/aries-framework-go/component/models/jwt"
	"github.com/hyperledger/aries-framework-go/component/models/ld/testutil"
	"github.com/hyperledger/aries-framework-go/component/models/presexch"
	"github.com/hyperledger/aries-framework-go/component/models/sdjwt/common"
	"github.com/hyperledger/aries-framework-go/component/models/sdjwt/holder"
	"github.com/hyperledger/aries-framework-go/component/models/sdjwt/issuer"
	sdverifier "github.com/hyperledger/aries-framework-go/component/models/sdjwt/verifier"
	sigsigner "github.com/hyperledger/aries-framework-go/component/models/signature/signer"
	"github.com/hyperledger/aries-framework-go/component/models/signature/suite"
	"github.com/hyperledger/aries-framework-go/component/models/signature/suite/ed25519signature2018"
	"github.com/hyperledger/aries-framework-go/component/models/signature/suite/jsonwebsignature2020"
	sigutil "github.com/hyperledger/aries-framework-go/component/models/signature/util"
	sigverifier "github.com/hyperledger/aries-framework-go/component/models/signature/verifier"
	"github.com/hyperledger/aries-framework-go/component/models/verifiable"
	vdrkey "github.com/hyperledger/aries-framework-go/component/vdr/key"
	"github.com/hyperledger/aries-framework-go/pkg/didcomm/common/service"
	"github.com/hyperledger/aries-framework-go/pkg/didcomm/protocol/decorator"
	"github.com/hyperledger/aries-framework-go/pkg/didcomm/transport"
	"github.com/hyperledger/aries-framework-go/pkg/doc/cm"
	mockvdr "github.com/hyperledger/aries-framework-go/pkg/mock/vdr"
	"github.com/hyperledger/aries-framework-go/spi/kms"
	vdrspi "github.com/hyperledger/aries-framework-go/spi/vdr"
	"github.com/piprate/json-gold/ld"

	"verifharness/c01env"
)

// Target is one entry point applied to (a mutation of) a seed.
type Target struct {
	EP  string
	Run func(in []byte) error
}

// Seed is a valid object produced by the framework's own encoders together with the entry points that consume it.
type Seed struct {
	Name    string
	Layer   string // E1..E9 (guard layer modelled in coq/C03) or X (explored only)
	Kind    string // json | token | bytes | text
	Wire    []byte
	Targets []Target
	// LenFields are offsets of big-endian length fields of a byte codec: (offset, width).
	LenFields [][2]int
	// NMsgs / NRevealed: number of messages handed to bbs.VerifyProof by the two targets.
	NMsgs, NRevealed int
}

func must(err error) {
	if err != nil {
		panic(fmt.Sprintf("c03 setup: %v", err))
	}
}

type syncWorld struct {
	w      *c01env.World
	loader ld.DocumentLoader
	seeds  []*Seed
	byName map[string]*Seed
	owned  map[string]bool // base58 Ed25519 keys held by the unpacking agent
}

func (s *syncWorld) add(sd *Seed) {
	s.seeds = append(s.seeds, sd)
	s.byName[sd.Name] = sd
}

func newSyncWorld(thorough bool) *syncWorld {
	sw := &syncWorld{byName: map[string]*Seed{}}
	sw.w = c01env.NewWorld(3)

	loader, err := testutil.DocumentLoader()
	must(err)

	sw.loader = loader

	sw.envelopeSeeds(thorough)
	sw.cbcSeeds()
	sw.jwsSeeds()
	sw.bbsSeeds(thorough)
	sw.didKeySeeds()
	sw.sdjwtSeeds(thorough)
	sw.docSeeds()
	sw.msgMapSeeds()

	return sw
}

// ---------- E1/E2/E3: envelopes ----------

func (s *syncWorld) envelopeSeeds(thorough bool) {
	w := s.w
	kts := []string{c01env.X25519, c01env.P256}

	if thorough {
		kts = c01env.KTs
	}

	rcpt := w.Parties[1]
	pk, err := rcpt.Packager("XC20P")
	must(err)

	unpack := func(in []byte) error {
		_, e := pk.UnpackMessage(in)
		return e
	}

	dec := jose.NewJWEDecrypt([]kidresolver.KIDResolver{&kidresolver.DIDKeyResolver{},
		&diddocresolver.DIDDocResolver{VDRRegistry: w.VDR}}, rcpt.Crypto, rcpt.KMS)

	joseDec := func(in []byte) error {
		j, e := jose.Deserialize(string(in))
		if e != nil {
			return e
		}

		_, e = dec.Decrypt(j)

		return e
	}

	payload := []byte(`{"@id":"m1","@type":"https://didcomm.org/x/1.0/y"}`)

	for _, kt := range kts {
		sender := w.NewKey(0, kt)
		r1 := w.NewKey(1, kt)
		r2 := w.NewKey(2, kt)
		r1b := w.NewKey(1, kt)

		for _, kind := range []string{"jwe-auth", "jwe-anon"} {
			for _, style := range []string{"didkey", "diddoc"} {
				for _, rs := range [][]*c01env.Key{{r1}, {r2, r1}, {r1, r2, r1b}} {
					if style != "didkey" && (len(rs) != 2 || (!thorough && kind == "jwe-anon")) {
						continue
					}

					pp, e := w.Parties[0].Packer(kind, "XC20P")
					must(e)

					var sid []byte
					if kind == "jwe-auth" {
						sid = sender.SenderID(style)
					}

					var ra [][]byte
					for _, r := range rs {
						ra = append(ra, r.RecipientArg(style))
					}

					wire, e := pp.Pack(transport.MediaTypeV2PlaintextPayload, payload, sid, ra)
					must(e)
					must(unpack(wire))

					s.add(&Seed{Name: fmt.Sprintf("env.%s.%s.%s.n%d", kind, kt, style, len(rs)), Layer: "E1", Kind: "json",
						Wire: wire, Targets: []Target{{"packager.UnpackMessage", unpack}, {"jose.Deserialize+Decrypt", joseDec}}})

					// pairs: the same envelope one deletion away (no sender key id), so that the closure of it reaches
					// what the code does with "apu" when "skid" is absent
					if kind == "jwe-auth" && style == "didkey" && len(rs) == 2 { //nolint:gomnd
						if tree, ok := explodeWire(wire); ok {
							noSkid := setAt(tree, []step{{key: "protected"}, {in: true}, {key: "skid"}}, delMark{})
							s.add(&Seed{Name: fmt.Sprintf("env.%s.%s.%s.n%d.noskid", kind, kt, style, len(rs)), Layer: "E1",
								Kind: "json", Wire: render(noSkid), Targets: []Target{{"jose.Deserialize+Decrypt", joseDec}}})
						}
					}
				}
			}
		}
	}

	// legacy envelopes
	ls := w.NewKey(0, c01env.Ed25519)
	l1 := w.NewKey(1, c01env.Ed25519)
	l2 := w.NewKey(2, c01env.Ed25519)
	s.owned = map[string]bool{l1.Ref("raw"): true}

	for _, kind := range []string{"leg-auth", "leg-anon"} {
		for _, rs := range [][]*c01env.Key{{l1}, {l2, l1}} {
			pp, e := w.Parties[0].Packer(kind, "XC20P")
			must(e)

			var ra [][]byte
			for _, r := range rs {
				ra = append(ra, r.Bytes)
			}

			wire, e := pp.Pack(transport.MediaTypeRFC0019EncryptedEnvelope, payload, ls.Bytes, ra)
			must(e)
			must(unpack(wire))

			s.add(&Seed{Name: fmt.Sprintf("env.%s.n%d", kind, len(rs)), Layer: "E3", Kind: "json", Wire: wire,
				Targets: []Target{{"packager.UnpackMessage", unpack}}})

			// the double-quoted base64 transport form (E2)
			s.add(&Seed{Name: fmt.Sprintf("env.%s.n%d.quoted", kind, len(rs)), Layer: "E2", Kind: "text",
				Wire:    []byte("\"" + b64url(wire) + "\""),
				Targets: []Target{{"packager.UnpackMessage", unpack}}})
		}
	}
}

// cbcSeeds: JWEs an anoncrypt SENDER builds with the public crypto API: the content key is really wrapped for the
// recipient (ECDH-ES), the content is AES-CBC encrypted under that key with padding of the sender's choice and the
// HMAC tag is valid.  What the recipient's decrypter does with the padding is then reached behind the tag check.
func (s *syncWorld) cbcSeeds() {
	w := s.w
	rcpt := w.Parties[1]

	pk, err := rcpt.Packager("A256CBC512")
	must(err)

	unpack := func(in []byte) error {
		_, e := pk.UnpackMessage(in)
		return e
	}

	rk := w.NewKey(1, c01env.P256)
	b64 := base64.RawURLEncoding.EncodeToString

	build := func(encName string, macHash func() hash.Hash, tagSize int, cekLen int, plainBlocks []byte) []byte {
		cek := make([]byte, cekLen)
		_, e := rand.Read(cek)
		must(e)

		rpk := *rk.Pub
		rpk.KID = rk.Ref("didkey")

		wk, e := w.Parties[0].Crypto.WrapKey(cek, nil, nil, &rpk)
		must(e)

		c, e := subtle.GetCurve(wk.EPK.Curve)
		must(e)

		epk := jwk.JWK{JSONWebKey: gojose.JSONWebKey{Key: &ecdsa.PublicKey{Curve: c, X: new(big.Int).SetBytes(wk.EPK.X),
			Y: new(big.Int).SetBytes(wk.EPK.Y)}}, Kty: wk.EPK.Type, Crv: wk.EPK.Curve}

		epkJSON, e := epk.MarshalJSON()
		must(e)

		prot := map[string]interface{}{"enc": encName, "typ": transport.MediaTypeV2EncryptedEnvelope,
			"cty": transport.MediaTypeV2PlaintextPayload, "kid": rpk.KID, "alg": wk.Alg, "epk": json.RawMessage(epkJSON),
			"apu": b64(wk.APU), "apv": b64(wk.APV)}

		pb, e := json.Marshal(prot)
		must(e)

		protB64 := b64(pb)
		macKey, encKey := cek[:cekLen/2], cek[cekLen/2:]

		iv := make([]byte, aes.BlockSize)
		_, e = rand.Read(iv)
		must(e)

		blk, e := aes.NewCipher(encKey)
		must(e)

		ct := make([]byte, len(plainBlocks))
		cipher.NewCBCEncrypter(blk, iv).CryptBlocks(ct, plainBlocks)

		// tink EncryptThenAuthenticate: tag = MAC(aad || iv || ciphertext || bit length of aad as uint64)
		aad := []byte(protB64)
		m := hmac.New(macHash, macKey)
		m.Write(aad)
		m.Write(iv)
		m.Write(ct)

		var al [8]byte
		binary.BigEndian.PutUint64(al[:], uint64(len(aad))*8) //nolint:gomnd
		m.Write(al[:])

		tag := m.Sum(nil)[:tagSize]

		return []byte(strings.Join([]string{protB64, b64(wk.EncryptedCEK), b64(iv), b64(ct), b64(tag)}, "."))
	}

	payload := []byte(`{"@id":"m1","@type":"https://didcomm.org/x/1.0/y","pad":"0123"}`)
	pkcs := func(p []byte) []byte {
		n := aes.BlockSize - len(p)%aes.BlockSize
		return append(append([]byte{}, p...), bytes.Repeat([]byte{byte(n)}, n)...)
	}

	// the construction is right when the honest padding unpacks
	must(unpack(build("A256CBC-HS512", sha512.New, 32, 64, pkcs(payload))))

	type variant struct {
		name  string
		plain []byte
	}

	var vs []variant

	for _, last := range []byte{0, 1, 15, 16, 17, 31, 32, 33, 48, 64, 65, 128, 255} {
		for _, blocks := range []int{1, 2, 5} {
			p := bytes.Repeat([]byte{'a'}, blocks*aes.BlockSize)
			p[len(p)-1] = last
			vs = append(vs, variant{fmt.Sprintf("last%d.blocks%d", last, blocks), p})

			// the whole text made of the pad byte (a suffix test of any length succeeds)
			vs = append(vs, variant{fmt.Sprintf("all%d.blocks%d", last, blocks), bytes.Repeat([]byte{last}, blocks*aes.BlockSize)})
		}
	}

	vs = append(vs, variant{"empty", nil})

	encs := []struct {
		name string
		h    func() hash.Hash
		tag  int
		cek  int
	}{{"A256CBC-HS512", sha512.New, 32, 64}, {"A128CBC-HS256", sha256.New, 16, 32}}

	for _, e := range encs {
		for _, v := range vs {
			s.add(&Seed{Name: "env.cbc." + e.name + "." + v.name, Layer: "E1", Kind: "fixed",
				Wire: build(e.name, e.h, e.tag, e.cek, v.plain), Targets: []Target{{"packager.UnpackMessage", unpack}}})
		}
	}

	// an honest CBC-HMAC envelope of the packer for the closure
	pp, err := w.Parties[0].Packer("jwe-anon", "A256CBC512")
	must(err)

	wire, err := pp.Pack(transport.MediaTypeV2PlaintextPayload, payload, nil, [][]byte{rk.RecipientArg("didkey")})
	must(err)
	must(unpack(wire))
	s.add(&Seed{Name: "env.jwe-anon.P256.cbc.n1", Layer: "E1", Kind: "json", Wire: wire,
		Targets: []Target{{"packager.UnpackMessage", unpack}}})
}

// ---------- E4: JWS / JWT ----------

type edSigner struct {
	priv ed25519.PrivateKey
	kid  string
}

func (s *edSigner) Sign(data []byte) ([]byte, error) { return ed25519.Sign(s.priv, data), nil }
func (s *edSigner) Headers() jose.Headers            { return jose.Headers{"alg": "EdDSA", "kid": s.kid} }

func (s *syncWorld) jwsSeeds() {
	pub, priv, err := ed25519.GenerateKey(detRand("c03-jws"))
	must(err)

	resolver := afjwt.KeyResolverFunc(func(_, _ string) (*sigverifier.PublicKey, error) {
		return &sigverifier.PublicKey{Type: kms.ED25519, Value: pub}, nil
	})
	v := afjwt.NewVerifier(resolver)
	signer := &edSigner{priv: priv, kid: "did:example:iss#key-1"}

	claims := map[string]interface{}{"iss": "did:example:iss", "sub": "did:example:sub", "iat": 1600000000,
		"exp": 4600000000, "nbf": 1600000000, "jti": "urn:1", "aud": []string{"a"},
		"vc": map[string]interface{}{"type": []string{"VerifiableCredential"}}}

	tok, err := afjwt.NewSigned(claims, jose.Headers{"typ": "JWT"}, signer)
	must(err)

	ser, err := tok.Serialize(false)
	must(err)

	parseJWS := func(in []byte) error {
		_, e := jose.ParseJWS(string(in), v)
		return e
	}
	parseJWT := func(in []byte) error {
		_, _, e := afjwt.Parse(string(in), afjwt.WithSignatureVerifier(v))
		return e
	}
	parseJWTNoMap := func(in []byte) error {
		_, _, e := afjwt.Parse(string(in), afjwt.WithSignatureVerifier(v), afjwt.WithIgnoreClaimsMapDecoding(true))
		return e
	}

	must(parseJWS([]byte(ser)))
	must(parseJWT([]byte(ser)))

	s.add(&Seed{Name: "jwt.eddsa", Layer: "E4", Kind: "token", Wire: []byte(ser),
		Targets: []Target{{"jose.ParseJWS", parseJWS}, {"jwt.Parse", parseJWT}, {"jwt.Parse(nomap)", parseJWTNoMap}}})

	// unsecured
	utok, err := afjwt.NewUnsecured(claims, jose.Headers{"typ": "JWT"})
	must(err)

	user, err := utok.Serialize(false)
	must(err)

	parseUnsec := func(in []byte) error {
		_, _, e := afjwt.Parse(string(in), afjwt.WithSignatureVerifier(afjwt.UnsecuredJWTVerifier()))
		return e
	}

	s.add(&Seed{Name: "jwt.unsecured", Layer: "E4", Kind: "token", Wire: []byte(user),
		Targets: []Target{{"jwt.Parse(unsecured)", parseUnsec}, {"jwt.Parse", parseJWT}}})

	// a JWS with b64=false and crit
	jws, err := jose.NewJWS(jose.Headers{"b64": false, "crit": []string{"b64"}}, nil, []byte("payload"), signer)
	must(err)

	det, err := jws.SerializeCompact(true)
	must(err)

	parseDet := func(in []byte) error {
		_, e := jose.ParseJWS(string(in), v, jose.WithJWSDetachedPayload([]byte("payload")))
		return e
	}

	must(parseDet([]byte(det)))
	s.add(&Seed{Name: "jws.detached", Layer: "E4", Kind: "token", Wire: []byte(det),
		Targets: []Target{{"jose.ParseJWS(detached)", parseDet}}})
}

// ---------- E5: BBS+ ----------

func (s *syncWorld) bbsSeeds(thorough bool) {
	pubK, privK, err := bbs.GenerateKeyPair(sha256.New, []byte("c03-bbs-seed-0123456789abcdef012"))
	must(err)

	pub, err := pubK.Marshal()
	must(err)

	priv, err := privK.Marshal()
	must(err)

	b := bbs.New()

	for _, n := range []int{1, 3, 9} {
		msgs := make([][]byte, n)
		for i := range msgs {
			msgs[i] = []byte(fmt.Sprintf("message-%d", i))
		}

		sig, e := b.Sign(msgs, priv)
		must(e)

		verify := func(in []byte) error { return b.Verify(msgs, in, pub) }
		parseSig := func(in []byte) error {
			_, e2 := bbs.ParseSignature(in)
			return e2
		}

		must(verify(sig))
		s.add(&Seed{Name: fmt.Sprintf("bbs.sig.n%d", n), Layer: "E5", Kind: "bytes", Wire: sig,
			Targets: []Target{{"bbs.ParseSignature", parseSig}, {"bbs.Verify", verify}}})

		nonce := []byte("nonce")

		revs := [][]int{{0}}
		if n > 1 {
			revs = append(revs, []int{0, n - 1})
			all := make([]int, n)
			for i := range all {
				all[i] = i
			}

			revs = append(revs, all)
		}

		for ri, rev := range revs {
			// quick tier: four of the seven (message count, revealed set) combinations
			if !thorough && ((n == 3 && ri != 1) || (n == 9 && ri == 1)) { //nolint:gomnd
				continue
			}

			proof, e2 := b.DeriveProof(msgs, sig, nonce, pub, append([]int{}, rev...))
			must(e2)

			var revealed [][]byte
			for _, i := range rev {
				revealed = append(revealed, msgs[i])
			}

			vp := func(in []byte) error { return b.VerifyProof(revealed, in, nonce, pub) }
			// the verifier is also handed more messages than the proof reveals (the statements come with the proof)
			vpAll := func(in []byte) error { return b.VerifyProof(msgs, in, nonce, pub) }
			pp := func(in []byte) error {
				_, e3 := bbs.ParseSignatureProof(in)
				return e3
			}
			pg := func(in []byte) error {
				_, e3 := bbs.ParseProofG1(in)
				return e3
			}

			must(vp(proof))

			plen := 2 + n/8 + 1
			s.add(&Seed{Name: fmt.Sprintf("bbs.proof.n%d.r%d", n, ri), Layer: "E5", Kind: "bytes", Wire: proof,
				NMsgs: n, NRevealed: len(rev),
				Targets:   []Target{{"bbs.VerifyProof", vp}, {"bbs.VerifyProof(all msgs)", vpAll}},
				LenFields: [][2]int{{0, 2}, {plen + 144, 4}, {plen + 148 + 48, 4}}})
			s.add(&Seed{Name: fmt.Sprintf("bbs.sigproof.n%d.r%d", n, ri), Layer: "E5", Kind: "bytes", Wire: proof[plen:],
				Targets:   []Target{{"bbs.ParseSignatureProof", pp}},
				LenFields: [][2]int{{144, 4}, {148 + 48, 4}}})
			s.add(&Seed{Name: fmt.Sprintf("bbs.proofg1.n%d.r%d", n, ri), Layer: "E5", Kind: "bytes", Wire: proof[plen+148:],
				Targets:   []Target{{"bbs.ParseProofG1", pg}},
				LenFields: [][2]int{{48, 4}}})
		}
	}
}

// ---------- E6: did:key / fingerprints ----------

func (s *syncWorld) didKeySeeds() {
	w := s.w
	res := &kidresolver.DIDKeyResolver{}
	vdr := vdrkey.New()

	targets := []Target{
		{"fingerprint.PubKeyFromDIDKey", func(in []byte) error {
			_, e := fingerprint.PubKeyFromDIDKey(string(in))
			return e
		}},
		{"kmsdidkey.EncryptionPubKeyFromDIDKey", func(in []byte) error {
			_, e := kmsdidkey.EncryptionPubKeyFromDIDKey(string(in))
			return e
		}},
		{"kmsdidkey.GetBase58PubKeyFromDIDKey", func(in []byte) error {
			_, e := kmsdidkey.GetBase58PubKeyFromDIDKey(string(in))
			return e
		}},
		{"kidresolver.DIDKeyResolver.Resolve", func(in []byte) error {
			_, e := res.Resolve(string(in))
			return e
		}},
		{"vdr/key.Read", func(in []byte) error {
			_, e := vdr.Read(string(in))
			return e
		}},
	}

	for _, kt := range []string{c01env.X25519, c01env.P256, c01env.P384, c01env.P521, c01env.Ed25519} {
		k := w.NewKey(2, kt)
		s.add(&Seed{Name: "didkey." + kt, Layer: "E6", Kind: "text", Wire: []byte(k.DidKey), Targets: targets})
	}

	// a BLS12-381 G2 key
	pubK, _, err := bbs.GenerateKeyPair(sha256.New, []byte("c03-bbs-seed-0123456789abcdef012"))
	must(err)

	pb, err := pubK.Marshal()
	must(err)

	dk, _ := fingerprint.CreateDIDKeyByCode(fingerprint.BLS12381g2PubKeyMultiCodec, pb)
	s.add(&Seed{Name: "didkey.BLS12381G2", Layer: "E6", Kind: "text", Wire: []byte(dk), Targets: targets})
}

// ---------- E7: SD-JWT ----------

func (s *syncWorld) sdjwtSeeds(thorough bool) {
	pub, priv, err := ed25519.GenerateKey(detRand("c03-sdjwt"))
	must(err)

	signer := afjwt.NewEd25519Signer(priv)
	ver, err := afjwt.NewEd25519Verifier(pub)
	must(err)

	hpub, hpriv, err := ed25519.GenerateKey(detRand("c03-sdjwt-holder"))
	must(err)

	hjwk, err := jwksupport.JWKFromKey(hpub)
	must(err)

	s.sdGraphSeeds(signer, ver, thorough)

	claims := map[string]interface{}{"given_name": "Albert", "age": 42, "address": map[string]interface{}{
		"street": "Main", "country": "DE"}, "nationalities": []interface{}{"US", "DE"}}

	for _, ver5 := range []bool{false, true} {
		version := common.SDJWTVersionV2
		if ver5 {
			version = common.SDJWTVersionV5
		}

		for _, structured := range []bool{false, true} {
			opts := []issuer.NewOpt{issuer.WithSDJWTVersion(version), issuer.WithStructuredClaims(structured),
				issuer.WithHolderPublicKey(hjwk), issuer.WithExpiry(jwtDate(4600000000))}

			tok, e := issuer.New("did:example:iss", claims, nil, signer, opts...)
			must(e)

			cfi, e := tok.Serialize(false)
			must(e)

			hp := func(in []byte) error {
				cl, e2 := holder.Parse(string(in), holder.WithSignatureVerifier(ver))
				return proportion(in, cl, e2)
			}

			must(hp([]byte(cfi)))

			s.sdHelperSeeds(fmt.Sprintf("v%v.s%v", map[bool]int{false: 2, true: 5}[ver5], structured), cfi)

			name := fmt.Sprintf("sdjwt.v%v.s%v", map[bool]int{false: 2, true: 5}[ver5], structured)
			s.add(&Seed{Name: name + ".issuance", Layer: "E7", Kind: "token", Wire: []byte(cfi),
				Targets: []Target{{"sdjwt/holder.Parse", hp}}})

			hcl, e := holder.Parse(cfi, holder.WithSignatureVerifier(ver))
			must(e)

			var disclose []string
			for _, c := range hcl {
				disclose = append(disclose, c.Disclosure)
			}

			pres, e := holder.CreatePresentation(cfi, disclose, holder.WithHolderVerification(&holder.BindingInfo{
				Payload: holder.BindingPayload{Nonce: "n", Audience: "a", IssuedAt: jwtDate(time.Now().Unix())},
				Signer:  afjwt.NewEd25519Signer(hpriv)}))
			must(e)

			vp := func(in []byte) error {
				cl, e2 := sdverifier.Parse(string(in), sdverifier.WithSignatureVerifier(ver),
					sdverifier.WithHolderVerificationRequired(true), sdverifier.WithExpectedNonceForHolderVerification("n"),
					sdverifier.WithExpectedAudienceForHolderVerification("a"))
				return proportion(in, cl, e2)
			}
			vpLoose := func(in []byte) error {
				cl, e2 := sdverifier.Parse(string(in), sdverifier.WithSignatureVerifier(ver))
				return proportion(in, cl, e2)
			}

			must(vp([]byte(pres)))
			s.add(&Seed{Name: name + ".presentation", Layer: "E7", Kind: "token", Wire: []byte(pres),
				Targets: []Target{{"sdjwt/verifier.Parse(binding)", vp}, {"sdjwt/verifier.Parse", vpLoose}}})
		}
	}
}

// sdHelperSeeds: the helpers of sdjwt/common on the parts of an issued SD-JWT (single disclosures, the payload claims).
func (s *syncWorld) sdHelperSeeds(name, cfi string) {
	cf := common.ParseCombinedFormatForIssuance(cfi)

	discl := func(in []byte) error {
		_, e := common.GetDisclosureClaims([]string{string(in)}, crypto.SHA256)
		return e
	}

	for i, d := range cf.Disclosures {
		if i >= 3 { //nolint:gomnd
			break
		}

		s.add(&Seed{Name: fmt.Sprintf("sdjwt.%s.disclosure%d", name, i), Layer: "E7", Kind: "token", Wire: []byte(d),
			Targets: []Target{{"sdjwt/common.GetDisclosureClaims", discl}}})
	}

	parts := strings.Split(cf.SDJWT, ".")
	if len(parts) != 3 { //nolint:gomnd
		return
	}

	payload, err := base64.RawURLEncoding.DecodeString(parts[1])
	must(err)

	withClaims := func(f func(map[string]interface{}) error) func([]byte) error {
		return func(in []byte) error {
			var m map[string]interface{}
			if e := json.Unmarshal(in, &m); e != nil {
				return e
			}

			return f(m)
		}
	}

	s.add(&Seed{Name: "sdjwt." + name + ".claims", Layer: "E7", Kind: "json", Wire: payload, Targets: []Target{
		{"sdjwt/common.GetDisclosureDigests", withClaims(func(m map[string]interface{}) error {
			_, e := common.GetDisclosureDigests(m)
			return e
		})},
		{"sdjwt/common.GetCNF", withClaims(func(m map[string]interface{}) error {
			_, e := common.GetCNF(m)
			return e
		})},
		{"sdjwt/common.GetCryptoHashFromClaims", withClaims(func(m map[string]interface{}) error {
			_, e := common.GetCryptoHashFromClaims(m)
			return e
		})},
	}})
}

// msgMapSeeds: service.ParseDIDCommMsgMap and the accessors of the message map, the first thing the inbound dispatcher,
// the out-of-band attachment dispatch and message pickup do with a plaintext of another party.
func (s *syncWorld) msgMapSeeds() {
	run := func(in []byte) error {
		m, err := service.ParseDIDCommMsgMap(in)
		if err != nil {
			return err
		}

		_ = m.Type()
		_ = m.ID()
		_ = m.ParentThreadID()
		_, err = m.ThreadID()
		_ = m.Metadata()
		_ = m.Clone()

		th := struct {
			Thread *decorator.Thread `json:"~thread,omitempty"`
		}{}

		_ = m.Decode(&th)

		return err
	}

	tpls := templates()

	for _, proto := range protoOrder {
		for i, t := range tpls[proto] {
			s.add(&Seed{Name: fmt.Sprintf("msgmap.%s.%d", proto, i), Layer: "X", Kind: "json", Wire: []byte(t),
				Targets: []Target{{"service.ParseDIDCommMsgMap", run}}})
		}
	}
}

// ---------- X: documents parsed by mostly third-party decoders (explored only) ----------

const vcJSON = `{"@context":["https://www.w3.org/2018/credentials/v1","https://www.w3.org/2018/credentials/examples/v1"],
"id":"http://example.edu/credentials/1872","type":["VerifiableCredential","UniversityDegreeCredential"],
"issuer":{"id":"did:example:76e12ec712ebc6f1c221ebfeb1f","name":"Example University"},
"issuanceDate":"2010-01-01T19:23:24Z","expirationDate":"2030-01-01T19:23:24Z",
"credentialSubject":{"id":"did:example:ebfeb1f712ebc6f1c276e12ec21","degree":{"type":"BachelorDegree","name":"Bachelor of Science"}},
"credentialStatus":{"id":"https://example.edu/status/24","type":"CredentialStatusList2017"},
"credentialSchema":[{"id":"https://example.org/examples/degree.json","type":"JsonSchemaValidator2018"}],"evidence":[{"id":"https://example.edu/evidence/1","type":["DocumentVerification"]}],
"termsOfUse":[{"type":"IssuerPolicy","id":"http://example.com/policies/credential/4"}],
"refreshService":{"id":"https://example.edu/refresh/3732","type":"ManualRefreshService2018"}}`

const vcSimple = `{"@context":["https://www.w3.org/2018/credentials/v1","https://www.w3.org/2018/credentials/examples/v1"],
"id":"http://example.edu/credentials/1872","type":["VerifiableCredential","UniversityDegreeCredential"],
"issuer":{"id":"did:example:76e12ec712ebc6f1c221ebfeb1f","name":"Example University"},
"issuanceDate":"2010-01-01T19:23:24Z","expirationDate":"2030-01-01T19:23:24Z",
"credentialSubject":{"id":"did:example:ebfeb1f712ebc6f1c276e12ec21","degree":{"type":"BachelorDegree","name":"Bachelor of Science"}}}`

// a credential with the base context and the base type only (what WithBaseContextValidation accepts)
const vcBase = `{"@context":["https://www.w3.org/2018/credentials/v1"],
"id":"http://example.edu/credentials/1872","type":["VerifiableCredential"],
"issuer":{"id":"did:example:76e12ec712ebc6f1c221ebfeb1f"},
"issuanceDate":"2010-01-01T19:23:24Z","expirationDate":"2030-01-01T19:23:24Z",
"credentialSubject":{"id":"did:example:ebfeb1f712ebc6f1c276e12ec21"}}`

const didDocJSON = `{"@context":["https://www.w3.org/ns/did/v1","https://w3id.org/security/suites/ed25519-2018/v1"],
"id":"did:example:21tDAKCERh95uGgKbJNHYp","alsoKnownAs":["did:example:aka"],
"verificationMethod":[{"id":"did:example:21tDAKCERh95uGgKbJNHYp#key-1","type":"Ed25519VerificationKey2018","controller":"did:example:21tDAKCERh95uGgKbJNHYp","publicKeyBase58":"H3C2AVvLMv6gmMNam3uVAjZpfkcJCwDwnZn6z3wXmqPV"},
{"id":"#key-2","type":"JsonWebKey2020","controller":"did:example:21tDAKCERh95uGgKbJNHYp","publicKeyJwk":@JWK@},
{"id":"did:example:21tDAKCERh95uGgKbJNHYp#key-3","type":"Ed25519VerificationKey2020","controller":"did:example:21tDAKCERh95uGgKbJNHYp","publicKeyMultibase":"z6MkpTHR8VNsBxYAAWHut2Geadd9jSwuBV8xRoAnwWsdvktH"}],
"authentication":["did:example:21tDAKCERh95uGgKbJNHYp#key-1",{"id":"did:example:21tDAKCERh95uGgKbJNHYp#key-4","type":"Ed25519VerificationKey2018","controller":"did:example:21tDAKCERh95uGgKbJNHYp","publicKeyBase58":"H3C2AVvLMv6gmMNam3uVAjZpfkcJCwDwnZn6z3wXmqPV"}],
"assertionMethod":["#key-2"],"capabilityDelegation":["did:example:21tDAKCERh95uGgKbJNHYp#key-1"],"capabilityInvocation":["did:example:21tDAKCERh95uGgKbJNHYp#key-1"],
"keyAgreement":[{"id":"did:example:21tDAKCERh95uGgKbJNHYp#key-5","type":"X25519KeyAgreementKey2019","controller":"did:example:21tDAKCERh95uGgKbJNHYp","publicKeyBase58":"JhNWeSVLMYccCk7iopQW4guaSJTojqpMEELgSLhKwRr"}],
"service":[{"id":"did:example:21tDAKCERh95uGgKbJNHYp#didcomm","type":"did-communication","priority":0,"recipientKeys":["did:example:21tDAKCERh95uGgKbJNHYp#key-1"],"routingKeys":["did:example:21tDAKCERh95uGgKbJNHYp#key-1"],"serviceEndpoint":"https://agent.example.com/"},
{"id":"#v2","type":"DIDCommMessaging","serviceEndpoint":[{"uri":"https://agent.example.com/v2","accept":["didcomm/v2"],"routingKeys":["did:example:r#k"]}]},
{"id":"#linked","type":"LinkedDomains","serviceEndpoint":{"origins":["https://example.com"]},"custom":{"a":[1,2]}}],
"created":"2019-09-23T14:16:59Z","updated":"2019-09-23T14:16:59Z",
"proof":[{"type":"Ed25519Signature2018","created":"2019-09-23T14:16:59Z","creator":"did:example:21tDAKCERh95uGgKbJNHYp#key-1","proofValue":"6mdES87erjP5r1qCSRW__otj-A_Rj0YgRO7XU_0Amhwdfa7AAmtGUSFGflR_fZqPYrY9ceLRVQCJ49s0q7-LBA","domain":"d","nonce":"MDEyMzQ1Njc4OQ"}]}`

const didDocV011 = `{"@context":["https://w3id.org/did/v0.11"],"id":"did:example:21tDAKCERh95uGgKbJNHYp",
"publicKey":[{"id":"did:example:21tDAKCERh95uGgKbJNHYp#key-1","type":"Ed25519VerificationKey2018","owner":"did:example:21tDAKCERh95uGgKbJNHYp","publicKeyBase58":"H3C2AVvLMv6gmMNam3uVAjZpfkcJCwDwnZn6z3wXmqPV"},
{"id":"did:example:21tDAKCERh95uGgKbJNHYp#key-2","type":"JwsVerificationKey2020","owner":"did:example:21tDAKCERh95uGgKbJNHYp","publicKeyJwk":@JWK@}],
"authentication":[{"type":"Ed25519SignatureAuthentication2018","publicKey":"did:example:21tDAKCERh95uGgKbJNHYp#key-1"},"did:example:21tDAKCERh95uGgKbJNHYp#key-2"],
"service":[{"id":"did:example:21tDAKCERh95uGgKbJNHYp#inbox","type":"SocialWebInboxService","serviceEndpoint":"https://social.example.com/83hfh37dj","spamCost":{"amount":"0.50","currency":"USD"}}],
"created":"2002-10-10T17:00:00Z",
"proof":[{"type":"Ed25519Signature2018","created":"2019-09-23T14:16:59Z","creator":"did:example:21tDAKCERh95uGgKbJNHYp#key-1","signatureValue":"6mdES87erjP5r1qCSRW__otj-A_Rj0YgRO7XU_0Amhwdfa7AAmtGUSFGflR_fZqPYrY9ceLRVQCJ49s0q7-LBA","domain":"d","nonce":"MDEyMzQ1Njc4OQ"}]}`

const didDocV2019 = `{"@context":"https://www.w3.org/2019/did/v1","id":"did:example:21tDAKCERh95uGgKbJNHYp",
"publicKey":[{"id":"did:example:21tDAKCERh95uGgKbJNHYp#key-1","type":"Ed25519VerificationKey2018","controller":"did:example:21tDAKCERh95uGgKbJNHYp","publicKeyBase58":"H3C2AVvLMv6gmMNam3uVAjZpfkcJCwDwnZn6z3wXmqPV"},
{"id":"#key-2","type":"JwsVerificationKey2020","controller":"did:example:21tDAKCERh95uGgKbJNHYp","publicKeyJwk":@JWK@}],
"authentication":[{"type":"Ed25519SignatureAuthentication2018","publicKey":["did:example:21tDAKCERh95uGgKbJNHYp#key-1","#key-2"]},"did:example:21tDAKCERh95uGgKbJNHYp#key-1"],
"assertionMethod":[{"type":"Ed25519SignatureAuthentication2018","publicKey":["#key-2"]}],
"service":[{"id":"did:example:21tDAKCERh95uGgKbJNHYp#didcomm","type":"IndyAgent","priority":0,"recipientKeys":["H3C2AVvLMv6gmMNam3uVAjZpfkcJCwDwnZn6z3wXmqPV"],"routingKeys":["JhNWeSVLMYccCk7iopQW4guaSJTojqpMEELgSLhKwRr"],"serviceEndpoint":"https://agent.example.com/"}],
"created":"2019-09-23T14:16:59Z"}`

const manifestJSON = `{"id":"dcc75a16-19f5-4273-84ce-4da69ee2b7fe","issuer":{"id":"did:example:123?linked-domains=3","name":"Washington State Government","styles":{"thumbnail":{"uri":"https://dol.wa.com/logo.png","alt":"Washington State Seal"},"background":{"color":"#ff0000"},"text":{"color":"#d4d400"}}},
"output_descriptors":[{"id":"udc_output","schema":"https://www.w3.org/2018/credentials/examples/v1","name":"University degree","description":"d",
"display":{"title":{"path":["$.credentialSubject.degree.name","$.name"],"schema":{"type":"string"},"fallback":"Degree"},"subtitle":{"path":["$.issuer.name"],"schema":{"type":"string"},"fallback":"Issuer"},
"description":{"text":"Awarded degree."},"properties":[{"path":["$.credentialSubject.degree.type"],"schema":{"type":"string"},"fallback":"Unknown","label":"Degree type"},{"text":"static","label":"Static"}]},
"styles":{"thumbnail":{"uri":"https://dol.wa.com/logo.png","alt":"a"},"hero":{"uri":"https://dol.wa.com/people-working.png","alt":"b"},"background":{"color":"#ff0000"},"text":{"color":"#d4d400"}}}]}`

const pdJSON = `{"id":"pd1","input_descriptors":[{"id":"d1","group":["A"],"schema":[{"uri":"https://www.w3.org/2018/credentials#VerifiableCredential"}],
"constraints":{"limit_disclosure":"required","fields":[{"path":["$.credentialSubject.degree.name"],"filter":{"type":"string","pattern":"Bach"}}]}}],
"submission_requirements":[{"rule":"pick","count":1,"from":"A"}]}`

func (s *syncWorld) docSeeds() {
	loader := s.loader

	sg, err := sigutil.NewSigner(kms.ED25519Type)
	must(err)

	sigSuite := ed25519signature2018.New(suite.WithSigner(sg), suite.WithVerifier(ed25519signature2018.NewPublicKeyVerifier()))
	fetcher := verifiable.SingleKey(sg.PublicKeyBytes(), kms.ED25519)

	vcDoc := vcSimple

	vc, err := verifiable.ParseCredential([]byte(vcDoc), verifiable.WithJSONLDDocumentLoader(loader), verifiable.WithDisabledProofCheck())
	must(err)

	created := time.Date(2020, 1, 1, 0, 0, 0, 0, time.UTC)

	must(vc.AddLinkedDataProof(&verifiable.LinkedDataProofContext{SignatureType: "Ed25519Signature2018", Suite: sigSuite,
		SignatureRepresentation: verifiable.SignatureJWS, Created: &created,
		VerificationMethod: "did:example:76e12ec712ebc6f1c221ebfeb1f#key-1"}, ldOpt(loader)))

	signed, err := json.Marshal(vc)
	must(err)

	parseVC := func(in []byte) error {
		c, e := verifiable.ParseCredential(in, verifiable.WithJSONLDDocumentLoader(loader),
			verifiable.WithEmbeddedSignatureSuites(sigSuite), verifiable.WithPublicKeyFetcher(fetcher))
		return proportion(in, c, e)
	}
	parseVCNoProof := func(in []byte) error {
		c, e := verifiable.ParseCredential(in, verifiable.WithJSONLDDocumentLoader(loader), verifiable.WithDisabledProofCheck())
		return proportion(in, c, e)
	}
	parseVCStrict := func(in []byte) error {
		_, e := verifiable.ParseCredential(in, verifiable.WithJSONLDDocumentLoader(loader), verifiable.WithStrictValidation(),
			verifiable.WithEmbeddedSignatureSuites(sigSuite), verifiable.WithPublicKeyFetcher(fetcher))
		return e
	}

	must(parseVC(signed))
	s.add(&Seed{Name: "vc.ldproof", Layer: "X", Kind: "json", Wire: signed,
		Targets: []Target{{"verifiable.ParseCredential", parseVC}, {"verifiable.ParseCredential(strict)", parseVCStrict}}})
	s.add(&Seed{Name: "vc.rich", Layer: "X", Kind: "json", Wire: []byte(vcJSON),
		Targets: []Target{{"verifiable.ParseCredential(no proof check)", parseVCNoProof}}})

	// the verifier application's validation modes are a dimension of their own: every credential seed is also
	// parsed under each of them (the JSON seeds feed the E10 model: decodeType / decodeContext / validateBaseContext)
	modes := []struct {
		name string
		opts []verifiable.CredentialOpt
	}{
		{"base context", []verifiable.CredentialOpt{verifiable.WithBaseContextValidation()}},
		{"base context extended", []verifiable.CredentialOpt{verifiable.WithBaseContextExtendedValidation(
			[]string{"https://www.w3.org/2018/credentials/v1", "https://www.w3.org/2018/credentials/examples/v1"},
			[]string{"VerifiableCredential", "UniversityDegreeCredential"})}},
		{"json-ld validation", []verifiable.CredentialOpt{verifiable.WithJSONLDValidation(), verifiable.WithJSONLDOnlyValidRDF()}},
		{"no schema check", []verifiable.CredentialOpt{verifiable.WithNoCustomSchemaCheck(), verifiable.WithStrictValidation()}},
		{"validation off", []verifiable.CredentialOpt{verifiable.WithCredDisableValidation()}},
	}

	var modeTargets []Target

	for _, m := range modes {
		m := m
		modeTargets = append(modeTargets, Target{"verifiable.ParseCredential(" + m.name + ")", func(in []byte) error {
			_, e := verifiable.ParseCredential(in, append([]verifiable.CredentialOpt{
				verifiable.WithJSONLDDocumentLoader(loader), verifiable.WithDisabledProofCheck()}, m.opts...)...)
			return e
		}})
	}

	must(modeTargets[0].Run([]byte(vcBase)))
	s.add(&Seed{Name: "vc.base", Layer: "E10", Kind: "json", Wire: []byte(vcBase),
		Targets: append([]Target{{"verifiable.ParseCredential(no proof check)", parseVCNoProof}}, modeTargets...)})
	s.add(&Seed{Name: "vc.simple", Layer: "E10", Kind: "json", Wire: []byte(vcSimple), Targets: modeTargets[1:3]})

	// JWT credential
	jwtClaims, err := vc.JWTClaims(false)
	must(err)

	vcJWT, err := jwtClaims.MarshalJWS(verifiable.EdDSA, sg, "did:example:76e12ec712ebc6f1c221ebfeb1f#key-1")
	must(err)

	must(parseVC([]byte(vcJWT)))
	s.add(&Seed{Name: "vc.jwt", Layer: "X", Kind: "token", Wire: []byte(vcJWT),
		Targets: []Target{{"verifiable.ParseCredential", parseVC}, {"verifiable.ParseCredential(no proof check)", parseVCNoProof}}})

	// SD-JWT credential
	_, sdPriv, err := ed25519.GenerateKey(detRand("c03-sdvc"))
	must(err)

	sdvc, err := vc.MakeSDJWT(afjwt.NewEd25519Signer(sdPriv), "did:example:76e12ec712ebc6f1c221ebfeb1f#key-1")
	if err == nil {
		s.add(&Seed{Name: "vc.sdjwt", Layer: "E7", Kind: "token", Wire: []byte(sdvc),
			Targets: []Target{{"verifiable.ParseCredential(sd-jwt)", parseVCNoProof}, {"verifiable.ParseCredential", parseVC}}})
	}

	// presentation
	vp, err := verifiable.NewPresentation(verifiable.WithCredentials(vc))
	must(err)

	vp.Holder = "did:example:ebfeb1f712ebc6f1c276e12ec21"
	must(vp.AddLinkedDataProof(&verifiable.LinkedDataProofContext{SignatureType: "Ed25519Signature2018", Suite: sigSuite,
		SignatureRepresentation: verifiable.SignatureJWS, Created: &created, Challenge: "c", Domain: "d",
		VerificationMethod: "did:example:76e12ec712ebc6f1c221ebfeb1f#key-1"}, ldOpt(loader)))

	vpb, err := json.Marshal(vp)
	must(err)

	parseVP := func(in []byte) error {
		_, e := verifiable.ParsePresentation(in, verifiable.WithPresJSONLDDocumentLoader(loader),
			verifiable.WithPresEmbeddedSignatureSuites(sigSuite), verifiable.WithPresPublicKeyFetcher(fetcher))
		return e
	}

	must(parseVP(vpb))
	s.add(&Seed{Name: "vp.ldproof", Layer: "X", Kind: "json", Wire: vpb,
		Targets: []Target{{"verifiable.ParsePresentation", parseVP}}})

	// the JWT form of a presentation
	if vpClaims, e := vp.JWTClaims([]string{"did:example:aud"}, false); e == nil {
		if vpJWT, e2 := vpClaims.MarshalJWS(verifiable.EdDSA, sg, "did:example:76e12ec712ebc6f1c221ebfeb1f#key-1"); e2 == nil {
			must(parseVP([]byte(vpJWT)))

			parseVPNoProof := func(in []byte) error {
				_, e3 := verifiable.ParsePresentation(in, verifiable.WithPresJSONLDDocumentLoader(loader),
					verifiable.WithPresDisabledProofCheck())
				return e3
			}

			s.add(&Seed{Name: "vp.jwt", Layer: "X", Kind: "token", Wire: []byte(vpJWT),
				Targets: []Target{{"verifiable.ParsePresentation", parseVP},
					{"verifiable.ParsePresentation(no proof check)", parseVPNoProof}}})
		}
	}

	// a credential together with the DID document of its issuer (both come from other parties): the proof is checked
	// with the key the document's verification method gives, in whatever form it gives it
	jwsSuite := jsonwebsignature2020.New(suite.WithSigner(sg), suite.WithVerifier(jsonwebsignature2020.NewPublicKeyVerifier()))

	for _, sc := range []struct {
		name, sigType, vmType string
		st                    sigsigner.SignatureSuite
	}{{"ed2018", "Ed25519Signature2018", "Ed25519VerificationKey2018", sigSuite}, {"jws2020", "JsonWebSignature2020", "JsonWebKey2020", jwsSuite}} {
		vc2, e := verifiable.ParseCredential([]byte(vcSimple), verifiable.WithJSONLDDocumentLoader(loader), verifiable.WithDisabledProofCheck())
		must(e)

		if sc.sigType == "JsonWebSignature2020" {
			vc2.Context = append(vc2.Context, "https://w3id.org/security/suites/jws-2020/v1")
		}

		const issuer = "did:example:76e12ec712ebc6f1c221ebfeb1f"

		if e = vc2.AddLinkedDataProof(&verifiable.LinkedDataProofContext{SignatureType: sc.sigType, Suite: sc.st,
			SignatureRepresentation: verifiable.SignatureJWS, Created: &created, VerificationMethod: issuer + "#key-1"},
			ldOpt(loader)); e != nil {
			continue
		}

		vcb, e := json.Marshal(vc2)
		must(e)

		edJWK, e := jwksupport.JWKFromKey(ed25519.PublicKey(sg.PublicKeyBytes()))
		must(e)

		edJWKb, e := edJWK.MarshalJSON()
		must(e)

		vm := `{"id":"` + issuer + `#key-1","type":"` + sc.vmType + `","controller":"` + issuer + `",`
		if sc.vmType == "JsonWebKey2020" {
			vm += `"publicKeyJwk":` + string(edJWKb) + `}`
		} else {
			vm += `"publicKeyBase58":"` + base58.Encode(sg.PublicKeyBytes()) + `"}`
		}

		doc := `{"@context":["https://www.w3.org/ns/did/v1"],"id":"` + issuer + `","verificationMethod":[` + vm +
			`],"assertionMethod":["` + issuer + `#key-1"],"authentication":["` + issuer + `#key-1"]}`

		both := []byte(`{"credential":` + string(vcb) + `,"issuerDoc":` + doc + `}`)

		run := func(in []byte) error {
			var w struct {
				Credential json.RawMessage `json:"credential"`
				IssuerDoc  json.RawMessage `json:"issuerDoc"`
			}

			if e2 := json.Unmarshal(in, &w); e2 != nil {
				return e2
			}

			idoc, e2 := did.ParseDocument(w.IssuerDoc)
			if e2 != nil {
				return e2
			}

			// what the framework's consumers of a resolved verification method do with it
			for i := range idoc.VerificationMethod {
				_, _, _, _ = vmparse.VMToBytesTypeCrv(&idoc.VerificationMethod[i])
				_, _, _ = vmparse.VMToTypeCrv(&idoc.VerificationMethod[i])
			}

			reg := &mockvdr.MockVDRegistry{ResolveFunc: func(string, ...vdrspi.DIDMethodOption) (*did.DocResolution, error) {
				return &did.DocResolution{DIDDocument: idoc}, nil
			}}

			_, e2 = verifiable.ParseCredential(w.Credential, verifiable.WithJSONLDDocumentLoader(loader),
				verifiable.WithEmbeddedSignatureSuites(sigSuite, jwsSuite),
				verifiable.WithPublicKeyFetcher(verifiable.NewVDRKeyResolver(reg).PublicKeyFetcher()))

			return e2
		}

		must(run(both))
		s.add(&Seed{Name: "vc+issuerdoc." + sc.name, Layer: "X", Kind: "json", Wire: both,
			Targets: []Target{{"did.ParseDocument+vmparse+verifiable.ParseCredential(resolved key)", run}}})
	}

	// DID documents
	w := s.w
	docK, err := ecdsa.GenerateKey(elliptic.P256(), detRand("c03-doc"))
	must(err)

	docJ, err := jwksupport.JWKFromKey(&docK.PublicKey)
	must(err)

	docJB, err := docJ.MarshalJSON()
	must(err)

	docb := []byte(strings.Replace(didDocJSON, "@JWK@", string(docJB), 1))

	parseDoc := func(in []byte) error {
		d, e := did.ParseDocument(in)
		if e != nil {
			return e
		}

		for _, vms := range d.VerificationMethods() {
			for i := range vms {
				_, _, _, _ = vmparse.VMToBytesTypeCrv(&vms[i].VerificationMethod)
				_, _, _ = vmparse.VMToTypeCrv(&vms[i].VerificationMethod)
			}
		}

		return nil
	}
	parseRes := func(in []byte) error {
		_, e := did.ParseDocumentResolution(in)
		return e
	}

	must(parseDoc(docb))
	s.add(&Seed{Name: "diddoc.p256", Layer: "X", Kind: "json", Wire: docb,
		Targets: []Target{{"did.ParseDocument", parseDoc}, {"did.ParseDocumentResolution", parseRes}}})

	kd, err := vdrkey.New().Read(w.NewKey(2, c01env.Ed25519).DidKey)
	must(err)

	kdb, err := kd.DIDDocument.JSONBytes()
	must(err)
	s.add(&Seed{Name: "diddoc.didkey", Layer: "X", Kind: "json", Wire: kdb,
		Targets: []Target{{"did.ParseDocument", parseDoc}}})

	resb, err := kd.JSONBytes()
	must(err)
	s.add(&Seed{Name: "diddoc.resolution", Layer: "X", Kind: "json", Wire: resb,
		Targets: []Target{{"did.ParseDocumentResolution", parseRes}}})

	// presentation definition
	pdRun := func(in []byte) error {
		var pd presexch.PresentationDefinition
		if e := json.Unmarshal(in, &pd); e != nil {
			return e
		}

		if e := pd.ValidateSchema(); e != nil {
			return e
		}

		_, e := pd.CreateVP([]*verifiable.Credential{vc}, loader, verifiable.WithJSONLDDocumentLoader(loader),
			verifiable.WithDisabledProofCheck())

		return e
	}

	s.add(&Seed{Name: "presexch.definition", Layer: "X", Kind: "json", Wire: []byte(pdJSON),
		Targets: []Target{{"presexch.ValidateSchema+CreateVP", pdRun}}})

	// legacy / alternative member forms of DID documents (v0.11 and 2019 contexts: publicKey arrays, relationship
	// entries that name keys through a publicKey member)
	for name, doc := range map[string]string{"v011": didDocV011, "v2019": didDocV2019} {
		b := []byte(strings.Replace(doc, "@JWK@", string(docJB), 1))
		must(parseDoc(b))
		s.add(&Seed{Name: "diddoc.legacy." + name, Layer: "X", Kind: "json", Wire: b,
			Targets: []Target{{"did.ParseDocument", parseDoc}}})
	}

	// a derived-proof credential: the proof type whose verifier takes the proof's nonce
	var bbsVC map[string]interface{}

	must(json.Unmarshal(signed, &bbsVC))

	if pm, ok := bbsVC["proof"].(map[string]interface{}); ok {
		pm["type"] = "BbsBlsSignatureProof2020"
		pm["nonce"] = "bm9uY2U="
		pm["proofValue"] = "AAAA"
		delete(pm, "jws")
		bbsVC["@context"] = append(bbsVC["@context"].([]interface{}), "https://w3id.org/security/bbs/v1")

		bb, e := json.Marshal(bbsVC)
		must(e)

		s.add(&Seed{Name: "vc.bbsproof", Layer: "X", Kind: "json", Wire: bb, Targets: []Target{
			{"verifiable.ParseCredential(default suites)", func(in []byte) error {
				_, e2 := verifiable.ParseCredential(in, verifiable.WithJSONLDDocumentLoader(loader),
					verifiable.WithPublicKeyFetcher(fetcher))
				return e2
			}}}})
	}

	// a presentation the framework built for the definition: presentation_submission / descriptor_map
	var pd presexch.PresentationDefinition

	must(json.Unmarshal([]byte(strings.Replace(pdJSON, `"limit_disclosure":"required",`, "", 1)), &pd))

	if pvp, e := pd.CreateVP([]*verifiable.Credential{vc}, loader, verifiable.WithJSONLDDocumentLoader(loader),
		verifiable.WithDisabledProofCheck()); e == nil {
		pvb, e2 := json.Marshal(pvp)
		must(e2)

		match := func(in []byte) error {
			p, e3 := verifiable.ParsePresentation(in, verifiable.WithPresJSONLDDocumentLoader(loader),
				verifiable.WithPresDisabledProofCheck())
			if e3 != nil {
				return e3
			}

			_, e3 = pd.Match([]*verifiable.Presentation{p}, loader, presexch.WithCredentialOptions(
				verifiable.WithJSONLDDocumentLoader(loader), verifiable.WithDisabledProofCheck()))

			return e3
		}

		s.add(&Seed{Name: "presexch.submission", Layer: "X", Kind: "json", Wire: pvb,
			Targets: []Target{{"presexch.Match", match}}})
	} else {
		panic(fmt.Sprintf("c03 setup: presexch CreateVP: %v", e))
	}

	// a credential manifest of an issuer, resolved against a credential (wallet display)
	cmRun := func(in []byte) error {
		var m cm.CredentialManifest
		if e := json.Unmarshal(in, &m); e != nil {
			return e
		}

		var first error

		for _, od := range m.OutputDescriptors {
			id := ""
			if od != nil {
				id = od.ID
			}

			if _, e := m.ResolveCredential(id, cm.RawCredentialToResolve(signed)); e != nil && first == nil {
				first = e
			}
		}

		return first
	}

	must(cmRun([]byte(manifestJSON)))
	s.add(&Seed{Name: "cm.manifest", Layer: "X", Kind: "json", Wire: []byte(manifestJSON),
		Targets: []Target{{"cm.ResolveCredential", cmRun}}})

	// JWK
	ecK, err := ecdsa.GenerateKey(elliptic.P256(), detRand("c03-jwk"))
	must(err)

	edPub, _, err := ed25519.GenerateKey(detRand("c03-jwk-ed"))
	must(err)

	for kt, key := range map[string]interface{}{"P256": &ecK.PublicKey, "Ed25519": edPub, "P256priv": ecK} {
		j, e := jwksupport.JWKFromKey(key)
		if e != nil || j == nil {
			continue
		}

		jb, e := j.MarshalJSON()
		if e != nil {
			continue
		}

		s.add(&Seed{Name: "jwk." + kt, Layer: "X", Kind: "json", Wire: jb, Targets: []Target{{"jwk.UnmarshalJSON",
			func(in []byte) error {
				var x jwk.JWK
				return x.UnmarshalJSON(in)
			}}}})
	}

}
