// c06gen, executed part: for EVERY exported kms.KeyType constant the real localkms (real local secret lock, mem store,
// kms.NewAriesProviderWrapper) is asked to Create, to ImportPrivateKey (every kind of Go private key), to
// ExportPubKeyBytes and to Rotate; what it did goes into the generated table next to the tables read from the source
// text, and Coq proves that the two derivations — and the hand-written tables of coq/C06/Model.v — agree on every key
// type (theorem executed_tables_agree).  A key type added to spi/kms, or an edit of the export / id code, breaks it.
package main

import (
	"bytes"
	"crypto/ecdsa"
	"crypto/ed25519"
	"crypto/elliptic"
	"crypto/rand"
	"crypto/sha256"
	"encoding/base64"
	"errors"
	"math/big"
	"strings"

	"github.com/btcsuite/btcd/btcec"

	"github.com/hyperledger/aries-framework-go/component/kmscrypto/crypto/primitive/bbs12381g2pub"
	"github.com/hyperledger/aries-framework-go/component/kmscrypto/doc/util/jwkkid"
	compkms "github.com/hyperledger/aries-framework-go/component/kmscrypto/kms"
	"github.com/hyperledger/aries-framework-go/component/kmscrypto/kms/localkms"
	"github.com/hyperledger/aries-framework-go/component/kmscrypto/secretlock/local"
	"github.com/hyperledger/aries-framework-go/component/storageutil/mem"
	kmsapi "github.com/hyperledger/aries-framework-go/spi/kms"
	"github.com/hyperledger/aries-framework-go/spi/secretlock"
)

type execRow struct {
	creatable, importable bool
	exportable            bool   // ExportPubKeyBytes of a stored keyset of this type succeeds
	enc                   string // encoding of the exported bytes ("" when not exportable)
	thumbID               bool   // the id of a created / imported (without requested id) keyset is CreateKID(exported)
	rotatable             bool   // Rotate of a stored keyset of this type (with this type) succeeds
	stored                bool   // a keyset of this type could be stored at all (created or imported)
	badAccepted           bool   // ImportPrivateKey accepted (or panicked on) an EC key that is not on the type's curve
}

type execProvider struct {
	store kmsapi.Store
	lock  secretlock.Service
}

func (p *execProvider) StorageProvider() kmsapi.Store  { return p.store }
func (p *execProvider) SecretLock() secretlock.Service { return p.lock }

func execKMS() *localkms.LocalKMS {
	st, err := compkms.NewAriesProviderWrapper(mem.NewProvider())
	if err != nil {
		fail("exec: %v", err)
	}

	mk := make([]byte, 32)
	_, _ = rand.Read(mk)

	lock, err := local.NewService(bytes.NewReader([]byte(base64.URLEncoding.EncodeToString(mk))), nil)
	if err != nil {
		fail("exec: %v", err)
	}

	k, err := localkms.New("local-lock://c06gen", &execProvider{store: st, lock: lock})
	if err != nil {
		fail("exec: %v", err)
	}

	return k
}

// encOfExported classifies exported public key bytes, by length first (a raw key may begin with any byte).
func encOfExported(b []byte) string {
	switch len(b) {
	case 32, 96:
		return "ERaw"
	case 33, 49, 67:
		if b[0] == 2 || b[0] == 3 {
			return "ECompressed"
		}
	case 65, 97, 133:
		if b[0] == 4 {
			return "EUncompressed"
		}
	}

	switch {
	case len(b) > 2 && b[0] == 0x30:
		return "EPkixDer"
	case len(b) > 0 && b[0] == '{':
		return "ECompositeJSON"
	}

	return "EOther"
}

// importCandidates: private keys to offer ImportPrivateKey for a key type.  A key of ANOTHER curve than the one the
// type's name announces may be accepted by ImportPrivateKey (C05 treats that as input); such keysets are not what the
// table describes, so where the name tells the curve only that key is offered; a type whose name tells nothing gets all.
func importCandidates(name string) []interface{} {
	var out []interface{}

	told := false
	want := func(tag string) bool {
		if strings.Contains(strings.ToUpper(name), tag) {
			told = true
			return true
		}

		return false
	}

	all := importCandidatesAll()
	tags := []string{"ED25519", "P256", "P384", "P521", "SECP256K1", "BLS"}

	for i, tag := range tags {
		if want(tag) {
			out = append(out, all[i])
		}
	}

	if !told {
		return all
	}

	return out
}

// badCandidates: EC private keys that are NOT on the curve the key type's name announces — every EC key of another
// curve, and the key of the right curve with its point moved off the curve.  None where the name tells no EC curve.
func badCandidates(name string) []interface{} {
	all := importCandidatesAll()
	tags := []string{"ED25519", "P256", "P384", "P521", "SECP256K1", "BLS"}
	up := strings.ToUpper(name)

	var out []interface{}

	mine := -1

	for i := 1; i <= 4; i++ {
		if strings.Contains(up, tags[i]) {
			mine = i
		}
	}

	if mine < 0 {
		return nil
	}

	for i := 1; i <= 4; i++ {
		k, _ := all[i].(*ecdsa.PrivateKey)
		if i != mine {
			out = append(out, k)
			continue
		}

		off := *k
		off.PublicKey.Y = new(big.Int).Add(k.Y, big.NewInt(1))
		out = append(out, &off)
	}

	return out
}

func importCandidatesAll() []interface{} {
	var out []interface{}

	_, ed, _ := ed25519.GenerateKey(rand.Reader)
	out = append(out, ed)

	for _, c := range []elliptic.Curve{elliptic.P256(), elliptic.P384(), elliptic.P521()} {
		k, err := ecdsa.GenerateKey(c, rand.Reader)
		if err != nil {
			fail("exec: %v", err)
		}

		out = append(out, k)
	}

	sk, err := btcec.NewPrivateKey(btcec.S256())
	if err != nil {
		fail("exec: %v", err)
	}

	out = append(out, sk.ToECDSA())

	seed := make([]byte, 32)
	_, _ = rand.Read(seed)

	_, bls, err := bbs12381g2pub.GenerateKeyPair(sha256.New, seed)
	if err != nil {
		fail("exec: %v", err)
	}

	return append(out, bls)
}

var errPanicked = errors.New("the call panicked")

func safely(f func()) {
	defer func() { _ = recover() }()
	f()
}

func execTable(order []string) map[string]execRow {
	rows := map[string]execRow{}

	for _, name := range order {
		kt := kmsapi.KeyType(name)
		row := execRow{}

		// three rounds (fresh random keys each): the classification must not depend on the key drawn
		for round := 0; round < 3; round++ {
			k := execKMS()
			var ids []string

			safely(func() {
				if id, _, err := k.Create(kt); err == nil {
					row.creatable = true
					ids = append(ids, id)
				}
			})

			for _, priv := range importCandidates(name) {
				p := priv

				safely(func() {
					if id, _, err := k.ImportPrivateKey(p, kt); err == nil {
						row.importable = true
						ids = append(ids, id)
					}
				})
			}

			// (a private key of another curve than the key type's may be accepted by ImportPrivateKey and then not be
			// exportable — C05's malformed imports; the row describes the keysets that work: any key that exports)
			rr := execRow{}

			for _, priv := range badCandidates(name) {
				p := priv
				err := errPanicked

				safely(func() { _, _, err = k.ImportPrivateKey(p, kt) })

				if err == nil || errors.Is(err, errPanicked) {
					row.badAccepted = true
				}
			}

			for _, id := range ids {
				row.stored = true

				var pub []byte

				err := errPanicked

				safely(func() { pub, _, err = k.ExportPubKeyBytes(id) })

				if err != nil || len(pub) == 0 {
					continue
				}

				enc, thumb := encOfExported(pub), false

				if kid, e := jwkkid.CreateKID(pub, kt); e == nil && kid == id {
					thumb = true
				}

				if rr.exportable && (enc != rr.enc || thumb != rr.thumbID) {
					fail("exec: key type %s behaves differently from key to key (encoding %q/%q, thumbprint id %v/%v)",
						name, enc, rr.enc, thumb, rr.thumbID)
				}

				rr.exportable, rr.enc, rr.thumbID = true, enc, thumb
			}

			if round > 0 && (rr.exportable != row.exportable || rr.enc != row.enc || rr.thumbID != row.thumbID) {
				fail("exec: key type %s behaves differently from run to run (export %v/%v, encoding %q/%q, thumbprint id %v/%v)",
					name, rr.exportable, row.exportable, rr.enc, row.enc, rr.thumbID, row.thumbID)
			}

			row.exportable, row.enc, row.thumbID = rr.exportable, rr.enc, rr.thumbID

			if len(ids) > 0 {
				err := errPanicked

				safely(func() { _, _, err = k.Rotate(kt, ids[0]) })

				rot := err == nil
				if round > 0 && rot != row.rotatable {
					fail("exec: Rotate of key type %s succeeds for some keys only", name)
				}

				row.rotatable = rot
			}
		}

		rows[name] = row
	}

	return rows
}
