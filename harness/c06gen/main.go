// c06gen: translator for C06.  Reads /repo's source with go/ast and regenerates coq/gen/Gen_C06.v:
// the key-type table the C06 model and theorems are stated over.
//
//	spi/kms/kms.go                                   -> the key types (string constants)
//	kms/localkms/localkms.go  storeKeySet switch     -> which key types get a random id / a thumbprint id
//	kms/localkms/localkms.go  Create guards          -> key types refused by Create
//	kms/localkms/keytemplate.go keyTemplate switch   -> key types that can be created/rotated
//	kms/localkms/privkey_import.go                   -> key types that can be imported
//	doc/util/jwkkid/kid_creator.go CreateKID/BuildJWK-> key types for which a thumbprint id is defined
//	doc/util/kmsdidkey/kmsdidkey.go keyTypeCodecs + BuildDIDKeyByKeyType switch
//	                                                 -> did:key multicodec and the key encoding put under it
//	kms/localkms/localkms.go  Rotate                 -> order of the store's Delete(old) and storeKeySet(new)
package main

import (
	"flag"
	"fmt"
	"go/ast"
	"go/parser"
	"go/token"
	"os"
	"path/filepath"
	"sort"
	"strconv"
	"strings"
)

var fset = token.NewFileSet()

func parse(path string) *ast.File {
	f, err := parser.ParseFile(fset, path, nil, 0)
	if err != nil {
		fail("parse %s: %v", path, err)
	}

	return f
}

func fail(f string, a ...interface{}) {
	fmt.Fprintf(os.Stderr, "c06gen: "+f+"\n", a...)
	os.Exit(1)
}

func funcDecl(f *ast.File, name string) *ast.FuncDecl {
	for _, d := range f.Decls {
		if fd, ok := d.(*ast.FuncDecl); ok && fd.Name.Name == name {
			return fd
		}
	}

	fail("function %s not found", name)

	return nil
}

// selName returns the identifier of `pkg.Name` or `Name`.
func selName(e ast.Expr) string {
	switch x := e.(type) {
	case *ast.SelectorExpr:
		return x.Sel.Name
	case *ast.Ident:
		return x.Name
	}

	return ""
}

func main() {
	repo := flag.String("repo", "/repo", "repository root")
	out := flag.String("out", "", "output file")
	flag.Parse()

	kc := filepath.Join(*repo, "component/kmscrypto")

	// 1. key type constants
	consts := map[string]string{} // identifier -> string value
	var order []string            // string values in declaration order

	spi := parse(filepath.Join(*repo, "spi/kms/kms.go"))
	for _, d := range spi.Decls {
		gd, ok := d.(*ast.GenDecl)
		if !ok || gd.Tok != token.CONST {
			continue
		}

		for _, s := range gd.Specs {
			vs := s.(*ast.ValueSpec)
			if len(vs.Names) != 1 || len(vs.Values) != 1 {
				continue
			}

			switch v := vs.Values[0].(type) {
			case *ast.BasicLit:
				if v.Kind == token.STRING {
					str, _ := strconv.Unquote(v.Value)
					consts[vs.Names[0].Name] = str
				}
			case *ast.CallExpr:
				if selName(v.Fun) == "KeyType" && len(v.Args) == 1 {
					if str, ok := consts[selName(v.Args[0])]; ok {
						consts[vs.Names[0].Name] = str
						if !contains(order, str) {
							order = append(order, str)
						}
					}
				}
			}
		}
	}

	if len(order) < 10 {
		fail("only %d key types found in spi/kms/kms.go", len(order))
	}

	kt := func(e ast.Expr) string {
		n := selName(e)
		if v, ok := consts[n]; ok && contains(order, v) {
			return v
		}

		return ""
	}

	caseTypes := func(cc *ast.CaseClause) []string {
		var r []string

		for _, e := range cc.List {
			if v := kt(e); v != "" {
				r = append(r, v)
			}
		}

		return r
	}

	switchOn := func(fd *ast.FuncDecl, tag string) []*ast.SwitchStmt {
		var r []*ast.SwitchStmt

		ast.Inspect(fd, func(n ast.Node) bool {
			if sw, ok := n.(*ast.SwitchStmt); ok && sw.Tag != nil && selName(sw.Tag) == tag {
				r = append(r, sw)
			}

			return true
		})

		return r
	}

	// 2. storeKeySet: random id vs thumbprint id; and that the thumbprint comes from generateKID
	lk := parse(filepath.Join(kc, "kms/localkms/localkms.go"))
	randomID := map[string]bool{}
	sks := funcDecl(lk, "storeKeySet")

	sws := switchOn(sks, "kt")
	if len(sws) != 1 {
		fail("storeKeySet: expected one switch on kt, found %d", len(sws))
	}

	defaultThumb := false

	for _, st := range sws[0].Body.List {
		cc := st.(*ast.CaseClause)
		callsGen := false

		ast.Inspect(cc, func(n ast.Node) bool {
			if c, ok := n.(*ast.CallExpr); ok && selName(c.Fun) == "generateKID" {
				callsGen = true
			}

			return true
		})

		if cc.List == nil {
			defaultThumb = callsGen
			continue
		}

		for _, t := range caseTypes(cc) {
			if !callsGen {
				randomID[t] = true
			}
		}
	}

	if !defaultThumb {
		fail("storeKeySet: the default case no longer derives the id with generateKID")
	}

	// generateKID must still be exportPubKeyBytes -> jwkkid.CreateKID
	gk := funcDecl(lk, "generateKID")
	sawExport, sawCreateKID := false, false

	ast.Inspect(gk, func(n ast.Node) bool {
		if c, ok := n.(*ast.CallExpr); ok {
			switch selName(c.Fun) {
			case "exportPubKeyBytes":
				sawExport = true
			case "CreateKID":
				sawCreateKID = true
			}
		}

		return true
	})

	if !sawExport || !sawCreateKID {
		fail("generateKID no longer is exportPubKeyBytes + jwkkid.CreateKID")
	}

	// 3. Create guards: `if kt == X { return ... error }`
	refused := map[string]bool{}

	ast.Inspect(funcDecl(lk, "Create"), func(n ast.Node) bool {
		if is, ok := n.(*ast.IfStmt); ok {
			if be, ok := is.Cond.(*ast.BinaryExpr); ok && be.Op == token.EQL && selName(be.X) == "kt" {
				if v := kt(be.Y); v != "" {
					refused[v] = true
				}
			}
		}

		return true
	})

	// 4. keyTemplate switch
	tmpl := map[string]bool{}
	ktf := parse(filepath.Join(kc, "kms/localkms/keytemplate.go"))

	for _, sw := range switchOn(funcDecl(ktf, "keyTemplate"), "keyType") {
		for _, st := range sw.Body.List {
			for _, t := range caseTypes(st.(*ast.CaseClause)) {
				tmpl[t] = true
			}
		}
	}

	if len(tmpl) < 10 {
		fail("keyTemplate: only %d key types found", len(tmpl))
	}

	// 5. import
	imp := map[string]bool{}
	pi := parse(filepath.Join(kc, "kms/localkms/privkey_import.go"))

	for _, sw := range switchOn(funcDecl(pi, "importECDSAKey"), "kt") {
		for _, st := range sw.Body.List {
			for _, t := range caseTypes(st.(*ast.CaseClause)) {
				imp[t] = true
			}
		}
	}

	for _, fn := range []string{"importEd25519Key", "importBBSKey"} {
		ast.Inspect(funcDecl(pi, fn), func(n ast.Node) bool {
			if be, ok := n.(*ast.BinaryExpr); ok && be.Op == token.NEQ && selName(be.X) == "kt" {
				if v := kt(be.Y); v != "" {
					imp[v] = true
				}
			}

			return true
		})
	}

	// 6. CreateKID / BuildJWK
	kidOK := map[string]bool{}
	kcf := parse(filepath.Join(kc, "doc/util/jwkkid/kid_creator.go"))

	for _, fn := range []string{"CreateKID", "BuildJWK"} {
		for _, sw := range switchOn(funcDecl(kcf, fn), "kt") {
			for _, st := range sw.Body.List {
				for _, t := range caseTypes(st.(*ast.CaseClause)) {
					kidOK[t] = true
				}
			}
		}
	}

	// 7. did:key codecs and encodings
	fpf := parse(filepath.Join(kc, "doc/util/fingerprint/fingerprint.go"))
	codecVal := map[string]uint64{}

	for _, d := range fpf.Decls {
		gd, ok := d.(*ast.GenDecl)
		if !ok || gd.Tok != token.CONST {
			continue
		}

		for _, s := range gd.Specs {
			vs := s.(*ast.ValueSpec)
			if len(vs.Names) == 1 && len(vs.Values) == 1 && strings.HasSuffix(vs.Names[0].Name, "MultiCodec") {
				if bl, ok := vs.Values[0].(*ast.BasicLit); ok {
					v, err := strconv.ParseUint(bl.Value, 0, 64)
					if err == nil {
						codecVal[vs.Names[0].Name] = v
					}
				}
			}
		}
	}

	codec := map[string]uint64{}
	kdf := parse(filepath.Join(kc, "doc/util/kmsdidkey/kmsdidkey.go"))

	ast.Inspect(kdf, func(n ast.Node) bool {
		vs, ok := n.(*ast.ValueSpec)
		if !ok || len(vs.Names) != 1 || vs.Names[0].Name != "keyTypeCodecs" || len(vs.Values) != 1 {
			return true
		}

		cl, ok := vs.Values[0].(*ast.CompositeLit)
		if !ok {
			return true
		}

		for _, el := range cl.Elts {
			kv := el.(*ast.KeyValueExpr)
			if t := kt(kv.Key); t != "" {
				c, ok := codecVal[selName(kv.Value)]
				if !ok {
					fail("keyTypeCodecs: unknown codec %s", selName(kv.Value))
				}

				codec[t] = c
			}
		}

		return false
	})

	if len(codec) < 5 {
		fail("keyTypeCodecs: only %d entries found", len(codec))
	}

	// BuildDIDKeyByKeyType: the switch on keyType re-encodes the exported bytes for some types:
	//   a case that calls elliptic.MarshalCompressed -> Compressed; a case that copies pubKey.X -> RawX;
	//   no case -> the exported bytes as they are.
	form := map[string]string{}

	for _, sw := range switchOn(funcDecl(kdf, "BuildDIDKeyByKeyType"), "keyType") {
		for _, st := range sw.Body.List {
			cc := st.(*ast.CaseClause)
			compressed, rawx := false, false

			ast.Inspect(cc, func(n ast.Node) bool {
				switch x := n.(type) {
				case *ast.CallExpr:
					if selName(x.Fun) == "MarshalCompressed" {
						compressed = true
					}

					if selName(x.Fun) == "copy" && len(x.Args) == 2 {
						if se, ok := x.Args[1].(*ast.SelectorExpr); ok && se.Sel.Name == "X" {
							rawx = true
						}
					}
				}

				return true
			})

			for _, t := range caseTypes(cc) {
				switch {
				case compressed:
					form[t] = "FCompressed"
				case rawx:
					form[t] = "FRawX"
				}
			}
		}
	}

	// 8. Rotate: order of l.store.Delete and l.storeKeySet
	var posDel, posStore token.Pos

	ast.Inspect(funcDecl(lk, "Rotate"), func(n ast.Node) bool {
		if c, ok := n.(*ast.CallExpr); ok {
			switch selName(c.Fun) {
			case "Delete":
				if posDel == 0 {
					posDel = c.Pos()
				}
			case "storeKeySet":
				if posStore == 0 {
					posStore = c.Pos()
				}
			}
		}

		return true
	})

	if posDel == 0 || posStore == 0 {
		fail("Rotate: Delete / storeKeySet calls not found")
	}

	rotVariant := "Fixed"
	if posDel < posStore {
		rotVariant = "AsIs"
	}

	// 9. importKeySet: does an import without a requested id derive the thumbprint id (importedKeyID)?
	importThumb := false

	ast.Inspect(funcDecl(pi, "importKeySet"), func(n ast.Node) bool {
		if c, ok := n.(*ast.CallExpr); ok && selName(c.Fun) == "importedKeyID" {
			importThumb = true
		}

		return true
	})

	if importThumb {
		sawExport, sawCreateKID = false, false

		ast.Inspect(funcDecl(pi, "importedKeyID"), func(n ast.Node) bool {
			if c, ok := n.(*ast.CallExpr); ok {
				switch selName(c.Fun) {
				case "exportPubKeyBytes":
					sawExport = true
				case "CreateKID":
					sawCreateKID = true
				}
			}

			return true
		})

		if !sawExport || !sawCreateKID {
			fail("importedKeyID no longer is exportPubKeyBytes + jwkkid.CreateKID")
		}
	}

	// --- emit ---
	var b strings.Builder

	b.WriteString("(* GENERATED by harness/c06gen from /repo on every run of bin/check C06 — do not edit.\n")
	b.WriteString("   Sources: spi/kms/kms.go, component/kmscrypto/kms/localkms/{localkms,keytemplate,privkey_import}.go,\n")
	b.WriteString("   component/kmscrypto/doc/util/{jwkkid/kid_creator,kmsdidkey/kmsdidkey,fingerprint/fingerprint}.go *)\n")
	b.WriteString("From Coq Require Import List NArith Bool.\nImport ListNotations.\n\n")
	b.WriteString("Inductive ktype :=\n")

	for _, t := range order {
		b.WriteString("| K_" + t + "\n")
	}

	b.WriteString(".\n\nDefinition all_ktypes : list ktype :=\n  [" + joinPrefixed(order, "K_", "; ") + "].\n\n")

	boolTable := func(name, comment string, m map[string]bool) {
		b.WriteString("(* " + comment + " *)\n")
		b.WriteString("Definition " + name + " (k : ktype) : bool :=\n  match k with\n")

		var yes []string

		for _, t := range order {
			if m[t] {
				yes = append(yes, t)
			}
		}

		if len(yes) > 0 {
			b.WriteString("  | " + joinPrefixed(yes, "K_", " | ") + " => true\n")
		}

		if len(yes) < len(order) {
			b.WriteString("  | _ => false\n")
		}

		b.WriteString("  end.\n\n")
	}

	boolTable("kt_random_id", "storeKeySet: key types stored under a random id (every other type: JWK thumbprint of the public key)", randomID)

	creatable := map[string]bool{}

	for t := range tmpl {
		if !refused[t] {
			creatable[t] = true
		}
	}

	boolTable("kt_template", "keyTemplate: key types with a key template (Rotate accepts them)", tmpl)
	boolTable("kt_creatable", "Create: key types with a template and not refused by Create", creatable)
	boolTable("kt_importable", "ImportPrivateKey: key types accepted", imp)
	boolTable("kt_kid_defined", "jwkkid.CreateKID: key types with a thumbprint id", kidOK)

	b.WriteString("(* kmsdidkey.keyTypeCodecs: multicodec of the did:key form *)\n")
	b.WriteString("Definition kt_codec (k : ktype) : option N :=\n  match k with\n")

	var withCodec []string

	for _, t := range order {
		if _, ok := codec[t]; ok {
			withCodec = append(withCodec, t)
		}
	}

	sort.SliceStable(withCodec, func(i, j int) bool { return codec[withCodec[i]] < codec[withCodec[j]] })

	for _, t := range withCodec {
		b.WriteString(fmt.Sprintf("  | K_%s => Some %d%%N\n", t, codec[t]))
	}

	b.WriteString("  | _ => None\n  end.\n\n")

	b.WriteString("(* kmsdidkey.BuildDIDKeyByKeyType: the bytes put under the multicodec *)\n")
	b.WriteString("Inductive didform := FAsExported | FRawX | FCompressed.\n")
	b.WriteString("Definition kt_didform (k : ktype) : didform :=\n  match k with\n")

	for _, t := range order {
		if f, ok := form[t]; ok {
			b.WriteString("  | K_" + t + " => " + f + "\n")
		}
	}

	b.WriteString("  | _ => FAsExported\n  end.\n\n")

	b.WriteString("(* localkms.Rotate: RotAsIs = Delete(old id) before storeKeySet(new), RotFixed = storeKeySet(new) first *)\n")
	b.WriteString("Inductive rot_order := RotAsIs | RotFixed.\n")
	b.WriteString("Definition repo_rot_order : rot_order := Rot" + rotVariant + ".\n")
	b.WriteString("\n(* localkms importKeySet: an import without a requested id is stored under the thumbprint id (true) or a random id *)\n")
	b.WriteString(fmt.Sprintf("Definition repo_import_thumb : bool := %v.\n", importThumb))

	// --- executed part: the real localkms asked about every key type (exec.go) ---
	rows := execTable(order)
	col := func(f func(execRow) bool) map[string]bool {
		m := map[string]bool{}
		for t, r := range rows {
			m[t] = f(r)
		}

		return m
	}

	b.WriteString("\n(* ---- EXECUTED: what the real localkms did for every key type (harness/c06gen/exec.go) ---- *)\n")
	b.WriteString("(* encodings of a public key *)\nInductive enc := ERaw | EUncompressed | EPkixDer | ECompressed | ECompositeJSON.\n\n")
	boolTable("exec_creatable", "Create succeeded", col(func(r execRow) bool { return r.creatable }))
	boolTable("exec_importable", "ImportPrivateKey succeeded for some kind of private key", col(func(r execRow) bool { return r.importable }))
	boolTable("exec_stored", "a keyset of the type could be stored (created or imported)", col(func(r execRow) bool { return r.stored }))
	boolTable("exec_exportable", "ExportPubKeyBytes of a stored keyset succeeded", col(func(r execRow) bool { return r.exportable }))
	boolTable("exec_thumb_id", "the id given to a created / imported keyset is jwkkid.CreateKID of its exported public key", col(func(r execRow) bool { return r.thumbID }))
	boolTable("exec_rotatable", "Rotate of a stored keyset (with its own key type) succeeded", col(func(r execRow) bool { return r.rotatable }))

	boolTable("exec_bad_key_refused", "every EC private key NOT on the key type's curve (the keys of the other curves; the right curve's key with its point moved off the curve) was refused by ImportPrivateKey, without a panic (vacuously true for key types that are not EC types)", col(func(r execRow) bool { return !r.badAccepted }))
	b.WriteString("(* encoding of the bytes ExportPubKeyBytes returned (classified by length, then by first byte) *)\n")
	b.WriteString("Definition exec_export_enc (k : ktype) : option enc :=\n  match k with\n")

	for _, t := range order {
		if r := rows[t]; r.exportable {
			if r.enc == "EOther" {
				fail("exec: ExportPubKeyBytes of key type %s returned bytes in no known encoding", t)
			}

			b.WriteString("  | K_" + t + " => Some " + r.enc + "\n")
		}
	}

	b.WriteString("  | _ => None\n  end.\n")

	if *out == "" {
		fmt.Print(b.String())
		return
	}

	if err := os.WriteFile(*out, []byte(b.String()), 0o644); err != nil {
		fail("%v", err)
	}
}

func contains(l []string, s string) bool {
	for _, x := range l {
		if x == s {
			return true
		}
	}

	return false
}

func joinPrefixed(l []string, p, sep string) string {
	r := make([]string, len(l))
	for i, s := range l {
		r[i] = p + s
	}

	return strings.Join(r, sep)
}
