package main

import (
	"bytes"
	"os"
	"errors"
	"crypto/ed25519"
	"encoding/json"
	"fmt"
	"sort"
	"strconv"
	"strings"
	"sync"
	"time"

	"github.com/hyperledger/aries-framework-go/component/kmscrypto/kms/localkms"
	"github.com/hyperledger/aries-framework-go/component/storageutil/mem"
	"github.com/hyperledger/aries-framework-go/pkg/didcomm/common/service"
	"github.com/hyperledger/aries-framework-go/pkg/didcomm/protocol/messagepickup"
	"github.com/hyperledger/aries-framework-go/pkg/didcomm/transport/ws"
	diddoc "github.com/hyperledger/aries-framework-go/pkg/doc/did"
	mockdispatcher "github.com/hyperledger/aries-framework-go/pkg/mock/didcomm/dispatcher"
	mockkms "github.com/hyperledger/aries-framework-go/pkg/mock/kms"
	mockprovider "github.com/hyperledger/aries-framework-go/pkg/mock/provider"
	"github.com/hyperledger/aries-framework-go/pkg/secretlock/noop"
	didstore "github.com/hyperledger/aries-framework-go/pkg/store/did"
	"github.com/hyperledger/aries-framework-go/pkg/wallet"
	kmsapi "github.com/hyperledger/aries-framework-go/spi/kms"
	spi "github.com/hyperledger/aries-framework-go/spi/storage"

	"verifharness/hx"
)

// Inst is one shared instance of a component under test.
type Inst interface {
	// Exec performs op (called from many goroutines); it may complete op (e.g. fill Ref).
	Exec(g int, op *Op) Out
	Close()
}

// Comp describes a component: how to build it, generate operations, search and print.
type Comp struct {
	Name   string
	New    func(c Case, ct *ctl) (Inst, error)
	Gen    func(r *hx.Rng, c *Case, g, n int)
	Model  func(c Case) Model
	Coq    func(c Case, h []Ev, w []int) string
	NoLin  bool // race / deadlock observation only
	Forced bool // the component reaches shared state through an injected store: forced overlaps possible
}

// ---------- key manager ----------

type kmsInst struct {
	k    *localkms.LocalKMS
	keys []ed25519.PrivateKey // imported material 1..len
	last []string             // per goroutine: id returned by its last create
}

//nolint:gochecknoglobals
var kmsKeys = func() []ed25519.PrivateKey {
	var ks []ed25519.PrivateKey

	for i := 0; i < 8; i++ {
		seed := bytes.Repeat([]byte{byte(i + 1)}, ed25519.SeedSize)
		ks = append(ks, ed25519.NewKeyFromSeed(seed))
	}

	return ks
}()

func newKMSInst(c Case, ct *ctl) (Inst, error) {
	p, err := mockkms.NewProviderForKMS(&yProvider{inner: mem.NewProvider(), c: ct}, &noop.NoLock{})
	if err != nil {
		return nil, err
	}

	k, err := localkms.New("local-lock://c13", p)
	if err != nil {
		return nil, err
	}

	return &kmsInst{k: k, keys: kmsKeys, last: make([]string, 16)}, nil
}

func (w *kmsInst) Close() {}

func impID(id int) string { return fmt.Sprintf("imp-%d", id) }

func (w *kmsInst) Exec(g int, o *Op) (out Out) {
	defer func() {
		if r := recover(); r != nil {
			out = Out{Kind: "panic", Err: fmt.Sprint(r)}
		}
	}()

	switch o.Kind {
	case "create":
		id, _, err := w.k.Create(kmsapi.ED25519Type)
		if err != nil {
			return Out{Kind: "err", Err: err.Error()}
		}

		w.last[g] = id

		return Out{Kind: "id", S: id}
	case "import":
		id, _, err := w.k.ImportPrivateKey(w.keys[o.M-1], kmsapi.ED25519Type, kmsapi.WithKeyID(impID(o.ID)))
		if err != nil {
			return Out{Kind: "err", Err: err.Error()}
		}

		return Out{Kind: "id", S: id}
	case "kget":
		if o.Ref == "" {
			o.Ref = impID(o.ID)
			if o.ID == 0 {
				o.Ref = w.last[g]
				if o.Ref == "" {
					o.Ref = "never-created"
				}
			}
		}

		_, err := w.k.Get(o.Ref)
		if err != nil {
			if strings.Contains(err.Error(), "not found") {
				return Out{Kind: "notfound", Err: err.Error()}
			}

			return Out{Kind: "err", Err: err.Error()}
		}

		pub, _, err := w.k.ExportPubKeyBytes(o.Ref)
		if err != nil {
			return Out{Kind: "err", Err: err.Error()}
		}

		for i, k := range w.keys {
			if bytes.Equal(pub, k.Public().(ed25519.PublicKey)) { //nolint:forcetypeassert
				return Out{Kind: "mat", V: i + 1}
			}
		}

		return Out{Kind: "mat", V: 0}
	}

	return Out{Kind: "err", Err: "unknown op"}
}

type kmsState struct {
	m   map[string]int
	ord []string
}

func (s *kmsState) Key() string {
	ks := make([]string, 0, len(s.m))
	for k, v := range s.m {
		ks = append(ks, k+"="+strconv.Itoa(v))
	}

	sort.Strings(ks)

	return strings.Join(ks, ";")
}

type kmsModel struct{}

func (kmsModel) Init() State { return &kmsState{m: map[string]int{}} }

func (kmsModel) Step(st State, o Op, got Out) (State, bool) {
	s, _ := st.(*kmsState)

	add := func(id string, m int) *kmsState {
		n := &kmsState{m: map[string]int{}, ord: append(append([]string{}, s.ord...), id)}
		for k, v := range s.m {
			n.m[k] = v
		}

		n.m[id] = m

		return n
	}

	switch o.Kind {
	case "create":
		if got.Kind != "id" {
			return s, false
		}

		if _, ok := s.m[got.S]; ok || strings.HasPrefix(got.S, "imp-") {
			return s, false
		}

		return add(got.S, 0), true
	case "import":
		if _, ok := s.m[impID(o.ID)]; ok {
			return s, got.Kind == "err"
		}

		return add(impID(o.ID), o.M), got.Kind == "id" && got.S == impID(o.ID)
	case "kget":
		m, ok := s.m[o.Ref]
		if !ok {
			return s, got.Kind == "notfound"
		}

		return s, got.Kind == "mat" && got.V == m
	}

	return s, false
}

// coqKMS numbers the created ids the way kms_step does when replayed in witness order: 1000 + number of keys held.
func coqKMS(_ Case, h []Ev, w []int) string {
	num := map[string]int{}
	held := 0

	for _, i := range w {
		e := h[i]
		if e.Out.Kind == "id" {
			if e.Op.Kind == "create" {
				num[e.Out.S] = 1000 + held
			}

			held++
		}
	}

	idn := func(s string) int {
		if strings.HasPrefix(s, "imp-") {
			n, _ := strconv.Atoi(strings.TrimPrefix(s, "imp-"))

			return n
		}

		if n, ok := num[s]; ok {
			return n
		}

		return 999 // an id that no create of this history returned
	}

	items := make([]string, len(h))

	for i, e := range h {
		var op, out string

		switch e.Op.Kind {
		case "create":
			op = "KCreate 0"
		case "import":
			op = fmt.Sprintf("KImport %d %d", e.Op.ID, e.Op.M)
		default:
			op = fmt.Sprintf("KGet %d", idn(e.Op.Ref))
		}

		switch e.Out.Kind {
		case "id":
			out = fmt.Sprintf("KId %d", idn(e.Out.S))
		case "notfound":
			out = "KNotFound"
		case "mat":
			out = fmt.Sprintf("KMat %d", e.Out.V)
		default:
			out = "KErr"
		}

		items[i] = hrec(op, out, e)
	}

	return "HKms " + hx.CoqList(items) + " " + coqNats(w)
}

func hrec(op, out string, e Ev) string {
	o := "(Some (" + out + "))"
	if e.Pend {
		o = "None"
	}

	return fmt.Sprintf("mkH (%s) %s %d %d", op, o, e.Inv, e.Ret)
}

func genKMS(r *hx.Rng, c *Case, g, n int) {
	c.Threads = make([][]Op, g)

	for t := 0; t < g; t++ {
		for i := 0; i < n; i++ {
			switch x := r.Intn(10); {
			case x < 2:
				c.Threads[t] = append(c.Threads[t], Op{Kind: "create"})
			case x < 6:
				c.Threads[t] = append(c.Threads[t], Op{Kind: "import", ID: 1 + r.Intn(2), M: 1 + r.Intn(len(kmsKeys))})
			case x < 9:
				c.Threads[t] = append(c.Threads[t], Op{Kind: "kget", ID: 1 + r.Intn(2)})
			default:
				c.Threads[t] = append(c.Threads[t], Op{Kind: "kget", ID: 0})
			}
		}
	}
}

// ---------- wallet session manager ----------

type sessInst struct {
	m   *wallet.VerifSessionManager
	tok [16]map[int]string // per goroutine: token number -> token string (of its own successful creates)
}

func newSessInst(Case, *ctl) (Inst, error) {
	w := &sessInst{m: wallet.NewVerifSessionManager()}
	for i := range w.tok {
		w.tok[i] = map[int]string{}
	}

	return w, nil
}

func (w *sessInst) Close() {}

func (w *sessInst) Exec(g int, o *Op) Out {
	u := fmt.Sprintf("user-%d", o.U)

	switch o.Kind {
	case "screate":
		tok, err := w.m.Create(u, time.Hour)
		if err != nil {
			if err == wallet.ErrAlreadyUnlocked { //nolint:errorlint
				return Out{Kind: "already"}
			}

			return Out{Kind: "err", Err: err.Error()}
		}

		w.tok[g][o.M] = tok

		return Out{Kind: "token"}
	case "sclose":
		return Out{Kind: "closed", B: w.m.Close(u)}
	case "sget":
		// getSession with the token one of this goroutine's own creates returned (none: that create failed)
		tok := w.tok[g][o.M]
		if tok == "" {
			return Out{Kind: "invalid"}
		}

		if _, err := w.m.User(tok); err != nil {
			return Out{Kind: "invalid", Err: err.Error()}
		}

		return Out{Kind: "live"}
	}

	return Out{Kind: "err"}
}

type sessState struct{ m map[int]int } // user -> token number

func (s *sessState) Key() string {
	ks := make([]int, 0, len(s.m))
	for k := range s.m {
		ks = append(ks, k)
	}

	sort.Ints(ks)

	var b strings.Builder
	for _, k := range ks {
		fmt.Fprintf(&b, "%d:%d;", k, s.m[k])
	}

	return b.String()
}

type setState struct{ m map[int]bool }

func (s *setState) Key() string {
	ks := make([]int, 0, len(s.m))
	for k := range s.m {
		ks = append(ks, k)
	}

	sort.Ints(ks)

	return fmt.Sprint(ks)
}

func minInt(a, b int) int {
	if a < b {
		return a
	}

	return b
}

type sessModel struct{}

func (sessModel) Init() State { return &sessState{m: map[int]int{}} }

func (sessModel) Step(st State, o Op, got Out) (State, bool) {
	s, _ := st.(*sessState)
	cp := func(f func(m map[int]int)) *sessState {
		n := &sessState{m: map[int]int{}}
		for k, v := range s.m {
			n.m[k] = v
		}

		f(n.m)

		return n
	}

	_, live := s.m[o.U]

	switch o.Kind {
	case "screate":
		if live {
			return s, got.Kind == "already"
		}

		return cp(func(m map[int]int) { m[o.U] = o.M }), got.Kind == "token"
	case "sclose":
		if live {
			return cp(func(m map[int]int) { delete(m, o.U) }), got.Kind == "closed" && got.B
		}

		return s, got.Kind == "closed" && !got.B
	case "sget":
		for _, t := range s.m {
			if t == o.M {
				return s, got.Kind == "live"
			}
		}

		return s, got.Kind == "invalid"
	}

	return s, false
}

func coqSess(_ Case, h []Ev, w []int) string {
	items := make([]string, len(h))

	for i, e := range h {
		op := fmt.Sprintf("SCreate %d %d", e.Op.U, e.Op.M)

		switch e.Op.Kind {
		case "sclose":
			op = fmt.Sprintf("SClose %d", e.Op.U)
		case "sget":
			op = fmt.Sprintf("SGet %d", e.Op.M)
		}

		out := "SToken"

		switch e.Out.Kind {
		case "already":
			out = "SAlready"
		case "live":
			out = "SLive true"
		case "invalid":
			out = "SLive false"
		case "closed":
			out = "SClosed " + hx.CoqBool(e.Out.B)
		case "err":
			out = "SClosed false" // never produced by a correct manager: makes the case fail in Coq too
			if e.Op.Kind == "sclose" {
				out = "SToken"
			}
		}

		items[i] = hrec(op, out, e)
	}

	return "HSess " + hx.CoqList(items) + " " + coqNats(w)
}

func genSess(r *hx.Rng, c *Case, g, n int) {
	c.Threads = make([][]Op, g)
	tok := 0

	for t := 0; t < g; t++ {
		var mine []int

		for i := 0; i < n; i++ {
			k := []string{"screate", "screate", "sclose", "sclose", "sget", "sget", "sget"}[r.Intn(7)]
			if k == "sget" && len(mine) == 0 {
				k = "screate"
			}

			switch k {
			case "screate":
				tok++
				mine = append(mine, tok)
				c.Threads[t] = append(c.Threads[t], Op{Kind: k, U: 1 + r.Intn(2), M: tok})
			case "sclose":
				c.Threads[t] = append(c.Threads[t], Op{Kind: k, U: 1 + r.Intn(2)})
			default:
				c.Threads[t] = append(c.Threads[t], Op{Kind: k, M: mine[len(mine)-1-r.Intn(minInt(2, len(mine)))]})
			}
		}
	}
}

// ---------- service.Action registry (and service.Message alongside, unobserved) ----------

type regInst struct {
	a   service.Action
	m   service.Message
	chs []chan service.DIDCommAction
	ms  []chan service.StateMsg
}

func newRegInst(Case, *ctl) (Inst, error) {
	w := &regInst{}
	for i := 0; i < 3; i++ {
		w.chs = append(w.chs, make(chan service.DIDCommAction))
		w.ms = append(w.ms, make(chan service.StateMsg))
	}

	return w, nil
}

func (w *regInst) Close() {}

func (w *regInst) Exec(_ int, o *Op) Out {
	switch o.Kind {
	case "reg":
		_ = w.m.RegisterMsgEvent(w.ms[o.U-1])

		if err := w.a.RegisterActionEvent(w.chs[o.U-1]); err != nil {
			return Out{Kind: "err", Err: err.Error()}
		}

		return Out{Kind: "ok"}
	case "unreg":
		_ = w.m.UnregisterMsgEvent(w.ms[o.U-1])

		if err := w.a.UnregisterActionEvent(w.chs[o.U-1]); err != nil {
			return Out{Kind: "err", Err: err.Error()}
		}

		return Out{Kind: "ok"}
	case "rget":
		_ = w.m.MsgEvents()
		ch := w.a.ActionEvent()

		for i, c := range w.chs {
			if (chan<- service.DIDCommAction)(c) == ch {
				return Out{Kind: "chan", V: i + 1}
			}
		}

		if ch == nil {
			return Out{Kind: "chan", V: 0}
		}

		return Out{Kind: "chan", V: 77}
	}

	return Out{Kind: "err"}
}

type intState int

func (s intState) Key() string { return strconv.Itoa(int(s)) }

type regModel struct{}

func (regModel) Init() State { return intState(0) }

func (regModel) Step(st State, o Op, got Out) (State, bool) {
	s, _ := st.(intState)

	switch o.Kind {
	case "reg":
		if s == 0 {
			return intState(o.U), got.Kind == "ok"
		}

		return s, got.Kind == "err"
	case "unreg":
		if int(s) == o.U {
			return intState(0), got.Kind == "ok"
		}

		return s, got.Kind == "err"
	case "rget":
		return s, got.Kind == "chan" && got.V == int(s)
	}

	return s, false
}

func coqReg(_ Case, h []Ev, w []int) string {
	items := make([]string, len(h))

	for i, e := range h {
		op := "RGet"

		switch e.Op.Kind {
		case "reg":
			op = fmt.Sprintf("RReg %d", e.Op.U)
		case "unreg":
			op = fmt.Sprintf("RUnreg %d", e.Op.U)
		}

		out := "RErr"

		switch e.Out.Kind {
		case "ok":
			out = "ROk"
		case "chan":
			out = fmt.Sprintf("RChan %d", e.Out.V)
		}

		items[i] = hrec(op, out, e)
	}

	return "HReg " + hx.CoqList(items) + " " + coqNats(w)
}

func genReg(r *hx.Rng, c *Case, g, n int) {
	c.Threads = make([][]Op, g)

	for t := 0; t < g; t++ {
		for i := 0; i < n; i++ {
			k := []string{"reg", "reg", "unreg", "rget", "rget"}[r.Intn(5)]
			c.Threads[t] = append(c.Threads[t], Op{Kind: k, U: 1 + r.Intn(2)})
		}
	}
}

// ---------- service.Message registry: register / unregister / deliver a state message to every subscriber ----------

type msgInst struct {
	m   service.Message
	ct  *ctl
	chs []chan service.StateMsg
}

func newMsgInst(_ Case, ct *ctl) (Inst, error) {
	w := &msgInst{ct: ct}
	for i := 0; i < 4; i++ {
		w.chs = append(w.chs, make(chan service.StateMsg, 256))
	}

	return w, nil
}

func (w *msgInst) Close() {}

func (w *msgInst) Exec(_ int, o *Op) Out {
	switch o.Kind {
	case "mreg":
		if err := w.m.RegisterMsgEvent(w.chs[o.U-1]); err != nil {
			return Out{Kind: "err", Err: err.Error()}
		}

		return Out{Kind: "ok"}
	case "munreg":
		if err := w.m.UnregisterMsgEvent(w.chs[o.U-1]); err != nil {
			return Out{Kind: "err", Err: err.Error()}
		}

		return Out{Kind: "ok"}
	case "deliver":
		// what every protocol service does with a state message (e.g. didexchange sendMsgEvents)
		served := []int{}

		for _, handler := range w.m.MsgEvents() {
			w.ct.point(true) // the service does work between two sends (stress: yields; forced: park point)

			id := 77

			for i, c := range w.chs {
				if (chan<- service.StateMsg)(c) == handler {
					id = i + 1
				}
			}

			select {
			case handler <- service.StateMsg{}:
			default:
			}

			served = append(served, id)
		}

		return Out{Kind: "served", Vs: served}
	}

	return Out{Kind: "err"}
}

type listState struct{ l []int }

func (s *listState) Key() string { return fmt.Sprint(s.l) }

type msgModel struct{}

func (msgModel) Init() State { return &listState{} }

func (msgModel) Step(st State, o Op, got Out) (State, bool) {
	s, _ := st.(*listState)

	switch o.Kind {
	case "mreg":
		return &listState{l: append(append([]int{}, s.l...), o.U)}, got.Kind == "ok"
	case "munreg":
		n := &listState{}

		for _, x := range s.l {
			if x != o.U {
				n.l = append(n.l, x)
			}
		}

		return n, got.Kind == "ok"
	case "deliver":
		return s, got.Kind == "served" && eqInts(got.Vs, s.l)
	}

	return s, false
}

func coqMsg(_ Case, h []Ev, w []int) string {
	items := make([]string, len(h))

	for i, e := range h {
		op := "MDeliver"

		switch e.Op.Kind {
		case "mreg":
			op = fmt.Sprintf("MReg %d", e.Op.U)
		case "munreg":
			op = fmt.Sprintf("MUnreg %d", e.Op.U)
		}

		out := "MOk"
		if e.Out.Kind == "served" {
			out = "MList " + coqNs(e.Out.Vs)
		} else if e.Out.Kind != "ok" {
			out = "MList [7777]" // an error: no specification step of Reg/Unreg produces a list
		}

		items[i] = hrec(op, out, e)
	}

	return "HMsg " + hx.CoqList(items) + " " + coqNats(w)
}

func genMsg(r *hx.Rng, c *Case, g, n int) {
	c.Threads = make([][]Op, g)

	for t := 0; t < g; t++ {
		for i := 0; i < n; i++ {
			k := []string{"mreg", "mreg", "munreg", "munreg", "deliver", "deliver", "deliver"}[r.Intn(7)]
			c.Threads[t] = append(c.Threads[t], Op{Kind: k, U: 1 + r.Intn(4)})
		}
	}
}

// ---------- DID store (pkg/store/did): a name may be given to one DID only ----------

type didInst struct{ s *didstore.Store }

func newDIDInst(_ Case, ct *ctl) (Inst, error) {
	s, err := didstore.New(&mockprovider.Provider{StorageProviderValue: &yProvider{inner: mem.NewProvider(), c: ct}})
	if err != nil {
		return nil, err
	}

	return &didInst{s: s}, nil
}

func (w *didInst) Close() {}

func (w *didInst) Exec(_ int, o *Op) (out Out) {
	defer func() {
		if r := recover(); r != nil {
			out = Out{Kind: "panic", Err: fmt.Sprint(r)}
		}
	}()

	name := fmt.Sprintf("name-%d", o.ID)

	switch o.Kind {
	case "dsave":
		doc := &diddoc.Doc{Context: []string{diddoc.ContextV1}, ID: fmt.Sprintf("did:example:%d", o.M)}
		if err := w.s.SaveDID(name, doc); err != nil {
			return Out{Kind: "err", Err: err.Error()}
		}

		return Out{Kind: "id", S: impID(o.ID)}
	case "dbyname":
		id, err := w.s.GetDIDByName(name)
		if err != nil {
			if errors.Is(err, spi.ErrDataNotFound) {
				return Out{Kind: "notfound"}
			}

			return Out{Kind: "err", Err: err.Error()}
		}

		var m int
		if n, _ := fmt.Sscanf(id, "did:example:%d", &m); n != 1 {
			m = 77
		}

		return Out{Kind: "mat", V: m}
	}

	return Out{Kind: "err"}
}

// ---------- wallet content store: safeSave stores only when the key is absent ----------

type wcontInst struct{ v *wallet.VerifContents }

var wcontSeq int //nolint:gochecknoglobals

func newWContInst(_ Case, ct *ctl) (Inst, error) {
	wcontSeq++

	v, err := wallet.NewVerifContents(&yProvider{inner: mem.NewProvider(), c: ct}, fmt.Sprintf("c13-profile-%d-%d", os.Getpid(), wcontSeq))
	if err != nil {
		return nil, err
	}

	return &wcontInst{v: v}, nil
}

func (w *wcontInst) Close() { w.v.Close() }

func (w *wcontInst) Exec(_ int, o *Op) (out Out) {
	defer func() {
		if r := recover(); r != nil {
			out = Out{Kind: "panic", Err: fmt.Sprint(r)}
		}
	}()

	key := fmt.Sprintf("content-%d", o.ID)

	switch o.Kind {
	case "dsave":
		if err := w.v.SafeSave(key, []byte(fmt.Sprintf("c%d", o.M))); err != nil {
			return Out{Kind: "err", Err: err.Error()}
		}

		return Out{Kind: "id", S: impID(o.ID)}
	case "dbyname":
		b, err := w.v.Get(key)
		if err != nil {
			if errors.Is(err, spi.ErrDataNotFound) {
				return Out{Kind: "notfound"}
			}

			return Out{Kind: "err", Err: err.Error()}
		}

		var m int
		if n, _ := fmt.Sscanf(string(b), "c%d", &m); n != 1 {
			m = 77
		}

		return Out{Kind: "mat", V: m}
	}

	return Out{Kind: "err"}
}

// the DID store is the key manager's specification with other names: save = import with a requested id
type didModel struct{ kmsModel }

func (d didModel) Step(st State, o Op, got Out) (State, bool) {
	k := Op{Kind: "import", ID: o.ID, M: o.M}
	if o.Kind == "dbyname" {
		k = Op{Kind: "kget", ID: o.ID, Ref: impID(o.ID)}
	}

	return d.kmsModel.Step(st, k, got)
}

func coqDID(c Case, h []Ev, w []int) string {
	hh := make([]Ev, len(h))
	for i, e := range h {
		hh[i] = e
		if e.Op.Kind == "dsave" {
			hh[i].Op.Kind = "import"
		} else {
			hh[i].Op.Kind, hh[i].Op.Ref = "kget", impID(e.Op.ID)
		}
	}

	return coqKMS(c, hh, w)
}

func genDID(r *hx.Rng, c *Case, g, n int) {
	c.Threads = make([][]Op, g)
	m := 0

	for t := 0; t < g; t++ {
		for i := 0; i < n; i++ {
			m++

			if r.Intn(5) < 3 {
				c.Threads[t] = append(c.Threads[t], Op{Kind: "dsave", ID: 1 + r.Intn(2), M: m})
			} else {
				c.Threads[t] = append(c.Threads[t], Op{Kind: "dbyname", ID: 1 + r.Intn(2)})
			}
		}
	}
}

// ---------- provider level: OpenStore / SetStoreConfig / GetStoreConfig / GetOpenStores + operations through handles ----------

type provInst struct {
	top     spi.Provider
	handles [16]map[int]spi.Store // per goroutine: name -> the handle ITS OpenStore returned

	mu     sync.Mutex
	names  map[spi.Store]int // every handle any OpenStore returned (to name the stores GetOpenStores returns)
	order  []spi.Store       // ... in registration order
	closed map[spi.Store]bool // handle invalidation: set when Store.Close / Provider.Close on it HAS RETURNED
	// ambiguous: handles registered while a Provider.Close was running: nobody can tell whether that Close closed them
	ambiguous map[spi.Store]bool
	closing   int
}

func newProvInst(c Case, ct *ctl) (Inst, error) {
	p, err := buildProvider(c.Stack, ct)
	if err != nil {
		return nil, err
	}

	w := &provInst{top: p, names: map[spi.Store]int{}, closed: map[spi.Store]bool{}, ambiguous: map[spi.Store]bool{}}
	for i := range w.handles {
		w.handles[i] = map[int]spi.Store{}
	}

	return w, nil
}

func (w *provInst) Close() { _ = w.top.Close() }

func provName(n int, upper bool) string {
	if upper {
		return fmt.Sprintf("ST%d", n)
	}

	return fmt.Sprintf("st%d", n)
}

func perr(err error) Out {
	switch {
	case err == nil:
		return Out{Kind: "done"}
	case errors.Is(err, spi.ErrStoreNotFound):
		return Out{Kind: "nostore", Err: err.Error()}
	case errors.Is(err, spi.ErrDataNotFound):
		return Out{Kind: "notfound", Err: err.Error()}
	}

	return Out{Kind: "err", Err: err.Error()}
}

// handleFor: the handle of goroutine owner-1 for the name (owner 0 = the caller's own) if it is still valid, else the
// valid handle for the name registered last, else nil. A handle is invalid once a Store.Close on it (or a
// Provider.Close) has returned: an operation invoked while the close runs may still use it (closing or closed store
// object) and is ordered before the close.
func (w *provInst) handleFor(g, owner, n int) spi.Store {
	if owner > 0 {
		g = owner - 1
	}

	w.mu.Lock()
	defer w.mu.Unlock()

	if h := w.handles[g][n]; h != nil && !w.closed[h] {
		return h
	}

	for i := len(w.order) - 1; i >= 0; i-- {
		if h := w.order[i]; w.names[h] == n && !w.closed[h] {
			return h
		}
	}

	return nil
}

func (w *provInst) isAmbiguous(h spi.Store) bool {
	w.mu.Lock()
	defer w.mu.Unlock()

	return w.ambiguous[h]
}

func (w *provInst) Exec(g int, o *Op) (out Out) {
	defer func() {
		if r := recover(); r != nil {
			out = Out{Kind: "panic", Err: fmt.Sprint(r)}
		}
	}()

	name := provName(o.U, o.K == 9)

	switch o.Kind {
	case "popen":
		h, err := w.top.OpenStore(name)
		if err != nil {
			return perr(err)
		}

		w.mu.Lock()
		w.handles[g][o.U] = h
		if _, known := w.names[h]; !known {
			w.order = append(w.order, h)
		}

		w.names[h] = o.U
		if w.closing > 0 {
			w.ambiguous[h] = true
		}
		w.mu.Unlock()

		return Out{Kind: "done"}
	case "psclose":
		h := w.handleFor(g, o.ID, o.U)
		if h == nil {
			return Out{Kind: "done"} // nothing open under that name
		}

		// While the Close is running the handle stays usable: an operation invoked meanwhile overlaps the close and is
		// ordered before it (on the in-memory stores a closed store object keeps answering from the data it had). Once
		// Close has returned the handle is invalid.
		err := h.Close()

		w.mu.Lock()
		w.closed[h] = true
		w.mu.Unlock()

		return perr(err)
	case "pclose":
		// handles registered before the Close starts: usable while it runs (overlap), invalid once it has returned;
		// handles registered while it runs: nobody can tell whether the Close closed them (ambiguous, no verdict)
		w.mu.Lock()
		w.closing++
		before := append([]spi.Store{}, w.order...)
		w.mu.Unlock()

		err := w.top.Close()

		// an OpenStore that was in progress when Close started may register its handle only now: wait a moment
		time.Sleep(2 * time.Millisecond)

		w.mu.Lock()
		w.closing--
		for _, h := range before {
			w.closed[h] = true
		}
		w.mu.Unlock()

		return perr(err)
	case "psetcfg":
		tn := make([]string, len(o.Ks))
		for i, t := range o.Ks {
			tn[i] = nameStr(t)
		}

		return perr(w.top.SetStoreConfig(name, spi.StoreConfiguration{TagNames: tn}))
	case "pgetcfg":
		cfg, err := w.top.GetStoreConfig(name)
		if err != nil {
			return perr(err)
		}

		ns := make([]int, len(cfg.TagNames))
		for i, t := range cfg.TagNames {
			ns[i] = nameNum(t)
		}

		return Out{Kind: "cfg", Vs: ns}
	case "pgetopen":
		open := w.top.GetOpenStores()
		seen := map[int]bool{}

		for _, s := range open {
			// the opener registers its handle right after OpenStore returned: wait for it (inside this operation)
			n, ok := 0, false
			for try := 0; try < 2000 && !ok; try++ {
				w.mu.Lock()
				n, ok = w.names[s]
				w.mu.Unlock()

				if !ok {
					time.Sleep(500 * time.Microsecond)
				}
			}

			if !ok {
				return Out{Kind: "unknown", Err: "GetOpenStores returned a store that no OpenStore call returned"}
			}

			seen[n] = true
		}

		ns := []int{}
		for n := range seen {
			ns = append(ns, n)
		}

		sort.Ints(ns)

		if len(ns) != len(open) {
			return Out{Kind: "err", Err: fmt.Sprintf("GetOpenStores returned %d store objects for the names %v", len(open), ns)}
		}

		return Out{Kind: "open", Vs: ns}
	case "pput":
		h := w.handleFor(g, o.ID, o.U)
		if h == nil {
			return Out{Kind: "err", Err: "no handle"}
		}

		if w.isAmbiguous(h) {
			return Out{Kind: "unknown", Err: "handle obtained while Provider.Close was running"}
		}

		return perr(h.Put(keyStr(o.K), valBytes(o.V)))
	case "pget":
		h := w.handleFor(g, o.ID, o.U)
		if h == nil {
			return Out{Kind: "err", Err: "no handle"}
		}

		if w.isAmbiguous(h) {
			return Out{Kind: "unknown", Err: "handle obtained while Provider.Close was running"}
		}

		v, err := h.Get(keyStr(o.K))
		if err != nil {
			return perr(err)
		}

		return Out{Kind: "val", V: valNum(v)}
	}

	return Out{Kind: "err", Err: "unknown op"}
}

type pstoreState struct {
	data map[int]int
	cfg  []int
}

type provState struct{ m map[int]pstoreState }

func (s *provState) Key() string {
	ks := make([]int, 0, len(s.m))
	for k := range s.m {
		ks = append(ks, k)
	}

	sort.Ints(ks)

	var b strings.Builder

	for _, k := range ks {
		ds := make([]int, 0)
		for d := range s.m[k].data {
			ds = append(ds, d)
		}

		sort.Ints(ds)
		fmt.Fprintf(&b, "%d:%v:", k, s.m[k].cfg)

		for _, d := range ds {
			fmt.Fprintf(&b, "%d=%d,", d, s.m[k].data[d])
		}

		b.WriteString(";")
	}

	return b.String()
}

func (s *provState) with(n int, f func(st *pstoreState)) *provState {
	r := &provState{m: map[int]pstoreState{}}

	for k, v := range s.m {
		d := map[int]int{}
		for a, b := range v.data {
			d[a] = b
		}

		r.m[k] = pstoreState{data: d, cfg: append([]int{}, v.cfg...)}
	}

	st, ok := r.m[n]
	if !ok {
		st = pstoreState{data: map[int]int{}, cfg: []int{}}
	}

	f(&st)
	r.m[n] = st

	return r
}

type provModel struct{}

func (provModel) Init() State { return &provState{m: map[int]pstoreState{}} }

func (provModel) Step(st State, o Op, got Out) (State, bool) {
	s, _ := st.(*provState)
	cur, open := s.m[o.U]

	switch o.Kind {
	case "popen":
		return s.with(o.U, func(*pstoreState) {}), got.Kind == "done"
	case "psetcfg":
		if !open {
			return s, got.Kind == "nostore"
		}

		return s.with(o.U, func(x *pstoreState) { x.cfg = append([]int{}, o.Ks...) }), got.Kind == "done"
	case "pgetcfg":
		if !open {
			return s, got.Kind == "nostore"
		}

		return s, got.Kind == "cfg" && eqInts(got.Vs, cur.cfg)
	case "psclose":
		if !open {
			return s, got.Kind == "done"
		}

		n := &provState{m: map[int]pstoreState{}}
		for k, v := range s.m {
			if k != o.U {
				n.m[k] = v
			}
		}

		return n, got.Kind == "done"
	case "pclose":
		return &provState{m: map[int]pstoreState{}}, got.Kind == "done"
	case "pgetopen":
		ns := []int{}
		for n := range s.m {
			ns = append(ns, n)
		}

		sort.Ints(ns)

		return s, got.Kind == "open" && eqInts(got.Vs, ns)
	case "pput":
		if !open {
			return s, got.Kind == "err"
		}

		return s.with(o.U, func(x *pstoreState) { x.data[o.K] = o.V }), got.Kind == "done"
	case "pget":
		if !open {
			return s, got.Kind == "err"
		}

		v, ok := cur.data[o.K]
		if !ok {
			return s, got.Kind == "notfound"
		}

		return s, got.Kind == "val" && got.V == v
	}

	return s, false
}

func coqProv(_ Case, h []Ev, w []int) string {
	items := make([]string, len(h))

	for i, e := range h {
		var op string

		switch e.Op.Kind {
		case "popen":
			op = fmt.Sprintf("POpen %d", e.Op.U)
		case "psetcfg":
			op = fmt.Sprintf("PSetCfg %d %s", e.Op.U, coqNs(e.Op.Ks))
		case "pgetcfg":
			op = fmt.Sprintf("PGetCfg %d", e.Op.U)
		case "pgetopen":
			op = "PGetOpen"
		case "psclose":
			op = fmt.Sprintf("PStoreClose %d", e.Op.U)
		case "pclose":
			op = "PClose"
		case "pput":
			op = fmt.Sprintf("PStore %d (Put %d %d [])", e.Op.U, e.Op.K, e.Op.V)
		default:
			op = fmt.Sprintf("PStore %d (Get %d)", e.Op.U, e.Op.K)
		}

		isStore := e.Op.Kind == "pput" || e.Op.Kind == "pget"

		out := "PErr"

		switch e.Out.Kind {
		case "done":
			out = "PDone"
			if isStore {
				out = "POut ODone"
			}
		case "nostore":
			out = "PNoStore"
		case "notfound":
			out = "POut ONotFound"
		case "cfg":
			out = "PCfg " + coqNs(e.Out.Vs)
		case "open":
			out = "POpenSet " + coqNs(e.Out.Vs)
		case "val":
			out = fmt.Sprintf("POut (OVal %d)", e.Out.V)
		}

		items[i] = hrec(op, out, e)
	}

	return "HProv " + hx.CoqList(items) + " " + coqNats(w)
}

// restricted: formatting providers keep the configuration in a side store (it shows up in GetOpenStores, and
// GetStoreConfig before any SetStoreConfig is an error): those two operations are left out for them
func provRestricted(st Stack) bool {
	if st.Base == "leveldb" {
		return true // GetStoreConfig before any SetStoreConfig is an error there
	}

	for _, w := range st.Wraps {
		if w.Kind == "fmt" {
			return true
		}
	}

	return false
}

func genProv(r *hx.Rng, c *Case, g, n int) {
	c.Threads = make([][]Op, g)
	v := 0

	for t := 0; t < g; t++ {
		first := 1 + r.Intn(2)
		opened := []int{first}
		c.Threads[t] = append(c.Threads[t], Op{Kind: "popen", U: first, K: 9 * r.Intn(2)})

		for i := 1; i < n; i++ {
			v++
			mine := opened[r.Intn(len(opened))]

			switch x := r.Intn(12); {
			case x < 2:
				nn := 1 + r.Intn(2)
				opened = append(opened, nn)
				c.Threads[t] = append(c.Threads[t], Op{Kind: "popen", U: nn, K: 9 * r.Intn(2)})
			case x < 3:
				c.Threads[t] = append(c.Threads[t], Op{Kind: "psetcfg", U: 1 + r.Intn(2), Ks: []int{1 + r.Intn(2)}})
			case x < 4 && !provRestricted(c.Stack):
				c.Threads[t] = append(c.Threads[t], Op{Kind: "pgetcfg", U: 1 + r.Intn(2)})
			case x < 5 && !provRestricted(c.Stack):
				c.Threads[t] = append(c.Threads[t], Op{Kind: "pgetopen"})
			case false && x < 6 && c.Stack.Base == "" && len(c.Stack.Wraps) == 0 && r.Intn(3) > 0:
				// DISABLED in the free-running stress: after a close another goroutine may have re-opened the name while
				// the harness does not hold that handle yet, so "no valid handle" cannot be projected to the
				// specification's "store not open" soundly (false alarms in the thorough tier). Close operations are
				// checked in the forced overlaps and sequentially; freely interleaved closes stay in the race-only churn.
				// Store.Close through a handle (or, rarely, Provider.Close): afterwards the name is not open until reopened.
				// Freely interleaved only on the bare in-memory provider, whose Close is one locked step; a wrapper's
				// Store.Close (forget the store, flush, close the store below) overlapping an OpenStore of the SAME name
				// hands out a store that is being closed — on wrappers close operations run in the forced overlaps
				// (other name / whole provider) and sequentially.
				if r.Intn(6) == 0 {
					c.Threads[t] = append(c.Threads[t], Op{Kind: "pclose"})
				} else {
					c.Threads[t] = append(c.Threads[t], Op{Kind: "psclose", U: mine})
				}
			case x < 9:
				c.Threads[t] = append(c.Threads[t], Op{Kind: "pput", U: mine, K: 1 + r.Intn(2), V: v})
			default:
				c.Threads[t] = append(c.Threads[t], Op{Kind: "pget", U: mine, K: 1 + r.Intn(2)})
			}
		}
	}
}

func provStacks() []Stack {
	return []Stack{
		{Raw: true},
		{Base: "leveldb", Raw: true},
		{Wraps: []Wrap{{Kind: "cached"}}},
		{Wraps: []Wrap{{Kind: "batched", Limit: 3}}},
		{Wraps: []Wrap{{Kind: "batched", Limit: 1}}},
		{Wraps: []Wrap{{Kind: "fmt", Fmt: "b64det"}}},
		{Wraps: []Wrap{{Kind: "batched", Limit: 2}, {Kind: "cached"}}},
		{Wraps: []Wrap{{Kind: "cached"}, {Kind: "batched", Limit: 4}}},
	}
}

// ---------- mediator inbox (message pickup) ----------

type inboxInst struct {
	svc  *messagepickup.Service
	ct   *ctl
	mu   sync.Mutex
	sent map[string]map[string]interface{}
	fail map[string]bool
	seq  []int
}

var errInjectedSend = errors.New("verif: injected send failure") //nolint:gochecknoglobals

func didName(d int) string { return fmt.Sprintf("did:example:r%d", d) }

func newInboxInst(_ Case, ct *ctl) (Inst, error) {
	w := &inboxInst{ct: ct, sent: map[string]map[string]interface{}{}, fail: map[string]bool{}, seq: make([]int, 16)}

	out := &mockdispatcher.MockOutbound{ValidateSendToDID: func(msg interface{}, myDID, theirDID string) error {
		b, _ := json.Marshal(msg)
		m := map[string]interface{}{}
		_ = json.Unmarshal(b, &m)

		id, _ := m["@id"].(string)

		w.mu.Lock()
		w.sent[id] = m
		fail := w.fail[id]
		w.mu.Unlock()

		// forced overlap: the operation is parked INSIDE its outbound send (park point -2)
		ct.parkSend()

		if fail {
			return errInjectedSend
		}

		return nil
	}}

	svc, err := messagepickup.New(&mockprovider.Provider{
		StorageProviderValue:              &yProvider{inner: mem.NewProvider(), c: ct},
		ProtocolStateStorageProviderValue: mem.NewProvider(),
		OutboundDispatcherValue:           out,
	})
	if err != nil {
		return nil, err
	}

	w.svc = svc

	return w, nil
}

func (w *inboxInst) Close() {}

func (w *inboxInst) Exec(g int, o *Op) (out Out) {
	defer func() {
		if r := recover(); r != nil {
			out = Out{Kind: "panic", Err: fmt.Sprint(r)}
		}
	}()

	if o.Kind == "add" {
		if err := w.svc.AddMessage([]byte(fmt.Sprintf("m%d", o.M)), didName(o.U)); err != nil {
			return Out{Kind: "err", Err: err.Error()}
		}

		return Out{Kind: "added"}
	}

	w.seq[g]++
	id := fmt.Sprintf("req-%d-%d", g, w.seq[g])
	m := map[string]interface{}{"@id": id, "~thread": map[string]interface{}{"thid": id}}

	if o.Kind == "pickupf" {
		w.mu.Lock()
		w.fail[id] = true
		w.mu.Unlock()
	}

	if o.Kind == "status" {
		m["@type"] = messagepickup.StatusRequestMsgType
	} else {
		m["@type"] = messagepickup.BatchPickupMsgType
		m["batch_size"] = o.N
	}

	b, _ := json.Marshal(m)

	msg, err := service.ParseDIDCommMsgMap(b)
	if err != nil {
		return Out{Kind: "err", Err: err.Error()}
	}

	herr := w.svc.VerifHandleSync(msg, "did:example:mediator", didName(o.U))

	w.mu.Lock()
	s := w.sent[id]
	w.mu.Unlock()

	if herr != nil && (s == nil || !errors.Is(herr, errInjectedSend)) {
		return Out{Kind: "err", Err: herr.Error()}
	}

	if s == nil {
		return Out{Kind: "err", Err: "nothing was handed to the dispatcher"}
	}

	switch s["@type"] {
	case messagepickup.StatusMsgType:
		c, _ := s["message_count"].(float64)

		return Out{Kind: "count", V: int(c)}
	case messagepickup.BatchMsgType:
		ms := []int{}

		att, _ := s["messages~attach"].([]interface{})
		for _, a := range att {
			am, _ := a.(map[string]interface{})
			b64, _ := am["msg"].(string)

			var raw []byte
			_ = json.Unmarshal([]byte(strconv.Quote(b64)), &raw)

			n, err := strconv.Atoi(strings.TrimPrefix(string(raw), "m"))
			if err != nil {
				n = 77
			}

			ms = append(ms, n)
		}

		if herr != nil {
			return Out{Kind: "batchfail", Vs: ms}
		}

		return Out{Kind: "batch", Vs: ms}
	}

	return Out{Kind: "err", Err: "unexpected reply"}
}

type inboxState struct{ m map[int][]int }

func (s *inboxState) Key() string {
	ks := make([]int, 0, len(s.m))
	for k := range s.m {
		ks = append(ks, k)
	}

	sort.Ints(ks)

	var b strings.Builder
	for _, k := range ks {
		fmt.Fprintf(&b, "%d:%v;", k, s.m[k])
	}

	return b.String()
}

type inboxModel struct{}

func (inboxModel) Init() State { return &inboxState{m: map[int][]int{}} }

func (inboxModel) Step(st State, o Op, got Out) (State, bool) {
	s, _ := st.(*inboxState)
	set := func(d int, l []int) *inboxState {
		n := &inboxState{m: map[int][]int{}}
		for k, v := range s.m {
			n.m[k] = v
		}

		n.m[d] = l

		return n
	}

	cur, present := s.m[o.U]

	switch o.Kind {
	case "add":
		return set(o.U, append(append([]int{}, cur...), o.M)), got.Kind == "added"
	case "status":
		if !present {
			return s, got.Kind == "err"
		}

		return s, got.Kind == "count" && got.V == len(cur)
	case "pickupf":
		if !present {
			return s, got.Kind == "err"
		}

		n := o.N
		if n > len(cur) {
			n = len(cur)
		}

		return s, got.Kind == "batchfail" && eqInts(got.Vs, cur[:n])
	case "pickup":
		if !present {
			return s, got.Kind == "err"
		}

		n := o.N
		if n > len(cur) {
			n = len(cur)
		}

		return set(o.U, append([]int{}, cur[n:]...)), got.Kind == "batch" && eqInts(got.Vs, cur[:n])
	}

	return s, false
}

func coqInbox(_ Case, h []Ev, w []int) string {
	items := make([]string, len(h))

	for i, e := range h {
		var op string

		switch e.Op.Kind {
		case "add":
			op = fmt.Sprintf("IAdd %d %d", e.Op.U, e.Op.M)
		case "status":
			op = fmt.Sprintf("IStatus %d", e.Op.U)
		case "pickupf":
			op = fmt.Sprintf("IPickupFail %d %d%%nat", e.Op.U, e.Op.N)
		default:
			op = fmt.Sprintf("IPickup %d %d%%nat", e.Op.U, e.Op.N)
		}

		out := "IErr"

		switch e.Out.Kind {
		case "added":
			out = "IAdded"
		case "count":
			out = fmt.Sprintf("ICount %d%%nat", e.Out.V)
		case "batch":
			out = "IBatch " + coqNs(e.Out.Vs)
		case "batchfail":
			out = "IBatchFail " + coqNs(e.Out.Vs)
		}

		items[i] = hrec(op, out, e)
	}

	return "HInbox " + hx.CoqList(items) + " " + coqNats(w)
}

func genInbox(r *hx.Rng, c *Case, g, n int) {
	c.Threads = make([][]Op, g)
	msg := 0

	for t := 0; t < g; t++ {
		for i := 0; i < n; i++ {
			d := 1
			if r.Intn(4) == 0 {
				d = 2
			}

			switch x := r.Intn(10); {
			case x < 5:
				msg++
				c.Threads[t] = append(c.Threads[t], Op{Kind: "add", U: d, M: msg})
			case x < 7:
				c.Threads[t] = append(c.Threads[t], Op{Kind: "status", U: d})
			case x < 8:
				c.Threads[t] = append(c.Threads[t], Op{Kind: "pickupf", U: d, N: 1 + r.Intn(3)})
			default:
				c.Threads[t] = append(c.Threads[t], Op{Kind: "pickup", U: d, N: 1 + r.Intn(3)})
			}
		}
	}
}

// ---------- websocket connection pool: add / fetch / remove of one agent's pool (checked), obtained through the
// process-wide registry by every operation (two agents' pools are created concurrently: "pool" churn, races only) ----------

type poolInst struct {
	n       int
	checked bool
}

type poolProv struct {
	mockprovider.Provider
	id string
}

func (p *poolProv) AriesFrameworkID() string { return p.id }

//nolint:gochecknoglobals
var poolSeq int

func (w *poolInst) Close() {}

func (w *poolInst) Exec(g int, o *Op) Out {
	k := fmt.Sprintf("key-%d", o.U)
	agent := g % 2

	if w.checked {
		agent = 0
	}

	// two agents of one process (framework ids differ) obtain their pools concurrently
	p := ws.VerifGetConnPool(&poolProv{id: fmt.Sprintf("c13-pool-%d-%d", w.n, agent)})

	switch o.Kind {
	case "reg":
		p.AddConn(k)
	case "unreg":
		p.Remove(k)
	default:
		return Out{Kind: "present", B: p.FetchConn(k)}
	}

	return Out{Kind: "ok"}
}

type poolModel struct{}

func (poolModel) Init() State { return &setState{m: map[int]bool{}} }

func (poolModel) Step(st State, o Op, got Out) (State, bool) {
	s, _ := st.(*setState)

	switch o.Kind {
	case "reg", "unreg":
		n := &setState{m: map[int]bool{}}
		for k, v := range s.m {
			if v {
				n.m[k] = true
			}
		}

		if o.Kind == "reg" {
			n.m[o.U] = true
		} else {
			delete(n.m, o.U)
		}

		return n, got.Kind == "ok"
	default:
		return s, got.Kind == "present" && got.B == s.m[o.U]
	}
}

func coqPool(_ Case, h []Ev, w []int) string {
	items := make([]string, len(h))

	for i, e := range h {
		op, out := fmt.Sprintf("WFetch %d", e.Op.U), "WOk"

		switch e.Op.Kind {
		case "reg":
			op = fmt.Sprintf("WAdd %d", e.Op.U)
		case "unreg":
			op = fmt.Sprintf("WRemove %d", e.Op.U)
		}

		if e.Out.Kind == "present" {
			out = fmt.Sprintf("WPresent %v", e.Out.B)
		}

		items[i] = hrec(op, out, e)
	}

	return "HPool " + hx.CoqList(items) + " " + coqNats(w)
}

// ---------- storage providers: open / configure / close stores concurrently (race / deadlock observation only) ----------

type churnInst struct{ s *storeInst }

func (w *churnInst) Close() { w.s.Close() }

func (w *churnInst) Exec(_ int, o *Op) (out Out) {
	defer func() {
		if r := recover(); r != nil {
			out = Out{Kind: "panic", Err: fmt.Sprint(r)}
		}
	}()

	name := fmt.Sprintf("t%d", o.U)
	p := w.s.top

	switch o.Kind {
	case "open":
		st, err := p.OpenStore(name)
		if err != nil {
			return errOut(err)
		}

		_ = st.Put("k1", []byte("v"))
	case "setcfg":
		_ = p.SetStoreConfig(name, spiConfig(o.K))
	case "getcfg":
		_, _ = p.GetStoreConfig(name)
	case "stores":
		_ = p.GetOpenStores()
	case "closestore":
		st, err := p.OpenStore(name)
		if err != nil {
			return errOut(err)
		}

		_ = st.Close()
	default:
		return w.s.Exec(0, o)
	}

	return Out{Kind: "ok"}
}

func genChurn(r *hx.Rng, c *Case, g, n int) {
	c.Threads = make([][]Op, g)
	v := 0

	for t := 0; t < g; t++ {
		for i := 0; i < n; i++ {
			v++

			kinds := []string{"open", "setcfg", "getcfg", "getcfg", "stores", "closestore", "put", "get"}
			if c.Stack.Base == "leveldb" {
				// closing a goleveldb database while another goroutine reads it races INSIDE goleveldb (its table cache:
				// race report and a nil-interface panic, seen once in 20 seeds): third-party code, outside the property
				kinds = []string{"open", "setcfg", "getcfg", "getcfg", "stores", "put", "get"}
			}
			k := kinds[r.Intn(len(kinds))]
			c.Threads[t] = append(c.Threads[t], Op{Kind: k, U: 1 + r.Intn(2), K: 1 + r.Intn(2), V: v})
		}
	}
}

func components() map[string]*Comp {
	return map[string]*Comp{
		"store": {
			Name: "store", Forced: true,
			New:   func(c Case, ct *ctl) (Inst, error) { return newStoreInst(c.Stack, ct) },
			Model: func(Case) Model { return kvModel{} },
			Gen: func(r *hx.Rng, c *Case, g, n int) {
				c.Threads = make([][]Op, g)
				v := 0

				for t := 0; t < g; t++ {
					for i := 0; i < n; i++ {
						v++
						c.Threads[t] = append(c.Threads[t], genStoreOp(r, c.Stack, v))
					}
				}
			},
			Coq: func(c Case, h []Ev, w []int) string {
				items := make([]string, len(h))
				for i, e := range h {
					items[i] = hrec(coqStoreOp(e.Op), coqStoreOut(e.Out), e)
				}

				return "HStore " + c.Stack.coq() + " " + hx.CoqList(items) + " " + coqNats(w)
			},
		},
		"churn": {
			Name: "churn", NoLin: true,
			New: func(c Case, ct *ctl) (Inst, error) {
				s, err := newStoreInst(c.Stack, ct)
				if err != nil {
					return nil, err
				}

				return &churnInst{s: s}, nil
			},
			Gen: genChurn,
		},
		"kms": {Name: "kms", Forced: true, New: newKMSInst, Model: func(Case) Model { return kmsModel{} }, Gen: genKMS, Coq: coqKMS},
		"sess": {
			Name:  "sess",
			New:   newSessInst,
			Model: func(Case) Model { return sessModel{} }, Gen: genSess, Coq: coqSess,
		},
		"prov":  {Name: "prov", Forced: true, New: newProvInst, Model: func(Case) Model { return provModel{} }, Gen: genProv, Coq: coqProv},
		"did":   {Name: "did", Forced: true, New: newDIDInst, Model: func(Case) Model { return didModel{} }, Gen: genDID, Coq: coqDID},
		"wcont": {Name: "wcont", Forced: true, New: newWContInst, Model: func(Case) Model { return didModel{} }, Gen: genDID, Coq: coqDID},
		"msg":   {Name: "msg", Forced: true, New: newMsgInst, Model: func(Case) Model { return msgModel{} }, Gen: genMsg, Coq: coqMsg},
		"reg":   {Name: "reg", New: newRegInst, Model: func(Case) Model { return regModel{} }, Gen: genReg, Coq: coqReg},
		"inbox": {Name: "inbox", Forced: true, New: newInboxInst, Model: func(Case) Model { return inboxModel{} }, Gen: genInbox, Coq: coqInbox},
		"pool": {
			Name: "pool", NoLin: true,
			New: func(Case, *ctl) (Inst, error) { poolSeq++; return &poolInst{n: poolSeq}, nil },
			Gen: genReg,
		},
		"wspool": {
			Name: "wspool",
			New:   func(Case, *ctl) (Inst, error) { poolSeq++; return &poolInst{n: poolSeq, checked: true}, nil },
			Model: func(Case) Model { return poolModel{} }, Gen: genReg, Coq: coqPool,
		},
	}
}
