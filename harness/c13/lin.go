// Linearizability search (Wing & Gong with memoisation, after Lowe): proposes a witness order for a recorded
// history against a sequential model written in Go. The witness is only a PROPOSAL: it is validated in Coq
// (Corr.valid_linearization) against the Coq models; a history for which no witness exists is an oracle failure.
package main

import (
	"fmt"
	"sort"
)

// Ev is one completed (or pending) operation of a recorded history.
type Ev struct {
	G    int   `json:"g"`   // goroutine
	I    int   `json:"i"`   // index within the goroutine
	Op   Op    `json:"op"`  //
	Out  Out   `json:"out"` //
	Inv  int64 `json:"inv"` // monotonic clock (ns since the run started) just before the call
	Ret  int64 `json:"ret"` // ... just after the call returned
	Pend bool  `json:"pending,omitempty"`
}

// Model is a sequential specification used by the search.
type Model interface {
	Init() State
	// Step applies op to s; ok tells whether the observed result is one the specification allows there.
	Step(s State, op Op, observed Out) (next State, ok bool)
}

// State is an immutable model state with a canonical key.
type State interface{ Key() string }

type memoKey struct {
	done uint64
	st   string
}

// linearize returns a witness order (indices into h) or ok=false. Pending operations are never needed by the
// harness's histories (a run that does not finish is reported as a deadlock), so they are left out of the order.
//
// The search is exponential in the worst case: it gives up after searchBudget nodes (inconclusive = true); an
// inconclusive history is never reported as a violation.
func linearize(h []Ev, m Model) (w []int, ok bool, inconclusive bool) {
	n := len(h)
	if n > 62 {
		return nil, false, true
	}

	nodes := 0

	var all uint64

	for i := range h {
		if !h[i].Pend {
			all |= 1 << uint(i)
		}
	}

	failed := map[memoKey]bool{}
	order := make([]int, 0, n)

	var dfs func(done uint64, s State) bool

	dfs = func(done uint64, s State) bool {
		if done == all {
			return true
		}

		nodes++
		if nodes > searchBudget {
			return false
		}

		k := memoKey{done, s.Key()}
		if failed[k] {
			return false
		}

		// minimal return time among the operations not yet placed: an operation invoked after that cannot come next
		minRet := int64(1<<62 - 1)

		for i := 0; i < n; i++ {
			if all&(1<<uint(i)) != 0 && done&(1<<uint(i)) == 0 && h[i].Ret < minRet {
				minRet = h[i].Ret
			}
		}

		for i := 0; i < n; i++ {
			if all&(1<<uint(i)) == 0 || done&(1<<uint(i)) != 0 {
				continue
			}

			if h[i].Inv > minRet {
				continue // some unplaced operation returned strictly before this one was invoked
			}

			ns, ok := m.Step(s, h[i].Op, h[i].Out)
			if !ok {
				continue
			}

			order = append(order, i)

			if dfs(done|1<<uint(i), ns) {
				return true
			}

			order = order[:len(order)-1]
		}

		if nodes <= searchBudget {
			failed[k] = true
		}

		return false
	}

	if dfs(0, m.Init()) {
		return order, true, false
	}

	return nil, false, nodes > searchBudget
}

const searchBudget = 300000

// sortHistory orders a history by invocation time (ids = positions afterwards).
func sortHistory(h []Ev) {
	sort.SliceStable(h, func(i, j int) bool { return h[i].Inv < h[j].Inv })
}

// overlapStats counts pairs of operations of different goroutines whose intervals overlap.
func overlapStats(h []Ev) int {
	c := 0

	for i := range h {
		for j := i + 1; j < len(h); j++ {
			if h[i].G != h[j].G && h[i].Inv <= h[j].Ret && h[j].Inv <= h[i].Ret {
				c++
			}
		}
	}

	return c
}

func describeHistory(h []Ev) string {
	s := ""
	for i, e := range h {
		s += fmt.Sprintf("#%d g%d [%d,%d] %s -> %s; ", i, e.G, e.Inv, e.Ret, e.Op.short(), e.Out.short())
	}

	return s
}
