package main

import (
	"errors"
	"fmt"
	"os"
	"path/filepath"
	"runtime"
	"sort"
	"strings"
	"sync"
	"time"

	"github.com/hyperledger/aries-framework-go/component/storage/leveldb"
	"github.com/hyperledger/aries-framework-go/component/storageutil/batchedstore"
	"github.com/hyperledger/aries-framework-go/component/storageutil/cachedstore"
	"github.com/hyperledger/aries-framework-go/component/storageutil/formattedstore"
	"github.com/hyperledger/aries-framework-go/component/storageutil/formattedstore/exampleformatters"
	"github.com/hyperledger/aries-framework-go/component/storageutil/mem"
	spi "github.com/hyperledger/aries-framework-go/spi/storage"

	"verifharness/hx"
)

// ---------- harness-side underlying store: widens race windows (stress) or parks one call (forced overlap) ----------

// ctl decides what happens at every call that a component makes on its injected store.
type ctl struct {
	forced bool
	yield  int // stress: 0 = none, 1 = Gosched now and then, 2 = also short spins and sleeps

	mu       sync.Mutex
	armed    bool
	parkAt   int
	calls    int
	isParked bool
	released bool
	intruded int
	parked   chan struct{}
	release  chan struct{}
}

func newCtl(forced bool, yield int) *ctl {
	return &ctl{forced: forced, yield: yield, parked: make(chan struct{}, 1), release: make(chan struct{})}
}

var spinSink int //nolint:gochecknoglobals

// point is called before and after every underlying store call. In stress mode it must not synchronise
// (a mutex or an atomic here would order the goroutines and hide data races from the race detector).
func (c *ctl) point(before bool) {
	if !c.forced {
		if c.yield == 0 {
			return
		}

		t := time.Now().UnixNano() >> 4

		switch t % 8 {
		case 0, 1, 2:
			runtime.Gosched()
		case 3:
			if c.yield > 1 {
				x := 0
				for i := 0; i < int(t%4000); i++ {
					x += i
				}

				if x == -1 {
					spinSink++
				}
			}
		case 4:
			if c.yield > 1 {
				time.Sleep(time.Duration(t%60) * time.Microsecond)
			}
		}

		return
	}

	if !before {
		return
	}

	c.mu.Lock()

	if c.armed && !c.isParked && c.calls == c.parkAt {
		c.isParked = true
		c.calls++
		c.mu.Unlock()
		c.parked <- struct{}{}
		<-c.release

		return
	}

	if c.isParked && !c.released {
		c.intruded++
	}

	c.calls++
	c.mu.Unlock()
}

// parkSend is the park point inside a harness-owned outbound dispatcher (park index -2).
func (c *ctl) parkSend() {
	if !c.forced {
		c.point(true)

		return
	}

	c.mu.Lock()

	if c.armed && !c.isParked && c.parkAt == -2 {
		c.isParked = true
		c.mu.Unlock()
		c.parked <- struct{}{}
		<-c.release

		return
	}

	c.mu.Unlock()
}

type yProvider struct {
	inner spi.Provider
	c     *ctl
}

func (p *yProvider) OpenStore(name string) (spi.Store, error) {
	// opening a store in the provider below may be slow (a remote database): a window / park point of its own
	p.c.point(true)
	defer p.c.point(false)

	s, err := p.inner.OpenStore(name)
	if err != nil {
		return nil, err
	}

	return &yStore{inner: s, c: p.c}, nil
}

func (p *yProvider) SetStoreConfig(name string, config spi.StoreConfiguration) error {
	return p.inner.SetStoreConfig(name, config)
}

func (p *yProvider) GetStoreConfig(name string) (spi.StoreConfiguration, error) {
	return p.inner.GetStoreConfig(name)
}
func (p *yProvider) GetOpenStores() []spi.Store { return p.inner.GetOpenStores() }
func (p *yProvider) Close() error               { return p.inner.Close() }

type yStore struct {
	inner spi.Store
	c     *ctl
}

func (s *yStore) Put(key string, value []byte, tags ...spi.Tag) error {
	s.c.point(true)
	defer s.c.point(false)

	return s.inner.Put(key, value, tags...)
}

func (s *yStore) Get(key string) ([]byte, error) {
	s.c.point(true)
	defer s.c.point(false)

	return s.inner.Get(key)
}

func (s *yStore) GetTags(key string) ([]spi.Tag, error) {
	s.c.point(true)
	defer s.c.point(false)

	return s.inner.GetTags(key)
}

func (s *yStore) GetBulk(keys ...string) ([][]byte, error) {
	s.c.point(true)
	defer s.c.point(false)

	return s.inner.GetBulk(keys...)
}

func (s *yStore) Query(expression string, options ...spi.QueryOption) (spi.Iterator, error) {
	s.c.point(true)
	defer s.c.point(false)

	return s.inner.Query(expression, options...)
}

func (s *yStore) Delete(key string) error {
	s.c.point(true)
	defer s.c.point(false)

	return s.inner.Delete(key)
}

func (s *yStore) Batch(operations []spi.Operation) error {
	s.c.point(true)
	defer s.c.point(false)

	return s.inner.Batch(operations)
}

func (s *yStore) Flush() error { return s.inner.Flush() }
func (s *yStore) Close() error { return s.inner.Close() }

// lockedFormatter makes a (demo) formatter with internal state usable from many goroutines.
type lockedFormatter struct {
	mu    sync.Mutex
	inner formattedstore.Formatter
}

func (l *lockedFormatter) Format(key string, value []byte, tags ...spi.Tag) (string, []byte, []spi.Tag, error) {
	l.mu.Lock()
	defer l.mu.Unlock()

	return l.inner.Format(key, value, tags...)
}

func (l *lockedFormatter) Deformat(key string, value []byte, tags ...spi.Tag) (string, []byte, []spi.Tag, error) {
	l.mu.Lock()
	defer l.mu.Unlock()

	return l.inner.Deformat(key, value, tags...)
}

func (l *lockedFormatter) UsesDeterministicKeyFormatting() bool { return l.inner.UsesDeterministicKeyFormatting() }

// ldbProvider removes the scratch directory when the provider is closed.
type ldbProvider struct {
	*leveldb.Provider
	dir string
}

func (l *ldbProvider) Close() error {
	err := l.Provider.Close()
	_ = os.RemoveAll(l.dir)

	return err
}

// ---------- the real stack ----------

// Wrap is one wrapper layer.
type Wrap struct {
	Kind  string `json:"kind"` // cached batched fmt
	Limit int    `json:"limit,omitempty"`
	Fmt   string `json:"fmt,omitempty"` // noop b64det
}

// Stack is the in-memory provider with wrappers, innermost first.
type Stack struct {
	// Base: "" = the in-memory provider, "leveldb" = component/storage/leveldb in a scratch directory
	Base  string `json:"base,omitempty"`
	Wraps []Wrap `json:"wraps,omitempty"`
	// Raw: the bare in-memory provider without the harness's yielding wrapper (provider-level component: the store
	// objects GetOpenStores returns must be the handles OpenStore returned)
	Raw bool `json:"raw,omitempty"`
}

func (s Stack) String() string {
	n := "mem"
	if s.Base != "" {
		n = s.Base
	}

	for _, w := range s.Wraps {
		switch w.Kind {
		case "batched":
			n = fmt.Sprintf("batched%d(%s)", w.Limit, n)
		case "fmt":
			n = fmt.Sprintf("fmt-%s(%s)", w.Fmt, n)
		default:
			n = w.Kind + "(" + n + ")"
		}
	}

	return n
}

func (s Stack) coq() string {
	t := "SMem"

	for _, w := range s.Wraps {
		switch w.Kind {
		case "cached":
			t = "(SCached " + t + ")"
		case "batched":
			t = fmt.Sprintf("(SBatched %s %s)", hx.CoqZ(int64(w.Limit)), t)
		case "fmt":
			switch w.Fmt {
			case "b64rand":
				t = "(SFmtR FB64 " + t + ")"
			case "b64det":
				t = "(SFmt FB64 " + t + ")"
			default:
				t = "(SFmt FNoop " + t + ")"
			}
		}
	}

	return t
}

// conj tells whether "&&" queries are part of the stack's modelled behaviour (formatters split at ':' only).
func (s Stack) conj() bool {
	for _, w := range s.Wraps {
		if w.Kind == "fmt" {
			return false
		}
	}

	return true
}

const storeName = "s"

type storeInst struct {
	top   spi.Provider
	store spi.Store
}

func newStoreInst(st Stack, c *ctl) (*storeInst, error) {
	p, err := buildProvider(st, c)
	if err != nil {
		return nil, err
	}

	s, err := p.OpenStore(storeName)
	if err != nil {
		return nil, err
	}

	// the store configuration goes through every layer (a random-key formattedstore needs it for its key tag)
	if err := p.SetStoreConfig(storeName, spi.StoreConfiguration{TagNames: []string{"a", "b"}}); err != nil {
		return nil, err
	}

	return &storeInst{top: p, store: s}, nil
}

// buildProvider builds the stack of providers (no store is opened).
func buildProvider(st Stack, c *ctl) (spi.Provider, error) {
	var base spi.Provider = mem.NewProvider()

	if st.Base == "leveldb" {
		root := os.Getenv("VERIF_RUN")
		if root == "" {
			root = os.TempDir()
		}

		d, err := os.MkdirTemp(root, "c13-ldb-")
		if err != nil {
			return nil, err
		}

		base = &ldbProvider{Provider: leveldb.NewProvider(filepath.Join(d, "db")), dir: d}
	}

	var p spi.Provider = &yProvider{inner: base, c: c}

	if len(st.Wraps) == 0 && st.Raw {
		p = base
	}

	for _, wr := range st.Wraps {
		switch wr.Kind {
		case "cached":
			p = cachedstore.NewProvider(p, &yProvider{inner: mem.NewProvider(), c: c})
		case "batched":
			p = batchedstore.NewProvider(p, wr.Limit)
		case "fmt":
			var f formattedstore.Formatter = &exampleformatters.NoOpFormatter{}
			if wr.Fmt == "b64det" {
				f = exampleformatters.NewBase64Formatter(true)
			}

			if wr.Fmt == "b64rand" {
				// non-deterministic (random) formatted keys, as the EDV encrypted formatter produces them
				// (the example formatter is a documented demo helper with an unguarded key map: the harness serialises it)
				f = &lockedFormatter{inner: exampleformatters.NewBase64Formatter(false)}
			}

			p = formattedstore.NewProvider(p, f)
		default:
			return nil, fmt.Errorf("unknown wrapper %q", wr.Kind)
		}
	}

	return p, nil
}

func (w *storeInst) Close() { _ = w.top.Close() }

func errOut(err error) Out {
	if errors.Is(err, spi.ErrDataNotFound) {
		return Out{Kind: "notfound", Err: err.Error()}
	}

	return Out{Kind: "err", Err: err.Error()}
}

func mkTags(t []Tag) []spi.Tag {
	r := make([]spi.Tag, len(t))
	for i, x := range t {
		r[i] = spi.Tag{Name: nameStr(x[0]), Value: tvalStr(x[1])}
	}

	return r
}

func numTags(tags []spi.Tag) []Tag {
	r := make([]Tag, len(tags))
	for i, x := range tags {
		r[i] = Tag{nameNum(x.Name), tvalNum(x.Value)}
	}

	return r
}

func exprStr(q []Tag) string {
	parts := make([]string, len(q))

	for i, c := range q {
		parts[i] = nameStr(c[0])
		if c[1] != 0 {
			parts[i] += ":" + tvalStr(c[1])
		}
	}

	return strings.Join(parts, "&&")
}

func (w *storeInst) Exec(_ int, o *Op) (out Out) {
	defer func() {
		if r := recover(); r != nil {
			out = Out{Kind: "panic", Err: fmt.Sprint(r)}
		}
	}()

	s := w.store

	switch o.Kind {
	case "put":
		if err := s.Put(keyStr(o.K), valBytes(o.V), mkTags(o.T)...); err != nil {
			return errOut(err)
		}

		return Out{Kind: "done"}
	case "get":
		v, err := s.Get(keyStr(o.K))
		if err != nil {
			return errOut(err)
		}

		return Out{Kind: "val", V: valNum(v)}
	case "tags":
		t, err := s.GetTags(keyStr(o.K))
		if err != nil {
			return errOut(err)
		}

		return Out{Kind: "tags", T: numTags(t)}
	case "bulk":
		ks := make([]string, len(o.Ks))
		for i, k := range o.Ks {
			ks[i] = keyStr(k)
		}

		vs, err := s.GetBulk(ks...)
		if err != nil {
			return errOut(err)
		}

		r := Out{Kind: "bulk", Vs: make([]int, len(vs))}
		for i, v := range vs {
			r.Vs[i] = valNum(v)
		}

		return r
	case "query":
		it, err := s.Query(exprStr(o.Q))
		if err != nil {
			return errOut(err)
		}

		defer func() { _ = it.Close() }()

		r := Out{Kind: "query", R: []Res{}}

		for {
			ok, err := it.Next()
			if err != nil {
				return errOut(err)
			}

			if !ok {
				break
			}

			k, err := it.Key()
			if err != nil {
				return errOut(err)
			}

			v, err := it.Value()
			if err != nil {
				return errOut(err)
			}

			t, err := it.Tags()
			if err != nil {
				return errOut(err)
			}

			r.R = append(r.R, Res{K: keyNum(k), V: valNum(v), T: numTags(t)})
			if len(r.R) > 50 {
				return Out{Kind: "err", Err: "iterator does not end"}
			}
		}

		sortRes(r.R)

		return r
	case "delete":
		if err := s.Delete(keyStr(o.K)); err != nil {
			return errOut(err)
		}

		return Out{Kind: "done"}
	case "batch":
		ops := make([]spi.Operation, len(o.B))
		for i, b := range o.B {
			ops[i] = spi.Operation{Key: keyStr(b.K), Value: valBytes(b.V)}
			if len(b.T) > 0 {
				ops[i].Tags = mkTags(b.T)
			}
		}

		if err := s.Batch(ops); err != nil {
			return errOut(err)
		}

		return Out{Kind: "done"}
	case "flush":
		if err := s.Flush(); err != nil {
			return errOut(err)
		}

		return Out{Kind: "done"}
	}

	return Out{Kind: "err", Err: "unknown op " + o.Kind}
}

// ---------- the documented contract as the search's sequential model ----------

type rentry struct {
	v int
	t []Tag
}

type kvState struct {
	m   map[int]rentry
	key string
}

func (s *kvState) Key() string {
	if s.key == "" {
		ks := make([]int, 0, len(s.m))
		for k := range s.m {
			ks = append(ks, k)
		}

		sort.Ints(ks)

		var b strings.Builder

		for _, k := range ks {
			fmt.Fprintf(&b, "%d=%d%v;", k, s.m[k].v, s.m[k].t)
		}

		s.key = b.String() + "."
	}

	return s.key
}

func (s *kvState) with(f func(m map[int]rentry)) *kvState {
	n := &kvState{m: make(map[int]rentry, len(s.m)+1)}
	for k, v := range s.m {
		n.m[k] = v
	}

	f(n.m)

	return n
}

type kvModel struct{}

func (kvModel) Init() State { return &kvState{m: map[int]rentry{}} }

func matches(e rentry, c Tag) bool {
	for _, t := range e.t {
		if t[0] == c[0] && (c[1] == 0 || t[1] == c[1]) {
			return true
		}
	}

	return false
}

func (kvModel) Step(st State, o Op, got Out) (State, bool) {
	s, _ := st.(*kvState)

	switch o.Kind {
	case "put":
		if o.K == 0 || o.V == 0 {
			return s, got.Kind == "err"
		}

		return s.with(func(m map[int]rentry) { m[o.K] = rentry{o.V, append([]Tag{}, o.T...)} }), got.Kind == "done"
	case "get", "tags":
		if o.K == 0 {
			return s, got.Kind == "err"
		}

		e, ok := s.m[o.K]
		if !ok {
			return s, got.Kind == "notfound"
		}

		if o.Kind == "get" {
			return s, got.Kind == "val" && got.V == e.v
		}

		return s, got.Kind == "tags" && eqTags(got.T, e.t)
	case "bulk":
		if len(o.Ks) == 0 {
			return s, got.Kind == "err"
		}

		vs := make([]int, len(o.Ks))
		for i, k := range o.Ks {
			vs[i] = s.m[k].v
		}

		return s, got.Kind == "bulk" && eqInts(got.Vs, vs)
	case "query":
		if len(o.Q) == 0 {
			return s, got.Kind == "err"
		}

		res := []Res{}

		for k, e := range s.m {
			all := true
			for _, c := range o.Q {
				all = all && matches(e, c)
			}

			if all {
				res = append(res, Res{K: k, V: e.v, T: e.t})
			}
		}

		sortRes(res)

		if got.Kind != "query" || len(got.R) != len(res) {
			return s, false
		}

		for i := range res {
			if res[i].K != got.R[i].K || res[i].V != got.R[i].V || !eqTags(res[i].T, got.R[i].T) {
				return s, false
			}
		}

		return s, true
	case "delete":
		if o.K == 0 {
			return s, got.Kind == "err"
		}

		return s.with(func(m map[int]rentry) { delete(m, o.K) }), got.Kind == "done"
	case "batch":
		if len(o.B) == 0 {
			return s, got.Kind == "err"
		}

		return s.with(func(m map[int]rentry) {
			for _, b := range o.B {
				if b.V == 0 {
					delete(m, b.K)
				} else {
					m[b.K] = rentry{b.V, append([]Tag{}, b.T...)}
				}
			}
		}), got.Kind == "done"
	case "flush":
		return s, got.Kind == "done"
	}

	return s, false
}

func coqStoreOp(o Op) string {
	switch o.Kind {
	case "put":
		return fmt.Sprintf("Put %d %d %s", o.K, o.V, coqTags(o.T))
	case "get":
		return fmt.Sprintf("Get %d", o.K)
	case "tags":
		return fmt.Sprintf("GetTags %d", o.K)
	case "bulk":
		return "GetBulk " + coqNs(o.Ks)
	case "query":
		return "Query " + coqTags(o.Q)
	case "delete":
		return fmt.Sprintf("Delete %d", o.K)
	case "batch":
		s := make([]string, len(o.B))
		for i, b := range o.B {
			s[i] = fmt.Sprintf("(%d,%d,%s)", b.K, b.V, coqTags(b.T))
		}

		return "Batch [" + strings.Join(s, ";") + "]"
	}

	return "Flush"
}

func coqStoreOut(o Out) string {
	switch o.Kind {
	case "done":
		return "ODone"
	case "notfound":
		return "ONotFound"
	case "val":
		return fmt.Sprintf("OVal %d", o.V)
	case "tags":
		return "OTags " + coqTags(o.T)
	case "bulk":
		return "OBulk " + coqNs(o.Vs)
	case "query":
		s := make([]string, len(o.R))
		for i, r := range o.R {
			s[i] = fmt.Sprintf("(%d,(%d,%s))", r.K, r.V, coqTags(r.T))
		}

		return "OQuery [" + strings.Join(s, ";") + "]"
	}

	return "OErr"
}

// ---------- generators ----------

func randTags(r *hx.Rng) []Tag {
	switch r.Intn(5) {
	case 0:
		return nil
	case 1:
		return []Tag{{1, 1}}
	case 2:
		return []Tag{{1, 1 + r.Intn(2)}, {2, 1 + r.Intn(2)}}
	case 3:
		return []Tag{{2, 1 + r.Intn(2)}}
	}

	return []Tag{{1 + r.Intn(2), 0}}
}

// genStoreOp draws one well-formed operation; values are unique per operation (val) so that reads identify writes.
func genStoreOp(r *hx.Rng, st Stack, val int) Op {
	k := 1 + r.Intn(2)
	if r.Intn(6) == 0 {
		k = 3
	}

	switch x := r.Intn(20); {
	case x < 6:
		return Op{Kind: "put", K: k, V: val, T: randTags(r)}
	case x < 9:
		return Op{Kind: "get", K: k}
	case x < 11:
		return Op{Kind: "tags", K: k}
	case x < 13:
		return Op{Kind: "bulk", Ks: []int{1, 2, 3}[:2+r.Intn(2)]}
	case x < 15:
		q := []Tag{{1 + r.Intn(2), r.Intn(3)}}
		if st.conj() && r.Bool() {
			q = []Tag{{1, r.Intn(3)}, {2, r.Intn(3)}}
		}

		return Op{Kind: "query", Q: q}
	case x < 17:
		return Op{Kind: "delete", K: k}
	case x < 19:
		b := []BOp{{K: 1, V: val, T: randTags(r)}, {K: 2, V: val, T: randTags(r)}}
		if r.Intn(3) == 0 {
			b[r.Intn(2)].V = 0
			b[0].T, b[1].T = nil, nil
		}

		if r.Intn(4) == 0 {
			b = append(b, BOp{K: 3, V: val})
		}

		return Op{Kind: "batch", B: b}
	}

	return Op{Kind: "flush"}
}

func allStacks() []Stack {
	return []Stack{
		{},
		{Wraps: []Wrap{{Kind: "cached"}}},
		{Wraps: []Wrap{{Kind: "batched", Limit: 1}}},
		{Wraps: []Wrap{{Kind: "batched", Limit: 3}}},
		{Wraps: []Wrap{{Kind: "fmt", Fmt: "b64det"}}},
		{Wraps: []Wrap{{Kind: "fmt", Fmt: "noop"}}},
		{Wraps: []Wrap{{Kind: "batched", Limit: 2}, {Kind: "cached"}}},
		{Wraps: []Wrap{{Kind: "cached"}, {Kind: "batched", Limit: 2}}},
		{Wraps: []Wrap{{Kind: "cached"}, {Kind: "fmt", Fmt: "b64det"}}},
		{Wraps: []Wrap{{Kind: "fmt", Fmt: "b64rand"}}},
		{Wraps: []Wrap{{Kind: "fmt", Fmt: "b64rand"}, {Kind: "cached"}}},
	}
}
