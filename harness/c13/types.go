package main

import (
	"fmt"
	"sort"
	"strings"
)

// Tag is (name, value) in the number alphabet of coq/C11/Model.v.
type Tag [2]int

// BOp is one element of a Batch (V = 0: delete).
type BOp struct {
	K int   `json:"k"`
	V int   `json:"v"`
	T []Tag `json:"t,omitempty"`
}

// Op is one operation on a shared component (one struct for every component; Kind decides which fields count).
//
// stores:   put get tags bulk query delete batch flush
// kms:      create import kget
// sessions: screate sclose
// registry: reg unreg rget
// inbox:    add status pickup
type Op struct {
	Kind string `json:"op"`
	K    int    `json:"k,omitempty"`
	V    int    `json:"v,omitempty"`
	T    []Tag  `json:"t,omitempty"`
	Ks   []int  `json:"ks,omitempty"`
	Q    []Tag  `json:"q,omitempty"`
	B    []BOp  `json:"b,omitempty"`
	ID   int    `json:"id,omitempty"`  // kms: requested id / id to get (0 = "the id my previous create returned")
	M    int    `json:"m,omitempty"`   // kms: key material number; inbox: message number
	U    int    `json:"u,omitempty"`   // session user; registry channel; inbox recipient
	N    int    `json:"n,omitempty"`   // pickup batch size
	Ref  string `json:"ref,omitempty"` // kms: the concrete key id a kget asked for (filled while running)
}

// Res is one entry of a query result.
type Res struct {
	K int   `json:"k"`
	V int   `json:"v"`
	T []Tag `json:"t"`
}

// Out is the projected result of one operation.
type Out struct {
	Kind string `json:"out"` // done err notfound val tags bulk query | id mat | token already closed | ok chan | added count batch | panic
	V    int    `json:"v,omitempty"`
	T    []Tag  `json:"t,omitempty"`
	Vs   []int  `json:"vs,omitempty"`
	R    []Res  `json:"r,omitempty"`
	S    string `json:"s,omitempty"` // kms: concrete key id
	B    bool   `json:"b,omitempty"`
	Err  string `json:"err,omitempty"`
}

func (o Op) short() string {
	switch o.Kind {
	case "put":
		return fmt.Sprintf("put(%d,%d,%v)", o.K, o.V, o.T)
	case "get", "tags", "delete":
		return fmt.Sprintf("%s(%d)", o.Kind, o.K)
	case "bulk":
		return fmt.Sprintf("bulk%v", o.Ks)
	case "query":
		return fmt.Sprintf("query%v", o.Q)
	case "batch":
		return fmt.Sprintf("batch%v", o.B)
	case "popen", "pgetcfg", "psclose":
		return fmt.Sprintf("%s(st%d)", o.Kind, o.U)
	case "psetcfg":
		return fmt.Sprintf("psetcfg(st%d,%v)", o.U, o.Ks)
	case "pput":
		return fmt.Sprintf("pput(st%d via h%d,%d,%d)", o.U, o.ID, o.K, o.V)
	case "pget":
		return fmt.Sprintf("pget(st%d via h%d,%d)", o.U, o.ID, o.K)
	case "dsave":
		return fmt.Sprintf("dsave(name%d,did%d)", o.ID, o.M)
	case "dbyname":
		return fmt.Sprintf("dbyname(name%d)", o.ID)
	case "create":
		return "create"
	case "import":
		return fmt.Sprintf("import(id%d,m%d)", o.ID, o.M)
	case "kget":
		return fmt.Sprintf("kget(id%d %s)", o.ID, o.Ref)
	case "screate":
		return fmt.Sprintf("screate(u%d,t%d)", o.U, o.M)
	case "sget":
		return fmt.Sprintf("sget(t%d)", o.M)
	case "sclose", "reg", "unreg", "mreg", "munreg":
		return fmt.Sprintf("%s(%d)", o.Kind, o.U)
	case "add":
		return fmt.Sprintf("add(r%d,m%d)", o.U, o.M)
	case "status":
		return fmt.Sprintf("status(r%d)", o.U)
	case "pickup", "pickupf":
		return fmt.Sprintf("%s(r%d,%d)", o.Kind, o.U, o.N)
	}

	return o.Kind
}

func (o Out) short() string {
	switch o.Kind {
	case "val", "mat", "chan", "count":
		return fmt.Sprintf("%s %d", o.Kind, o.V)
	case "tags":
		return fmt.Sprintf("tags%v", o.T)
	case "bulk", "batch", "batchfail", "served", "cfg", "open":
		return fmt.Sprintf("%s%v", o.Kind, o.Vs)
	case "query":
		return fmt.Sprintf("query%v", o.R)
	case "id":
		return "id " + o.S
	case "closed":
		return fmt.Sprintf("closed %v", o.B)
	case "err", "panic":
		return o.Kind + "(" + o.Err + ")"
	}

	return o.Kind
}

// ---------- alphabets (same as harness/c11) ----------

func keyStr(k int) string {
	if k == 0 {
		return ""
	}

	return fmt.Sprintf("k%d", k)
}

func valBytes(v int) []byte {
	if v == 0 {
		return nil
	}

	return []byte(fmt.Sprintf("v%d", v))
}

func nameStr(n int) string {
	if n == 0 {
		return ""
	}

	return string(rune('a' + n - 1))
}

func tvalStr(v int) string {
	if v == 0 {
		return ""
	}

	return fmt.Sprintf("%d", v)
}

func keyNum(s string) int {
	var k int
	if s == "" {
		return 0
	}

	if n, _ := fmt.Sscanf(s, "k%d", &k); n == 1 && keyStr(k) == s {
		return k
	}

	return 77
}

func valNum(b []byte) int {
	var v int
	if b == nil {
		return 0
	}

	if n, _ := fmt.Sscanf(string(b), "v%d", &v); n == 1 && string(valBytes(v)) == string(b) {
		return v
	}

	return 77
}

func nameNum(s string) int {
	for n := 0; n <= 4; n++ {
		if nameStr(n) == s {
			return n
		}
	}

	return 77
}

func tvalNum(s string) int {
	for n := 0; n <= 6; n++ {
		if tvalStr(n) == s {
			return n
		}
	}

	return 77
}

// ---------- Coq printing ----------

func coqTags(t []Tag) string {
	s := make([]string, len(t))
	for i, x := range t {
		s[i] = fmt.Sprintf("(%d,%d)", x[0], x[1])
	}

	return "[" + strings.Join(s, ";") + "]"
}

func coqNs(ns []int) string {
	s := make([]string, len(ns))
	for i, x := range ns {
		s[i] = fmt.Sprint(x)
	}

	return "[" + strings.Join(s, ";") + "]"
}

func coqNats(ns []int) string {
	s := make([]string, len(ns))
	for i, x := range ns {
		s[i] = fmt.Sprintf("%d%%nat", x)
	}

	return "[" + strings.Join(s, ";") + "]"
}

func sortRes(r []Res) {
	sort.SliceStable(r, func(i, j int) bool { return r[i].K < r[j].K })
}

func eqTags(a, b []Tag) bool {
	if len(a) != len(b) {
		return false
	}

	for i := range a {
		if a[i] != b[i] {
			return false
		}
	}

	return true
}

func eqInts(a, b []int) bool {
	if len(a) != len(b) {
		return false
	}

	for i := range a {
		if a[i] != b[i] {
			return false
		}
	}

	return true
}
