// c13: shared services under concurrent use. The binary is built with -race. The parent process generates cases
// (seeded), hands them in jobs to worker subprocesses (re-exec of this binary; GOMAXPROCS varies per job), collects
// their records and turns every race-detector report found on a worker's stderr into a failing record.
//
// A worker runs each case on ONE fresh shared instance of the real component:
//   stress: G goroutines x N operations, released together; the component's injected store yields/spins/sleeps at
//           every call (no synchronisation in the harness between invocation and return: per-goroutine histories,
//           monotonic clock stamps), so that the race detector sees the component's own synchronisation only;
//   forced: after a sequential prefix, operation A is parked inside its k-th call on the injected store, operation B
//           runs meanwhile (to completion, or until it blocks on the component's lock), A is released, then
//           sequential reads observe the final state;
// and checks the recorded history for linearizability (lin.go). The witness goes to Coq for validation.
// A run that does not finish within the (generous) limit is a deadlock report.
package main

import (
	"bufio"
	"bytes"
	"encoding/json"
	"fmt"
	"os"
	"os/exec"
	"path/filepath"
	"regexp"
	"runtime"
	"sort"
	"strings"
	"sync"
	"syscall"
	"time"

	spi "github.com/hyperledger/aries-framework-go/spi/storage"

	"verifharness/hx"
)

func spiConfig(k int) spi.StoreConfiguration {
	return spi.StoreConfiguration{TagNames: []string{nameStr(k)}}
}

// Case is replayable.
type Case struct {
	Comp    string `json:"comp"`
	Stack   Stack  `json:"stack"`
	Mode    string `json:"mode"` // stress | forced
	Yield   int    `json:"yield"`
	Procs   int    `json:"gomaxprocs"`
	Threads [][]Op `json:"threads,omitempty"`
	// forced overlap
	Pre  []Op `json:"pre,omitempty"`
	A    *Op  `json:"a,omitempty"`
	B    *Op  `json:"b,omitempty"`
	Park int  `json:"park,omitempty"`
	Post []Op `json:"post,omitempty"`
	// Repeat re-runs the same case (replay / corpus): schedules differ from run to run
	Repeat int    `json:"repeat,omitempty"`
	Kind   string `json:"kind,omitempty"`
	// request/response rendezvous (mode rv): see rendezvous.go
	Rv *RvCase `json:"rv,omitempty"`
}

const (
	caseLimit = 60 * time.Second
	grace     = 25 * time.Millisecond
)

type runResult struct {
	h          []Ev
	deadlock   string
	overlapped bool
	intruded   int
}

func runStress(cp *Comp, c Case) runResult {
	ct := newCtl(false, c.Yield)

	inst, err := cp.New(c, ct)
	if err != nil {
		panic(err)
	}

	defer inst.Close()

	g := len(c.Threads)
	hs := make([][]Ev, g)
	start := make(chan struct{})
	done := make(chan struct{})

	var wg sync.WaitGroup

	t0 := time.Now()

	for t := 0; t < g; t++ {
		wg.Add(1)

		go func(t int) {
			defer wg.Done()

			ops := c.Threads[t]
			h := make([]Ev, 0, len(ops))

			<-start

			for i := range ops {
				op := ops[i]
				inv := time.Since(t0).Nanoseconds()
				out := inst.Exec(t, &op)
				ret := time.Since(t0).Nanoseconds()
				h = append(h, Ev{G: t, I: i, Op: op, Out: out, Inv: inv, Ret: ret})
			}

			hs[t] = h
		}(t)
	}

	close(start)

	go func() { wg.Wait(); close(done) }()

	select {
	case <-done:
	case <-time.After(caseLimit):
		buf := make([]byte, 1<<16)
		n := runtime.Stack(buf, true)

		return runResult{deadlock: string(buf[:n])}
	}

	var h []Ev
	for _, x := range hs {
		h = append(h, x...)
	}

	sortHistory(h)

	return runResult{h: h}
}

func runForced(cp *Comp, c Case) runResult {
	ct := newCtl(true, 0)

	inst, err := cp.New(c, ct)
	if err != nil {
		panic(err)
	}

	defer inst.Close()

	t0 := time.Now()

	var h []Ev

	seq := func(g int, ops []Op) {
		for i := range ops {
			op := ops[i]
			inv := time.Since(t0).Nanoseconds()
			out := inst.Exec(g, &op)
			h = append(h, Ev{G: g, I: i, Op: op, Out: out, Inv: inv, Ret: time.Since(t0).Nanoseconds()})
		}
	}

	seq(0, c.Pre)

	ct.mu.Lock()
	ct.armed, ct.calls, ct.parkAt = true, 0, c.Park
	ct.mu.Unlock()

	one := func(g int, op Op, ch chan Ev) {
		inv := time.Since(t0).Nanoseconds()
		out := inst.Exec(g, &op)
		ch <- Ev{G: g, I: 0, Op: op, Out: out, Inv: inv, Ret: time.Since(t0).Nanoseconds()}
	}

	doneA, doneB := make(chan Ev, 1), make(chan Ev, 1)

	go one(1, *c.A, doneA)

	var ea, eb Ev

	res := runResult{}

	select {
	case <-ct.parked:
		res.overlapped = true

		go one(2, *c.B, doneB)

		gotB := false

		select {
		case eb = <-doneB:
			gotB = true
		case <-time.After(grace):
		}

		ct.mu.Lock()
		ct.released = true
		res.intruded = ct.intruded
		ct.mu.Unlock()
		close(ct.release)

		select {
		case ea = <-doneA:
		case <-time.After(caseLimit):
			return runResult{deadlock: "operation A did not finish after being released"}
		}

		if !gotB {
			select {
			case eb = <-doneB:
			case <-time.After(caseLimit):
				return runResult{deadlock: "operation B did not finish"}
			}
		}
	case ea = <-doneA:
		ct.mu.Lock()
		ct.armed = false
		ct.mu.Unlock()

		go one(2, *c.B, doneB)

		select {
		case eb = <-doneB:
		case <-time.After(caseLimit):
			return runResult{deadlock: "operation B did not finish"}
		}
	case <-time.After(caseLimit):
		return runResult{deadlock: "operation A neither finished nor reached a store call"}
	}

	ct.mu.Lock()
	ct.armed = false
	ct.mu.Unlock()

	h = append(h, ea, eb)

	seq(3, c.Post)
	sortHistory(h)

	res.h = h

	return res
}

func runCase(cp *Comp, c Case, kind string, tr *hx.Trace) {
	if c.Mode == "rv" && c.Rv != nil {
		runRendezvous(c, kind, tr)

		return
	}

	reps := c.Repeat
	if reps < 1 {
		reps = 1
	}

	for rep := 0; rep < reps; rep++ {
		var res runResult
		if c.Mode == "forced" {
			res = runForced(cp, c)
		} else {
			res = runStress(cp, c)
		}

		label := c.Comp
		if c.Comp == "store" || c.Comp == "churn" || c.Comp == "prov" {
			label += ":" + c.Stack.String()
		}

		rec := &hx.Record{Kind: kind, Case: c, Oracle: "ok"}

		if res.deadlock != "" {
			rec.Oracle, rec.Sig = "fail", "deadlock:"+label
			rec.Detail = "the run did not finish within " + caseLimit.String() + ": " + res.deadlock
			if len(rec.Detail) > 3000 {
				rec.Detail = rec.Detail[:3000]
			}

			rec.Class = "deadlock/" + label
			tr.Put(rec)
			tr.Close()
			os.Exit(0) // goroutines of the hung run cannot be stopped
		}

		h := res.h
		ov := overlapStats(h)
		rec.Observed = map[string]interface{}{"history": h, "overlapping_pairs": ov, "forced_overlap": res.overlapped, "b_calls_inside_a": res.intruded}

		for _, e := range h {
			if e.Out.Kind == "panic" {
				rec.Oracle, rec.Sig, rec.Detail = "fail", "panic:"+label+":"+e.Op.Kind, "operation panicked: "+e.Out.Err
			}
		}

		outs := map[string]bool{}
		for _, e := range h {
			outs[e.Op.Kind+">"+e.Out.Kind] = true
		}

		rec.Class = fmt.Sprintf("%s/%s/%d/%d/%s", label, c.Mode, len(h), ov, strings.Join(sortedKeys(outs), ","))
		rec.Dist = []string{"comp=" + label, "mode=" + c.Mode, fmt.Sprintf("gomaxprocs=%d", c.Procs), fmt.Sprintf("goroutines=%d", len(c.Threads)),
			fmt.Sprintf("overlap=%v", ov > 0)}
		rec.Trivial = ov == 0

		if c.Mode == "forced" {
			rec.Dist = append(rec.Dist, fmt.Sprintf("park=%d", c.Park), fmt.Sprintf("parked=%v", res.overlapped), fmt.Sprintf("b_inside_a=%v", res.intruded > 0))
			rec.Trivial = !res.overlapped
		}

		unknown := false

		for _, e := range h {
			if e.Out.Kind == "unknown" {
				unknown = true
			}
		}

		if unknown {
			// a result the harness could not project (see provInst.Exec): no verdict on this history
			rec.Trivial = true
			rec.Dist = append(rec.Dist, "unprojectable-result")
			rec.Class = "inconclusive/" + label
		}

		if !cp.NoLin && rec.Oracle == "ok" && !unknown {
			w, ok, inconclusive := linearize(h, cp.Model(c))
			if inconclusive {
				// the witness search ran out of budget: no verdict on this history (never a violation)
				rec.Trivial = true
				rec.Dist = append(rec.Dist, "search-budget-exceeded")
				rec.Class = "inconclusive/" + label
			} else if !ok {
				rec.Oracle = "fail"
				rec.Sig = "nonlinearizable:" + label + ":" + opKinds(h, c)
				rec.Detail = "no sequential order of these operations explains the results: " + describeHistory(h)
				rec.Coq = cp.Coq(c, h, nil)
			} else {
				rec.Coq = cp.Coq(c, h, w)
			}
		}

		tr.Put(rec)
	}
}

// opKinds names the operation kinds that overlapped in a failing history (narrow class for known findings).
func opKinds(h []Ev, c Case) string {
	if c.Mode == "forced" {
		return c.A.Kind + "|" + c.B.Kind
	}

	ks := map[string]bool{}

	for i := range h {
		for j := range h {
			if i != j && h[i].G != h[j].G && h[i].Inv <= h[j].Ret && h[j].Inv <= h[i].Ret {
				ks[h[i].Op.Kind] = true
			}
		}
	}

	return strings.Join(sortedKeys(ks), "+")
}

func sortedKeys(m map[string]bool) []string {
	ks := make([]string, 0, len(m))
	for k := range m {
		ks = append(ks, k)
	}

	sort.Strings(ks)

	return ks
}

// ---------- worker ----------

type job struct {
	Kind  string `json:"kind"`
	Cases []Case `json:"cases"`
}

func worker(jobFile, outFile string) {
	b, err := os.ReadFile(jobFile)
	if err != nil {
		panic(err)
	}

	var j job
	if err := json.Unmarshal(b, &j); err != nil {
		panic(err)
	}

	tr := hx.NewTrace(outFile)
	comps := components()

	for _, c := range j.Cases {
		k := j.Kind
		if c.Kind != "" {
			k = c.Kind
		}

		runCase(comps[c.Comp], c, k, tr)
	}

	tr.Close()
}

// ---------- race reports ----------

var frameRe = regexp.MustCompile(`^\s+(\S+)\(`) //nolint:gochecknoglobals

// parseRaces extracts (sig, text) per report: the first frames of the two accesses that lie in the repository.
func parseRaces(stderr string, repo string) map[string]string {
	res := map[string]string{}

	for _, blk := range strings.Split(stderr, "==================") {
		if !strings.Contains(blk, "WARNING: DATA RACE") {
			continue
		}

		var fns []string

		lines := strings.Split(blk, "\n")
		inAccess, taken := false, false

		for i, ln := range lines {
			if strings.Contains(ln, " by goroutine ") || strings.Contains(ln, " by main goroutine") {
				inAccess = strings.HasPrefix(ln, "Read ") || strings.HasPrefix(ln, "Write ") || strings.HasPrefix(ln, "Previous ") ||
					strings.HasPrefix(ln, "Atomic ") || strings.HasPrefix(ln, "Concurrent ")
				taken = false

				continue
			}

			if strings.HasPrefix(ln, "Goroutine ") {
				inAccess = false
			}

			if !inAccess || taken {
				continue
			}

			m := frameRe.FindStringSubmatch(ln)
			if m == nil || i+1 >= len(lines) {
				continue
			}

			file := strings.TrimSpace(lines[i+1])
			if strings.HasPrefix(file, repo+"/") || strings.Contains(file, "/aries-framework-go/") {
				fn := m[1]
				if k := strings.LastIndex(fn, "/"); k >= 0 {
					fn = fn[k+1:]
				}

				fns = append(fns, fn)
				taken = true
			}
		}

		sort.Strings(fns)

		sig := "race:" + strings.Join(fns, "|")
		if len(fns) == 0 {
			sig = "race:outside-repository"
		}

		if _, ok := res[sig]; !ok {
			if len(blk) > 3500 {
				blk = blk[:3500]
			}

			res[sig] = blk
		}
	}

	return res
}

// ---------- case generation ----------

func forcedCases(r *hx.Rng, tier string) []Case {
	var cs []Case

	reads := []Op{{Kind: "get", K: 1}, {Kind: "tags", K: 1}, {Kind: "bulk", Ks: []int{1, 2}}, {Kind: "query", Q: []Tag{{1, 0}}}, {Kind: "get", K: 2}, {Kind: "get", K: 1}}
	pres := [][]Op{{}, {{Kind: "put", K: 1, V: 90, T: []Tag{{1, 1}}}}, {{Kind: "put", K: 1, V: 90, T: []Tag{{1, 1}}}, {Kind: "put", K: 2, V: 91, T: []Tag{{2, 1}}}, {Kind: "get", K: 1}}}
	as := []Op{
		{Kind: "put", K: 1, V: 1, T: []Tag{{1, 2}}}, {Kind: "get", K: 1}, {Kind: "delete", K: 1}, {Kind: "tags", K: 1},
		{Kind: "batch", B: []BOp{{K: 1, V: 2, T: []Tag{{1, 1}}}, {K: 2, V: 2, T: []Tag{{1, 1}}}}}, {Kind: "bulk", Ks: []int{1, 2}}, {Kind: "query", Q: []Tag{{1, 0}}},
	}
	bs := []Op{
		{Kind: "put", K: 1, V: 5, T: []Tag{{2, 2}}}, {Kind: "delete", K: 1}, {Kind: "get", K: 1}, {Kind: "bulk", Ks: []int{1, 2}},
		{Kind: "batch", B: []BOp{{K: 1, V: 6}, {K: 2, V: 6}}}, {Kind: "query", Q: []Tag{{1, 0}}},
	}

	for _, st := range allStacks() {
		if len(st.Wraps) == 0 {
			continue
		}

		for pi, p := range pres {
			for ai := range as {
				for bi := range bs {
					for park := 0; park < 4; park++ {
						if tier != "thorough" && r.Intn(100) >= 9 {
							continue
						}

						a, b := as[ai], bs[bi]
						cs = append(cs, Case{Comp: "store", Stack: st, Mode: "forced", Pre: p, A: &a, B: &b, Park: park, Post: reads})
						_ = pi
					}
				}
			}
		}
	}

	// key manager: A parked inside its store Get/Put, B meanwhile
	for park := 0; park < 3; park++ {
		for _, ab := range [][2]Op{
			{{Kind: "import", ID: 1, M: 1}, {Kind: "import", ID: 1, M: 2}},
			{{Kind: "import", ID: 1, M: 1}, {Kind: "kget", ID: 1}},
			{{Kind: "create"}, {Kind: "import", ID: 1, M: 2}},
			{{Kind: "import", ID: 2, M: 3}, {Kind: "import", ID: 1, M: 2}},
		} {
			a, b := ab[0], ab[1]
			cs = append(cs, Case{Comp: "kms", Mode: "forced", A: &a, B: &b, Park: park, Post: []Op{{Kind: "kget", ID: 1}, {Kind: "kget", ID: 2}}})
		}
	}

	// inbox: A parked inside its k-th inbox store call
	ipres := [][]Op{{}, {{Kind: "add", U: 1, M: 90}, {Kind: "add", U: 1, M: 91}}}
	ias := []Op{{Kind: "add", U: 1, M: 1}, {Kind: "pickup", U: 1, N: 1}, {Kind: "status", U: 1}, {Kind: "pickup", U: 1, N: 5}, {Kind: "pickupf", U: 1, N: 1}, {Kind: "pickupf", U: 1, N: 5}}
	ibs := []Op{{Kind: "add", U: 1, M: 2}, {Kind: "pickup", U: 1, N: 1}, {Kind: "status", U: 1}, {Kind: "add", U: 2, M: 3}}

	for _, p := range ipres {
		for ai := range ias {
			for bi := range ibs {
				for _, park := range []int{0, 1, 2, -2} {
					if park == -2 && ias[ai].Kind == "add" {
						continue // add sends nothing
					}

					// the pairs "pickup parked inside its (failing) send, add meanwhile" always run
					must := park == -2 && ias[ai].Kind == "pickupf" && ibs[bi].Kind == "add"
					if tier != "thorough" && !must && r.Intn(100) >= 40 {
						continue
					}

					a, b := ias[ai], ibs[bi]
					cs = append(cs, Case{Comp: "inbox", Mode: "forced", Pre: p, A: &a, B: &b, Park: park,
						Post: []Op{{Kind: "status", U: 1}, {Kind: "pickup", U: 1, N: 10}, {Kind: "pickup", U: 2, N: 10}}})
				}
			}
		}
	}

	// provider level: OpenStore parked inside the OpenStore of the provider below (or, bare mem, not parked), another
	// provider-level call meanwhile; afterwards writes through one handle are read through the other
	for _, st := range provStacks() {
		if len(st.Wraps) == 0 {
			continue
		}

		pbs := []Op{{Kind: "popen", U: 1}, {Kind: "popen", U: 1, K: 9}, {Kind: "popen", U: 2}, {Kind: "psetcfg", U: 1, Ks: []int{1}}}
		if st.Base == "" {
			pbs = append(pbs, Op{Kind: "psclose", U: 2, ID: 1}, Op{Kind: "pclose"})
		}

		if !provRestricted(st) {
			pbs = append(pbs, Op{Kind: "pgetopen"})
		}

		for _, pre := range [][]Op{{}, {{Kind: "popen", U: 2}}} {
			for bi := range pbs {
				for park := 0; park < 2; park++ {
					a, b := Op{Kind: "popen", U: 1}, pbs[bi]
					post := []Op{
						{Kind: "pput", U: 1, K: 1, V: 5, ID: 2}, {Kind: "pget", U: 1, K: 1, ID: 3}, {Kind: "pput", U: 1, K: 2, V: 6, ID: 3},
						{Kind: "pget", U: 1, K: 2, ID: 2}, {Kind: "pget", U: 1, K: 1, ID: 2},
					}

					if !provRestricted(st) {
						post = append(post, Op{Kind: "pgetopen"}, Op{Kind: "pgetcfg", U: 1})
					}

					cs = append(cs, Case{Comp: "prov", Stack: st, Mode: "forced", Pre: pre, A: &a, B: &b, Park: park, Post: post})
				}
			}
		}
	}

	// DID store: SaveDID parked inside its store calls (name lookup, doc put, name put), another SaveDID / lookup meanwhile
	for park := 0; park < 3; park++ {
		for _, ab := range [][2]Op{
			{{Kind: "dsave", ID: 1, M: 1}, {Kind: "dsave", ID: 1, M: 2}},
			{{Kind: "dsave", ID: 1, M: 1}, {Kind: "dbyname", ID: 1}},
			{{Kind: "dsave", ID: 1, M: 1}, {Kind: "dsave", ID: 2, M: 2}},
		} {
			a, b := ab[0], ab[1]
			cs = append(cs, Case{Comp: "did", Mode: "forced", A: &a, B: &b, Park: park, Post: []Op{{Kind: "dbyname", ID: 1}, {Kind: "dbyname", ID: 2}}})

			a2, b2 := ab[0], ab[1]
			cs = append(cs, Case{Comp: "wcont", Mode: "forced", A: &a2, B: &b2, Park: park, Post: []Op{{Kind: "dbyname", ID: 1}, {Kind: "dbyname", ID: 2}}})
		}
	}

	// Message registry: a delivery parked between two of its sends (or before the first), an Unregister/Register
	// of another or the same channel meanwhile; at least two channels registered
	mpres := [][]Op{{{Kind: "mreg", U: 1}, {Kind: "mreg", U: 2}, {Kind: "mreg", U: 3}}, {{Kind: "mreg", U: 2}, {Kind: "mreg", U: 1}}}
	mbs := []Op{{Kind: "munreg", U: 1}, {Kind: "munreg", U: 2}, {Kind: "munreg", U: 3}, {Kind: "mreg", U: 4}, {Kind: "deliver"}}

	for _, p := range mpres {
		for bi := range mbs {
			for park := 0; park < 3; park++ {
				a, b := Op{Kind: "deliver"}, mbs[bi]
				cs = append(cs, Case{Comp: "msg", Mode: "forced", Pre: p, A: &a, B: &b, Park: park, Post: []Op{{Kind: "deliver"}}})
			}
		}
	}

	return cs
}

func stressCases(r *hx.Rng, tier string) []Case {
	var cs []Case

	comps := components()
	n := 1
	if tier == "thorough" {
		n = 40
	}

	add := func(comp string, st Stack, count int) {
		for i := 0; i < count*n; i++ {
			g := 2 + r.Intn(7)
			ops := 2 + r.Intn(5)

			limit := 40
			if comp == "inbox" || comp == "kms" || comp == "did" || comp == "wcont" {
				limit = 18 // order-sensitive states (message lists, fresh ids): keeps the witness search feasible
			}

			if g*ops > limit {
				g = 2 + r.Intn(4)
				ops = limit / g
			}

			c := Case{Comp: comp, Stack: st, Mode: "stress", Yield: r.Intn(3), Procs: []int{1, 2, 4, 16}[r.Intn(4)]}
			comps[comp].Gen(r, &c, g, ops)
			cs = append(cs, c)
		}
	}

	for _, st := range allStacks() {
		add("store", st, 70)
		add("churn", st, 10)
	}

	add("kms", Stack{}, 50)
	add("sess", Stack{}, 120)
	add("reg", Stack{}, 120)
	add("msg", Stack{}, 120)
	add("did", Stack{}, 60)
	add("wcont", Stack{}, 60)
	add("churn", Stack{Base: "leveldb"}, 10)

	for _, st := range provStacks() {
		add("prov", st, 40)
	}
	add("inbox", Stack{}, 100)
	add("pool", Stack{}, 20)
	add("wspool", Stack{}, 60)

	return cs
}

func corpusCases(dir string) []Case {
	var cs []Case

	files, _ := filepath.Glob(filepath.Join(dir, "*.json"))
	sort.Strings(files)

	for _, f := range files {
		b, err := os.ReadFile(f)
		if err != nil {
			continue
		}

		var doc struct {
			Case Case `json:"case"`
		}

		if json.Unmarshal(b, &doc) == nil && doc.Case.Comp != "" {
			c := doc.Case
			c.Kind = "corpus:" + strings.TrimSuffix(filepath.Base(f), ".json")
			cs = append(cs, c)
		}
	}

	return cs
}

// ---------- parent ----------

var errWorkerTimeout = fmt.Errorf("worker exceeded its time limit") //nolint:gochecknoglobals

func main() {
	if jf := os.Getenv("C13_JOB"); jf != "" {
		worker(jf, os.Getenv("C13_OUT"))

		return
	}

	a := hx.ParseArgs()
	tr := hx.NewTrace(a.Out)
	rng := hx.NewRng(a.Seed)

	repo := os.Getenv("VERIF_REPO")
	if repo == "" {
		repo = "/repo"
	}

	tmp, err := os.MkdirTemp(os.Getenv("VERIF_RUN"), "c13-jobs-")
	if err != nil {
		panic(err)
	}

	defer os.RemoveAll(tmp)

	var jobs []job

	split := func(kind string, cs []Case, size int) {
		byProcs := map[int][]Case{}

		for _, c := range cs {
			if c.Procs == 0 {
				c.Procs = 4
			}

			if c.Mode == "rv" {
				// a process of its own: handler goroutines left behind by one case must not be counted in the next
				jobs = append(jobs, job{Kind: kind, Cases: []Case{c}})

				continue
			}

			byProcs[c.Procs] = append(byProcs[c.Procs], c)
		}

		ps := make([]int, 0, len(byProcs))
		for p := range byProcs {
			ps = append(ps, p)
		}

		sort.Ints(ps)

		for _, p := range ps {
			l := byProcs[p]
			for i := 0; i < len(l); i += size {
				e := i + size
				if e > len(l) {
					e = len(l)
				}

				jobs = append(jobs, job{Kind: kind, Cases: l[i:e]})
			}
		}
	}

	if a.Replay != "" {
		b, err := os.ReadFile(a.Replay)
		if err != nil {
			panic(err)
		}

		var doc struct {
			Case Case `json:"case"`
		}

		if err := json.Unmarshal(b, &doc); err != nil {
			panic(err)
		}

		if doc.Case.Comp != "" {
			c := doc.Case
			if c.Repeat < 200 {
				c.Repeat = 200
			}

			if c.Mode == "forced" {
				c.Repeat = 3
			}

			if c.Mode == "rv" {
				c.Repeat = 1
			}

			split("replay", []Case{c}, 1)
		}
	} else {
		if a.Extra != "" {
			cs := corpusCases(a.Extra)
			split("corpus", cs, 4)
		}

		split("forced", forcedCases(rng.Fork(1), a.Tier), 40)
		// one process per case: handler goroutines left behind by one case must not be counted in the next
		split("rendezvous", rvCases(a.Tier), 1)
		split("stress", stressCases(rng.Fork(2), a.Tier), 60)
	}

	type result struct {
		idx    int
		recs   [][]byte
		stderr string
		err    error
		procs  int
	}

	results := make([]result, len(jobs))
	sem := make(chan struct{}, 6)

	var wg sync.WaitGroup

	for i := range jobs {
		wg.Add(1)

		go func(i int) {
			defer wg.Done()

			sem <- struct{}{}

			defer func() { <-sem }()

			jf := filepath.Join(tmp, fmt.Sprintf("job-%d.json", i))
			of := filepath.Join(tmp, fmt.Sprintf("out-%d.jsonl", i))
			b, _ := json.Marshal(jobs[i])
			_ = os.WriteFile(jf, b, 0o600)

			procs := jobs[i].Cases[0].Procs
			cmd := exec.Command(os.Args[0]) //nolint:gosec
			cmd.Env = append(os.Environ(), "C13_JOB="+jf, "C13_OUT="+of, fmt.Sprintf("GOMAXPROCS=%d", procs),
				"GORACE=halt_on_error=0 exitcode=0 history_size=2")

			cmd.SysProcAttr = &syscall.SysProcAttr{Pdeathsig: syscall.SIGKILL}

			var se bytes.Buffer

			cmd.Stderr = &se
			cmd.Stdout = &se

			done := make(chan error, 1)

			if err := cmd.Start(); err != nil {
				results[i] = result{idx: i, err: err}

				return
			}

			go func() { done <- cmd.Wait() }()

			var werr error

			select {
			case werr = <-done:
			case <-time.After(15 * time.Minute):
				_ = cmd.Process.Kill()
				werr = errWorkerTimeout
			}

			res := result{idx: i, stderr: se.String(), err: werr, procs: procs}

			if f, err := os.Open(of); err == nil {
				sc := bufio.NewScanner(f)
				sc.Buffer(make([]byte, 1<<20), 1<<26)

				for sc.Scan() {
					res.recs = append(res.recs, append([]byte{}, sc.Bytes()...))
				}

				f.Close()
			}

			results[i] = res
		}(i)
	}

	wg.Wait()

	seq := 0
	races := map[string]string{}
	raceCase := map[string]Case{}
	raceCount := map[string]int{}

	for i, res := range results {
		for _, line := range res.recs {
			var rec hx.Record
			if json.Unmarshal(line, &rec) != nil {
				continue
			}

			seq++
			rec.ID = fmt.Sprintf("%s-%d", strings.SplitN(rec.Kind, ":", 2)[0], seq)
			tr.Put(&rec)
		}

		for sig, text := range parseRaces(res.stderr, repo) {
			raceCount[sig]++

			if _, ok := races[sig]; !ok {
				races[sig] = text
				raceCase[sig] = jobs[i].Cases[0]
			}
		}

		if res.err == errWorkerTimeout { //nolint:errorlint
			// deadlocks of the component are reported by the worker itself (per-case limit); a worker that is still
			// busy after 15 minutes is an overloaded machine: no verdict
			fmt.Fprintf(os.Stderr, "c13: worker for job %d exceeded its time limit; its remaining cases are skipped\n", i)
			tr.Put(&hx.Record{Kind: jobs[i].Kind, Case: jobs[i].Cases[0], Oracle: "ok", Trivial: true, Class: "worker-timeout", Dist: []string{"worker-timeout"}})
		} else if res.err != nil || (len(res.recs) == 0 && len(jobs[i].Cases) > 0) {
			tail := res.stderr
			if len(tail) > 3000 {
				tail = tail[len(tail)-3000:]
			}

			sig := "worker-died"
			if strings.Contains(res.stderr, "concurrent map") {
				sig = "fatal:concurrent-map-access"
			}

			tr.Put(&hx.Record{Kind: jobs[i].Kind, Case: jobs[i].Cases[0], Oracle: "fail", Sig: sig,
				Detail: fmt.Sprintf("worker for job %d ended abnormally (%v): %s", i, res.err, tail), Class: "worker-died"})
		}
	}

	sigs := make([]string, 0, len(races))
	for s := range races {
		sigs = append(sigs, s)
	}

	sort.Strings(sigs)

	for _, sig := range sigs {
		tr.Put(&hx.Record{Kind: "race", Case: raceCase[sig], Oracle: "fail", Sig: sig, Class: sig,
			Detail:   fmt.Sprintf("the race detector reported a data race (%d worker(s)): %s", raceCount[sig], races[sig]),
			Observed: map[string]interface{}{"report": races[sig]}, Dist: []string{"race-report"}})
	}

	fmt.Printf("c13: %d jobs, %d records, %d distinct race reports\n", len(jobs), tr.N(), len(sigs))
	tr.Close()
}
