package main

// The request/response rendezvous of the message-pickup service, driven in forced schedules on the REAL service:
// StatusRequest / BatchPickup (the requester) against inbound Status / Batch responses (one handler goroutine each,
// started by HandleInbound).  The harness-owned outbound dispatcher parks the requester inside the send of its
// request (registered, not yet waiting); responses are delivered while it is parked, while it waits, and after it has
// returned.  Observed: the requester's result, and of every handler whether it returned or is still at its send —
// and then in which way (goroutine state "chan send": nobody will ever take it; "select": it has a time-out).
// The schedule that happened is replayed on the model (coq/C13/Rendezvous.v) by Corr.

import (
	"encoding/json"
	"fmt"
	"regexp"
	"runtime"
	"strings"
	"time"

	"github.com/hyperledger/aries-framework-go/component/storageutil/mem"
	"github.com/hyperledger/aries-framework-go/pkg/didcomm/common/service"
	"github.com/hyperledger/aries-framework-go/pkg/didcomm/protocol/mediator"
	"github.com/hyperledger/aries-framework-go/pkg/didcomm/protocol/messagepickup"
	"github.com/hyperledger/aries-framework-go/pkg/didcomm/transport"
	mockdispatcher "github.com/hyperledger/aries-framework-go/pkg/mock/didcomm/dispatcher"
	mockpackager "github.com/hyperledger/aries-framework-go/pkg/mock/didcomm/packager"
	mockkms "github.com/hyperledger/aries-framework-go/pkg/mock/kms"
	mockprovider "github.com/hyperledger/aries-framework-go/pkg/mock/provider"
	mockvdr "github.com/hyperledger/aries-framework-go/pkg/mock/vdr"
	"github.com/hyperledger/aries-framework-go/pkg/store/connection"

	"verifharness/hx"
)

// RvCase is one forced schedule.
type RvCase struct {
	Req      string `json:"req"`                // status | batch (message pickup) | keylist (mediator AddKey; at most 2 responses before the return)
	During   int    `json:"during,omitempty"`   // responses handled while the requester is inside the send of its request
	Waiting  int    `json:"waiting,omitempty"`  // 0/1: a response handled while the requester sits in its select
	After    int    `json:"after,omitempty"`    // responses handled after the requester has returned
	SendFail bool   `json:"sendfail,omitempty"` // the send of the request fails
	// WaitGiveUp: wait until the handlers left at their send have given up (the repaired code: updateTimeout, 50 s)
	WaitGiveUp bool `json:"wait_give_up,omitempty"`
}

const rvPoll = 2 * time.Millisecond

var goroutineHdr = regexp.MustCompile(`^goroutine \d+ \[([^\],]+)`) //nolint:gochecknoglobals

// goroutinesIn returns the wait states of the goroutines that have a frame of fn on their stack.
func goroutinesIn(fn string) []string {
	buf := make([]byte, 1<<20)
	n := runtime.Stack(buf, true)

	var states []string

	for _, blk := range strings.Split(string(buf[:n]), "\n\n") {
		if !strings.Contains(blk, fn+"(") {
			continue
		}

		if m := goroutineHdr.FindStringSubmatch(blk); m != nil {
			states = append(states, m[1])
		}
	}

	return states
}

func isBlockedState(s string) bool { return s == "chan send" || s == "select" }

// waitHandlers waits until exactly n goroutines are inside the response handler, all of them blocked.
func waitHandlers(fn string, n int, limit time.Duration) ([]string, bool) {
	deadline := time.Now().Add(limit)

	for {
		st := goroutinesIn(fn)
		ok := len(st) == n

		for _, s := range st {
			if !isBlockedState(s) {
				ok = false
			}
		}

		if ok {
			return st, true
		}

		if time.Now().After(deadline) {
			return st, false
		}

		time.Sleep(rvPoll)
	}
}

type rvResult struct {
	Val int    `json:"val"`
	Err string `json:"err,omitempty"`
}

func runRendezvous(c Case, kind string, tr *hx.Trace) {
	rv := *c.Rv
	label := "rv:" + rv.Req
	rec := &hx.Record{Kind: kind, Case: c, Oracle: "ok"}

	fail := func(sig, detail string) {
		rec.Oracle, rec.Sig, rec.Detail = "fail", sig, detail
		rec.Class = sig
		tr.Put(rec)
	}

	sent := make(chan string, 1)
	release := make(chan struct{})

	out := &mockdispatcher.MockOutbound{ValidateSendToDID: func(msg interface{}, myDID, theirDID string) error {
		b, _ := json.Marshal(msg)
		m := map[string]interface{}{}
		_ = json.Unmarshal(b, &m)

		id, _ := m["@id"].(string)
		sent <- id
		<-release

		if rv.SendFail {
			return errInjectedSend
		}

		return nil
	}}

	prov := &mockprovider.Provider{
		StorageProviderValue:              mem.NewProvider(),
		ProtocolStateStorageProviderValue: mem.NewProvider(),
		OutboundDispatcherValue:           out,
		PackagerValue:                     &mockpackager.Packager{UnpackValue: &transport.Envelope{Message: []byte(`{}`)}},
		InboundMessageHandlerValue:        func(*transport.Envelope) error { return nil },
	}

	svc, err := messagepickup.New(prov)
	if err != nil {
		panic(err)
	}

	recorder, err := connection.NewRecorder(prov)
	if err != nil {
		panic(err)
	}

	if err := recorder.SaveConnectionRecord(&connection.Record{ConnectionID: "conn-1", State: connection.StateNameCompleted,
		MyDID: "did:example:me", TheirDID: "did:example:mediator"}); err != nil {
		panic(err)
	}

	handlerFn, requesterFn := "messagepickup.(*Service).handleStatus", "messagepickup.(*Service).StatusRequest"
	if rv.Req == "batch" {
		handlerFn, requesterFn = "messagepickup.(*Service).handleBatch", "messagepickup.(*Service).BatchPickup"
	}

	inbound := func(msg service.DIDCommMsg) {
		_, _ = svc.HandleInbound(msg, service.NewDIDCommContext("did:example:me", "did:example:mediator", nil))
	}

	var med *mediator.Service

	if rv.Req == "keylist" {
		handlerFn, requesterFn = "mediator.(*Service).handleKeylistUpdateResponse", "mediator.(*Service).AddKey"
		prov.ServiceMap = map[string]interface{}{messagepickup.MessagePickup: svc}
		prov.KMSValue = &mockkms.KeyManager{}
		prov.VDRegistryValue = &mockvdr.MockVDRegistry{}

		med, err = mediator.New(prov)
		if err != nil {
			panic(err)
		}

		rs, err := prov.StorageProviderValue.OpenStore(mediator.Coordination)
		if err != nil {
			panic(err)
		}

		if err := rs.Put("route_connID_conn-1", []byte(`{"ConnectionID":"conn-1"}`)); err != nil {
			panic(err)
		}

		inbound = func(msg service.DIDCommMsg) {
			_, _ = med.HandleInbound(msg, service.NewDIDCommContext("did:example:me", "did:example:mediator", nil))
		}
	}

	resCh := make(chan rvResult, 1)

	go func() {
		switch rv.Req {
		case "batch":
			n, err := svc.BatchPickup("conn-1", 5)
			if err != nil {
				resCh <- rvResult{Err: err.Error()}
			} else {
				resCh <- rvResult{Val: n}
			}
		case "keylist":
			// response 1 reports success, response 2 a failure: AddKey's result tells which one was taken
			err := med.AddKey("conn-1", "key-1")

			switch {
			case err == nil:
				resCh <- rvResult{Val: 1}
			case strings.Contains(err.Error(), "failed to update the recipient key"):
				resCh <- rvResult{Val: 2}
			default:
				resCh <- rvResult{Err: err.Error()}
			}
		default:
			st, err := svc.StatusRequest("conn-1")
			if err != nil {
				resCh <- rvResult{Err: err.Error()}
			} else {
				resCh <- rvResult{Val: st.MessageCount}
			}
		}
	}()

	var id string

	select {
	case id = <-sent:
	case <-time.After(30 * time.Second):
		fail("deadlock:"+label, "the requester never reached its outbound send")

		return
	}

	nresp := rv.During + rv.Waiting + rv.After
	// response i carries the number i+1 (status: message_count; batch: that many messages)
	respond := func(i int) {
		m := map[string]interface{}{"@id": id}

		if rv.Req == "keylist" {
			m["@type"] = mediator.KeylistUpdateResponseMsgType
			result := "success"
			if i != 0 {
				result = "server_error"
			}

			m["updated"] = []interface{}{map[string]interface{}{"recipient_key": "key-1", "action": "add", "result": result}}
		} else if rv.Req == "batch" {
			m["@type"] = messagepickup.BatchMsgType

			var att []interface{}
			for k := 0; k <= i; k++ {
				att = append(att, map[string]interface{}{"id": fmt.Sprintf("m%d", k), "msg": []byte(`{}`)})
			}

			m["messages~attach"] = att
		} else {
			m["@type"] = messagepickup.StatusMsgType
			m["message_count"] = i + 1
		}

		b, _ := json.Marshal(m)

		msg, err := service.ParseDIDCommMsgMap(b)
		if err != nil {
			panic(err)
		}

		inbound(msg)
	}

	// the schedule as it happens, in the model's vocabulary
	type sel struct {
		t   int
		alt bool
	}

	sched := []sel{{0, false}} // registered
	next := 0

	for k := 0; k < rv.During; k++ {
		respond(next)

		if st, ok := waitHandlers(handlerFn, k+1, 20*time.Second); !ok {
			if len(st) <= k {
				// the handler returned: it found no channel although the requester is inside the send of its request
				// (the registration must precede the send, or a quick response is dropped and the requester times out)
				fail("response-dropped:"+label, "a response handled while the requester is inside the send of its request found no registered channel and was dropped")
			} else {
				fail("harness:"+label, fmt.Sprintf("a response handled while the requester is registered did not reach its send: %v", st))
			}

			return
		}

		sched = append(sched, sel{next + 1, false}) // look-up: found
		next++
	}

	close(release)
	sched = append(sched, sel{0, rv.SendFail}) // the send of the request returns (alt: with an error)

	if rv.Waiting > 0 && rv.During == 0 && !rv.SendFail {
		// wait until the requester sits in its select
		deadline := time.Now().Add(30 * time.Second)

		for {
			st := goroutinesIn(requesterFn)
			if len(st) == 1 && st[0] == "select" {
				break
			}

			if time.Now().After(deadline) {
				fail("harness:"+label, fmt.Sprintf("the requester did not reach its select: %v", st))

				return
			}

			time.Sleep(rvPoll)
		}

		respond(next)
		sched = append(sched, sel{next + 1, false}, sel{next + 1, false}) // look-up: found; send: taken
		next++
	}

	var res rvResult

	select {
	case res = <-resCh:
	case <-time.After(40 * time.Second):
		fail("deadlock:"+label, "the requester did not return although a response was available")

		return
	}

	winner := -1

	if res.Err == "" {
		winner = res.Val - 1
		if winner < 0 || winner >= next {
			fail("wrong-response:"+label, fmt.Sprintf("the requester returned %d, which no handled response carried", res.Val))

			return
		}

		if rv.During > 0 {
			sched = append(sched, sel{winner + 1, false}) // the send of one parked handler is taken
		}
	}

	sched = append(sched, sel{0, false}) // the requester removes its registration and returns

	for k := 0; k < rv.After; k++ {
		respond(next)
		sched = append(sched, sel{next + 1, false}) // look-up: nothing registered
		next++
	}

	// handlers still at their send: those of the "during" phase that were not taken
	left := rv.During
	if winner >= 0 && winner < rv.During {
		left--
	}

	states, settled := waitHandlers(handlerFn, left, 30*time.Second)
	if !settled {
		fail("harness:"+label, fmt.Sprintf("expected %d handlers left at their send, saw %v", left, states))

		return
	}

	canGiveUp := true

	for _, s := range states {
		if s != "select" {
			canGiveUp = false
		}
	}

	obs := make([]string, nresp)

	for i := 0; i < nresp; i++ {
		switch {
		case i == winner:
			obs[i] = "RvDelivered"
		case i < rv.During:
			obs[i] = fmt.Sprintf("(RvBlocked %v)", canGiveUp)
		default:
			obs[i] = "RvNotFound"
		}
	}

	gaveUp := false

	if rv.WaitGiveUp && left > 0 && canGiveUp {
		if _, ok := waitHandlers(handlerFn, 0, 80*time.Second); ok {
			gaveUp = true

			for i := 0; i < rv.During; i++ {
				if i != winner {
					sched = append(sched, sel{i + 1, true})
					obs[i] = "RvNotFound"
				}
			}
		} else {
			fail("stuck-sender:"+label, "handlers left at their send did not give up within 80 s")

			return
		}
	}

	msgs := make([]int, nresp)
	for i := range msgs {
		msgs[i] = i + 1
	}

	ss := make([]string, len(sched))
	for i, s := range sched {
		ss[i] = fmt.Sprintf("(%d%%nat, %v)", s.t, s.alt)
	}

	got := "None"
	if winner >= 0 {
		got = fmt.Sprintf("(Some %d)", winner+1)
	}

	rec.Coq = fmt.Sprintf("HRv %s %s %s %s", coqNs(msgs), hx.CoqList(ss), got, hx.CoqList(obs))
	rec.Observed = map[string]interface{}{"requester": res, "handlers_left_at_send": states, "gave_up": gaveUp, "winner": winner}
	rec.Class = fmt.Sprintf("%s/%d/%d/%d/%v/%v/left=%d", label, rv.During, rv.Waiting, rv.After, rv.SendFail, rv.WaitGiveUp, left)
	rec.Dist = []string{"comp=" + label, "mode=rv", fmt.Sprintf("during=%d", rv.During), fmt.Sprintf("after=%d", rv.After),
		fmt.Sprintf("left_at_send=%d", left), fmt.Sprintf("sendfail=%v", rv.SendFail)}
	rec.Trivial = nresp < 2

	if !canGiveUp {
		rec.Oracle = "fail"
		rec.Sig = "stuck-sender:" + label
		rec.Detail = fmt.Sprintf("the requester has returned (%+v) and %d response handler goroutine(s) stay blocked in a plain channel send that nobody will ever take (states %v): blocked for good",
			res, left, states)
	}

	tr.Put(rec)
}

func rvCases(tier string) []Case {
	var cs []Case

	for _, req := range []string{"status", "batch"} {
		for _, x := range []RvCase{
			{During: 1}, {During: 2}, {During: 3, After: 1}, {Waiting: 1}, {Waiting: 1, After: 2}, {During: 1, After: 1},
			{During: 1, SendFail: true}, {During: 2, SendFail: true, After: 1}, {SendFail: true, After: 1},
		} {
			x.Req = req
			y := x
			cs = append(cs, Case{Comp: "rv", Mode: "rv", Rv: &y})
		}
	}

	// mediator AddKey removes its registration on the success path only: schedules with responses AFTER a failed AddKey
	// (failed send, or the "server_error" response taken) are not generated (the model's requester always removes it)
	for _, x := range []RvCase{{During: 1}, {During: 2}, {Waiting: 1, After: 2}, {During: 1, After: 1}, {During: 1, SendFail: true}, {During: 2, SendFail: true}} {
		y := x
		y.Req = "keylist"
		cs = append(cs, Case{Comp: "rv", Mode: "rv", Rv: &y})
	}

	if tier == "thorough" {
		cs = append(cs, Case{Comp: "rv", Mode: "rv", Rv: &RvCase{Req: "status", During: 3, WaitGiveUp: true}})
	}

	return cs
}
