// c01: packs payloads with the real DIDComm packers (JWE authcrypt/anoncrypt, legacy authcrypt/anoncrypt) for
// recipient sets spread over parties that each hold their keys in their own KMS, unpacks with every party, and
// records pack outcome and each party's unpack result for comparison with the Coq model (coq/C01).
package main

import (
	"bytes"
	"crypto/sha256"
	"encoding/base64"
	"encoding/json"
	"fmt"
	"os"
	"path/filepath"
	"sort"
	"strings"

	"github.com/hyperledger/aries-framework-go/pkg/didcomm/transport"

	env "verifharness/c01env"
	"verifharness/hx"
)

// Scenario is one replayable case.
type Scenario struct {
	Packer  string `json:"packer"` // jwe-auth | jwe-anon | leg-auth | leg-anon
	KT      string `json:"kt"`
	Enc     string `json:"enc"`
	Style   string `json:"style"` // didkey | diddoc | pdoc | raw
	Via     string `json:"via"`   // packager | packer
	Payload string `json:"payload"`
	PaySeed int    `json:"pay_seed"`
	// Sender and Rcpts index the party/slot table: key = pool[kt][party][slot]
	Sender [2]int   `json:"sender"`
	Rcpts  [][2]int `json:"rcpts"`
	// Unpackers are party ids
	Unpackers []int `json:"unpackers"`
	// Form is the transport form handed to packager.UnpackMessage: "" (the envelope itself), "quoted" ("<base64url>"),
	// "quoted-pad" ("<padded base64url>")
	Form string `json:"form,omitempty"`
	// History: the parties restart their long-lived packager/packer instances, exchange a priming envelope while the
	// DID documents are at epoch 0 (late keys not yet published), then the documents move to epoch 1 and this
	// scenario runs through the SAME instances
	History bool `json:"history,omitempty"`
	// RKT: key types of the recipients when they differ from KT (mixed lists); same length as Rcpts
	RKT []string `json:"rkt,omitempty"`
	// Rotate: the FIRST recipient is a fresh key of a fresh party whose KMS rotates that key: "before" = the envelope is
	// packed to the key, then the key is rotated, then the party unpacks; "after" = rotated first, the envelope is
	// packed to the new key
	Rotate string `json:"rotate,omitempty"`
}

const (
	nParties = 6
	nSlots   = 2
)

type pool struct {
	w    *env.World
	keys map[string][][]*env.Key // kt -> party -> slot
}

func newPool() *pool {
	p := &pool{w: env.NewWorld(nParties), keys: map[string][][]*env.Key{}}

	for _, kt := range append(append([]string{}, env.KTs...), env.Ed25519) {
		tab := make([][]*env.Key, nParties)
		for pa := 0; pa < nParties; pa++ {
			for s := 0; s < nSlots; s++ {
				k := p.w.NewKey(pa, kt)
				// raw legacy keys: exactly one key of the pool (party 4, slot 1) has a '#' byte after position 0, which
				// the packager takes for a DID-document key reference; all others have none
				for kt == env.Ed25519 && (bytes.IndexByte(k.Bytes, '#') > 0) != (pa == 4 && s == 1) {
					k = p.w.NewKey(pa, kt)
				}

				// the parties' DID documents evolve: slot 1 keys of two key types are published from epoch 1 on
				if s == 1 && (kt == env.X25519 || kt == env.P256) {
					k.Born = 1
				}

				tab[pa] = append(tab[pa], k)
			}
		}

		p.keys[kt] = tab
	}

	p.w.Epoch = 1

	return p
}

func (p *pool) partyKeys(pa int) []int {
	var ks []int

	for _, k := range p.w.Keys {
		if k.Owner == pa && !k.Gone {
			ks = append(ks, k.Name)
		}
	}

	return ks
}

// heldKeys: keys whose private part the party holds, findable or not (rotated)
func (p *pool) heldKeys(pa int) []int {
	var ks []int

	for _, k := range p.w.Keys {
		if k.Owner == pa {
			ks = append(ks, k.Name)
		}
	}

	return ks
}

func payload(class string, seed int) ([]byte, int) {
	r := hx.NewRng(uint64(seed) + 77)

	switch class {
	case "empty":
		return []byte{}, 0
	case "one":
		return []byte{byte(seed)}, 1000 + seed%256
	case "json":
		return []byte(fmt.Sprintf(`{"@id":"%d","@type":"https://didcomm.org/x/1.0/y","v":[1,"a",null]}`, seed)), 2000 + seed
	case "binary":
		b := r.Bytes(1 + seed%61)
		b[0], b[len(b)-1] = 0x00, 0xff

		return b, 3000 + seed
	case "block16":
		return r.Bytes(16 * (1 + seed%4)), 4000 + seed
	case "large64k":
		return r.Bytes(65536 + seed%17), 5000 + seed
	case "large1m":
		return r.Bytes(1<<20 + seed%17), 6000 + seed
	}

	return []byte(class), 7000 + seed
}

func coqPacker(s string) string {
	return map[string]string{"jwe-auth": "JweAuth", "jwe-anon": "JweAnon", "leg-auth": "LegAuth", "leg-anon": "LegAnon"}[s]
}

func coqStyle(s string) string {
	switch s {
	case "diddoc":
		return "DidDoc"
	case "pdoc":
		return "DidDocMulti"
	case "raw":
		return "RawKey"
	case "rawhash":
		return "RawKeyHash"
	}

	return "DidKey"
}

func (p *pool) run(kind string, sc Scenario, tr *hx.Trace) {
	legacy := strings.HasPrefix(sc.Packer, "leg")
	auth := strings.HasSuffix(sc.Packer, "auth")
	kt := sc.KT

	if legacy {
		kt = env.Ed25519
	}

	tab := p.keys[kt]
	sender := tab[sc.Sender[0]][sc.Sender[1]]
	sparty := p.w.Parties[sender.Owner]

	var rcpts []*env.Key
	for i, r := range sc.Rcpts {
		if len(sc.RKT) == len(sc.Rcpts) && !legacy {
			rcpts = append(rcpts, p.keys[sc.RKT[i]][r[0]][r[1]])
			continue
		}

		rcpts = append(rcpts, tab[r[0]][r[1]])
	}

	unpackers := append([]int{}, sc.Unpackers...)

	var rotated *env.Key // the key to rotate between pack and unpack

	if sc.Rotate != "" {
		fresh := p.w.AddParty()
		k := p.w.NewKey(fresh.ID, kt)
		unpackers = append(unpackers, fresh.ID)

		if sc.Rotate == "after" {
			nk, err := p.w.Rotate(k)
			if err != nil {
				fmt.Fprintln(os.Stderr, "c01: rotate failed:", err)
				os.Exit(2)
			}

			k = nk
		} else {
			rotated = k
		}

		rcpts[0] = k
	}

	pay, pid := payload(sc.Payload, sc.PaySeed)

	if sc.History {
		p.prime(sc, sender, rcpts)
	}

	rec := &hx.Record{Kind: kind, Case: sc, Oracle: "ok"}
	fail := func(sig, detail string) {
		if rec.Oracle == "ok" {
			rec.Oracle, rec.Sig, rec.Detail = "fail", sig, detail
		}
	}

	// ---- pack ----
	var (
		packed []byte
		perr   error
	)

	sparty.Rec.Wraps = nil

	func() {
		defer func() {
			if r := recover(); r != nil {
				perr = fmt.Errorf("panic: %v", r)
			}
		}()

		if _, err := sparty.Packer(sc.Packer, sc.Enc); err != nil {
			perr = err // the packer does not admit this enc
			return
		}

		if sc.Via == "packager" {
			pk, err := sparty.Packager(sc.Enc)
			if err != nil {
				perr = err
				return
			}

			e := &transport.Envelope{MediaTypeProfile: env.Profile(sc.Packer), Message: pay}
			if auth {
				e.FromKey = []byte(sender.Ref(sc.Style))
			}

			for _, r := range rcpts {
				e.ToKeys = append(e.ToKeys, r.Ref(sc.Style))
			}

			if sc.Style == "raw" {
				// the raw public key bytes themselves as key references (legacy profile)
				e.ToKeys = nil
				for _, r := range rcpts {
					e.ToKeys = append(e.ToKeys, string(r.Bytes))
				}

				if auth {
					e.FromKey = sender.Bytes
				}
			}

			if !auth && !legacy {
				// the packager chooses anoncrypt when there is no FromKey
				e.FromKey = nil
			}

			packed, perr = pk.PackMessage(e)
		} else {
			pp, err := sparty.Packer(sc.Packer, sc.Enc)
			if err != nil {
				perr = err
				return
			}

			var sid []byte
			if legacy {
				sid = sender.Bytes
			} else if auth {
				sid = sender.SenderID(sc.Style)
			}

			var ra [][]byte
			for _, r := range rcpts {
				ra = append(ra, r.RecipientArg(sc.Style))
			}

			packed, perr = pp.Pack(transport.MediaTypeV2PlaintextPayload, pay, sid, ra)
		}
	}()

	type uobs struct {
		Party int `json:"party"`
		env.Unpacked
		PayloadEq bool `json:"payload_eq"`
	}

	obs := struct {
		Packed  bool   `json:"packed"`
		PackErr string `json:"pack_err,omitempty"`
		Len     int    `json:"len"`
		Unp     []uobs `json:"unpacks"`
	}{Packed: perr == nil, Len: len(packed)}

	if perr != nil {
		obs.PackErr = perr.Error()
	}

	rnames := map[int]bool{}
	for _, r := range rcpts {
		rnames[r.Name] = true
	}

	var coqUnp, coqAtt []string

	if perr == nil && rotated != nil {
		if _, err := p.w.Rotate(rotated); err != nil {
			fmt.Fprintln(os.Stderr, "c01: rotate failed:", err)
			os.Exit(2)
		}
	}

	if perr == nil {
		for _, pa := range unpackers {
			party := p.w.Parties[pa]
			party.Rec.Unwraps = nil

			u := env.Fence(func() env.Unpacked {
				if sc.Via == "packager" {
					pk, err := party.Packager(sc.Enc)
					if err != nil {
						return env.Unpacked{Out: "err", Err: err.Error()}
					}

					msg := packed

					switch sc.Form {
					case "quoted":
						msg = []byte(`"` + base64.RawURLEncoding.EncodeToString(packed) + `"`)
					case "quoted-pad":
						msg = []byte(`"` + base64.URLEncoding.EncodeToString(packed) + `"`)
					}

					return p.w.Project(pk.UnpackMessage(msg))
				}

				pp, err := party.Packer(sc.Packer, sc.Enc)
				if err != nil {
					return env.Unpacked{Out: "err", Err: err.Error()}
				}

				return p.w.Project(pp.Unpack(packed))
			})

			o := uobs{Party: pa, Unpacked: u, PayloadEq: u.Out == "ok" && bytes.Equal(u.Message, pay)}
			obs.Unp = append(obs.Unp, o)

			// ---- the property's direct oracle ----
			owns := 0
			for _, k := range p.partyKeys(pa) {
				if rnames[k] {
					owns++
				}
			}

			held := 0
			for _, k := range p.heldKeys(pa) {
				if rnames[k] {
					held++
				}
			}

			switch {
			case u.Out == "panic":
				fail("unpack-panic:"+sc.Packer, fmt.Sprintf("party %d: unpack panicked: %s", pa, u.Err))
			case owns == 0 && held > 0 && u.Out != "ok":
				// the private part is in the party's KMS (inside the rotated keyset) but not found under the recipient key's id
				fail("recipient-cannot-unpack-after-rotation", fmt.Sprintf("party %d rotated the recipient key after the envelope was packed and can no longer unpack it: %s", pa, u.Err))
			case owns > 0 && u.Out != "ok":
				fail("recipient-cannot-unpack:"+sc.Packer+":"+sc.Style, fmt.Sprintf("party %d holds a recipient key but unpack failed: %s", pa, u.Err))
			case owns > 0 && !o.PayloadEq:
				fail("payload-differs:"+sc.Packer, fmt.Sprintf("party %d unpacked %d bytes that differ from the %d packed", pa, len(u.Message), len(pay)))
			case owns > 0 && (!rnames[u.To] || p.w.Keys[u.To-1].Owner != pa):
				fail("wrong-tokey:"+sc.Packer, fmt.Sprintf("party %d: ToKey is key %d", pa, u.To))
			case owns > 0 && auth && u.From != sender.Name:
				fail("wrong-fromkey:"+sc.Packer+":"+sc.Style, fmt.Sprintf("party %d: FromKey is key %d, sender is %d", pa, u.From, sender.Name))
			case owns > 0 && !auth && u.From != 0:
				fail("fromkey-on-anoncrypt:"+sc.Packer, fmt.Sprintf("party %d: FromKey %d on an anoncrypt envelope", pa, u.From))
			case owns == 0 && u.Out == "ok":
				fail("non-recipient-unpacked:"+sc.Packer, fmt.Sprintf("party %d holds no recipient key but unpack succeeded", pa))
			}

			cu := "URej"
			if u.Out == "ok" {
				mid := 999999
				if o.PayloadEq {
					mid = pid
				}

				from, to := u.From, u.To
				if from < 0 {
					from = 999999
				}

				if to < 0 {
					to = 999999
				}

				cu = fmt.Sprintf("UOk %d %d %d", mid, from, to)
			}

			coqUnp = append(coqUnp, fmt.Sprintf("(%s, %s)", hx.CoqNList(p.partyKeys(pa)), cu))

			if legacy || u.Out == "panic" {
				coqAtt = append(coqAtt, "None")
			} else {
				coqAtt = append(coqAtt, party.Rec.CoqAttempts())
			}
		}
	} else {
		// pack-side rejections are part of the model (pack_total); classify for the oracle: only the listed ones
		// are admitted, anything else is a failure of "whatever payload an agent packs".
		msg := perr.Error()

		switch {
		case strings.Contains(msg, "ciphertext cannot be empty"):
			fail("pack-rejects-empty-payload-multi-recipient", msg)
		case strings.Contains(msg, "invalid CBC-HMAC key size 56"):
			fail("pack-rejects-A256CBC-HS384-nistp-authcrypt", msg)
		case sc.Style == "raw" && strings.Contains(msg, "resolveKeyAgreementFromDIDDoc"):
			fail("pack-rejects-raw-key-containing-hash", msg)
		case len(sc.RKT) > 0 && auth && (strings.Contains(msg, "not an EC key") || strings.Contains(msg, "not an OKP key") ||
			strings.Contains(msg, "not on the same curve")):
			// ECDH-1PU needs sender and recipients on one curve: documented restriction, modelled (pack_mixed)
		case strings.Contains(msg, "unsupported content encrytpion algorithm"):
			// authcrypt admits CBC-HMAC and XC20P only: documented restriction of the packer, not a failure
		default:
			fail("pack-failed:"+sc.Packer, msg)
		}
	}

	senderN := sender.Name
	if !auth {
		senderN = 0
	}

	mstyle := sc.Style
	if sc.Style == "raw" && sc.Via == "packager" {
		ks := append([]*env.Key{}, rcpts...)
		if auth {
			ks = append(ks, sender)
		}

		for _, k := range ks {
			if bytes.IndexByte(k.Bytes, '#') > 0 {
				mstyle = "rawhash"
			}
		}
	}

	var rn []int
	for _, r := range rcpts {
		rn = append(rn, r.Name)
	}

	wraps := "None"
	if perr == nil && !legacy {
		wraps = p.coqWraps(packed, sc.Style, auth, sender, rcpts, sparty.Rec.Wraps)
	}

	calls := "None"
	if perr == nil && !legacy {
		calls = p.coqCalls(packed, coqStyle(mstyle), sc.Style, rcpts, sparty.Rec.Wraps)
	}

	kts := "[]"

	if len(sc.RKT) == len(sc.Rcpts) && !legacy {
		items := []string{fmt.Sprintf("(%d, %s)", sender.Name, sender.KT)}
		for _, r := range rcpts {
			items = append(items, fmt.Sprintf("(%d, %s)", r.Name, r.KT))
		}

		kts = hx.CoqList(items)
	}

	refs := "None"
	if sc.Via == "packager" && !legacy && (sc.Style == "diddoc" || sc.Style == "pdoc") {
		refs = p.coqRefs(sc.Style, auth, sender, rcpts)
	}

	rec.Coq = fmt.Sprintf("{| c_cfg := mkcfg %s %s %s %s; c_viapk := %s; c_spar := %s; c_payload := %d; c_sender := %d; c_rcpts := %s; c_refs := %s; c_form := %d; c_history := %s; c_kts := %s; c_prim := None; c_wraps := %s; c_calls := %s; c_att := %s; c_packed := %s; c_unp := %s |}",
		coqPacker(sc.Packer), kt, sc.Enc, coqStyle(mstyle), hx.CoqBool(sc.Via == "packager"), hx.CoqNList(p.partyKeys(sender.Owner)), pid, senderN,
		hx.CoqNList(rn), refs, map[string]int{"": 0, "quoted": 1, "quoted-pad": 2}[sc.Form], hx.CoqBool(sc.History), kts, wraps, calls, hx.CoqList(coqAtt),
		hx.CoqBool(perr == nil), hx.CoqList(coqUnp))
	rec.Observed = obs

	outs := []string{}
	for _, u := range obs.Unp {
		outs = append(outs, u.Out)
	}

	rec.Class = fmt.Sprintf("%s/%s/%s/%s/%s%s/%s/n=%d/%v/%s/h=%v", sc.Packer, kt, sc.Enc, sc.Style, sc.Via, sc.Form, sc.Payload, len(rcpts), perr == nil, strings.Join(outs, ""), sc.History)
	rec.Trivial = false
	rec.Dist = []string{"packer=" + sc.Packer, "kt=" + kt, "enc=" + sc.Enc, "style=" + sc.Style, "via=" + sc.Via,
		"payload=" + sc.Payload, fmt.Sprintf("n=%d", len(rcpts)), fmt.Sprintf("packed=%v", perr == nil), "form=" + sc.Form,
		fmt.Sprintf("history=%v", sc.History)}

	for _, u := range obs.Unp {
		rec.Dist = append(rec.Dist, "unpack="+u.Out)
	}

	tr.Put(rec)
}

// prime restarts the instances of every party involved, puts the directory at epoch 0 and lets the same sender
// party send one envelope to the slot-0 key of each recipient party (packed and unpacked through the instances the
// scenario will use), then moves the directory to epoch 1.
func (p *pool) prime(sc Scenario, sender *env.Key, rcpts []*env.Key) {
	parties := map[int]bool{sender.Owner: true}
	for _, pa := range sc.Unpackers {
		parties[pa] = true
	}

	for pa := range parties {
		p.w.Parties[pa].ResetInstances()
	}

	p.w.Epoch = 0

	defer func() {
		_ = recover()
		p.w.Epoch = 1
	}()

	kt := sender.KT
	s0 := p.keys[kt][sender.Owner][0]

	var (
		to   []string
		args [][]byte
		own  []int
	)

	seen := map[int]bool{}

	for _, r := range rcpts {
		if seen[r.Owner] {
			continue
		}

		seen[r.Owner] = true
		k0 := p.keys[kt][r.Owner][0]
		to = append(to, k0.Ref(sc.Style))
		args = append(args, k0.RecipientArg(sc.Style))
		own = append(own, r.Owner)
	}

	auth := strings.HasSuffix(sc.Packer, "auth")

	var packed []byte

	if sc.Via == "packager" {
		pk, err := p.w.Parties[sender.Owner].Packager(sc.Enc)
		if err != nil {
			return
		}

		e := &transport.Envelope{MediaTypeProfile: env.Profile(sc.Packer), Message: []byte("priming"), ToKeys: to}
		if auth {
			e.FromKey = []byte(s0.Ref(sc.Style))
		}

		packed, _ = pk.PackMessage(e)
	} else {
		pp, err := p.w.Parties[sender.Owner].Packer(sc.Packer, sc.Enc)
		if err != nil {
			return
		}

		var sid []byte
		if auth {
			sid = s0.SenderID(sc.Style)
		}

		packed, _ = pp.Pack(transport.MediaTypeV2PlaintextPayload, []byte("priming"), sid, args)
	}

	for _, pa := range own {
		if sc.Via == "packager" {
			if pk, err := p.w.Parties[pa].Packager(sc.Enc); err == nil {
				_, _ = pk.UnpackMessage(packed)
			}
		} else if pp, err := p.w.Parties[pa].Packer(sc.Packer, sc.Enc); err == nil {
			_, _ = pp.Unpack(packed)
		}
	}
}

// coqWraps abstracts the recorded WrapKey calls of one pack (see C01/Corr.v wobs).
func (p *pool) coqWraps(packed []byte, style string, auth bool, sender *env.Key, rcpts []*env.Key, calls []env.WrapCall) string {
	raw, err := env.ParseRawJWE(packed)
	if err != nil {
		return "None"
	}

	tag, _ := base64.RawURLEncoding.DecodeString(raw.Tag)

	var kids []string
	for _, r := range rcpts {
		kids = append(kids, r.Ref(style))
	}

	sort.Strings(kids)
	apvWant := sha256.Sum256([]byte(strings.Join(kids, ".")))
	skid := []byte(sender.Ref(style))

	var items []string

	for _, c := range calls {
		items = append(items, fmt.Sprintf("Build_wobs %s %s %s %s %s %s", hx.CoqBool(strings.Contains(c.Alg, "1PU")),
			hx.CoqBool(auth && bytes.Equal(c.APU, skid)), hx.CoqBool(bytes.Equal(c.APV, apvWant[:])),
			hx.CoqBool(len(c.Tag) > 0 && bytes.Equal(c.Tag, tag)), hx.CoqBool(c.HasSender),
			hx.CoqBool(bytes.Equal(c.EPKX, calls[0].EPKX))))
	}

	return "(Some " + hx.CoqList(items) + ")"
}

// coqCalls names the dataflow of the recorded WrapKey calls of one pack (see C01/Corr.v wcall): which key each
// argument IS, found by comparing bytes with the world's keys and with the envelope — not by what the scenario asked for.
func (p *pool) coqCalls(packed []byte, mstyle, refStyle string, rcpts []*env.Key, calls []env.WrapCall) string {
	raw, err := env.ParseRawJWE(packed)
	if err != nil {
		return "None"
	}

	tag, _ := base64.RawURLEncoding.DecodeString(raw.Tag)

	// the key reference string of a key in this scenario's style (as the packer was given it)
	var kids []string

	var rn []int

	for _, r := range rcpts {
		kids = append(kids, r.Ref(refStyle))
		rn = append(rn, r.Name)
	}

	sort.Strings(kids)
	apvWant := sha256.Sum256([]byte(strings.Join(kids, ".")))

	algs := map[string]string{"ECDH-ES+A256KW": "ES_A256KW", "ECDH-ES+XC20PKW": "ES_XC20PKW", "ECDH-1PU+A128KW": "PU_A128KW",
		"ECDH-1PU+A192KW": "PU_A192KW", "ECDH-1PU+A256KW": "PU_A256KW", "ECDH-1PU+XC20PKW": "PU_XC20PKW"}

	index := func(tab *[][]byte, v []byte) int {
		for i, x := range *tab {
			if bytes.Equal(x, v) {
				return i
			}
		}

		*tab = append(*tab, v)

		return len(*tab) - 1
	}

	var epks, ceks [][]byte

	var items []string

	for _, c := range calls {
		if !c.OK {
			items = append(items, "mkwcall (AlgOther 1) 0 None 0 0 NOther NOther None")
			continue
		}

		alg, ok := algs[c.Alg]
		if !ok {
			alg = "(AlgOther 0)"
		}

		rk := 999999
		if k := p.w.KeyByX(c.RcptX); k != nil && string(k.Pub.Y) == string(c.RcptY) {
			rk = k.Name
		}

		snd := "None"
		if c.HasSender {
			snd = "(Some 999999)"
			if k := p.w.KeyByX(c.SenderX); k != nil {
				snd = fmt.Sprintf("(Some %d)", k.Name)
			}
		}

		named := func(v []byte) string {
			switch {
			case len(v) == 0:
				return "NEmpty"
			case bytes.Equal(v, []byte(base64.RawURLEncoding.EncodeToString(c.EPKX))):
				return "NEpk"
			case bytes.Equal(v, apvWant[:]):
				return fmt.Sprintf("(NKids (map (kref_for %s) %s))", mstyle, hx.CoqNList(rn))
			}

			if k := p.w.ByRef(string(v)); k != nil && string(v) == k.Ref(refStyle) {
				return fmt.Sprintf("(NSkid (kref_for %s %d))", mstyle, k.Name)
			}

			return "NOther"
		}

		tg := "None"
		if len(c.Tag) > 0 {
			tg = "(Some " + hx.CoqBool(bytes.Equal(c.Tag, tag)) + ")"
		}

		items = append(items, fmt.Sprintf("mkwcall %s %d %s %d %d %s %s %s", alg, rk, snd, index(&epks, c.EPKX), index(&ceks, c.CEK),
			named(c.OutAPU), named(c.OutAPV), tg))
	}

	return "(Some " + hx.CoqList(items) + ")"
}

// --- key references as strings of atoms (coq/C01/KeyRef.v): '.' = 0, '#' = 1, every other token an atom >= 1000 ---

var atomTab = map[string]int{}

func atom(tok string) int {
	if a, ok := atomTab[tok]; ok {
		return a
	}

	atomTab[tok] = 1000 + len(atomTab)

	return atomTab[tok]
}

func coqStr(s, sep string) string {
	var l []int

	for i, tok := range strings.Split(s, sep) {
		if i > 0 && sep == "." {
			l = append(l, 0)
		}

		l = append(l, atom(tok))
	}

	return hx.CoqNList(l)
}

func coqRef(ref string) string {
	i := strings.Index(ref, "#")
	return fmt.Sprintf("(mkref %s %s)", coqStr(ref[:i], "."), coqStr(ref[i+1:], "-"))
}

// coqRefs prints the DID documents involved (every keyAgreement entry, in document order), the sender's reference
// and the recipients' references.
func (p *pool) coqRefs(style string, auth bool, sender *env.Key, rcpts []*env.Key) string {
	var docs []string

	seen := map[string]bool{}
	add := func(k *env.Key) {
		if style == "diddoc" {
			if !seen[k.KeyDID()] {
				seen[k.KeyDID()] = true
				docs = append(docs, fmt.Sprintf("mkdoc %s [mkvm false %s %d true]", coqStr(k.KeyDID(), "."), coqStr("key-1", "-"), k.Name))
			}

			return
		}

		did := env.PartyDID(k.Owner)
		if seen[did] {
			return
		}

		seen[did] = true

		var vms []string
		for _, e := range p.w.PartyDoc(k.Owner) {
			name := 0
			if e.Key != nil {
				name = e.Key.Name
			}

			vms = append(vms, fmt.Sprintf("mkvm %s %s %d %s", hx.CoqBool(k.Owner%2 == 1), coqStr(e.Frag, "-"), name, hx.CoqBool(e.Key != nil)))
		}

		docs = append(docs, fmt.Sprintf("mkdoc %s %s", coqStr(did, "."), hx.CoqList(vms)))
	}

	sref := "(mkref [] [])"

	if auth {
		add(sender)
		sref = coqRef(sender.Ref(style))
	}

	var rr []string

	for _, k := range rcpts {
		add(k)
		rr = append(rr, coqRef(k.Ref(style)))
	}

	return fmt.Sprintf("(Some (%s, %s, %s))", hx.CoqList(docs), sref, hx.CoqList(rr))
}

// --- generators ---

func (p *pool) scenario(r *hx.Rng, packer, kt, enc, style, via, pay string, n int) Scenario {
	sc := Scenario{Packer: packer, KT: kt, Enc: enc, Style: style, Via: via, Payload: pay, PaySeed: r.Intn(200)}
	// party 0 sends; parties 1..4 receive; party 5 is the outsider; with some probability one party owns two
	// recipient keys, the sender is a recipient too, or a recipient key is listed twice
	sc.Sender = [2]int{0, r.Intn(nSlots)}
	off := r.Intn(4)

	for i := 0; i < n; i++ {
		pa := 1 + ((i + off) % 4)
		sc.Rcpts = append(sc.Rcpts, [2]int{pa, (i / 4) % nSlots})
	}

	switch r.Intn(8) {
	case 0:
		if n >= 2 { // one party holds two of the recipient keys
			sc.Rcpts[n-1] = [2]int{sc.Rcpts[0][0], 1 - sc.Rcpts[0][1]}
		}
	case 1: // the sender is a recipient as well
		sc.Rcpts[r.Intn(n)] = [2]int{0, 1 - sc.Sender[1]}
	case 2:
		if n >= 2 { // duplicate recipient
			sc.Rcpts[n-1] = sc.Rcpts[0]
		}
	}

	// shuffle recipients
	for i := n - 1; i > 0; i-- {
		j := r.Intn(i + 1)
		sc.Rcpts[i], sc.Rcpts[j] = sc.Rcpts[j], sc.Rcpts[i]
	}

	sc.Unpackers = []int{0, 1, 2, 3, 4, 5}

	if via == "packager" {
		// the transport forms packager.UnpackMessage accepts
		sc.Form = []string{"", "quoted", "quoted-pad"}[r.Intn(3)]
	}

	return sc
}

func corpus(p *pool, dir string, tr *hx.Trace) {
	files, _ := filepath.Glob(filepath.Join(dir, "*.json"))
	sort.Strings(files)

	for _, f := range files {
		b, err := os.ReadFile(f)
		if err != nil {
			continue
		}

		var c struct {
			Case Scenario `json:"case"`
		}

		if json.Unmarshal(b, &c) != nil || c.Case.Packer == "" {
			fmt.Fprintln(os.Stderr, "bad corpus file", f)
			os.Exit(2)
		}

		p.run("corpus:"+filepath.Base(f), c.Case, tr)
	}
}

func main() {
	args := hx.ParseArgs()
	tr := hx.NewTrace(args.Out)

	defer tr.Close()

	p := newPool()

	if args.Replay != "" {
		b, err := os.ReadFile(args.Replay)
		if err != nil {
			fmt.Fprintln(os.Stderr, err)
			os.Exit(2)
		}

		var c struct {
			Case Scenario `json:"case"`
		}

		_ = json.Unmarshal(b, &c)

		var pcs struct {
			Case PrimCase `json:"case"`
		}

		if json.Unmarshal(b, &pcs) == nil && pcs.Case.Prim != "" {
			p.runPrim(pcs.Case, tr)
			return
		}

		p.run("replay", c.Case, tr)

		return
	}

	corpus(p, args.Extra, tr)

	rng := hx.NewRng(args.Seed)
	thorough := args.Tier == "thorough"

	kts := []string{env.X25519, env.P256, env.P384}
	pays := []string{"empty", "one", "json", "binary", "block16", "large64k"}
	maxN := 4

	if thorough {
		kts = env.KTs
		pays = append(pays, "large1m")
		maxN = 16
	}

	i := uint64(0)
	next := func() *hx.Rng { i++; return rng.Fork(i) }

	// primitive contracts: the real key wrap / AEAD against the term algebra's equations
	p.genPrim(tr, kts)

	// systematic: packer x key type x enc x style x n, payload class rotating
	for _, packer := range []string{"jwe-auth", "jwe-anon"} {
		for _, kt := range kts {
			for _, enc := range env.Encs {
				for _, style := range []string{"didkey", "diddoc", "pdoc"} {
					for n := 1; n <= 3; n++ {
						if style == "pdoc" && n == 2 {
							continue
						}

						r := next()
						via := []string{"packager", "packer"}[r.Intn(2)]
						p.run("systematic", p.scenario(r, packer, kt, enc, style, via, pays[int(i)%len(pays)], n), tr)
					}
				}
			}
		}
	}

	for _, packer := range []string{"leg-auth", "leg-anon"} {
		for _, style := range []string{"didkey", "raw"} {
			for n := 1; n <= 4; n++ {
				for _, pay := range pays {
					via := "packager"
					if style == "raw" && (n+len(pay))%2 == 0 {
						via = "packer"
					}

					p.run("systematic", p.scenario(next(), packer, env.Ed25519, "XC20P", style, via, pay, n), tr)
				}
			}
		}
	}

	// the payload x recipient-count corner for every enc (empty and block-aligned payloads)
	for _, packer := range []string{"jwe-auth", "jwe-anon"} {
		for _, enc := range env.Encs {
			for _, pay := range []string{"empty", "one", "block16"} {
				for n := 1; n <= 2; n++ {
					p.run("corner", p.scenario(next(), packer, env.X25519, enc, "didkey", "packer", pay, n), tr)
				}
			}
		}
	}

	// raw legacy keys through the packager: the one pool key containing '#' (party 4, slot 1) as recipient
	for _, packer := range []string{"leg-auth", "leg-anon"} {
		for n := 1; n <= 3; n++ {
			for _, via := range []string{"packager", "packer"} {
				sc := p.scenario(next(), packer, env.Ed25519, "XC20P", "raw", via, "json", n)
				sc.Rcpts[n-1] = [2]int{4, 1}
				p.run("corner", sc, tr)
			}
		}
	}

	// histories through long-lived instances with DID documents that gain a key between two envelopes
	for _, packer := range []string{"jwe-auth", "jwe-anon"} {
		for _, kt := range []string{env.X25519, env.P256} {
			for _, style := range []string{"pdoc", "diddoc"} {
				for _, via := range []string{"packager", "packer"} {
					for n := 1; n <= 2; n++ {
						for lateSender := 0; lateSender < 2; lateSender++ {
							sc := p.scenario(next(), packer, kt, "XC20P", style, via, "json", n)
							sc.Sender = [2]int{0, lateSender}
							sc.Rcpts = nil

							for i := 0; i < n; i++ {
								sc.Rcpts = append(sc.Rcpts, [2]int{1 + i, 1 - (i+lateSender)%2}) // late keys (slot 1) and old ones
							}

							sc.History = true
							p.run("history", sc, tr)
						}
					}
				}
			}
		}
	}

	// recipient lists of mixed key types
	mixes := [][]string{{env.X25519, env.P256}, {env.P256, env.X25519}, {env.P256, env.P384}, {env.P384, env.P256, env.X25519},
		{env.X25519, env.X25519, env.P384}, {env.P256, env.P256}}
	for _, packer := range []string{"jwe-auth", "jwe-anon"} {
		for _, skt := range []string{env.X25519, env.P256} {
			for _, mix := range mixes {
				for _, via := range []string{"packager", "packer"} {
					sc := p.scenario(next(), packer, skt, "XC20P", "didkey", via, "json", len(mix))
					sc.Sender = [2]int{0, 0}
					sc.Rcpts = nil

					for i := range mix {
						sc.Rcpts = append(sc.Rcpts, [2]int{1 + i, 0})
					}

					sc.RKT = mix
					p.run("mixed", sc, tr)
				}
			}
		}
	}

	// key rotation in the recipient's KMS between pack and unpack, and before pack
	for _, packer := range []string{"jwe-auth", "jwe-anon", "leg-auth", "leg-anon"} {
		for _, kt := range []string{env.X25519, env.P256} {
			if strings.HasPrefix(packer, "leg") && kt != env.X25519 {
				continue
			}

			for _, mode := range []string{"before", "after"} {
				for n := 1; n <= 2; n++ {
					style, via := "didkey", []string{"packager", "packer"}[n%2]
					sc := p.scenario(next(), packer, kt, "XC20P", style, via, "json", n)
					sc.Sender = [2]int{0, 0}
					sc.Rcpts = nil

					for i := 0; i < n; i++ {
						sc.Rcpts = append(sc.Rcpts, [2]int{1 + i, 0})
					}

					sc.Rotate = mode
					p.run("rotation", sc, tr)
				}
			}
		}
	}

	// random
	nRandom := 3000
	if thorough {
		nRandom = 24000
	}

	packers := []string{"jwe-auth", "jwe-anon", "jwe-auth", "jwe-anon", "leg-auth", "leg-anon"}

	for k := 0; k < nRandom; k++ {
		r := next()
		packer := packers[r.Intn(len(packers))]
		kt := kts[r.Intn(len(kts))]
		if r.Intn(12) == 0 {
			kt = env.P521
		}

		enc := env.Encs[r.Intn(len(env.Encs))]
		style := []string{"didkey", "diddoc", "pdoc"}[r.Intn(3)]
		via := []string{"packager", "packer"}[r.Intn(2)]

		if strings.HasPrefix(packer, "leg") {
			style = []string{"didkey", "raw"}[r.Intn(2)]
			via = "packager"

			if style == "raw" && r.Bool() {
				via = "packer"
			}
		}

		pay := pays[r.Intn(len(pays))]
		if pay == "large1m" && r.Intn(4) != 0 {
			pay = "json"
		}

		p.run("random", p.scenario(r, packer, kt, enc, style, via, pay, 1+r.Intn(maxN)), tr)
	}
}
