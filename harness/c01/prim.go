package main

import (
	"bytes"
	"crypto/rand"
	"encoding/json"
	"fmt"

	"github.com/google/tink/go/keyset"

	"github.com/hyperledger/aries-framework-go/component/kmscrypto/crypto/tinkcrypto/primitive/composite"
	"github.com/hyperledger/aries-framework-go/component/kmscrypto/crypto/tinkcrypto/primitive/composite/ecdh"
	"github.com/hyperledger/aries-framework-go/component/kmscrypto/crypto/tinkcrypto/primitive/composite/keyio"
	cryptoapi "github.com/hyperledger/aries-framework-go/spi/crypto"

	env "verifharness/c01env"
	"verifharness/hx"
)

var aeadAlg = map[string]ecdh.AEADAlg{
	"A256GCM": ecdh.AES256GCM, "XC20P": ecdh.XC20P, "A128CBC": ecdh.AES128CBCHMACSHA256,
	"A192CBC": ecdh.AES192CBCHMACSHA384, "A256CBC384": ecdh.AES256CBCHMACSHA384, "A256CBC512": ecdh.AES256CBCHMACSHA512,
}

func cekSize(enc string) int {
	switch enc {
	case "A192CBC":
		return 48
	case "A256CBC384":
		return 56
	case "A256CBC512":
		return 64
	}

	return 32
}

// PrimCase is a replayable primitive-contract case.
type PrimCase struct {
	Prim  string `json:"prim"` // wrap-1pu | wrap-es | aead
	KT    string `json:"kt"`
	Enc   string `json:"enc"`
	Field string `json:"field"` // the single perturbed context field ("PNone": none)
}

func flip(b []byte) []byte {
	c := append([]byte{}, b...)
	if len(c) == 0 {
		return []byte{1}
	}

	c[len(c)/2] ^= 0x20

	return c
}

// runPrim runs the real primitive with one perturbed field and records whether it still returned the original value.
func (p *pool) runPrim(pc PrimCase, tr *hx.Trace) {
	rec := &hx.Record{Kind: "primitive", Case: pc, Oracle: "ok"}
	ok, applicable, detail := p.primExperiment(pc)

	if !applicable {
		return
	}

	// direct oracle: unperturbed => the original comes back; a perturbed field of the KDF / AEAD context => failure.
	// (fields that are NOT part of the context — tag and sender for ECDH-ES — must not matter)
	want := pc.Field == "PNone" || (pc.Prim == "wrap-es" && (pc.Field == "PTag" || pc.Field == "PSender"))
	if ok != want {
		rec.Oracle, rec.Sig = "fail", "primitive-contract:"+pc.Prim+":"+pc.Field
		rec.Detail = fmt.Sprintf("%+v: returned the original = %v, the algebra says %v (%s)", pc, ok, want, detail)
	}

	rec.Coq = fmt.Sprintf("{| c_cfg := mkcfg JweAnon %s %s DidKey; c_viapk := false; c_spar := []; c_payload := 0; c_sender := 0; c_rcpts := []; "+
		"c_refs := None; c_form := 0; c_history := false; c_kts := []; c_prim := Some {| pr_1pu := %s; pr_field := %s; pr_ok := %s |}; c_wraps := None; c_calls := None; c_att := []; "+
		"c_packed := false; c_unp := [] |}", pc.KT, pc.Enc, hx.CoqBool(pc.Prim == "wrap-1pu"), pc.Field, hx.CoqBool(ok))
	rec.Observed = map[string]interface{}{"returned_original": ok, "detail": detail}
	rec.Class = fmt.Sprintf("prim/%s/%s/%s/%s/%v", pc.Prim, pc.KT, pc.Enc, pc.Field, ok)
	rec.Dist = []string{"prim=" + pc.Prim, "kt=" + pc.KT, "enc=" + pc.Enc, "prim-field=" + pc.Field, fmt.Sprintf("prim-ok=%v", ok)}
	tr.Put(rec)
}

func (p *pool) primExperiment(pc PrimCase) (ok, applicable bool, detail string) {
	defer func() {
		if r := recover(); r != nil {
			ok, applicable, detail = false, true, fmt.Sprint("panic: ", r)
		}
	}()

	cek := make([]byte, cekSize(pc.Enc))
	_, _ = rand.Read(cek)

	if pc.Prim == "aead" {
		return p.aeadExperiment(pc, cek)
	}

	is1pu := pc.Prim == "wrap-1pu"
	sender, sender2 := p.keys[pc.KT][0][0], p.keys[pc.KT][0][1]
	rcp, rcp2 := p.keys[pc.KT][1][0], p.keys[pc.KT][2][0]
	sparty, rparty := p.w.Parties[0], p.w.Parties[1]
	apu, apv, tag := []byte("apu-"+pc.KT), []byte("apv-"+pc.Enc), []byte("0123456789abcdef")

	var wopts []cryptoapi.WrapKeyOpts
	if pc.KT == env.X25519 {
		wopts = append(wopts, cryptoapi.WithXC20PKW())
	}

	if is1pu {
		skh, err := sparty.KMS.Get(sender.KMSKID)
		if err != nil {
			return false, false, err.Error()
		}

		wopts = append(wopts, cryptoapi.WithSender(skh), cryptoapi.WithTag(tag))
	}

	pk := *rcp.Pub

	wk, err := sparty.Crypto.WrapKey(cek, apu, apv, &pk, wopts...)
	if err != nil {
		// the known pack-side restriction (56-byte CEK under ECDH-1PU with NIST-P keys): nothing to unwrap
		return false, false, err.Error()
	}

	// a second wrap to borrow a valid foreign EPK from
	pk2 := *rcp.Pub
	wk2, err := sparty.Crypto.WrapKey(cek, apu, apv, &pk2, wopts...)
	if err != nil {
		return false, false, err.Error()
	}

	rkey, rkparty := rcp, rparty
	usender, utag := sender, tag

	switch pc.Field {
	case "PAlg":
		alts := map[string]string{"ECDH-1PU+A128KW": "ECDH-1PU+A256KW", "ECDH-1PU+A192KW": "ECDH-1PU+A128KW", "ECDH-1PU+A256KW": "ECDH-1PU+A128KW",
			"ECDH-1PU+XC20PKW": "ECDH-1PU+A256KW", "ECDH-ES+A256KW": "ECDH-ES+XC20PKW", "ECDH-ES+XC20PKW": "ECDH-ES+A256KW"}
		wk.Alg = alts[wk.Alg]
	case "PApu":
		wk.APU = flip(wk.APU)
	case "PApv":
		wk.APV = flip(wk.APV)
	case "PTag":
		utag = flip(tag)
	case "PEpk":
		wk.EPK = wk2.EPK
	case "PSender":
		usender = sender2
	case "PRecipient":
		rkey, rkparty = rcp2, p.w.Parties[2]
	case "PEk":
		wk.EncryptedCEK = flip(wk.EncryptedCEK)
	}

	rkh, err := rkparty.KMS.Get(rkey.KMSKID)
	if err != nil {
		return false, false, err.Error()
	}

	var uopts []cryptoapi.WrapKeyOpts
	if pc.KT == env.X25519 {
		uopts = append(uopts, cryptoapi.WithXC20PKW())
	}

	if is1pu || pc.Field == "PSender" || pc.Field == "PTag" {
		spub := *usender.Pub

		skh, e := keyio.PublicKeyToKeysetHandle(&spub, aeadAlg[pc.Enc])
		if e != nil {
			return false, false, e.Error()
		}

		uopts = append(uopts, cryptoapi.WithSender(skh), cryptoapi.WithTag(utag))
	}

	got, err := rkparty.Crypto.UnwrapKey(wk, rkh, uopts...)
	if err != nil {
		return false, true, err.Error()
	}

	return bytes.Equal(got, cek), true, ""
}

func (p *pool) aeadExperiment(pc PrimCase, cek []byte) (bool, bool, string) {
	prim := func(key []byte) (*keyset.Handle, error) {
		return keyset.NewHandle(ecdh.KeyTemplateForECDHPrimitiveWithCEK(key, true, aeadAlg[pc.Enc]))
	}

	kh, err := prim(cek)
	if err != nil {
		return false, false, err.Error()
	}

	pubKH, err := kh.Public()
	if err != nil {
		return false, false, err.Error()
	}

	enc, err := ecdh.NewECDHEncrypt(pubKH)
	if err != nil {
		return false, false, err.Error()
	}

	pt, aad := []byte("primitive contract payload"), []byte("protected-header-b64")

	ser, err := enc.Encrypt(pt, aad)
	if err != nil {
		return false, false, err.Error()
	}

	ed := &composite.EncryptedData{}
	if err := json.Unmarshal(ser, ed); err != nil {
		return false, false, err.Error()
	}

	dkey := cek

	switch pc.Field {
	case "PAad":
		aad = flip(aad)
	case "PIv":
		ed.IV = flip(ed.IV)
	case "PCt":
		ed.Ciphertext = flip(ed.Ciphertext)
	case "PCTag":
		ed.Tag = flip(ed.Tag)
	case "PCek":
		dkey = flip(cek)
	}

	dkh, err := prim(dkey)
	if err != nil {
		return false, false, err.Error()
	}

	dec, err := ecdh.NewECDHDecrypt(dkh)
	if err != nil {
		return false, false, err.Error()
	}

	ser2, _ := json.Marshal(ed)

	got, err := dec.Decrypt(ser2, aad)
	if err != nil {
		return false, true, err.Error()
	}

	return bytes.Equal(got, pt), true, ""
}

func (p *pool) genPrim(tr *hx.Trace, kts []string) {
	for _, kt := range kts {
		for _, enc := range env.Encs {
			for _, prim := range []string{"wrap-1pu", "wrap-es"} {
				for _, f := range []string{"PNone", "PAlg", "PApu", "PApv", "PTag", "PEpk", "PSender", "PRecipient", "PEk"} {
					p.runPrim(PrimCase{Prim: prim, KT: kt, Enc: enc, Field: f}, tr)
				}
			}
		}
	}

	for _, enc := range env.Encs {
		for _, f := range []string{"PNone", "PAad", "PIv", "PCt", "PCTag", "PCek"} {
			p.runPrim(PrimCase{Prim: "aead", KT: env.X25519, Enc: enc, Field: f}, tr)
		}
	}
}
