// Package hx holds what every per-property harness binary shares: seeded PRNG, trace writer,
// command-line conventions.
package hx

import (
	"bufio"
	"encoding/json"
	"flag"
	"fmt"
	"os"
	"sort"
	"strconv"
	"strings"
)

// Rng is splitmix64: every random choice of a run derives from one seed.
type Rng struct{ s uint64 }

// NewRng returns a generator for the seed.
func NewRng(seed uint64) *Rng { return &Rng{s: seed*0x9E3779B97F4A7C15 + 0x1234567} }

// U64 returns the next value.
func (r *Rng) U64() uint64 {
	r.s += 0x9E3779B97F4A7C15
	z := r.s
	z = (z ^ (z >> 30)) * 0xBF58476D1CE4E5B9
	z = (z ^ (z >> 27)) * 0x94D049BB133111EB

	return z ^ (z >> 31)
}

// Intn returns a value in [0,n).
func (r *Rng) Intn(n int) int {
	if n <= 0 {
		return 0
	}

	return int(r.U64() % uint64(n))
}

// Bool returns a coin flip.
func (r *Rng) Bool() bool { return r.U64()&1 == 1 }

// Bytes returns n pseudo-random bytes.
func (r *Rng) Bytes(n int) []byte {
	b := make([]byte, n)
	for i := range b {
		b[i] = byte(r.U64())
	}

	return b
}

// Fork derives an independent generator (so that case i does not depend on how much case i-1 consumed).
func (r *Rng) Fork(i uint64) *Rng { return NewRng(r.s ^ (i+1)*0xD1B54A32D192ED03) }

// Record is one line of the trace: one case run on the implementation.
type Record struct {
	// ID is unique within the run.
	ID string `json:"id"`
	// Kind names the generator stream ("corpus", "exhaustive", "random", "attack", ...).
	Kind string `json:"kind"`
	// Coq is the case as a Gallina term of the property's `case` type (model input + observed outputs).
	// Empty when the record is checked by the direct oracle only.
	Coq string `json:"coq,omitempty"`
	// Case is the concrete, replayable description of the case.
	Case interface{} `json:"case"`
	// Observed is what the implementation did (projected observables).
	Observed interface{} `json:"observed,omitempty"`
	// Oracle is "ok" or "fail" (the property's direct oracle evaluated on the implementation's behaviour).
	Oracle string `json:"oracle"`
	// Sig classifies a failing case narrowly (matched against known_findings.json).
	Sig string `json:"sig,omitempty"`
	// Detail explains an oracle failure.
	Detail string `json:"detail,omitempty"`
	// Class is the non-triviality / distinctness key (cases with the same class count once).
	Class string `json:"class"`
	// Trivial marks cases that do not exercise the property (e.g. empty history).
	Trivial bool `json:"trivial,omitempty"`
	// Dist are labels counted into the input-distribution histogram of the evidence.
	Dist []string `json:"dist,omitempty"`
}

// Trace writes records as JSONL.
type Trace struct {
	f *os.File
	w *bufio.Writer
	n int
}

// Args are the common command-line arguments.
type Args struct {
	Tier   string
	Seed   uint64
	Out    string
	Replay string
	Extra  string
}

// ParseArgs parses the common flags.
func ParseArgs() Args {
	var a Args

	var seed string

	flag.StringVar(&a.Tier, "tier", "quick", "quick|thorough")
	flag.StringVar(&seed, "seed", "1", "seed")
	flag.StringVar(&a.Out, "out", "trace.jsonl", "trace output")
	flag.StringVar(&a.Replay, "replay", "", "replay file")
	flag.StringVar(&a.Extra, "extra", "", "property specific")
	flag.Parse()

	s, err := strconv.ParseUint(seed, 10, 64)
	if err != nil {
		s = 1
	}

	a.Seed = s

	return a
}

// NewTrace opens the trace file.
func NewTrace(path string) *Trace {
	f, err := os.Create(path)
	if err != nil {
		fmt.Fprintln(os.Stderr, "cannot create trace:", err)
		os.Exit(2)
	}

	return &Trace{f: f, w: bufio.NewWriterSize(f, 1<<20)}
}

// Put appends a record.
func (t *Trace) Put(r *Record) {
	if r.ID == "" {
		r.ID = fmt.Sprintf("%s-%d", r.Kind, t.n)
	}

	if r.Oracle == "" {
		r.Oracle = "ok"
	}

	b, err := json.Marshal(r)
	if err != nil {
		fmt.Fprintln(os.Stderr, "cannot marshal record:", err)
		os.Exit(2)
	}

	t.w.Write(b) //nolint
	t.w.WriteByte('\n')
	t.n++
}

// N is the number of records written.
func (t *Trace) N() int { return t.n }

// Close flushes the trace.
func (t *Trace) Close() {
	t.w.Flush()
	t.f.Close()
}

// --- helpers to print Gallina terms ---

// CoqN prints a non-negative number as an N literal.
func CoqN(n int) string { return fmt.Sprintf("%d%%N", n) }

// CoqZ prints an integer as a Z literal.
func CoqZ(n int64) string { return fmt.Sprintf("(%d)%%Z", n) }

// CoqNat prints a small number as a nat literal.
func CoqNat(n int) string { return fmt.Sprintf("%d%%nat", n) }

// CoqBool prints a bool.
func CoqBool(b bool) string {
	if b {
		return "true"
	}

	return "false"
}

// CoqList prints a list of already printed terms.
func CoqList(items []string) string { return "[" + strings.Join(items, "; ") + "]" }

// CoqNList prints a list of N literals.
func CoqNList(ns []int) string {
	s := make([]string, len(ns))
	for i, n := range ns {
		s[i] = CoqN(n)
	}

	return CoqList(s)
}

// CoqString prints a Coq string literal (only printable ASCII is passed through; others are dropped into \ddd-free
// form by hex-escaping with a prefix, which models never see because callers pre-encode).
func CoqString(s string) string {
	var b strings.Builder

	b.WriteByte('"')

	for _, c := range []byte(s) {
		if c == '"' {
			b.WriteString("\"\"")
		} else if c >= 32 && c < 127 {
			b.WriteByte(c)
		} else {
			b.WriteString(fmt.Sprintf("\\x%02x", c))
		}
	}

	b.WriteByte('"')

	return b.String()
}

// CoqOption prints an option.
func CoqOption(present bool, v string) string {
	if present {
		return "(Some " + v + ")"
	}

	return "None"
}

// SortedKeys returns the keys of a string-keyed map, sorted.
func SortedKeys(m map[string]int) []string {
	ks := make([]string, 0, len(m))
	for k := range m {
		ks = append(ks, k)
	}

	sort.Strings(ks)

	return ks
}
