package hx

import (
	"errors"
	"sync"

	"github.com/hyperledger/aries-framework-go/spi/storage"
)

// ErrInjected is the error returned by an injected storage fault.
var ErrInjected = errors.New("verif: injected storage fault")

// Call is one call made on a recorded provider/store.
type Call struct {
	Op     string        // OpenStore, SetStoreConfig, GetStoreConfig, Put, Get, GetTags, GetBulk, Query, Delete, Batch, Flush, Close
	Store  string        // store name
	Key    string        // Put/Get/GetTags/Delete
	Keys   []string      // GetBulk
	Value  []byte        // Put
	Tags   []storage.Tag // Put
	Expr   string        // Query
	Ops    []storage.Operation
	Config []string // SetStoreConfig tag names
	Failed bool     // the call returned an error
	Inject bool     // the error was injected (the inner provider was not reached)
}

// RecProvider wraps a provider: records every call and can make a call fail before it reaches the inner provider.
type RecProvider struct {
	Inner storage.Provider
	mu    sync.Mutex
	Calls []Call
	// Before, when non-nil, is consulted for every call; a non-nil error is returned to the caller and the
	// inner provider is not called.
	Before func(c *Call) error
	// Record switches call recording on.
	Record bool
}

// NewRecProvider wraps inner.
func NewRecProvider(inner storage.Provider) *RecProvider {
	return &RecProvider{Inner: inner, Record: true}
}

func (p *RecProvider) pre(c *Call) error {
	p.mu.Lock()
	defer p.mu.Unlock()

	var err error
	if p.Before != nil {
		err = p.Before(c)
	}

	if err != nil {
		c.Failed, c.Inject = true, true
		if p.Record {
			p.Calls = append(p.Calls, *c)
		}
	}

	return err
}

func (p *RecProvider) post(c *Call, err error) {
	p.mu.Lock()
	defer p.mu.Unlock()

	c.Failed = err != nil
	if p.Record {
		p.Calls = append(p.Calls, *c)
	}
}

// Reset drops the recorded calls.
func (p *RecProvider) Reset() {
	p.mu.Lock()
	p.Calls = nil
	p.mu.Unlock()
}

// Snapshot returns a copy of the recorded calls.
func (p *RecProvider) Snapshot() []Call {
	p.mu.Lock()
	defer p.mu.Unlock()

	return append([]Call(nil), p.Calls...)
}

// OpenStore implements storage.Provider.
func (p *RecProvider) OpenStore(name string) (storage.Store, error) {
	c := &Call{Op: "OpenStore", Store: name}
	if err := p.pre(c); err != nil {
		return nil, err
	}

	s, err := p.Inner.OpenStore(name)
	p.post(c, err)

	if err != nil {
		return nil, err
	}

	return &recStore{p: p, name: name, inner: s}, nil
}

// SetStoreConfig implements storage.Provider.
func (p *RecProvider) SetStoreConfig(name string, config storage.StoreConfiguration) error {
	c := &Call{Op: "SetStoreConfig", Store: name, Config: config.TagNames}
	if err := p.pre(c); err != nil {
		return err
	}

	err := p.Inner.SetStoreConfig(name, config)
	p.post(c, err)

	return err
}

// GetStoreConfig implements storage.Provider.
func (p *RecProvider) GetStoreConfig(name string) (storage.StoreConfiguration, error) {
	c := &Call{Op: "GetStoreConfig", Store: name}
	if err := p.pre(c); err != nil {
		return storage.StoreConfiguration{}, err
	}

	cfg, err := p.Inner.GetStoreConfig(name)
	p.post(c, err)

	return cfg, err
}

// GetOpenStores implements storage.Provider.
func (p *RecProvider) GetOpenStores() []storage.Store { return p.Inner.GetOpenStores() }

// Close implements storage.Provider.
func (p *RecProvider) Close() error {
	c := &Call{Op: "CloseProvider"}
	if err := p.pre(c); err != nil {
		return err
	}

	err := p.Inner.Close()
	p.post(c, err)

	return err
}

type recStore struct {
	p     *RecProvider
	name  string
	inner storage.Store
}

func (s *recStore) Put(key string, value []byte, tags ...storage.Tag) error {
	c := &Call{Op: "Put", Store: s.name, Key: key, Value: append([]byte(nil), value...), Tags: append([]storage.Tag(nil), tags...)}
	if err := s.p.pre(c); err != nil {
		return err
	}

	err := s.inner.Put(key, value, tags...)
	s.p.post(c, err)

	return err
}

func (s *recStore) Get(key string) ([]byte, error) {
	c := &Call{Op: "Get", Store: s.name, Key: key}
	if err := s.p.pre(c); err != nil {
		return nil, err
	}

	v, err := s.inner.Get(key)
	s.p.post(c, err)

	return v, err
}

func (s *recStore) GetTags(key string) ([]storage.Tag, error) {
	c := &Call{Op: "GetTags", Store: s.name, Key: key}
	if err := s.p.pre(c); err != nil {
		return nil, err
	}

	v, err := s.inner.GetTags(key)
	s.p.post(c, err)

	return v, err
}

func (s *recStore) GetBulk(keys ...string) ([][]byte, error) {
	c := &Call{Op: "GetBulk", Store: s.name, Keys: append([]string(nil), keys...)}
	if err := s.p.pre(c); err != nil {
		return nil, err
	}

	v, err := s.inner.GetBulk(keys...)
	s.p.post(c, err)

	return v, err
}

func (s *recStore) Query(expression string, options ...storage.QueryOption) (storage.Iterator, error) {
	c := &Call{Op: "Query", Store: s.name, Expr: expression}
	if err := s.p.pre(c); err != nil {
		return nil, err
	}

	v, err := s.inner.Query(expression, options...)
	s.p.post(c, err)

	return v, err
}

func (s *recStore) Delete(key string) error {
	c := &Call{Op: "Delete", Store: s.name, Key: key}
	if err := s.p.pre(c); err != nil {
		return err
	}

	err := s.inner.Delete(key)
	s.p.post(c, err)

	return err
}

func (s *recStore) Batch(operations []storage.Operation) error {
	c := &Call{Op: "Batch", Store: s.name, Ops: append([]storage.Operation(nil), operations...)}
	if err := s.p.pre(c); err != nil {
		return err
	}

	err := s.inner.Batch(operations)
	s.p.post(c, err)

	return err
}

func (s *recStore) Flush() error {
	c := &Call{Op: "Flush", Store: s.name}
	if err := s.p.pre(c); err != nil {
		return err
	}

	err := s.inner.Flush()
	s.p.post(c, err)

	return err
}

func (s *recStore) Close() error {
	c := &Call{Op: "Close", Store: s.name}
	if err := s.p.pre(c); err != nil {
		return err
	}

	err := s.inner.Close()
	s.p.post(c, err)

	return err
}
